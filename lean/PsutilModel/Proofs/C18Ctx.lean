/-
  Proofs/C18Ctx.lean — the execution context (entry errno, cached status file) does not matter:
  lemmas about the errno protocol of the native getters and about `cpuAffinitySetWith`.
-/
import PsutilModel.Proofs.C18Refine
namespace Psutil.C18
open Spec

theorem nerrOfErrno_code (e : Errno) : nerrOfErrno (errnoCode e) = .os e := by cases e <;> rfl

theorem errnoCode_ne_zero (e : Errno) : (errnoCode e != 0) = true := by cases e <;> rfl

/-- a getter whose successful results may be −1: with errno cleared and errno in the test the
    wrapper returns exactly what the system call produced, whatever errno was on entry -/
theorem nativeGetter_may (p : GetterProto) (h1 : p.clears = true) (h2 : p.test ≠ .sentinelOnly)
    (sys : Except Errno Int) (e : Nat) : nativeGetter p sys e = ofSys sys := by
  obtain ⟨cl, t⟩ := p
  simp only at h1 h2
  subst h1
  cases sys with
  | ok v =>
    cases t with
    | errnoOnly => simp [nativeGetter, libcCall, callFailed, ofSys]
    | sentinelAndErrno => simp [nativeGetter, libcCall, callFailed, ofSys]
    | sentinelOnly => exact absurd rfl h2
  | error er =>
    cases t with
    | errnoOnly => simp [nativeGetter, libcCall, callFailed, ofSys, errnoCode_ne_zero, nerrOfErrno_code]
    | sentinelAndErrno => simp [nativeGetter, libcCall, callFailed, ofSys, errnoCode_ne_zero, nerrOfErrno_code]
    | sentinelOnly => exact absurd rfl h2

/-- a getter whose successful results are never −1 -/
theorem nativeGetter_never (p : GetterProto) (h : p.test ≠ .errnoOnly ∨ p.clears = true)
    (sys : Except Errno Int) (hne : ∀ v, sys = .ok v → v ≠ -1) (e : Nat) :
    nativeGetter p sys e = ofSys sys := by
  obtain ⟨cl, t⟩ := p
  simp only at h
  cases sys with
  | ok v =>
    have hv : v ≠ -1 := hne v rfl
    cases t with
    | errnoOnly =>
      have : cl = true := by rcases h with h | h; exact absurd rfl h; exact h
      subst this
      simp [nativeGetter, libcCall, callFailed, ofSys]
    | sentinelAndErrno => simp [nativeGetter, libcCall, callFailed, ofSys, hv]
    | sentinelOnly => simp [nativeGetter, libcCall, callFailed, ofSys, hv]
  | error er =>
    cases t with
    | errnoOnly => simp [nativeGetter, libcCall, callFailed, ofSys, errnoCode_ne_zero, nerrOfErrno_code]
    | sentinelAndErrno => simp [nativeGetter, libcCall, callFailed, ofSys, errnoCode_ne_zero, nerrOfErrno_code]
    | sentinelOnly => simp [nativeGetter, libcCall, callFailed, ofSys, nerrOfErrno_code]

theorem niceGetX_eq (c : Cfg) (hg : c.Good) (k : Kernel) (pid e : Nat) : niceGetX c k pid e = niceGet k pid := by
  simp only [niceGetX, niceGet, cextGetpriorityE, cextGetpriority, nativeGetter_may _ hg.prio.1 hg.prio.2]

theorem ioniceGetX_eq (c : Cfg) (hg : c.Good) (k : Kernel) (pid e : Nat) :
    ioniceGetX c k pid e = ioniceGet c k pid := by
  simp only [ioniceGetX, ioniceGet, cextIoprioGetE, cextIoprioGet]
  cases hs : sysIoprioGet k pid with
  | ok n =>
    have h := nativeGetter_never c.ioprioGet hg.ioGet (.ok (n : Int))
      (by intro v hv; simp only [Except.ok.injEq] at hv; omega) e
    simp [h, ofSys]
  | error er =>
    have h := nativeGetter_never c.ioprioGet hg.ioGet (.error er) (by intro v hv; cases hv) e
    simp [h, ofSys]

theorem cextAffinityGetE_eq (c : Cfg) (hg : c.Good) (k : Kernel) (pid e : Nat) :
    cextAffinityGetE c.affGet k pid e = cextAffinityGet k pid := by
  simp only [cextAffinityGetE, cextAffinityGet]
  cases hs : sysSchedGetaffinity k pid with
  | ok n =>
    have h := nativeGetter_never c.affGet (Or.inl (by rw [hg.affGet]; decide)) (.ok 0)
      (by intro v hv; simp only [Except.ok.injEq] at hv; subst hv; decide) e
    simp [h, ofSys]
  | error er =>
    have h := nativeGetter_never c.affGet (Or.inl (by rw [hg.affGet]; decide)) (.error er) (by intro v hv; cases hv) e
    simp [h, ofSys]

/-- with the file read now and without the EINVAL fall-through, `cpuAffinitySetWith` is `cpuAffinitySet` -/
theorem cpuAffinitySetWith_plain (k : Kernel) (pid : Nat) (cpus : List Int) :
    cpuAffinitySetWith false (getEligibleCpus k pid) k pid cpus = cpuAffinitySet k pid cpus := by
  unfold cpuAffinitySetWith cpuAffinitySet
  cases cextAffinitySet k pid cpus with
  | ok k' => rfl
  | error er => simp

/-- with the EINVAL fall-through every refusal of the native layer that enters the diagnosis
    becomes ValueError, whatever `_get_eligible_cpus()` returned -/
theorem cpuAffinitySetWith_refused (el : List Nat) (k : Kernel) (pid : Nat) (cpus : List Int)
    (h : cextAffinitySet k pid cpus = .error .valueError ∨ cextAffinitySet k pid cpus = .error (.os .EINVAL)) :
    cpuAffinitySetWith true (some el) k pid cpus = (.exc .valueError, k) := by
  unfold cpuAffinitySetWith
  rcases h with h | h
  · rw [h]; simp [wrapExc]
  · rw [h]; simp only [or_true, if_true, true_and]
    split <;> rfl

/-- a non-empty list naming only unusable CPUs is refused by the native layer: "invalid CPU value"
    (a −1 in the list) or the kernel's EINVAL (nothing of the mask is granted) -/
theorem native_refuses_onlyUnusable (c : Cfg) (k : Kernel) (pid : Nat) (st : PState) (cpus : List Int)
    (hpid : pid ≠ 0) (hst : k.procs pid = some st) (hn : k.ncpu ≤ 1024) (h : OnlyUnusableCpus k st cpus) :
    cextAffinitySet k pid (dedup c cpus) = .error .valueError ∨
    cextAffinitySet k pid (dedup c cpus) = .error (.os .EINVAL) := by
  obtain ⟨_, hall⟩ := h
  have hl : AllLong cpus := fun v hv => (hall v hv).1
  by_cases hm1 : (-1 : Int) ∈ cpus
  · left
    have := cpuSetOfSeq_minus1 (allLong_dedup c hl) ((mem_dedup c cpus _).2 hm1)
    simp only [cextAffinitySet, this]
  · right
    obtain ⟨m, hm, hmem⟩ := cpuSetOfSeq_ok (allLong_dedup c hl) (fun h => hm1 ((mem_dedup c cpus _).1 h))
    have hmem' : ∀ x : Nat, x ∈ m ↔ (x < 1024 ∧ (x : Int) ∈ cpus) := fun x => by rw [hmem, mem_dedup c]
    have hgr := granted_eq k st m cpus hn hmem'
    have hnil : (List.range k.ncpu).filter
        (fun (x : Nat) => decide ((x : Int) ∈ cpus) && st.cpuset.contains x) = [] := by
      rw [List.filter_eq_nil_iff]
      intro x hx
      have hx' : x < k.ncpu := List.mem_range.1 hx
      simp only [Bool.and_eq_true, decide_eq_true_eq, List.contains_iff_mem]
      rintro ⟨h1, h2⟩
      rcases (hall _ h1).2 with h | h | h
      · omega
      · rw [Int.toNat_natCast] at h; omega
      · rw [Int.toNat_natCast] at h; exact h h2
    rw [hnil] at hgr
    simp only [cextAffinitySet, hm, sysSchedSetaffinity, resolve_pid k hpid, hst, hgr,
      List.isEmpty_nil, if_true, ofSys]

/-- what the specification can promise for a set form of `cpu_affinity` -/
theorem expect_affinity_set_shape {k : Kernel} {pid : Nat} {st : PState} {cpus : List Int} {o : Out} {k' : Kernel}
    (hs : Spec.expect k pid st (.cpuAffinity (some cpus)) = .promised o k') :
    o = .ok .none ∨ (o = .exc .valueError ∧ k' = k) := by
  simp only [Spec.expect] at hs
  split at hs
  · simp only [Verdict.promised.injEq] at hs; exact Or.inl hs.1.symm
  · split at hs
    · simp only [Verdict.promised.injEq] at hs; exact Or.inl hs.1.symm
    · split at hs
      · simp only [Verdict.promised.injEq] at hs; exact Or.inr ⟨hs.1.symm, hs.2.symm⟩
      · cases hs

theorem wrapExc_valueError {pid : Nat} {e : NErr} (h : wrapExc pid e = .valueError) : e = .valueError := by
  cases e with
  | os er => cases er <;> simp [wrapExc] at h
  | osRaw n => simp only [wrapExc] at h; split at h <;> cases h
  | valueError => rfl
  | overflowError => simp [wrapExc] at h
  | undefinedC => simp [wrapExc] at h
  | hang => simp [wrapExc] at h

/-- `cpu_affinity_set` answered: then the native layer succeeded, or refused in one of the two diagnosed ways -/
theorem cpuAffinitySet_cases (k : Kernel) (pid : Nat) (l : List Int) (o : Out) (k' : Kernel)
    (h : cpuAffinitySet k pid l = (o, k')) :
    (o = .ok .none → cextAffinitySet k pid l = .ok k') ∧
    (o = .exc .valueError → (cextAffinitySet k pid l = .error .valueError ∨
      cextAffinitySet k pid l = .error (.os .EINVAL))) := by
  unfold cpuAffinitySet at h
  cases hn : cextAffinitySet k pid l with
  | ok k2 =>
    rw [hn] at h
    simp only [Prod.mk.injEq] at h
    exact ⟨fun _ => by rw [h.2], fun ho => by rw [ho] at h; cases h.1⟩
  | error e =>
    rw [hn] at h
    refine ⟨fun ho => ?_, fun ho => ?_⟩
    · subst ho
      simp only at h
      split at h
      · split at h
        · cases h
        · split at h <;> cases h
      · cases h
    · by_cases he : e = .valueError ∨ e = .os .EINVAL
      · rcases he with he | he <;> subst he <;> simp
      · subst ho
        simp only [he, if_false, Prod.mk.injEq, Out.exc.injEq] at h
        exact absurd (Or.inl (wrapExc_valueError h.1)) he

theorem cpuAffinitySetWith_ok (b : Bool) (el : Option (List Nat)) (k : Kernel) (pid : Nat) (l : List Int) (k' : Kernel)
    (h : cextAffinitySet k pid l = .ok k') : cpuAffinitySetWith b el k pid l = (.ok .none, k') := by
  unfold cpuAffinitySetWith; rw [h]

end Psutil.C18
