/- Proofs/C03CauseR.lean — "the class matches the cause", exhaustive runs over the enumerated property plans
   (`decide +kernel`), source WITH the is_running() repair. Statements: Proofs/C03Tables.lean / Props/C03.lean. -/
import PsutilModel.Proofs.C03Tables
namespace Psutil.C03
open Spec

set_option maxRecDepth 100000 in
theorem cause_plain_r (r : Bool) : ∀ nm ∈ causePlain, CauseHolds ⟨r, true⟩ w0 nm 12 := by
  cases r <;> decide +kernel

set_option maxRecDepth 100000 in
theorem cause_probe_r (r : Bool) : ∀ x ∈ causeProbe, CauseHolds ⟨r, true⟩ w0 x.1 12 ∧ CauseHolds ⟨r, true⟩ wc x.1 16 := by
  cases r <;> decide +kernel

set_option maxRecDepth 100000 in
/-- the witness plans of the unrepaired source now give values -/
theorem cause_witness_r (r : Bool) :
    runK ⟨r, true⟩ w0 "ppid" ⟨w0, alwaysAlive, denyAt 0 .EACCES⟩ = some (.ok .int, 3) ∧
    runK ⟨r, true⟩ w0 "children" ⟨w0, alwaysAlive, denyAt 0 .EACCES⟩ = some (.ok (.procs []), 6) ∧
    runK ⟨r, true⟩ w0 "parent" ⟨w0, alwaysAlive, denyAt 1 .EACCES⟩ = some (.ok (.proc 101), 6) := by
  cases r <;> decide +kernel

end Psutil.C03
