/-
  Proofs/C10.lean — helper lemmas for Props/C10.lean (invariant of `_WrapNumbers.run`).
-/
import PsutilModel.Model.C10
import PsutilModel.Spec.C10
namespace Psutil.C10
open Spec

/-- the configuration under which the full statement holds -/
def Cfg.Good (cfg : Cfg) : Prop :=
  cfg.emptyFeedsWrap = true ∧ cfg.strictLess = true ∧ cfg.namesDistinct = true

def NodupKeys (r : Raw) : Prop := (r.map (·.1)).Nodup

theorem lookup_of_mem {r : Raw} (hn : NodupKeys r) {kv : Key × List Nat} (hm : kv ∈ r) :
    r.lookup kv.1 = some kv.2 := by
  induction r with
  | nil => cases hm
  | cons a as ih =>
    unfold NodupKeys at hn
    simp only [List.map_cons, List.nodup_cons] at hn
    cases hm with
    | head => simp [List.lookup]
    | tail _ h =>
      have hne : kv.1 ≠ a.1 := by
        intro e
        apply hn.1
        rw [← e]
        exact List.mem_map_of_mem (f := (·.1)) h
      have hb : (kv.1 == a.1) = false := by simpa using hne
      obtain ⟨ak, av⟩ := a
      simp only [List.lookup, hb]
      exact ih hn.2 h

theorem mem_of_lookup {r : Raw} {k : Key} {v : List Nat} (h : r.lookup k = some v) :
    (k, v) ∈ r := by
  induction r with
  | nil => simp [List.lookup] at h
  | cons a as ih =>
    obtain ⟨ak, av⟩ := a
    simp only [List.lookup] at h
    split at h
    · rename_i heq
      have : k = ak := by simpa using heq
      simp at h
      simp [this, h]
    · exact List.mem_cons_of_mem _ (ih h)

@[simp] theorem mapIdx_snd (v : List Nat) : (v.mapIdx fun _ x => x) = v := by
  apply List.ext_getElem (by simp)
  intro i h1 h2
  simp

/-- invariant tying one `WN` to the snapshot list (newest first) of its function -/
structure Inv (w : WN) (snaps : List Raw) : Prop where
  cache : w.cache = snaps.head?
  rem : ∀ k i, w.rem k i = wrapSum i (epochVals k snaps)

theorem inv_init : Inv WN.init [] := ⟨rfl, fun _ _ => rfl⟩

theorem epochVals_cons_some {k : Key} {r : Raw} {rs : List Raw} {v : List Nat}
    (h : r.lookup k = some v) : epochVals k (r :: rs) = v :: epochVals k rs := by
  simp [epochVals, h]

theorem epochVals_cons_none {k : Key} {r : Raw} {rs : List Raw}
    (h : r.lookup k = none) : epochVals k (r :: rs) = [] := by
  simp [epochVals, h]

theorem run_inv (cfg : Cfg) (hg : cfg.Good) (w : WN) (snaps : List Raw) (raw : Raw)
    (hi : Inv w snaps) : Inv (run cfg w raw).1 (raw :: snaps) := by
  obtain ⟨_, hs, _⟩ := hg
  cases snaps with
  | nil =>
    have hc : w.cache = none := by simpa using hi.cache
    refine ⟨by simp [run, hc], ?_⟩
    intro k i
    simp only [run, hc]
    cases hl : raw.lookup k with
    | none => simp [epochVals_cons_none hl, wrapSum]
    | some v => rw [epochVals_cons_some hl]; simp [epochVals, wrapSum]
  | cons old rest =>
    have hc : w.cache = some old := by simpa using hi.cache
    refine ⟨by simp [run, hc], ?_⟩
    intro k i
    simp only [run, hc, remAfter, wrapped, hs, if_true]
    have hr := hi.rem k i
    cases hl : raw.lookup k with
    | none =>
      simp only [epochVals_cons_none hl, wrapSum]
      cases ho : old.lookup k with
      | none => simp [hr, epochVals_cons_none ho, wrapSum]
      | some o => rfl
    | some v =>
      cases ho : old.lookup k with
      | none =>
        simp only [epochVals_cons_some hl, epochVals_cons_none ho, wrapSum]
        simp [hr, epochVals_cons_none ho, wrapSum]
      | some o =>
        simp only [epochVals_cons_some hl, epochVals_cons_some ho, wrapSum, hr]
        by_cases hlt : tupleAt v i < tupleAt o i
        · simp [hlt]; omega
        · simp [hlt]

/-- the tuple `run` returns for every listed device is the promised one -/
theorem run_out (cfg : Cfg) (hg : cfg.Good) (w : WN) (snaps : List Raw) (raw : Raw)
    (hi : Inv w snaps) (hn : NodupKeys raw) :
    (run cfg w raw).2
      = raw.map fun kv => (kv.1, ((expectedTuple (raw :: snaps) kv.1).getD kv.2)) := by
  obtain ⟨_, hs, _⟩ := hg
  cases snaps with
  | nil =>
    have hc : w.cache = none := by simpa using hi.cache
    simp only [run, hc]
    have key : (raw.map fun kv => (kv.1, ((expectedTuple [raw] kv.1).getD kv.2))) = raw.map id := by
      apply List.map_congr_left
      intro kv hm
      have hl := lookup_of_mem hn hm
      simp only [expectedTuple]
      rw [epochVals_cons_some hl]
      simp [epochVals, wrapSum]
    rw [key]; simp
  | cons old rest =>
    have hc : w.cache = some old := by simpa using hi.cache
    simp only [run, hc, outOf]
    apply List.map_congr_left
    intro kv hm
    have hl := lookup_of_mem hn hm
    cases ho : old.lookup kv.1 with
    | none =>
      simp only [expectedTuple]
      rw [epochVals_cons_some hl, epochVals_cons_none ho]
      simp [wrapSum]
    | some o =>
      simp only [expectedTuple, epochVals_cons_some hl, epochVals_cons_some ho, Option.getD_some]
      congr 1
      apply List.ext_getElem (by simp)
      intro i h1 h2
      simp only [List.getElem_mapIdx]
      congr 1
      simp only [remAfter, hl, ho, wrapped, hs, if_true, wrapSum, hi.rem kv.1 i,
        epochVals_cons_some ho]
      by_cases hlt : tupleAt kv.2 i < tupleAt o i
      · simp [hlt]; omega
      · simp [hlt]

/-- every counter tuple in the snapshot has width `w` (psutil: 9 for disks, 8 for NICs) -/
def RawW (w : Nat) (r : Raw) : Prop := ∀ kv ∈ r, kv.2.length = w

def OpW (w : Name → Nat) : Op → Prop
  | .call n _ raw => RawW (w n) raw ∧ NodupKeys raw
  | _ => True

/-- state invariant: each function's `WN` matches its own snapshot list -/
structure InvSt (w : Name → Nat) (s : St) (sn : Name → List Raw) : Prop where
  inv : ∀ n, Inv (s.get n) (sn n)
  width : ∀ n, ∀ r ∈ sn n, RawW (w n) r

theorem get_set_same (s : St) (n : Name) (x : WN) : (s.set n x).get n = x := by
  cases n <;> rfl

theorem get_set_other (s : St) (n m : Name) (x : WN) (h : m ≠ n) : (s.set n x).get m = s.get m := by
  cases n <;> cases m <;> first | rfl | exact absurd rfl h

theorem slot_good (c : Cfg) (hg : c.Good) (n : Name) : slot c n = n := by
  simp [slot, hg.2.2]

theorem widthMismatch_false {w : Nat} {old raw : Raw} (ho : RawW w old) (hr : RawW w raw) :
    widthMismatch old raw = false := by
  unfold widthMismatch
  rw [List.any_eq_false]
  intro kv hm
  cases hl : old.lookup kv.1 with
  | none => simp
  | some o =>
    have h1 := ho _ (mem_of_lookup hl)
    have h2 := hr _ hm
    simp only [decide_eq_true_eq]
    simp only at h1
    omega

/-- one step of the implementation model keeps the invariant w.r.t. one step of the spec -/
theorem step_inv (c : Cfg) (hg : c.Good) (w : Name → Nat) (s : St) (sn : Name → List Raw)
    (op : Op) (hw : OpW w op) (hi : InvSt w s sn) :
    InvSt w (step c s op).1 (fun n => snapsStep n (sn n) op) := by
  have hslot := slot_good c hg
  obtain ⟨he, _, _⟩ := hg
  cases op with
  | clearAll =>
    refine ⟨fun n => ?_, fun n r hr => by simp [snapsStep] at hr⟩
    cases n <;> exact inv_init
  | clear m =>
    refine ⟨fun n => ?_, fun n r hr => ?_⟩
    · by_cases h : m = n
      · subst h; simp only [step, hslot, snapsStep, if_true, get_set_same]; exact inv_init
      · have h' : n ≠ m := fun e => h e.symm
        simp only [step, hslot, snapsStep, h, if_false, get_set_other _ _ _ _ h']
        exact hi.inv n
    · by_cases h : m = n
      · subst h; simp [snapsStep] at hr
      · simp only [snapsStep, h, if_false] at hr; exact hi.width n r hr
  | call m nowrap raw =>
    obtain ⟨hwr, hnd⟩ := hw
    cases nowrap with
    | false =>
      have hst : (step c s (.call m false raw)).1 = s := by
        simp only [step]; split <;> simp
      rw [hst]
      refine ⟨fun n => ?_, fun n r hr => ?_⟩
      · simpa [snapsStep] using hi.inv n
      · simp only [snapsStep, Bool.false_eq_true, and_false, if_false] at hr
        exact hi.width n r hr
    | true =>
      have hrun : (step c s (.call m true raw)).1 = s.set m (run c (s.get m) raw).1 := by
        simp only [step, he, hslot, Bool.and_self, Bool.not_true, Bool.and_false,
          Bool.false_eq_true, if_false, if_true]
        cases hc : (s.get m).cache with
        | none => simp
        | some old =>
          have hhead : (sn m).head? = some old := by rw [← (hi.inv m).cache]; exact hc
          have hold : RawW (w m) old := hi.width m old (List.mem_of_mem_head? hhead)
          simp [widthMismatch_false hold hwr]
      rw [hrun]
      refine ⟨fun n => ?_, fun n r hr => ?_⟩
      · by_cases h : m = n
        · subst h
          simp only [get_set_same, snapsStep, and_self, if_true]
          exact run_inv c ⟨he, ‹_›, ‹_›⟩ _ _ raw (hi.inv m)
        · have h' : n ≠ m := fun e => h e.symm
          simp only [get_set_other _ _ _ _ h', snapsStep, h, false_and, if_false]
          exact hi.inv n
      · by_cases h : m = n
        · subst h
          simp only [snapsStep, and_self, if_true, List.mem_cons] at hr
          cases hr with
          | inl e => rw [e]; exact hwr
          | inr hr => exact hi.width m r hr
        · simp only [snapsStep, h, false_and, if_false] at hr
          exact hi.width n r hr

theorem runAll_inv (c : Cfg) (hg : c.Good) (w : Name → Nat) (h : List Op) :
    ∀ (s : St) (sn : Name → List Raw), (∀ op ∈ h, OpW w op) → InvSt w s sn →
      InvSt w (runAll c s h) (fun n => h.foldl (snapsStep n) (sn n)) := by
  induction h with
  | nil => intro s sn _ hi; exact hi
  | cons op ops ih =>
    intro s sn hw hi
    simp only [runAll, List.foldl_cons]
    exact ih _ _ (fun o ho => hw o (by simp [ho])) (step_inv c hg w s sn op (hw op (by simp)) hi)

theorem init_inv (w : Name → Nat) : InvSt w St.init (fun _ => []) :=
  ⟨fun n => by cases n <;> exact inv_init, fun n r hr => by cases hr⟩


end Psutil.C10
