/-
  Proofs/C10.lean — helper lemmas for Props/C10.lean (invariant of `_WrapNumbers.run`).
-/
import PsutilModel.Model.C10
import PsutilModel.Spec.C10
namespace Psutil.C10
open Spec

/-- the configuration under which the full statement holds -/
def Cfg.Good (cfg : Cfg) : Prop :=
  cfg.emptyFeedsWrap = true ∧ cfg.strictLess = true ∧ cfg.namesDistinct = true

def NodupKeys (r : Raw) : Prop := (r.map (·.1)).Nodup

theorem lookup_of_mem {r : Raw} (hn : NodupKeys r) {kv : Key × List Nat} (hm : kv ∈ r) :
    r.lookup kv.1 = some kv.2 := by
  induction r with
  | nil => cases hm
  | cons a as ih =>
    unfold NodupKeys at hn
    simp only [List.map_cons, List.nodup_cons] at hn
    cases hm with
    | head => simp [List.lookup]
    | tail _ h =>
      have hne : kv.1 ≠ a.1 := by
        intro e
        apply hn.1
        rw [← e]
        exact List.mem_map_of_mem (f := (·.1)) h
      have hb : (kv.1 == a.1) = false := by simpa using hne
      obtain ⟨ak, av⟩ := a
      simp only [List.lookup, hb]
      exact ih hn.2 h

theorem mem_of_lookup {r : Raw} {k : Key} {v : List Nat} (h : r.lookup k = some v) :
    (k, v) ∈ r := by
  induction r with
  | nil => simp [List.lookup] at h
  | cons a as ih =>
    obtain ⟨ak, av⟩ := a
    simp only [List.lookup] at h
    split at h
    · rename_i heq
      have : k = ak := by simpa using heq
      simp at h
      simp [this, h]
    · exact List.mem_cons_of_mem _ (ih h)

@[simp] theorem mapIdx_snd (v : List Nat) : (v.mapIdx fun _ x => x) = v := by
  apply List.ext_getElem (by simp)
  intro i h1 h2
  simp

/-- invariant tying one `WN` to the snapshot list (newest first) of its function -/
structure Inv (w : WN) (snaps : List Raw) : Prop where
  cache : w.cache = snaps.head?
  rem : ∀ k i, w.rem k i = wrapSum i (epochVals k snaps)

theorem inv_init : Inv WN.init [] := ⟨rfl, fun _ _ => rfl⟩

theorem epochVals_cons_some {k : Key} {r : Raw} {rs : List Raw} {v : List Nat}
    (h : r.lookup k = some v) : epochVals k (r :: rs) = v :: epochVals k rs := by
  simp [epochVals, h]

theorem epochVals_cons_none {k : Key} {r : Raw} {rs : List Raw}
    (h : r.lookup k = none) : epochVals k (r :: rs) = [] := by
  simp [epochVals, h]

theorem run_inv (cfg : Cfg) (hg : cfg.Good) (w : WN) (snaps : List Raw) (raw : Raw)
    (hi : Inv w snaps) : Inv (run cfg w raw).1 (raw :: snaps) := by
  obtain ⟨_, hs, _⟩ := hg
  cases snaps with
  | nil =>
    have hc : w.cache = none := by simpa using hi.cache
    refine ⟨by simp [run, hc], ?_⟩
    intro k i
    simp only [run, hc]
    cases hl : raw.lookup k with
    | none => simp [epochVals_cons_none hl, wrapSum]
    | some v => rw [epochVals_cons_some hl]; simp [epochVals, wrapSum]
  | cons old rest =>
    have hc : w.cache = some old := by simpa using hi.cache
    refine ⟨by simp [run, hc], ?_⟩
    intro k i
    simp only [run, hc, remAfter, wrapped, hs, if_true]
    have hr := hi.rem k i
    cases hl : raw.lookup k with
    | none =>
      simp only [epochVals_cons_none hl, wrapSum]
      cases ho : old.lookup k with
      | none => simp [hr, epochVals_cons_none ho, wrapSum]
      | some o => rfl
    | some v =>
      cases ho : old.lookup k with
      | none =>
        simp only [epochVals_cons_some hl, epochVals_cons_none ho, wrapSum]
        simp [hr, epochVals_cons_none ho, wrapSum]
      | some o =>
        simp only [epochVals_cons_some hl, epochVals_cons_some ho, wrapSum, hr]
        by_cases hlt : tupleAt v i < tupleAt o i
        · simp [hlt]; omega
        · simp [hlt]

/-- the tuple `run` returns for every listed device is the promised one -/
theorem run_out (cfg : Cfg) (hg : cfg.Good) (w : WN) (snaps : List Raw) (raw : Raw)
    (hi : Inv w snaps) (hn : NodupKeys raw) :
    (run cfg w raw).2
      = raw.map fun kv => (kv.1, ((expectedTuple (raw :: snaps) kv.1).getD kv.2)) := by
  obtain ⟨_, hs, _⟩ := hg
  cases snaps with
  | nil =>
    have hc : w.cache = none := by simpa using hi.cache
    simp only [run, hc]
    have key : (raw.map fun kv => (kv.1, ((expectedTuple [raw] kv.1).getD kv.2))) = raw.map id := by
      apply List.map_congr_left
      intro kv hm
      have hl := lookup_of_mem hn hm
      simp only [expectedTuple]
      rw [epochVals_cons_some hl]
      simp [epochVals, wrapSum]
    rw [key]; simp
  | cons old rest =>
    have hc : w.cache = some old := by simpa using hi.cache
    simp only [run, hc, outOf]
    apply List.map_congr_left
    intro kv hm
    have hl := lookup_of_mem hn hm
    cases ho : old.lookup kv.1 with
    | none =>
      simp only [expectedTuple]
      rw [epochVals_cons_some hl, epochVals_cons_none ho]
      simp [wrapSum]
    | some o =>
      simp only [expectedTuple, epochVals_cons_some hl, epochVals_cons_some ho, Option.getD_some]
      congr 1
      apply List.ext_getElem (by simp)
      intro i h1 h2
      simp only [List.getElem_mapIdx]
      congr 1
      simp only [remAfter, hl, ho, wrapped, hs, if_true, wrapSum, hi.rem kv.1 i,
        epochVals_cons_some ho]
      by_cases hlt : tupleAt kv.2 i < tupleAt o i
      · simp [hlt]; omega
      · simp [hlt]

end Psutil.C10
