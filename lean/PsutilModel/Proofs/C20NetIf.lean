/-
  Proofs/C20NetIf.lean — one call of `net_if_addrs()` on a native answer of any length: when the value
  handed to `_replace(broadcast=…)` is bound in the record's own iteration (`broadcastFresh`), the loop
  with its surviving function-level name is the record-by-record map; the stable sort by family only
  permutes.
-/
import PsutilModel.Model.C20Gen
namespace Psutil.C20

/-- with a fresh value on every path, one iteration yields exactly the single-record post-processing,
    whatever the previous iteration left behind -/
theorem netIfAddrsStep_fresh (c : Cfg) (hf : c.broadcastFresh = true) (w : Bool) (carry : Option Nat) (r : RawAddr) :
    (netIfAddrsStep c w carry r).1 = netIfAddrsEntry c w r := by
  unfold netIfAddrsStep netIfAddrsEntry broadcastHelper
  cases w <;> cases hfam : r.fam <;> cases hp : r.plen <;> simp [hf]
  all_goals
    rename_i n
    first
      | (by_cases h : n ≤ 32 <;> simp [h]; done)
      | (by_cases h : n ≤ 128 <;> simp [h]; done)

theorem netIfAddrsLoop_fresh (c : Cfg) (hf : c.broadcastFresh = true) (w : Bool) (carry : Option Nat)
    (rs : List (Nat × RawAddr)) :
    netIfAddrsLoop c w carry rs = rs.map fun x => (x.1, netIfAddrsEntry c w x.2) := by
  induction rs generalizing carry with
  | nil => rfl
  | cons x rest ih =>
    obtain ⟨nic, r⟩ := x
    simp [netIfAddrsLoop, netIfAddrsStep_fresh c hf, ih]

theorem insertByFam_perm (key : AddrFam → Nat) (x : Nat × RawAddr) (l : List (Nat × RawAddr)) :
    (insertByFam key x l).Perm (x :: l) := by
  induction l with
  | nil => exact List.Perm.refl _
  | cons y ys ih =>
    unfold insertByFam
    split
    · exact (List.Perm.cons y ih).trans (List.Perm.swap x y ys)
    · exact List.Perm.refl _

theorem sortByFam_perm (key : AddrFam → Nat) (rs : List (Nat × RawAddr)) : (sortByFam key rs).Perm rs := by
  induction rs with
  | nil => exact List.Perm.refl _
  | cons x rest ih =>
    show (insertByFam key x (sortByFam key rest)).Perm (x :: rest)
    exact (insertByFam_perm key x _).trans (List.Perm.cons x ih)

end Psutil.C20
