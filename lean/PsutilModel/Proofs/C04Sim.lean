/-
  Proofs/C04Sim.lean — one operation of a sequential history: the model step commutes with the
  specification step through the abstraction function `abs`.
-/
import PsutilModel.Proofs.C04Refine
namespace Psutil.C04
open Spec

/-! ## `runningPmap` under changes of the generator list -/

def runPm (g : Gen) : Option PMap :=
  match g.st with
  | .running pm _ _ => some pm
  | _ => none

theorem runningPmap_cons (x : Gen) (xs : List Gen) :
    runningPmap (x :: xs) = (runPm x).or (runningPmap xs) := by
  simp only [runningPmap, runPm]
  cases x.st <;> rfl

theorem runningPmap_congr : ∀ (a b : List Gen), a.map runPm = b.map runPm → runningPmap a = runningPmap b
  | [], [], _ => rfl
  | [], y :: ys, h => by simp at h
  | x :: xs, [], h => by simp at h
  | x :: xs, y :: ys, h => by
    simp only [List.map_cons, List.cons.injEq] at h
    rw [runningPmap_cons, runningPmap_cons, h.1, runningPmap_congr xs ys h.2]

theorem runPm_none_of_not_run {g : Gen} (h : isRun g = false) : runPm g = none := by
  simp only [isRun, runPm] at *
  cases hst : g.st <;> simp_all

theorem map_runPm_modify (gens : List Gen) (g : Nat) (st : GSt)
    (h1 : ∀ gen, gens[g]? = some gen → runPm gen = none) (h2 : ∀ x : Gen, runPm { x with st := st } = none) :
    (gens.modify g fun x => { x with st := st }).map runPm = gens.map runPm := by
  apply List.ext_getElem?
  intro i
  simp only [List.getElem?_map, List.getElem?_modify]
  cases hx : gens[i]? with
  | none => rfl
  | some x =>
    by_cases hgi : g = i
    · subst hgi
      simp only [if_true, Option.map_some, Functor.map]
      rw [h2, h1 x hx]
    · simp only [hgi, if_false, Option.map_some, Functor.map]

theorem runningPmap_append_fresh (gens : List Gen) (a : Attrs) :
    runningPmap (gens ++ [⟨a, .fresh⟩]) = runningPmap gens := by
  induction gens with
  | nil => rfl
  | cons x xs ih => rw [List.cons_append, runningPmap_cons, runningPmap_cons, ih]

/-! ## sequential states and operations -/

/-- invariant of sequential histories: at most one suspended generator, whose to-do entries
    agree with its private map -/
structure SeqInv (s : St) : Prop where
  inv : Inv s
  uniq : ∀ (i j : Nat) (gi gj : Gen), s.gens[i]? = some gi → s.gens[j]? = some gj →
    isRun gi = true → isRun gj = true → i = j
  entries : ∀ (i : Nat) (gen : Gen) (pm : PMap) (todo : List (Nat × Option Ref)) (l : List Nat),
    s.gens[i]? = some gen → gen.st = .running pm todo l → ∀ e ∈ todo, e.2 = pm.get e.1

/-- what makes a history *sequential*: a generator is advanced only while no other one is
    suspended; `cache_clear()` only while none is suspended; no `attrs` name whose getter starts
    with `_raise_if_pid_reused()`; the process table is not empty when psutil lists it; and — for
    the order of the current code, which takes the set differences before draining
    `_pids_reused` (lead L19) — no PID is flagged at the moment an iteration starts -/
def OpOK (cfg : Cfg) (s : St) : Op → Prop
  | .next g _ =>
    (∀ (j : Nat) (gen : Gen), j ≠ g → s.gens[j]? = some gen → isRun gen = false)
    ∧ (∀ gen, s.gens[g]? = some gen → NoReuse cfg gen.attrs
        ∧ (gen.st = .fresh → s.k.procs ≠ [] ∧ (cfg.drainFirst = true ∨ s.flagged = [])))
  | .cacheClear => ∀ (j : Nat) (gen : Gen), s.gens[j]? = some gen → isRun gen = false
  | .pids => s.k.procs ≠ []
  | .pidExists _ => s.k.procs ≠ []
  | _ => True

theorem SeqInv.of_gens_eq {s s' : St} (h : SeqInv s) (hi : Inv s') (hg : s'.gens = s.gens) : SeqInv s' :=
  ⟨hi, by rw [hg]; exact h.uniq, by rw [hg]; exact h.entries⟩

theorem abs_cache_none {s : St} (h : ∀ (j : Nat) (gen : Gen), s.gens[j]? = some gen → isRun gen = false) :
    (abs s).cache = s.pmap := by
  simp [abs, runningPmap_none s.gens h]

theorem abs_cache_unique {s : St} {g : Nat} {gen : Gen} {pm : PMap} {t : List (Nat × Option Ref)} {l : List Nat}
    (hg : s.gens[g]? = some gen) (hst : gen.st = .running pm t l)
    (ho : ∀ (j : Nat) (gen' : Gen), j ≠ g → s.gens[j]? = some gen' → isRun gen' = false) :
    (abs s).cache = pm := by
  simp [abs, runningPmap_unique s.gens g gen pm t l hg hst ho]

/-! ## `pid_exists` as a boolean -/

theorem listdir_ne_nil {k : Kernel} (h : k.procs ≠ []) : sortNat k.listdir ≠ [] := by
  intro hs
  cases hp : k.procs with
  | nil => exact h hp
  | cons p ps =>
    have : p.pid ∈ sortNat k.listdir := by rw [mem_sortNat, mem_listdir]; exact ⟨p, by simp [hp], rfl⟩
    rw [hs] at this; cases this

theorem pidExists_out (c : Cfg) (hr : c.rangeGuard = true) (s : St) (hwf : s.k.WF) (hne : s.k.procs ≠ []) (n : Int) :
    (pidExists c s n).2 = .bool (decide (0 ≤ n) && s.k.listdir.contains n.toNat)
    ∧ (pidExists c s n).1.gens = s.gens ∧ (pidExists c s n).1.k = s.k ∧ (pidExists c s n).1.pmap = s.pmap
    ∧ (pidExists c s n).1.flagged = s.flagged ∧ (pidExists c s n).1.objs = s.objs := by
  simp only [pidExists]
  by_cases hneg : n < 0
  · have : decide (0 ≤ n) = false := by simp; omega
    simp [hneg, this]
  · simp only [hneg, if_false]
    have hn0 : decide (0 ≤ n) = true := by simp; omega
    rw [hn0, Bool.true_and]
    by_cases hz : n.toNat = 0
    · simp only [hz, beq_self_eq_true, if_true]
      have hc := pidsCall_res s
      cases hp : pidsCall s with
      | mk s' res =>
        rw [hp] at hc
        obtain ⟨h1, h2, h3, h4, h5, h6⟩ := hc
        cases res with
        | none => exact absurd (by rw [h6]; rfl) (listdir_ne_nil hne)
        | some a =>
          simp only at h6 ⊢
          refine ⟨?_, h1, h2, h3, h4, h5⟩
          congr 1
          rw [h6.1]
          have : ∀ l : List Nat, (sortNat l).contains 0 = l.contains 0 := by
            intro l
            by_cases hm : 0 ∈ l
            · have h1 : 0 ∈ sortNat l := (mem_sortNat 0 l).mpr hm
              simp [hm, h1]
            · have h1 : 0 ∉ sortNat l := fun h => hm ((mem_sortNat 0 l).mp h)
              simp [hm, h1]
          exact this _
    · have hzb : (n.toNat == 0) = false := by simpa using hz
      simp only [hzb, Bool.false_eq_true, if_false, hr, Bool.true_and, decide_eq_true_eq]
      by_cases hbig : n.toNat > pidTMax
      · simp only [hbig, if_true, and_self, and_true]
        congr 1
        symm
        simp only [List.contains_eq_mem, decide_eq_false_iff_not, mem_listdir]
        rintro ⟨p, hp, e⟩
        have := hwf.bound p hp
        omega
      · simp only [hbig, if_false, and_self, and_true, platformPidExists, Kernel.kill]
        cases hfp : s.k.findProc n.toNat with
        | some p =>
          have hp := findProc_some hfp
          have hlisted : n.toNat ∈ s.k.listdir := mem_listdir.mpr ⟨p, hp.1, hp.2⟩
          have hcontains : s.k.listdir.contains n.toNat = true := by simpa using hlisted
          simp only [Kernel.readStatus, hfp, hcontains]
          cases p.foreign <;> cases p.status <;> simp [hlisted]
        | none =>
          have hnl : n.toNat ∉ s.k.listdir := by
            rw [mem_listdir]; rintro ⟨p, hp, e⟩; exact findProc_none hfp p hp e
          have hcontains : s.k.listdir.contains n.toNat = false := by simpa using hnl
          simp only [Kernel.readStatus, hfp, hcontains]
          cases hft : s.k.findThr n.toNat with
          | none => simp
          | some t =>
            have ht := findThr_some hft
            have hne' : t.tgid ≠ n.toNat := by rw [← ht.2]; exact hwf.thrTgid t ht.1
            have hb : (t.tgid == n.toNat) = false := by simpa using hne'
            simp only
            cases s.k.findProc t.tgid with
            | none => simp [hb]
            | some q => by_cases hq : q.foreign = true <;> simp [hq, hb]


/-! ## assembling `abs` of the state after a `visit` run -/

theorem abs_of_sim {g : Nat} {r : St × Out} {r' : SSt × Out} (h : SimRes g r r')
    (ho : ∀ (j : Nat) (gen' : Gen), j ≠ g → r.1.gens[j]? = some gen' → isRun gen' = false)
    (gen : Gen) (hg : r.1.gens[g]? = some gen) (hst : gen.st ≠ .fresh) :
    r'.1 = abs r.1 := by
  obtain ⟨s', out⟩ := r
  obtain ⟨ss', out'⟩ := r'
  obtain ⟨_, hk, hf, hob, hgn, hcr, hcd⟩ := h
  simp only at hk hf hob hgn hcr hcd ho hg ⊢
  have hcache : ss'.cache = (abs s').cache := by
    cases hs : gen.st with
    | fresh => exact absurd hs hst
    | running pm t l =>
      rw [abs_cache_unique hg hs ho]
      exact (hcr gen pm t l hg hs).1
    | done =>
      have hnone : ∀ (j : Nat) (gen' : Gen), s'.gens[j]? = some gen' → isRun gen' = false := by
        intro j gen' hj
        by_cases hjg : j = g
        · subst hjg
          rw [hg] at hj
          simp only [Option.some.injEq] at hj
          subst hj
          simp [isRun, hs]
        · exact ho j gen' hjg hj
      rw [abs_cache_none hnone]
      exact hcd gen hg hs
  cases ss' with
  | mk k c f o gs =>
    simp only at hk hf hob hgn hcache
    simp only [abs, SSt.mk.injEq]
    simp only [abs] at hcache
    exact ⟨hk, hcache, hf, hob, hgn⟩

theorem seqInv_after_visit {s' : St} {g : Nat} (hi : Inv s')
    (ho : ∀ (j : Nat) (gen' : Gen), j ≠ g → s'.gens[j]? = some gen' → isRun gen' = false)
    (he : ∀ gen pm t l, s'.gens[g]? = some gen → gen.st = .running pm t l → ∀ e ∈ t, e.2 = pm.get e.1) :
    SeqInv s' := by
  refine ⟨hi, ?_, ?_⟩
  · intro i j gi gj hgi hgj hri hrj
    by_cases hig : i = g
    · by_cases hjg : j = g
      · rw [hig, hjg]
      · rw [ho j gj hjg hgj] at hrj; cases hrj
    · rw [ho i gi hig hgi] at hri; cases hri
  · intro i gen pm todo l hgi hst
    by_cases hig : i = g
    · subst hig; exact he gen pm todo l hgi hst
    · have := ho i gen hig hgi
      simp [isRun, hst] at this

/-- `next(g)` in a sequential state -/
theorem next_sim (cfg : Cfg) (s : St) (hi : SeqInv s) (g : Nat) (mid : List KEv)
    (hok : OpOK cfg s (.next g mid)) :
    sstep cfg.validNames cfg.noAccessAttrs (abs s) (.next g mid)
      = (abs (genNext cfg s g mid).1, some (genNext cfg s g mid).2)
    ∧ SeqInv (genNext cfg s g mid).1 := by
  obtain ⟨hothers, hgen⟩ := hok
  have habs_gens : (abs s).gens[g]? = (s.gens[g]?).map absGen := by simp [abs]
  have gs := genNext_step cfg s g mid hi.inv
  simp only [sstep, habs_gens]
  unfold genNext at gs ⊢
  cases hg : s.gens[g]? with
  | none =>
    simp only [Option.map_none]
    rw [hg] at gs
    simp only at gs
    exact ⟨rfl, hi.of_gens_eq gs.1 (by simp [St.applyMid])⟩
  | some gen =>
    simp only [Option.map_some]
    rw [hg] at gs
    simp only at gs
    have hlt : g < s.gens.length := (List.getElem?_eq_some_iff.mp hg).1
    have hnr := (hgen gen hg).1
    cases hst : gen.st with
    | done =>
      simp only [absGen, hst]
      rw [hst] at gs
      simp only at gs
      exact ⟨rfl, hi.of_gens_eq gs.1 (by simp [St.applyMid])⟩
    | running pm todo listed =>
      simp only [absGen, hst]
      rw [hst] at gs
      simp only at gs
      have hok' := hi.inv.gens g gen hg
      simp only [GenOK, hst] at hok'
      have hcorr : Corr (s.applyMid mid) pm { abs s with k := s.k.applyAll mid } :=
        ⟨rfl, abs_cache_unique hg hst hothers, rfl, rfl, rfl⟩
      have sim := visit_sim cfg gen.attrs hnr g listed todo (s.applyMid mid) pm _ hcorr
        (hi.entries g gen pm todo listed hg hst) (sorted_nodup hok'.1) (by simpa [St.applyMid] using hlt)
      have him := hi.inv.applyMid mid
      have vs := visit_step cfg gen.attrs g listed todo (s.applyMid mid) pm gen him.kernel him.pmap
        (fun i gen' _ h => him.gens i gen' h) (by simpa [St.applyMid] using hg) hok'.1 hok'.2.1 hok'.2.2
      obtain ⟨v1, v2, _, _, _, v6, v7, v8⟩ := vs
      have hoth' : ∀ (j : Nat) (gen' : Gen), j ≠ g →
          (visit cfg gen.attrs g listed (s.applyMid mid) pm todo).1.gens[j]? = some gen' → isRun gen' = false := by
        intro j gen' hj hgj
        rw [v2 j hj] at hgj
        exact hothers j gen' hj (by simpa [St.applyMid] using hgj)
      have vr := visit_res cfg gen.attrs g listed todo (s.applyMid mid) pm
      have hgafter : ∃ gen', (visit cfg gen.attrs g listed (s.applyMid mid) pm todo).1.gens[g]? = some gen' ∧ gen'.st ≠ .fresh := by
        rcases vr.outcome with ⟨_, _, _, pm', rest, _, _, _, h3, _⟩ | ⟨_, h3, _⟩
        · rw [h3]; simp only [St.applyMid, hg, Option.map_some]; exact ⟨_, rfl, by simp⟩
        · rw [h3]; simp only [St.applyMid, hg, Option.map_some]; exact ⟨_, rfl, by simp⟩
      obtain ⟨gen', hg', hst'⟩ := hgafter
      have habs := abs_of_sim sim hoth' gen' hg' hst'
      refine ⟨?_, seqInv_after_visit v1 hoth' (fun gen'' pm' t l h1 h2 => (sim.cacheRun gen'' pm' t l h1 h2).2)⟩
      rw [← habs, ← sim.out]
      rfl
    | fresh =>
      simp only [absGen, hst]
      rw [hst] at gs
      simp only at gs
      have hne := ((hgen gen hg).2 hst).1
      have hd := ((hgen gen hg).2 hst).2
      have hall : ∀ (j : Nat) (gen' : Gen), s.gens[j]? = some gen' → isRun gen' = false := by
        intro j gen' hj
        by_cases hjg : j = g
        · subst hjg
          rw [hg] at hj
          simp only [Option.some.injEq] at hj
          subst hj
          simp [isRun, hst]
        · exact hothers j gen' hjg hj
      have hlisted_ne : (listed (abs s).k).isEmpty = false := by
        simp only [abs, listed]
        cases hp : s.k.procs with
        | nil => exact absurd hp hne
        | cons p ps => simp
      simp only [hlisted_ne, Bool.false_eq_true, if_false]
      have pr := prologue_res cfg s hi.inv.kernel.nodup hi.inv.pmap
      cases hp : prologue cfg s with
      | mk s1 res =>
        rw [hp] at pr gs
        simp only at pr gs
        obtain ⟨p1, p2, p3, p4, p5⟩ := pr
        cases res with
        | none =>
          exfalso
          simp only at p5
          cases hpp : s.k.procs with
          | nil => exact hne hpp
          | cons p ps => simp [Kernel.listdir, hpp] at p5
        | some x =>
          obtain ⟨pm, todo, lst⟩ := x
          simp only at p5 gs ⊢
          obtain ⟨q1, _, q3, q4, q5, q6, q7, q8⟩ := p5
          obtain ⟨q8a, q8b⟩ := q8 hd
          have hls : sortNat (listed (abs s).k) = todoPids todo := by
            rw [q8a, q1]; rfl
          have hcorr : Corr (s1.applyMid mid) pm
              { abs s with
                cache := ((abs s).cache.filter fun e => !(abs s).flagged.contains e.1).filter
                  fun e => (listed (abs s).k).contains e.1
                flagged := []
                k := (abs s).k.applyAll mid } := by
            refine ⟨by simp [St.applyMid, abs, p2], ?_, by simp [St.applyMid, q7], by simp [St.applyMid, abs, p4],
              by simp [St.applyMid, abs, p1]⟩
            simp only
            rw [abs_cache_none hall, q8b]
            apply List.filter_congr
            intro e _
            have : ∀ n, (listed (abs s).k).contains n = lst.contains n := by
              intro n
              have hl' : listed (abs s).k = s.k.listdir := rfl
              rw [hl', q1]
              by_cases hm : n ∈ s.k.listdir
              · have h1 : n ∈ sortNat s.k.listdir := (mem_sortNat n _).mpr hm
                simp [hm, h1]
              · have h1 : n ∉ sortNat s.k.listdir := fun h => hm ((mem_sortNat n _).mp h)
                simp [hm, h1]
            rw [this]
          have hlt1 : g < (s1.applyMid mid).gens.length := by simpa [St.applyMid, p1] using hlt
          have sim := visit_sim cfg gen.attrs hnr g lst todo (s1.applyMid mid) pm _ hcorr q6 (sorted_nodup q3) hlt1
          have hwf1 : (s1.applyMid mid).k.WF := by
            simp only [St.applyMid]; rw [p2]; exact Kernel.applyAll_wf s.k mid hi.inv.kernel
          have hg1 : (s1.applyMid mid).gens[g]? = some gen := by simpa [St.applyMid, p1] using hg
          have vs := visit_step cfg gen.attrs g lst todo (s1.applyMid mid) pm gen hwf1
            (by simp only [St.applyMid]; rw [p3]; exact hi.inv.pmap)
            (fun i gen' _ h => hi.inv.gens i gen' (by simpa [St.applyMid, p1] using h)) hg1 q3 q4 q5
          obtain ⟨v1, v2, _, _, _, _, _, _⟩ := vs
          have hoth' : ∀ (j : Nat) (gen' : Gen), j ≠ g →
              (visit cfg gen.attrs g lst (s1.applyMid mid) pm todo).1.gens[j]? = some gen' → isRun gen' = false := by
            intro j gen' hj hgj
            rw [v2 j hj] at hgj
            exact hothers j gen' hj (by simpa [St.applyMid, p1] using hgj)
          have vr := visit_res cfg gen.attrs g lst todo (s1.applyMid mid) pm
          have hgafter : ∃ gen', (visit cfg gen.attrs g lst (s1.applyMid mid) pm todo).1.gens[g]? = some gen' ∧ gen'.st ≠ .fresh := by
            rcases vr.outcome with ⟨_, _, _, pm', rest, _, _, _, h3, _⟩ | ⟨_, h3, _⟩
            · rw [h3, hg1]; simp only [Option.map_some]; exact ⟨_, rfl, by simp⟩
            · rw [h3, hg1]; simp only [Option.map_some]; exact ⟨_, rfl, by simp⟩
          obtain ⟨gen', hg', hst'⟩ := hgafter
          have habs := abs_of_sim sim hoth' gen' hg' hst'
          refine ⟨?_, seqInv_after_visit v1 hoth' (fun gen'' pm' t l h1 h2 => (sim.cacheRun gen'' pm' t l h1 h2).2)⟩
          rw [hls, ← habs, ← sim.out]


theorem abs_objs_get (s : St) (r : Ref) : (abs s).objs[r]? = (s.objs[r]?).map absObj := by
  simp [abs]

/-- one operation of a sequential history commutes with the specification machine -/
theorem step_sim (cfg : Cfg) (hr : cfg.rangeGuard = true)
    (s : St) (hi : SeqInv s) (op : Op) (hok : OpOK cfg s op) :
    sstep cfg.validNames cfg.noAccessAttrs (abs s) op = (abs (step cfg s op).1, some (step cfg s op).2)
    ∧ SeqInv (step cfg s op).1 := by
  have hinv := (step_inv cfg s op hi.inv).1
  cases op with
  | kev e =>
    exact ⟨rfl, hi.of_gens_eq hinv rfl⟩
  | pids =>
    have hne : s.k.procs ≠ [] := hok
    have hc := pidsCall_res s
    simp only [step] at hinv ⊢
    simp only [sstep]
    have hl : listed (abs s).k = s.k.listdir := rfl
    rw [hl]
    cases hp : pidsCall s with
    | mk s' res =>
      rw [hp] at hc hinv
      obtain ⟨h1, h2, h3, h4, h5, h6⟩ := hc
      simp only at h1 h2 h3 h4 h5
      have habs : abs s' = abs s := by simp [abs, h1, h2, h3, h4, h5]
      cases res with
      | none => exact absurd (by rw [h6]; rfl) (listdir_ne_nil hne)
      | some a =>
        simp only at h6 hinv ⊢
        rw [← h6.1]
        cases ha : a with
        | nil => exact absurd ha h6.2
        | cons x xs =>
          simp only
          exact ⟨by rw [habs], hi.of_gens_eq hinv h1⟩
  | pidExists n =>
    have hne : s.k.procs ≠ [] := hok
    have po := pidExists_out cfg hr s hi.inv.kernel hne n
    simp only [step] at hinv ⊢
    simp only [sstep]
    obtain ⟨o1, o2, o3, o4, o5, o6⟩ := po
    have hl : listed (abs s).k = s.k.listdir := rfl
    have hnotempty : (listed (abs s).k).isEmpty = false := by
      rw [hl]
      cases hpp : s.k.procs with
      | nil => exact absurd hpp hne
      | cons p ps => simp [Kernel.listdir, hpp]
    have habs : abs (pidExists cfg s n).1 = abs s := by simp [abs, o2, o3, o4, o5, o6]
    simp only [hnotempty, Bool.false_eq_true, and_false, if_false]
    rw [habs, o1, hl]
    exact ⟨rfl, hi.of_gens_eq hinv o2⟩
  | iter attrs =>
    simp only [step] at hinv ⊢
    simp only [sstep]
    refine ⟨?_, hinv, ?_, ?_⟩
    · simp [abs, runningPmap_append_fresh, absGen]
    · intro i j gi gj hgi hgj hri hrj
      have key : ∀ (i : Nat) (gi : Gen), (s.gens ++ [⟨attrs, .fresh⟩])[i]? = some gi → isRun gi = true →
          s.gens[i]? = some gi := by
        intro i gi hgi hri
        by_cases hlt : i < s.gens.length
        · rwa [List.getElem?_append_left hlt] at hgi
        · rw [List.getElem?_append_right (by omega)] at hgi
          cases hidx : i - s.gens.length with
          | zero =>
            rw [hidx] at hgi
            simp only [List.getElem?_cons_zero, Option.some.injEq] at hgi
            subst hgi; simp [isRun] at hri
          | succ k => rw [hidx] at hgi; simp at hgi
      exact hi.uniq i j gi gj (key i gi hgi hri) (key j gj hgj hrj) hri hrj
    · intro i gen pm todo l hgi hst
      by_cases hlt : i < s.gens.length
      · rw [List.getElem?_append_left hlt] at hgi
        exact hi.entries i gen pm todo l hgi hst
      · rw [List.getElem?_append_right (by omega)] at hgi
        cases hidx : i - s.gens.length with
        | zero =>
          rw [hidx] at hgi
          simp only [List.getElem?_cons_zero, Option.some.injEq] at hgi
          subst hgi; cases hst
        | succ k => rw [hidx] at hgi; simp at hgi
  | next g mid =>
    exact next_sim cfg s hi g mid hok
  | close g =>
    simp only [step, genClose] at hinv ⊢
    simp only [sstep]
    have habs_gens : (abs s).gens[g]? = (s.gens[g]?).map absGen := by simp [abs]
    rw [habs_gens]
    cases hg : s.gens[g]? with
    | none => simp only [Option.map_none]; exact ⟨trivial, hi⟩
    | some gen =>
      simp only [Option.map_some]
      rw [hg] at hinv
      simp only at hinv
      have hgensmap : ∀ (s0 : St), s0.gens = s.gens →
          ((abs s).setGen g .done).gens = ((s0.setGen g .done).gens).map absGen := by
        intro s0 h0
        simp only [SSt.setGen, St.setGen, abs, h0]
        exact (map_modify_absGen s.gens g .done .done absGen_done).symm
      -- invariants of the state whose generator `g` became `done`
      have hseq : ∀ (s0 : St), s0.gens = s.gens → Inv (s0.setGen g .done) → SeqInv (s0.setGen g .done) := by
        intro s0 h0 hi0
        refine ⟨hi0, ?_, ?_⟩
        · intro i j gi gj hgi hgj hri hrj
          have key : ∀ (i : Nat) (gi : Gen), (s0.setGen g .done).gens[i]? = some gi → isRun gi = true →
              s.gens[i]? = some gi := by
            intro i gi hgi hri
            by_cases hig : i = g
            · subst hig
              rw [setGen_get_self, h0, hg] at hgi
              simp only [Option.map_some, Option.some.injEq] at hgi
              subst hgi; simp [isRun] at hri
            · rwa [setGen_get_ne _ _ _ _ hig, h0] at hgi
          exact hi.uniq i j gi gj (key i gi hgi hri) (key j gj hgj hrj) hri hrj
        · intro i gen' pm todo l hgi hst
          by_cases hig : i = g
          · subst hig
            rw [setGen_get_self, h0, hg] at hgi
            simp only [Option.map_some, Option.some.injEq] at hgi
            subst hgi; cases hst
          · rw [setGen_get_ne _ _ _ _ hig, h0] at hgi
            exact hi.entries i gen' pm todo l hgi hst
      cases hst : gen.st with
      | fresh =>
        simp only
        rw [hst] at hinv
        simp only at hinv
        refine ⟨?_, hseq s rfl hinv⟩
        have hrun : runningPmap (s.setGen g .done).gens = runningPmap s.gens := by
          apply runningPmap_congr
          simp only [St.setGen]
          apply map_runPm_modify
          · intro gen' hg'
            rw [hg] at hg'
            simp only [Option.some.injEq] at hg'
            subst hg'
            simp [runPm, hst]
          · intro x; rfl
        have hg2 := hgensmap s rfl
        simp only [SSt.setGen] at hg2 ⊢
        simp only [abs, hrun]
        simp only [abs] at hg2
        rw [hg2]
        rfl
      | running pm todo listed =>
        simp only
        rw [hst] at hinv
        simp only at hinv
        have hothers : ∀ (j : Nat) (gen' : Gen), j ≠ g → s.gens[j]? = some gen' → isRun gen' = false := by
          intro j gen' hj hgj
          cases hrun : isRun gen' with
          | false => rfl
          | true =>
            exfalso
            exact hj (hi.uniq j g gen' gen hgj hg hrun (by simp [isRun, hst]))
        have hcache : (abs s).cache = pm := abs_cache_unique hg hst hothers
        have hnone : ∀ (j : Nat) (gen' : Gen), (finish s g pm).gens[j]? = some gen' → isRun gen' = false := by
          intro j gen' hgj
          by_cases hjg : j = g
          · subst hjg
            rw [finish_get_self, hg] at hgj
            simp only [Option.map_some, Option.some.injEq] at hgj
            subst hgj; simp [isRun]
          · simp only [finish] at hgj
            rw [setGen_get_ne _ _ _ _ hjg] at hgj
            exact hothers j gen' hjg hgj
        have hseq' : SeqInv (finish s g pm) := by
          have := hseq s rfl ⟨hinv.kernel, hi.inv.pmap, hinv.gens⟩
          exact ⟨hinv, this.uniq, this.entries⟩
        refine ⟨?_, hseq'⟩
        have hg2 := hgensmap s rfl
        have hc2 : (abs (finish s g pm)).cache = pm := by rw [abs_cache_none hnone]; rfl
        simp only [SSt.setGen] at hg2 ⊢
        have : abs (finish s g pm) = { abs s with gens := (abs s).gens.modify g fun x => { x with st := .done } } := by
          simp only [abs] at hc2 hcache hg2 ⊢
          simp only [SSt.mk.injEq]
          refine ⟨rfl, by rw [hc2, hcache], rfl, rfl, ?_⟩
          rw [hg2]; rfl
        rw [this]
      | done =>
        simp only
        refine ⟨?_, hi⟩
        have : (abs s).setGen g .done = abs s := by
          simp only [SSt.setGen]
          have : ((abs s).gens.modify g fun x => { x with st := .done }) = (abs s).gens := by
            apply List.ext_getElem?
            intro i
            simp only [List.getElem?_modify]
            by_cases hgi : g = i
            · subst hgi
              rw [habs_gens, hg]
              simp [absGen, hst]
            · simp only [hgi, if_false]
              cases (abs s).gens[i]? <;> rfl
          rw [this]
        rw [this]
  | cacheClear =>
    have hnone : ∀ (j : Nat) (gen : Gen), s.gens[j]? = some gen → isRun gen = false := hok
    simp only [step] at hinv ⊢
    simp only [sstep]
    refine ⟨?_, hi.of_gens_eq hinv rfl⟩
    have h1 : (abs { s with pmap := [] }).cache = [] := abs_cache_none (s := { s with pmap := [] }) hnone
    simp only [abs] at h1 ⊢
    simp only [Prod.mk.injEq, SSt.mk.injEq, and_true, true_and]
    exact h1.symm
  | isRunning r =>
    simp only [step] at hinv ⊢
    simp only [sstep, abs_objs_get]
    cases ho : s.objs[r]? with
    | none => simp only [Option.map_none]; exact ⟨trivial, hi⟩
    | some o =>
      simp only [Option.map_some]
      rw [ho] at hinv
      simp only at hinv
      have hfr := isRunningObj_frame s r o
      refine ⟨?_, hi.of_gens_eq hinv hfr.1⟩
      simp only [sIsRunning, isRunningObj, absObj]
      by_cases hdead : (o.gone || o.reused) = true
      · simp [hdead]
      · have hdead' : (o.gone || o.reused) = false := by simpa using hdead
        simp only [hdead', Bool.false_eq_true, if_false]
        have hk : (abs s).k = s.k := rfl
        rw [hk]
        cases hs : s.k.statStart o.pid with
        | none =>
          simp only [abs, St.setObj, List.map_set, absObj, Bool.true_or]
        | some b =>
          simp only
          by_cases hb : (b == o.ident) = true
          · simp [hb]
          · simp only [hb, Bool.false_eq_true, if_false]
            simp only [abs, St.setObj, List.map_set, absObj, Bool.true_or]

/-- sequential histories (see `OpOK`) -/
def SeqHist (cfg : Cfg) : St → List Op → Prop
  | _, [] => True
  | s, op :: ops => OpOK cfg s op ∧ SeqHist cfg (step cfg s op).1 ops

theorem trace_sim (cfg : Cfg) (hr : cfg.rangeGuard = true) (h : List Op) :
    ∀ (s : St), SeqInv s → SeqHist cfg s h →
      strace cfg.validNames cfg.noAccessAttrs (abs s) h = (trace cfg s h).map some := by
  induction h with
  | nil => intro s _ _; rfl
  | cons op ops ih =>
    intro s hi hs
    obtain ⟨hok, hrest⟩ := hs
    have st := step_sim cfg hr s hi op hok
    simp only [strace, trace, List.map_cons]
    rw [st.1]
    simp only
    rw [ih _ st.2 hrest]

theorem init_seqInv (k : Kernel) (h : k.WF) : SeqInv (St.init k) :=
  ⟨init_inv k h, by intro i j gi gj hgi; simp [St.init] at hgi, by intro i gen pm todo l hgi; simp [St.init] at hgi⟩

theorem abs_init (k : Kernel) : abs (St.init k) = SSt.init k := rfl

end Psutil.C04
