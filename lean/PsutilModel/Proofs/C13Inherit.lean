/-
  Proofs/C13Inherit.lean — `memory_maps` on files whose mappings do NOT all print the same key
  list: what the never-cleared dict of `get_blocks` makes of them, exactly.
-/
import PsutilModel.Proofs.C13Round
namespace Psutil.C13
open Psutil Psutil.C13.Spec

/-- well-formed for its own key list -/
structure WfO (strips : Bool) (m : Mapping) : Prop where
  wf : WfM strips (m.kv.map (·.key)) m
  nodup : (m.kv.map (·.key)).Nodup
  ne : m.kv ≠ []

theorem wfOwn_spec {strips : Bool} {m : Mapping} (h : wfOwn strips m = true) : WfO strips m := by
  unfold wfOwn at h
  simp only [Bool.and_eq_true, Bool.not_eq_true', decide_eq_true_eq] at h
  obtain ⟨⟨hne, hnd⟩, hw⟩ := h
  refine ⟨wfMapping_spec hw, hnd, ?_⟩
  intro e
  rw [e] at hne
  simp at hne

theorem wfSmapsOwn_spec {strips : Bool} {ms : List Mapping} (h : wfSmapsOwn strips ms = true) :
    ∀ x ∈ ms, WfO strips x := by
  unfold wfSmapsOwn at h
  simp only [List.all_eq_true] at h
  exact fun x hx => wfOwn_spec (h x hx)

/-! ### the file as lines (no common key list needed) -/

theorem smaps_lines_own {strips : Bool} (m : Mapping) (ms : List Mapping)
    (hw : ∀ x ∈ m :: ms, WfO strips x) :
    (readSmaps (renderSmaps (m :: ms))).isEmpty = false
      ∧ splitOn 10 (readSmaps (renderSmaps (m :: ms))) = headerLine m :: restLines m ms := by
  have hlines : ∀ l ∈ (m :: ms).flatMap mappingLines, LineOK l := by
    intro l hl
    obtain ⟨x, hx, hlx⟩ := List.mem_flatMap.mp hl
    exact lineOK_mapping x (hw x hx).wf l hlx
  have hkv : ∀ x ∈ m :: ms, x.kv ≠ [] := fun x hx => (hw x hx).ne
  have hfl : ∀ x ∈ m :: ms, ∀ fs, x.flags = some fs → wfFlags fs = true := fun x hx => (hw x hx).wf.flags
  have hne : (m :: ms).flatMap mappingLines ≠ [] := by
    simp [List.flatMap_cons, mappingLines_eq]
  have hlast : ∀ l, ((m :: ms).flatMap mappingLines).getLast? = some l → rstripWs l ≠ [] := by
    intro l hl
    obtain ⟨_, c0, t, hct, hc0⟩ := hlines l (List.mem_of_getLast? hl)
    rw [hct]; exact rstripWs_ne_of_head c0 t hc0
  have hsplit := splitOn_rstrip_unlines _ hne (fun l hl => (hlines l hl).1) hlast
  have hnonempty := rstripWs_unlines_ne _ hne hlast
  obtain ⟨_, c0, t0, hct0, hc0⟩ := hlines (headerLine m) (by simp [List.flatMap_cons, mappingLines_eq])
  have hfile : ∃ t, unlines ((m :: ms).flatMap mappingLines) = c0 :: t := by
    rw [List.flatMap_cons, mappingLines_eq, List.cons_append, unlines_cons, hct0]
    exact ⟨_, rfl⟩
  obtain ⟨tf, htf⟩ := hfile
  unfold readSmaps renderSmaps
  rw [htf, stripWs_of_head_nonws c0 tf hc0, ← htf]
  have hemp : (rstripWs (unlines ((m :: ms).flatMap mappingLines))).isEmpty = false := by
    cases h : rstripWs (unlines ((m :: ms).flatMap mappingLines)) with
    | nil => exact absurd h hnonempty
    | cons a b => rfl
  exact ⟨hemp, by rw [hsplit, modLast_lines m ms hkv hfl]⟩

theorem memoryMaps_eq_blocks_own (c : Cfg) (probe : Bytes → Probe) (zombie : Bool) {strips : Bool}
    (m : Mapping) (ms : List Mapping) (hw : ∀ x ∈ m :: ms, WfO strips x) :
    memoryMaps c probe zombie (renderSmaps (m :: ms))
      = blocks c probe (restLines m ms) (headerLine m) [] := by
  obtain ⟨hemp, hsplit⟩ := smaps_lines_own m ms hw
  unfold memoryMaps
  simp only [hemp, Bool.false_eq_true, if_false, hsplit]

/-! ### the dict represents "the latest value of every key seen so far" -/

def Rep (d : Dict) (seen : List Mapping) : Prop :=
  ∀ k, d.lookup (k ++ [58]) = (lastSeen? seen k).map (· * 1024)

theorem rep_nil : Rep [] [] := fun _ => rfl

theorem rep_dictOf (m : Mapping) (d : Dict) (seen : List Mapping)
    (hnd : (m.kv.map (·.key)).Nodup) (hd : Rep d seen) : Rep (dictOf 1024 m.kv d) (m :: seen) := by
  intro k
  rw [lookup_dictOf 1024 m.kv d k hnd]
  simp only [lastSeen?]
  cases m.kv.find? (fun e => e.key == k) with
  | some e => rfl
  | none => exact hd k

theorem mkNums_rep (c : Cfg) (hg : c.Good) (d : Dict) (seen : List Mapping) (hd : Rep d seen) :
    mkNums c d = rowKeys.map fun k => 1024 * lastSeen seen k := by
  unfold mkNums
  rw [hg.mapsKeys, List.map_map]
  apply List.map_congr_left
  intro k _
  simp only [Function.comp, hd k, lastSeen]
  cases lastSeen? seen k with
  | some v => simp [Nat.mul_comm]
  | none => simp

/-- the row only depends on the dict through `mkNums` -/
theorem mkRow_nums (c : Cfg) (probe : Bytes → Probe) (h : Bytes) (d d' : Dict) (r : Row)
    (hr : mkRow c probe h d = .ok r) : mkRow c probe h d' = .ok { r with nums := mkNums c d' } := by
  unfold mkRow at hr ⊢
  split at hr
  · rename_i addr perms _ _ _ path _
    cases hf : fixPath c probe path with
    | ok p =>
      simp only [hf, Except.ok.injEq] at hr ⊢
      rw [← hr]
    | error e => simp [hf] at hr
  · simp only [Except.ok.injEq] at hr ⊢
    rw [← hr]
  · simp at hr

theorem mkRow_inherit (c : Cfg) (hg : c.Good) (probe : Bytes → Probe) (m : Mapping) (d : Dict)
    (seen : List Mapping) (hw : WfO c.stripsPath m) (hfs : fsConsistent probe m = true)
    (hd : Rep d (m :: seen)) :
    mkRow c probe (headerLine m) d = .ok (inheritRow seen m) := by
  have h0 : mkRow c probe (headerLine m) (dictOf c.mapsFactor m.kv []) = .ok (specRow m) :=
    mkRow_header c hg probe _ m _ hw.wf hfs
      (mkNums_dictOf c hg m [] hw.nodup (fun _ _ => rfl))
  rw [mkRow_nums c probe _ _ d _ h0, mkNums_rep c hg d _ hd]
  rfl

theorem header_split (strips : Bool) (m : Mapping) (hw : WfO strips m) :
    ∃ tl, splitWsN 5 (headerLine m) = addrStr m :: tl := by
  cases hp : m.path with
  | none => exact ⟨_, split_header_anon m hp⟩
  | some p =>
    have hwp := hw.wf.path p hp
    unfold wfPath at hwp
    cases p with
    | nil => simp at hwp
    | cons c0 t =>
      simp only [Bool.and_eq_true, Bool.not_eq_true'] at hwp
      obtain ⟨t', ht'⟩ := shown_head (c0 :: t) m.deleted c0 t rfl
      exact ⟨_, split_header_path m (c0 :: t) hp c0 t' ht' (isWs_of_isUWs hwp.1.1)⟩

theorem blocks_inherit (c : Cfg) (hg : c.Good) (probe : Bytes → Probe) (m : Mapping)
    (ms : List Mapping) (d : Dict) (seen : List Mapping)
    (hw : ∀ x ∈ m :: ms, WfO c.stripsPath x) (hfs : ∀ x ∈ m :: ms, fsConsistent probe x = true)
    (hd : Rep d seen) :
    blocks c probe (restLines m ms) (headerLine m) d
      = .ok (inheritRows c.dictPerBlock seen (m :: ms)) := by
  induction ms generalizing m d seen with
  | nil =>
    have hm := hw m (by simp)
    have hkeys : ∀ e ∈ m.kv, wfKey e.key = true := fun e he => wfKV_key (hm.wf.kv e he)
    simp only [restLines, tailLinesLast]
    rw [blocks_kvs c probe m.kv _ _ d hkeys]
    have := blocks_flagLinesLast c hg probe m [] (headerLine m) (dictOf c.mapsFactor m.kv d) hm.wf.flags
    rw [List.append_nil] at this
    rw [this]
    simp only [blocks]
    have hrep : Rep (dictOf c.mapsFactor m.kv d) (m :: seen) := by
      rw [hg.mapsFactor]; exact rep_dictOf m d seen hm.nodup hd
    rw [mkRow_inherit c hg probe m _ seen hm (hfs m (by simp)) hrep]
    rfl
  | cons m2 ms' ih =>
    have hm := hw m (by simp)
    have hkeys : ∀ e ∈ m.kv, wfKey e.key = true := fun e he => wfKV_key (hm.wf.kv e he)
    have hrep : Rep (dictOf c.mapsFactor m.kv d) (m :: seen) := by
      rw [hg.mapsFactor]; exact rep_dictOf m d seen hm.nodup hd
    simp only [restLines, tailLines, List.append_assoc]
    rw [blocks_kvs c probe m.kv _ _ d hkeys, blocks_flagLines c hg probe m _ _ _ hm.wf.flags]
    have hrow := mkRow_inherit c hg probe m _ seen hm (hfs m (by simp)) hrep
    have hnext : Rep (if c.dictPerBlock then [] else dictOf c.mapsFactor m.kv d)
        (if c.dictPerBlock then [] else m :: seen) := by
      cases c.dictPerBlock
      · simpa using hrep
      · exact rep_nil
    have ih' := ih m2 _ _ (fun x hx => hw x (by simp [hx])) (fun x hx => hfs x (by simp [hx])) hnext
    obtain ⟨tl, hs⟩ := header_split c.stripsPath m2 (hw m2 (by simp))
    rw [blocks_hdr c probe _ _ _ _ _ tl _ _ hs (addr_no_colon_end m2) hrow ih']
    rfl

/-! ### when is the never-forgetting reader right? -/

theorem lastSeen_cons (m : Mapping) (seen : List Mapping) (k : Bytes) :
    lastSeen (m :: seen) k = if m.has k then m.get k else lastSeen seen k := by
  unfold lastSeen Mapping.has Mapping.get
  simp only [lastSeen?]
  cases m.kv.find? (fun e => e.key == k) <;> simp

theorem get_of_not_has (m : Mapping) (k : Bytes) (h : m.has k = false) : m.get k = 0 := by
  unfold Mapping.has at h
  unfold Mapping.get
  cases hf : m.kv.find? (fun e => e.key == k) with
  | some e => simp [hf] at h
  | none => rfl

theorem inheritRow_eq_iff (seen : List Mapping) (m : Mapping) :
    inheritRow seen m = specRow m
      ↔ rowKeys.all (fun k => m.has k || lastSeen seen k == 0) = true := by
  unfold inheritRow specRow
  simp only [Row.mk.injEq, true_and, List.map_inj_left, List.all_eq_true, Bool.or_eq_true, beq_iff_eq]
  constructor
  · intro h k hk
    have := h k hk
    rw [lastSeen_cons] at this
    cases hh : m.has k with
    | true => exact Or.inl rfl
    | false =>
      rw [hh, get_of_not_has m k hh] at this
      simp only [Bool.false_eq_true, if_false] at this
      exact Or.inr (by omega)
  · intro h k hk
    rw [lastSeen_cons]
    rcases h k hk with hh | hz
    · simp [hh]
    · cases hh : m.has k with
      | true => simp
      | false => simp [hz, get_of_not_has m k hh]

theorem inheritRows_eq_iff (seen : List Mapping) (ms : List Mapping) :
    inheritRows false seen ms = ms.map specRow ↔ noStale seen ms = true := by
  induction ms generalizing seen with
  | nil => simp [inheritRows, noStale]
  | cons m ms' ih =>
    simp only [inheritRows, noStale, List.map_cons, List.cons.injEq, Bool.and_eq_true,
      Bool.false_eq_true, if_false]
    rw [inheritRow_eq_iff, ih]

theorem inheritRow_nil (m : Mapping) : inheritRow [] m = specRow m := by
  rw [inheritRow_eq_iff]
  simp [lastSeen, lastSeen?]

theorem inheritRows_perBlock (ms : List Mapping) : inheritRows true [] ms = ms.map specRow := by
  induction ms with
  | nil => rfl
  | cons m ms' ih => simp [inheritRows, inheritRow_nil, ih]

/-! ### uniform key lists are never stale -/

theorem has_of_keys (m : Mapping) (k : Bytes) : m.has k = (m.kv.map (·.key)).contains k := by
  unfold Mapping.has
  induction m.kv with
  | nil => rfl
  | cons e t ih =>
    simp only [List.find?, List.map_cons, List.contains_cons]
    cases he : (e.key == k) with
    | true =>
      have : (k == e.key) = true := by rw [beq_iff_eq] at he ⊢; exact he.symm
      simp [this]
    | false =>
      have : (k == e.key) = false := by
        rw [beq_eq_false_iff_ne] at he ⊢; exact fun h => he h.symm
      simp [this, ih]

theorem lastSeen_absent (K : List Bytes) (seen : List Mapping) (k : Bytes)
    (hs : ∀ x ∈ seen, x.kv.map (·.key) = K) (hk : K.contains k = false) : lastSeen seen k = 0 := by
  induction seen with
  | nil => rfl
  | cons m t ih =>
    rw [lastSeen_cons]
    have : m.has k = false := by rw [has_of_keys, hs m (by simp)]; exact hk
    simp only [this, Bool.false_eq_true, if_false]
    exact ih (fun x hx => hs x (by simp [hx]))

theorem noStale_of_uniform (K : List Bytes) (seen ms : List Mapping)
    (hs : ∀ x ∈ seen, x.kv.map (·.key) = K) (hm : ∀ x ∈ ms, x.kv.map (·.key) = K) :
    noStale seen ms = true := by
  induction ms generalizing seen with
  | nil => rfl
  | cons m ms' ih =>
    simp only [noStale, Bool.and_eq_true, List.all_eq_true, Bool.or_eq_true, beq_iff_eq]
    refine ⟨fun k _ => ?_, ih (m :: seen) ?_ (fun x hx => hm x (by simp [hx]))⟩
    · cases hh : m.has k with
      | true => exact Or.inl rfl
      | false =>
        right
        apply lastSeen_absent K seen k hs
        rw [has_of_keys, hm m (by simp)] at hh
        exact hh
    · intro x hx
      rcases List.mem_cons.mp hx with h | h
      · rw [h]; exact hm m (by simp)
      · exact hs x h

end Psutil.C13
