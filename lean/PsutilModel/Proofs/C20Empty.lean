/-
  Proofs/C20Empty.lean — the table behind `C20_empty_answer_faults_within_spec_partial` (seeded
  round 5): the call sequences of the runs in which one native answer about the process came back
  EMPTY (kept out of Props so that each file builds in well under a minute).
-/
import PsutilModel.Proofs.C20Faults
namespace Psutil.C20

/-- a row of `tracesEmpty` seen as a row of native calls: (method, pid, calls) -/
def emptyRowCalls (row : String × Nat × String × List String) : String × Nat × List String :=
  (row.1, row.2.1, row.2.2.2)

/-- the code as it is, no call site excluded, the one known deviation tolerated (`tol`) or not -/
def emptyRowOK (tol : Bool) (p : Platform) (row : String × Nat × String × List String) : Bool :=
  traceRowOKt tol cfg (fun _ m => m) (fun _ _ _ => false) p (emptyRowCalls row)

theorem empty_faults_table :
    ∀ p ∈ Platform.all, ∀ row ∈ tracesEmptyOf p, emptyRowOK true p row = true := by
  decide +kernel

/-- the `os.path.*` questions of the generated call sequences are the transcribed ones, both ways -/
def pathProbesOK (p : Platform) : Bool :=
  (pathProbesSeen p).all (fun x => (pathProbeSites p).contains x) &&
  (pathProbeSites p).all (fun x => (pathProbesSeen p).contains x)

theorem path_probes_table : ∀ p ∈ Platform.all, pathProbesOK p = true := by
  decide +kernel

end Psutil.C20
