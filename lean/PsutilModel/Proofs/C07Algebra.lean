/-
  Proofs/C07Algebra.lean — the list-based `calculate()` code of the model computes the
  record-based formulas of Spec/C07.lean, for each of the four field sets Linux can expose.
-/
import PsutilModel.Proofs.C07Arith
namespace Psutil.C07
open Spec

theorem beq_fld (a b : Fld) : (a == b) = decide (a = b) := by cases a <;> cases b <;> rfl

/-- the number of exposed columns is 7, 8, 9 or 10 -/
theorem nfOf_cases (vlen : Nat) : nfOf vlen = 7 ∨ nfOf vlen = 8 ∨ nfOf vlen = 9 ∨ nfOf vlen = 10 := by
  unfold nfOf
  by_cases h7 : vlen ≤ 7
  · simp [h7]
  · by_cases h10 : 10 ≤ vlen
    · simp [h7, h10]
    · simp only [h7, h10, if_false]; omega

/-- `scputimes._fields` = the first `nfOf vlen` kernel columns, in kernel order -/
theorem fieldsFor_eq (c : Cfg) (hg : c.Good) (vlen : Nat) :
    fieldsFor c vlen = kernelOrder.take (nfOf vlen) := by
  unfold fieldsFor nfOf kernelOrder
  rw [hg.base, hg.opt]
  by_cases h7 : vlen ≤ 7
  · have a : ¬ 8 ≤ vlen := by omega
    have b : ¬ 9 ≤ vlen := by omega
    have d : ¬ 10 ≤ vlen := by omega
    simp [List.filter, h7, a, b, d]
  · by_cases h10 : 10 ≤ vlen
    · have a : 8 ≤ vlen := by omega
      have b : 9 ≤ vlen := by omega
      simp [List.filter, h7, h10, a, b]
    · have a : 8 ≤ vlen := by omega
      by_cases h9 : 9 ≤ vlen
      · have e : vlen = 9 := by omega
        subst e
        simp [List.filter]
      · have e : vlen = 8 := by omega
        subst e
        simp [List.filter]

theorem fieldsFor_length (c : Cfg) (hg : c.Good) (vlen : Nat) :
    (fieldsFor c vlen).length = nfOf vlen := by
  rw [fieldsFor_eq c hg]
  rcases nfOf_cases vlen with h | h | h | h <;> rw [h] <;> rfl

theorem expose_length (nf : Nat) (h : nf ≤ 10) (t : Times) : (t.expose nf).length = nf := by
  simp [Times.expose, Times.cols]; omega

/-- `_cpu_times_deltas` = per-column advance -/
theorem deltas_eq (c : Cfg) (hg : c.Good) (nf : Nat) (o n : Times) :
    deltas c (o.expose nf) (n.expose nf) = advs nf o n := by
  unfold deltas advs Times.expose
  have hd : delta c = adv := by
    funext a b
    simp [delta, hg.clipZero, rmax_zero_eq_adv]
  rw [List.take_zipWith, hd]

section core
variable (c : Cfg) (hg : c.Good) (o n : Times)
include hg

theorem tot_busy_7 :
    totTime c (kernelOrder.take 7) (advs 7 o n) = total 7 o n ∧
    busyTime c (kernelOrder.take 7) (advs 7 o n) = some (busy 7 o n) := by
  simp [totTime, busyTime, subOpt, subReq, getF, hg.totSub, hg.busySubReq, hg.busySubOpt, advs,
    Times.cols, kernelOrder, total, busy, stealAdv, List.lookup, beq_fld]
  constructor <;> ring

theorem tot_busy_8 :
    totTime c (kernelOrder.take 8) (advs 8 o n) = total 8 o n ∧
    busyTime c (kernelOrder.take 8) (advs 8 o n) = some (busy 8 o n) := by
  simp [totTime, busyTime, subOpt, subReq, getF, hg.totSub, hg.busySubReq, hg.busySubOpt, advs,
    Times.cols, kernelOrder, total, busy, stealAdv, List.lookup, beq_fld]
  constructor <;> ring

theorem tot_busy_9 :
    totTime c (kernelOrder.take 9) (advs 9 o n) = total 9 o n ∧
    busyTime c (kernelOrder.take 9) (advs 9 o n) = some (busy 9 o n) := by
  simp [totTime, busyTime, subOpt, subReq, getF, hg.totSub, hg.busySubReq, hg.busySubOpt, advs,
    Times.cols, kernelOrder, total, busy, stealAdv, List.lookup, beq_fld]
  constructor <;> ring

theorem tot_busy_10 :
    totTime c (kernelOrder.take 10) (advs 10 o n) = total 10 o n ∧
    busyTime c (kernelOrder.take 10) (advs 10 o n) = some (busy 10 o n) := by
  simp [totTime, busyTime, subOpt, subReq, getF, hg.totSub, hg.busySubReq, hg.busySubOpt, advs,
    Times.cols, kernelOrder, total, busy, stealAdv, List.lookup, beq_fld]
  constructor <;> ring

/-- `_cpu_tot_time` / `_cpu_busy_time` on the deltas = elapsed / busy time of the specification -/
theorem tot_busy (nf : Nat) (hnf : nf = 7 ∨ nf = 8 ∨ nf = 9 ∨ nf = 10) :
    totTime c (kernelOrder.take nf) (advs nf o n) = total nf o n ∧
    busyTime c (kernelOrder.take nf) (advs nf o n) = some (busy nf o n) := by
  rcases hnf with rfl | rfl | rfl | rfl
  · exact tot_busy_7 c hg o n
  · exact tot_busy_8 c hg o n
  · exact tot_busy_9 c hg o n
  · exact tot_busy_10 c hg o n

end core

/-! ## ranges -/

theorem busy_nonneg (nf : Nat) (o n : Times) : 0 ≤ busy nf o n := by
  unfold busy stealAdv
  have := adv_nonneg o.user n.user
  have := adv_nonneg o.nice n.nice
  have := adv_nonneg o.system n.system
  have := adv_nonneg o.irq n.irq
  have := adv_nonneg o.softirq n.softirq
  have := adv_nonneg o.steal n.steal
  split <;> linarith

theorem busy_le_total (nf : Nat) (o n : Times) : busy nf o n ≤ total nf o n := by
  unfold total
  have := adv_nonneg o.idle n.idle
  have := adv_nonneg o.iowait n.iowait
  linarith

theorem total_nonneg (nf : Nat) (o n : Times) : 0 ≤ total nf o n :=
  le_trans (busy_nonneg nf o n) (busy_le_total nf o n)

theorem ratio_range {a T : ℚ} (h0 : 0 ≤ a) (h1 : a ≤ T) (hT : 0 < T) :
    0 ≤ 100 * a / T ∧ 100 * a / T ≤ 100 := by
  constructor
  · apply div_nonneg <;> linarith
  · rw [div_le_iff₀ hT]; linarith

theorem percentExact_range (nf : Nat) (o n : Times) :
    0 ≤ percentExact nf o n ∧ percentExact nf o n ≤ 100 := by
  unfold percentExact
  split
  · norm_num
  · rename_i h
    have hT : 0 < total nf o n := lt_of_le_of_ne (total_nonneg nf o n) (Ne.symm h)
    exact ratio_range (busy_nonneg nf o n) (busy_le_total nf o n) hT

theorem percent_range (nf : Nat) (o n : Times) : 0 ≤ percent nf o n ∧ percent nf o n ≤ 100 := by
  obtain ⟨h0, h1⟩ := percentExact_range nf o n
  exact ⟨roundN_one_nonneg h0, roundN_one_le_100 h1⟩

/-! ## `cpu_percent.calculate` -/

theorem calcPercent_eq (c : Cfg) (hg : c.Good) (nf : Nat)
    (hnf : nf = 7 ∨ nf = 8 ∨ nf = 9 ∨ nf = 10) (o n : Times) :
    calcPercent c (kernelOrder.take nf) (o.expose nf) (n.expose nf) = .ok (percent nf o n) := by
  obtain ⟨ht, hb⟩ := tot_busy c hg o n nf hnf
  unfold calcPercent
  simp only [deltas_eq c hg, ht, hb, hg.pctDigits, hg.pctFactor]
  unfold percent percentExact round1
  by_cases h0 : total nf o n = 0
  · simp [h0, roundN_one_zero]
  · simp only [h0, if_false]
    congr 2
    push_cast
    ring

/-! ## `cpu_times_percent.calculate` -/

theorem tpScale_fixed (c : Cfg) (hg : c.Good) (hm : c.tpMaxOne = false) {T : ℚ} (hT : 0 < T) :
    tpScale c T = 100 / T := by
  simp [tpScale, hm, hT, hg.tpNumer]

theorem tpScale_maxOne_ge (c : Cfg) (hg : c.Good) (hm : c.tpMaxOne = true) {T : ℚ} (hT : 1 ≤ T) :
    tpScale c T = 100 / T := by
  unfold tpScale rmax
  simp only [hm, if_true, hg.tpNumer]
  by_cases h : (1 : ℚ) < T
  · simp [h]
  · have : T = 1 := le_antisymm (not_lt.mp h) hT
    subst this; simp

theorem tpScale_maxOne_lt (c : Cfg) (hg : c.Good) (hm : c.tpMaxOne = true) {T : ℚ} (hT : T ≤ 1) :
    tpScale c T = 100 := by
  unfold tpScale rmax
  have : ¬ (1 : ℚ) < T := not_lt.mpr hT
  simp [hm, this, hg.tpNumer]

theorem calcTimesPercent_eq (c : Cfg) (hg : c.Good) (nf : Nat)
    (hnf : nf = 7 ∨ nf = 8 ∨ nf = 9 ∨ nf = 10) (o n : Times)
    (hs : tpScale c (total nf o n) = 100 / total nf o n) :
    calcTimesPercent c (kernelOrder.take nf) (o.expose nf) (n.expose nf) = .ok (shares nf o n) := by
  obtain ⟨ht, _⟩ := tot_busy c hg o n nf hnf
  unfold calcTimesPercent shares
  simp only [deltas_eq c hg, ht, hs, hg.tpDigits]
  congr 1
  apply List.map_congr_left
  intro a _
  rw [clamp_eq c hg]
  unfold round1 shareExact
  congr 2
  ring

/-- what the current code returns when less than one second elapsed: shares of one *second* -/
theorem calcTimesPercent_subsecond (c : Cfg) (hg : c.Good) (hm : c.tpMaxOne = true) (nf : Nat)
    (hnf : nf = 7 ∨ nf = 8 ∨ nf = 9 ∨ nf = 10) (o n : Times) (hlt : total nf o n ≤ 1) :
    calcTimesPercent c (kernelOrder.take nf) (o.expose nf) (n.expose nf)
      = .ok ((advs nf o n).map fun a => clamp100 (round1 (100 * a))) := by
  obtain ⟨ht, _⟩ := tot_busy c hg o n nf hnf
  unfold calcTimesPercent
  simp only [deltas_eq c hg, ht, tpScale_maxOne_lt c hg hm hlt, hg.tpDigits]
  congr 1
  apply List.map_congr_left
  intro a _
  rw [clamp_eq c hg]
  unfold round1
  congr 2
  ring

/-! ## shares add up -/

/-- the columns that make up elapsed time: everything but guest and guest_nice (columns 9, 10) -/
theorem nonGuest_sum (nf : Nat) (hnf : nf = 7 ∨ nf = 8 ∨ nf = 9 ∨ nf = 10) (o n : Times) :
    ((advs nf o n).take 8).sum = total nf o n := by
  rcases hnf with rfl | rfl | rfl | rfl <;>
    simp [advs, Times.cols, total, busy, stealAdv] <;> ring

theorem nonGuest_mem (nf : Nat) (hnf : nf = 7 ∨ nf = 8 ∨ nf = 9 ∨ nf = 10) (o n : Times) (a : ℚ)
    (ha : a ∈ (advs nf o n).take 8) : 0 ≤ a ∧ a ≤ total nf o n := by
  have h1 := adv_nonneg o.user n.user
  have h2 := adv_nonneg o.nice n.nice
  have h3 := adv_nonneg o.system n.system
  have h4 := adv_nonneg o.idle n.idle
  have h5 := adv_nonneg o.iowait n.iowait
  have h6 := adv_nonneg o.irq n.irq
  have h7 := adv_nonneg o.softirq n.softirq
  have h8 := adv_nonneg o.steal n.steal
  rcases hnf with rfl | rfl | rfl | rfl <;>
    simp [advs, Times.cols] at ha <;>
    simp only [total, busy, stealAdv] <;>
    rcases ha with rfl | rfl | rfl | rfl | rfl | rfl | rfl | rfl <;>
    norm_num <;> constructor <;> linarith

theorem sum_map_div (l : List ℚ) (T : ℚ) : (l.map fun a => 100 * a / T).sum = 100 * l.sum / T := by
  induction l with
  | nil => simp
  | cons a l ih => simp only [List.map_cons, List.sum_cons, ih]; ring

/-- exact shares of the non-guest columns add up to 100 whenever any time elapsed -/
theorem shareExact_sum (nf : Nat) (hnf : nf = 7 ∨ nf = 8 ∨ nf = 9 ∨ nf = 10) (o n : Times)
    (hT : total nf o n ≠ 0) :
    (((advs nf o n).take 8).map (shareExact nf o n)).sum = 100 := by
  unfold shareExact
  rw [sum_map_div, nonGuest_sum nf hnf]
  field_simp

theorem sum_round_err (l : List ℚ) :
    (l.map (roundN 1)).sum - l.sum ≤ (l.length : ℚ) / 20 ∧
      l.sum - (l.map (roundN 1)).sum ≤ (l.length : ℚ) / 20 := by
  induction l with
  | nil => simp
  | cons a l ih =>
    obtain ⟨e1, e2⟩ := roundN_one_err a
    simp only [List.map_cons, List.sum_cons, List.length_cons, Nat.cast_add, Nat.cast_one]
    constructor <;> linarith [ih.1, ih.2]

/-! ## a counter that went backwards -/

theorem deltas_decreasing (c : Cfg) (hg : c.Good) :
    ∀ (t1 t2 : Sample) (i : Nat) (h1 : i < t1.length) (h2 : i < t2.length),
      t2[i] ≤ t1[i] → deltas c t1 t2 = deltas c t1 (t2.set i t1[i]) := by
  intro t1
  induction t1 with
  | nil => intro t2 i h1; simp at h1
  | cons a as ih =>
    intro t2 i h1 h2 hle
    cases t2 with
    | nil => simp at h2
    | cons b bs =>
      cases i with
      | zero =>
        simp only [List.getElem_cons_zero] at hle
        have hz : rmax 0 0 = 0 := by simp [rmax]
        simp [deltas, delta, hg.clipZero, rmax_zero_eq_adv, adv_of_le hle, hz]
      | succ j =>
        simp only [List.getElem_cons_succ, List.length_cons, Nat.add_lt_add_iff_right] at hle h1 h2
        have := ih bs j h1 h2 hle
        simp only [deltas] at this ⊢
        simp [this]

end Psutil.C07
