/-
  Proofs/C04Safety.lean — frame lemmas of the model's sub-steps, the per-generator invariant and
  the characterisation of one `visit` run. Used by the safety / completeness theorems.
-/
import PsutilModel.Proofs.C04
namespace Psutil.C04

def todoPids (todo : List (Nat × Option Ref)) : List Nat := todo.map (·.1)

def NodupKeys (m : PMap) : Prop := m.keys.Nodup

/-! ## frame lemmas -/

theorem isRunningObj_frame (s : St) (r : Ref) (o : PObj) :
    (isRunningObj s r o).1.gens = s.gens ∧ (isRunningObj s r o).1.k = s.k
      ∧ (isRunningObj s r o).1.pmap = s.pmap := by
  unfold isRunningObj
  split
  · simp
  · split
    · simp [St.setObj]
    · split <;> simp [St.setObj]

theorem raiseIfReused_frame (cfg : Cfg) (s : St) (r : Ref) (o : PObj) :
    (raiseIfReused cfg s r o).1.gens = s.gens ∧ (raiseIfReused cfg s r o).1.k = s.k
      ∧ (raiseIfReused cfg s r o).1.pmap = s.pmap := by
  unfold raiseIfReused
  split
  · simp
  · have := isRunningObj_frame s r o
    simp only
    split <;> exact this

theorem asDictLoop_frame (cfg : Cfg) (r : Ref) (pid : Nat) (ls : List String) :
    ∀ s, (asDictLoop cfg r pid s ls).1.gens = s.gens ∧ (asDictLoop cfg r pid s ls).1.k = s.k
      ∧ (asDictLoop cfg r pid s ls).1.pmap = s.pmap := by
  induction ls with
  | nil => intro s; simp [asDictLoop]
  | cons nm rest ih =>
    intro s
    simp only [asDictLoop]
    split
    · exact ih s
    · split
      · exact ih s
      · simp
    · split
      · simp
      · rename_i o _
        have hf := raiseIfReused_frame cfg s r o
        cases hr : raiseIfReused cfg s r o with
        | mk s1 raised =>
          rw [hr] at hf
          simp only at hf ⊢
          split
          · exact hf
          · split
            · have := ih s1
              exact ⟨this.1.trans hf.1, this.2.1.trans hf.2.1, this.2.2.trans hf.2.2⟩
            · exact hf

theorem addProc_frame {s : St} {pmap : PMap} {pid : Nat} {o : Option Ref} {s1 : St} {pm1 : PMap} {r : Ref}
    (h : addProc s pmap pid o = some (s1, pm1, r)) :
    s1.gens = s.gens ∧ s1.k = s.k ∧ s1.pmap = s.pmap ∧ s1.flagged = s.flagged := by
  cases o with
  | some r0 => simp only [addProc, Option.some.injEq, Prod.mk.injEq] at h; obtain ⟨rfl, _, _⟩ := h; simp
  | none =>
    simp only [addProc] at h
    split at h
    · cases h
    · simp only [Option.some.injEq, Prod.mk.injEq] at h; obtain ⟨rfl, _, _⟩ := h; simp

theorem fillInfo_frame_ok {cfg : Cfg} {attrs : Attrs} {r : Ref} {pid : Nat} {s s2 : St} {info : Option (List String)}
    (h : fillInfo cfg attrs r pid s = .ok s2 info) :
    s2.gens = s.gens ∧ s2.k = s.k ∧ s2.pmap = s.pmap := by
  cases attrs with
  | none => simp only [fillInfo, Fill.ok.injEq] at h; obtain ⟨rfl, _⟩ := h; simp
  | names l =>
    simp only [fillInfo] at h
    split at h
    · cases h
    · have hf := asDictLoop_frame cfg r pid (namesOf cfg l) s
      split at h
      · rename_i s2' heq
        simp only [Fill.ok.injEq] at h
        obtain ⟨rfl, _⟩ := h
        rw [heq] at hf; exact hf
      · cases h

theorem fillInfo_frame_nsp {cfg : Cfg} {attrs : Attrs} {r : Ref} {pid : Nat} {s s2 : St}
    (h : fillInfo cfg attrs r pid s = .nsp s2) :
    s2.gens = s.gens ∧ s2.k = s.k ∧ s2.pmap = s.pmap := by
  cases attrs with
  | none => simp [fillInfo] at h
  | names l =>
    simp only [fillInfo] at h
    split at h
    · cases h
    · have hf := asDictLoop_frame cfg r pid (namesOf cfg l) s
      split at h
      · cases h
      · rename_i s2' heq
        simp only [Fill.nsp.injEq] at h
        subst h
        rw [heq] at hf; exact hf

/-! ## attrs without a reuse-checking name -/

def NoReuse (cfg : Cfg) : Attrs → Prop
  | .none => True
  | .names l => ∀ n ∈ namesOf cfg l, kindOf cfg n ≠ .reuse

theorem asDictLoop_plain (cfg : Cfg) (r : Ref) (pid : Nat) (s : St) (ls : List String)
    (h : ∀ n ∈ ls, kindOf cfg n ≠ .reuse) :
    asDictLoop cfg r pid s ls
      = (s, !(ls.any fun n => kindOf cfg n == .plain) || (s.k.statStart pid).isSome) := by
  induction ls with
  | nil => simp [asDictLoop]
  | cons nm rest ih =>
    have ih' := ih (fun n hn => h n (by simp [hn]))
    have hk := h nm (by simp)
    simp only [asDictLoop, List.any_cons]
    cases hkind : kindOf cfg nm with
    | pid =>
      have : (AttrKind.pid == AttrKind.plain) = false := by decide
      simp [ih', this]
    | plain =>
      have : (AttrKind.plain == AttrKind.plain) = true := by decide
      simp only [this, Bool.true_or, Bool.not_true, Bool.false_or]
      cases hs : (s.k.statStart pid).isSome with
      | true => simp [ih', hs]
      | false => simp
    | reuse => exact absurd hkind hk

/-- with such attrs a `NoSuchProcess` out of `as_dict` means the process is not there -/
theorem fillInfo_nsp_vanished {cfg : Cfg} {attrs : Attrs} {r : Ref} {pid : Nat} {s s2 : St}
    (hn : NoReuse cfg attrs) (h : fillInfo cfg attrs r pid s = .nsp s2) :
    s2 = s ∧ s.k.statStart pid = none := by
  cases attrs with
  | none => simp [fillInfo] at h
  | names l =>
    simp only [fillInfo] at h
    split at h
    · cases h
    · rw [asDictLoop_plain cfg r pid s _ hn] at h
      split at h
      · cases h
      · rename_i s2' heq
        simp only [Prod.mk.injEq] at heq
        simp only [Fill.nsp.injEq] at h
        subst h
        refine ⟨heq.1.symm, ?_⟩
        have := heq.2
        simp only [Bool.or_eq_false_iff] at this
        cases hs : s.k.statStart pid with
        | none => rfl
        | some x => rw [hs] at this; simp at this

/-! ## `setGen` -/

theorem setGen_get_self (s : St) (g : Nat) (st : GSt) :
    (s.setGen g st).gens[g]? = (s.gens[g]?).map fun x => { x with st := st } := by
  simp [St.setGen, List.getElem?_modify]

theorem setGen_get_ne (s : St) (g g' : Nat) (st : GSt) (h : g' ≠ g) :
    (s.setGen g st).gens[g']? = s.gens[g']? := by
  have : ¬ g = g' := fun e => h e.symm
  simp only [St.setGen, List.getElem?_modify, this, if_false]
  cases s.gens[g']? <;> rfl

theorem setGen_length (s : St) (g : Nat) (st : GSt) : (s.setGen g st).gens.length = s.gens.length := by
  simp [St.setGen]

/-! ## one run of `visit` -/

/-- what a run of `visit` over `todo` from state `s` can do -/
structure VisitRes (cfg : Cfg) (attrs : Attrs) (g : Nat) (listed : List Nat) (s : St)
    (todo : List (Nat × Option Ref)) (s' : St) (out : Out) : Prop where
  others : ∀ g', g' ≠ g → s'.gens[g']? = s.gens[g']?
  len : s'.gens.length = s.gens.length
  kernel : s'.k = s.k
  outcome :
    (∃ r p info pm rest pre, out = .yield r p info
        ∧ todoPids todo = pre ++ p :: todoPids rest
        ∧ s'.gens[g]? = (s.gens[g]?).map (fun x => { x with st := .running pm rest listed })
        ∧ (NoReuse cfg attrs → ∀ q ∈ pre, s.k.statStart q = none))
    ∨ ((out = .stop ∨ out = .exc "ValueError")
        ∧ s'.gens[g]? = (s.gens[g]?).map (fun x => { x with st := .done })
        ∧ (out = .stop → NoReuse cfg attrs → ∀ q ∈ todoPids todo, s.k.statStart q = none)
        ∧ (out = .exc "ValueError" → ∃ l, attrs = .names l ∧ l.all cfg.validNames.contains = false))

theorem finish_get_self (s : St) (g : Nat) (pm : PMap) :
    (finish s g pm).gens[g]? = (s.gens[g]?).map fun x => { x with st := .done } := by
  simp [finish, setGen_get_self]

theorem visit_res (cfg : Cfg) (attrs : Attrs) (g : Nat) (listed : List Nat) :
    ∀ (todo : List (Nat × Option Ref)) (s : St) (pmap : PMap),
      VisitRes cfg attrs g listed s todo (visit cfg attrs g listed s pmap todo).1
        (visit cfg attrs g listed s pmap todo).2 := by
  intro todo
  induction todo with
  | nil =>
    intro s pmap
    simp only [visit]
    refine ⟨fun g' h => ?_, ?_, rfl, Or.inr ⟨Or.inl rfl, finish_get_self s g pmap, ?_, ?_⟩⟩
    · simp [finish, setGen_get_ne _ _ _ _ h]
    · simp [finish, setGen_length]
    · intro _ _ q hq; simp [todoPids] at hq
    · intro h; cases h
  | cons e rest ih =>
    intro s pmap
    obtain ⟨pid, oref⟩ := e
    simp only [visit]
    cases ha : addProc s pmap pid oref with
    | none =>
      have hv : oref = none ∧ s.k.statStart pid = none := by
        cases oref with
        | some r0 => simp [addProc] at ha
        | none =>
          refine ⟨rfl, ?_⟩
          simp only [addProc] at ha
          split at ha
          · assumption
          · cases ha
      have := ih s (pmap.remove pid)
      refine ⟨this.others, this.len, this.kernel, ?_⟩
      rcases this.outcome with ⟨r, p, info, pm, rest', pre, h1, h2, h3, h4⟩ | ⟨h1, h2, h3, h4⟩
      · refine Or.inl ⟨r, p, info, pm, rest', pid :: pre, h1, ?_, h3, ?_⟩
        · simp only [todoPids, List.map_cons, List.cons_append] at h2 ⊢; rw [h2]
        · intro hn q hq
          rcases List.mem_cons.mp hq with e | hq
          · rw [e]; exact hv.2
          · exact h4 hn q hq
      · refine Or.inr ⟨h1, h2, ?_, h4⟩
        intro ho hn q hq
        simp only [todoPids, List.map_cons, List.mem_cons] at hq
        rcases hq with e | hq
        · rw [e]; exact hv.2
        · exact h3 ho hn q hq
    | some x =>
      obtain ⟨s1, pm1, r⟩ := x
      have hf1 := addProc_frame ha
      simp only
      cases hfi : fillInfo cfg attrs r pid s1 with
      | ok s2 info =>
        have hf2 := fillInfo_frame_ok hfi
        simp only
        refine ⟨fun g' h => ?_, ?_, ?_, Or.inl ⟨r, pid, info, pm1, rest, [], rfl, ?_, ?_, ?_⟩⟩
        · rw [setGen_get_ne _ _ _ _ h, hf2.1, hf1.1]
        · rw [setGen_length, hf2.1, hf1.1]
        · simp [St.setGen, hf2.2.1, hf1.2.1]
        · simp [todoPids]
        · rw [setGen_get_self, hf2.1, hf1.1]
        · intro _ q hq; cases hq
      | bad =>
        simp only
        refine ⟨fun g' h => ?_, ?_, ?_, Or.inr ⟨Or.inr rfl, ?_, ?_, ?_⟩⟩
        · simp [finish, setGen_get_ne _ _ _ _ h, hf1.1]
        · simp [finish, setGen_length, hf1.1]
        · simp [finish, St.setGen, hf1.2.1]
        · rw [finish_get_self, hf1.1]
        · intro h; cases h
        · intro _
          cases attrs with
          | none => simp [fillInfo] at hfi
          | names l =>
            refine ⟨l, rfl, ?_⟩
            simp only [fillInfo] at hfi
            split at hfi
            · rename_i hc; simpa using hc
            · split at hfi <;> cases hfi
      | nsp s2 =>
        have hf2 := fillInfo_frame_nsp hfi
        simp only
        have := ih s2 (pm1.remove pid)
        have hg : s2.gens = s.gens := hf2.1.trans hf1.1
        have hk : s2.k = s.k := hf2.2.1.trans hf1.2.1
        refine ⟨fun g' h => by rw [this.others g' h, hg], by rw [this.len, hg], by rw [this.kernel, hk], ?_⟩
        have hvan : NoReuse cfg attrs → s.k.statStart pid = none := by
          intro hn
          have := (fillInfo_nsp_vanished hn hfi).2
          rw [hf1.2.1] at this; exact this
        rcases this.outcome with ⟨r', p, info, pm, rest', pre, h1, h2, h3, h4⟩ | ⟨h1, h2, h3, h4⟩
        · refine Or.inl ⟨r', p, info, pm, rest', pid :: pre, h1, ?_, by rw [h3, hg], ?_⟩
          · simp only [todoPids, List.map_cons, List.cons_append] at h2 ⊢; rw [h2]
          · intro hn q hq
            rcases List.mem_cons.mp hq with e | hq
            · rw [e]; exact hvan hn
            · rw [← hk]; exact h4 hn q hq
        · refine Or.inr ⟨h1, by rw [h2, hg], ?_, h4⟩
          intro ho hn q hq
          simp only [todoPids, List.map_cons, List.mem_cons] at hq
          rcases hq with e | hq
          · rw [e]; exact hvan hn
          · rw [← hk]; exact h3 ho hn q hq

/-! ## key uniqueness of the dicts -/

theorem nodupKeys_remove {m : PMap} (h : NodupKeys m) (p : Nat) : NodupKeys (m.remove p) := by
  unfold NodupKeys PMap.keys PMap.remove at *
  exact List.Pairwise.sublist (List.Sublist.map _ List.filter_sublist) h

theorem nodupKeys_removeAll {m : PMap} (h : NodupKeys m) (ps : List Nat) : NodupKeys (removeAll m ps) := by
  rw [removeAll_eq_filter]
  unfold NodupKeys PMap.keys at *
  exact List.Pairwise.sublist (List.Sublist.map _ List.filter_sublist) h

theorem nodupKeys_set {m : PMap} (h : NodupKeys m) (p r : Nat) : NodupKeys (m.set p r) := by
  unfold PMap.set
  split
  · unfold NodupKeys PMap.keys at *
    have : (m.map fun e => if e.1 == p then (p, r) else e).map (·.1) = m.map (·.1) := by
      rw [List.map_map]
      apply List.map_congr_left
      intro e _
      simp only [Function.comp]
      split
      · rename_i he; simp at he; simp [he]
      · rfl
    rw [this]; exact h
  · rename_i hh
    unfold NodupKeys PMap.keys at *
    simp only [List.map_append, List.map_cons, List.map_nil]
    rw [List.nodup_append]
    refine ⟨h, by simp, ?_⟩
    intro a ha b hb e
    simp only [List.mem_singleton] at hb
    subst hb; subst e
    apply hh
    simp only [PMap.has, List.any_eq_true, beq_iff_eq]
    obtain ⟨x, hx, hxe⟩ := List.mem_map.mp ha
    exact ⟨x, hx, hxe⟩

theorem get_of_mem {m : PMap} (h : NodupKeys m) {e : Nat × Ref} (he : e ∈ m) : m.get e.1 = some e.2 := by
  induction m with
  | nil => cases he
  | cons x xs ih =>
    unfold NodupKeys PMap.keys at h
    simp only [List.map_cons, List.nodup_cons] at h
    simp only [PMap.get]
    rcases List.mem_cons.mp he with e1 | hm
    · subst e1; simp
    · have hne : x.1 ≠ e.1 := by
        intro heq
        apply h.1
        rw [heq]
        exact List.mem_map.mpr ⟨e, hm, rfl⟩
      simp only [hne, if_false]
      exact ih h.2 hm

/-! ## the merged to-do list of the prologue -/

theorem mergeTodo_pids (pm : PMap) (new : List Nat) :
    todoPids (mergeTodo pm new) = sortNat (pm.keys ++ new) := by
  simp only [todoPids, mergeTodo]
  rw [sortBy_map]
  congr 1
  simp [PMap.keys, List.map_map, Function.comp_def]

theorem mergeTodo_entries {pm : PMap} {new : List Nat} (hn : NodupKeys pm) (hd : ∀ p ∈ new, pm.get p = none) :
    ∀ e ∈ mergeTodo pm new, e.2 = pm.get e.1 := by
  intro e he
  simp only [mergeTodo] at he
  rw [mem_sortBy] at he
  rcases List.mem_append.mp he with h | h
  · obtain ⟨x, hx, rfl⟩ := List.mem_map.mp h
    simp only
    exact (get_of_mem hn hx).symm
  · obtain ⟨p, hp, rfl⟩ := List.mem_map.mp h
    simp only
    exact (hd p hp).symm

/-- the shared part of both prologue orders -/
theorem todo_of_maps {pm0 pm : PMap} {a : List Nat} (ha : a.Pairwise (· < ·)) (hn : NodupKeys pm)
    (hsub : ∀ p, (pm.get p).isSome → (pm0.get p).isSome ∧ p ∈ a) :
    let new := a.filter fun p => !pm0.keys.contains p
    (todoPids (mergeTodo pm new)).Pairwise (· < ·)
      ∧ (∀ p ∈ todoPids (mergeTodo pm new), p ∈ a)
      ∧ (∀ e ∈ mergeTodo pm new, e.2 = pm.get e.1)
      ∧ ((∀ p ∈ a, (pm0.get p).isSome → (pm.get p).isSome) → todoPids (mergeTodo pm new) = a) := by
  intro new
  have hnew_mem : ∀ p, p ∈ new ↔ p ∈ a ∧ (pm0.get p).isSome = false := by
    intro p
    simp only [new, List.mem_filter, Bool.not_eq_true', List.contains_eq_mem, decide_eq_false_iff_not]
    rw [PMap.mem_keys_iff]
    simp
  have hnew_nodup : new.Nodup := (sorted_nodup ha).sublist List.filter_sublist
  have hdisj : ∀ p ∈ new, pm.get p = none := by
    intro p hp
    have := (hnew_mem p).mp hp
    cases hg : pm.get p with
    | none => rfl
    | some x =>
      have := (hsub p (by simp [hg])).1
      simp_all
  have hnd : (pm.keys ++ new).Nodup := by
    rw [List.nodup_append]
    refine ⟨hn, hnew_nodup, ?_⟩
    intro x hx y hy e
    subst e
    have h1 := (PMap.mem_keys_iff pm x).mp hx
    have h2 := hdisj x hy
    simp [h2] at h1
  have hmem : ∀ p, p ∈ todoPids (mergeTodo pm new) ↔ (pm.get p).isSome ∨ p ∈ new := by
    intro p
    rw [mergeTodo_pids, mem_sortNat, List.mem_append, PMap.mem_keys_iff]
  refine ⟨?_, ?_, mergeTodo_entries hn hdisj, ?_⟩
  · rw [mergeTodo_pids]; exact sortNat_sorted _ hnd
  · intro p hp
    rcases (hmem p).mp hp with h | h
    · exact (hsub p h).2
    · exact ((hnew_mem p).mp h).1
  · intro hall
    apply eq_of_sorted_mem
    · rw [mergeTodo_pids]; exact sortNat_sorted _ hnd
    · exact ha
    · intro p
      rw [hmem]
      constructor
      · rintro (h | h)
        · exact (hsub p h).2
        · exact ((hnew_mem p).mp h).1
      · intro hp
        cases hg : (pm0.get p).isSome with
        | true => exact Or.inl (hall p hp hg)
        | false => exact Or.inr ((hnew_mem p).mpr ⟨hp, hg⟩)

theorem get_filter (m : PMap) (f : Nat → Bool) (p : Nat) :
    PMap.get (m.filter fun e => f e.1) p = if f p then m.get p else none := by
  induction m with
  | nil => simp [PMap.get]
  | cons e es ih =>
    simp only [List.filter_cons]
    by_cases he : e.1 = p
    · subst he
      cases hf : f e.1 with
      | true => simp [PMap.get]
      | false => simp only [Bool.false_eq_true, if_false]; rw [ih]; simp [hf]
    · cases hf : f e.1 with
      | true => simp only [if_true, PMap.get, he, if_false]; exact ih
      | false => simp only [Bool.false_eq_true, if_false, PMap.get, he]; exact ih

theorem pidsCall_res (s : St) :
    (pidsCall s).1.gens = s.gens ∧ (pidsCall s).1.k = s.k ∧ (pidsCall s).1.pmap = s.pmap
      ∧ (pidsCall s).1.flagged = s.flagged ∧ (pidsCall s).1.objs = s.objs
      ∧ (match (pidsCall s).2 with
          | none => s.k.listdir = []
          | some a => a = sortNat s.k.listdir ∧ a ≠ []) := by
  unfold pidsCall
  cases hs : sortNat s.k.listdir with
  | nil =>
    simp only [true_and]
    cases hl : s.k.listdir with
    | nil => rfl
    | cons x xs =>
      have : x ∈ sortNat s.k.listdir := by rw [mem_sortNat, hl]; simp
      rw [hs] at this; cases this
  | cons p ps => simp

theorem removeAll_gone (pm : PMap) (a : List Nat) :
    removeAll pm (pm.keys.filter fun p => !a.contains p) = pm.filter fun e => a.contains e.1 := by
  rw [removeAll_eq_filter]
  apply List.filter_congr
  intro e he
  have hek : e.1 ∈ pm.keys := List.mem_map.mpr ⟨e, he, rfl⟩
  by_cases hpa : e.1 ∈ a
  · have hac : a.contains e.1 = true := by simpa using hpa
    have : (List.filter (fun p => !a.contains p) pm.keys).contains e.1 = false := by
      simp [hpa]
    rw [this, hac]; rfl
  · have hac : a.contains e.1 = false := by simpa using hpa
    have : (List.filter (fun p => !a.contains p) pm.keys).contains e.1 = true := by
      simp [hpa, hek]
    rw [this, hac]; rfl

theorem nodupKeys_filter {m : PMap} (h : NodupKeys m) (f : Nat × Ref → Bool) : NodupKeys (m.filter f) := by
  unfold NodupKeys PMap.keys at *
  exact List.Pairwise.sublist (List.Sublist.map _ List.filter_sublist) h

/-- what the prologue hands to the loop, for either order of draining -/
theorem prologue_res (cfg : Cfg) (s : St) (hk : s.k.listdir.Nodup) (hp : NodupKeys s.pmap) :
    (prologue cfg s).1.gens = s.gens ∧ (prologue cfg s).1.k = s.k ∧ (prologue cfg s).1.pmap = s.pmap
      ∧ (prologue cfg s).1.objs = s.objs
      ∧ (match (prologue cfg s).2 with
          | none => s.k.listdir = []
          | some (pm, todo, listed) =>
            listed = sortNat s.k.listdir ∧ listed ≠ []
              ∧ (todoPids todo).Pairwise (· < ·) ∧ (∀ p ∈ todoPids todo, p ∈ listed) ∧ NodupKeys pm
              ∧ (∀ e ∈ todo, e.2 = pm.get e.1)
              ∧ (prologue cfg s).1.flagged = []
              ∧ (cfg.drainFirst = true ∨ s.flagged = [] → todoPids todo = listed
                  ∧ pm = (s.pmap.filter fun e => !s.flagged.contains e.1).filter fun e => listed.contains e.1)) := by
  have hsorted := sortNat_sorted s.k.listdir hk
  unfold prologue
  cases hd : cfg.drainFirst with
  | true =>
    simp only [if_true]
    have hc := pidsCall_res { s with flagged := [] }
    cases hpc : pidsCall { s with flagged := [] } with
    | mk s2 res =>
      rw [hpc] at hc
      simp only at hc
      obtain ⟨h1, h2, h3, h4, h5, h6⟩ := hc
      cases res with
      | none => simp only; exact ⟨h1, h2, h3, h5, h6⟩
      | some a =>
        simp only at h6 ⊢
        obtain ⟨ha, hane⟩ := h6
        refine ⟨h1, h2, h3, h5, ha, hane, ?_⟩
        rw [removeAll_gone, removeAll_eq_filter]
        have ha_sorted : a.Pairwise (· < ·) := by rw [ha]; exact hsorted
        have hpm2 : NodupKeys ((s.pmap.filter fun e => !s.flagged.contains e.1).filter fun e => a.contains e.1) :=
          nodupKeys_filter (nodupKeys_filter hp _) _
        have hget2 : ∀ p, PMap.get ((s.pmap.filter fun e => !s.flagged.contains e.1).filter fun e => a.contains e.1) p
            = if a.contains p then PMap.get (s.pmap.filter fun e => !s.flagged.contains e.1) p else none :=
          fun p => get_filter _ (fun q => a.contains q) p
        have key := todo_of_maps (pm0 := s.pmap.filter fun e => !s.flagged.contains e.1) ha_sorted hpm2 (by
          intro p hp'
          rw [hget2] at hp'
          by_cases hpa : p ∈ a
          · have hac : a.contains p = true := by simpa using hpa
            rw [hac] at hp'
            exact ⟨hp', hpa⟩
          · have hac : a.contains p = false := by simpa using hpa
            rw [hac] at hp'
            simp at hp')
        obtain ⟨k1, k2, k3, k4⟩ := key
        refine ⟨k1, k2, hpm2, k3, h4, ?_⟩
        intro _
        refine ⟨k4 ?_, rfl⟩
        intro p hpa hsome
        rw [hget2]
        have hac : a.contains p = true := by simpa using hpa
        rw [hac]
        exact hsome
  | false =>
    simp only [Bool.false_eq_true, if_false]
    have hc := pidsCall_res s
    cases hpc : pidsCall s with
    | mk s1 res =>
      rw [hpc] at hc
      simp only at hc
      obtain ⟨h1, h2, h3, h4, h5, h6⟩ := hc
      cases res with
      | none => simp only; exact ⟨h1, h2, h3, h5, h6⟩
      | some a =>
        simp only at h6 ⊢
        obtain ⟨ha, hane⟩ := h6
        refine ⟨h1, h2, h3, h5, ha, hane, ?_⟩
        rw [removeAll_gone, removeAll_eq_filter]
        have ha_sorted : a.Pairwise (· < ·) := by rw [ha]; exact hsorted
        have hpm2 : NodupKeys ((s.pmap.filter fun e => a.contains e.1).filter fun e => !s1.flagged.contains e.1) :=
          nodupKeys_filter (nodupKeys_filter hp _) _
        have key := todo_of_maps (pm0 := s.pmap) ha_sorted hpm2 (by
          intro p hp'
          rw [get_filter _ (fun q => !s1.flagged.contains q)] at hp'
          split at hp'
          · rw [get_filter _ (fun q => a.contains q)] at hp'
            split at hp'
            · rename_i hh
              exact ⟨hp', by simpa using hh⟩
            · simp at hp'
          · simp at hp')
        obtain ⟨k1, k2, k3, k4⟩ := key
        refine ⟨k1, k2, hpm2, k3, trivial, ?_⟩
        intro hor
        have hfl : s.flagged = [] := by
          rcases hor with h | h
          · cases h
          · exact h
        have hfl1 : s1.flagged = [] := by rw [h4, hfl]
        have htrue : ∀ (m : PMap), (m.filter fun e => !([] : List Nat).contains e.1) = m := by
          intro m
          induction m with
          | nil => rfl
          | cons e es ih =>
            simp only [List.contains_nil, Bool.not_false] at ih ⊢
            simp only [List.filter_cons, if_true]
            rw [ih]
        refine ⟨k4 ?_, ?_⟩
        · intro p hpa hsome
          rw [hfl1, htrue, get_filter _ (fun q => a.contains q)]
          have hac : a.contains p = true := by simpa using hpa
          rw [hac]
          exact hsome
        · rw [hfl1, hfl, htrue, htrue]


/-! ## the invariant -/

def GenOK (gen : Gen) : Prop :=
  match gen.st with
  | .running pm todo listed =>
    (todoPids todo).Pairwise (· < ·) ∧ (∀ p ∈ todoPids todo, p ∈ listed) ∧ NodupKeys pm
  | _ => True

/-- state invariant kept by every operation: well-formed table, dicts with unique keys, every
    suspended generator has a strictly ascending to-do list inside the listing it took -/
structure Inv (s : St) : Prop where
  kernel : s.k.WF
  pmap : NodupKeys s.pmap
  gens : ∀ (i : Nat) (gen : Gen), s.gens[i]? = some gen → GenOK gen

/-- PIDs generator `g` may still yield: `none` = not constrained yet (not started / not created) -/
def pending (s : St) (g : Nat) : Option (List Nat) :=
  match s.gens[g]? with
  | some gen =>
    match gen.st with
    | .running _ todo _ => some (todoPids todo)
    | .done => some []
    | .fresh => none
  | none => none

theorem addProc_nodup {s : St} {pmap : PMap} {pid : Nat} {o : Option Ref} {s1 : St} {pm1 : PMap} {r : Ref}
    (h : addProc s pmap pid o = some (s1, pm1, r)) (hn : NodupKeys pmap) : NodupKeys pm1 := by
  cases o with
  | some r0 => simp only [addProc, Option.some.injEq, Prod.mk.injEq] at h; obtain ⟨_, rfl, _⟩ := h; exact hn
  | none =>
    simp only [addProc] at h
    split at h
    · cases h
    · simp only [Option.some.injEq, Prod.mk.injEq] at h; obtain ⟨_, rfl, _⟩ := h; exact nodupKeys_set hn _ _

theorem visit_nodup (cfg : Cfg) (attrs : Attrs) (g : Nat) (listed : List Nat) :
    ∀ (todo : List (Nat × Option Ref)) (s : St) (pmap : PMap), NodupKeys pmap → NodupKeys s.pmap →
      NodupKeys (visit cfg attrs g listed s pmap todo).1.pmap
      ∧ ∀ gen pm t l, (visit cfg attrs g listed s pmap todo).1.gens[g]? = some gen →
          gen.st = .running pm t l → NodupKeys pm := by
  intro todo
  induction todo with
  | nil =>
    intro s pmap hn hs
    simp only [visit]
    refine ⟨by simpa [finish] using hn, ?_⟩
    intro gen pm t l hg hst
    rw [finish_get_self] at hg
    cases hsg : s.gens[g]? with
    | none => rw [hsg] at hg; cases hg
    | some x => rw [hsg] at hg; simp only [Option.map_some, Option.some.injEq] at hg; subst hg; cases hst
  | cons e rest ih =>
    intro s pmap hn hs
    obtain ⟨pid, oref⟩ := e
    simp only [visit]
    cases ha : addProc s pmap pid oref with
    | none => exact ih s _ (nodupKeys_remove hn pid) hs
    | some x =>
      obtain ⟨s1, pm1, r⟩ := x
      have hf1 := addProc_frame ha
      have hn1 := addProc_nodup ha hn
      simp only
      cases hfi : fillInfo cfg attrs r pid s1 with
      | ok s2 info =>
        have hf2 := fillInfo_frame_ok hfi
        simp only
        refine ⟨by simp only [St.setGen]; rw [hf2.2.2, hf1.2.2.1]; exact hs, ?_⟩
        intro gen pm t l hg hst
        rw [setGen_get_self] at hg
        cases hsg : s2.gens[g]? with
        | none => rw [hsg] at hg; cases hg
        | some x =>
          rw [hsg] at hg
          simp only [Option.map_some, Option.some.injEq] at hg
          subst hg
          simp only [GSt.running.injEq] at hst
          rw [← hst.1]; exact hn1
      | bad =>
        simp only
        refine ⟨by simpa [finish] using hn1, ?_⟩
        intro gen pm t l hg hst
        rw [finish_get_self] at hg
        cases hsg : s1.gens[g]? with
        | none => rw [hsg] at hg; cases hg
        | some x => rw [hsg] at hg; simp only [Option.map_some, Option.some.injEq] at hg; subst hg; cases hst
      | nsp s2 =>
        have hf2 := fillInfo_frame_nsp hfi
        simp only
        exact ih s2 _ (nodupKeys_remove hn1 pid) (by rw [hf2.2.2, hf1.2.2.1]; exact hs)

theorem pairwise_suffix {pre : List Nat} {p : Nat} {rest : List Nat}
    (h : (pre ++ p :: rest).Pairwise (· < ·)) : (∀ q ∈ rest, p < q) ∧ rest.Pairwise (· < ·) := by
  have := (List.pairwise_append.mp h).2.1
  exact ⟨(List.pairwise_cons.mp this).1, (List.pairwise_cons.mp this).2⟩

/-- one run of the loop from a state satisfying the invariant (except possibly at `g` itself) -/
theorem visit_step (cfg : Cfg) (attrs : Attrs) (g : Nat) (listed : List Nat)
    (todo : List (Nat × Option Ref)) (s : St) (pmap : PMap) (gen0 : Gen)
    (hwf : s.k.WF) (hpm : NodupKeys s.pmap)
    (hothers : ∀ i gen, i ≠ g → s.gens[i]? = some gen → GenOK gen)
    (hg : s.gens[g]? = some gen0) (hsorted : (todoPids todo).Pairwise (· < ·))
    (hlisted : ∀ p ∈ todoPids todo, p ∈ listed) (hnd : NodupKeys pmap) :
    Inv (visit cfg attrs g listed s pmap todo).1
    ∧ (∀ g', g' ≠ g → (visit cfg attrs g listed s pmap todo).1.gens[g']? = s.gens[g']?)
    ∧ (visit cfg attrs g listed s pmap todo).1.gens.length = s.gens.length
    ∧ (visit cfg attrs g listed s pmap todo).1.k = s.k
    ∧ (∃ l', pending (visit cfg attrs g listed s pmap todo).1 g = some l' ∧ ∀ q ∈ l', q ∈ todoPids todo)
    ∧ (∀ r p info, (visit cfg attrs g listed s pmap todo).2 = .yield r p info →
        ∃ pm rest pre, (visit cfg attrs g listed s pmap todo).1.gens[g]? = some { gen0 with st := .running pm rest listed }
          ∧ todoPids todo = pre ++ p :: todoPids rest ∧ p ∈ listed ∧ (∀ q ∈ todoPids rest, p < q)
          ∧ (NoReuse cfg attrs → ∀ q ∈ pre, s.k.statStart q = none))
    ∧ ((visit cfg attrs g listed s pmap todo).2 = .stop →
        (visit cfg attrs g listed s pmap todo).1.gens[g]? = some { gen0 with st := .done }
        ∧ (NoReuse cfg attrs → ∀ q ∈ todoPids todo, s.k.statStart q = none))
    ∧ ((visit cfg attrs g listed s pmap todo).2 = .stop
        ∨ ((visit cfg attrs g listed s pmap todo).2 = .exc "ValueError"
            ∧ ∃ l, attrs = .names l ∧ l.all cfg.validNames.contains = false)
        ∨ ∃ r p info, (visit cfg attrs g listed s pmap todo).2 = .yield r p info) := by
  have vr := visit_res cfg attrs g listed todo s pmap
  have vn := visit_nodup cfg attrs g listed todo s pmap hnd hpm
  generalize visit cfg attrs g listed s pmap todo = res at vr vn
  obtain ⟨s', out⟩ := res
  simp only at vr vn ⊢
  obtain ⟨hoth, hlen, hker, hout⟩ := vr
  rw [hg] at hout
  simp only [Option.map_some] at hout
  refine ⟨?_, hoth, hlen, hker, ?_, ?_, ?_, ?_⟩
  · refine ⟨by rw [hker]; exact hwf, vn.1, ?_⟩
    intro i gen hi
    by_cases hig : i = g
    · subst hig
      rcases hout with ⟨r, p, info, pm, rest, pre, _, h2, h3, _⟩ | ⟨_, h2, _⟩
      · rw [h3] at hi
        simp only [Option.some.injEq] at hi
        subst hi
        simp only [GenOK]
        rw [h2] at hsorted
        refine ⟨(pairwise_suffix hsorted).2, ?_, vn.2 _ pm rest listed h3 rfl⟩
        intro q hq
        apply hlisted
        rw [h2]; simp [hq]
      · rw [h2] at hi
        simp only [Option.some.injEq] at hi
        subst hi
        simp [GenOK]
    · rw [hoth i hig] at hi
      exact hothers i gen hig hi
  · rcases hout with ⟨r, p, info, pm, rest, pre, _, h2, h3, _⟩ | ⟨_, h2, _⟩
    · refine ⟨todoPids rest, by simp [pending, h3], ?_⟩
      intro q hq; rw [h2]; simp [hq]
    · exact ⟨[], by simp [pending, h2], by intro q hq; cases hq⟩
  · intro r p info ho
    rcases hout with ⟨r', p', info', pm, rest, pre, h1, h2, h3, h4⟩ | ⟨h1, _⟩
    · rw [ho] at h1
      simp only [Out.yield.injEq] at h1
      obtain ⟨rfl, rfl, rfl⟩ := h1
      refine ⟨pm, rest, pre, h3, h2, ?_, ?_, h4⟩
      · apply hlisted; rw [h2]; simp
      · rw [h2] at hsorted; exact (pairwise_suffix hsorted).1
    · rw [ho] at h1; rcases h1 with h1 | h1 <;> cases h1
  · intro ho
    rcases hout with ⟨r', p', info', pm, rest, pre, h1, _⟩ | ⟨_, h2, h3, _⟩
    · rw [ho] at h1; cases h1
    · exact ⟨h2, h3 ho⟩
  · rcases hout with ⟨r', p', info', pm, rest, pre, h1, _⟩ | ⟨h1, _, _, h4⟩
    · exact Or.inr (Or.inr ⟨r', p', info', h1⟩)
    · rcases h1 with h1 | h1
      · exact Or.inl h1
      · exact Or.inr (Or.inl ⟨h1, h4 h1⟩)

end Psutil.C04
