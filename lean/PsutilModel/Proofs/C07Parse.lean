/-
  Proofs/C07Parse.lean — parsing what the kernel prints in `/proc/stat` gives back the
  kernel's counters (helper lemmas for `C07_times_exact`).
-/
import PsutilModel.Proofs.C07Algebra
namespace Psutil.C07
open Spec

/-! ### lines -/

theorem splitOn_unlines (ls : List Bytes) (h : ∀ l ∈ ls, 10 ∉ l) :
    splitOn 10 (unlines ls) = ls ++ [[]] := by
  induction ls with
  | nil => simp [unlines, splitOn]
  | cons l ls ih =>
    have hl := h l (by simp)
    have ih' := ih (fun x hx => h x (by simp [hx]))
    simp only [unlines, List.append_assoc, List.singleton_append]
    rw [splitOn_append 10 l _ hl, ih']
    simp

theorem linesOf_unlines (ls : List Bytes) (h : ∀ l ∈ ls, 10 ∉ l) : linesOf (unlines ls) = ls := by
  unfold linesOf
  rw [splitOn_unlines ls h]
  simp

/-! ### blanks -/

theorem splitWs_skip_blank (rest : Bytes) : splitWs (32 :: rest) = splitWs rest := by
  simp [splitWs, splitWsGo, isWs]

theorem splitWs_label (label rest : Bytes) (hne : label ≠ []) (hl : NoWs label) :
    splitWs (label ++ 32 :: rest) = label :: splitWs rest := by
  unfold splitWs
  rw [splitWsGo_token label _ [] hl]
  simp only [List.append_nil]
  rw [splitWsGo_ws 32 rest _ (by decide) (by simpa using hne)]
  simp

theorem renderDecs_split (l : List Nat) : splitWs (joinWith [32] (l.map renderDec)) = l.map renderDec := by
  apply splitWs_join 32 (by decide)
  intro f hf
  obtain ⟨n, _, rfl⟩ := List.mem_map.mp hf
  exact ⟨renderDec_ne_nil n, renderDec_noWs n⟩

theorem cpuLabel_noWs : NoWs cpuLabel := by
  intro c hc
  simp [cpuLabel] at hc
  rcases hc with rfl | rfl | rfl <;> decide

/-- tokens of the first line -/
theorem splitWs_totalLine (ncols : Nat) (t : Ticks) :
    splitWs (renderTotalLine ncols t) = cpuLabel :: (t.cols.take ncols).map renderDec := by
  unfold renderTotalLine renderCols
  have : cpuLabel ++ [32, 32] ++ joinWith [32] ((t.cols.take ncols).map renderDec)
      = cpuLabel ++ 32 :: (32 :: joinWith [32] ((t.cols.take ncols).map renderDec)) := by simp
  rw [this, splitWs_label _ _ (by simp [cpuLabel]) cpuLabel_noWs, splitWs_skip_blank, renderDecs_split]

/-- tokens of a `cpuN` line -/
theorem splitWs_cpuLine (ncols i : Nat) (t : Ticks) :
    splitWs (renderCpuLine ncols i t) = (cpuLabel ++ renderDec i) :: (t.cols.take ncols).map renderDec := by
  unfold renderCpuLine renderCols
  have hl : NoWs (cpuLabel ++ renderDec i) := by
    intro c hc
    rcases List.mem_append.mp hc with h | h
    · exact cpuLabel_noWs c h
    · exact renderDec_noWs i c h
  have : cpuLabel ++ renderDec i ++ [32] ++ joinWith [32] ((t.cols.take ncols).map renderDec)
      = (cpuLabel ++ renderDec i) ++ 32 :: joinWith [32] ((t.cols.take ncols).map renderDec) := by simp
  rw [this, splitWs_label _ _ (by simp [cpuLabel]) hl, renderDecs_split]

/-! ### numbers -/

theorem parseToks_render (c : Cfg) (hg : c.Good) (tck : Nat) (htck : 0 < tck) (l : List Nat) :
    parseToks c tck (l.map renderDec) = .ok (l.map fun (n : Nat) => (n : Rat) / (tck : Rat)) := by
  induction l with
  | nil => rfl
  | cons n l ih =>
    have h0 : tck ≠ 0 := by omega
    simp [parseToks, parseFloatTok, parseDec_renderDec, hg.divTicks, h0, ih]

theorem cols_take_length (t : Ticks) (nf : Nat) (h : nf ≤ 10) : (t.cols.take nf).length = nf := by
  simp [Ticks.cols]; omega

/-- the slice/convert/construct step on the tokens of a kernel line -/
theorem parseCpuValues_render (c : Cfg) (hg : c.Good) (tck : Nat) (htck : 0 < tck) (nf ncols : Nat)
    (hnf : nf ≤ 10) (hcols : nf ≤ ncols) (label : Bytes) (t : Ticks) :
    parseCpuValues c 1 1 nf tck (label :: (t.cols.take ncols).map renderDec)
      = .ok (seconds tck nf t) := by
  unfold parseCpuValues seconds
  have h1 : (List.drop 1 (label :: (t.cols.take ncols).map renderDec)).take (nf + 1 - 1)
      = (t.cols.take nf).map renderDec := by
    simp [← List.map_take, List.take_take, Nat.min_eq_left hcols]
  simp only [h1, parseToks_render c hg tck htck]
  have hl : nf ≤ t.cols.length := by simp [Ticks.cols]; omega
  simp [hl]

/-! ### no newline inside a rendered line -/

theorem not_mem_join (l : List Nat) : 10 ∉ joinWith [32] (l.map renderDec) := by
  induction l with
  | nil => simp [joinWith]
  | cons a l ih =>
    cases l with
    | nil => simpa [joinWith] using renderDec_not_mem a 10 (by decide)
    | cons b l' =>
      simp only [List.map_cons, joinWith] at ih ⊢
      intro h
      rcases List.mem_append.mp h with h | h
      · rcases List.mem_append.mp h with h | h
        · exact renderDec_not_mem a 10 (by decide) h
        · simp at h
      · exact ih h

theorem not_mem_totalLine (ncols : Nat) (t : Ticks) : 10 ∉ renderTotalLine ncols t := by
  unfold renderTotalLine renderCols
  intro h
  rcases List.mem_append.mp h with h | h
  · simp [cpuLabel] at h
  · exact not_mem_join _ h

theorem not_mem_cpuLine (ncols i : Nat) (t : Ticks) : 10 ∉ renderCpuLine ncols i t := by
  unfold renderCpuLine renderCols
  intro h
  rcases List.mem_append.mp h with h | h
  · rcases List.mem_append.mp h with h | h
    · rcases List.mem_append.mp h with h | h
      · simp [cpuLabel] at h
      · exact renderDec_not_mem i 10 (by decide) h
    · simp at h
  · exact not_mem_join _ h

theorem not_mem_cpuLines (ncols : Nat) (ts : List Ticks) :
    ∀ i, ∀ l ∈ renderCpuLines ncols i ts, 10 ∉ l := by
  induction ts with
  | nil => intro i l hl; simp [renderCpuLines] at hl
  | cons t ts ih =>
    intro i l hl
    simp only [renderCpuLines, List.mem_cons] at hl
    rcases hl with rfl | hl
    · exact not_mem_cpuLine ncols i t
    · exact ih (i + 1) l hl

theorem statLines_no_newline (ncols : Nat) (w : ProcStat) (ho : ∀ l ∈ w.other, 10 ∉ l) :
    ∀ l ∈ statLines ncols w, 10 ∉ l := by
  intro l hl
  simp only [statLines, List.mem_cons, List.mem_append] at hl
  rcases hl with rfl | hl | hl
  · exact not_mem_totalLine ncols w.total
  · exact not_mem_cpuLines ncols w.cpus 0 l hl
  · exact ho l hl

/-! ### per-CPU lines -/

theorem startsWith_cpuLine (ncols i : Nat) (t : Ticks) :
    startsWith [99, 112, 117] (renderCpuLine ncols i t) = true := by
  simp [startsWith, renderCpuLine, cpuLabel, List.isPrefixOf]

theorem parseCpuLines_render (c : Cfg) (hg : c.Good) (tck : Nat) (htck : 0 < tck) (nf ncols : Nat)
    (hnf : nf ≤ 10) (hcols : nf ≤ ncols) (other : List Bytes)
    (ho : ∀ l ∈ other, startsWith [99, 112, 117] l = false) (ts : List Ticks) :
    ∀ i, parseCpuLines c nf tck (renderCpuLines ncols i ts ++ other)
      = .ok (ts.map (seconds tck nf)) := by
  induction ts with
  | nil =>
    intro i
    simp only [renderCpuLines, List.nil_append, List.map_nil]
    induction other with
    | nil => rfl
    | cons l ls ih =>
      have hl := ho l (by simp)
      simp only [parseCpuLines, hg.perCpuPrefix, hl]
      exact ih (fun x hx => ho x (by simp [hx]))
  | cons t ts ih =>
    intro i
    simp only [renderCpuLines, List.cons_append, parseCpuLines, hg.perCpuPrefix,
      startsWith_cpuLine, if_true, hg.pcSliceFrom, hg.pcSliceExtra, splitWs_cpuLine,
      parseCpuValues_render c hg tck htck nf ncols hnf hcols, ih (i + 1), List.map_cons]

/-! ### the token grammar -/

/-- shape of a rendered decimal: a first digit that is `0` only for the number zero, then digits -/
theorem renderAux_shape (n : Nat) : ∀ acc : Bytes, ∃ d ds,
    renderRadixAux decimal n acc = (48 + d) :: (ds ++ acc) ∧ d < 10 ∧
      (d = 0 → n = 0 ∧ ds = []) ∧ ∀ c ∈ ds, isDigit c = true := by
  induction n using Nat.strongRecOn with
  | _ n ih =>
    intro acc
    unfold renderRadixAux
    by_cases h : n < decimal.base
    · have h10 : n < 10 := h
      refine ⟨n, [], ?_, h10, ?_, ?_⟩
      · simp [decimal, h10]
      · intro h0; exact ⟨h0, rfl⟩
      · intro c hc; simp at hc
    · have h10 : ¬ n < 10 := h
      have hlt : n / decimal.base < n := Nat.div_lt_self (by omega) (by decide)
      obtain ⟨d, ds, he, hd, h0, hds⟩ := ih (n / decimal.base) hlt (decimal.chr (n % decimal.base) :: acc)
      refine ⟨d, ds ++ [decimal.chr (n % decimal.base)], ?_, hd, ?_, ?_⟩
      · simp only [h, dite_false, he, List.append_assoc, List.singleton_append]
      · intro hz
        have := (h0 hz).1
        have hb : decimal.base = 10 := rfl
        rw [hb] at this
        omega
      · intro c hc
        rcases List.mem_append.mp hc with hc | hc
        · exact hds c hc
        · simp only [List.mem_singleton] at hc
          subst hc
          have : n % 10 < 10 := Nat.mod_lt _ (by decide)
          simp only [decimal, isDigit, Bool.and_eq_true]
          constructor <;> (apply decide_eq_true; omega)

/-- every number the renderer prints is a token of the grammar -/
theorem renderDec_kernelTok (n : Nat) : isKernelTok (renderDec n) = true := by
  obtain ⟨d, ds, he, hd, h0, hds⟩ := renderAux_shape n []
  unfold renderDec renderRadix
  rw [he]
  simp only [List.append_nil]
  have hdig : isDigit (48 + d) = true := by
    simp only [isDigit, Bool.and_eq_true, decide_eq_true_eq]; omega
  cases ds with
  | nil => simpa [isKernelTok] using hdig
  | cons x xs =>
    have hne : d ≠ 0 := by
      intro hz
      have := (h0 hz).2
      simp at this
    have hall : (x :: xs).all isDigit = true := by
      rw [List.all_eq_true]
      exact hds
    simp only [isKernelTok, hdig, hall, Bool.and_true, Bool.true_and, decide_eq_true_eq]
    omega

theorem parseAux_digits : ∀ (cs : Bytes) (acc : Nat), (∀ c ∈ cs, isDigit c = true) →
    ∃ n, parseRadixAux decimal cs acc = some n := by
  intro cs
  induction cs with
  | nil => intro acc _; exact ⟨acc, rfl⟩
  | cons c cs ih =>
    intro acc h
    have hc := h c (by simp)
    simp only [isDigit, Bool.and_eq_true, decide_eq_true_eq] at hc
    have hv : decimal.val c = some (c - 48) := by simp [decimal, hc]
    simp only [parseRadixAux, hv]
    exact ih _ (fun x hx => h x (by simp [hx]))

theorem kernelTok_digits (t : Bytes) (h : isKernelTok t = true) : t ≠ [] ∧ ∀ c ∈ t, isDigit c = true := by
  match t, h with
  | [d], h =>
    refine ⟨by simp, ?_⟩
    intro c hc
    simp only [List.mem_singleton] at hc
    subst hc
    simpa [isKernelTok] using h
  | d :: x :: xs, h =>
    refine ⟨by simp, ?_⟩
    simp only [isKernelTok, Bool.and_eq_true, List.all_eq_true] at h
    intro c hc
    rcases List.mem_cons.mp hc with rfl | hc
    · exact h.1.1
    · exact h.2 c hc

/-- the model's parser is total on the grammar: every kernel token has a decimal value -/
theorem kernelTok_parses (t : Bytes) (h : isKernelTok t = true) : ∃ n, parseDec? t = some n := by
  obtain ⟨hne, hd⟩ := kernelTok_digits t h
  unfold parseDec? parseRadix?
  cases t with
  | nil => exact absurd rfl hne
  | cons c cs => exact parseAux_digits (c :: cs) 0 hd

/-! ### … and the grammar is exactly what the renderer prints -/

theorem rr_lt (n : Nat) (acc : Bytes) (h : n < 10) : renderRadixAux decimal n acc = (48 + n) :: acc := by
  rw [renderRadixAux]; simp [decimal, h]

theorem rr_ge (n : Nat) (acc : Bytes) (h : ¬ n < 10) :
    renderRadixAux decimal n acc = renderRadixAux decimal (n / 10) ((48 + n % 10) :: acc) := by
  rw [renderRadixAux]; simp [decimal, h]

theorem renderAux_acc (n : Nat) : ∀ acc : Bytes,
    renderRadixAux decimal n acc = renderRadixAux decimal n [] ++ acc := by
  induction n using Nat.strongRecOn with
  | _ n ih =>
    intro acc
    by_cases h : n < 10
    · rw [rr_lt n acc h, rr_lt n [] h]; rfl
    · have hlt : n / 10 < n := by omega
      rw [rr_ge n acc h, rr_ge n [] h, ih _ hlt ((48 + n % 10) :: acc), ih _ hlt [48 + n % 10]]
      simp

theorem renderDec_snoc (v d : Nat) (hv : 0 < v) (hd : d < 10) :
    renderDec (v * 10 + d) = renderDec v ++ [48 + d] := by
  unfold renderDec renderRadix
  rw [rr_ge _ _ (by omega)]
  have e1 : (v * 10 + d) / 10 = v := by omega
  have e2 : (v * 10 + d) % 10 = d := by omega
  rw [e1, e2, renderAux_acc]

theorem renderDec_small (d : Nat) (hd : d < 10) : renderDec d = [48 + d] := by
  unfold renderDec renderRadix
  exact rr_lt d [] hd

/-- digits without a leading zero are the rendering of a positive number (stated on the reversed string) -/
theorem digits_render_rev : ∀ (r : Bytes), r ≠ [] → (∀ c ∈ r, isDigit c = true) → r.reverse.head? ≠ some 48 →
    ∃ n, 0 < n ∧ r.reverse = renderDec n := by
  intro r
  induction r with
  | nil => intro h; exact absurd rfl h
  | cons c ds ih =>
    intro _ hdig hhead
    have hc := hdig c (by simp)
    simp only [isDigit, Bool.and_eq_true, decide_eq_true_eq] at hc
    by_cases hds : ds = []
    · subst hds
      simp at hhead
      refine ⟨c - 48, by omega, ?_⟩
      rw [renderDec_small _ (by omega)]
      simp; omega
    · have hne : ds.reverse ≠ [] := by simpa using hds
      have hh : ds.reverse.head? ≠ some 48 := by
        intro hx
        apply hhead
        simp only [List.reverse_cons]
        cases hr : ds.reverse with
        | nil => exact absurd hr hne
        | cons x xs => rw [hr] at hx; simpa using hx
      obtain ⟨v, hv, he⟩ := ih hds (fun x hx => hdig x (by simp [hx])) hh
      refine ⟨v * 10 + (c - 48), by omega, ?_⟩
      rw [renderDec_snoc v (c - 48) hv (by omega), List.reverse_cons, he]
      congr 2; omega

theorem digits_render (t : Bytes) (hne : t ≠ []) (hd : ∀ c ∈ t, isDigit c = true) (hh : t.head? ≠ some 48) :
    ∃ n, 0 < n ∧ t = renderDec n := by
  have := digits_render_rev t.reverse (by simpa using hne) (fun c hc => hd c (by simpa using hc)) (by simpa using hh)
  simpa using this

theorem kernelTok_is_render (t : Bytes) (h : isKernelTok t = true) : ∃ n, t = renderDec n := by
  match t, h with
  | [d], h =>
    have hd : isDigit d = true := by simpa [isKernelTok] using h
    simp only [isDigit, Bool.and_eq_true, decide_eq_true_eq] at hd
    refine ⟨d - 48, ?_⟩
    rw [renderDec_small _ (by omega)]
    congr 1; omega
  | d :: x :: xs, h =>
    have hh := kernelTok_digits _ h
    simp only [isKernelTok, Bool.and_eq_true, decide_eq_true_eq] at h
    obtain ⟨n, _, hn⟩ := digits_render (d :: x :: xs) (by simp) hh.2 (by simpa using h.1.2)
    exact ⟨n, hn⟩

end Psutil.C07
