/-
  Proofs/C05Table.lean — reading the world-level relations on one process table read in one go.
-/
import PsutilModel.Proofs.C05Parent
namespace Psutil.C05
open Spec

theorem uniquePids_ppidMap {T : Table} (h : T.pids.Nodup) : UniquePids (ppidMap T) := by
  unfold UniquePids ppidMap
  rw [List.map_map]
  exact h

theorem row_unique {T : Table} (h : T.pids.Nodup) {r r' : Row} (hr : r ∈ T) (hr' : r' ∈ T)
    (hp : r.pid = r'.pid) : r = r' := by
  unfold Table.pids at h
  induction T with
  | nil => cases hr
  | cons a as ih =>
    rw [List.map_cons, List.nodup_cons] at h
    rcases List.mem_cons.1 hr with rfl | hr1 <;> rcases List.mem_cons.1 hr' with h2 | hr2
    · exact h2.symm
    · exact absurd (List.mem_map.2 ⟨r', hr2, hp.symm⟩) h.1
    · subst h2
      exact absurd (List.mem_map.2 ⟨r, hr1, hp⟩) h.1
    · exact ih h.2 hr1 hr2

theorem find_of_mem {T : Table} (h : T.pids.Nodup) {r : Row} (hr : r ∈ T) : T.find r.pid = some r := by
  cases hf : T.find r.pid with
  | none =>
    unfold Table.find at hf
    have := List.find?_eq_none.1 hf r hr
    simp at this
  | some r' =>
    obtain ⟨hp, hm⟩ := find_some hf
    rw [row_unique h hm hr hp]

/-- on a table read in one go, `Child` is the table-level child relation -/
theorem child_table_iff {T : Table} (h : T.pids.Nodup) {ct p c : Nat} :
    Child (ppidMap T) (lookOf T) ct p c ↔ ∃ r, ChildT T p ct r ∧ r.pid = c := by
  unfold Child ChildT ppidMap
  constructor
  · rintro ⟨hm, s, hs, hle⟩
    obtain ⟨r, hr, he⟩ := List.mem_map.1 hm
    obtain ⟨hc, hp⟩ := Prod.mk.inj he
    have hfr := find_of_mem h hr
    rw [hc] at hfr
    have := lookOf_of_find hfr
    rw [this] at hs
    cases hs
    exact ⟨r, ⟨hr, hp, hle⟩, hc⟩
  · rintro ⟨r, ⟨hr, hp, hle⟩, hc⟩
    refine ⟨List.mem_map.2 ⟨r, hr, by rw [hp, hc]⟩, r.start, ?_, hle⟩
    rw [← hc]
    exact lookOf_of_find (find_of_mem h hr)

end Psutil.C05
