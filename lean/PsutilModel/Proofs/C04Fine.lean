/-
  Proofs/C04Fine.lean — lemmas about the statement-granularity thread model (`Model/C04Fine.lean`):
  its prologue IS the atomic prologue run on the hybrid snapshot of what the thread read; what the
  loop can yield and publish, for every sequence of answers of the world.
-/
import PsutilModel.Proofs.C04Safety
import PsutilModel.Model.C04Fine
namespace Psutil.C04

/-- the hybrid snapshot: the table as listed at ITS instant, `_pmap` as copied at ITS instant, the
    flagged PIDs this thread popped -/
def hyb (rd : FReads) : St :=
  ⟨⟨rd.listing.map fun p => ⟨p, 0, false, false, .ok⟩, []⟩, rd.copy, rd.popped, none, [], []⟩

theorem hyb_listdir (rd : FReads) : (hyb rd).k.listdir = rd.listing := by
  simp [hyb, Kernel.listdir, List.map_map, Function.comp_def]

theorem sortNat_ne_nil {l : List Nat} (h : l ≠ []) : sortNat l ≠ [] := by
  cases l with
  | nil => exact absurd rfl h
  | cons x xs =>
    intro he
    have : x ∈ sortNat (x :: xs) := (mem_sortNat x _).mpr (by simp)
    rw [he] at this; cases this

/-- the thread's prologue, whatever happened between its reads, computes exactly what the atomic
    prologue computes on the hybrid snapshot -/
theorem finePrologue_eq (cfg : Cfg) (rd : FReads) (hne : rd.listing ≠ []) :
    (prologue cfg (hyb rd)).2
      = some ((finePrologue cfg rd).1, (finePrologue cfg rd).2, sortNat rd.listing) := by
  have hs := sortNat_ne_nil hne
  unfold prologue finePrologue pidsCall
  rw [hyb_listdir]
  cases hd : cfg.drainFirst with
  | true =>
    simp only [if_true]
    have : ({ hyb rd with flagged := [] } : St).k.listdir = rd.listing := hyb_listdir rd
    rw [this]
    cases hsn : sortNat rd.listing with
    | nil => exact absurd hsn hs
    | cons p ps => rfl
  | false =>
    simp only [Bool.false_eq_true, if_false]
    cases hsn : sortNat rd.listing with
    | nil => exact absurd hsn hs
    | cons p ps => rfl

/-- what the thread's to-do list and private map look like, for any values read -/
theorem finePrologue_props (cfg : Cfg) (rd : FReads) (hne : rd.listing ≠ []) (hk : rd.listing.Nodup)
    (hp : NodupKeys rd.copy) :
    (todoPids (finePrologue cfg rd).2).Pairwise (· < ·)
    ∧ (∀ p ∈ todoPids (finePrologue cfg rd).2, p ∈ rd.listing)
    ∧ NodupKeys (finePrologue cfg rd).1
    ∧ (∀ e ∈ (finePrologue cfg rd).2, e.2 = (finePrologue cfg rd).1.get e.1)
    ∧ (cfg.drainFirst = true ∨ rd.popped = [] → todoPids (finePrologue cfg rd).2 = sortNat rd.listing) := by
  have pr := prologue_res cfg (hyb rd) (by rw [hyb_listdir]; exact hk) hp
  rw [finePrologue_eq cfg rd hne] at pr
  obtain ⟨_, _, _, _, p5⟩ := pr
  simp only at p5
  obtain ⟨q1, _, q3, q4, q5, q6, _, q8⟩ := p5
  refine ⟨q3, fun p hp' => (mem_sortNat p _).mp (by rw [hyb_listdir] at q1; exact q4 p hp'), q5, q6, ?_⟩
  intro h
  exact (q8 h).1

/-- a cached entry the thread keeps is the entry of the copy, and its PID was not handed to the
    thread by `_pids_reused.pop()` -/
theorem finePrologue_get (cfg : Cfg) (rd : FReads) (p : Nat) (r : Ref)
    (h : (finePrologue cfg rd).1.get p = some r) :
    rd.copy.get p = some r ∧ rd.popped.contains p = false ∧ p ∈ rd.listing := by
  have key : (finePrologue cfg rd).1
      = (rd.copy.filter fun e => !rd.popped.contains e.1).filter fun e => (sortNat rd.listing).contains e.1 := by
    unfold finePrologue
    cases cfg.drainFirst with
    | true =>
      simp only [if_true]
      rw [removeAll_gone, removeAll_eq_filter]
    | false =>
      simp only [Bool.false_eq_true, if_false]
      rw [removeAll_gone, removeAll_eq_filter, List.filter_filter, List.filter_filter]
      apply List.filter_congr
      intro e _
      exact Bool.and_comm _ _
  rw [key, get_filter _ (fun q => (sortNat rd.listing).contains q), get_filter _ (fun q => !rd.popped.contains q)] at h
  have h' : p ∈ sortNat rd.listing ∧ ¬ p ∈ rd.popped ∧ rd.copy.get p = some r := by simpa using h
  exact ⟨h'.2.2, by simpa using h'.2.1, (mem_sortNat p _).mp h'.1⟩

theorem mem_remove {m : PMap} {p : Nat} {e : Nat × Ref} (h : e ∈ m.remove p) : e ∈ m ∧ e.1 ≠ p := by
  simp only [PMap.remove, List.mem_filter, Bool.not_eq_true', beq_eq_false_iff_ne, ne_eq] at h
  exact h

theorem mem_set {m : PMap} {p r : Nat} {e : Nat × Ref} (h : e ∈ m.set p r) : (e ∈ m ∧ e.1 ≠ p) ∨ e = (p, r) := by
  unfold PMap.set at h
  split at h
  · simp only [List.mem_map] at h
    obtain ⟨x, hx, he⟩ := h
    split at he
    · exact Or.inr he.symm
    · rename_i hne
      subst he
      exact Or.inl ⟨hx, by simpa using hne⟩
  · rename_i hhas
    rcases List.mem_append.mp h with h' | h'
    · refine Or.inl ⟨h', ?_⟩
      intro he
      apply hhas
      simp only [PMap.has, List.any_eq_true, beq_iff_eq]
      exact ⟨e, h', he⟩
    · simp only [List.mem_singleton] at h'
      exact Or.inr h'

/-- one run of the loop, for EVERY sequence of answers: the yields are appended in to-do order, each
    yielded object is the to-do entry's cached object or the thread's own new one, and every entry
    of the private map at the end was there before or is the thread's own new object for that PID -/
theorem fineLoop_res (invalid hasAttrs : Bool) (base : Nat) :
    ∀ (todo : List (Nat × Option Ref)) (pm : PMap) (ts : List FTouch) (ys : List (Nat × Ref)),
      ∃ zs, (fineLoop invalid hasAttrs base pm todo ts ys).1 = ys ++ zs
        ∧ (zs.map (·.1)).Sublist (todoPids todo)
        ∧ (∀ e ∈ zs, (e.1, some e.2) ∈ todo ∨ ((e.1, none) ∈ todo ∧ e.2 = base + e.1))
        ∧ (∀ e ∈ (fineLoop invalid hasAttrs base pm todo ts ys).2.1,
            e ∈ pm ∨ ((e.1, none) ∈ todo ∧ e.2 = base + e.1))
        ∧ ((fineLoop invalid hasAttrs base pm todo ts ys).2.2 = none
            ∨ ((fineLoop invalid hasAttrs base pm todo ts ys).2.2 = some "ValueError"
                ∧ hasAttrs = true ∧ invalid = true)) := by
  intro todo
  induction todo with
  | nil =>
    intro pm ts ys
    exact ⟨[], by simp [fineLoop], by simp [todoPids], by simp, by simp [fineLoop], Or.inl (by simp [fineLoop])⟩
  | cons en rest ih =>
    intro pm ts ys
    obtain ⟨pid, oref⟩ := en
    cases ts with
    | nil =>
      exact ⟨[], by simp [fineLoop], by simp, by simp, fun e he => Or.inl (by simpa [fineLoop] using he),
        Or.inl (by simp [fineLoop])⟩
    | cons t ts =>
      -- lifting a result for `rest` to `(pid, oref) :: rest`
      have lift : ∀ (pm' : PMap) (ys' : List (Nat × Ref)) (pre : List (Nat × Ref)),
          ys' = ys ++ pre → (pre.map (·.1)).Sublist [pid] →
          (∀ e ∈ pre, (e.1, some e.2) ∈ (pid, oref) :: rest ∨ ((e.1, none) ∈ (pid, oref) :: rest ∧ e.2 = base + e.1)) →
          (∀ e ∈ pm', e ∈ pm ∨ ((e.1, none) ∈ (pid, oref) :: rest ∧ e.2 = base + e.1)) →
          ∃ zs, (fineLoop invalid hasAttrs base pm' rest ts ys').1 = ys ++ zs
            ∧ (zs.map (·.1)).Sublist (todoPids ((pid, oref) :: rest))
            ∧ (∀ e ∈ zs, (e.1, some e.2) ∈ (pid, oref) :: rest ∨ ((e.1, none) ∈ (pid, oref) :: rest ∧ e.2 = base + e.1))
            ∧ (∀ e ∈ (fineLoop invalid hasAttrs base pm' rest ts ys').2.1,
                e ∈ pm ∨ ((e.1, none) ∈ (pid, oref) :: rest ∧ e.2 = base + e.1))
            ∧ ((fineLoop invalid hasAttrs base pm' rest ts ys').2.2 = none
                ∨ ((fineLoop invalid hasAttrs base pm' rest ts ys').2.2 = some "ValueError"
                    ∧ hasAttrs = true ∧ invalid = true)) := by
        intro pm' ys' pre hys hsub hpre hpm
        obtain ⟨zs, h1, h2, h3, h4, h5⟩ := ih pm' ts ys'
        refine ⟨pre ++ zs, by rw [h1, hys, List.append_assoc], ?_, ?_, ?_, h5⟩
        · simp only [List.map_append, todoPids, List.map_cons]
          exact List.Sublist.append hsub h2
        · intro e he
          rcases List.mem_append.mp he with h | h
          · exact hpre e h
          · rcases h3 e h with h' | ⟨h', h''⟩
            · exact Or.inl (List.mem_cons_of_mem _ h')
            · exact Or.inr ⟨List.mem_cons_of_mem _ h', h''⟩
        · intro e he
          rcases h4 e he with h | ⟨h', h''⟩
          · exact hpm e h
          · exact Or.inr ⟨List.mem_cons_of_mem _ h', h''⟩
      simp only [fineLoop]
      cases ha : fineAdd base pm pid t oref with
      | none =>
        simp only
        exact lift (pm.remove pid) ys [] (by simp) (by simp) (by simp) (fun e he => Or.inl (mem_remove he).1)
      | some x =>
        obtain ⟨pm1, r⟩ := x
        simp only
        -- what `add` did
        have hadd : (∀ e ∈ pm1, e ∈ pm ∨ ((e.1, none) ∈ (pid, oref) :: rest ∧ e.2 = base + e.1))
            ∧ (((pid, some r) ∈ (pid, oref) :: rest) ∨ ((pid, none) ∈ (pid, oref) :: rest ∧ r = base + pid)) := by
          cases oref with
          | some r0 =>
            simp only [fineAdd, Option.some.injEq, Prod.mk.injEq] at ha
            obtain ⟨rfl, rfl⟩ := ha
            exact ⟨fun e he => Or.inl he, Or.inl (by simp)⟩
          | none =>
            simp only [fineAdd] at ha
            split at ha
            · cases ha
            · simp only [Option.some.injEq, Prod.mk.injEq] at ha
              obtain ⟨rfl, rfl⟩ := ha
              refine ⟨fun e he => ?_, Or.inr ⟨by simp, rfl⟩⟩
              rcases mem_set he with h | h
              · exact Or.inl h.1
              · subst h; exact Or.inr ⟨by simp, rfl⟩
        split
        · rename_i hv
          simp only [Bool.and_eq_true] at hv
          exact ⟨[], by simp, by simp, by simp, hadd.1, Or.inr ⟨rfl, hv.1, hv.2⟩⟩
        · split
          · exact lift (pm1.remove pid) ys [] (by simp) (by simp) (by simp)
              (fun e he => hadd.1 e (mem_remove he).1)
          · refine lift pm1 (ys ++ [(pid, r)]) [(pid, r)] rfl (by simp) ?_ hadd.1
            intro e he
            simp only [List.mem_singleton] at he
            subst he
            exact hadd.2

theorem mem_zip_of_mem_left {α β : Type} : ∀ (l1 : List α) (l2 : List β) (e : α),
    e ∈ l1 → l1.length ≤ l2.length → ∃ t, (e, t) ∈ l1.zip l2
  | [], _, e, h, _ => by cases h
  | x :: xs, [], e, _, hl => by simp at hl
  | x :: xs, y :: ys, e, h, hl => by
    rcases List.mem_cons.mp h with h' | h'
    · exact ⟨y, by simp [h']⟩
    · obtain ⟨t, ht⟩ := mem_zip_of_mem_left xs ys e h' (by simpa using hl)
      exact ⟨t, by simp [ht]⟩

/-- the world said "no such process" at this to-do entry: `Process(pid)` failed for a new PID, or
    `as_dict` did not find the process -/
def NspAnswer (hasAttrs : Bool) (x : (Nat × Option Ref) × FTouch) : Prop :=
  (x.1.2 = none ∧ x.2.create = none) ∨ (hasAttrs = true ∧ x.2.fill = false)

/-- completeness of the loop for EVERY sequence of answers: an entry that was reached is yielded
    unless the world answered "no such process" there -/
theorem fineLoop_complete (invalid hasAttrs : Bool) (base : Nat) (hv : (hasAttrs && invalid) = false) :
    ∀ (todo : List (Nat × Option Ref)) (pm : PMap) (ts : List FTouch) (ys : List (Nat × Ref)),
      ∀ x ∈ todo.zip ts,
        x.1.1 ∈ (fineLoop invalid hasAttrs base pm todo ts ys).1.map (·.1) ∨ NspAnswer hasAttrs x := by
  intro todo
  induction todo with
  | nil => intro pm ts ys x hx; simp at hx
  | cons en rest ih =>
    intro pm ts ys x hx
    obtain ⟨pid, oref⟩ := en
    cases ts with
    | nil => simp at hx
    | cons t ts =>
      simp only [List.zip_cons_cons, List.mem_cons] at hx
      simp only [fineLoop, hv, Bool.false_eq_true, if_false]
      cases ha : fineAdd base pm pid t oref with
      | none =>
        simp only
        rcases hx with rfl | hx
        · right; left
          cases oref with
          | some r => simp [fineAdd] at ha
          | none =>
            simp only [fineAdd] at ha
            split at ha
            · rename_i hc; exact ⟨rfl, hc⟩
            · cases ha
        · exact ih _ ts ys x hx
      | some y =>
        obtain ⟨pm1, r⟩ := y
        simp only
        split
        · rename_i hf
          simp only [Bool.and_eq_true, Bool.not_eq_true'] at hf
          rcases hx with rfl | hx
          · right; right; exact hf
          · exact ih _ ts ys x hx
        · rcases hx with rfl | hx
          · left
            obtain ⟨zs, h1, _⟩ := fineLoop_res invalid hasAttrs base rest pm1 ts (ys ++ [(pid, r)])
            rw [h1]
            simp
          · exact ih _ ts _ x hx

end Psutil.C04
