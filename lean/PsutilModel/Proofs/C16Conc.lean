/-
  Proofs/C16Conc.lean — invariant of the small-step model (Model/C16Conc.lean), preserved by
  EVERY enabled action of every thread and by every world change. Core Lean only.
-/
import PsutilModel.Model.C16Conc
namespace Psutil.C16.Conc

/-- the ghost/global components the per-thread invariant talks about -/
structure View where
  now : Nat
  nextId : Nat
  hist : Nat → Nat → Nat
  created : Nat → Nat

def St.view (s : St) : View := ⟨s.now, s.nextId, s.hist, s.created⟩

/-- entry `e` under key `f` is a content that source `f` really had, at instant `e.tr ≤ now` -/
def EV (v : View) (f : Nat) (e : Entry) : Prop := e.tr ≤ v.now ∧ v.hist e.tr f = e.val

def HowInv (cfg : CCfg) (v : View) (cs : Nat) (e : Entry) : How → Prop
  | .computed => cs ≤ e.tr
  | .hit d t0 => cs ≤ t0 ∧ t0 ≤ v.now ∧ d < v.nextId ∧ v.created d ≤ t0 ∧
      (cfg.storeReloads = false → v.created d ≤ e.tr)

def TInv (cfg : CCfg) (v : View) : PC → Prop
  | .w0 _ cs => cs ≤ v.now
  | .w1 _ cs d t0 => cs ≤ t0 ∧ t0 ≤ v.now ∧ d < v.nextId ∧ v.created d ≤ t0
  | .w2 _ cs od => cs ≤ v.now ∧
      ∀ d t0, od = some (d, t0) → cs ≤ t0 ∧ t0 ≤ v.now ∧ d < v.nextId ∧ v.created d ≤ t0
  | .w3 f cs e => EV v f e ∧ cs ≤ e.tr ∧ cfg.storeReloads = true
  | .w4 f cs d e => EV v f e ∧ cs ≤ e.tr ∧ d < v.nextId ∧
      (cfg.storeReloads = false → v.created d ≤ e.tr)
  | .ret f cs e how => EV v f e ∧ HowInv cfg v cs e how
  | .err => cfg.delGuard = false ∨ (cfg.storeReloads = true ∧ cfg.storeGuard = false)
  | _ => True

structure Inv0 (cfg : CCfg) (s : St) : Prop where
  createdLe : ∀ d, d < s.nextId → s.created d ≤ s.now
  attrLt : ∀ d, s.attr = some d → d < s.nextId
  ents : ∀ d f e, s.ents d f = some e →
    d < s.nextId ∧ EV s.view f e ∧ (cfg.storeReloads = false → s.created d ≤ e.tr)
  thr : ∀ i, TInv cfg s.view (s.thr i).pc

/-- `v'` extends `v`: same instant and history, more dicts, old dicts keep their creation instant -/
structure Ext (v v' : View) : Prop where
  now : v'.now = v.now
  hist : v'.hist = v.hist
  next : v.nextId ≤ v'.nextId
  created : ∀ d, d < v.nextId → v'.created d = v.created d

theorem Ext.refl (v : View) : Ext v v := ⟨rfl, rfl, Nat.le_refl _, fun _ _ => rfl⟩

theorem EV_ext {v v' : View} (h : Ext v v') {f : Nat} {e : Entry} (he : EV v f e) : EV v' f e := by
  obtain ⟨h1, h2⟩ := he
  exact ⟨by rw [h.now]; exact h1, by rw [h.hist]; exact h2⟩

theorem TInv_ext {cfg : CCfg} {v v' : View} (h : Ext v v') {pc : PC} (hp : TInv cfg v pc) :
    TInv cfg v' pc := by
  have hn := h.now
  have hx := h.next
  cases pc with
  | w0 f cs => simp only [TInv] at hp ⊢; omega
  | w1 f cs d t0 =>
    simp only [TInv] at hp ⊢
    obtain ⟨a, b, c, d'⟩ := hp
    refine ⟨a, by omega, by omega, ?_⟩
    rw [h.created _ c]; exact d'
  | w2 f cs od =>
    simp only [TInv] at hp ⊢
    obtain ⟨a, b⟩ := hp
    refine ⟨by omega, fun d t0 hod => ?_⟩
    obtain ⟨b1, b2, b3, b4⟩ := b d t0 hod
    refine ⟨b1, by omega, by omega, ?_⟩
    rw [h.created _ b3]; exact b4
  | w3 f cs e =>
    simp only [TInv] at hp ⊢
    exact ⟨EV_ext h hp.1, hp.2⟩
  | w4 f cs d e =>
    simp only [TInv] at hp ⊢
    obtain ⟨a, b, c, d'⟩ := hp
    refine ⟨EV_ext h a, b, by omega, fun hs => ?_⟩
    rw [h.created _ c]; exact d' hs
  | ret f cs e how =>
    simp only [TInv] at hp ⊢
    refine ⟨EV_ext h hp.1, ?_⟩
    cases how with
    | computed => exact hp.2
    | hit d t0 =>
      obtain ⟨a, b, c, d', e'⟩ := hp.2
      refine ⟨a, by omega, by omega, ?_, fun hs => ?_⟩
      · rw [h.created _ c]; exact d'
      · rw [h.created _ c]; exact e' hs
  | err => exact hp
  | idle => trivial
  | test => trivial
  | act k => trivial
  | deact k => trivial
  | release => trivial
  | retErr f cs => trivial

/-- assembling the invariant after a step of thread `tid` -/
theorem inv0_upd {cfg : CCfg} {s s' : St} (tid : Nat) (t' : Thread) (hI : Inv0 cfg s)
    (hthr : s'.thr = fun i => if i = tid then t' else s.thr i)
    (hext : Ext s.view s'.view)
    (hcr : ∀ d, d < s'.nextId → s'.created d ≤ s'.now)
    (hattr : ∀ d, s'.attr = some d → d < s'.nextId)
    (hents : ∀ d f e, s'.ents d f = some e →
      d < s'.nextId ∧ EV s'.view f e ∧ (cfg.storeReloads = false → s'.created d ≤ e.tr))
    (hnew : TInv cfg s'.view t'.pc) : Inv0 cfg s' := by
  refine ⟨hcr, hattr, hents, fun i => ?_⟩
  rw [hthr]
  by_cases hi : i = tid
  · simp only [hi, if_true]; exact hnew
  · simp only [hi, if_false]; exact TInv_ext hext (hI.thr i)

/-- a step that only moves thread `tid` to `pc'` (and possibly changes lock/attr to `none`) -/
theorem inv0_setPc {cfg : CCfg} {s : St} (tid : Nat) (pc' : PC) (hI : Inv0 cfg s)
    (hnew : TInv cfg s.view pc') : Inv0 cfg (setPc s tid pc') :=
  inv0_upd tid { s.thr tid with pc := pc' } hI rfl (Ext.refl _) hI.createdLe hI.attrLt hI.ents hnew

theorem inv0_setThr {cfg : CCfg} {s : St} (tid : Nat) (t' : Thread) (hI : Inv0 cfg s)
    (hnew : TInv cfg s.view t'.pc) : Inv0 cfg (setThr s tid t') :=
  inv0_upd tid t' hI rfl (Ext.refl _) hI.createdLe hI.attrLt hI.ents hnew

theorem inv0_lock {cfg : CCfg} {s : St} (l : Option Nat) (hI : Inv0 cfg s) :
    Inv0 cfg { s with lock := l } := ⟨hI.createdLe, hI.attrLt, hI.ents, hI.thr⟩

theorem inv0_attrNone {cfg : CCfg} {s : St} (hI : Inv0 cfg s) :
    Inv0 cfg { s with attr := none } :=
  ⟨hI.createdLe, fun _ h => by simp at h, hI.ents, hI.thr⟩

/-- the state right after `proc._cache = {}` -/
def actSt (s : St) (tid : Nat) : St :=
  { s with attr := some s.nextId, nextId := s.nextId + 1,
           created := fun d => if d = s.nextId then s.now else s.created d,
           ents := fun d => if d = s.nextId then (fun _ => none) else s.ents d,
           creator := fun d => if d = s.nextId then tid else s.creator d }

/-- `cache_activate`: a fresh, empty dict becomes the attribute -/
theorem inv0_act {cfg : CCfg} {s : St} (tid : Nat) (hI : Inv0 cfg s) : Inv0 cfg (actSt s tid) := by
  have hext : Ext s.view (actSt s tid).view := by
    refine ⟨rfl, rfl, Nat.le_succ _, ?_⟩
    intro d hd
    show (if d = s.nextId then s.now else s.created d) = s.created d
    have hne : d ≠ s.nextId := Nat.ne_of_lt hd
    simp [hne]
  refine ⟨?_, ?_, ?_, fun i => TInv_ext hext (hI.thr i)⟩
  · intro d hd
    show (if d = s.nextId then s.now else s.created d) ≤ s.now
    by_cases h : d = s.nextId
    · simp [h]
    · simp only [h, if_false]
      exact hI.createdLe d (by have : d < s.nextId + 1 := hd; omega)
  · intro d hd
    have hd' : some s.nextId = some d := hd
    simp only [Option.some.injEq] at hd'
    show d < s.nextId + 1
    omega
  · intro d f e he
    have he' : (if d = s.nextId then (fun _ => none) else s.ents d) f = some e := he
    by_cases h : d = s.nextId
    · simp [h] at he'
    · simp only [h, if_false] at he'
      have he := he'
      obtain ⟨a, b, c⟩ := hI.ents d f e he
      refine ⟨by show d < s.nextId + 1; omega, EV_ext hext b, fun hs => ?_⟩
      show (if d = s.nextId then s.now else s.created d) ≤ e.tr
      simp only [h, if_false]; exact c hs

/-- `cache[fun] = ret` into an existing dict -/
theorem inv0_store {cfg : CCfg} {s : St} (d f : Nat) (e : Entry) (hI : Inv0 cfg s)
    (hd : d < s.nextId) (hev : EV s.view f e) (hc : cfg.storeReloads = false → s.created d ≤ e.tr) :
    Inv0 cfg { s with ents := fun d' => if d' = d then (fun k => if k = f then some e else s.ents d k)
                                         else s.ents d' } := by
  refine ⟨hI.createdLe, hI.attrLt, ?_, hI.thr⟩
  intro d' f' e' he
  by_cases h1 : d' = d
  · subst h1
    simp only [if_true] at he
    by_cases h2 : f' = f
    · subst h2
      simp only [if_true, Option.some.injEq] at he
      subst he
      exact ⟨hd, hev, hc⟩
    · simp only [h2, if_false] at he
      exact hI.ents d' f' e' he
  · simp only [h1, if_false] at he
    exact hI.ents d' f' e' he

/-- every enabled bytecode of every thread preserves the invariant -/
theorem tstep_inv0 {cfg : CCfg} {s s1 : St} (tid : Nat) (c : Choice) (hI : Inv0 cfg s)
    (hN : ∀ f, s.hist s.now f = s.ver f) (h : tstep cfg s tid c = some s1) : Inv0 cfg s1 := by
  have hT := hI.thr tid
  unfold tstep at h
  split at h
  · -- idle, call
    simp only [Option.some.injEq] at h; subst h
    exact inv0_setPc tid _ hI (by simp only [TInv, St.view]; exact Nat.le_refl _)
  · -- idle, acquire
    split at h
    · simp only [Option.some.injEq] at h; subst h
      exact inv0_setPc tid _ (inv0_lock _ hI) trivial
    · simp at h
  · -- idle, beginExit
    split at h
    · simp only [Option.some.injEq] at h; subst h; exact inv0_setPc tid _ hI trivial
    · simp only [Option.some.injEq] at h; subst h; exact inv0_setPc tid _ hI trivial
    · simp at h
  · -- test
    split at h
    · simp only [Option.some.injEq] at h; subst h; exact inv0_setThr tid _ hI trivial
    · simp only [Option.some.injEq] at h; subst h; exact inv0_setPc tid _ hI trivial
  · -- act (k+1)
    simp only [Option.some.injEq] at h; subst h
    exact inv0_setPc (s := actSt s tid) tid _ (inv0_act tid hI) trivial
  · -- act 0
    simp only [Option.some.injEq] at h; subst h; exact inv0_setThr tid _ hI trivial
  · -- deact (k+1)
    split at h
    · simp only [Option.some.injEq] at h; subst h
      exact inv0_setPc tid _ (inv0_attrNone hI) trivial
    · simp only [Option.some.injEq] at h; subst h
      refine inv0_setPc tid _ hI ?_
      cases hg : cfg.delGuard
      · simp only [Bool.false_eq_true, if_false, TInv]; exact Or.inl hg
      · simp only [if_true]; trivial
  · -- deact 0
    simp only [Option.some.injEq] at h; subst h; exact inv0_setPc tid _ hI trivial
  · -- release
    simp only [Option.some.injEq] at h; subst h
    exact inv0_setThr tid _ (inv0_lock _ hI) trivial
  · -- w0
    rename_i f cs hpc
    rw [hpc] at hT
    simp only [TInv, St.view] at hT
    split at h
    · rename_i d hd
      split at h
      · simp only [Option.some.injEq] at h; subst h
        refine inv0_setPc tid _ hI ?_
        simp only [TInv, St.view]
        exact ⟨hT, fun d t0 hh => by simp at hh⟩
      · simp only [Option.some.injEq] at h; subst h
        refine inv0_setPc tid _ hI ?_
        have hlt := hI.attrLt d hd
        have hc := hI.createdLe d hlt
        simp only [TInv, St.view]
        exact ⟨hT, Nat.le_refl _, hlt, hc⟩
    · simp only [Option.some.injEq] at h; subst h
      refine inv0_setPc tid _ hI ?_
      simp only [TInv, St.view]
      exact ⟨hT, fun d t0 hh => by simp at hh⟩
  · -- w1
    rename_i f cs d t0 hpc
    rw [hpc] at hT
    simp only [TInv, St.view] at hT
    obtain ⟨h1, h2, h3, h4⟩ := hT
    split at h
    · rename_i e he
      simp only [Option.some.injEq] at h; subst h
      refine inv0_setPc tid _ hI ?_
      obtain ⟨_, b, c'⟩ := hI.ents d f e he
      simp only [TInv, HowInv]
      exact ⟨b, h1, h2, h3, h4, c'⟩
    · simp only [Option.some.injEq] at h; subst h
      refine inv0_setPc tid _ hI ?_
      simp only [TInv, St.view]
      refine ⟨by omega, fun d' t0' hh => ?_⟩
      simp only [Option.some.injEq, Prod.mk.injEq] at hh
      obtain ⟨rfl, rfl⟩ := hh
      exact ⟨h1, h2, h3, h4⟩
  · -- w2
    rename_i f cs od hpc
    rw [hpc] at hT
    simp only [TInv, St.view] at hT
    obtain ⟨h1, h2⟩ := hT
    split at h
    · simp only [Option.some.injEq] at h; subst h; exact inv0_setPc tid _ hI trivial
    · have hev : EV s.view f ⟨s.ver f, s.now⟩ := ⟨Nat.le_refl _, hN f⟩
      split at h
      · simp only [Option.some.injEq] at h; subst h
        refine inv0_setPc tid _ hI ?_
        simp only [TInv, HowInv]
        exact ⟨hev, h1⟩
      · rename_i d t0
        simp only [Option.some.injEq] at h; subst h
        refine inv0_setPc tid _ hI ?_
        obtain ⟨a1, a2, a3, a4⟩ := h2 d t0 rfl
        cases hr : cfg.storeReloads
        · simp only [Bool.false_eq_true, if_false, TInv]
          exact ⟨hev, h1, a3, fun _ => by show s.created d ≤ s.now; omega⟩
        · simp only [if_true, TInv]
          exact ⟨hev, h1, hr⟩
  · -- w3
    rename_i f cs e hpc
    rw [hpc] at hT
    simp only [TInv] at hT
    obtain ⟨h1, h2, h3⟩ := hT
    split at h
    · rename_i d hd
      simp only [Option.some.injEq] at h; subst h
      refine inv0_setPc tid _ hI ?_
      simp only [TInv]
      exact ⟨h1, h2, hI.attrLt d hd, fun hs => by rw [h3] at hs; cases hs⟩
    · simp only [Option.some.injEq] at h; subst h
      refine inv0_setPc tid _ hI ?_
      cases hg : cfg.storeGuard
      · simp only [Bool.false_eq_true, if_false, TInv]
        exact Or.inr ⟨h3, hg⟩
      · simp only [if_true, TInv, HowInv]; exact ⟨h1, h2⟩
  · -- w4
    rename_i f cs d e hpc
    rw [hpc] at hT
    simp only [TInv] at hT
    obtain ⟨h1, h2, h3, h4⟩ := hT
    simp only [Option.some.injEq] at h; subst h
    refine inv0_setPc tid _ (inv0_store d f e hI h3 h1 h4) ?_
    simp only [TInv, HowInv]
    exact ⟨h1, h2⟩
  · -- ret
    simp only [Option.some.injEq] at h; subst h; exact inv0_setPc tid _ hI trivial
  · -- retErr
    simp only [Option.some.injEq] at h; subst h; exact inv0_setPc tid _ hI trivial
  · simp at h

/-- time passing preserves the invariant and re-establishes `hist now = ver` -/
theorem EV_tick {s : St} {f : Nat} {e : Entry} (h : EV s.view f e) : EV (tick s).view f e := by
  obtain ⟨h1, h2⟩ := h
  refine ⟨Nat.le_succ_of_le h1, ?_⟩
  show (if e.tr = s.now + 1 then s.ver else s.hist e.tr) f = e.val
  have hne : e.tr ≠ s.now + 1 := by
    have : e.tr ≤ s.now := h1
    omega
  simp only [hne, if_false]; exact h2

theorem TInv_tick {cfg : CCfg} {s : St} {pc : PC} (hp : TInv cfg s.view pc) :
    TInv cfg (tick s).view pc := by
  have hnow : (tick s).view.now = s.now + 1 := rfl
  have hnext : (tick s).view.nextId = s.nextId := rfl
  have hcr : (tick s).view.created = s.created := rfl
  cases pc with
  | w0 f cs => simp only [TInv, hnow] at hp ⊢; have : cs ≤ s.now := hp; omega
  | w1 f cs d t0 =>
    simp only [TInv, hnow, hnext, hcr] at hp ⊢
    obtain ⟨a, b, c, d'⟩ := hp
    exact ⟨a, Nat.le_succ_of_le b, c, d'⟩
  | w2 f cs od =>
    simp only [TInv, hnow, hnext, hcr] at hp ⊢
    obtain ⟨a, b⟩ := hp
    refine ⟨Nat.le_succ_of_le a, fun d t0 hod => ?_⟩
    obtain ⟨b1, b2, b3, b4⟩ := b d t0 hod
    exact ⟨b1, Nat.le_succ_of_le b2, b3, b4⟩
  | w3 f cs e => simp only [TInv] at hp ⊢; exact ⟨EV_tick hp.1, hp.2⟩
  | w4 f cs d e =>
    simp only [TInv, hnext, hcr] at hp ⊢
    exact ⟨EV_tick hp.1, hp.2⟩
  | ret f cs e how =>
    simp only [TInv] at hp ⊢
    refine ⟨EV_tick hp.1, ?_⟩
    cases how with
    | computed => exact hp.2
    | hit d t0 =>
      obtain ⟨a, b, c, d', e'⟩ := hp.2
      exact ⟨a, Nat.le_succ_of_le b, c, d', e'⟩
  | err => exact hp
  | idle => trivial
  | test => trivial
  | act k => trivial
  | deact k => trivial
  | release => trivial
  | retErr f cs => trivial

theorem inv0_tick {cfg : CCfg} {s : St} (hI : Inv0 cfg s) : Inv0 cfg (tick s) := by
  refine ⟨fun d hd => Nat.le_succ_of_le (hI.createdLe d hd), hI.attrLt, fun d f e he => ?_,
    fun i => TInv_tick (hI.thr i)⟩
  obtain ⟨a, b, c⟩ := hI.ents d f e he
  exact ⟨a, EV_tick b, c⟩

theorem histNow_tick (s : St) : ∀ f, (tick s).hist (tick s).now f = s.ver f := by
  intro f
  show (if s.now + 1 = s.now + 1 then s.ver else s.hist (s.now + 1)) f = s.ver f
  simp

/-- the full invariant: `Inv0` plus "the history's last row is the current content table" -/
def Inv (cfg : CCfg) (s : St) : Prop := Inv0 cfg s ∧ ∀ f, s.hist s.now f = s.ver f

theorem inv_init (cfg : CCfg) : Inv cfg St.init := by
  refine ⟨⟨fun d hd => ?_, fun d hd => ?_, fun d f e he => ?_, fun i => trivial⟩, fun f => rfl⟩
  · exact absurd hd (Nat.not_lt_zero _)
  · simp [St.init] at hd
  · simp [St.init] at he

theorem step_inv {cfg : CCfg} {s s' : St} (a : Action) (hI : Inv cfg s) (h : step cfg s a = some s') :
    Inv cfg s' := by
  cases a with
  | thr tid c =>
    simp only [step, Option.map_eq_some_iff] at h
    obtain ⟨s1, h1, rfl⟩ := h
    have hver : (tick s1).ver = s1.ver := rfl
    exact ⟨inv0_tick (tstep_inv0 tid c hI.1 hI.2 h1), histNow_tick s1⟩
  | setVer f v =>
    simp only [step, Option.some.injEq] at h
    subst h
    refine ⟨inv0_tick ⟨hI.1.createdLe, hI.1.attrLt, hI.1.ents, hI.1.thr⟩, histNow_tick _⟩
  | setDenied f b =>
    simp only [step, Option.some.injEq] at h
    subst h
    refine ⟨inv0_tick ⟨hI.1.createdLe, hI.1.attrLt, hI.1.ents, hI.1.thr⟩, histNow_tick _⟩

theorem reach_inv {cfg : CCfg} {s : St} (h : Reach cfg s) : Inv cfg s := by
  induction h with
  | init => exact inv_init cfg
  | step a _ hs ih => exact step_inv a ih hs

/-- total version of `run`: a disabled action is skipped -/
def runD (cfg : CCfg) : St → List Action → St
  | s, [] => s
  | s, a :: as => match step cfg s a with
    | some s' => runD cfg s' as
    | none => runD cfg s as

theorem reach_runD {cfg : CCfg} (as : List Action) : ∀ {s : St}, Reach cfg s → Reach cfg (runD cfg s as) := by
  induction as with
  | nil => intro s h; exact h
  | cons a as ih =>
    intro s h
    simp only [runD]
    cases hs : step cfg s a with
    | none => exact ih h
    | some s' => exact ih (Reach.step a h hs)

/-- the interval form, as a proposition about a thread standing at `ret` -/
def IntervalForm (s : St) (f cs : Nat) (e : Entry) (how : How) : Prop :=
  ∃ t, t ≤ s.now ∧ s.hist t f = e.val ∧
    (cs ≤ t ∨ ∃ d t0, how = .hit d t0 ∧ cs ≤ t0 ∧ t0 ≤ s.now ∧ s.created d ≤ t0 ∧ s.created d ≤ t)

/-- the literal form: valid at some moment of the call itself -/
def LiteralForm (s : St) (f cs : Nat) (e : Entry) : Prop :=
  ∃ t, cs ≤ t ∧ t ≤ s.now ∧ s.hist t f = e.val

theorem intervalOK_of {s : St} {f cs : Nat} {e : Entry} {how : How} (h : IntervalForm s f cs e how) :
    intervalOK s f cs e how = true := by
  obtain ⟨t, h1, h2, h3⟩ := h
  unfold intervalOK
  rw [List.any_eq_true]
  refine ⟨t, List.mem_range.mpr (by omega), ?_⟩
  simp only [Bool.and_eq_true, beq_iff_eq, Bool.or_eq_true, decide_eq_true_eq]
  refine ⟨h2, ?_⟩
  cases h3 with
  | inl h => exact Or.inl h
  | inr h =>
    obtain ⟨d, t0, rfl, a, b, c, d'⟩ := h
    right
    simp only [Bool.and_eq_true, decide_eq_true_eq]
    exact ⟨⟨⟨a, b⟩, c⟩, d'⟩

theorem literalOK_of {s : St} {f cs : Nat} {e : Entry} (h : LiteralForm s f cs e) :
    literalOK s f cs e = true := by
  obtain ⟨t, h1, h2, h3⟩ := h
  unfold literalOK
  rw [List.any_eq_true]
  refine ⟨t, List.mem_range.mpr (by omega), ?_⟩
  simp only [Bool.and_eq_true, beq_iff_eq, decide_eq_true_eq]
  exact ⟨h1, h3⟩

end Psutil.C16.Conc
