/-
  Proofs/C10Front.lean — helper lemmas about the front-end layer (Model/C10Front.lean) and the
  system-wide ("total") form.
-/
import PsutilModel.Proofs.C10
import PsutilModel.Model.C10Front
namespace Psutil.C10
open Spec

/-! ### column sums -/

theorem tupleAt_eq {t : List Nat} {i : Nat} (h : i < t.length) : tupleAt t i = t[i] := by
  simp [tupleAt, h]

theorem foldl_zipWith (w : Nat) (rest : List (List Nat)) : ∀ acc : List Nat, acc.length = w →
    (∀ t ∈ rest, t.length = w) →
    rest.foldl (fun acc t => List.zipWith (· + ·) acc t) acc
      = (List.range w).map fun i => tupleAt acc i + (rest.map fun t => tupleAt t i).sum := by
  induction rest with
  | nil =>
    intro acc ha _
    apply List.ext_getElem (by simp [ha])
    intro i h1 h2
    have h1' : i < acc.length := by simpa using h1
    simp [tupleAt_eq h1']
  | cons t ts ih =>
    intro acc ha hr
    have ht : t.length = w := hr t (by simp)
    simp only [List.foldl_cons]
    rw [ih (List.zipWith (· + ·) acc t) (by simp [ha, ht]) (fun u hu => hr u (by simp [hu]))]
    apply List.map_congr_left
    intro i hi
    have hiw : i < w := by simpa using hi
    have h1 : i < acc.length := by omega
    have h2 : i < t.length := by omega
    have h3 : i < (List.zipWith (· + ·) acc t).length := by simp; omega
    simp only [List.map_cons, List.sum_cons, tupleAt_eq h1, tupleAt_eq h2, tupleAt_eq h3,
      List.getElem_zipWith]
    omega

/-- `sum(x) for x in zip(*values)` is the field-wise sum when all tuples have width `w` -/
theorem colSums_uniform (w : Nat) (vs : List (List Nat)) (hne : vs ≠ []) (hw : ∀ t ∈ vs, t.length = w) :
    colSums vs = (List.range w).map fun i => (vs.map fun t => tupleAt t i).sum := by
  cases vs with
  | nil => exact absurd rfl hne
  | cons v rest =>
    simp only [colSums]
    rw [foldl_zipWith w rest v (hw v (by simp)) (fun t ht => hw t (by simp [ht]))]
    simp

theorem colSums_eq_totalOf (w : Nat) (r : Raw) (hw : RawW w r) :
    colSums (r.map (·.2)) = totalOf r := by
  cases r with
  | nil => rfl
  | cons kv rest =>
    have h0 : kv.2.length = w := hw kv (by simp)
    rw [colSums_uniform w ((kv :: rest).map (·.2)) (by simp)
      (by intro t ht; simp only [List.mem_map] at ht; obtain ⟨e, he, rfl⟩ := ht; exact hw e he)]
    simp only [totalOf, h0, List.map_map]
    rfl

/-! ### the promised tuples have the width of the newest snapshot -/

theorem expected_entry (h : List Op) (n : Name) (raw : Raw) (hn : NodupKeys raw)
    {kv : Key × List Nat} (hm : kv ∈ raw) :
    (expectedTuple (raw :: snapsOf n h) kv.1).getD kv.2
      = kv.2.mapIdx fun i x => x + wrapSum i (epochVals kv.1 (raw :: snapsOf n h)) := by
  have hl := lookup_of_mem hn hm
  simp only [expectedTuple, epochVals_cons_some hl, Option.getD_some]

theorem expected_width (w : Nat) (h : List Op) (n : Name) (raw : Raw) (hr : RawW w raw)
    (hn : NodupKeys raw) : RawW w (expected h n raw) := by
  intro e he
  simp only [expected, List.mem_map] at he
  obtain ⟨kv, hm, rfl⟩ := he
  simp only [expected_entry h n raw hn hm, List.length_mapIdx]
  exact hr kv hm

theorem valueAt_of_mem (snaps : List Raw) (raw : Raw) (hn : NodupKeys raw)
    {kv : Key × List Nat} (hm : kv ∈ raw) (i : Nat) :
    valueAt (raw :: snaps) kv.1 i
      = tupleAt ((expectedTuple (raw :: snaps) kv.1).getD kv.2) i := by
  have hl := lookup_of_mem hn hm
  simp only [valueAt, tupleAt, expectedTuple, epochVals_cons_some hl, Option.getD_some]

/-- field `i` of the field-wise sum of the promised tuples is `totalField` -/
theorem totalOf_expected (w : Nat) (h : List Op) (n : Name) (raw : Raw) (hr : RawW w raw)
    (hn : NodupKeys raw) (hne : raw ≠ []) :
    totalOf (expected h n raw) = (List.range w).map fun i => totalField (snapsOf n h) raw i := by
  have hw := expected_width w h n raw hr hn
  cases hraw : raw with
  | nil => exact absurd hraw hne
  | cons kv rest =>
    rw [← hraw]
    have hex : expected h n raw ≠ [] := by simp [expected, hne]
    cases hexp : expected h n raw with
    | nil => exact absurd hexp hex
    | cons e es =>
      have he : e.2.length = w := hw e (by simp [hexp])
      simp only [totalOf, he]
      apply List.map_congr_left
      intro i _
      rw [← hexp]
      simp only [totalField, expected, List.map_map]
      congr 1
      apply List.map_congr_left
      intro kv' hm
      simp only [Function.comp]
      exact (valueAt_of_mem (snapsOf n h) raw hn hm i).symm

/-! ### sums over duplicate-free key lists -/

theorem sum_le_of_nodup_subset (f : Key → Nat) : ∀ (l1 l2 : List Key), l1.Nodup →
    (∀ k ∈ l1, k ∈ l2) → (l1.map f).sum ≤ (l2.map f).sum := by
  intro l1
  induction l1 with
  | nil => intro l2 _ _; simp
  | cons a as ih =>
    intro l2 hnd hsub
    have ha : a ∈ l2 := hsub a (by simp)
    have hp : (l2.map f).sum = ((a :: l2.erase a).map f).sum :=
      ((List.perm_cons_erase ha).map f).sum_nat
    rw [hp]
    simp only [List.map_cons, List.sum_cons]
    have hnd' := List.nodup_cons.mp hnd
    have := ih (l2.erase a) hnd'.2 (by
      intro k hk
      have hne : k ≠ a := fun e => hnd'.1 (e ▸ hk)
      exact (List.mem_erase_of_ne hne).mpr (hsub k (by simp [hk])))
    omega

theorem sum_le_sum_pointwise {α : Type} (l : List α) (f g : α → Nat) (h : ∀ a ∈ l, f a ≤ g a) :
    (l.map f).sum ≤ (l.map g).sum := by
  induction l with
  | nil => simp
  | cons a as ih =>
    simp only [List.map_cons, List.sum_cons]
    have := h a (by simp)
    have := ih (fun b hb => h b (by simp [hb]))
    omega

/-! ### front end = `_WrapNumbers` operations -/

theorem runAll_append (c : Cfg) (s : St) (a b : List Op) :
    runAll c s (a ++ b) = runAll c (runAll c s a) b := by
  induction a generalizing s with
  | nil => rfl
  | cons o os ih => simp [runAll, ih]

theorem fstep_state (c : Cfg) (s : St) (op : FOp) : (fstep c s op).1 = runAll c s (lower c op) := by
  cases op with
  | call cl => simp [fstep, lower, runAll]
  | clear fn => simp [fstep]
  | clearAll => simp [fstep]

theorem frun_eq (c : Cfg) (fh : List FOp) : ∀ s, frun c s fh = runAll c s (lowerAll c fh) := by
  induction fh with
  | nil => intro s; rfl
  | cons op ops ih =>
    intro s
    simp only [frun, lowerAll, List.flatMap_cons, runAll_append, fstep_state]
    exact ih _

/-- operations that leave slot `n`'s snapshot list alone -/
theorem snapsOf_append_untouched (n : Name) (h mid : List Op)
    (hm : ∀ op ∈ mid, ∀ s, snapsStep n s op = s) : snapsOf n (h ++ mid) = snapsOf n h := by
  unfold snapsOf
  rw [List.foldl_append]
  generalize List.foldl (snapsStep n) [] h = acc
  induction mid generalizing acc with
  | nil => rfl
  | cons o os ih =>
    simp only [List.foldl_cons]
    rw [hm o (by simp)]
    exact ih (fun op hop => hm op (by simp [hop])) acc

theorem snapsOf_snoc_call (n : Name) (h : List Op) (raw : Raw) :
    snapsOf n (h ++ [.call n true raw]) = raw :: snapsOf n h := by
  simp [snapsOf, snapsStep]

/-- a listed device survives the platform layer of the per-device form -/
theorem platRaw_perdev (c : Cfg) (fn : Fn) (l : Listing) :
    platRaw c fn true l = l.map fun e => (e.1, e.2.2) := by
  have : ∀ l : Listing, l.filter (fun _ => true) = l := fun l => List.filter_eq_self.mpr (by simp)
  simp [platRaw, this]

/-! ### ingredients of `C10_present_monotone` (no width / uniqueness hypotheses needed) -/

theorem lookup_outOf (old input : Raw) (rem' : Key → Nat → Nat) (k : Key) :
    (outOf old input rem').lookup k
      = (input.lookup k).map fun v =>
          match old.lookup k with
          | none => v
          | some _ => v.mapIdx fun i x => x + rem' k i := by
  induction input with
  | nil => rfl
  | cons a as ih =>
    obtain ⟨ak, av⟩ := a
    simp only [outOf, List.map_cons] at ih ⊢
    by_cases hk : k = ak
    · subst hk
      cases ho : old.lookup k <;> simp [List.lookup]
    · have hb : (k == ak) = false := by simpa using hk
      have hb' : ∀ x : List Nat, (k == (match old.lookup ak with
          | none => (ak, av)
          | some _ => (ak, x)).1) = false := by
        intro x; cases old.lookup ak <;> simpa using hk
      cases ho : old.lookup ak with
      | none => simp only [List.lookup, hb]; exact ih
      | some o => simp only [List.lookup, hb]; exact ih

theorem lookup_listed (l : Listing) (k : Key) (h : ∃ e ∈ l, e.1 = k) :
    ∃ o, (l.map fun e => (e.1, e.2.2)).lookup k = some o := by
  induction l with
  | nil => obtain ⟨e, he, _⟩ := h; cases he
  | cons a as ih =>
    by_cases hk : k = a.1
    · exact ⟨a.2.2, by simp [hk]⟩
    · have hb : (k == a.1) = false := by simpa using hk
      obtain ⟨e, he, hek⟩ := h
      have : ∃ e ∈ as, e.1 = k := by
        cases he with
        | head => exact absurd hek.symm hk
        | tail _ h' => exact ⟨e, h', hek⟩
      obtain ⟨o, ho⟩ := ih this
      exact ⟨o, by simp only [List.map_cons, List.lookup, hb]; exact ho⟩

theorem tupleAt_mapIdx_eq (o : List Nat) (R : Nat → Nat) (i : Nat) (h : i < o.length) :
    tupleAt (o.mapIdx fun j x => x + R j) i = tupleAt o i + R i := by
  simp [tupleAt, h]

theorem tupleAt_mapIdx_le (o : List Nat) (R : Nat → Nat) (i : Nat) :
    tupleAt (o.mapIdx fun j x => x + R j) i ≤ tupleAt o i + R i := by
  by_cases h : i < o.length
  · rw [tupleAt_mapIdx_eq o R i h]; exact Nat.le_refl _
  · simp [tupleAt, h]

theorem shape_true_dict {o : Out} {r : Raw} (h : shape true o = .dict r) : o = .dict r := by
  cases o <;> simp_all [shape]

/-- what a `nowrap=True` call that returned a dict did -/
theorem step_call_dict (c : Cfg) (s : St) (n : Name) (raw r : Raw)
    (h : (step c s (.call n true raw)).2 = .dict r) :
    r = (run c (s.get (slot c n)) raw).2
    ∧ (step c s (.call n true raw)).1 = s.set (slot c n) (run c (s.get (slot c n)) raw).1
    ∧ ∀ old, (s.get (slot c n)).cache = some old → widthMismatch old raw = false := by
  simp only [step] at h ⊢
  split at h
  · cases h
  · rename_i hne
    simp only [if_true] at h ⊢
    cases hc : (s.get (slot c n)).cache with
    | none =>
      simp only [hc] at h ⊢
      split at h
      · cases h
      · rename_i hemp
        have hr : raw ≠ [] := by simpa using hemp
        simp only [Out.dict.injEq] at h
        refine ⟨h.symm, ?_, fun old ho => by cases ho⟩
        simp [hr]
    | some old =>
      simp only [hc] at h ⊢
      split at h
      · cases h
      · rename_i hwm
        split at h
        · cases h
        · rename_i hemp
          have hr : raw ≠ [] := by simpa using hemp
          simp only [Out.dict.injEq] at h
          refine ⟨h.symm, ?_, ?_⟩
          · simp [hr, hwm]
          · intro o ho
            simp only [Option.some.injEq] at ho
            subst ho
            simpa using hwm

/-- a call on one slot leaves every other slot alone -/
theorem step_call_get_other (c : Cfg) (s : St) (n m : Name) (nw : Bool) (raw : Raw) (h : m ≠ slot c n) :
    (step c s (.call n nw raw)).1.get m = s.get m := by
  simp only [step]
  split
  · rfl
  · split
    · cases hc : (s.get (slot c n)).cache with
      | none => simp only []; exact get_set_other _ _ _ _ h
      | some old =>
        simp only []
        split
        · rfl
        · exact get_set_other _ _ _ _ h
    · rfl

theorem frun_append (c : Cfg) (a b : List FOp) : ∀ s, frun c s (a ++ b) = frun c (frun c s a) b := by
  induction a with
  | nil => intro s; rfl
  | cons x xs ih => intro s; simp only [List.cons_append, frun]; exact ih _

theorem run_cache (c : Cfg) (w : WN) (raw : Raw) : (run c w raw).1.cache = some raw := by
  unfold run; cases w.cache <;> rfl

end Psutil.C10
