/-
  Proofs/C02.lean — helper lemmas for Props/C02.lean on top of the shared invariant
  (Proofs/C01*.lean): the kernel is only moved by kernel events, a lost PID stays lost along any
  history, and what `==` / `hash` / `is_running()` compute in an invariant state.
-/
import PsutilModel.Proofs.C01Args
namespace Psutil.C01
variable {nt : Bool}
open Spec

/-- psutil calls never change the kernel -/
theorem step_call_kern (c : Cfg) (s : St) (call : Call) : (step c s (.c call)).1.kern = s.kern := by
  cases htg : call.target with
  | none => exact (step_no_target c s htg).2
  | some i =>
    cases ho : s.ps.objs[i]? with
    | none => rw [step_bad_index c s htg ho]
    | some o =>
      obtain ⟨r, hm⟩ := method_some c s.kern s.ps o htg
      rw [step_method c s htg ho hm]

/-- an incarnation that no longer owns its PID never owns it again, whatever happens next -/
theorem run_dead {c : Cfg} (pid g : Nat) (h : List Ev) : ∀ (s : St), g < s.kern.clock →
    s.kern.owner pid ≠ some g → (run c s h).kern.owner pid ≠ some g := by
  induction h with
  | nil => intro s _ hd; exact hd
  | cons e es ih =>
    intro s hg hd
    cases e with
    | k ke =>
      exact ih _ (Nat.lt_of_lt_of_le hg (clock_mono s.kern ke)) (dead_stays_dead s.kern ke pid g hg hd)
    | c call =>
      have hk := step_call_kern c s call
      exact ih _ (by rw [hk]; exact hg) (by rw [hk]; exact hd)

/-- all objects of an invariant state share the one frozen boot time -/
theorem shared_boot {clk : Nat} {s : St} (h : Inv nt clk s) {i j : Nat} {a b : PObj}
    (ha : s.ps.objs[i]? = some a) (hb : s.ps.objs[j]? = some b) :
    ∃ B, ObjOK clk s.kern B a ∧ ObjOK clk s.kern B b := by
  obtain ⟨B, hB, hoa⟩ := h.ps.objs a (List.mem_of_getElem? ha)
  obtain ⟨B', hB', hob⟩ := h.ps.objs b (List.mem_of_getElem? hb)
  rw [hB] at hB'; cases hB'
  exact ⟨B, hoa, hob⟩

instance (a b : PObj) : Decidable (SameIncarnation a b) := by
  unfold SameIncarnation; infer_instance

theorem sameB_iff (a b : PObj) : sameB a b = true ↔ SameIncarnation a b := by
  simp [sameB, SameIncarnation]

theorem step_eq_out (c : Cfg) (s : St) {i j : Nat} {a b : PObj}
    (ha : s.ps.objs[i]? = some a) (hb : s.ps.objs[j]? = some b) :
    (step c s (.c (.eq i j))).2 = .bool (a.pid == b.pid && a.ident == b.ident) := by
  simp [step, ha, hb]

theorem step_hash_out (c : Cfg) (s : St) {i : Nat} {a : PObj} (ha : s.ps.objs[i]? = some a) :
    (step c s (.c (.hash i))).2 = .ident a.pid a.ident := by
  rw [step_method c s (call := .hash i) rfl ha rfl]

theorem step_isRunning_out (c : Cfg) (s : St) {i : Nat} {a : PObj} (ha : s.ps.objs[i]? = some a) :
    (step c s (.c (.isRunning i))).2 = .bool (isRunningO c s.kern s.ps a).2.2 := by
  rw [step_method c s (call := .isRunning i) rfl ha rfl]; rfl

theorem step_status_out (c : Cfg) (s : St) {i : Nat} {a : PObj} (ha : s.ps.objs[i]? = some a) :
    (step c s (.c (.status i))).2 = .status (statusWord s.kern a) := by
  simp [step, ha]

theorem ownZombie_of_find {k : Kernel} (hk : KInv nt k) {o : PObj} {x : Inst} (hf : k.find o.pid = some x)
    (hs : x.start = o.ghost) : ownZombie k o = some x.zombie := by
  unfold ownZombie
  have hxm := List.mem_of_find?_eq_some hf
  have hxp : x.pid = o.pid := by simpa using List.find?_some hf
  cases hy : k.procs.find? (fun y => y.pid == o.pid && y.start == o.ghost) with
  | none =>
    have := List.find?_eq_none.1 hy x hxm
    simp [hxp, hs] at this
  | some y =>
    have hym := List.mem_of_find?_eq_some hy
    have hyp := List.find?_some hy
    simp only [Bool.and_eq_true, beq_iff_eq] at hyp
    have : y = x := mem_eq_of_nodup_pid hk.uniq hym hxm (hyp.1.trans hxp.symm)
    simp [this]

theorem step_processIter (c : Cfg) (s : St) :
    step c s (.c .processIter)
      = ({ s with ps := (processIter c s.kern s.ps).1 }, .procs (processIter c s.kern s.ps).2) := rfl

/-- the status word `str(p)` may show for an object in an invariant state -/
theorem statusWord_spec {clk : Nat} {k : Kernel} {B : Nat} {o : PObj} (hk : KInv nt k) (hok : ObjOK clk k B o) :
    ((statusWord k o = .terminated ∨ statusWord k o = .reusedTerminated) → ¬ Listed k o)
    ∧ (Listed k o → ∃ x, k.find o.pid = some x ∧ x.start = o.ghost
        ∧ statusWord k o = if x.zombie then .zombie else .alive) := by
  rw [listed_iff_owner hk]
  unfold statusWord
  cases hr : o.reused with
  | true =>
    have hd := hok.dead (by simp [hr])
    simp only [if_true]
    exact ⟨fun _ => hd, fun hl => absurd hl hd⟩
  | false =>
    simp only [Bool.false_eq_true, if_false]
    cases hf : k.find o.pid with
    | none => simp [Kernel.owner, hf]
    | some x =>
      simp only [Kernel.owner, hf, Option.map_some, Option.some.injEq, isHidden_false hok.nohide,
        Bool.false_eq_true, if_false]
      refine ⟨?_, fun hl => ⟨x, rfl, hl, rfl⟩⟩
      rintro (h | h) <;> split at h <;> cases h

/-! ### the clauses of C02 for ANY configuration with `BootGood` (Props/C02.lean instantiates them with the extracted
    configuration, and with the repaired / as-found variants of the `BOOT_TIME` test) -/

theorem eq_iff_same_gen {c : Cfg} (hc : c.BootGood) (b0 : Nat) (hb0 : BtOK c.createNoneTest b0) (h : List Ev)
    (hh : HistOK c.createNoneTest h) (i j : Nat) (a b : PObj)
    (ha : (run c (St.init b0) h).ps.objs[i]? = some a) (hb : (run c (St.init b0) h).ps.objs[j]? = some b) :
    (step c (run c (St.init b0) h) (.c (.eq i j))).2 = .bool (decide (SameIncarnation a b)) := by
  have hinv := run_inv hc h _ hh (init_inv c.clk hb0)
  generalize run c (St.init b0) h = s at *
  obtain ⟨B, hoa, hob⟩ := shared_boot hinv ha hb
  rw [step_eq_out c s ha hb]
  congr 1
  rw [hoa.ident_eq, hob.ident_eq, Bool.eq_iff_iff, decide_eq_true_iff]
  simp [SameIncarnation]

theorem hash_congr_gen {c : Cfg} (hc : c.BootGood) (b0 : Nat) (hb0 : BtOK c.createNoneTest b0) (h : List Ev)
    (hh : HistOK c.createNoneTest h) (i j : Nat) (a b : PObj)
    (ha : (run c (St.init b0) h).ps.objs[i]? = some a) (hb : (run c (St.init b0) h).ps.objs[j]? = some b)
    (hsame : SameIncarnation a b) :
    (step c (run c (St.init b0) h) (.c (.hash i))).2 = (step c (run c (St.init b0) h) (.c (.hash j))).2 := by
  have hinv := run_inv hc h _ hh (init_inv c.clk hb0)
  generalize run c (St.init b0) h = s at *
  obtain ⟨B, hoa, hob⟩ := shared_boot hinv ha hb
  rw [step_hash_out c s ha, step_hash_out c s hb, hoa.ident_eq, hob.ident_eq, hsame.1, hsame.2]

theorem isRunning_iff_listed_gen {c : Cfg} (hc : c.BootGood) (b0 : Nat) (hb0 : BtOK c.createNoneTest b0) (h : List Ev)
    (hh : HistOK c.createNoneTest h) (i : Nat) (o : PObj) (ho : (run c (St.init b0) h).ps.objs[i]? = some o) :
    (step c (run c (St.init b0) h) (.c (.isRunning i))).2 = .bool (listedB (run c (St.init b0) h).kern o) := by
  have hinv := run_inv hc h _ hh (init_inv c.clk hb0)
  generalize run c (St.init b0) h = s at *
  obtain ⟨B, hB, hok⟩ := hinv.ps.objs o (List.mem_of_getElem? ho)
  have hs := isRunningO_spec hc hB (hinv.ps.boot_nz B hB) hok
  rw [step_isRunning_out c s ho]
  congr 1
  rw [Bool.eq_iff_iff, hs.iff, listedB_iff, listed_iff_owner hinv.kern]

theorem isRunning_sticky_gen {c : Cfg} (hc : c.BootGood) (b0 : Nat) (hb0 : BtOK c.createNoneTest b0) (h : List Ev)
    (hh : HistOK c.createNoneTest h) (i : Nat) (o : PObj) (ho : (run c (St.init b0) h).ps.objs[i]? = some o)
    (hgone : ¬ Listed (run c (St.init b0) h).kern o) (h2 : List Ev) (hh2 : HistOK c.createNoneTest h2) :
    (step c (run c (run c (St.init b0) h) h2) (.c (.isRunning i))).2 = .bool false := by
  have hinv := run_inv hc h _ hh (init_inv c.clk hb0)
  generalize run c (St.init b0) h = s at *
  have hinv2 := run_inv hc h2 s hh2 hinv
  obtain ⟨o', ho', hevo⟩ := run_ext hc h2 s hh2 hinv i o ho
  obtain ⟨B, hB, hok⟩ := hinv.ps.objs o (List.mem_of_getElem? ho)
  have hdead : s.kern.owner o.pid ≠ some o.ghost := fun e => hgone ((listed_iff_owner hinv.kern o).2 e)
  have hdead2 := run_dead (c := c) o.pid o.ghost h2 s hok.ghost_lt hdead
  obtain ⟨B', hB', hok'⟩ := hinv2.ps.objs o' (List.mem_of_getElem? ho')
  have hs := isRunningO_spec hc hB' (hinv2.ps.boot_nz B' hB') hok'
  rw [step_isRunning_out c _ ho']
  congr 1
  cases hr : (isRunningO c (run c s h2).kern (run c s h2).ps o').2.2 with
  | false => rfl
  | true =>
    have := hs.iff.1 hr
    rw [hevo.pid, hevo.ghost] at this
    exact absurd this hdead2

/-- what an object is (PID, the process it was built for, its `_ident`) never changes along a history; the sticky
    flags only ever get set -/
theorem object_constant_gen {c : Cfg} (hc : c.BootGood) (b0 : Nat) (hb0 : BtOK c.createNoneTest b0) (h : List Ev)
    (hh : HistOK c.createNoneTest h) (i : Nat) (o : PObj) (ho : (run c (St.init b0) h).ps.objs[i]? = some o)
    (h2 : List Ev) (hh2 : HistOK c.createNoneTest h2) :
    ∃ o', (run c (run c (St.init b0) h) h2).ps.objs[i]? = some o' ∧ Evolves o o' :=
  run_ext hc h2 _ hh2 (run_inv hc h _ hh (init_inv c.clk hb0)) i o ho

theorem answers_stable_gen {c : Cfg} (hc : c.BootGood) (b0 : Nat) (hb0 : BtOK c.createNoneTest b0) (h : List Ev)
    (hh : HistOK c.createNoneTest h) (i j : Nat) (a b : PObj)
    (ha : (run c (St.init b0) h).ps.objs[i]? = some a) (hb : (run c (St.init b0) h).ps.objs[j]? = some b)
    (h2 : List Ev) (hh2 : HistOK c.createNoneTest h2) :
    (step c (run c (run c (St.init b0) h) h2) (.c (.eq i j))).2
        = (step c (run c (St.init b0) h) (.c (.eq i j))).2
    ∧ (step c (run c (run c (St.init b0) h) h2) (.c (.hash i))).2
        = (step c (run c (St.init b0) h) (.c (.hash i))).2 := by
  obtain ⟨a', ha', ea⟩ := object_constant_gen hc b0 hb0 h hh i a ha h2 hh2
  obtain ⟨b', hb', eb⟩ := object_constant_gen hc b0 hb0 h hh j b hb h2 hh2
  rw [step_eq_out c _ ha' hb', step_eq_out c _ ha hb, step_hash_out c _ ha', step_hash_out c _ ha,
    ea.pid, ea.ident, eb.pid, eb.ident]
  exact ⟨rfl, rfl⟩

theorem run_append (c : Cfg) : ∀ (l1 l2 : List Ev) (s : St), run c s (l1 ++ l2) = run c (run c s l1) l2 := by
  intro l1; induction l1 with
  | nil => intro l2 s; rfl
  | cons e es ih => intro l2 s; exact ih l2 _

end Psutil.C01
