/-
  Proofs/C02.lean — helper lemmas for Props/C02.lean on top of the shared invariant
  (Proofs/C01*.lean): the kernel is only moved by kernel events, a lost PID stays lost along any
  history, and what `==` / `hash` / `is_running()` compute in an invariant state.
-/
import PsutilModel.Proofs.C01Args
namespace Psutil.C01
variable {nt : Bool}
open Spec

/-- psutil calls never change the kernel -/
theorem step_call_kern (c : Cfg) (s : St) (call : Call) : (step c s (.c call)).1.kern = s.kern := by
  cases htg : call.target with
  | none => exact (step_no_target c s htg).2
  | some i =>
    cases ho : s.ps.objs[i]? with
    | none => rw [step_bad_index c s htg ho]
    | some o =>
      obtain ⟨r, hm⟩ := method_some c s.kern s.ps o htg
      rw [step_method c s htg ho hm]

/-- an incarnation that no longer owns its PID never owns it again, whatever happens next -/
theorem run_dead {c : Cfg} (pid g : Nat) (h : List Ev) : ∀ (s : St), g < s.kern.clock →
    s.kern.owner pid ≠ some g → (run c s h).kern.owner pid ≠ some g := by
  induction h with
  | nil => intro s _ hd; exact hd
  | cons e es ih =>
    intro s hg hd
    cases e with
    | k ke =>
      exact ih _ (Nat.lt_of_lt_of_le hg (clock_mono s.kern ke)) (dead_stays_dead s.kern ke pid g hg hd)
    | c call =>
      have hk := step_call_kern c s call
      exact ih _ (by rw [hk]; exact hg) (by rw [hk]; exact hd)

/-- all objects of an invariant state share the one frozen boot time -/
theorem shared_boot {clk : Nat} {s : St} (h : Inv nt clk s) {i j : Nat} {a b : PObj}
    (ha : s.ps.objs[i]? = some a) (hb : s.ps.objs[j]? = some b) :
    ∃ B, ObjOK clk s.kern B a ∧ ObjOK clk s.kern B b := by
  obtain ⟨B, hB, hoa⟩ := h.ps.objs a (List.mem_of_getElem? ha)
  obtain ⟨B', hB', hob⟩ := h.ps.objs b (List.mem_of_getElem? hb)
  rw [hB] at hB'; cases hB'
  exact ⟨B, hoa, hob⟩

instance (a b : PObj) : Decidable (SameIncarnation a b) := by
  unfold SameIncarnation; infer_instance

theorem sameB_iff (a b : PObj) : sameB a b = true ↔ SameIncarnation a b := by
  simp [sameB, SameIncarnation]

theorem step_eq_out (c : Cfg) (s : St) {i j : Nat} {a b : PObj}
    (ha : s.ps.objs[i]? = some a) (hb : s.ps.objs[j]? = some b) :
    (step c s (.c (.eq i j))).2 = .bool (a.pid == b.pid && a.ident == b.ident) := by
  simp [step, ha, hb]

theorem step_hash_out (c : Cfg) (s : St) {i : Nat} {a : PObj} (ha : s.ps.objs[i]? = some a) :
    (step c s (.c (.hash i))).2 = .ident a.pid a.ident := by
  rw [step_method c s (call := .hash i) rfl ha rfl]

theorem step_isRunning_out (c : Cfg) (s : St) {i : Nat} {a : PObj} (ha : s.ps.objs[i]? = some a) :
    (step c s (.c (.isRunning i))).2 = .bool (isRunningO c s.kern s.ps a).2.2 := by
  rw [step_method c s (call := .isRunning i) rfl ha rfl]; rfl

theorem step_status_out (c : Cfg) (s : St) {i : Nat} {a : PObj} (ha : s.ps.objs[i]? = some a) :
    (step c s (.c (.status i))).2 = .status (statusWord s.kern a) := by
  simp [step, ha]

theorem ownZombie_of_find {k : Kernel} (hk : KInv nt k) {o : PObj} {x : Inst} (hf : k.find o.pid = some x)
    (hs : x.start = o.ghost) : ownZombie k o = some x.zombie := by
  unfold ownZombie
  have hxm := List.mem_of_find?_eq_some hf
  have hxp : x.pid = o.pid := by simpa using List.find?_some hf
  cases hy : k.procs.find? (fun y => y.pid == o.pid && y.start == o.ghost) with
  | none =>
    have := List.find?_eq_none.1 hy x hxm
    simp [hxp, hs] at this
  | some y =>
    have hym := List.mem_of_find?_eq_some hy
    have hyp := List.find?_some hy
    simp only [Bool.and_eq_true, beq_iff_eq] at hyp
    have : y = x := mem_eq_of_nodup_pid hk.uniq hym hxm (hyp.1.trans hxp.symm)
    simp [this]

theorem step_processIter (c : Cfg) (s : St) :
    step c s (.c .processIter)
      = ({ s with ps := (processIter c s.kern s.ps).1 }, .procs (processIter c s.kern s.ps).2) := rfl

/-- the status word `str(p)` may show for an object in an invariant state -/
theorem statusWord_spec {clk : Nat} {k : Kernel} {B : Nat} {o : PObj} (hk : KInv nt k) (hok : ObjOK clk k B o) :
    ((statusWord k o = .terminated ∨ statusWord k o = .reusedTerminated) → ¬ Listed k o)
    ∧ (Listed k o → ∃ x, k.find o.pid = some x ∧ x.start = o.ghost
        ∧ statusWord k o = if x.zombie then .zombie else .alive) := by
  rw [listed_iff_owner hk]
  unfold statusWord
  cases hr : o.reused with
  | true =>
    have hd := hok.dead (by simp [hr])
    simp only [if_true]
    exact ⟨fun _ => hd, fun hl => absurd hl hd⟩
  | false =>
    simp only [Bool.false_eq_true, if_false]
    cases hf : k.find o.pid with
    | none => simp [Kernel.owner, hf]
    | some x =>
      simp only [Kernel.owner, hf, Option.map_some, Option.some.injEq, isHidden_false hok.nohide,
        Bool.false_eq_true, if_false]
      refine ⟨?_, fun hl => ⟨x, rfl, hl, rfl⟩⟩
      rintro (h | h) <;> split at h <;> cases h

end Psutil.C01
