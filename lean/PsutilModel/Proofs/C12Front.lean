/-
  Proofs/C12Front.lean — the per-call results (with the exception plumbing), the exe()
  fallback/memory and the name() rule: model = specification wherever the latter speaks.
-/
import PsutilModel.Proofs.C12Cmdline
import PsutilModel.Proofs.C12Environ
import PsutilModel.Proofs.C12Link
namespace Psutil.C12
open Spec

theorem textRead_good (raw : Bytes) : textRead good raw = raw := rfl

theorem isEmpty_iff_nil (d : Bytes) : d.isEmpty = true ↔ d = [] := by
  cases d <;> simp

/-- while `/proc/<pid>` exists, `_is_zombie()` says what the specification calls "known to be a zombie" -/
theorem isZombie_eq (w : World) (hd : w.dirExists = true) : isZombie w = Spec.zombie w := by
  simp [isZombie, statOk, statThere, Spec.zombie, hd]

theorem statThere_eq (w : World) (hd : w.dirExists = true) : statThere w = w.statExists := by
  simp [statThere, hd]

theorem isZombie_gone (w : World) (hd : w.dirExists = false) : isZombie w = false := by
  simp [isZombie, statOk, statThere, hd]

theorem statThere_gone (w : World) (hd : w.dirExists = false) : statThere w = false := by
  simp [statThere, hd]

theorem cmdline_data (w : World) (d : Bytes) (hd : w.dirExists = true) (hc : w.cmdline = .data d) :
    cmdline good w = cmdlineOf (Spec.zombie w) d := by
  unfold cmdline cmdlineRaw readFile cmdlineOf
  simp only [hd, hc, if_true, textRead_good, bind, Except.bind, isZombie_eq w hd]
  by_cases he : d = []
  · subst he
    cases hz : Spec.zombie w <;> simp [wrap]
  · have : d.isEmpty = false := by
      cases h : d.isEmpty with
      | false => rfl
      | true => exact absurd ((isEmpty_iff_nil d).1 h) he
    simp [this, he, wrap, cmdlineSplit_eq_args]

theorem cmdline_gone (w : World) (hd : w.dirExists = false) :
    cmdline good w = .error .noSuchProcess := by
  simp [cmdline, cmdlineRaw, readFile, hd, bind, Except.bind, wrap, isZombie_gone w hd, statThere_gone w hd]

theorem cmdline_denied (w : World) (hd : w.dirExists = true) (hc : w.cmdline = .err .eacces) :
    cmdline good w = .error .accessDenied := by
  simp [cmdline, cmdlineRaw, readFile, hd, hc, bind, Except.bind, wrap]

/-- the exception plumbing of `wrap_exceptions` on an OS error of a file below `/proc/<pid>` -/
theorem fileErr_wrap {α : Type} (w : World) (e : Err) (x : Exc) (hd : w.dirExists = true)
    (h : fileErr w e = some x) : wrap w (.error (.os e) : Raw α) = .error x := by
  cases e <;> cases hz : Spec.zombie w <;> cases hs : w.statExists <;> simp [fileErr, hz, hs] at h <;>
    subst h <;> simp [wrap, isZombie_eq w hd, statThere_eq w hd, hz, hs]

theorem cmdline_err (w : World) (e : Err) (hd : w.dirExists = true) (hc : w.cmdline = .err e) :
    cmdline good w = wrap w (.error (.os e)) := by
  simp [cmdline, cmdlineRaw, readFile, hd, hc, bind, Except.bind]

/-- wherever the specification of `cmdline()` speaks, the model says the same -/
theorem cmdline_sound (w : World) (r : Res (List Bytes)) (h : Spec.cmdline w = some r) :
    cmdline good w = r := by
  unfold Spec.cmdline at h
  cases hd : w.dirExists with
  | false =>
    simp only [hd, Bool.not_false, if_true, Option.some.injEq] at h
    rw [← h]; exact cmdline_gone w hd
  | true =>
    simp only [hd, Bool.not_true, Bool.false_eq_true, if_false] at h
    cases hc : w.cmdline with
    | data d =>
      simp only [hc, Option.some.injEq] at h
      rw [← h]; exact cmdline_data w d hd hc
    | err e =>
      simp only [hc, Option.map_eq_some_iff] at h
      obtain ⟨x, hx, hr⟩ := h
      rw [← hr, cmdline_err w e hd hc]
      exact fileErr_wrap w e x hd hx

theorem environ_sound (w : World) (r : Res Dict) (h : Spec.environ w = some r) :
    environ good w = r := by
  unfold Spec.environ at h
  cases hd : w.dirExists with
  | false =>
    simp only [hd, Bool.not_false, if_true, Option.some.injEq] at h
    rw [← h]
    simp [environ, environRaw, readFile, hd, bind, Except.bind, wrap, isZombie_gone w hd, statThere_gone w hd]
  | true =>
    simp only [hd, Bool.not_true, Bool.false_eq_true, if_false] at h
    cases hc : w.environ with
    | data d =>
      simp only [hc, Option.some.injEq] at h
      rw [← h]
      simp [environ, environRaw, readFile, hd, hc, bind, Except.bind, wrap, textRead_good,
        parseEnvironBlock_eq]
    | err e =>
      simp only [hc, Option.map_eq_some_iff] at h
      obtain ⟨x, hx, hr⟩ := h
      rw [← hr]
      have : environ good w = wrap w (.error (.os e)) := by
        simp [environ, environRaw, readFile, hd, hc, bind, Except.bind]
      rw [this]
      exact fileErr_wrap w e x hd hx

/-- `_readlink` + `wrap_exceptions` for one link, against the specification -/
theorem link_sound (w : World) (l : LinkSt) (r : Res Bytes) (h : Spec.link w l = some r) :
    wrap w (readlinkRaw good w l) = r := by
  unfold Spec.link at h
  cases hd : w.dirExists with
  | false =>
    simp only [hd, Bool.not_false, if_true, Option.some.injEq] at h
    rw [← h]
    simp [readlinkRaw, effLink, hd, wrap, isZombie_gone w hd, statThere_gone w hd]
  | true =>
    simp only [hd, Bool.not_true, Bool.false_eq_true, if_false] at h
    cases l with
    | target t =>
      simp only [Option.map_eq_some_iff] at h
      obtain ⟨p, hp, hr⟩ := h
      rw [← hr]
      simp [readlinkRaw, effLink, hd, readlinkClean_eq, hp, wrap]
    | err e =>
      cases e with
      | eacces =>
        simp only [Option.some.injEq] at h
        rw [← h]
        simp [readlinkRaw, effLink, hd, wrap]
      | enoent =>
        cases hz : Spec.zombie w <;> cases hs : w.statExists <;> cases hr : w.statReadable <;>
          simp [hz, hs, hr] at h <;> rw [← h] <;>
          simp [readlinkRaw, effLink, hd, wrap, isZombie_eq w hd, hz]
      | esrch =>
        cases hz : Spec.zombie w <;> cases hs : w.statExists <;> cases hr : w.statReadable <;>
          simp [hz, hs, hr] at h <;> rw [← h] <;>
          simp [readlinkRaw, effLink, hd, wrap, isZombie_eq w hd, hz]

theorem cwd_sound (w : World) (r : Res Bytes) (h : Spec.cwd w = some r) : cwd good w = r :=
  link_sound w w.cwd r h

theorem procExe_sound (w : World) (r : Res Bytes) (h : Spec.link w w.exe = some r) :
    procExe good w = r := link_sound w w.exe r h

/-! ### exe(): guess, one call, memory -/

theorem guess_cond (fs : Bytes → FsEnt) (a0 : Bytes) :
    (isAbs a0 && isFile fs a0 && xOk fs a0) = true
      ↔ (a0.head? = some 47 ∧ 0 ∉ a0 ∧ fs a0 = .file true) := by
  unfold isAbs isFile xOk startsWith
  cases a0 with
  | nil => simp
  | cons x xs =>
    cases hfs : fs (x :: xs) with
    | absent => simp
    | denied => simp
    | dir => simp
    | unstatable en cls => simp
    | file b =>
      cases b
      · simp [List.isPrefixOf]
      · simp only [List.isPrefixOf, Bool.and_true, List.contains_cons, beq_iff_eq, Bool.not_eq_true',
          Bool.and_eq_true, List.head?_cons, Option.some.injEq, List.mem_cons, not_or, and_true]
        constructor
        · rintro ⟨h1, h2⟩
          simp only [Bool.or_eq_false_iff, beq_eq_false_iff_ne, ne_eq, List.contains_eq_mem,
            decide_eq_false_iff_not] at h2
          exact ⟨h1.symm, h2.1, h2.2⟩
        · rintro ⟨h1, h2, h3⟩
          refine ⟨h1.symm, ?_⟩
          simp only [Bool.or_eq_false_iff, beq_eq_false_iff_ne, ne_eq, List.contains_eq_mem,
            decide_eq_false_iff_not]
          exact ⟨h2, h3⟩

/-- a successful guess is the answer; no guess: the fallback; `cmdline()` fails: its error -/
def orElse (g : Guess) (fb : Res Bytes) : Res Bytes :=
  match g with
  | .path a0 => .ok a0
  | .nothing => fb
  | .fails e => .error e

theorem guessIt_sound (w : World) (fb : Res Bytes) (g : Guess)
    (h : Spec.guessOf w = some g) : guessIt good w fb = orElse g fb := by
  cases hc : Spec.cmdline w with
  | none => simp [Spec.guessOf, hc] at h
  | some r =>
    have hm := cmdline_sound w r hc
    cases r with
    | error e =>
      have hg : g = .fails e := by simpa [Spec.guessOf, hc] using h.symm
      subst hg
      simp [guessIt, hm, orElse]
    | ok cl =>
      cases cl with
      | nil =>
        have hg : g = .nothing := by simpa [Spec.guessOf, hc] using h.symm
        subst hg
        simp [guessIt, hm, orElse]
      | cons a0 rest =>
        have hg : g = if (a0.head? = some 47 ∧ 0 ∉ a0 ∧ w.fs a0 = .file true) then .path a0 else .nothing := by
          simpa [Spec.guessOf, hc] using h.symm
        subst hg
        simp only [guessIt, hm]
        by_cases hcond : (isAbs a0 && isFile w.fs a0 && xOk w.fs a0) = true
        · have := (guess_cond w.fs a0).1 hcond
          simp [hcond, this, orElse]
        · have hn : ¬ (a0.head? = some 47 ∧ 0 ∉ a0 ∧ w.fs a0 = .file true) :=
            fun x => hcond ((guess_cond w.fs a0).2 x)
          simp [hcond, hn, orElse]

/-- what the object remembers after an uncached call with answer `r` -/
def remembered (r : Res Bytes) (rem : Bool) : Option Bytes :=
  match r, rem with
  | .ok v, true => some v
  | _, _ => none

theorem exeOnce_sound (w : World) (r : Res Bytes) (rem : Bool)
    (h : Spec.exeOnce w = some (r, rem)) :
    exe good w ⟨none⟩ = (⟨remembered r rem⟩, r) := by
  unfold Spec.exeOnce at h
  cases hl : Spec.link w w.exe with
  | none => simp [hl] at h
  | some lr =>
    have hp := procExe_sound w lr hl
    cases lr with
    | ok p =>
      by_cases hpne : p = []
      · subst hpne
        simp only [hl, ne_eq, not_true_eq_false, if_false] at h
        cases hg : Spec.guessOf w with
        | none => simp [hg] at h
        | some g =>
          have hgs := guessIt_sound w (.ok []) g hg
          cases g with
          | path a0 =>
            simp only [hg, Option.some.injEq, Prod.mk.injEq] at h
            obtain ⟨h1, h2⟩ := h
            subst h1; subst h2
            simp [exe, hp, hgs, remembered, orElse]
          | nothing =>
            simp only [hg, Option.some.injEq, Prod.mk.injEq] at h
            obtain ⟨h1, h2⟩ := h
            subst h1; subst h2
            simp [exe, hp, hgs, remembered, orElse]
          | fails e =>
            cases e <;>
              (simp only [hg, Option.some.injEq, Prod.mk.injEq] at h
               obtain ⟨h1, h2⟩ := h
               subst h1; subst h2
               simp [exe, hp, hgs, remembered, orElse])
      · simp only [hl, ne_eq, hpne, not_false_eq_true, if_true, Option.some.injEq,
          Prod.mk.injEq] at h
        obtain ⟨h1, h2⟩ := h
        subst h1; subst h2
        have : p.isEmpty = false := by cases p <;> simp_all
        simp [exe, hp, this, remembered]
    | error e =>
      cases e with
      | accessDenied =>
        simp only [hl] at h
        cases hg : Spec.guessOf w with
        | none => simp [hg] at h
        | some g =>
          have hgs := guessIt_sound w (.error .accessDenied) g hg
          cases g <;>
            (simp only [hg, Option.some.injEq, Prod.mk.injEq] at h
             obtain ⟨h1, h2⟩ := h
             subst h1; subst h2
             simp [exe, hp, hgs, remembered, orElse])
      | noSuchProcess =>
        simp only [hl, Option.some.injEq, Prod.mk.injEq] at h
        obtain ⟨h1, h2⟩ := h
        subst h1; subst h2
        simp [exe, hp, remembered]
      | zombieProcess =>
        simp only [hl, Option.some.injEq, Prod.mk.injEq] at h
        obtain ⟨h1, h2⟩ := h
        subst h1; subst h2
        simp [exe, hp, remembered]
      | fileNotFound =>
        simp only [hl, Option.some.injEq, Prod.mk.injEq] at h
        obtain ⟨h1, h2⟩ := h
        subst h1; subst h2
        simp [exe, hp, remembered]
      | osError en =>
        simp only [hl, Option.some.injEq, Prod.mk.injEq] at h
        obtain ⟨h1, h2⟩ := h
        subst h1; subst h2
        simp [exe, hp, remembered]

/-- state of the object after `exe()` calls in the worlds `ws` (oldest first) -/
def runExe (c : Cfg) : St → List World → St
  | st, [] => st
  | st, w :: ws => runExe c (exe c w st).1 ws

theorem exe_cached (c : Cfg) (w : World) (v : Bytes) : exe c w ⟨some v⟩ = (⟨some v⟩, .ok v) := rfl

theorem runExe_cached (c : Cfg) (v : Bytes) (ws : List World) : runExe c ⟨some v⟩ ws = ⟨some v⟩ := by
  induction ws with
  | nil => rfl
  | cons w ws ih => simp [runExe, exe_cached, ih]

theorem exeMemory_sound (ws : List World) (m : Option Bytes) (h : Spec.exeMemory ws = some m) :
    runExe good St.init ws = ⟨m⟩ := by
  induction ws with
  | nil =>
    simp only [Spec.exeMemory, Option.some.injEq] at h
    subst h; rfl
  | cons w ws ih =>
    simp only [Spec.exeMemory] at h
    cases ho : Spec.exeOnce w with
    | none => simp [ho] at h
    | some rr =>
      obtain ⟨r, rem⟩ := rr
      have hs := exeOnce_sound w r rem ho
      simp only [runExe, St.init, hs]
      cases r with
      | error e =>
        simp only [ho] at h
        simp only [remembered]
        exact ih h
      | ok v =>
        cases rem with
        | true =>
          simp only [ho, Option.some.injEq] at h
          subst h
          simp [remembered, runExe_cached]
        | false =>
          simp only [ho] at h
          simp only [remembered]
          exact ih h

theorem exeAfter_sound (ws : List World) (w : World) (r : Res Bytes)
    (h : Spec.exeAfter ws w = some r) : (exe good w (runExe good St.init ws)).2 = r := by
  unfold Spec.exeAfter at h
  cases hm : Spec.exeMemory ws with
  | none => simp [hm] at h
  | some m =>
    rw [exeMemory_sound ws m hm]
    cases m with
    | some c =>
      simp only [hm, Option.some.injEq] at h
      subst h; rfl
    | none =>
      simp only [hm, Option.map_eq_some_iff] at h
      obtain ⟨⟨r', rem⟩, ho, hr⟩ := h
      rw [exeOnce_sound w r' rem ho]
      exact hr

/-! ### name() -/

theorem cmdlineOf_error (z : Bool) (d : Bytes) (e : Exc) (h : cmdlineOf z d = .error e) :
    e = .zombieProcess := by
  unfold cmdlineOf at h
  split at h
  · split at h
    · cases h; rfl
    · cases h
  · cases h

theorem nameLen_good (n : Bytes) : nameLen good n = n.length := rfl
theorem namePrefix_good (n e : Bytes) : namePrefix good n e = n.isPrefixOf e := rfl
theorem nameMinLen_good : good.nameMinLen = 15 := rfl

/-- reading `stat` under `wrap_exceptions`, in closed form: gone (no directory, or no `stat` in it) →
    NoSuchProcess; unreadable → AccessDenied -/
theorem statRead_eq {α : Type} (w : World) (v : α) :
    wrap w (match readStat w with | .ok _ => .ok v | .error e => .error e)
      = if !w.dirExists || !w.statExists then .error .noSuchProcess
        else if !w.statReadable then .error .accessDenied else .ok v := by
  cases hd : w.dirExists <;> cases hs : w.statExists <;> cases hr : w.statReadable <;>
    simp [readStat, statThere, wrap, isZombie, statOk, hd, hs, hr]

theorem procName_eq (w : World) :
    procName w = if !w.dirExists || !w.statExists then .error .noSuchProcess
                 else if !w.statReadable then .error .accessDenied else .ok w.comm := statRead_eq w w.comm

theorem procTty_eq (w : World) :
    procTty w = if !w.dirExists || !w.statExists then .error .noSuchProcess
                else if !w.statReadable then .error .accessDenied else .ok w.tty := statRead_eq w w.tty

theorem name_sound (w : World) (r : Res Bytes) (h : Spec.name w = some r) : name good w = r := by
  unfold Spec.name at h
  by_cases hg : (!w.dirExists || !w.statExists) = true
  · simp only [hg, if_true, Option.some.injEq] at h
    rw [← h]
    simp [name, procName_eq, hg]
  · simp only [hg] at h
    have hd : w.dirExists = true := by
      cases hx : w.dirExists <;> simp [hx] at hg ⊢
    by_cases hr : (!w.statReadable) = true
    · simp only [hr, if_true, Bool.false_eq_true, if_false, Option.some.injEq] at h
      rw [← h]
      simp [name, procName_eq, hg, hr]
    · simp only [hr] at h
      by_cases hlen : w.comm.length < commMax
      · simp only [hlen, if_true, Bool.false_eq_true, if_false, Option.some.injEq] at h
        rw [← h]
        have : ¬ (15 ≤ w.comm.length) := by unfold commMax at hlen; omega
        simp [name, procName_eq, hg, hr, nameLen_good, nameMinLen_good, this]
      · have h15 : 15 ≤ w.comm.length := by unfold commMax at hlen; omega
        simp only [hlen, if_false] at h
        cases hc : Spec.cmdline w with
        | none => simp [hc] at h
        | some cr =>
          have hm := cmdline_sound w cr hc
          cases cr with
          | error e =>
            cases e <;>
              (simp only [hc, Bool.false_eq_true, if_false, Option.some.injEq] at h
               rw [← h]
               simp [name, procName_eq, hg, hr, nameLen_good, nameMinLen_good, h15, hm])
          | ok argv =>
            simp only [hc, Bool.false_eq_true, if_false, Option.some.injEq] at h
            rw [← h]
            cases argv with
            | nil => simp [name, procName_eq, hg, hr, nameLen_good, nameMinLen_good, h15, hm, nameRule]
            | cons a0 rest =>
              simp only [name, procName_eq, hg, hr, if_false, Bool.false_eq_true, nameLen_good,
                nameMinLen_good, h15, hm, if_true,
                namePrefix_good, nameRule, List.head?_cons, basename_eq_base, commMax, true_and]
              by_cases hp : w.comm.isPrefixOf (base a0) = true <;> simp [hp]

/-- the worlds of the `exe()` calls of a history -/
def exeWorldsOf (hist : List (World × Call)) : List World :=
  hist.filterMap fun wc => if wc.2 = Call.exe then some wc.1 else none

theorem runAll_state (c : Cfg) (hist : List (World × Call)) (st : St) :
    (runAll c st hist).1 = runExe c st (exeWorldsOf hist) := by
  induction hist generalizing st with
  | nil => rfl
  | cons wc rest ih =>
    obtain ⟨w, cl⟩ := wc
    cases cl <;> simp [runAll, step, exeWorldsOf, runExe, ih] <;> rfl

end Psutil.C12
