/-
  Proofs/C19Dir.lean — the file-name level of the thermal-zone walker: psutil's derivation of the
  trip-point names (`'_'.join(name.split('_')[0:3])`) finds EVERY trip point the kernel names
  (`trip_point_%d_…`, any number of digits), and the zone row computed from the directory, for
  every iteration order of the Python set, is the row of the kernel's description.
-/
import PsutilModel.Proofs.C19
import PsutilModel.Proofs.C19Cores
import PsutilModel.Spec.C19Dir
import Mathlib.Data.List.Perm.Basic
import Mathlib.Data.List.Nodup
namespace Psutil.C19
open Spec

/-! ### names -/

def bTrip : Bytes := [116, 114, 105, 112]
def bPoint : Bytes := [112, 111, 105, 110, 116]

theorem bTripPoint_eq : bTripPoint = bTrip ++ 95 :: bPoint := by decide

theorem renderDec_no_us (n : Nat) : 95 ∉ renderDec n := renderDec_not_mem n 95 (by decide)

/-- the name psutil derives from ANY file `trip_point_<n>_<anything>` is `trip_point_<n>` —
    whatever the number of digits of `n`, whatever follows the third underscore -/
theorem tripName_tripFile (n : Nat) (s : Bytes) : tripName (tripPointName n ++ 95 :: s) = tripPointName n := by
  unfold tripName tripPointName
  rw [bTripPoint_eq]
  have e : bTrip ++ 95 :: bPoint ++ [95] ++ renderDec n ++ 95 :: s
      = bTrip ++ 95 :: (bPoint ++ 95 :: (renderDec n ++ 95 :: s)) := by simp
  rw [e, splitOn_append 95 bTrip _ (by decide), splitOn_append 95 bPoint _ (by decide),
    splitOn_append 95 (renderDec n) _ (renderDec_no_us n)]
  simp [joinWith]

theorem suffix_shape (suf : Bytes) (h : suf ∈ kernelSuffixes) : ∃ s, suf = 95 :: s := by
  simp only [kernelSuffixes, List.mem_cons, List.not_mem_nil, or_false] at h
  rcases h with h | h | h <;> subst h <;> exact ⟨_, rfl⟩

theorem tripName_kernel (n : Nat) (suf : Bytes) (h : suf ∈ kernelSuffixes) :
    tripName (tripFile n suf) = tripPointName n := by
  obtain ⟨s, rfl⟩ := suffix_shape suf h
  exact tripName_tripFile n s

theorem tripFile_prefix (n : Nat) (suf : Bytes) : bTripPoint.isPrefixOf (tripFile n suf) = true := by
  rw [List.isPrefixOf_iff_prefix]
  unfold tripFile tripPointName
  exact ⟨[95] ++ renderDec n ++ suf, by simp⟩

/-- soundness of the kernel pattern match -/
theorem tripIndex_sound (name : Bytes) (n : Nat) (h : tripIndex? name = some n) :
    ∃ suf ∈ kernelSuffixes, name = tripFile n suf := by
  unfold tripIndex? at h
  split at h
  · rename_i hp
    rw [List.isPrefixOf_iff_prefix] at hp
    obtain ⟨t, rfl⟩ := hp
    simp only [List.drop_left] at h
    cases hd : parseDec? (t.takeWhile isDigit) with
    | none => rw [hd] at h; cases h
    | some m =>
      rw [hd] at h
      simp only at h
      split at h
      · rename_i hc
        cases h
        refine ⟨t.dropWhile isDigit, hc.2, ?_⟩
        unfold tripFile tripPointName
        rw [hc.1]
        simp [List.takeWhile_append_dropWhile]
      · cases h
  · cases h

/-- completeness: the kernel's files are recognised, whatever the index -/
theorem tripIndex_tripFile (n : Nat) (suf : Bytes) (h : suf ∈ kernelSuffixes) :
    tripIndex? (tripFile n suf) = some n := by
  obtain ⟨s, hs⟩ := suffix_shape suf h
  have hp : (bTripPoint ++ [95]).isPrefixOf (tripFile n suf) = true := by
    rw [List.isPrefixOf_iff_prefix]
    exact ⟨renderDec n ++ suf, by simp [tripFile, tripPointName]⟩
  have hdrop : (tripFile n suf).drop (bTripPoint ++ [95]).length = renderDec n ++ suf := by
    have : tripFile n suf = (bTripPoint ++ [95]) ++ (renderDec n ++ suf) := by simp [tripFile, tripPointName]
    rw [this, List.drop_left]
  have htw : (renderDec n ++ suf).takeWhile isDigit = renderDec n := by
    rw [hs, List.takeWhile_append_of_pos (fun c hc => renderDec_isDigit n c hc)]
    simp [List.takeWhile, isDigit]
  have hdw : (renderDec n ++ suf).dropWhile isDigit = suf := by
    rw [hs, List.dropWhile_append_of_pos (fun c hc => renderDec_isDigit n c hc)]
    simp [List.dropWhile, isDigit]
  unfold tripIndex?
  simp only [hp, if_true, hdrop, htw, hdw, parseDec_renderDec, h, and_self]

theorem renderDec_inj (a b : Nat) (h : renderDec a = renderDec b) : a = b := by
  have := parseDec_renderDec a
  rw [h, parseDec_renderDec] at this
  exact (Option.some.inj this).symm

theorem tripPointName_inj (a b : Nat) (h : tripPointName a = tripPointName b) : a = b := by
  unfold tripPointName at h
  exact renderDec_inj a b (List.append_cancel_left h)

/-! ### the set of derived names = the kernel's trip points -/

theorem mem_tripNames_iff (d : Dir) (hk : KernelNamed d) (x : Bytes) :
    x ∈ tripNames d ↔ x ∈ (tripIdxs d).map tripPointName := by
  unfold tripNames tripIdxs
  simp only [List.mem_map, List.mem_eraseDups, List.mem_filterMap]
  constructor
  · rintro ⟨name, hn, rfl⟩
    have := hk name hn
    cases hi : tripIndex? name with
    | none => rw [hi] at this; cases this
    | some n =>
      obtain ⟨suf, hs, rfl⟩ := tripIndex_sound name n hi
      exact ⟨n, ⟨_, hn, hi⟩, (tripName_kernel n suf hs).symm⟩
  · rintro ⟨n, ⟨name, hn, hi⟩, rfl⟩
    obtain ⟨suf, hs, rfl⟩ := tripIndex_sound name n hi
    exact ⟨_, hn, tripName_kernel n suf hs⟩

theorem setOrder_perm (d : Dir) (hk : KernelNamed d) (order : List Bytes)
    (ho : isSetOrder order (tripNames d) = true) : order.Perm ((tripIdxs d).map tripPointName) := by
  unfold isSetOrder at ho
  simp only [Bool.and_eq_true, decide_eq_true_eq, List.all_eq_true, List.contains_iff_mem] at ho
  obtain ⟨⟨hnd, h1⟩, h2⟩ := ho
  have hnd2 : ((tripIdxs d).map tripPointName).Nodup := by
    exact List.Nodup.map (fun a b h => tripPointName_inj a b h) (nodup_eraseDups _)
  rw [List.perm_ext_iff_of_nodup hnd hnd2]
  intro x
  rw [← mem_tripNames_iff d hk x]
  exact ⟨fun h => h1 x h, fun h => h2 x h⟩

theorem tripOfName_tripPoint (d : Dir) (n : Nat) : tripOfName d (tripPointName n) = dirTrip d n := rfl

theorem zoneOfDir_trips_perm (d : Dir) (hk : KernelNamed d) (order : List Bytes)
    (ho : isSetOrder order (tripNames d) = true) :
    (zoneOfDir d order).trips.Perm (kernelZone d).trips := by
  have := (setOrder_perm d hk order ho).map (tripOfName d)
  simpa [zoneOfDir, kernelZone, List.map_map, Function.comp_def, tripOfName_tripPoint] using this

/-- `readZone_agrees` for a zone whose trip points are visited in another order -/
theorem readZone_agrees_perm (c : Cfg) (hg : c.Good) (z z' : Zone) (ht : z'.temp = z.temp) (hy : z'.typ = z.typ)
    (hp : z'.trips.Perm z.trips) :
    match zoneRow z with
    | none => readZone c z' = .ok none
    | some w => ∃ r, readZone c z' = .ok (some r) ∧ AgreesRaw r w := by
  have hp' : (z'.trips.filter (·.listed)).Perm (z.trips.filter (·.listed)) := hp.filter _
  unfold readZone zoneRow
  rw [ht, hy]
  cases hi : z.temp with
  | absent => simp [FileState.read, fileNum, FileState.readOpt, hg.zoneOs]
  | unreadable => simp [FileState.read, fileNum, FileState.readOpt, hg.zoneOs]
  | content b =>
    cases hf : pyFloat? b with
    | none => simp [FileState.read, fileNum, FileState.readOpt, hf, hg.zoneVal]
    | some v =>
      cases hn : z.typ with
      | absent => simp [FileState.read, fileNum, FileState.readOpt, hf, hg.zoneOs]
      | unreadable => simp [FileState.read, fileNum, FileState.readOpt, hf, hg.zoneOs]
      | content nm =>
        simp only [FileState.read, fileNum, FileState.readOpt, hf, Option.bind_some]
        refine ⟨_, rfl, ?_⟩
        refine ⟨rfl, rfl, ?_, ?_, ?_⟩
        · simp [perMille, hg.milli]
        · intro h hh
          simp only [zoneThr, hg.conv, Bool.false_eq_true, if_false]
          exact zoneThrOutside_high c hg z.trips _ hp' h hh
        · intro h hh
          simp only [zoneThr, hg.conv, Bool.false_eq_true, if_false]
          exact zoneThrOutside_crit c hg z.trips _ hp' h hh

/-- membership in the directory listing is what `Dir.file … ≠ absent` means -/
theorem Dir.file_exists_iff (d : Dir) (name : Bytes) : (d.file name).exists = true ↔ name ∈ d.names := by
  unfold Dir.file Dir.names
  induction d with
  | nil => simp [List.lookup, FileState.exists]
  | cons e rest ih =>
    obtain ⟨k, v⟩ := e
    simp only [List.lookup, List.map_cons, List.mem_cons]
    by_cases hk : name = k
    · subst hk
      simp only [beq_self_eq_true, true_or, iff_true]
      cases v <;> rfl
    · have : (name == k) = false := by simpa using hk
      simp only [this, hk, false_or]
      exact ih

theorem tripsOfType_dirTrip (d : Dir) (kind : Bytes) (l : List Nat) :
    tripsOfType kind (l.map (dirTrip d))
      = (l.filter fun m => fileText (d.file (tripFile m bSufType)) == kind).map (dirTrip d) := by
  unfold tripsOfType
  rw [List.filter_map]
  congr 1
  apply List.filter_congr
  intro m _
  simp [Function.comp, dirTrip, Trip.listed]

/-! ### hwmon attribute names: `temp<n>_<attr>` / `fan<n>_<attr>` -/

/-- `x.split('_')[0]` of `<pre><n>_<anything>` is `<pre><n>`, whatever the number of digits -/
theorem baseOf_attr (pre : Bytes) (hpre : 95 ∉ pre) (n : Nat) (s : Bytes) :
    baseOf (attrBase pre n ++ 95 :: s) = attrBase pre n := by
  unfold baseOf attrBase
  rw [List.takeWhile_append_of_pos]
  · simp
  · intro c hc
    rw [List.mem_append] at hc
    have : c ≠ 95 := by
      rcases hc with hc | hc
      · exact fun e => hpre (e ▸ hc)
      · exact fun e => renderDec_no_us n (e ▸ hc)
    simpa using this

theorem glob_attr (pre : Bytes) (n : Nat) (s : Bytes) :
    globPrefixUnderscore pre (attrBase pre n ++ 95 :: s) = true := by
  unfold globPrefixUnderscore attrBase
  have h1 : pre.isPrefixOf (pre ++ renderDec n ++ 95 :: s) = true := by
    rw [List.isPrefixOf_iff_prefix]; exact ⟨renderDec n ++ 95 :: s, by simp⟩
  have h2 : (pre ++ renderDec n ++ 95 :: s).drop pre.length = renderDec n ++ 95 :: s := by
    rw [List.append_assoc, List.drop_left]
  rw [h1, h2]
  simp

theorem mem_sensorBases (pre : Bytes) (hpre : 95 ∉ pre) (d : Dir) (n : Nat) (s : Bytes)
    (h : attrBase pre n ++ 95 :: s ∈ d.names) : attrBase pre n ∈ sensorBases pre d := by
  unfold sensorBases
  rw [List.mem_map]
  exact ⟨_, List.mem_filter.mpr ⟨h, glob_attr pre n s⟩, baseOf_attr pre hpre n s⟩

end Psutil.C19
