/-
  Proofs/C07Arith.lean — arithmetic helper lemmas for Props/C07.lean: the configuration the
  theorems need, Python's `max`/`min`, and `round(x, 1)` on exact rationals.
-/
import Mathlib.Tactic.Linarith
import Mathlib.Tactic.FieldSimp
import Mathlib.Tactic.Ring
import Mathlib.Tactic.NormNum
import Mathlib.Data.Rat.Floor
import PsutilModel.Model.C07
import PsutilModel.Spec.C07
namespace Psutil.C07
open Spec

/-- the configuration under which the theorems are stated: what the translator must find in
    the source (everything except the `max(1, all_delta)` guard, which is a parameter). -/
structure Cfg.Good (c : Cfg) : Prop where
  base : c.base = [.user, .nice, .system, .idle, .iowait, .irq, .softirq]
  opt : c.opt = [(8, .steal), (9, .guest), (10, .guestNice)]
  sliceFrom : c.sliceFrom = 1
  sliceExtra : c.sliceExtra = 1
  pcSliceFrom : c.pcSliceFrom = 1
  pcSliceExtra : c.pcSliceExtra = 1
  divTicks : c.divTicks = true
  perCpuPrefix : c.perCpuPrefix = [99, 112, 117]
  clipZero : c.clipZero = true
  totSub : c.totSub = [.guest, .guestNice]
  busySubReq : c.busySubReq = [.idle]
  busySubOpt : c.busySubOpt = [.iowait]
  pctFactor : c.pctFactor = 100
  pctDigits : c.pctDigits = 1
  tpNumer : c.tpNumer = 100
  tpDigits : c.tpDigits = 1
  tpLo : c.tpLo = 0
  tpHi : c.tpHi = 100
  dictsDistinct : c.dictsDistinct = true
  procFactor : c.procFactor = 100
  procDigits : c.procDigits = 1
  shapeOk : c.shapeOk = true

/-! ## max / min -/

theorem rmax_zero_eq_adv (a b : ℚ) : rmax 0 (b - a) = adv a b := by
  unfold rmax adv
  by_cases h : b ≤ a
  · have : ¬ (0 < b - a) := by linarith
    simp [h, this]
  · have : 0 < b - a := by linarith [lt_of_not_ge h]
    simp [h, this]

theorem adv_nonneg (a b : ℚ) : 0 ≤ adv a b := by
  unfold adv
  split
  · exact le_refl 0
  · linarith

theorem adv_of_le {a b : ℚ} (h : b ≤ a) : adv a b = 0 := by simp [adv, h]

theorem adv_self (a : ℚ) : adv a a = 0 := adv_of_le (le_refl a)

theorem adv_of_lt {a b : ℚ} (h : a < b) : adv a b = b - a := by
  have : ¬ b ≤ a := not_le.mpr h
  simp [adv, this]

theorem rmax_one (a : ℚ) : rmax 1 a = if 1 < a then a else 1 := rfl

/-! ## round half to even -/

theorem floor_le' (x : ℚ) : ((x.floor : ℤ) : ℚ) ≤ x := Int.floor_le x
theorem lt_floor_add_one' (x : ℚ) : x < ((x.floor : ℤ) : ℚ) + 1 := Int.lt_floor_add_one x
theorem le_floor' {x : ℚ} {m : ℤ} (h : (m : ℚ) ≤ x) : m ≤ x.floor := Int.le_floor.mpr h

/-- the four cases of round-half-even -/
theorem roundHalfEven_cases (x : ℚ) :
    (x - (x.floor : ℚ) < 1 / 2 ∧ roundHalfEven x = x.floor) ∨
    (1 / 2 < x - (x.floor : ℚ) ∧ roundHalfEven x = x.floor + 1) ∨
    (x - (x.floor : ℚ) = 1 / 2 ∧ x.floor % 2 = 0 ∧ roundHalfEven x = x.floor) ∨
    (x - (x.floor : ℚ) = 1 / 2 ∧ x.floor % 2 ≠ 0 ∧ roundHalfEven x = x.floor + 1) := by
  unfold roundHalfEven
  by_cases ha : x - (x.floor : ℚ) < 1 / 2
  · left; exact ⟨ha, by simp only [ha, if_true]⟩
  · by_cases hb : 1 / 2 < x - (x.floor : ℚ)
    · right; left; exact ⟨hb, by simp only [ha, hb, if_true, if_false]⟩
    · have heq : x - (x.floor : ℚ) = 1 / 2 := le_antisymm (not_lt.mp hb) (not_lt.mp ha)
      by_cases he : x.floor % 2 = 0
      · right; right; left; exact ⟨heq, he, by simp only [ha, hb, he, if_true, if_false]⟩
      · right; right; right; exact ⟨heq, he, by simp only [ha, hb, he, if_true, if_false]⟩

/-- the rounded integer is within one half, and exact halves go to the even neighbour -/
theorem roundHalfEven_spec (x : ℚ) :
    ((roundHalfEven x : ℤ) : ℚ) - x ≤ 1 / 2 ∧ x - (roundHalfEven x : ℚ) ≤ 1 / 2 ∧
      ((((roundHalfEven x : ℤ) : ℚ) - x = 1 / 2 ∨ x - (roundHalfEven x : ℚ) = 1 / 2) →
        roundHalfEven x % 2 = 0) := by
  have h1 := floor_le' x
  have h2 := lt_floor_add_one' x
  rcases roundHalfEven_cases x with ⟨ha, hr⟩ | ⟨ha, hr⟩ | ⟨ha, he, hr⟩ | ⟨ha, he, hr⟩ <;> rw [hr]
  · refine ⟨by linarith, by linarith, ?_⟩
    rintro (h | h) <;> linarith
  · simp only [Int.cast_add, Int.cast_one]
    refine ⟨by linarith, by linarith, ?_⟩
    rintro (h | h) <;> linarith
  · exact ⟨by linarith, by linarith, fun _ => he⟩
  · simp only [Int.cast_add, Int.cast_one]
    refine ⟨by linarith, by linarith, fun _ => ?_⟩
    omega

theorem roundHalfEven_le {x : ℚ} {m : ℤ} (h : x ≤ (m : ℚ)) : roundHalfEven x ≤ m := by
  have h1 := floor_le' x
  have hf : x.floor ≤ m := by exact_mod_cast le_trans h1 h
  rcases roundHalfEven_cases x with ⟨ha, hr⟩ | ⟨ha, hr⟩ | ⟨ha, he, hr⟩ | ⟨ha, he, hr⟩ <;> rw [hr]
  · exact hf
  · have hlt : ((x.floor : ℤ) : ℚ) < m := by linarith
    have hlt' : x.floor < m := by exact_mod_cast hlt
    omega
  · exact hf
  · have hlt : ((x.floor : ℤ) : ℚ) < m := by linarith
    have hlt' : x.floor < m := by exact_mod_cast hlt
    omega

theorem le_roundHalfEven {x : ℚ} {m : ℤ} (h : (m : ℚ) ≤ x) : m ≤ roundHalfEven x := by
  have hf : m ≤ x.floor := le_floor' h
  rcases roundHalfEven_cases x with ⟨ha, hr⟩ | ⟨ha, hr⟩ | ⟨ha, he, hr⟩ | ⟨ha, he, hr⟩ <;> rw [hr] <;> omega

theorem pow10_one : pow10 1 = 10 := by norm_num [pow10]

/-- **round to one decimal is what it says** -/
theorem roundN_one_isRound1 (x : ℚ) : IsRound1 x (roundN 1 x) := by
  obtain ⟨h1, h2, h3⟩ := roundHalfEven_spec (x * 10)
  refine ⟨roundHalfEven (x * 10), ?_, ?_, ?_, ?_⟩
  · simp [roundN, pow10_one]
  · simp only [roundN, pow10_one]; linarith
  · simp only [roundN, pow10_one]; linarith
  · intro h
    apply h3
    simp only [roundN, pow10_one] at h
    rcases h with h | h
    · left; linarith
    · right; linarith

theorem roundN_one_err (x : ℚ) : roundN 1 x - x ≤ 1 / 20 ∧ x - roundN 1 x ≤ 1 / 20 := by
  obtain ⟨k, hk, h1, h2, _⟩ := roundN_one_isRound1 x
  exact ⟨h1, h2⟩

theorem roundN_one_nonneg {x : ℚ} (h : 0 ≤ x) : 0 ≤ roundN 1 x := by
  have : (0 : ℤ) ≤ roundHalfEven (x * 10) := le_roundHalfEven (by push_cast; linarith)
  have h' : (0 : ℚ) ≤ (roundHalfEven (x * 10) : ℚ) := by exact_mod_cast this
  simp only [roundN, pow10_one]
  linarith

theorem roundN_one_le_100 {x : ℚ} (h : x ≤ 100) : roundN 1 x ≤ 100 := by
  have : roundHalfEven (x * 10) ≤ (1000 : ℤ) := roundHalfEven_le (by push_cast; linarith)
  have h' : (roundHalfEven (x * 10) : ℚ) ≤ 1000 := by exact_mod_cast this
  simp only [roundN, pow10_one]
  linarith

theorem roundHalfEven_int (m : ℤ) : roundHalfEven (m : ℚ) = m := by
  apply le_antisymm
  · exact roundHalfEven_le (le_refl _)
  · exact le_roundHalfEven (le_refl _)

/-- a value that already has one decimal is left alone -/
theorem roundN_one_tenths (m : ℤ) : roundN 1 ((m : ℚ) / 10) = (m : ℚ) / 10 := by
  have : (m : ℚ) / 10 * 10 = (m : ℚ) := by ring
  simp [roundN, pow10_one, this, roundHalfEven_int]

theorem roundN_one_zero : roundN 1 0 = 0 := by
  have := roundN_one_tenths 0
  simpa using this

theorem clamp_eq (c : Cfg) (hg : c.Good) (x : ℚ) : clampTp c x = clamp100 x := by
  unfold clampTp clamp100 rmin rmax
  simp only [hg.tpLo, hg.tpHi, Nat.cast_zero, Nat.cast_ofNat]
  by_cases h0 : x < 0
  · have : ¬ (0 : ℚ) < x := by linarith
    have h1 : ¬ (100 : ℚ) < 0 := by norm_num
    simp [h0, this, h1]
  · by_cases h1 : (100 : ℚ) < x
    · have : (0 : ℚ) < x := by linarith
      simp [h0, h1, this]
    · by_cases h2 : (0 : ℚ) < x
      · simp [h0, h1, h2]
      · have : x = 0 := le_antisymm (not_lt.mp h2) (not_lt.mp h0)
        subst this
        simp

theorem clamp100_range (x : ℚ) : 0 ≤ clamp100 x ∧ clamp100 x ≤ 100 := by
  unfold clamp100
  split
  · norm_num
  · split
    · norm_num
    · constructor <;> linarith

theorem clamp100_id {x : ℚ} (h0 : 0 ≤ x) (h1 : x ≤ 100) : clamp100 x = x := by
  unfold clamp100
  have a : ¬ x < 0 := not_lt.mpr h0
  have b : ¬ (100 : ℚ) < x := not_lt.mpr h1
  simp [a, b]

end Psutil.C07
