/-
  Proofs/C05Stat.lean — both stat readers (`ppid_map()` and `_parse_stat_file()`) recover ppid
  and starttime from a kernel-rendered stat line, whatever bytes the comm field contains.
-/
import PsutilModel.Model.C05
import PsutilModel.Spec.C05Stat
namespace Psutil.C05
open Spec Psutil

/-- the reader configuration under which the round trip holds -/
structure StatCfg.Good (sc : StatCfg) : Prop where
  mapRfind : sc.mapRfind = true
  mapOffset : sc.mapOffset = 2
  mapIdx : sc.mapIdx = 1
  statRfind : sc.statRfind = true
  statOffset : sc.statOffset = 2
  statPpidIdx : sc.statPpidIdx = 1
  statCtimeIdx : sc.statCtimeIdx = 19

/-- a kernel token: non-empty, no whitespace, no `)` -/
def Tok (t : Bytes) : Prop := t ≠ [] ∧ NoWs t ∧ 41 ∉ t

theorem tok_renderDec (n : Nat) : Tok (renderDec n) :=
  ⟨renderDec_ne_nil n, renderDec_noWs n, renderDec_not_mem n 41 (by decide)⟩

theorem not_mem_joinWith (c : Nat) (hc : c ≠ 32) : ∀ (fs : List Bytes), (∀ f ∈ fs, c ∉ f) →
    c ∉ joinWith [32] fs := by
  intro fs
  induction fs with
  | nil => intro _; simp [joinWith]
  | cons f fs ih =>
    intro h
    cases fs with
    | nil => simpa [joinWith] using h f (by simp)
    | cons g gs =>
      simp only [joinWith, List.mem_append, List.mem_singleton, not_or]
      exact ⟨⟨h f (by simp), hc⟩, ih (fun x hx => h x (List.mem_cons_of_mem _ hx))⟩

theorem splitWsGo_trailing (w : Nat) (hw : isWs w = true) : ∀ (s cur : Bytes),
    splitWsGo (s ++ [w]) cur = splitWsGo s cur := by
  intro s
  induction s with
  | nil => intro cur; cases cur <;> simp [splitWsGo, hw]
  | cons c cs ih =>
    intro cur
    simp only [List.cons_append, splitWsGo]
    split
    · split <;> simp [ih]
    · exact ih _

theorem drop_len_add_two (p : Bytes) (a b : Nat) (rest : Bytes) :
    (p ++ a :: b :: rest).drop (p.length + 2) = rest := by
  induction p with
  | nil => simp
  | cons x xs ih =>
    have : (x :: xs).length + 2 = (xs.length + 2) + 1 := by simp only [List.length_cons] <;> omega
    rw [this, List.cons_append, List.drop_succ_cons]
    exact ih

/-- the tokens both readers see after the last `)` are exactly the kernel's fields -/
theorem fields_render (pid : Nat) (comm state : Bytes) (ppid : Nat) (pre : List Bytes) (start : Nat)
    (post : List Bytes) (hst : Tok state) (hpre : ∀ t ∈ pre, Tok t) (hpost : ∀ t ∈ post, Tok t) :
    fieldsAfterParen true 2 (renderStat pid comm state ppid pre start post)
      = state :: renderDec ppid :: (pre ++ renderDec start :: post) := by
  have htok : ∀ f ∈ state :: renderDec ppid :: (pre ++ renderDec start :: post), Tok f := by
    intro f hf
    rcases List.mem_cons.1 hf with rfl | hf
    · exact hst
    rcases List.mem_cons.1 hf with rfl | hf
    · exact tok_renderDec _
    rcases List.mem_append.1 hf with hf | hf
    · exact hpre f hf
    rcases List.mem_cons.1 hf with rfl | hf
    · exact tok_renderDec _
    · exact hpost f hf
  generalize hfs : state :: renderDec ppid :: (pre ++ renderDec start :: post) = fs at htok
  have hdata : renderStat pid comm state ppid pre start post
      = (renderDec pid ++ [32, 40] ++ comm) ++ 41 :: 32 :: (joinWith [32] fs ++ [10]) := by
    unfold renderStat; rw [hfs]; simp
  have hnot : 41 ∉ 32 :: (joinWith [32] fs ++ [10]) := by
    simp only [List.mem_cons, List.mem_append, not_or]
    exact ⟨by decide, not_mem_joinWith 41 (by decide) fs (fun f hf => (htok f hf).2.2), by decide⟩
  have hr := rfindIdx?_last 41 (renderDec pid ++ [32, 40] ++ comm) _ hnot
  unfold fieldsAfterParen parenPos sliceFrom
  rw [hdata]
  simp only [if_true, hr]
  have hnn : (0 : Int) ≤ ((renderDec pid ++ [32, 40] ++ comm).length : Int) + ((2 : Nat) : Int) := by omega
  rw [if_pos hnn]
  have htn : (((renderDec pid ++ [32, 40] ++ comm).length : Int) + ((2 : Nat) : Int)).toNat
      = (renderDec pid ++ [32, 40] ++ comm).length + 2 := by omega
  rw [htn, drop_len_add_two]
  unfold splitWs
  rw [splitWsGo_trailing 10 (by decide)]
  exact splitWs_join 32 (by decide) fs (fun f hf => ⟨(htok f hf).1, (htok f hf).2.1⟩)

theorem intAt_renderDec {fs : List Bytes} {i n : Nat} (h : fs[i]? = some (renderDec n)) :
    intAt fs i = .ok n := by
  unfold intAt
  rw [h]
  simp [parseDec_renderDec]

theorem stat_roundtrip (sc : StatCfg) (hg : sc.Good) (pid : Nat) (comm state : Bytes) (ppid : Nat)
    (pre : List Bytes) (start : Nat) (post : List Bytes) (hst : Tok state)
    (hpre : ∀ t ∈ pre, Tok t) (hpost : ∀ t ∈ post, Tok t)
    (hlen : pre.length = 17) (hpl : 17 ≤ post.length) :
    mapEntry sc (renderStat pid comm state ppid pre start post) = .ok ppid
    ∧ statPpid sc (renderStat pid comm state ppid pre start post) = .ok ppid
    ∧ statCtime sc (renderStat pid comm state ppid pre start post) = .ok start := by
  have hf := fields_render pid comm state ppid pre start post hst hpre hpost
  have h1 : (state :: renderDec ppid :: (pre ++ renderDec start :: post))[1]? = some (renderDec ppid) := rfl
  have h19 : (state :: renderDec ppid :: (pre ++ renderDec start :: post))[19]? = some (renderDec start) := by
    have : 19 = (17 + 1) + 1 := rfl
    rw [this, List.getElem?_cons_succ, List.getElem?_cons_succ, List.getElem?_append_right (by omega)]
    simp [hlen]
  have hlenfs : ¬ (state :: renderDec ppid :: (pre ++ renderDec start :: post)).length ≤ statNeeds := by
    simp [statNeeds, hlen]; omega
  refine ⟨?_, ?_, ?_⟩
  · unfold mapEntry
    rw [hg.mapRfind, hg.mapOffset, hg.mapIdx, hf]
    exact intAt_renderDec h1
  · unfold statPpid
    rw [hg.statRfind, hg.statOffset, hg.statPpidIdx, hf]
    simp only [hlenfs, if_false]
    exact intAt_renderDec h1
  · unfold statCtime
    rw [hg.statRfind, hg.statOffset, hg.statCtimeIdx, hf]
    simp only [hlenfs, if_false]
    exact intAt_renderDec h19

end Psutil.C05
