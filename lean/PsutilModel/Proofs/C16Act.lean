/- Proofs/C16Act.lean — simulation between Model/C16Act (two `_cache` attributes, stack of levels) and Spec/C16Act
   (depth + first answers) for every history whose call bodies never (de)activate a cache themselves. -/
import PsutilModel.Model.C16Act
import PsutilModel.Spec.C16Act
namespace Psutil.C16.Act
open ASpec

def InBlock (σ : St) (τ : SSt) : Prop :=
  ∃ n f, τ.depth = n + 1 ∧ σ.stack = List.replicate n false ++ [true] ∧ σ.fc = some f ∧ σ.pc = some τ.frozen ∧
    (∀ s v, f s = some v → τ.frozen s = some v) ∧ (∀ s, σ.reads s = if (τ.frozen s).isSome then 1 else 0)

def Rel (σ : St) (τ : SSt) : Prop :=
  σ.w = τ.w ∧ ((τ.depth = 0 ∧ σ.stack = [] ∧ σ.fc = none ∧ σ.pc = none) ∨ InBlock σ τ)

theorem platGet_rel {σ : St} {τ : SSt} (s : Src) (h : Rel σ τ) :
    (platGet σ s).1 = (ask τ s).1 ∧ Rel (platGet σ s).2 (ask τ s).2 ∧ (platGet σ s).2.fc = σ.fc ∧
      (0 < τ.depth → (ask τ s).2.frozen s = some (ask τ s).1) ∧
      (∀ x v, τ.frozen x = some v → (ask τ s).2.frozen x = some v) ∧ (ask τ s).2.depth = τ.depth := by
  rcases h with ⟨hw, ⟨hd, hs, hf, hp⟩ | ⟨n, f, hd, hs, hf, hp, hfz, hr⟩⟩
  · have e1 : platGet σ s = (σ.w s, { σ with reads := bump σ.reads s }) := by simp [platGet, hp]
    have e2 : ask τ s = (τ.w s, τ) := by simp [ask, hd]
    rw [e1, e2]
    refine ⟨by simp [hw], ⟨hw, Or.inl ⟨hd, hs, hf, hp⟩⟩, rfl, ?_, ?_, rfl⟩
    · intro h0; omega
    · intro x v hx; exact hx
  · have hd0 : τ.depth ≠ 0 := by omega
    cases hfs : τ.frozen s with
    | some v =>
      have e1 : platGet σ s = (v, σ) := by simp [platGet, hp, hfs]
      have e2 : ask τ s = (v, τ) := by simp [ask, hd0, hfs]
      rw [e1, e2]
      refine ⟨rfl, ⟨hw, Or.inr ⟨n, f, hd, hs, hf, hp, hfz, hr⟩⟩, rfl, ?_, ?_, rfl⟩
      · intro _; exact hfs
      · intro x v' hx; exact hx
    | none =>
      have e1 : platGet σ s = (σ.w s, { σ with pc := some (upd τ.frozen s (σ.w s)), reads := bump σ.reads s }) := by
        simp [platGet, hp, hfs]
      have e2 : ask τ s = (τ.w s, { τ with frozen := upd τ.frozen s (τ.w s) }) := by simp [ask, hd0, hfs]
      rw [e1, e2]
      refine ⟨by simp [hw], ⟨hw, Or.inr ⟨n, f, hd, hs, hf, by simp [hw], ?_, ?_⟩⟩, rfl, ?_, ?_, rfl⟩
      · intro x v hx
        have := hfz x v hx
        by_cases hxs : x = s
        · subst hxs; simp [hfs] at this
        · simp [upd, hxs, this]
      · intro x
        by_cases hxs : x = s
        · subst hxs; simp [bump, upd, hr, hfs]
        · simp [bump, upd, hxs, hr]
      · intro _; simp [upd]
      · intro x v hx
        by_cases hxs : x = s
        · subst hxs; simp [hfs] at hx
        · simp [upd, hxs, hx]

theorem getS_rel {σ : St} {τ : SSt} (s : Src) (vf : Bool) (h : Rel σ τ) :
    (getS σ s vf).1 = (ask τ s).1 ∧ Rel (getS σ s vf).2 (ask τ s).2 := by
  have hp := platGet_rel s h
  cases vf with
  | false => simp [getS]; exact ⟨hp.1, hp.2.1⟩
  | true =>
    rcases h with ⟨hw, ⟨hd, hs, hf, hpc⟩ | ⟨n, f, hd, hs, hf, hpc, hfz, hr⟩⟩
    · simp [getS, hf]; exact ⟨hp.1, hp.2.1⟩
    · cases hfs : f s with
      | some v =>
        have hfr := hfz s v hfs
        have hd0 : τ.depth ≠ 0 := by omega
        simp [getS, hf, hfs, ask, hd0, hfr]
        exact ⟨hw, Or.inr ⟨n, f, hd, hs, hf, hpc, hfz, hr⟩⟩
      | none =>
        simp [getS, hf, hfs]
        refine ⟨hp.1, ?_⟩
        obtain ⟨h1, ⟨hw', hrel⟩, hfc, hfro, hmono, hdep⟩ := hp
        refine ⟨hw', ?_⟩
        rcases hrel with ⟨hd', _⟩ | ⟨n', f', hd', hs', hf', hpc', hfz', hr'⟩
        · rw [hdep] at hd'; omega
        · refine Or.inr ⟨n', upd f s (platGet σ s).1, hd', hs', rfl, hpc', ?_, hr'⟩
          intro x v hx
          by_cases hxs : x = s
          · subst hxs
            simp [upd] at hx
            rw [← hx, h1]
            exact hfro (by omega)
          · simp [upd, hxs] at hx
            exact hmono x v (hfz x v hx)

theorem runBody_rel (b : Body) : ∀ (ws : List World) (σ : St) (τ : SSt) (acc : List Nat), Body.clean b = true → Rel σ τ →
    (runBody b ws σ acc).1 = (runBodyS b ws τ acc).1 ∧ Rel (runBody b ws σ acc).2 (runBodyS b ws τ acc).2 := by
  induction b with
  | nil => intro ws σ τ acc _ h; simp [runBody, runBodyS, h]
  | cons st b ih =>
    intro ws σ τ acc hc h
    have hcb : Body.clean b = true := by simp [Body.clean] at hc ⊢; exact hc.2
    cases st with
    | get s vf =>
      have hg := getS_rel s vf h
      simp only [runBody, runBodyS]
      rw [hg.1]
      exact ih ws _ _ _ hcb hg.2
    | tick =>
      cases ws with
      | nil => simp only [runBody, runBodyS]; exact ih [] _ _ _ hcb h
      | cons w' ws =>
        simp only [runBody, runBodyS]
        refine ih ws _ _ _ hcb ?_
        rcases h with ⟨_, h | ⟨n, f, hd, hs, hf, hp, hfz, hr⟩⟩
        · exact ⟨rfl, Or.inl h⟩
        · exact ⟨rfl, Or.inr ⟨n, f, hd, hs, hf, hp, hfz, hr⟩⟩
    | cop l a => simp [Body.clean, Step.clean] at hc

theorem step_rel {σ : St} {τ : SSt} (o : Op) (hc : o.clean = true) (h : Rel σ τ) :
    (step σ o).2 = (stepS τ o).2 ∧ Rel (step σ o).1 (stepS τ o).1 := by
  cases o with
  | enter =>
    rcases h with ⟨hw, ⟨hd, hs, hf, hp⟩ | ⟨n, f, hd, hs, hf, hp, hfz, hr⟩⟩
    · have e1 : step σ .enter = (({ σ with stack := true :: σ.stack, fc := some emptyD, pc := some emptyD, reads := (fun _ => 0) } : St), []) := by simp [step, hf]
      have e2 : stepS τ .enter = (({ τ with depth := 1, frozen := emptyD } : SSt), []) := by simp [stepS, hd]
      rw [e1, e2]
      exact ⟨rfl, hw, Or.inr ⟨0, emptyD, rfl, by simp [hs], rfl, rfl, by simp [emptyD], by simp [emptyD]⟩⟩
    · have hd0 : τ.depth ≠ 0 := by omega
      have e1 : step σ .enter = (({ σ with stack := false :: σ.stack } : St), []) := by simp [step, hf]
      have e2 : stepS τ .enter = (({ τ with depth := τ.depth + 1 } : SSt), []) := by simp [stepS, hd0]
      rw [e1, e2]
      exact ⟨rfl, hw, Or.inr ⟨n + 1, f, by simp [hd], by simp [hs, List.replicate_succ], hf, hp, hfz, hr⟩⟩
  | exit =>
    rcases h with ⟨hw, ⟨hd, hs, hf, hp⟩ | ⟨n, f, hd, hs, hf, hp, hfz, hr⟩⟩
    · have e1 : step σ .exit = (σ, []) := by simp [step, hs]
      have e2 : stepS τ .exit = (({ τ with depth := 0, frozen := emptyD } : SSt), []) := by simp [stepS, hd]
      rw [e1, e2]
      exact ⟨rfl, hw, Or.inl ⟨rfl, hs, hf, hp⟩⟩
    · cases n with
      | zero =>
        have hs' : σ.stack = [true] := by simpa using hs
        have e1 : step σ .exit = (({ σ with stack := [], fc := none, pc := none } : St), []) := by simp [step, hs']
        have e2 : stepS τ .exit = (({ τ with depth := 0, frozen := emptyD } : SSt), []) := by simp [stepS, hd]
        rw [e1, e2]
        exact ⟨rfl, hw, Or.inl ⟨rfl, rfl, rfl, rfl⟩⟩
      | succ n =>
        have hs' : σ.stack = false :: (List.replicate n false ++ [true]) := by simp [hs, List.replicate_succ]
        have hd1 : ¬ τ.depth ≤ 1 := by omega
        have e1 : step σ .exit = (({ σ with stack := List.replicate n false ++ [true] } : St), []) := by simp [step, hs']
        have e2 : stepS τ .exit = (({ τ with depth := τ.depth - 1 } : SSt), []) := by simp [stepS, hd1]
        rw [e1, e2]
        exact ⟨rfl, hw, Or.inr ⟨n, f, by simp [hd], rfl, hf, hp, hfz, hr⟩⟩
  | call b ws =>
    have := runBody_rel b ws σ τ [] (by simpa [Op.clean] using hc) h
    simp [step, stepS, this.1, this.2]
  | change w =>
    rcases h with ⟨_, h | ⟨n, f, hd, hs, hf, hp, hfz, hr⟩⟩
    · exact ⟨rfl, rfl, Or.inl h⟩
    · exact ⟨rfl, rfl, Or.inr ⟨n, f, hd, hs, hf, hp, hfz, hr⟩⟩

theorem run_rel (h : List Op) : ∀ (σ : St) (τ : SSt), h.all Op.clean = true → Rel σ τ →
    (run σ h).2 = (runS τ h).2 ∧ Rel (run σ h).1 (runS τ h).1 := by
  induction h with
  | nil => intro σ τ _ hr; simp [run, runS, hr]
  | cons o os ih =>
    intro σ τ hc hr
    simp at hc
    have h1 := step_rel o hc.1 hr
    have h2 := ih _ _ (by simpa using hc.2) h1.2
    simp [run, runS, h1.1, h2.1, h2.2]

theorem rel_init (w : World) : Rel (St.init w) (SSt.init w) := by
  simp [Rel, St.init, SSt.init]

/-- inside a block (spec depth > 0) each cached source has been read at most once since the block was entered -/
theorem rel_reads {σ : St} {τ : SSt} (h : Rel σ τ) (hd : 0 < τ.depth) (s : Src) : σ.reads s ≤ 1 := by
  rcases h with ⟨_, ⟨hd0, _⟩ | ⟨n, f, _, _, _, _, _, hr⟩⟩
  · omega
  · rw [hr s]; split <;> omega

end Psutil.C16.Act
