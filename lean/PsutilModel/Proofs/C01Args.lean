/-
  Proofs/C01Args.lean — the values handed to the OS are the values asked for.
-/
import PsutilModel.Proofs.C01Eff
namespace Psutil.C01
open Spec

theorem mem_insertSorted (a x : Int) (l : List Int) : x ∈ insertSorted a l ↔ x = a ∨ x ∈ l := by
  induction l with
  | nil => simp [insertSorted]
  | cons b bs ih =>
    unfold insertSorted
    split
    · simp
    · split
      · rename_i _ hab; subst hab; simp
      · simp only [List.mem_cons, ih]
        constructor
        · rintro (h | h | h)
          · exact Or.inr (Or.inl h)
          · exact Or.inl h
          · exact Or.inr (Or.inr h)
        · rintro (h | h | h)
          · exact Or.inr (Or.inl h)
          · exact Or.inl h
          · exact Or.inr (Or.inr h)

theorem mem_canonSet (x : Int) (l : List Int) : x ∈ canonSet l ↔ x ∈ l := by
  induction l with
  | nil => simp [canonSet]
  | cons a as ih =>
    have : canonSet (a :: as) = insertSorted a (canonSet as) := rfl
    rw [this, mem_insertSorted, ih]; simp

theorem mem_range_int (n : Nat) (x : Int) : x ∈ (List.range n).map Int.ofNat ↔ (0 ≤ x ∧ x < (n : Int)) := by
  simp only [List.mem_map, List.mem_range]
  constructor
  · rintro ⟨m, hm, rfl⟩
    simp only [Int.ofNat_eq_natCast]
    omega
  · rintro ⟨h0, hlt⟩
    refine ⟨x.toNat, by omega, ?_⟩
    simp only [Int.ofNat_eq_natCast]
    omega

theorem setterArgs_argOK (c : Cfg) (hall : c.affinityAll = CPU_SETSIZE) (pid i : Nat) (kind : SetKind)
    (args a : List Int)
    (h : setterArgs c pid kind args = some a) : ArgOK (.setter i kind args) (.set kind) a := by
  cases kind with
  | nice =>
    rcases args with _ | ⟨v, _ | ⟨w, r⟩⟩ <;> simp [setterArgs] at h
    subst h; simp [ArgOK]
  | ionice =>
    rcases args with _ | ⟨v, _ | ⟨w, _ | ⟨u, r⟩⟩⟩ <;> simp [setterArgs] at h
    · subst h; simp [ArgOK]
    · simp only [ArgOK]; exact h.2.2.symm
  | rlimit =>
    rcases args with _ | ⟨v, r⟩ <;> simp [setterArgs] at h
    simp only [ArgOK]; exact h.2.2.symm
  | affinity =>
    rcases args with _ | ⟨v, r⟩ <;> simp only [setterArgs, Option.some.injEq] at h
    · subst h
      simp only [ArgOK]
      intro x; rw [hall]; exact mem_range_int _ x
    · subst h
      simp only [ArgOK]
      intro x; exact mem_canonSet x _

theorem sigOf_good {c : Cfg} (hg : c.Good) (m : SigMethod) : sigOf c m = sigNumber m := by
  cases m <;> simp [sigOf, sigNumber, hg.sigStop, hg.sigCont, hg.sigTerm, hg.sigKill]

instance (nt : Bool) : DecidablePred (KEv.OK · nt) := fun e => by
  cases e <;> simp only [KEv.OK] <;> infer_instance

instance (nt : Bool) : DecidablePred (Ev.OK · nt) := fun e => by
  cases e <;> simp only [Ev.OK] <;> infer_instance

instance (nt : Bool) (h : List Ev) : Decidable (HistOK nt h) := by
  unfold HistOK; infer_instance

end Psutil.C01
