/- Proofs/C01Kill.lean — lemmas for the kill(2)-argument clause (Model/C01Kill.lean, Spec/C01Kill.lean). -/
import PsutilModel.Model.C01Kill
import PsutilModel.Spec.C01Kill
namespace Psutil.C01.Kill

theorem clsOf_pos {p : Int} (h : clsOf p = .pos) : 0 < p := by
  unfold clsOf at h
  by_cases h1 : p < 0
  · simp [h1] at h
  · by_cases h2 : p = 0
    · simp [h2] at h
    · omega

theorem clsOf_mem_all (p : Int) : clsOf p ∈ Cls.all := by
  cases clsOf p <;> simp [Cls.all]

/-- every kill(2) `killsOf` lists carries the PID the function was called with, and the class walk reaches kill(2) -/
theorem killsOf_sound (cfg : KCfg) : ∀ (n : Nat) (fn : String) (p k : Int),
    k ∈ killsOf cfg n fn p → k = p ∧ reachB cfg n fn (clsOf p) = true := by
  intro n
  induction n with
  | zero => intro fn p k h; simp [killsOf] at h
  | succ n ih =>
    intro fn p k h
    simp only [killsOf, List.mem_flatMap] at h
    obtain ⟨s, hs, hk⟩ := h
    by_cases hkill : isKill s = true
    · simp [hkill] at hk
      refine ⟨hk, ?_⟩
      simp only [reachB, List.any_eq_true]
      exact ⟨s, hs, by simp [hkill]⟩
    · simp [hkill] at hk
      obtain ⟨h1, h2⟩ := ih s.callee p k hk
      refine ⟨h1, ?_⟩
      simp only [reachB, List.any_eq_true]
      exact ⟨s, hs, by simp [h2]⟩

theorem good_root_pos {cfg : KCfg} (hg : goodB cfg = true) {r : String × List Cls} (hr : r ∈ cfg.roots)
    {c : Cls} (hc : c ∈ r.2) (hreach : reachB cfg (fuel cfg) r.1 c = true) : c = .pos := by
  simp only [goodB, Bool.and_eq_true, List.all_eq_true] at hg
  have := hg.2 r hr c hc
  simpa [hreach] using this

/-- the clause for every configuration that meets the obligation -/
theorem noGroupKill_of_good {cfg : KCfg} (hg : goodB cfg = true) {r : String × List Cls} (hr : r ∈ cfg.roots)
    (p : Int) (hp : clsOf p ∈ r.2) : NoGroupKill (killsOf cfg (fuel cfg) r.1 p) := by
  intro k hk
  obtain ⟨h1, h2⟩ := killsOf_sound cfg _ _ _ _ hk
  have := good_root_pos hg hr hp h2
  rw [h1]
  exact clsOf_pos this

end Psutil.C01.Kill
