/-
  Proofs/C15Clock.lean — seeded round 5 (C15-8): a wait whose deadline computations read the STEADY
  clock does not depend on what the wall clock does (simulation of `waitPidK` / `procWaitK` /
  `popenWaitK` / `waitProcsFrontK` by the one-clock model), and a wait that reads the WALL clock raises
  TimeoutExpired early after a forward step and blocks past the deadline after a backward step.
-/
import PsutilModel.Proofs.C15Probe
import PsutilModel.Proofs.C15R2
import PsutilModel.Model.C15Clock
namespace Psutil.C15
open Spec

/-! ### reading the steady clock = the one-clock model -/

theorem sleepStepK_id (c : Cfg) (pid : Nat) (timeout : Option Rat) (stopAt : Rat) (s : St) :
    sleepStepK c (fun t => t) pid timeout stopAt s = sleepStep c pid timeout stopAt s := rfl

theorem pollNonChildK_id (c : Cfg) (ask : Rat → Bool) (pid : Nat) (timeout : Option Rat) (stopAt : Rat) :
    ∀ (fuel : Nat) (s : St),
      pollNonChildK c ask (fun t => t) pid timeout stopAt fuel s =
        pollNonChildP c ask pid timeout stopAt fuel s := by
  intro fuel
  induction fuel with
  | zero => intro s; rfl
  | succ n ih =>
    intro s
    rw [pollNonChildK, pollNonChildP]
    simp only [ih, sleepStepK_id]
    rfl

theorem waitLoopK_id (c : Cfg) (env : Env) (ask : Rat → Bool) (pid : Nat) (timeout : Option Rat) (stopAt : Rat) :
    ∀ (fuel : Nat) (s : St),
      waitLoopK c env ask (fun t => t) pid timeout stopAt fuel s =
        waitLoopP c env ask pid timeout stopAt fuel s := by
  intro fuel
  induction fuel with
  | zero => intro s; rfl
  | succ n ih =>
    intro s
    rw [waitLoopK, waitLoopP]
    simp only [ih, pollNonChildK_id, sleepStepK_id]
    rfl

/-- both readings on the steady clock: whatever the wall clock does, the run is the run of `waitPidV` -/
theorem waitPidK_steady (c : Cfg) (probe : Probe) (env : Env) (view : View) (wall : Wall) (pid : Int)
    (timeout : Option Rat) (fuel : Nat) (now : Rat) (nWait : Nat) :
    waitPidK c probe env view .steady .steady wall pid timeout fuel now nWait =
      waitPidV c probe env view pid timeout fuel now nWait := by
  unfold waitPidK waitPidV
  simp only [Clock.read, waitLoopK_id]

theorem procWaitK_steady (c : Cfg) (probe : Probe) (env : Env) (view : View) (wall : Wall)
    (timeout : Option Rat) (fuel : Nat) (now : Rat) (p : PObj) :
    procWaitK c probe env view .steady .steady wall timeout fuel now p =
      procWaitV c probe env view timeout fuel now p := by
  unfold procWaitK procWaitV
  simp only [waitPidK_steady]
  rfl

theorem popenWaitK_steady (c : Cfg) (probe : Probe) (env : Env) (view : View) (wall : Wall)
    (timeout : Option Rat) (fuel : Nat) (now : Rat) (q : PopenObj) :
    popenWaitK c probe env view .steady .steady wall timeout fuel now q =
      popenWaitV c probe env view timeout fuel now q := by
  unfold popenWaitK popenWaitV
  have e : procWaitK c probe env view .steady .steady wall timeout fuel now =
      procWaitV c probe env view timeout fuel now := by
    funext p; exact procWaitK_steady c probe env view wall timeout fuel now p
  rw [e]

/-! ### `wait_procs`: the generic loop nest around `checkGoneM`, reading the steady clock, is `waitProcsM` -/

/-- `check_gone` with `Process.wait` = `procWait` is `checkGoneM` -/
theorem checkGoneMG_procWait (c : Cfg) (envOf : Nat → Env) (hasCb : Bool) (fuel : Nat) (m : WPM) (pid : Nat)
    (t : Rat) :
    checkGoneMG c envOf hasCb (fun pid timeout now p => procWait c (envOf pid) timeout fuel now p) m pid t =
      checkGoneM c envOf hasCb fuel m pid t := by
  unfold checkGoneMG checkGoneM
  cases hs : m.sub pid with
  | none =>
    simp only
    unfold checkGone
    simp only
    cases ho : (procWait c (envOf pid) (some t) fuel m.w.now { m.w.objs pid with pid := pid }).out with
    | none =>
      simp only
      by_cases hr : (envOf pid).running
          (procWait c (envOf pid) (some t) fuel m.w.now { m.w.objs pid with pid := pid }).now = true
      · simp only [hr, if_true]
      · simp only [hr, Bool.false_eq_true, if_false]
    | code cc => rfl
    | timeout a b => rfl
    | valueError => rfl
    | hang => rfl
    | outOfFuel => rfl
  | some rc =>
    simp only [popenWaitG_procWait]
    rfl

/-- the step of the code when both `wait_pid` readings are on the steady clock: `checkGoneM` -/
theorem checkGoneK_steady {c : Cfg} (h0 : c.pidRejectsZero = true) (hpos : c.pidRejectsPos = false)
    (envOf : Nat → Env) (hasCb : Bool) (fuel : Nat) (wall : Wall) :
    checkGoneK c envOf hasCb fuel .steady .steady wall = checkGoneM c envOf hasCb fuel := by
  funext m pid t
  unfold checkGoneK
  have e : (fun pid timeout now p =>
        procWaitK c .kill (envOf pid) View.full .steady .steady wall timeout fuel now p) =
      (fun pid timeout now p => procWait c (envOf pid) timeout fuel now p) := by
    funext pid timeout now p
    rw [procWaitK_steady, procWaitV_kill, procWaitI_eq h0 hpos]
  rw [e]
  exact checkGoneMG_procWait c envOf hasCb fuel m pid t

section
variable (c : Cfg) (envOf : Nat → Env) (hasCb : Bool) (fuel : Nat)

theorem passTG_id (deadline maxT : Rat) :
    ∀ (l : List Nat) (m : WPM) (tmo : Rat),
      passTG (checkGoneM c envOf hasCb fuel) (fun t => t) deadline maxT l m tmo =
        passTM c envOf hasCb fuel deadline maxT l m tmo := by
  intro l
  induction l with
  | nil => intro m tmo; rfl
  | cons pid rest ih =>
    intro m tmo
    simp only [passTG, passTM, ih]
    rfl

theorem passNG_id (t : Rat) :
    ∀ (l : List Nat) (m : WPM),
      passNG (checkGoneM c envOf hasCb fuel) t l m = passNM c envOf hasCb fuel t l m := by
  intro l
  induction l with
  | nil => intro m; rfl
  | cons pid rest ih =>
    intro m
    simp only [passNG, passNM, ih]
    rfl

variable (order : Nat → List Nat → List Nat)

theorem whileTG_id (deadline : Rat) :
    ∀ (k : Nat) (alive : List Nat) (m : WPM) (tmo : Rat),
      whileTG c (checkGoneM c envOf hasCb fuel) (fun t => t) order deadline k alive m tmo =
        whileTM c envOf hasCb fuel order deadline k alive m tmo := by
  intro k
  induction k with
  | zero => intro alive m tmo; rfl
  | succ k ih =>
    intro alive m tmo
    simp only [whileTG, whileTM, passTG_id, ih]
    rfl

theorem whileNG_id :
    ∀ (k : Nat) (alive : List Nat) (m : WPM),
      whileNG c (checkGoneM c envOf hasCb fuel) order k alive m =
        whileNM c envOf hasCb fuel order k alive m := by
  intro k
  induction k with
  | zero => intro alive m; rfl
  | succ k ih =>
    intro alive m
    simp only [whileNG, whileNM, passNG_id, ih]
    rfl

theorem lastAttemptG_id (alive : List Nat) (m : WPM) :
    lastAttemptG (checkGoneM c envOf hasCb fuel) order alive m =
      lastAttemptM c envOf hasCb fuel order alive m := by
  unfold lastAttemptG lastAttemptM
  simp only [passNG_id]
  rfl

theorem waitProcsG_id (procs : List Nat) (timeout : Option Rat) (m : WPM) :
    waitProcsG c (checkGoneM c envOf hasCb fuel) (fun t => t) (fun t => t) procs timeout order fuel m =
      waitProcsM c envOf procs timeout hasCb order fuel m := by
  unfold waitProcsG waitProcsM
  simp only [whileTG_id, whileNG_id, lastAttemptG_id]
  rfl

end

/-- the whole `wait_procs` when all four readings are on the steady clock: `waitProcsFrontM`, whatever the
    wall clock does -/
theorem waitProcsFrontK_steady {c : Cfg} (h0 : c.pidRejectsZero = true) (hpos : c.pidRejectsPos = false)
    (h1 : c.stopClock = .steady) (h2 : c.checkClock = .steady) (h3 : c.procsDeadlineClock = .steady)
    (h4 : c.procsSliceClock = .steady)
    (envOf : Nat → Env) (wall : Wall) (procs : List Nat) (hashable : Bool) (timeout : Option Rat) (cb : Cb)
    (order : Nat → List Nat → List Nat) (fuel : Nat) (m : WPM) :
    waitProcsFrontK c envOf wall procs hashable timeout cb order fuel m =
      waitProcsFrontM c envOf procs hashable timeout cb order fuel m := by
  unfold waitProcsFrontK waitProcsFrontM
  rw [h1, h2, h3, h4, checkGoneK_steady h0 hpos]
  simp only [Clock.read, waitProcsG_id]
  rfl

/-! ### reading the wall clock: the witnesses of the seeded change -/

/-- a wall clock stepped FORWARD by one hour 0.05 ms after the call started (NTP step, `date -s`) -/
def fwdWall : Wall := Wall.stepped 0 [(1 / 20000, 3600)]
/-- … and one stepped BACKWARD by one hour at that instant -/
def backWall : Wall := Wall.stepped 0 [(1 / 20000, -3600)]

/-- `wait_pid(8, timeout=1)` at instant 0 on some other process that never ends, both deadline
    computations on the wall clock, forward step: TimeoutExpired after 0.1 ms instead of 1 s -/
theorem fwd_run {c : Cfg} (hg : c.Good) (hpos : c.pidRejectsPos = false) :
    waitPidK c .kill exOther View.full .wall .wall fwdWall 8 (some 1) 5 0 0 =
      (.timeout 1 8, ⟨1 / 10000, 1 / 5000, 1, [1 / 10000]⟩) := by
  norm_num [(by decide : Int.toNat 8 = 8), waitPidK, pidRefused, hpos, waitLoopK, pollNonChildK, sleepStepK, Probe.ask, Clock.read, fwdWall,
    Wall.stepped, exOther, pastDeadline, hg.check, hg.ge, Env.ended, Env.pidExists, St.advance, Cfg.i0, Cfg.cap,
    rmin, hg.i0n, hg.i0d, hg.factor, hg.capn, hg.capd]

/-- a child that calls `exit(0)` at t = 50 ms -/
def exSlow : Env := ⟨.child 0, some (1 / 20), fun _ => false⟩

/-- `wait_pid(7, timeout=1 ms)` at instant 0, wall clock stepped backward: no TimeoutExpired at 1 ms — the
    call polls on until the child ends and returns its exit code at 51.1 ms, after 9 sleeps -/
theorem back_run {c : Cfg} (hg : c.Good) (hpos : c.pidRejectsPos = false) :
    (waitPidK c .kill exSlow View.full .wall .wall backWall 7 (some (1 / 1000)) 20 0 0).1 = .code 0 ∧
    (waitPidK c .kill exSlow View.full .wall .wall backWall 7 (some (1 / 1000)) 20 0 0).2.now = 511 / 10000 := by
  norm_num [(by decide : Int.toNat 7 = 7), waitPidK, pidRefused, hpos, waitLoopK, sleepStepK, Probe.ask, Clock.read, backWall,
    Wall.stepped, exSlow, pastDeadline, hg.check, hg.ge, Env.ended, St.advance, Cfg.i0, Cfg.cap,
    rmin, hg.i0n, hg.i0d, hg.factor, hg.capn, hg.capd, decode, wifexited, wtermsig, wexitstatus]

end Psutil.C15
