/-
  Proofs/C15Examples.lean — concrete runs of the model (for every good configuration), used by
  Props/C15.lean as counterexample witnesses and to show that hypotheses are satisfiable.
-/
import PsutilModel.Proofs.C15Procs
namespace Psutil.C15

/-- the environment of the counterexample: a child that ended at instant 0 with `exit(0)`; the
    first waitpid call is interrupted -/
def witnessEnv : Env := ⟨.child 0, some 0, fun n => n == 0⟩

/-- `wait_pid(7, timeout=0)` at instant 1: the only poll is interrupted → TimeoutExpired -/
theorem witness_run {c : Cfg} (hg : c.Good) :
    (waitPid c witnessEnv 7 (some 0) 5 1 0).1 = .timeout 0 7 ∧
    (waitPid c witnessEnv 7 (some 0) 5 1 0).2.now = 1 := by
  simp [waitPid, waitLoop, witnessEnv, sleepStep, pastDeadline, hg.check, hg.ge]

/-- the same call without the interruption returns the exit code 0 -/
theorem witness_clean_run (c : Cfg) :
    (waitPid c { witnessEnv with eintr := fun _ => false } 7 (some 0) 5 1 0).1 = .code 0 := by
  simp [waitPid, waitLoop, witnessEnv, Env.ended, decode, wifexited, wtermsig, wexitstatus]

/-- a child that calls `exit(1)` at t = 0.3 ms -/
def exChild : Env := ⟨.child 256, some (3 / 10000), fun _ => false⟩

/-- `wait_pid(7, timeout=10 ms)` at t = 0: polls at 0, 0.1 ms, 0.3 ms; returns 1 at 0.3 ms -/
theorem ex_wait {c : Cfg} (hg : c.Good) :
    waitPid c exChild 7 (some (1 / 100)) 50 0 0 =
      (.code 1, ⟨3 / 10000, 1 / 2500, 3, [1 / 10000, 1 / 5000]⟩) := by
  norm_num [waitPid, waitLoop, exChild, sleepStep, pastDeadline, hg.check, hg.ge, Env.ended, St.advance,
    Cfg.i0, Cfg.cap, rmin, hg.i0n, hg.i0d, hg.factor, hg.capn, hg.capd, decode, wifexited, wtermsig,
    wexitstatus]

/-- some other process that never ends -/
def exOther : Env := ⟨.nonChild, none, fun _ => false⟩

/-- `wait_pid(8, timeout=0.3 ms)` at t = 0: TimeoutExpired exactly at the deadline, two sleeps -/
theorem ex_timeout {c : Cfg} (hg : c.Good) :
    waitPid c exOther 8 (some (3 / 10000)) 50 0 0 =
      (.timeout (3 / 10000) 8, ⟨3 / 10000, 1 / 2500, 1, [1 / 10000, 1 / 5000]⟩) := by
  norm_num [waitPid, waitLoop, pollNonChild, exOther, sleepStep, pastDeadline, hg.check, hg.ge, Env.ended,
    Env.pidExists, St.advance, Cfg.i0, Cfg.cap, rmin, hg.i0n, hg.i0d, hg.factor, hg.capn, hg.capd]

def exEnv : Nat → Env := fun pid =>
  if pid = 1 then ⟨.child 9, some 0, fun _ => false⟩ else ⟨.nonChild, none, fun _ => false⟩

def exW : WP := ⟨1, fun pid => ⟨pid, none, 0, none⟩, [], [], [], [], []⟩

/-- `wait_procs([p1, p2, p1], timeout=0, callback)` at t = 1, p1 a child killed by SIGKILL at
    t = 0, p2 a process that never ends: gone = [p1] with returncode −9, alive = [p2] -/
theorem ex_procs {c : Cfg} (hg : c.Good) :
    ∃ w', waitProcs c exEnv [1, 2, 1] (some 0) true (fun _ l => l) 5 exW = .ok (w', [2]) ∧
      w'.gone = [1] ∧ (w'.objs 1).returncode = some (some (-9)) ∧ (w'.objs 2).returncode = none ∧
      w'.cbLog = [1] ∧ w'.now = 1 := by
  simp [waitProcs, negative, dedup, whileT, lastAttempt, passN, checkGone, procWait, hg.validate, waitPid,
    waitLoop, pollNonChild, sleepStep, pastDeadline, hg.check, hg.ge, exEnv, exW, Env.ended, Env.pidExists,
    decode, wifexited, wifsignaled, wtermsig, toSignedChar, markGone_eq, WP.setObj, stillAlive,
    Outcome.value?]

theorem exW_fresh : Fresh exEnv exW := ⟨rfl, rfl, rfl, fun _ _ h => by cases h⟩

end Psutil.C15
