/-
  Proofs/C18Refine.lean — the model refines the specification, one request family at a time:
  whenever Spec/C18.lean promises an outcome for a call, Model/C18.lean (under a good
  configuration) produces exactly that outcome and that kernel.
-/
import PsutilModel.Proofs.C18Frame
namespace Psutil.C18
open Spec

/-- well-formed kernel state of one process -/
structure WF (k : Kernel) (st : PState) : Prop where
  ncpu : k.ncpu ≤ 1024
  asc : Asc st.affinity
  sub : ∀ c ∈ st.affinity, c < k.ncpu ∧ c ∈ st.cpuset
  ne : st.affinity ≠ []
  ioprio : st.ioprio < 65536
  rl : ∀ r, (st.rlimits r).1 < 18446744073709551616 ∧ (st.rlimits r).2 < 18446744073709551616
  /-- `/proc/stat` never shows more `cpuN` lines than there are possible CPU ids (fewer when CPUs
      are offline or the file is virtualised) -/
  stat : k.statCpus ≤ k.ncpu

theorem setProc_eq_replaced (k : Kernel) (pid : Nat) (st : PState) (e : Eff) :
    setProc k pid st e = Spec.replaced k pid st e := rfl

theorem refines_nice (c : Cfg) (k : Kernel) (pid : Nat) (st : PState) (v : Option Int) (o : Out) (k' : Kernel)
    (hpid : pid ≠ 0) (hst : k.procs pid = some st)
    (hs : Spec.expect k pid st (.nice v) = .promised o k') : step c k pid (.nice v) = (o, k') := by
  cases v with
  | none =>
    simp only [Spec.expect, Verdict.promised.injEq] at hs
    obtain ⟨rfl, rfl⟩ := hs
    simp [step, niceGet, cextGetpriority, sysGetpriority, resolve_pid k hpid, hst, ofSys]
  | some v =>
    simp only [Spec.expect] at hs
    split at hs
    · rename_i hv
      simp only [Verdict.promised.injEq] at hs
      obtain ⟨rfl, rfl⟩ := hs
      have hfit : fitsCInt v = true := by simp [fitsCInt]; omega
      have hcl : clampNice v = v := by unfold clampNice; split <;> (try split) <;> omega
      simp [step, niceSet, cextSetpriority, hfit, sysSetpriority, resolve_pid k hpid, hst, ofSys, hcl,
        setProc_eq_replaced]
    · cases hs

theorem toU64_of_limitOfPy {v : Int} {n : Nat} (h : limitOfPy v = some n) :
    fitsCLong v = true ∧ toU64 v = n := by
  unfold limitOfPy at h
  split at h
  · rename_i e; subst e
    simp only [Option.some.injEq] at h; subst h
    exact ⟨by decide, by decide⟩
  · split at h
    · rename_i h1 h2
      simp only [Option.some.injEq] at h; subst h
      refine ⟨by simp [fitsCLong]; omega, ?_⟩
      unfold toU64
      split <;> omega
    · cases h

theorem ofU64_of_limitToPy {n : Nat} {v : Int} (h : limitToPy n = some v) : ofU64 n = v := by
  unfold limitToPy at h
  unfold ofU64
  split at h
  · rename_i e; subst e
    simp only [Option.some.injEq] at h; subst h
    decide
  · split at h
    · simp only [Option.some.injEq] at h; subst h
      split <;> omega
    · cases h

theorem refines_rlimit (c : Cfg) (hg : c.Good) (k : Kernel) (pid : Nat) (st : PState) (res : Int)
    (l : Option (List Int)) (o : Out) (k' : Kernel)
    (hpid : pid ≠ 0) (hst : k.procs pid = some st)
    (hs : Spec.expect k pid st (.rlimit res l) = .promised o k') : step c k pid (.rlimit res l) = (o, k') := by
  have hp0 : ¬ (pid = 0 ∧ c.pid0Refused = true) := fun h => hpid h.1
  cases l with
  | none =>
    simp only [Spec.expect] at hs
    split at hs
    · rename_i hr
      split at hs
      · rename_i s h hs' hh'
        simp only [Verdict.promised.injEq] at hs
        obtain ⟨rfl, rfl⟩ := hs
        have hfit : fitsCInt res = true := by simp [fitsCInt]; omega
        have hnot : ¬ (res < 0 ∨ res ≥ 16) := by omega
        simp [step, rlimitL, hp0, pyPrlimitGet, resourceCheck, hfit, hnot, sysPrlimitGet,
          resolve_pid k hpid, hst, ofU64_of_limitToPy hs', ofU64_of_limitToPy hh']
      · cases hs
    · cases hs
  | some l =>
    simp only [Spec.expect] at hs
    split at hs
    · rename_i s h
      split at hs
      · rename_i hr
        split at hs
        · rename_i s' h' hs' hh'
          split at hs
          · rename_i hok
            simp only [Verdict.promised.injEq] at hs
            obtain ⟨rfl, rfl⟩ := hs
            have hfit : fitsCInt res = true := by simp [fitsCInt]; omega
            have hnot : ¬ (res < 0 ∨ res ≥ 16) := by omega
            obtain ⟨f1, u1⟩ := toU64_of_limitOfPy hs'
            obtain ⟨f2, u2⟩ := toU64_of_limitOfPy hh'
            have hle : ¬ s' > h' := by omega
            have hnof : ¬ (res.toNat = rlimitNofile ∧ h' > k.nrOpen) := by
              rintro ⟨e, hgt⟩
              have : res = 7 := by simp [rlimitNofile] at e; omega
              have := hok.2.1 this
              omega
            have hcap : ¬ (h' > (st.rlimits res.toNat).2 ∧ k.capResource = false) := by
              rintro ⟨hgt, hc⟩
              rcases hok.2.2 with h1 | h1
              · rw [hc] at h1; cases h1
              · omega
            simp [step, rlimitL, hp0, hg.pair, pyPrlimitSet, resourceCheck, hfit, hnot, f1, f2, u1, u2,
              sysPrlimitSet, resolve_pid k hpid, hst, hle, hnof, hcap, setProc_eq_replaced]
          · cases hs
        · cases hs
      · cases hs
    · rename_i hne
      simp only [Verdict.promised.injEq] at hs
      obtain ⟨rfl, rfl⟩ := hs
      have hlen : l.length ≠ 2 := by
        intro hl
        match l, hl with
        | [a, b], _ => exact hne a b rfl
      simp [step, rlimitL, hp0, hg.pair, hlen]



theorem enum_contains {n : Nat} (h : n ≤ 3) : ([0, 1, 2, 3] : List Nat).contains n = true := by
  have : n = 0 ∨ n = 1 ∨ n = 2 ∨ n = 3 := by omega
  rcases this with h | h | h | h <;> subst h <;> decide

theorem noval_contains (x : Int) : ([0, 3] : List Int).contains x = true ↔ (x = 0 ∨ x = 3) := by
  simp

theorem refines_ionice (c : Cfg) (hg : c.Good) (k : Kernel) (pid : Nat) (st : PState)
    (cls v : Option Int) (o : Out) (k' : Kernel)
    (hpid : pid ≠ 0) (hst : k.procs pid = some st)
    (hs : Spec.expect k pid st (.ionice cls v) = .promised o k') : step c k pid (.ionice cls v) = (o, k') := by
  cases cls with
  | none =>
    cases v with
    | none =>
      simp only [Spec.expect] at hs
      split at hs
      · rename_i hc
        simp only [Verdict.promised.injEq] at hs
        obtain ⟨rfl, rfl⟩ := hs
        simp only [step, ioniceGet, cextIoprioGet, sysIoprioGet, resolve_pid k hpid, hst, hg.shift, unpack_eq,
          hg.enum, enum_contains hc, if_true]
      · cases hs
    | some v =>
      simp only [Spec.expect, Verdict.promised.injEq] at hs
      obtain ⟨rfl, rfl⟩ := hs
      simp [step, hg.vwc]
  | some cls =>
    simp only [Spec.expect] at hs
    split at hs
    · rename_i hl
      simp only [Verdict.promised.injEq] at hs
      obtain ⟨rfl, rfl⟩ := hs
      simp only [step, ioniceSet, hg.dflt, hg.lo, hg.hi, hg.noval]
      split
      · rfl
      · rfl
    · rename_i hl
      split at hs
      · rename_i hc
        split at hs
        · rename_i hz
          simp only [Verdict.promised.injEq] at hs
          obtain ⟨rfl, rfl⟩ := hs
          have : (v.getD 0 ≠ 0 ∧ ([0, 3] : List Int).contains cls = true) := ⟨hz.2, (noval_contains cls).2 hz.1⟩
          simp only [step, ioniceSet, hg.dflt, hg.lo, hg.hi, hg.noval]
          rw [if_pos this]
        · rename_i hz
          simp only [Verdict.promised.injEq] at hs
          obtain ⟨rfl, rfl⟩ := hs
          have h1 : ¬ (v.getD 0 ≠ 0 ∧ ([0, 3] : List Int).contains cls = true) := by
            rintro ⟨a, b⟩; exact hz ⟨(noval_contains cls).1 b, a⟩
          have hfit : (fitsCInt cls && fitsCInt (v.getD 0)) = true := by
            simp [fitsCInt]; omega
          have hneg : ¬ (cls < 0 ∨ v.getD 0 < 0) := by omega
          have hnr := inNativeRange hg hc (show 0 ≤ v.getD 0 ∧ v.getD 0 ≤ 7 by omega)
          have hd : (v.getD 0).toNat < 8192 := by omega
          have hlt : cls.toNat * 8192 + (v.getD 0).toNat < 2147483648 := by omega
          have hacc : ioprioAccepted (cls.toNat * 8192 + (v.getD 0).toNat) = true :=
            accepted_valid _ _ (by omega) (by omega) (by
              intro e
              have : cls = 0 := by omega
              have := Classical.not_and_iff_not_or_not.1 hz
              omega)
          have hmod : (cls.toNat * 8192 + (v.getD 0).toNat) % 65536 = cls.toNat * 8192 + (v.getD 0).toNat := by
            omega
          simp only [step, ioniceSet, hg.dflt, hg.lo, hg.hi, hg.noval, h1, hl, if_false, cextIoprioSet, hfit,
            Bool.not_true, Bool.false_eq_true, hnr, hneg, hg.shift, pack_eq _ _ hd, hlt, if_true, sysIoprioSet,
            hacc, resolve_pid k hpid, hst, ofSys, hmod, setProc_eq_replaced, Spec.ioprioValue]
      · cases hs

/-- the region of the (fixed) finding `C18-ineligible-oserror`: every listed CPU has a line in
    `/proc/stat`, none is in the cpuset, and the status line does not start with a range -/
def InFindingRegion (k : Kernel) (st : PState) : Req → Prop
  | .cpuAffinity (some cpus) =>
    cpus ≠ [] ∧ (∀ c ∈ cpus, 0 ≤ c ∧ c.toNat < k.statCpus ∧ ¬ c.toNat ∈ st.cpuset) ∧
      statusRange st.affinity = none
  | _ => False

theorem mem_eligible (k : Kernel) (st : PState) (x : Nat) :
    x ∈ Spec.eligible k st ↔ x < k.ncpu ∧ x ∈ st.cpuset := by
  simp [Spec.eligible, List.mem_filter]

theorem eligible_ne_nil {k : Kernel} {st : PState} (hwf : WF k st) : Spec.eligible k st ≠ [] := by
  cases ha : st.affinity with
  | nil => exact absurd ha hwf.ne
  | cons a rest =>
    have := hwf.sub a (by simp [ha])
    intro h
    have hm : a ∈ Spec.eligible k st := (mem_eligible k st a).2 this
    rw [h] at hm; cases hm

/-- what `sched_setaffinity` grants only depends on which CPUs the mask contains -/
theorem granted_eq (k : Kernel) (st : PState) (m : List Nat) (l : List Int) (hn : k.ncpu ≤ 1024)
    (hm : ∀ x : Nat, x ∈ m ↔ (x < 1024 ∧ (x : Int) ∈ l)) :
    grantedCpus k st m = (List.range k.ncpu).filter (fun (c : Nat) => decide ((c : Int) ∈ l) && st.cpuset.contains c) := by
  unfold grantedCpus
  apply List.filter_congr
  intro x hx
  have hx' : x < k.ncpu := List.mem_range.1 hx
  congr 1
  rw [Bool.eq_iff_iff]
  simp only [List.contains_iff_mem, decide_eq_true_eq, hm]
  exact ⟨fun h => h.2, fun h => ⟨by omega, h⟩⟩

/-- `cpu_affinity_set` on a duplicate-free copy of `l` when no element is −1 or overflows -/
theorem cpuAffinitySet_ok (c : Cfg) (k : Kernel) (pid : Nat) (st : PState) (l : List Int) (hpid : pid ≠ 0)
    (hst : k.procs pid = some st) (hn : k.ncpu ≤ 1024) (hl : AllLong l) (h1 : (-1 : Int) ∉ l)
    (g : List Nat)
    (hg : (List.range k.ncpu).filter (fun (c : Nat) => decide ((c : Int) ∈ l) && st.cpuset.contains c) = g)
    (hne : g ≠ []) :
    cpuAffinitySet k pid (dedup c l) =
      (.ok .none, setProc k pid { st with affinity := g } (.affinity pid g)) := by
  obtain ⟨m, hm, hmem⟩ := cpuSetOfSeq_ok (allLong_dedup c hl) (fun h => h1 ((mem_dedup c l _).1 h))
  have hmem' : ∀ x : Nat, x ∈ m ↔ (x < 1024 ∧ (x : Int) ∈ l) := fun x => by rw [hmem, mem_dedup c]
  have hgr := granted_eq k st m l hn hmem'
  rw [hg] at hgr
  have hemp : g.isEmpty = false := by
    cases g with
    | nil => exact absurd rfl hne
    | cons _ _ => rfl
  simp [cpuAffinitySet, cextAffinitySet, hm, sysSchedSetaffinity, resolve_pid k hpid, hst, hgr, hemp, ofSys]

theorem refines_affinity (c : Cfg) (hg : c.Good) (k : Kernel) (pid : Nat) (st : PState)
    (cpus : Option (List Int)) (o : Out) (k' : Kernel)
    (hpid : pid ≠ 0) (hst : k.procs pid = some st) (hwf : WF k st)
    (hreg : ¬ InFindingRegion k st (.cpuAffinity cpus))
    (hlong : ∀ l, cpus = some l → AllLong l)
    (hs : Spec.expect k pid st (.cpuAffinity cpus) = .promised o k') :
    step c k pid (.cpuAffinity cpus) = (o, k') := by
  cases cpus with
  | none =>
    simp only [Spec.expect, Verdict.promised.injEq] at hs
    obtain ⟨rfl, rfl⟩ := hs
    have h1 : Spec.ascending k st.affinity = st.affinity :=
      rangeFilter_contains_self hwf.asc (fun c hc => (hwf.sub c hc).1)
    simp [step, cpuAffinity, cextAffinityGet, sysSchedGetaffinity, resolve_pid k hpid, hst, ofSys, hg.sorted,
      sortedSet_of_asc hwf.asc, h1]
  | some cpus =>
    simp only [Spec.expect] at hs
    split at hs
    · -- empty list: all eligible CPUs
      rename_i hemp
      simp only [Verdict.promised.injEq] at hs
      obtain ⟨rfl, rfl⟩ := hs
      simp only [step, cpuAffinity, hemp, if_true, hg.count, Bool.false_eq_true, if_false, hg.empty]
      have hl : AllLong ((List.range 1024).map Int.ofNat) := by
        intro v hv
        simp only [List.mem_map, List.mem_range] at hv
        obtain ⟨n, hn, rfl⟩ := hv
        simp [fitsCLong]; omega
      have h1 : (-1 : Int) ∉ (List.range 1024).map Int.ofNat := by
        intro hv
        simp only [List.mem_map, List.mem_range] at hv
        obtain ⟨n, _, e⟩ := hv
        have : (0 : Int) ≤ Int.ofNat n := Int.natCast_nonneg n
        omega
      have hgr : (List.range k.ncpu).filter
          (fun (c : Nat) => decide ((c : Int) ∈ (List.range 1024).map Int.ofNat) && st.cpuset.contains c)
          = Spec.eligible k st := by
        unfold Spec.eligible
        apply List.filter_congr
        intro x hx
        have hx' : x < k.ncpu := List.mem_range.1 hx
        have : ((x : Int) ∈ (List.range 1024).map Int.ofNat) := by
          simp only [List.mem_map, List.mem_range]
          exact ⟨x, by have := hwf.ncpu; omega, rfl⟩
        simp [this]
      rw [cpuAffinitySet_ok c k pid st _ hpid hst hwf.ncpu hl h1 _ hgr (eligible_ne_nil hwf)]
      rfl
    · rename_i hne
      have hne' : cpus ≠ [] := fun e => hne (by simp [e])
      split at hs
      · -- every listed CPU is eligible
        rename_i hall
        simp only [Verdict.promised.injEq] at hs
        obtain ⟨rfl, rfl⟩ := hs
        rw [List.all_eq_true] at hall
        have hall' : ∀ x ∈ cpus, 0 ≤ x ∧ x.toNat ∈ Spec.eligible k st := by
          intro x hx
          have := hall x hx
          simp only [Bool.and_eq_true, decide_eq_true_eq, List.contains_iff_mem] at this
          exact this
        have hemp : cpus.isEmpty = false := by
          cases cpus with
          | nil => exact absurd rfl hne'
          | cons _ _ => rfl
        simp only [step, cpuAffinity, hemp, Bool.false_eq_true, if_false]
        have hl : AllLong cpus := by
          intro v hv
          obtain ⟨h0, he⟩ := hall' v hv
          have := ((mem_eligible k st _).1 he).1
          have := hwf.ncpu
          simp [fitsCLong]; omega
        have h1 : (-1 : Int) ∉ cpus := fun hv => by have := (hall' _ hv).1; omega
        have hgr : (List.range k.ncpu).filter (fun (c : Nat) => decide ((c : Int) ∈ cpus) && st.cpuset.contains c)
            = Spec.ascending k (cpus.map Int.toNat) := by
          unfold Spec.ascending
          apply List.filter_congr
          intro x hx
          have hx' : x < k.ncpu := List.mem_range.1 hx
          rw [Bool.eq_iff_iff]
          simp only [Bool.and_eq_true, decide_eq_true_eq, List.contains_iff_mem, List.mem_map]
          constructor
          · rintro ⟨h, _⟩; exact ⟨(x : Int), h, by simp⟩
          · rintro ⟨y, hy, rfl⟩
            obtain ⟨h0, he⟩ := hall' y hy
            refine ⟨?_, ((mem_eligible k st _).1 he).2⟩
            have : ((y.toNat : Nat) : Int) = y := Int.toNat_of_nonneg h0
            rw [this]; exact hy
        have hnil : Spec.ascending k (cpus.map Int.toNat) ≠ [] := by
          cases hc : cpus with
          | nil => exact absurd hc hne'
          | cons y rest =>
            obtain ⟨h0, he⟩ := hall' y (by simp [hc])
            intro h
            have hm : y.toNat ∈ Spec.ascending k ((y :: rest).map Int.toNat) := by
              unfold Spec.ascending
              simp only [List.mem_filter, List.mem_range, List.contains_iff_mem]
              exact ⟨((mem_eligible k st _).1 he).1, by simp⟩
            rw [h] at hm; cases hm
        rw [cpuAffinitySet_ok c k pid st _ hpid hst hwf.ncpu hl h1 _ hgr hnil]
        rfl
      · split at hs
        · -- only nonexistent / ineligible CPUs
          rename_i hnv hinv
          simp only [Verdict.promised.injEq] at hs
          obtain ⟨rfl, rfl⟩ := hs
          rw [List.all_eq_true] at hinv
          have hinv' : ∀ x ∈ cpus, fitsCLong x = true ∧ (x < 0 ∨ ¬ x.toNat ∈ Spec.eligible k st) := by
            intro x hx
            have := hinv x hx
            simp only [isNonexistentOrIneligible, Bool.or_eq_true, decide_eq_true_eq,
              Bool.not_eq_true', List.contains_eq_mem, decide_eq_false_iff_not] at this
            exact ⟨hlong cpus rfl x hx, this⟩
          have hemp : cpus.isEmpty = false := by
            cases cpus with
            | nil => exact absurd rfl hne'
            | cons _ _ => rfl
          simp only [step, cpuAffinity, hemp, Bool.false_eq_true, if_false]
          have hl : AllLong cpus := fun v hv => (hinv' v hv).1
          -- the diagnosis finds an offending CPU
          have hdiag : ∀ el, getEligibleCpus k pid = some el →
              diagnose (List.range k.statCpus) el (dedup c cpus) = true := by
            intro el hel
            rw [diagnose_true]
            have hstat := hwf.stat
            by_cases hex : ∃ x ∈ cpus, x < 0 ∨ k.statCpus ≤ x.toNat
            · obtain ⟨x, hx, hx'⟩ := hex
              refine ⟨x, (mem_dedup c cpus x).2 hx, ?_⟩
              rcases hx' with h | h
              · exact Or.inl h
              · right; left
                cases hc : (List.range k.statCpus).contains x.toNat with
                | false => rfl
                | true =>
                  rw [List.contains_iff_mem, List.mem_range] at hc; omega
            · -- all listed CPUs exist, so none is in the cpuset; outside the finding region
              -- the status line starts with a range, a part of the current mask
              have hall : ∀ x ∈ cpus, 0 ≤ x ∧ x.toNat < k.statCpus ∧ ¬ x.toNat ∈ st.cpuset := by
                intro x hx
                have h1 : ¬ (x < 0 ∨ k.statCpus ≤ x.toNat) := fun h => hex ⟨x, hx, h⟩
                have h2 := (hinv' x hx).2
                refine ⟨by omega, by omega, fun hc => ?_⟩
                rcases h2 with h2 | h2
                · omega
                · exact h2 ((mem_eligible k st _).2 ⟨by omega, hc⟩)
              have hsr : statusRange st.affinity ≠ none := fun h => hreg ⟨hne', hall, h⟩
              cases hc : cpus with
              | nil => exact absurd hc hne'
              | cons y rest =>
                have hy : y ∈ cpus := by simp [hc]
                refine ⟨y, (mem_dedup c _ y).2 (by simp), Or.inr (Or.inr ?_)⟩
                cases hr : statusRange st.affinity with
                | none => exact absurd hr hsr
                | some ab =>
                  obtain ⟨a, b⟩ := ab
                  simp only [getEligibleCpus, hst, hr, Option.some.injEq] at hel
                  subst hel
                  cases hcc : (List.range' a (b + 1 - a)).contains y.toNat with
                  | false => rfl
                  | true =>
                    rw [List.contains_iff_mem] at hcc
                    have := statusRange_sub hr _ hcc
                    exact absurd (hwf.sub _ this).2 (hall y hy).2.2
          have hel : ∃ el, getEligibleCpus k pid = some el := by
            simp only [getEligibleCpus, hst]
            split <;> exact ⟨_, rfl⟩
          obtain ⟨el, hel⟩ := hel
          by_cases hm1 : (-1 : Int) ∈ cpus
          · have := cpuSetOfSeq_minus1 (allLong_dedup c hl) ((mem_dedup c cpus _).2 hm1)
            simp [cpuAffinitySet, cextAffinitySet, this, hel, hdiag el hel]
          · obtain ⟨m, hm, hmem⟩ := cpuSetOfSeq_ok (allLong_dedup c hl) (fun h => hm1 ((mem_dedup c cpus _).1 h))
            have hmem' : ∀ x : Nat, x ∈ m ↔ (x < 1024 ∧ (x : Int) ∈ cpus) := fun x => by rw [hmem, mem_dedup c]
            have hgr := granted_eq k st m cpus hwf.ncpu hmem'
            have hnil : (List.range k.ncpu).filter
                (fun (c : Nat) => decide ((c : Int) ∈ cpus) && st.cpuset.contains c) = [] := by
              rw [List.filter_eq_nil_iff]
              intro x hx
              have hx' : x < k.ncpu := List.mem_range.1 hx
              simp only [Bool.and_eq_true, decide_eq_true_eq, List.contains_iff_mem]
              rintro ⟨h1, h2⟩
              rcases (hinv' _ h1).2 with h | h
              · omega
              · apply h
                rw [Int.toNat_natCast]
                exact (mem_eligible k st x).2 ⟨hx', h2⟩
            rw [hnil] at hgr
            simp [cpuAffinitySet, cextAffinitySet, hm, sysSchedSetaffinity, resolve_pid k hpid, hst, hgr, ofSys,
              hel, hdiag el hel]
        · cases hs

/-! ### small facts used by Props/C18.lean -/

theorem replaced_self (k : Kernel) (pid : Nat) (st : PState) (e : Eff) :
    (Spec.replaced k pid st e).procs pid = some st := if_pos rfl

theorem limitToPy_limitOfPy {v : Int} {n : Nat} (h : Spec.limitOfPy v = some n) : Spec.limitToPy n = some v := by
  unfold Spec.limitOfPy at h
  unfold Spec.limitToPy
  split at h
  · rename_i e; subst e
    simp only [Option.some.injEq] at h; subst h; rfl
  · split at h
    · simp only [Option.some.injEq] at h; subst h
      have : ¬ (v.toNat = Spec.rlimInfinity) := by simp only [Spec.rlimInfinity]; omega
      have h2 : v.toNat < 9223372036854775808 := by omega
      simp only [this, if_false, h2, if_true, Option.some.injEq]
      omega
    · cases h

/-- a non-empty CPU list naming only CPUs that do not exist or that the process may not use -/
def OnlyUnusableCpus (k : Kernel) (st : PState) (cpus : List Int) : Prop :=
  cpus ≠ [] ∧ ∀ x ∈ cpus, fitsCLong x = true ∧ (x < 0 ∨ k.ncpu ≤ x.toNat ∨ ¬ x.toNat ∈ st.cpuset)

theorem expect_of_onlyUnusable {k : Kernel} {st : PState} {cpus : List Int} (pid : Nat)
    (h : OnlyUnusableCpus k st cpus) :
    Spec.expect k pid st (.cpuAffinity (some cpus)) = .promised (.exc .valueError) k := by
  obtain ⟨hne, hall⟩ := h
  have hemp : cpus.isEmpty = false := by
    cases cpus with
    | nil => exact absurd rfl hne
    | cons _ _ => rfl
  have h1 : ¬ (cpus.all fun x => decide (0 ≤ x) && (Spec.eligible k st).contains x.toNat) = true := by
    rw [List.all_eq_true]
    intro hh
    cases hc : cpus with
    | nil => exact hne hc
    | cons y _ =>
      have hy : y ∈ cpus := by simp [hc]
      have := hh y hy
      simp only [Bool.and_eq_true, decide_eq_true_eq, List.contains_iff_mem] at this
      have he := (mem_eligible k st _).1 this.2
      have h0 := this.1
      rcases (hall y hy).2 with h | h | h
      · omega
      · omega
      · exact h he.2
  have h2 : (cpus.all fun x => Spec.isNonexistentOrIneligible k st x) = true := by
    rw [List.all_eq_true]
    intro x hx
    obtain ⟨hf, hu⟩ := hall x hx
    simp only [Spec.isNonexistentOrIneligible, Bool.or_eq_true,
      decide_eq_true_eq, Bool.not_eq_true', List.contains_eq_mem, decide_eq_false_iff_not]
    rcases hu with hu | hu | hu
    · exact Or.inl hu
    · exact Or.inr (fun he => by have := ((mem_eligible k st _).1 he).1; omega)
    · exact Or.inr (fun he => hu ((mem_eligible k st _).1 he).2)
  simp only [Spec.expect, hemp, Bool.false_eq_true, if_false, h1, h2, if_true]

/-- a concrete kernel: 4 CPUs, the process confined to CPUs 0-1 and currently on CPU 0 -/
def kWitness : Kernel :=
  { procs := fun q => if q = 7 then
      some { nice := 0, ioprio := 0, affinity := [0], cpuset := [0, 1], rlimits := fun _ => (0, 0) } else none
    self := 1, ncpu := 4, nrOpen := 1048576, capResource := true, log := [] }

def stWitness : PState :=
  { nice := 0, ioprio := 0, affinity := [0], cpuset := [0, 1], rlimits := fun _ => (0, 0) }

theorem wf_witness : WF kWitness stWitness :=
  ⟨by decide, by decide, by decide, by decide, by decide, fun _ => ⟨by simp [stWitness], by simp [stWitness]⟩,
    by decide⟩

end Psutil.C18
