/-
  Proofs/C16Rec.lean — simulation between the record-object model (Model/C16Rec.lean) and the specification
  (Spec/C16Rec.lean) for configurations whose consumers leave the record they are handed as it was.
-/
import PsutilModel.Spec.C16Rec
namespace Psutil.C16.Rec
open RSpec

/-- no platform method changes the dict it is handed -/
def RCfg.Pure (c : RCfg) : Prop := ∀ x ∈ c.consumers, ∀ u ∈ x.uses, u.pure = true

theorem useOne_pure (r : Rec) (u : Use) (h : u.pure = true) : (useOne r u).1 = r := by
  cases u <;> simp [Use.pure] at h
  · simp only [useOne]; split <;> rfl
  · simp only [useOne]

theorem runUses_pure (us : List Use) (h : ∀ u ∈ us, u.pure = true) (r : Rec) : (runUses r us).1 = r := by
  induction us generalizing r with
  | nil => rfl
  | cons u us ih =>
    have hu := useOne_pure r u (h u (by simp))
    have ih' : ∀ r, (runUses r us).1 = r := fun r => ih (fun u hu => h u (by simp [hu])) r
    simp only [runUses]
    rcases hq : useOne r u with ⟨r1, e⟩
    rw [hq] at hu
    simp only at hu
    subst hu
    cases e with
    | error e => rfl
    | ok a =>
      simp only
      have h2 := ih' r1
      rcases hq2 : runUses r1 us with ⟨r2, e2⟩
      rw [hq2] at h2
      cases e2 <;> simpa using h2

theorem usesOf_pure (c : RCfg) (hp : c.Pure) (r : Route) : ∀ u ∈ usesOf c r, u.pure = true := by
  unfold usesOf
  cases h : c.consumers.find? (fun x => x.name == r.consumer) with
  | none => simp
  | some x => exact hp x (List.mem_of_find?_eq_some h)

theorem run_keeps (c : RCfg) (hp : c.Pure) (r : Route) (rec : Rec) : (runUses rec (usesOf c r)).1 = rec :=
  runUses_pure _ (usesOf_pure c hp r) rec

/-- the simulation relation: outside every block nothing is cached; in a block either nothing was read yet, or
    the cached dict is the parse of the frozen record and every front-end entry is the outside answer on it -/
inductive Rel (c : RCfg) : St → SSt → Prop
  | out : Rel c ⟨none, none, []⟩ ⟨0, none⟩
  | cold (n : Nat) : Rel c ⟨some [], some none, List.replicate n false ++ [true]⟩ ⟨n + 1, none⟩
  | warm (n : Nat) (d : List (Nat × Ans)) (rec : Rec) (l0 : Line) (hp : parse c.fields l0 = some rec)
      (hd : ∀ i a, d.lookup i = some a → ∃ r, c.routes[i]? = some r ∧ outside c r l0 = .ok a) :
      Rel c ⟨some d, some (some rec), List.replicate n false ++ [true]⟩ ⟨n + 1, some l0⟩

theorem rel_init (c : RCfg) : Rel c St.init SSt.init := Rel.out

theorem enter_sim (c : RCfg) {st : St} {ss : SSt} (h : Rel c st ss) : Rel c (enter st) (enterS ss) := by
  cases h with
  | out => exact Rel.cold 0
  | cold n =>
    have : Rel c ⟨some [], some none, List.replicate (n + 1) false ++ [true]⟩ ⟨n + 1 + 1, none⟩ := Rel.cold (n + 1)
    simpa [enter, enterS, List.replicate_succ] using this
  | warm n d rec l0 hp hd =>
    have : Rel c ⟨some d, some (some rec), List.replicate (n + 1) false ++ [true]⟩ ⟨n + 1 + 1, some l0⟩ :=
      Rel.warm (n + 1) d rec l0 hp hd
    simpa [enter, enterS, List.replicate_succ] using this

theorem exit_sim (c : RCfg) {st : St} {ss : SSt} (h : Rel c st ss) : Rel c (exit st) (exitS ss) := by
  cases h with
  | out => exact Rel.out
  | cold n =>
    cases n with
    | zero => exact Rel.out
    | succ k =>
      have : Rel c ⟨some [], some none, List.replicate k false ++ [true]⟩ ⟨k + 1, none⟩ := Rel.cold k
      simpa [exit, exitS, List.replicate_succ] using this
  | warm n d rec l0 hp hd =>
    cases n with
    | zero => exact Rel.out
    | succ k =>
      have : Rel c ⟨some d, some (some rec), List.replicate k false ++ [true]⟩ ⟨k + 1, some l0⟩ :=
        Rel.warm k d rec l0 hp hd
      simpa [exit, exitS, List.replicate_succ] using this

theorem call_sim (c : RCfg) (hpure : c.Pure) {st : St} {ss : SSt} (h : Rel c st ss) (l : Line) (hl : lineOK c l)
    (i : Nat) (r : Route) (hr : c.routes[i]? = some r) :
    (call c i r st l).2 = (callS c r ss l).2 ∧ Rel c (call c i r st l).1 (callS c r ss l).1 := by
  obtain ⟨rec, hrec⟩ := Option.isSome_iff_exists.mp hl
  cases h with
  | out =>
    have hp : platCall c r ⟨none, none, []⟩ l = (⟨none, none, []⟩, outside c r l) := by
      simp [platCall, outside, hrec]
    cases hm : r.memo <;> simp [call, hm, hp, callS] <;> exact Rel.out
  | cold n =>
    have hk := run_keeps c hpure r rec
    have hp : platCall c r ⟨some [], some none, List.replicate n false ++ [true]⟩ l
        = (⟨some [], some (some rec), List.replicate n false ++ [true]⟩, outside c r l) := by
      simp [platCall, outside, hrec, hk]
    have base : Rel c ⟨some [], some (some rec), List.replicate n false ++ [true]⟩ ⟨n + 1, some l⟩ :=
      Rel.warm n [] rec l hrec (by intro i a hh; simp at hh)
    cases hm : r.memo
    · simp [call, hm, hp, callS]; exact base
    · cases ho : outside c r l with
      | error e => simp [call, hm, hp, callS, ho]; exact base
      | ok a =>
        simp [call, hm, hp, callS, ho]
        refine Rel.warm n [(i, a)] rec l hrec ?_
        intro j b hh
        simp [List.lookup] at hh
        split at hh
        · rename_i heq
          have hji : j = i := by simpa using heq
          subst hji
          cases hh
          exact ⟨r, hr, ho⟩
        · cases hh
  | warm n d rec0 l0 hp0 hd =>
    have hk := run_keeps c hpure r rec0
    have ho0 : outside c r l0 = (runUses rec0 (usesOf c r)).2 := by simp [outside, hp0]
    have hp : platCall c r ⟨some d, some (some rec0), List.replicate n false ++ [true]⟩ l
        = (⟨some d, some (some rec0), List.replicate n false ++ [true]⟩, outside c r l0) := by
      simp [platCall, ho0, hk]
    have base : Rel c ⟨some d, some (some rec0), List.replicate n false ++ [true]⟩ ⟨n + 1, some l0⟩ :=
      Rel.warm n d rec0 l0 hp0 hd
    cases hm : r.memo
    · simp [call, hm, hp, callS]; exact base
    · cases hlk : d.lookup i with
      | some a =>
        obtain ⟨r', hr', ha⟩ := hd i a hlk
        rw [hr] at hr'
        cases hr'
        simp [call, hm, hlk, callS, ha]; exact base
      | none =>
        cases ho : outside c r l0 with
        | error e => simp [call, hm, hlk, hp, callS, ho]; exact base
        | ok a =>
          simp [call, hm, hlk, hp, callS, ho]
          refine Rel.warm n ((i, a) :: d) rec0 l0 hp0 ?_
          intro j b hh
          simp only [List.lookup] at hh
          split at hh
          · rename_i heq
            have hji : j = i := by simpa using heq
            subst hji
            cases hh
            exact ⟨r, hr, ho⟩
          · exact hd j b hh

/-- every history: same outputs -/
theorem outs_eq (c : RCfg) (hpure : c.Pure) (ops : List Op) :
    ∀ (st : St) (ss : SSt) (l : Line), Rel c st ss → lineOK c l → (∀ op ∈ ops, opOK c op) →
      outs c ⟨st, l⟩ ops = outsR c ⟨ss, l⟩ ops := by
  induction ops with
  | nil => intros; rfl
  | cons op ops ih =>
    intro st ss l h hl hops
    have hrest : ∀ o ∈ ops, opOK c o := fun o ho => hops o (by simp [ho])
    cases op with
    | enter =>
      simp only [outs, outsR, step, stepS]
      rw [ih _ _ l (enter_sim c h) hl hrest]
    | exit b =>
      simp only [outs, outsR, step, stepS]
      rw [ih _ _ l (exit_sim c h) hl hrest]
    | setLine l' =>
      have hl' : lineOK c l' := hops (.setLine l') (by simp)
      simp only [outs, outsR, step, stepS]
      rw [ih _ _ l' h hl' hrest]
    | call i =>
      simp only [outs, outsR, step, stepS]
      cases hr : c.routes[i]? with
      | none =>
        simp only
        rw [ih _ _ l h hl hrest]
      | some r =>
        simp only
        obtain ⟨h1, h2⟩ := call_sim c hpure h l hl i r hr
        rw [h1, ih _ _ l h2 hl hrest]

end Psutil.C16.Rec
