/-
  Proofs/C04Refine.lean — the abstraction function from model states to states of the
  shared-cache specification machine, and the simulation of one `visit` run.
-/
import PsutilModel.Proofs.C04Step
namespace Psutil.C04
open Spec

def absObj (o : PObj) : GObj := ⟨o.pid, o.ident, o.gone || o.reused⟩

def absGen (g : Gen) : SGen :=
  ⟨g.attrs, match g.st with
    | .fresh => .fresh
    | .running _ todo _ => .running (todoPids todo)
    | .done => .done⟩

def isRun (g : Gen) : Bool :=
  match g.st with
  | .running _ _ _ => true
  | _ => false

/-- the private map of the (first) suspended generator -/
def runningPmap : List Gen → Option PMap
  | [] => none
  | g :: gs =>
    match g.st with
    | .running pm _ _ => some pm
    | _ => runningPmap gs

/-- the specification state a model state stands for: the cache is the suspended generator's
    private map if there is one (it will be published when that generator ends), else `_pmap` -/
def abs (s : St) : SSt :=
  { k := s.k
    cache := (runningPmap s.gens).getD s.pmap
    flagged := s.flagged
    objs := s.objs.map absObj
    gens := s.gens.map absGen }

theorem runningPmap_none : ∀ (gens : List Gen),
    (∀ (i : Nat) (gen : Gen), gens[i]? = some gen → isRun gen = false) → runningPmap gens = none
  | [], _ => rfl
  | g :: gs, h => by
    have h0 := h 0 g (by simp)
    have ih := runningPmap_none gs (fun i gen hi => h (i + 1) gen (by simpa using hi))
    simp only [runningPmap]
    cases hst : g.st with
    | running pm t l => simp [isRun, hst] at h0
    | fresh => exact ih
    | done => exact ih

theorem runningPmap_unique : ∀ (gens : List Gen) (g : Nat) (gen : Gen) (pm : PMap) (t : List (Nat × Option Ref)) (l : List Nat),
    gens[g]? = some gen → gen.st = .running pm t l →
    (∀ (j : Nat) (gen' : Gen), j ≠ g → gens[j]? = some gen' → isRun gen' = false) →
    runningPmap gens = some pm
  | [], g, gen, pm, t, l, h, _, _ => by simp at h
  | x :: xs, 0, gen, pm, t, l, h, hst, _ => by
    simp only [List.getElem?_cons_zero, Option.some.injEq] at h
    subst h
    simp [runningPmap, hst]
  | x :: xs, g + 1, gen, pm, t, l, h, hst, ho => by
    have h0 := ho 0 x (by omega) (by simp)
    have ih := runningPmap_unique xs g gen pm t l (by simpa using h) hst
      (fun j gen' hj hg => ho (j + 1) gen' (by omega) (by simpa using hg))
    simp only [runningPmap]
    cases hx : x.st with
    | running pm' t' l' => simp [isRun, hx] at h0
    | fresh => exact ih
    | done => exact ih

theorem map_modify_absGen (gens : List Gen) (g : Nat) (st : GSt) (st' : SGSt)
    (h : ∀ x : Gen, absGen { x with st := st } = { absGen x with st := st' }) :
    (gens.modify g fun x => { x with st := st }).map absGen
      = (gens.map absGen).modify g fun x => { x with st := st' } := by
  apply List.ext_getElem?
  intro i
  simp only [List.getElem?_map, List.getElem?_modify]
  cases gens[i]? with
  | none => rfl
  | some x =>
    by_cases hgi : g = i
    · simp only [hgi, if_true, Option.map_some, Functor.map]
      rw [h]
    · simp only [hgi, if_false, Option.map_some, Functor.map]

theorem absGen_running (x : Gen) (pm : PMap) (todo : List (Nat × Option Ref)) (l : List Nat) :
    absGen { x with st := .running pm todo l } = { absGen x with st := .running (todoPids todo) } := rfl

theorem absGen_done (x : Gen) : absGen { x with st := .done } = { absGen x with st := .done } := rfl

/-- attribute kinds agree with the specification's "has to look at the process" -/
theorem any_plain_eq_touches (cfg : Cfg) (ls : List String) (h : ∀ n ∈ ls, kindOf cfg n ≠ .reuse) :
    (ls.any fun n => kindOf cfg n == .plain) = touches cfg.noAccessAttrs ls := by
  induction ls with
  | nil => rfl
  | cons n rest ih =>
    have ih' := ih (fun m hm => h m (by simp [hm]))
    have hn := h n (by simp)
    have key : (kindOf cfg n == AttrKind.plain) = !cfg.noAccessAttrs.contains n := by
      revert hn
      unfold kindOf
      cases cfg.noAccessAttrs.contains n with
      | true => intro _; rfl
      | false =>
        cases cfg.reuseAttrs.contains n with
        | true => intro hn; exact absurd rfl hn
        | false => intro _; rfl
    simp only [List.any_cons, touches] at ih' ⊢
    rw [ih', key]

/-- correspondence between a model state inside `visit` (with its private map) and a
    specification state -/
structure Corr (s : St) (pmap : PMap) (ss : SSt) : Prop where
  k : ss.k = s.k
  cache : ss.cache = pmap
  flagged : ss.flagged = s.flagged
  objs : ss.objs = s.objs.map absObj
  gens : ss.gens = s.gens.map absGen

/-- result of the simulation of one `visit` run -/
structure SimRes (g : Nat) (r : St × Out) (r' : SSt × Out) : Prop where
  out : r'.2 = r.2
  k : r'.1.k = r.1.k
  flagged : r'.1.flagged = r.1.flagged
  objs : r'.1.objs = r.1.objs.map absObj
  gens : r'.1.gens = r.1.gens.map absGen
  cacheRun : ∀ gen pm t l, r.1.gens[g]? = some gen → gen.st = .running pm t l →
      r'.1.cache = pm ∧ ∀ e ∈ t, e.2 = pm.get e.1
  cacheDone : ∀ gen, r.1.gens[g]? = some gen → gen.st = .done → r'.1.cache = r.1.pmap

theorem visit_sim (cfg : Cfg) (attrs : Attrs) (hnr : NoReuse cfg attrs) (g : Nat) (listed : List Nat) :
    ∀ (todo : List (Nat × Option Ref)) (s : St) (pmap : PMap) (ss : SSt),
      Corr s pmap ss → (∀ e ∈ todo, e.2 = pmap.get e.1) → (todoPids todo).Nodup →
      g < s.gens.length →
      SimRes g (visit cfg attrs g listed s pmap todo)
        (svisit cfg.validNames cfg.noAccessAttrs attrs g ss (todoPids todo)) := by
  intro todo
  induction todo with
  | nil =>
    intro s pmap ss hc _ _ hlt
    simp only [visit, todoPids, List.map_nil, svisit]
    have hgs : (finish s g pmap).gens[g]? = (s.gens[g]?).map fun x => { x with st := .done } := finish_get_self s g pmap
    have hsome : ∃ x, s.gens[g]? = some x := ⟨s.gens[g], List.getElem?_eq_getElem hlt⟩
    obtain ⟨x, hx⟩ := hsome
    refine ⟨rfl, ?_, ?_, ?_, ?_, ?_, ?_⟩
    · simpa [SSt.setGen, finish, St.setGen] using hc.k
    · simpa [SSt.setGen, finish, St.setGen] using hc.flagged
    · simpa [SSt.setGen, finish, St.setGen] using hc.objs
    · simp only [SSt.setGen, finish, St.setGen, hc.gens]
      exact (map_modify_absGen s.gens g .done .done absGen_done).symm
    · intro gen pm t l hg hst
      rw [hgs, hx] at hg
      simp only [Option.map_some, Option.some.injEq] at hg
      subst hg; cases hst
    · intro gen _ _
      simpa [SSt.setGen, finish, St.setGen] using hc.cache
  | cons e rest ih =>
    intro s pmap ss hc hent hnd hlt
    obtain ⟨pid, oref⟩ := e
    have horef : oref = pmap.get pid := hent (pid, oref) (by simp)
    have hnd' : pid ∉ todoPids rest ∧ (todoPids rest).Nodup := by
      simpa [todoPids] using hnd
    have hrest_ne : ∀ e ∈ rest, e.1 ≠ pid := by
      intro e he heq
      apply hnd'.1
      rw [← heq]
      exact List.mem_map.mpr ⟨e, he, rfl⟩
    rw [show todoPids ((pid, oref) :: rest) = pid :: todoPids rest from rfl]
    simp only [visit, svisit]
    -- the cached object or a fresh one
    cases hget : pmap.get pid with
    | some r =>
      rw [hget] at horef
      subst horef
      have hsc : scached ss pid = some (ss, r) := by simp [scached, hc.cache, hget]
      simp only [addProc, hsc]
      -- fill
      cases attrs with
      | none =>
        simp only [fillInfo, sfill]
        have hgs := setGen_get_self s g (.running pmap rest listed)
        refine ⟨rfl, ?_, ?_, ?_, ?_, ?_, ?_⟩
        · simpa [SSt.setGen, St.setGen] using hc.k
        · simpa [SSt.setGen, St.setGen] using hc.flagged
        · simpa [SSt.setGen, St.setGen] using hc.objs
        · simp only [SSt.setGen, St.setGen, hc.gens]
          exact (map_modify_absGen s.gens g _ _ (fun x => absGen_running x pmap rest listed)).symm
        · intro gen pm t l hg hst
          rw [hgs, List.getElem?_eq_getElem hlt] at hg
          simp only [Option.map_some, Option.some.injEq] at hg
          subst hg
          simp only [GSt.running.injEq] at hst
          obtain ⟨rfl, rfl, _⟩ := hst
          refine ⟨by simpa [SSt.setGen] using hc.cache, ?_⟩
          intro e he; exact hent e (by simp [he])
        · intro gen hg hst
          rw [hgs, List.getElem?_eq_getElem hlt] at hg
          simp only [Option.map_some, Option.some.injEq] at hg
          subst hg; cases hst
      | names l =>
        simp only [fillInfo, sfill]
        by_cases hval : l.all cfg.validNames.contains = true
        · simp only [hval, Bool.not_true, Bool.false_eq_true, if_false]
          have hnr' : ∀ n ∈ namesOf cfg l, kindOf cfg n ≠ .reuse := hnr
          rw [asDictLoop_plain cfg r pid s _ hnr', any_plain_eq_touches cfg _ hnr']
          have hks : infoKeys cfg.validNames l = namesOf cfg l := rfl
          have halive_eq : (ss.k.statStart pid).isSome = (s.k.statStart pid).isSome := by rw [hc.k]
          rw [hks, halive_eq]
          cases htch : touches cfg.noAccessAttrs (namesOf cfg l) with
          | false =>
            simp only [Bool.not_false, Bool.true_or, Bool.false_and, Bool.false_eq_true, if_false]
            have hgs := setGen_get_self s g (.running pmap rest listed)
            refine ⟨rfl, ?_, ?_, ?_, ?_, ?_, ?_⟩
            · simpa [SSt.setGen, St.setGen] using hc.k
            · simpa [SSt.setGen, St.setGen] using hc.flagged
            · simpa [SSt.setGen, St.setGen] using hc.objs
            · simp only [SSt.setGen, St.setGen, hc.gens]
              exact (map_modify_absGen s.gens g _ _ (fun x => absGen_running x pmap rest listed)).symm
            · intro gen pm t l' hg hst
              rw [hgs, List.getElem?_eq_getElem hlt] at hg
              simp only [Option.map_some, Option.some.injEq] at hg
              subst hg
              simp only [GSt.running.injEq] at hst
              obtain ⟨rfl, rfl, _⟩ := hst
              refine ⟨by simpa [SSt.setGen] using hc.cache, ?_⟩
              intro e he; exact hent e (by simp [he])
            · intro gen hg hst
              rw [hgs, List.getElem?_eq_getElem hlt] at hg
              simp only [Option.map_some, Option.some.injEq] at hg
              subst hg; cases hst
          | true =>
            cases halive : (s.k.statStart pid).isSome with
            | true =>
              simp only [Bool.not_true, Bool.false_or, Bool.and_false, Bool.false_eq_true, if_false]
              have hgs := setGen_get_self s g (.running pmap rest listed)
              refine ⟨rfl, ?_, ?_, ?_, ?_, ?_, ?_⟩
              · simpa [SSt.setGen, St.setGen] using hc.k
              · simpa [SSt.setGen, St.setGen] using hc.flagged
              · simpa [SSt.setGen, St.setGen] using hc.objs
              · simp only [SSt.setGen, St.setGen, hc.gens]
                exact (map_modify_absGen s.gens g _ _ (fun x => absGen_running x pmap rest listed)).symm
              · intro gen pm t l' hg hst
                rw [hgs, List.getElem?_eq_getElem hlt] at hg
                simp only [Option.map_some, Option.some.injEq] at hg
                subst hg
                simp only [GSt.running.injEq] at hst
                obtain ⟨rfl, rfl, _⟩ := hst
                refine ⟨by simpa [SSt.setGen] using hc.cache, ?_⟩
                intro e he; exact hent e (by simp [he])
              · intro gen hg hst
                rw [hgs, List.getElem?_eq_getElem hlt] at hg
                simp only [Option.map_some, Option.some.injEq] at hg
                subst hg; cases hst
            | false =>
              simp only [Bool.not_true, Bool.false_or, Bool.not_false, Bool.and_true, if_true]
              apply ih s (pmap.remove pid) { ss with cache := ss.cache.remove pid }
                ⟨hc.k, by simp [hc.cache], hc.flagged, hc.objs, hc.gens⟩ _ hnd'.2 hlt
              intro e he
              rw [PMap.get_remove_ne _ _ _ (hrest_ne e he)]
              exact hent e (by simp [he])
        · have hval' : l.all cfg.validNames.contains = false := by simpa using hval
          simp only [hval', Bool.not_false, if_true]
          have hgs := finish_get_self s g pmap
          refine ⟨rfl, ?_, ?_, ?_, ?_, ?_, ?_⟩
          · simpa [SSt.setGen, finish, St.setGen] using hc.k
          · simpa [SSt.setGen, finish, St.setGen] using hc.flagged
          · simpa [SSt.setGen, finish, St.setGen] using hc.objs
          · simp only [SSt.setGen, finish, St.setGen, hc.gens]
            exact (map_modify_absGen s.gens g .done .done absGen_done).symm
          · intro gen pm t l' hg hst
            rw [hgs, List.getElem?_eq_getElem hlt] at hg
            simp only [Option.map_some, Option.some.injEq] at hg
            subst hg; cases hst
          · intro gen _ _
            simpa [SSt.setGen, finish, St.setGen] using hc.cache
    | none =>
      rw [hget] at horef
      subst horef
      cases hstart : s.k.statStart pid with
      | none =>
        have hsc : scached ss pid = none := by simp [scached, hc.cache, hget, hc.k, hstart]
        simp only [addProc, hstart, hsc]
        apply ih s (pmap.remove pid) { ss with cache := ss.cache.remove pid }
          ⟨hc.k, by simp [hc.cache], hc.flagged, hc.objs, hc.gens⟩ _ hnd'.2 hlt
        intro e he
        rw [PMap.get_remove_ne _ _ _ (hrest_ne e he)]
        exact hent e (by simp [he])
      | some id =>
        have hlen : ss.objs.length = s.objs.length := by rw [hc.objs]; simp
        have hsc : scached ss pid = some (SSt.mk ss.k (ss.cache.set pid s.objs.length) ss.flagged
            (ss.objs ++ [GObj.mk pid id false]) ss.gens, s.objs.length) := by
          simp [scached, hc.cache, hget, hc.k, hstart, hlen]
        simp only [addProc, hstart, hsc]
        -- abbreviations
        have hc1 : Corr (St.mk s.k s.pmap s.flagged s.lowest (s.objs ++ [PObj.mk pid id false false]) s.gens)
            (pmap.set pid s.objs.length)
            (SSt.mk ss.k (ss.cache.set pid s.objs.length) ss.flagged (ss.objs ++ [GObj.mk pid id false]) ss.gens) :=
          ⟨hc.k, by simp [hc.cache], hc.flagged, by simp [hc.objs, absObj], hc.gens⟩
        have hent1 : ∀ e ∈ rest, e.2 = (pmap.set pid s.objs.length).get e.1 := by
          intro e he
          rw [PMap.get_set_ne _ _ _ _ (hrest_ne e he)]
          exact hent e (by simp [he])
        generalize hs1 : St.mk s.k s.pmap s.flagged s.lowest (s.objs ++ [PObj.mk pid id false false]) s.gens = s1 at hc1
        generalize hss1 : SSt.mk ss.k (ss.cache.set pid s.objs.length) ss.flagged (ss.objs ++ [GObj.mk pid id false]) ss.gens = ss1 at hc1
        generalize hpm1 : pmap.set pid s.objs.length = pm1 at hc1 hent1
        generalize s.objs.length = r
        have hlt1 : g < s1.gens.length := by rw [← hs1]; exact hlt
        have hk1 : s1.k = s.k := by rw [← hs1]
        cases attrs with
        | none =>
          simp only [fillInfo, sfill]
          have hgs := setGen_get_self s1 g (.running pm1 rest listed)
          refine ⟨rfl, ?_, ?_, ?_, ?_, ?_, ?_⟩
          · simpa [SSt.setGen, St.setGen] using hc1.k
          · simpa [SSt.setGen, St.setGen] using hc1.flagged
          · simpa [SSt.setGen, St.setGen] using hc1.objs
          · simp only [SSt.setGen, St.setGen, hc1.gens]
            exact (map_modify_absGen s1.gens g _ _ (fun x => absGen_running x pm1 rest listed)).symm
          · intro gen pm t l hg hst
            rw [hgs, List.getElem?_eq_getElem hlt1] at hg
            simp only [Option.map_some, Option.some.injEq] at hg
            subst hg
            simp only [GSt.running.injEq] at hst
            obtain ⟨rfl, rfl, _⟩ := hst
            exact ⟨by simpa [SSt.setGen] using hc1.cache, hent1⟩
          · intro gen hg hst
            rw [hgs, List.getElem?_eq_getElem hlt1] at hg
            simp only [Option.map_some, Option.some.injEq] at hg
            subst hg; cases hst
        | names l =>
          simp only [fillInfo, sfill]
          by_cases hval : l.all cfg.validNames.contains = true
          · simp only [hval, Bool.not_true, Bool.false_eq_true, if_false]
            have hnr' : ∀ n ∈ namesOf cfg l, kindOf cfg n ≠ .reuse := hnr
            rw [asDictLoop_plain cfg r pid s1 _ hnr', any_plain_eq_touches cfg _ hnr']
            have hks : infoKeys cfg.validNames l = namesOf cfg l := rfl
            have halive_eq : (ss.k.statStart pid).isSome = true := by rw [hc.k, hstart]; rfl
            rw [hks, halive_eq, hk1, hstart]
            simp only [Option.isSome_some, Bool.or_true, Bool.not_true, Bool.and_false, Bool.false_eq_true, if_false]
            have hgs := setGen_get_self s1 g (.running pm1 rest listed)
            refine ⟨rfl, ?_, ?_, ?_, ?_, ?_, ?_⟩
            · simpa [SSt.setGen, St.setGen] using hc1.k
            · simpa [SSt.setGen, St.setGen] using hc1.flagged
            · simpa [SSt.setGen, St.setGen] using hc1.objs
            · simp only [SSt.setGen, St.setGen, hc1.gens]
              exact (map_modify_absGen s1.gens g _ _ (fun x => absGen_running x pm1 rest listed)).symm
            · intro gen pm t l' hg hst
              rw [hgs, List.getElem?_eq_getElem hlt1] at hg
              simp only [Option.map_some, Option.some.injEq] at hg
              subst hg
              simp only [GSt.running.injEq] at hst
              obtain ⟨rfl, rfl, _⟩ := hst
              exact ⟨by simpa [SSt.setGen] using hc1.cache, hent1⟩
            · intro gen hg hst
              rw [hgs, List.getElem?_eq_getElem hlt1] at hg
              simp only [Option.map_some, Option.some.injEq] at hg
              subst hg; cases hst
          · have hval' : l.all cfg.validNames.contains = false := by simpa using hval
            simp only [hval', Bool.not_false, if_true]
            have hgs := finish_get_self s1 g pm1
            refine ⟨rfl, ?_, ?_, ?_, ?_, ?_, ?_⟩
            · simpa [SSt.setGen, finish, St.setGen] using hc1.k
            · simpa [SSt.setGen, finish, St.setGen] using hc1.flagged
            · simpa [SSt.setGen, finish, St.setGen] using hc1.objs
            · simp only [SSt.setGen, finish, St.setGen, hc1.gens]
              exact (map_modify_absGen s1.gens g .done .done absGen_done).symm
            · intro gen pm t l' hg hst
              rw [hgs, List.getElem?_eq_getElem hlt1] at hg
              simp only [Option.map_some, Option.some.injEq] at hg
              subst hg; cases hst
            · intro gen _ _
              simpa [SSt.setGen, finish, St.setGen] using hc1.cache

end Psutil.C04
