/- Proofs/C06Ctx.lean — the UNANCHORED `ctxt_switches:\t(\d+)` pattern of num_ctx_switches():
   its first two matches in a kernel-rendered status file are the two real lines, because no
   process name (≤ 15 bytes, escaped as the kernel does) can hold `ctxt_switches:\t<digit>`. -/
import PsutilModel.Proofs.C06Status
namespace Psutil.C06
open Spec

/-- `ctxt_switches:` -/
def ctxK : Bytes := ctxWord ++ [58]

theorem ctxK_cons : ctxK = 99 :: [116, 120, 116, 95, 115, 119, 105, 116, 99, 104, 101, 115, 58] := by decide

/-! ### unanchored search -/

theorem findAllGo_unanch_flag (key : Bytes) (n : Nat) (b : Bool) (s : Bytes) :
    findAllGo false key n 0 b s = findAllGo false key n 0 true s := by
  cases s <;> simp [findAllGo]

theorem findAllGo_unanch_skip (key : Bytes) (n : Nat) (A R : Bytes) (b : Bool) :
    findAllGo false key n A.length b (A ++ R) = findAllGo false key n 0 true R := by
  induction A generalizing b with
  | nil => simpa using findAllGo_unanch_flag key n b R
  | cons a A ih => simpa [findAllGo] using ih (a == 10)

theorem findAllGo_unanch_skip_line (key : Bytes) (n : Nat) (l rest : Bytes)
    (hno : ∀ l1 l2, l = l1 ++ l2 → matchAt key n (l2 ++ 10 :: rest) = none) (b : Bool) :
    findAllGo false key n 0 b (l ++ 10 :: rest) = findAllGo false key n 0 true rest := by
  induction l generalizing b with
  | nil =>
    have := hno [] [] rfl
    simp only [List.nil_append] at this ⊢
    simp [findAllGo, this]
  | cons c cs ih =>
    have h0 := hno [] (c :: cs) rfl
    simp only [List.cons_append] at h0 ⊢
    simp only [findAllGo, Bool.false_and, Bool.false_eq_true, if_false, h0]
    exact ih (fun l1 l2 h => hno (c :: l1) l2 (by simp [h])) _

theorem matchAt_one_shape {key s : Bytes} {x : List Bytes × Bytes} (h : matchAt key 1 s = some x) :
    ∃ d s', isDigit d = true ∧ s = key ++ 9 :: d :: s' := by
  unfold matchAt at h
  cases hd : dropPrefix? key s with
  | none => simp [hd] at h
  | some t =>
    have hs := dropPrefix?_eq_some hd
    simp only [hd] at h
    cases t with
    | nil => simp [matchGroups] at h
    | cons t0 u =>
      by_cases h9 : t0 = 9
      · subst h9
        cases u with
        | nil => simp [matchGroups, spanDigits] at h
        | cons d u' =>
          by_cases hdg : isDigit d = true
          · exact ⟨d, u', hdg, hs⟩
          · have : isDigit d = false := by simpa using hdg
            simp [matchGroups, spanDigits, this] at h
      · have : matchGroups 1 (t0 :: u) = none := by
          unfold matchGroups
          split
          · next heq => simp at heq
          · next heq => exact absurd (List.cons.inj heq).1 h9
          · rfl
        simp [this] at h

theorem prefix_before_nl (W : Bytes) (hW : 10 ∉ W) (A R S : Bytes) (h : A ++ 10 :: R = W ++ S) :
    ∃ A', A = W ++ A' := by
  induction W generalizing A with
  | nil => exact ⟨A, rfl⟩
  | cons w W ih =>
    cases A with
    | nil =>
      simp only [List.nil_append, List.cons_append, List.cons.injEq] at h
      exact absurd h.1.symm (fun e => hW (by simp [e]))
    | cons a A =>
      simp only [List.cons_append, List.cons.injEq] at h
      obtain ⟨A', hA'⟩ := ih (fun m => hW (by simp [m])) A h.2
      exact ⟨A', by rw [h.1, hA']; rfl⟩

theorem noHit_matchAt (l rest : Bytes) (h : NoCtxHit l) :
    ∀ l1 l2, l = l1 ++ l2 → matchAt ctxK 1 (l2 ++ 10 :: rest) = none := by
  intro l1 l2 hl
  cases hm : matchAt ctxK 1 (l2 ++ 10 :: rest) with
  | none => rfl
  | some x =>
    exfalso
    obtain ⟨d, s', hd, hs⟩ := matchAt_one_shape hm
    have hW : 10 ∉ ctxWord ++ [58, 9, d] := by
      intro hm10
      have : d ≠ 10 := by
        simp only [isDigit, Bool.and_eq_true, decide_eq_true_eq] at hd; omega
      simp [ctxWord] at hm10
      omega
    have hs' : l2 ++ 10 :: rest = (ctxWord ++ [58, 9, d]) ++ s' := by
      rw [hs]; simp [ctxK]
    obtain ⟨A', hA'⟩ := prefix_before_nl _ hW l2 rest s' hs'
    exact h d hd ⟨l1, A', by rw [hl, hA']; simp⟩

theorem skip_lines_unanch (ls : List (Bytes × Bytes)) (rest : Bytes)
    (h : ∀ kv ∈ ls, NoCtxHit (kv.1 ++ [58, 9] ++ kv.2)) :
    findAllGo false ctxK 1 0 true (renderLines ls ++ rest) = findAllGo false ctxK 1 0 true rest := by
  induction ls with
  | nil => simp [renderLines]
  | cons kv ls ih =>
    rw [renderLines_cons, List.append_assoc, statusLine_shape]
    rw [findAllGo_unanch_skip_line ctxK 1 _ _ (noHit_matchAt _ _ (h kv (by simp)))]
    exact ih (fun x hx => h x (by simp [hx]))

/-! ### the two real lines -/

theorem skip_bytes (p s : Bytes) (hp : 99 ∉ p) (b : Bool) :
    findAllGo false ctxK 1 0 b (p ++ s) = findAllGo false ctxK 1 0 true s := by
  induction p generalizing b with
  | nil => simpa using findAllGo_unanch_flag ctxK 1 b s
  | cons x xs ih =>
    have hx : (99 : Nat) ≠ x := fun e => hp (by simp [e])
    have hm : matchAt ctxK 1 (x :: (xs ++ s)) = none := by
      simp [matchAt, ctxK_cons, dropPrefix?, hx]
    simp only [List.cons_append, findAllGo, Bool.false_and, Bool.false_eq_true, if_false, hm]
    exact ih (fun m => hp (by simp [m])) _

theorem hit_line (p : Bytes) (hp : 99 ∉ p) (v : Nat) (R : Bytes) :
    findAllGo false ctxK 1 0 true (p ++ ctxK ++ 9 :: (renderDec v ++ 10 :: R))
      = [renderDec v] :: findAllGo false ctxK 1 0 true R := by
  rw [List.append_assoc, skip_bytes p _ hp]
  have hm : matchAt ctxK 1 (ctxK ++ 9 :: (renderDec v ++ 10 :: R)) = some ([renderDec v], 10 :: R) := by
    unfold matchAt
    rw [dropPrefix?_append]
    dsimp only
    rw [matchGroups_succ_dec 0 v _ (by intro c h; simp at h; subst h; decide)]
    simp [matchGroups]
  generalize hks : [116, 120, 116, 95, 115, 119, 105, 116, 99, 104, 101, 115, 58] = ks at *
  have hK : ctxK = 99 :: ks := by rw [← hks]; exact ctxK_cons
  rw [hK] at hm ⊢
  simp only [List.cons_append] at hm ⊢
  rw [← hK] at hm ⊢
  simp only [findAllGo, Bool.false_and, Bool.false_eq_true, if_false, hm]
  congr 1
  have hlen : (ks ++ 9 :: (renderDec v ++ 10 :: R)).length - (10 :: R).length
      = (ks ++ 9 :: renderDec v).length := by
    simp only [List.length_append, List.length_cons]; omega
  have hsplit : ks ++ 9 :: (renderDec v ++ 10 :: R) = (ks ++ 9 :: renderDec v) ++ 10 :: R := by simp
  rw [hlen, hsplit, findAllGo_unanch_skip]
  exact skip_bytes [10] R (by decide) true

theorem ctx_two_lines (v nv : Nat) :
    findAllGo false ctxK 1 0 true
        (renderLines [(keyVol, renderDec v), (keyNonvol, renderDec nv)])
      = [[renderDec v], [renderDec nv]] := by
  have h1 : renderLines [(keyVol, renderDec v), (keyNonvol, renderDec nv)]
      = [118, 111, 108, 117, 110, 116, 97, 114, 121, 95] ++ ctxK ++ 9 :: (renderDec v ++ 10 ::
          ([110, 111, 110, 118, 111, 108, 117, 110, 116, 97, 114, 121, 95] ++ ctxK ++ 9 :: (renderDec nv ++ 10 :: []))) := by
    simp [renderLines, statusLine, keyVol, keyNonvol, ctxK]
  rw [h1, hit_line _ (by decide), hit_line _ (by decide)]
  simp [findAllGo]

/-! ### no process name can hold the pattern -/

theorem escName_nl (cs : Bytes) : escName (10 :: cs) = 92 :: 110 :: escName cs := by simp [escName]
theorem escName_bs (cs : Bytes) : escName (92 :: cs) = 92 :: 92 :: escName cs := by simp [escName]
theorem escName_other (y : Nat) (cs : Bytes) (h1 : y ≠ 10) (h2 : y ≠ 92) :
    escName (y :: cs) = y :: escName cs := by
  rw [escName]
  · exact h1
  · exact h2

/-- a backslash-free prefix of an escaped name is a prefix of the name itself -/
theorem esc_prefix (W : Bytes) (hW : 92 ∉ W) (cs B : Bytes) (h : escName cs = W ++ B) :
    ∃ B', cs = W ++ B' := by
  induction W generalizing cs with
  | nil => exact ⟨cs, rfl⟩
  | cons x W ih =>
    have hx : x ≠ 92 := fun e => hW (by simp [e])
    cases cs with
    | nil => simp [escName] at h
    | cons y ys =>
      by_cases h10 : y = 10
      · subst h10; rw [escName_nl] at h
        simp only [List.cons_append, List.cons.injEq] at h
        exact absurd h.1.symm hx
      · by_cases h92 : y = 92
        · subst h92; rw [escName_bs] at h
          simp only [List.cons_append, List.cons.injEq] at h
          exact absurd h.1.symm hx
        · rw [escName_other y ys h10 h92] at h
          simp only [List.cons_append, List.cons.injEq] at h
          obtain ⟨B', hB'⟩ := ih (fun m => hW (by simp [m])) ys h.2
          exact ⟨B', by rw [h.1, hB']; rfl⟩

/-- a backslash-free window of an escaped name that does not start with `n` is a window of the name -/
theorem esc_window (W : Bytes) (hW : 92 ∉ W) (hne : W ≠ []) (hhead : W.head? ≠ some 110)
    (cs A B : Bytes) (h : escName cs = A ++ W ++ B) : ∃ A' B', cs = A' ++ W ++ B' := by
  obtain ⟨w, W', rfl⟩ : ∃ w W', W = w :: W' := by
    cases W with
    | nil => exact absurd rfl hne
    | cons w W' => exact ⟨w, W', rfl⟩
  have hw92 : w ≠ 92 := fun e => hW (by simp [e])
  have hw110 : w ≠ 110 := fun e => hhead (by simp [e])
  induction cs generalizing A with
  | nil =>
    simp [escName] at h
  | cons y ys ih =>
    by_cases h10 : y = 10
    · subst h10; rw [escName_nl] at h
      match A, h with
      | [], h => simp at h; exact absurd h.1.symm hw92
      | [a], h => simp at h; exact absurd h.2.1.symm hw110
      | a :: a2 :: A'', h =>
        simp only [List.cons_append, List.cons.injEq] at h
        obtain ⟨A', B', hc⟩ := ih A'' (by simpa using h.2.2)
        exact ⟨10 :: A', B', by rw [hc]; simp⟩
    · by_cases h92 : y = 92
      · subst h92; rw [escName_bs] at h
        match A, h with
        | [], h => simp at h; exact absurd h.1.symm hw92
        | [a], h => simp at h; exact absurd h.2.1.symm hw92
        | a :: a2 :: A'', h =>
          simp only [List.cons_append, List.cons.injEq] at h
          obtain ⟨A', B', hc⟩ := ih A'' (by simpa using h.2.2)
          exact ⟨92 :: A', B', by rw [hc]; simp⟩
      · rw [escName_other y ys h10 h92] at h
        match A, h with
        | [], h =>
          simp only [List.nil_append, List.cons_append, List.cons.injEq] at h
          obtain ⟨B', hB'⟩ := esc_prefix W' (fun m => hW (by simp [m])) ys B h.2
          exact ⟨[], B', by rw [h.1, hB']; simp⟩
        | a :: A'', h =>
          simp only [List.cons_append, List.cons.injEq] at h
          obtain ⟨A', B', hc⟩ := ih A'' (by simpa using h.2)
          exact ⟨y :: A', B', by rw [hc]; simp⟩

/-- Every name of at most 15 bytes, escaped as the kernel does and printed after `Name:\t`,
    is free of `ctxt_switches:\t<digit>` (the pattern is 16 bytes long and has no backslash). -/
theorem name_line_noHit (comm : Bytes) (hlen : comm.length ≤ 15) :
    NoCtxHit (keyName ++ [58, 9] ++ escName comm) := by
  intro d hd hinf
  have hd' : 48 ≤ d ∧ d ≤ 57 := by
    simpa [isDigit] using hd
  have hin : (ctxWord ++ [58, 9, d]) <:+: escName comm := by
    have : keyName ++ [58, 9] ++ escName comm = 78 :: 97 :: 109 :: 101 :: 58 :: 9 :: escName comm := by
      simp [keyName]
    rw [this] at hinf
    simp only [ctxWord, List.cons_append, List.nil_append] at hinf ⊢
    simp only [List.infix_cons_iff, List.cons_prefix_cons] at hinf
    rcases hinf with h | h | h | h | h | h | h
    all_goals first
      | exact h
      | (exfalso; omega)
  obtain ⟨A, B, hAB⟩ := hin
  have hW92 : 92 ∉ ctxWord ++ [58, 9, d] := by
    intro hm; simp [ctxWord] at hm; omega
  obtain ⟨A', B', hc⟩ := esc_window (ctxWord ++ [58, 9, d]) hW92 (by simp [ctxWord])
    (by simp [ctxWord]) comm A B hAB.symm
  have : comm.length = A'.length + 16 + B'.length := by
    rw [hc]; simp [ctxWord]; omega
  omega

/-- a line without the letter `x` cannot hold `ctxt_switches` -/
theorem noHit_of_no_x (l : Bytes) (h : 120 ∉ l) : NoCtxHit l := by
  intro d _ hinf
  exact h (hinf.subset (by simp [ctxWord]))

theorem idLine_noHit (k : Bytes) (hk : 120 ∉ k) (v : Nat × Nat × Nat × Nat) :
    NoCtxHit ((idLine k v).1 ++ [58, 9] ++ (idLine k v).2) := by
  apply noHit_of_no_x
  intro hm
  simp only [idLine, List.mem_append, List.mem_cons, List.not_mem_nil, or_false] at hm
  rcases hm with (h | h | h) | h
  · exact hk h
  · omega
  · omega
  · rcases tabbed_chars _ 120 h with h | h
    · omega
    · simp [isDigit] at h

theorem numLine_noHit (k : Bytes) (hk : 120 ∉ k) (v : Nat) : NoCtxHit (k ++ [58, 9] ++ renderDec v) := by
  apply noHit_of_no_x
  intro hm
  simp only [List.mem_append, List.mem_cons, List.not_mem_nil, or_false] at hm
  rcases hm with (h | h | h) | h
  · exact hk h
  · omega
  · omega
  · have := renderDec_isDigit v 120 h
    simp [isDigit] at this

theorem numCtxSwitches_extract (c : Cfg) (hg : c.Good) (r : StatusRec) (hctx : r.WFCtx) :
    numCtxSwitches c (renderStatus r) = .ok (Spec.numCtxSwitches r) := by
  obtain ⟨hlen, hother⟩ := hctx
  unfold numCtxSwitches
  rw [readStatus_good c hg, hg.ctxAnchored, hg.ctxKey, hg.ctxSep, findAllS_tabOne]
  have hshape : renderStatus r
      = renderLines ((keyName, escName r.comm) :: r.pre ++ [idLine keyUid r.uid, idLine keyGid r.gid]
          ++ r.mid1 ++ [(keyThreads, renderDec r.threads)] ++ r.mid2)
        ++ renderLines [(keyVol, renderDec r.vol), (keyNonvol, renderDec r.nonvol)] := by
    simp [renderStatus, statusLines, renderLines]
  have hfind : findAll false (ctxWord ++ [58]) 1 (renderStatus r)
      = [[renderDec r.vol], [renderDec r.nonvol]] := by
    unfold findAll
    rw [hshape]
    show findAllGo false ctxK 1 0 true _ = _
    rw [skip_lines_unanch _ _ (by
      intro kv hkv
      simp only [List.cons_append, List.mem_cons, List.mem_append, List.not_mem_nil, or_false] at hkv
      rcases hkv with h | ((((h | h | h) | h) | h) | h)
      · subst h; exact name_line_noHit r.comm hlen
      · exact hother kv (by simp [h])
      · subst h; exact idLine_noHit keyUid (by decide) r.uid
      · subst h; exact idLine_noHit keyGid (by decide) r.gid
      · exact hother kv (by simp [h])
      · subst h; exact numLine_noHit keyThreads (by decide) r.threads
      · exact hother kv (by simp [h]))]
    exact ctx_two_lines r.vol r.nonvol
  rw [hfind]
  simp [decOf_renderDec, bind, Except.bind, pure, Except.pure, Spec.numCtxSwitches]

end Psutil.C06
