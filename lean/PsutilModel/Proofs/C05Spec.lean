/-
  Proofs/C05Spec.lean — the executable specification functions the driver prints
  (`childList`, `descSat`/`descList`) against the relations `Child` / `Desc`.
-/
import PsutilModel.Proofs.C05
namespace Psutil.C05
open Spec

theorem childOk_iff {look : Look} {ct c : Nat} :
    childOk look ct c = true ↔ ∃ s, look c = some s ∧ ct ≤ s := by
  unfold childOk
  cases look c <;> simp

theorem mem_childList {links : PpidMap} {look : Look} {ct root c : Nat} :
    c ∈ childList links look ct root ↔ Child links look ct root c ∧ c ≠ root := by
  unfold childList Child
  rw [List.mem_map]
  constructor
  · rintro ⟨e, he, rfl⟩
    obtain ⟨hm, hp⟩ := List.mem_filter.1 he
    simp only [Bool.and_eq_true, beq_iff_eq, bne_iff_ne, ne_eq] at hp
    obtain ⟨⟨h2, h1⟩, hok⟩ := hp
    refine ⟨⟨?_, childOk_iff.1 hok⟩, h1⟩
    rw [← h2]; exact hm
  · rintro ⟨⟨hm, hok⟩, hne⟩
    refine ⟨(c, root), List.mem_filter.2 ⟨hm, ?_⟩, rfl⟩
    simp [hne, childOk_iff.2 hok]

theorem childList_nodup {links : PpidMap} (hu : UniquePids links) (look : Look) (ct root : Nat) :
    (childList links look ct root).Nodup :=
  List.Nodup.sublist (List.Sublist.map _ List.filter_sublist) hu

/-- one fold step of the saturation keeps "everything collected is a descendant, once" -/
theorem satStep_inv {links : PpidMap} {look : Look} {ct root : Nat} :
    ∀ (L : List (Nat × Nat)) (S : List Nat), (∀ e ∈ L, e ∈ links) →
      (S.Nodup ∧ ∀ x ∈ S, Desc links look ct root x) →
      let S' := L.foldl (fun acc e =>
        if (e.2 == root || acc.contains e.2) && childOk look ct e.1 && !acc.contains e.1
        then acc ++ [e.1] else acc) S
      S'.Nodup ∧ ∀ x ∈ S', Desc links look ct root x := by
  intro L
  induction L with
  | nil => intro S _ h; exact h
  | cons e es ih =>
    intro S hL hS
    simp only [List.foldl_cons]
    apply ih _ (fun e' he' => hL e' (List.mem_cons_of_mem _ he'))
    split
    · rename_i hc
      simp only [Bool.and_eq_true, Bool.or_eq_true, beq_iff_eq, Bool.not_eq_true',
        List.contains_eq_mem, decide_eq_true_eq, decide_eq_false_iff_not] at hc
      obtain ⟨⟨hpar, hok⟩, hnew⟩ := hc
      have hmem : (e.1, e.2) ∈ links := hL e (by simp)
      have hchild : ∀ p, e.2 = p → Child links look ct p e.1 :=
        fun p hp => ⟨hp ▸ hmem, childOk_iff.1 hok⟩
      have hdesc : Desc links look ct root e.1 := by
        rcases hpar with h | h
        · exact Desc.base (hchild root h)
        · exact Desc.step (hS.2 _ h) (hchild _ rfl)
      constructor
      · rw [List.nodup_append]
        refine ⟨hS.1, by simp, ?_⟩
        intro a ha b hb hab
        rw [List.mem_singleton] at hb
        subst hb; subst hab
        exact hnew ha
      · intro x hx
        rcases List.mem_append.1 hx with hx' | hx'
        · exact hS.2 x hx'
        · rw [List.mem_singleton] at hx'; subst hx'; exact hdesc
    · exact hS

theorem sat_inv {links : PpidMap} {look : Look} {ct root : Nat} : ∀ (n : Nat) (S : List Nat),
    (S.Nodup ∧ ∀ x ∈ S, Desc links look ct root x) →
    (sat links look ct root n S).Nodup ∧ ∀ x ∈ sat links look ct root n S, Desc links look ct root x := by
  intro n
  induction n with
  | zero => intro S h; exact h
  | succ n ih =>
    intro S h
    unfold sat
    exact ih _ (satStep_inv links S (fun _ h => h) h)

theorem closed_complete {links : PpidMap} {look : Look} {ct root : Nat} {S : List Nat}
    (hc : closed links look ct root S = true) {c : Nat} (h : Desc links look ct root c) : c ∈ S := by
  unfold closed at hc
  rw [List.all_eq_true] at hc
  have key : ∀ p c, (p = root ∨ p ∈ S) → Child links look ct p c → c ∈ S := by
    intro p c hp hch
    have := hc (c, p) hch.1
    simp only [Bool.or_eq_true, Bool.not_eq_true', Bool.and_eq_false_iff, Bool.or_eq_false_iff,
      beq_eq_false_iff_ne, ne_eq, List.contains_eq_mem, decide_eq_false_iff_not,
      decide_eq_true_eq] at this
    rcases this with h | h
    · rcases h with ⟨h1, h2⟩ | h
      · rcases hp with hp | hp
        · exact absurd hp h1
        · exact absurd hp h2
      · rw [childOk_iff.2 hch.2] at h; cases h
    · exact h
  induction h with
  | base hch => exact key root _ (Or.inl rfl) hch
  | step _ hch ih => exact key _ _ (Or.inr ih) hch

/-- when the saturation is closed (a flag the driver prints and the harness requires), the
    printed `descList` is exactly the set of descendants minus the caller -/
theorem descList_exact {links : PpidMap} {look : Look} {ct root : Nat}
    (hc : closed links look ct root (descSat links look ct root) = true) :
    IsSetOf (descList links look ct root) (fun c => Desc links look ct root c ∧ c ≠ root) := by
  have hinv := sat_inv (links := links) (look := look) (ct := ct) (root := root) links.length []
    ⟨List.nodup_nil, fun x hx => by cases hx⟩
  unfold descList
  constructor
  · exact List.Nodup.sublist List.filter_sublist hinv.1
  · intro c
    rw [List.mem_filter]
    constructor
    · rintro ⟨hm, hne⟩
      exact ⟨hinv.2 c hm, by simpa using hne⟩
    · rintro ⟨hd, hne⟩
      exact ⟨closed_complete hc hd, by simpa using hne⟩

end Psutil.C05
