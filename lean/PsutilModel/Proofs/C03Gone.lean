/-
  Proofs/C03Gone.lean — "once the process is gone every later query raises NoSuchProcess".
  `PGone c p k0`: process `p` is gone at every access index from `k0` on and nothing is refused from there on.
  Every lemma is stated for a call that STARTS at an access counter `s.k ≥ k0` (the model only consults the
  plan at indices ≥ the current counter, and the counter never decreases: each lemma also returns `s.k ≤ s'.k`),
  so the process may have vanished at any earlier point — also in the middle of an earlier call.
-/
import PsutilModel.Proofs.C03Front
namespace Psutil.C03
open Spec

def PGone (c : Ctx) (p k0 : Nat) : Prop := (∀ k, k0 ≤ k → pst c k p = .gone) ∧ (∀ k, k0 ≤ k → c.deny k = none)

theorem pgone_mono {c : Ctx} {p k0 k1 : Nat} (h : PGone c p k0) (hk : k0 ≤ k1) : PGone c p k1 :=
  ⟨fun k hk' => h.1 k (Nat.le_trans hk hk'), fun k hk' => h.2 k (Nat.le_trans hk hk')⟩

theorem pgone_of_goneFromStart {c : Ctx} (h : GoneFromStart c) : PGone c c.w.target 0 := by
  refine ⟨fun k _ => ?_, fun k _ => h.2 k⟩
  unfold pst pstOf World.state
  rw [h.1 k]
  cases c.w.info c.w.target <;> simp

/-- fails at its first access with a bare ENOENT/ESRCH, cache untouched -/
def GoneFails {α : Type} (p : Nat) (m : M α) : Prop :=
  ∀ c s k0, Adm c → PGone c p k0 → k0 ≤ s.k → s.cache.active = false →
    ∃ e s', m c s = (.error e, s') ∧ (e = .fnf ∨ e = .ple) ∧ s'.cache = s.cache ∧ s.k ≤ s'.k

/-- raises NoSuchProcess(p), cache untouched -/
def GoneNSP {α : Type} (p : Nat) (m : M α) : Prop :=
  ∀ c s k0, Adm c → PGone c p k0 → k0 ≤ s.k → s.cache.active = false →
    ∃ s', m c s = (.error (.nsp p), s') ∧ s'.cache = s.cache ∧ s.k ≤ s'.k

theorem access_fails {α : Type} {p : Nat} (a : OsAcc) (tbl : World → WS → Except Errno α)
    (h : ∀ w st, pstOf w st p = .gone → ∃ en, tbl w st = .error en ∧ (en = .ENOENT ∨ en = .ESRCH)) :
    GoneFails p (access a tbl) := by
  intro c s k0 ha hg hk _
  obtain ⟨res, s', hr, hk', hc, hspec⟩ := access_spec a tbl c s ha
  obtain ⟨en, hen, hcase⟩ := h c.w (c.ws s.k) (hg.1 s.k hk)
  rw [hr]
  cases res with
  | ok v => rw [hen] at hspec; cases hspec.1
  | error e =>
    refine ⟨e, s', rfl, ?_, hc, by omega⟩
    rcases hspec with ⟨_, _, hd⟩ | ⟨en', ht, he, _⟩
    · exact absurd (hg.2 s.k hk) hd
    · rw [hen] at ht
      injection ht with ht
      subst ht; subst he
      rcases hcase with h | h <;> subst h <;> simp [Errno.toExc]

theorem bind_fails {α β : Type} {p : Nat} {m : M α} (f : α → M β) (h : GoneFails p m) : GoneFails p (m >>= f) := by
  intro c s k0 ha hg hk hc
  obtain ⟨e, s', hr, he, hc', hk'⟩ := h c s k0 ha hg hk hc
  exact ⟨e, s', by simp only [bind_eq, M.bind, hr], he, hc', hk'⟩

theorem bind_nsp {α β : Type} {p : Nat} {m : M α} (f : α → M β) (h : GoneNSP p m) : GoneNSP p (m >>= f) := by
  intro c s k0 ha hg hk hc
  obtain ⟨s', hr, hc', hk'⟩ := h c s k0 ha hg hk hc
  exact ⟨s', by simp only [bind_eq, M.bind, hr], hc', hk'⟩

theorem tblListdir_gone {w : World} {st : WS} {p : Nat} {d : PDir} (hg : pstOf w st p = .gone) :
    tblListdir w st (.dir p d) = .error .ENOENT := by
  unfold tblListdir; unfold pstOf at hg
  cases d <;> simp only <;>
  cases hs : w.state st p with
  | none => simp
  | some y =>
    obtain ⟨s', i⟩ := y
    simp [hs] at hg; subst hg; simp

theorem tblReadlink_gone {w : World} {st : WS} {p : Nat} {l : PLink} (hg : pstOf w st p = .gone) :
    tblReadlink w st (.link p l) = .error .ENOENT := by
  unfold tblReadlink; unfold pstOf at hg
  cases hs : w.state st p with
  | none => simp [hs]
  | some y =>
    obtain ⟨s', i⟩ := y
    simp [hs] at hg; subst hg; simp [hs]

theorem tblNative_gone {w : World} {st : WS} {p : Nat} (hg : pstOf w st p = .gone) :
    tblNative w st p = .error .ESRCH := by
  unfold tblNative; unfold pstOf at hg
  cases hs : w.state st p with
  | none => simp
  | some y =>
    obtain ⟨s', i⟩ := y
    simp [hs] at hg; subst hg; simp

theorem readFile_fails (p : Nat) (f : PFile) : GoneFails p (readFile (.file p f)) := by
  unfold readFile
  exact bind_fails _ (access_fails _ _ (fun _ _ hg => ⟨_, tblOpen_gone hg, Or.inl rfl⟩))

theorem listdir_fails (p : Nat) (d : PDir) : GoneFails p (accListdir (.dir p d)) :=
  access_fails _ _ (fun _ _ hg => ⟨_, tblListdir_gone hg, Or.inl rfl⟩)

theorem native_fails (p : Nat) (n : Native) : GoneFails p (accNative n p) :=
  access_fails _ _ (fun _ _ hg => ⟨_, tblNative_gone hg, Or.inr rfl⟩)

/-- both probes of the handler say "gone" -/
theorem isZombie_gone (r : Host) (p : Nat) (c : Ctx) (s : St) (k0 : Nat) (ha : Adm c) (hg : PGone c p k0)
    (hk : k0 ≤ s.k) :
    ∃ s', isZombie (goodCfg r) p c s = (.ok false, s') ∧ s'.cache = s.cache ∧ s.k ≤ s'.k := by
  obtain ⟨r1, s1, h1, hk1, hc1, hr1⟩ :=
    access_spec (.fs .openF (.file p .stat)) (fun w st => tblOpen w st (.file p .stat)) c s ha
  unfold isZombie readFile accOpen accRead tryCatch
  simp only [bind_eq, pure_eq, M.bind, M.pure, h1]
  cases r1 with
  | ok u => exact absurd (hg.1 s.k hk) (tblOpen_stat_ok hr1.1)
  | error e =>
    simp only
    have hc : catches (goodCfg r).isZombieCatch e = true := by
      rcases hr1 with ⟨he, _⟩ | ⟨en, _, he, _⟩
      · subst he; rfl
      · subst he; exact catches_os en
    simp only [hc, if_true]
    exact ⟨s1, rfl, hc1, by omega⟩

theorem raiseIfZombie_gone (r : Host) (p : Nat) (c : Ctx) (s : St) (k0 : Nat) (ha : Adm c) (hg : PGone c p k0)
    (hk : k0 ≤ s.k) :
    ∃ s', raiseIfZombie (goodCfg r) p c s = (.ok (), s') ∧ s'.cache = s.cache ∧ s.k ≤ s'.k := by
  obtain ⟨s', h, hc, hk'⟩ := isZombie_gone r p c s k0 ha hg hk
  unfold raiseIfZombie
  simp only [bind_eq, pure_eq, M.bind, h]
  exact ⟨s', rfl, hc, hk'⟩

/-- `wrap_exceptions` turns the bare ENOENT/ESRCH of a gone process into NoSuchProcess(p) -/
theorem wrap_gone (r : Host) (p : Nat) {α : Type} {body : M α} (hb : GoneFails p body) :
    GoneNSP p (wrapExceptions (goodCfg r) p body) := by
  intro c s k0 ha hg hk hcache
  obtain ⟨e, s1, hr, he, hc1, hk1⟩ := hb c s k0 ha hg hk hcache
  unfold wrapExceptions tryCatch
  rw [hr]
  simp only
  obtain ⟨s2, h2, hc2, hk2⟩ := raiseIfZombie_gone r p c s1 k0 ha hg (by omega)
  rcases he with he | he <;> subst he
  · have hfind : (goodCfg r).wrapClauses.find? (fun cl => PyExc.fnf.bases.contains cl.1)
        = some ("FileNotFoundError",
            ["_raise_if_zombie", "if not exists(stat): raise NoSuchProcess", "raise"]) := by
      simp [goodCfg, PyExc.bases]
    simp only [hfind, wrapSteps_fnf, bind_eq, M.bind, h2]
    obtain ⟨s3, h3, hc3, hk3⟩ := pathExists_gone p (.file p .stat) rfl c s2 ha (hg.1 _ (by omega))
    simp only [h3, throw]
    exact ⟨s3, rfl, by rw [hc3, hc2, hc1], by omega⟩
  · have hfind : (goodCfg r).wrapClauses.find? (fun cl => PyExc.ple.bases.contains cl.1)
        = some ("ProcessLookupError", ["_raise_if_zombie", "raise NoSuchProcess"]) := by
      simp [goodCfg, PyExc.bases]
    simp only [hfind, wrapSteps_ple, bind_eq, M.bind, h2, throw]
    exact ⟨s2, rfl, by rw [hc2, hc1], by omega⟩

/-- an outer `wrap_exceptions` lets NoSuchProcess(p) through -/
theorem wrap_pass (r : Host) (p : Nat) {α : Type} {body : M α} (hb : GoneNSP p body) :
    GoneNSP p (wrapExceptions (goodCfg r) p body) := by
  intro c s k0 ha hg hk hcache
  obtain ⟨s1, hr, hc1, hk1⟩ := hb c s k0 ha hg hk hcache
  unfold wrapExceptions tryCatch
  rw [hr]
  have : (goodCfg r).wrapClauses.find? (fun cl => (PyExc.nsp p).bases.contains cl.1) = none := by
    simp [goodCfg, PyExc.bases]
  simp only [this]
  exact ⟨s1, rfl, hc1, hk1⟩

theorem W_gone (r : Host) (name : String) (p : Nat) {α : Type} {body : M α}
    (hw : (goodCfg r).wrapped.contains name = true) (hb : GoneFails p body) :
    GoneNSP p (W (goodCfg r) name p body) := by
  unfold W; rw [if_neg (by simp [goodCfg]), if_pos hw]; exact wrap_gone r p hb

theorem W_pass (r : Host) (name : String) (p : Nat) {α : Type} {body : M α}
    (hw : (goodCfg r).wrapped.contains name = true) (hb : GoneNSP p body) :
    GoneNSP p (W (goodCfg r) name p body) := by
  unfold W; rw [if_neg (by simp [goodCfg]), if_pos hw]; exact wrap_pass r p hb

/-- outside `oneshot()` the memoizing decorator is transparent -/
theorem memoIf_fails {α : Type} {p q : Nat} (b : Bool) (get : Cache → Option α) (set : α → Cache → Cache)
    {body : M α} (hb : GoneFails p body) : GoneFails p (memoIf b get set q body) := by
  unfold memoIf
  cases b
  · exact hb
  · intro c s k0 ha hg hk hc
    unfold memo
    simp only [bind_eq, M.bind, getCache, hc, Bool.false_and, Bool.false_eq_true, ↓reduceIte]
    exact hb c s k0 ha hg hk hc

theorem memoIf_nsp {α : Type} {p q : Nat} (b : Bool) (get : Cache → Option α) (set : α → Cache → Cache)
    {body : M α} (hb : GoneNSP p body) : GoneNSP p (memoIf b get set q body) := by
  unfold memoIf
  cases b
  · exact hb
  · intro c s k0 ha hg hk hc
    unfold memo
    simp only [bind_eq, M.bind, getCache, hc, Bool.false_and, Bool.false_eq_true, ↓reduceIte]
    exact hb c s k0 ha hg hk hc

/-- a front-end handler that does not catch NoSuchProcess -/
theorem tryCatch_nsp {α : Type} {p : Nat} {m : M α} {h : PyExc → Option (M α)}
    (hm : GoneNSP p m) (hh : h (.nsp p) = none) : GoneNSP p (tryCatch m h) := by
  intro c s k0 ha hg hk hc
  obtain ⟨s1, hr, hc1, hk1⟩ := hm c s k0 ha hg hk hc
  unfold tryCatch
  rw [hr]
  simp only [hh]
  exact ⟨s1, rfl, hc1, hk1⟩

variable (r : Host) (p : Nat)

/-! ### platform layer -/

theorem parseStatFile_gone : GoneNSP p (Plat.parseStatFile (goodCfg r) p) := by
  unfold Plat.parseStatFile
  exact W_gone r _ p (by rfl) (memoIf_fails _ _ _ (bind_fails _ (readFile_fails p .stat)))

theorem readStatusFile_gone : GoneNSP p (Plat.readStatusFile (goodCfg r) p) := by
  unfold Plat.readStatusFile
  exact W_gone r _ p (by rfl) (memoIf_fails _ _ _ (readFile_fails p .status))

theorem readSmapsFile_gone : GoneNSP p (Plat.readSmapsFile (goodCfg r) p) := by
  unfold Plat.readSmapsFile
  exact W_gone r _ p (by rfl) (memoIf_fails _ _ _ (readFile_fails p .smaps))

theorem name_gone : GoneNSP p (Plat.name (goodCfg r) p) := by
  unfold Plat.name; exact W_pass r _ p (by rfl) (bind_nsp _ (parseStatFile_gone r p))
theorem terminal_gone : GoneNSP p (Plat.terminal (goodCfg r) p) := by
  unfold Plat.terminal; exact W_pass r _ p (by rfl) (bind_nsp _ (parseStatFile_gone r p))
theorem cpuTimes_gone : GoneNSP p (Plat.cpuTimes (goodCfg r) p) := by
  unfold Plat.cpuTimes; exact W_pass r _ p (by rfl) (bind_nsp _ (parseStatFile_gone r p))
theorem cpuNum_gone : GoneNSP p (Plat.cpuNum (goodCfg r) p) := by
  unfold Plat.cpuNum; exact W_pass r _ p (by rfl) (bind_nsp _ (parseStatFile_gone r p))
theorem createTime_gone : GoneNSP p (Plat.createTime (goodCfg r) p) := by
  unfold Plat.createTime; exact W_pass r _ p (by rfl) (bind_nsp _ (parseStatFile_gone r p))
theorem status_gone : GoneNSP p (Plat.status (goodCfg r) p) := by
  unfold Plat.status; exact W_pass r _ p (by rfl) (bind_nsp _ (parseStatFile_gone r p))
theorem ppid_gone : GoneNSP p (Plat.ppid (goodCfg r) p) := by
  unfold Plat.ppid; exact W_pass r _ p (by rfl) (bind_nsp _ (parseStatFile_gone r p))
theorem numCtxSwitches_gone : GoneNSP p (Plat.numCtxSwitches (goodCfg r) p) := by
  unfold Plat.numCtxSwitches; exact W_pass r _ p (by rfl) (bind_nsp _ (readStatusFile_gone r p))
theorem numThreads_gone : GoneNSP p (Plat.numThreads (goodCfg r) p) := by
  unfold Plat.numThreads; exact W_pass r _ p (by rfl) (bind_nsp _ (readStatusFile_gone r p))
theorem uids_gone : GoneNSP p (Plat.uids (goodCfg r) p) := by
  unfold Plat.uids; exact W_pass r _ p (by rfl) (bind_nsp _ (readStatusFile_gone r p))
theorem gids_gone : GoneNSP p (Plat.gids (goodCfg r) p) := by
  unfold Plat.gids; exact W_pass r _ p (by rfl) (bind_nsp _ (readStatusFile_gone r p))
theorem cmdline_gone : GoneNSP p (Plat.cmdline (goodCfg r) p) := by
  unfold Plat.cmdline; exact W_gone r _ p (by rfl) (bind_fails _ (readFile_fails p .cmdline))
theorem environ_gone : GoneNSP p (Plat.environ (goodCfg r) p) := by
  unfold Plat.environ; exact W_gone r _ p (by rfl) (bind_fails _ (readFile_fails p .environ))
theorem ioCounters_gone : GoneNSP p (Plat.ioCounters (goodCfg r) p) := by
  unfold Plat.ioCounters; exact W_gone r _ p (by rfl) (bind_fails _ (readFile_fails p .io))
theorem memoryInfo_gone : GoneNSP p (Plat.memoryInfo (goodCfg r) p) := by
  unfold Plat.memoryInfo; exact W_gone r _ p (by rfl) (bind_fails _ (readFile_fails p .statm))
theorem memoryMaps_gone : GoneNSP p (Plat.memoryMaps (goodCfg r) p) := by
  unfold Plat.memoryMaps; exact W_pass r _ p (by rfl) (bind_nsp _ (readSmapsFile_gone r p))
theorem parseSmaps_gone : GoneNSP p (Plat.parseSmaps (goodCfg r) p) := by
  unfold Plat.parseSmaps; exact W_pass r _ p (by rfl) (bind_nsp _ (readSmapsFile_gone r p))
theorem threads_gone : GoneNSP p (Plat.threads (goodCfg r) p) := by
  unfold Plat.threads; exact W_gone r _ p (by rfl) (bind_fails _ (listdir_fails p .task))
theorem openFiles_gone : GoneNSP p (Plat.openFiles (goodCfg r) p) := by
  unfold Plat.openFiles; exact W_gone r _ p (by rfl) (bind_fails _ (listdir_fails p .fd))
theorem numFds_gone : GoneNSP p (Plat.numFds (goodCfg r) p) := by
  unfold Plat.numFds; exact W_gone r _ p (by rfl) (bind_fails _ (listdir_fails p .fd))
theorem netConnections_gone : GoneNSP p (Plat.netConnections (goodCfg r) p) := by
  unfold Plat.netConnections Plat.retrieve
  exact W_gone r _ p (by rfl) (bind_fails _ (bind_fails _ (listdir_fails p .fd)))
theorem niceGet_gone : GoneNSP p (Plat.niceGet (goodCfg r) p) := by
  unfold Plat.niceGet; exact W_gone r _ p (by rfl) (native_fails p _)
theorem cpuAffinityGet_gone : GoneNSP p (Plat.cpuAffinityGet (goodCfg r) p) := by
  unfold Plat.cpuAffinityGet; exact W_gone r _ p (by rfl) (native_fails p _)
theorem ioniceGet_gone : GoneNSP p (Plat.ioniceGet (goodCfg r) p) := by
  unfold Plat.ioniceGet; exact W_gone r _ p (by rfl) (native_fails p _)

/-! ### links, smaps_rollup fallback, rlimit -/

theorem pathLexists_gone (c : Ctx) (s : St) (k0 : Nat) (ha : Adm c) (hg : PGone c p k0) (hk : k0 ≤ s.k) :
    ∃ s', pathLexists (.pidDir p) c s = (.ok false, s') ∧ s'.cache = s.cache ∧ s.k ≤ s'.k := by
  obtain ⟨r1, s1, h1, hk1, hc1, hr1⟩ :=
    access_spec (.fs .lstat (.pidDir p)) (fun w st => tblStat w st (.pidDir p)) c s ha
  unfold pathLexists accLstat tryCatch
  simp only [bind_eq, pure_eq, M.bind, M.pure, h1]
  cases r1 with
  | ok u =>
    have := tblStat_gone (w := c.w) (st := c.ws s.k) (path := .pidDir p) rfl (hg.1 s.k hk)
    rw [this] at hr1; cases hr1.1
  | error e =>
    simp only
    have hcat : catches ["OSError", "ValueError"] e = true := by
      rcases hr1 with ⟨he, _⟩ | ⟨en, _, he, _⟩
      · subst he; rfl
      · subst he; exact catches_os2 en
    simp only [hcat, if_true]
    exact ⟨s1, rfl, hc1, by omega⟩

theorem readlinkM_fails (l : PLink) : GoneFails p (readlinkM (goodCfg r) p (.link p l)) := by
  intro c s k0 ha hg hk hcache
  obtain ⟨r1, s1, h1, hk1, hc1, hr1⟩ :=
    access_spec (.fs .readlink (.link p l)) (fun w st => tblReadlink w st (.link p l)) c s ha
  unfold readlinkM accReadlink tryCatch
  simp only [bind_eq, pure_eq, M.bind, M.pure, h1]
  have hgone := tblReadlink_gone (w := c.w) (st := c.ws s.k) (l := l) (hg.1 s.k hk)
  cases r1 with
  | ok t => rw [hgone] at hr1; cases hr1.1
  | error e =>
    simp only
    rcases hr1 with ⟨_, _, hd⟩ | ⟨en, ht, he, _⟩
    · exact absurd (hg.2 s.k hk) hd
    · rw [hgone] at ht
      injection ht with ht
      subst ht; subst he
      have : catches (goodCfg r).readlinkCatch Errno.ENOENT.toExc = true := by rfl
      simp only [this, if_true]
      obtain ⟨s2, h2, hc2, hk2⟩ := pathLexists_gone p c s1 k0 ha hg (by omega)
      simp only [M.bind, h2, Bool.false_eq_true, ↓reduceIte, throw]
      exact ⟨_, s2, rfl, Or.inl rfl, by rw [hc2, hc1], by omega⟩

theorem exe_gone : GoneNSP p (Plat.exe (goodCfg r) p) := by
  unfold Plat.exe; exact W_gone r _ p (by rfl) (readlinkM_fails r p .exe)
theorem cwd_gone : GoneNSP p (Plat.cwd (goodCfg r) p) := by
  unfold Plat.cwd; exact W_gone r _ p (by rfl) (readlinkM_fails r p .cwd)

/-- `try: m except (ENOENT/ESRCH classes): m'` where m fails and the fallback raises NoSuchProcess -/
theorem tryCatch_fallback {α : Type} {m m' : M α} {h : PyExc → Option (M α)}
    (hm : GoneFails p m) (hh : h .fnf = some m' ∧ h .ple = some m') (hm' : GoneNSP p m') :
    GoneNSP p (tryCatch m h) := by
  intro c s k0 ha hg hk hc
  obtain ⟨e, s1, hr, he, hc1, hk1⟩ := hm c s k0 ha hg hk hc
  unfold tryCatch
  rw [hr]
  have hhe : h e = some m' := by rcases he with he | he <;> subst he <;> simp [hh.1, hh.2]
  simp only [hhe]
  obtain ⟨s2, hr2, hc2, hk2⟩ := hm' c s1 k0 ha hg (by omega) (by rw [hc1]; exact hc)
  exact ⟨s2, hr2, by rw [hc2, hc1], by omega⟩

theorem memoryFullInfo_gone : GoneNSP p (Plat.memoryFullInfo (goodCfg r) p) := by
  unfold Plat.memoryFullInfo
  refine W_pass r _ p (by rfl) ?_
  obtain ⟨ro, le⟩ := r
  cases ro
  · show GoneNSP p (Plat.parseSmaps (goodCfg ⟨false, le⟩) p >>= fun _ => Plat.memoryInfo (goodCfg ⟨false, le⟩) p)
    exact bind_nsp _ (parseSmaps_gone ⟨false, le⟩ p)
  · show GoneNSP p
      (tryCatch (Plat.parseSmapsRollup (goodCfg ⟨true, le⟩) p)
          (fun e => if catches (goodCfg ⟨true, le⟩).fullInfoCatch e then some (Plat.parseSmaps (goodCfg ⟨true, le⟩) p) else none)
        >>= fun _ => Plat.memoryInfo (goodCfg ⟨true, le⟩) p)
    refine bind_nsp _ (tryCatch_fallback p ?_ ⟨by rfl, by rfl⟩ (parseSmaps_gone ⟨true, le⟩ p))
    unfold Plat.parseSmapsRollup W
    have : (goodCfg ⟨true, le⟩).wrapped.contains "_parse_smaps_rollup" = false := by rfl
    simp only [this, Bool.false_eq_true, ↓reduceIte]
    exact bind_fails _ (readFile_fails p .smapsRollup)

theorem rlimit_gone (hp : p ≠ 0) : GoneNSP p (Plat.rlimit (goodCfg r) p) := by
  unfold Plat.rlimit
  refine W_gone r _ p (by rfl) ?_
  have hp0 : (p == 0) = false := by simp [hp]
  simp only [hp0, Bool.false_eq_true, ↓reduceIte]
  intro c s k0 ha hg hk hc
  obtain ⟨e, s1, hr, he, hc1, hk1⟩ := native_fails p .prlimit c s k0 ha hg hk hc
  unfold tryCatch
  rw [hr]
  rcases he with he | he <;> subst he
  · have : catches ["OSError"] PyExc.fnf = true := by rfl
    simp only [this, ↓reduceIte]
    exact ⟨_, s1, rfl, Or.inl rfl, hc1, hk1⟩
  · have : catches ["OSError"] PyExc.ple = true := by rfl
    simp only [this, ↓reduceIte]
    exact ⟨_, s1, rfl, Or.inr rfl, hc1, hk1⟩

/-! ### front end -/

theorem fresh_nsp {α : Type} {m : M α} (h : GoneNSP p m) : GoneNSP p (fresh m) := by
  intro c s k0 ha hg hk hc
  obtain ⟨s1, hr, _, hk1⟩ := h c { s with cache := {} } k0 ha hg hk rfl
  unfold fresh
  rw [hr]
  exact ⟨_, rfl, rfl, hk1⟩

/-- returns normally, cache untouched -/
def GoneRet {α : Type} (p : Nat) (m : M α) : Prop :=
  ∀ c s k0, Adm c → PGone c p k0 → k0 ≤ s.k → s.cache.active = false →
    ∃ a s', m c s = (.ok a, s') ∧ s'.cache = s.cache ∧ s.k ≤ s'.k

theorem bind_ret_nsp {α β : Type} {m : M α} {f : α → M β} (hm : GoneRet p m) (hf : ∀ a, GoneNSP p (f a)) :
    GoneNSP p (m >>= f) := by
  intro c s k0 ha hg hk hc
  obtain ⟨a, s1, hr, hc1, hk1⟩ := hm c s k0 ha hg hk hc
  obtain ⟨s2, hr2, hc2, hk2⟩ := hf a c s1 k0 ha hg (by omega) (by rw [hc1]; exact hc)
  exact ⟨s2, by simp only [bind_eq, M.bind, hr, hr2], by rw [hc2, hc1], by omega⟩

theorem mkProcess_gone : GoneNSP p (Fe.mkProcess (goodCfg r) p) := by
  intro c s k0 ha hg hk hc
  obtain ⟨s1, hr, hc1, hk1⟩ := bind_nsp (fun ct => (pure ⟨p, some ct⟩ : M Obj)) (fresh_nsp p (createTime_gone r p)) c s k0 ha hg hk hc
  unfold Fe.mkProcess tryCatch
  rw [hr]
  have : Fe.clauseOf (goodCfg r).initClauses (.nsp p) = some "raise NoSuchProcess" := by
    simp [Fe.clauseOf, goodCfg, catches, PyExc.bases]
  simp only [this, throw]
  exact ⟨s1, rfl, hc1, hk1⟩

/-- is_running() on a gone process: False, and `_pid_reused` stays False -/
theorem isRunning_gone (o : Obj) :
    ∀ c s k0, Adm c → PGone c o.pid k0 → k0 ≤ s.k → s.cache.active = false →
      ∃ s', Fe.isRunning (goodCfg r) o c s = (.ok (false, false), s') ∧ s'.cache = s.cache ∧ s.k ≤ s'.k := by
  intro c s k0 ha hg hk hc
  obtain ⟨s1, hr, hc1, hk1⟩ := bind_nsp (fun o' => (pure (some (some o')) : M (Option (Option Obj))))
    (mkProcess_gone r o.pid) c s k0 ha hg hk hc
  unfold Fe.isRunning
  simp only [bind_eq, M.bind, tryCatch]
  simp only [bind_eq, M.bind] at hr
  rw [hr]
  have : Fe.clauseOf (goodCfg r).runningClauses (.nsp o.pid) = some "return False" := by
    simp [Fe.clauseOf, goodCfg, catches, PyExc.bases]
  simp only [this, pure_eq, M.pure]
  exact ⟨s1, rfl, hc1, hk1⟩

/-- `_raise_if_pid_reused` on a gone process: is_running() answers False and sets `_gone`, and
    the `_gone` test raises NoSuchProcess(pid) -/
theorem raiseIfPidReused_gone (o : Obj) : GoneNSP o.pid (Fe.raiseIfPidReused (goodCfg r) o) := by
  intro c s k0 ha hg hk hc
  obtain ⟨s1, hr, hc1, hk1⟩ := isRunning_gone r o c s k0 ha hg hk hc
  unfold Fe.raiseIfPidReused
  simp only [bind_eq, M.bind, hr]
  have hgd : (goodCfg r).goneGuard = true := rfl
  simp only [hgd, Bool.not_false, Bool.and_false, Bool.and_self, Bool.false_eq_true, ↓reduceIte, throw]
  exact ⟨s1, rfl, hc1, hk1⟩

theorem fe_ppid_gone (o : Obj) : GoneNSP o.pid (Fe.ppid (goodCfg r) o) := by
  unfold Fe.ppid
  exact memoIf_nsp _ _ _ (bind_nsp _ (raiseIfPidReused_gone r o))

/-- children() of a gone process raises NoSuchProcess (through the `_gone` test) -/
theorem children_gone (o : Obj) : GoneNSP o.pid (Fe.children (goodCfg r) o) := by
  unfold Fe.children
  exact bind_nsp _ (raiseIfPidReused_gone r o)

theorem fe_name_gone (o : Obj) : GoneNSP o.pid (Fe.name (goodCfg r) o) := by
  unfold Fe.name; exact bind_nsp _ (name_gone r o.pid)

theorem fe_exe_gone (o : Obj) : GoneNSP o.pid (Fe.exe (goodCfg r) o) := by
  unfold Fe.exe; exact tryCatch_nsp (bind_nsp _ (exe_gone r o.pid)) (by rfl)

theorem fe_status_gone (o : Obj) : GoneNSP o.pid (Fe.status (goodCfg r) o) := by
  unfold Fe.status; exact tryCatch_nsp (bind_nsp _ (status_gone r o.pid)) (by rfl)

theorem fe_cpuTimes_gone (o : Obj) : GoneNSP o.pid (Fe.cpuTimes (goodCfg r) o) := by
  unfold Fe.cpuTimes Fe.feMemoB; exact memoIf_nsp _ _ _ (cpuTimes_gone r o.pid)
theorem fe_memoryInfo_gone (o : Obj) : GoneNSP o.pid (Fe.memoryInfo (goodCfg r) o) := by
  unfold Fe.memoryInfo Fe.feMemoB; exact memoIf_nsp _ _ _ (memoryInfo_gone r o.pid)
theorem fe_uids_gone (o : Obj) : GoneNSP o.pid (Fe.uids (goodCfg r) o) := by
  unfold Fe.uids Fe.feMemoB; exact memoIf_nsp _ _ _ (uids_gone r o.pid)

/-! ### per public method (generated text) -/

/-- the method is modelled and, on a gone process, raises NoSuchProcess(pid) -/
def GoneOK (o : Obj) (nm : String) : Prop := ∃ m, Fe.method (goodCfg r) o nm = some m ∧ GoneNSP o.pid m

/-- the queries `C03_gone_is_NSP` covers: every modelled public query except the documented
    exemptions of `Spec.goneExempt` (pid, create_time, is_running) and parent() / parents() (answer None / [] for the lowest pid) -/
def goneCovered : List String :=
  ["children", "ppid", "name", "exe", "cmdline", "status", "username", "cwd", "nice", "uids", "gids", "terminal", "num_fds", "io_counters", "ionice", "cpu_affinity", "cpu_num", "environ", "num_ctx_switches", "num_threads", "threads", "cpu_times", "cpu_percent", "memory_info", "memory_full_info", "memory_percent", "memory_maps", "open_files", "net_connections", "children_recursive", "connections"]

theorem gone_children (o : Obj) : GoneOK r o "children" := ⟨_, rfl, children_gone r o⟩
theorem gone_ppid (o : Obj) : GoneOK r o "ppid" := ⟨_, rfl, bind_nsp _ (fe_ppid_gone r o)⟩
theorem gone_name (o : Obj) : GoneOK r o "name" := ⟨_, rfl, fe_name_gone r o⟩
theorem gone_exe (o : Obj) : GoneOK r o "exe" := ⟨_, rfl, fe_exe_gone r o⟩
theorem gone_cmdline (o : Obj) : GoneOK r o "cmdline" := ⟨_, rfl, bind_nsp _ (cmdline_gone r o.pid)⟩
theorem gone_status (o : Obj) : GoneOK r o "status" := ⟨_, rfl, fe_status_gone r o⟩
theorem gone_username (o : Obj) : GoneOK r o "username" := ⟨_, rfl, bind_nsp _ (fe_uids_gone r o)⟩
theorem gone_cwd (o : Obj) : GoneOK r o "cwd" := ⟨_, rfl, bind_nsp _ (cwd_gone r o.pid)⟩
theorem gone_nice (o : Obj) : GoneOK r o "nice" := ⟨_, rfl, bind_nsp _ (niceGet_gone r o.pid)⟩
theorem gone_uids (o : Obj) : GoneOK r o "uids" := ⟨_, rfl, bind_nsp _ (fe_uids_gone r o)⟩
theorem gone_gids (o : Obj) : GoneOK r o "gids" := ⟨_, rfl, bind_nsp _ (gids_gone r o.pid)⟩
theorem gone_terminal (o : Obj) : GoneOK r o "terminal" := ⟨_, rfl, bind_nsp _ (terminal_gone r o.pid)⟩
theorem gone_num_fds (o : Obj) : GoneOK r o "num_fds" := ⟨_, rfl, bind_nsp _ (numFds_gone r o.pid)⟩
theorem gone_io_counters (o : Obj) : GoneOK r o "io_counters" := ⟨_, rfl, bind_nsp _ (ioCounters_gone r o.pid)⟩
theorem gone_ionice (o : Obj) : GoneOK r o "ionice" := ⟨_, rfl, bind_nsp _ (ioniceGet_gone r o.pid)⟩
theorem gone_cpu_affinity (o : Obj) : GoneOK r o "cpu_affinity" := ⟨_, rfl, bind_nsp _ (cpuAffinityGet_gone r o.pid)⟩
theorem gone_cpu_num (o : Obj) : GoneOK r o "cpu_num" := ⟨_, rfl, bind_nsp _ (cpuNum_gone r o.pid)⟩
theorem gone_environ (o : Obj) : GoneOK r o "environ" := ⟨_, rfl, bind_nsp _ (environ_gone r o.pid)⟩
theorem gone_num_ctx_switches (o : Obj) : GoneOK r o "num_ctx_switches" := ⟨_, rfl, bind_nsp _ (numCtxSwitches_gone r o.pid)⟩
theorem gone_num_threads (o : Obj) : GoneOK r o "num_threads" := ⟨_, rfl, bind_nsp _ (numThreads_gone r o.pid)⟩
theorem gone_threads (o : Obj) : GoneOK r o "threads" := ⟨_, rfl, bind_nsp _ (threads_gone r o.pid)⟩
theorem gone_cpu_times (o : Obj) : GoneOK r o "cpu_times" := ⟨_, rfl, bind_nsp _ (fe_cpuTimes_gone r o)⟩
theorem gone_cpu_percent (o : Obj) : GoneOK r o "cpu_percent" := ⟨_, rfl, bind_nsp _ (cpuTimes_gone r o.pid)⟩
theorem gone_memory_info (o : Obj) : GoneOK r o "memory_info" := ⟨_, rfl, bind_nsp _ (fe_memoryInfo_gone r o)⟩
theorem gone_memory_full_info (o : Obj) : GoneOK r o "memory_full_info" := ⟨_, rfl, bind_nsp _ (memoryFullInfo_gone r o.pid)⟩
theorem gone_memory_percent (o : Obj) : GoneOK r o "memory_percent" := ⟨_, rfl, bind_nsp _ (fe_memoryInfo_gone r o)⟩
theorem gone_memory_maps (o : Obj) : GoneOK r o "memory_maps" := ⟨_, rfl, bind_nsp _ (memoryMaps_gone r o.pid)⟩
theorem gone_open_files (o : Obj) : GoneOK r o "open_files" := ⟨_, rfl, bind_nsp _ (openFiles_gone r o.pid)⟩
theorem gone_net_connections (o : Obj) : GoneOK r o "net_connections" := ⟨_, rfl, bind_nsp _ (netConnections_gone r o.pid)⟩

theorem gone_children_recursive (o : Obj) : GoneOK r o "children_recursive" :=
  ⟨_, rfl, by
    show GoneNSP o.pid (Fe.childrenRecFuel (goodCfg r) o none)
    unfold Fe.childrenRecFuel
    exact bind_nsp _ (raiseIfPidReused_gone r o)⟩
theorem gone_connections (o : Obj) : GoneOK r o "connections" := ⟨_, rfl, bind_nsp _ (netConnections_gone r o.pid)⟩

theorem gone_all (o : Obj) : ∀ nm ∈ goneCovered, GoneOK r o nm :=
  show ∀ nm ∈ ["children", "ppid", "name", "exe", "cmdline", "status", "username", "cwd", "nice", "uids", "gids", "terminal", "num_fds", "io_counters", "ionice", "cpu_affinity", "cpu_num", "environ", "num_ctx_switches", "num_threads", "threads", "cpu_times", "cpu_percent", "memory_info", "memory_full_info", "memory_percent", "memory_maps", "open_files", "net_connections", "children_recursive", "connections"], GoneOK r o nm from
  List.forall_mem_cons.2 ⟨gone_children r o,
    List.forall_mem_cons.2 ⟨gone_ppid r o,
    List.forall_mem_cons.2 ⟨gone_name r o,
    List.forall_mem_cons.2 ⟨gone_exe r o,
    List.forall_mem_cons.2 ⟨gone_cmdline r o,
    List.forall_mem_cons.2 ⟨gone_status r o,
    List.forall_mem_cons.2 ⟨gone_username r o,
    List.forall_mem_cons.2 ⟨gone_cwd r o,
    List.forall_mem_cons.2 ⟨gone_nice r o,
    List.forall_mem_cons.2 ⟨gone_uids r o,
    List.forall_mem_cons.2 ⟨gone_gids r o,
    List.forall_mem_cons.2 ⟨gone_terminal r o,
    List.forall_mem_cons.2 ⟨gone_num_fds r o,
    List.forall_mem_cons.2 ⟨gone_io_counters r o,
    List.forall_mem_cons.2 ⟨gone_ionice r o,
    List.forall_mem_cons.2 ⟨gone_cpu_affinity r o,
    List.forall_mem_cons.2 ⟨gone_cpu_num r o,
    List.forall_mem_cons.2 ⟨gone_environ r o,
    List.forall_mem_cons.2 ⟨gone_num_ctx_switches r o,
    List.forall_mem_cons.2 ⟨gone_num_threads r o,
    List.forall_mem_cons.2 ⟨gone_threads r o,
    List.forall_mem_cons.2 ⟨gone_cpu_times r o,
    List.forall_mem_cons.2 ⟨gone_cpu_percent r o,
    List.forall_mem_cons.2 ⟨gone_memory_info r o,
    List.forall_mem_cons.2 ⟨gone_memory_full_info r o,
    List.forall_mem_cons.2 ⟨gone_memory_percent r o,
    List.forall_mem_cons.2 ⟨gone_memory_maps r o,
    List.forall_mem_cons.2 ⟨gone_open_files r o,
    List.forall_mem_cons.2 ⟨gone_net_connections r o,
    List.forall_mem_cons.2 ⟨gone_children_recursive r o,
    List.forall_mem_cons.2 ⟨gone_connections r o,
    (fun _ h => nomatch h)⟩⟩⟩⟩⟩⟩⟩⟩⟩⟩⟩⟩⟩⟩⟩⟩⟩⟩⟩⟩⟩⟩⟩⟩⟩⟩⟩⟩⟩⟩⟩

end Psutil.C03
