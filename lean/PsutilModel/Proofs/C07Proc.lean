/-
  Proofs/C07Proc.lean — helper lemmas for the `Process.cpu_percent` theorems of Props/C07.lean.
-/
import PsutilModel.Proofs.C07Arith
import PsutilModel.Proofs.C07Hist
namespace Psutil.C07
open Spec

theorem numCpus_pos (k : Option Int) : 0 < numCpus k := by
  unfold numCpus
  cases k with
  | none => norm_num
  | some n =>
    by_cases h : n < 1
    · simp [h]
    · simp only [h, if_false]
      have : (1 : ℤ) ≤ n := not_lt.mp h
      have : (1 : ℚ) ≤ (n : ℚ) := by exact_mod_cast this
      linarith

/-- the arithmetic: `(Δproc / (Δwall·n)) · 100 · n`, rounded = `round1(100·Δproc/Δwall)` -/
theorem procFinish_scaled (c : Cfg) (hg : c.Good) (tck : Nat) (n : Rat) (hn : 0 < n) (w1 w2 : Rat)
    (u1 s1 u2 s2 : Nat) (a b : PLast)
    (ha : a = ⟨a.sys, procSecs tck u1, procSecs tck s1⟩) (hb : b = ⟨b.sys, procSecs tck u2, procSecs tck s2⟩)
    (hd : (if c.procScaleDelta then (b.sys - a.sys) * n else b.sys - a.sys) = (w2 - w1) * n) :
    procFinish c n a b = round1 (procExact tck u1 s1 u2 s2 w1 w2) := by
  unfold procFinish procExact round1
  simp only [hd, hg.procFactor, hg.procDigits]
  rw [ha, hb]
  simp only
  by_cases hw : w2 - w1 = 0
  · simp [hw, roundN_one_zero]
  · have hne : (w2 - w1) * n ≠ 0 := mul_ne_zero hw (ne_of_gt hn)
    simp only [hw, hne, if_false]
    congr 1
    have hn' : n ≠ 0 := ne_of_gt hn
    unfold procSecs
    push_cast
    field_simp

/-- … for the code as found or repaired, when both stamps were taken with the same CPU count -/
theorem procFinish_eq (c : Cfg) (hg : c.Good) (tck : Nat) (k : Option Int) (w1 w2 : Rat) (u1 s1 u2 s2 : Nat) :
    procFinish c (numCpus k)
        ⟨procStamp c (numCpus k) w1, procSecs tck u1, procSecs tck s1⟩
        ⟨procStamp c (numCpus k) w2, procSecs tck u2, procSecs tck s2⟩
      = round1 (procExact tck u1 s1 u2 s2 w1 w2) := by
  apply procFinish_scaled c hg tck (numCpus k) (numCpus_pos k) w1 w2 u1 s1 u2 s2 _ _ rfl rfl
  unfold procStamp
  cases c.procScaleDelta <;> simp <;> ring

/-- … for the repaired shape the stamps are raw clock values, so the CPU count of the earlier
    call does not enter at all -/
theorem procFinish_fixed (c : Cfg) (hg : c.Good) (hs : c.procScaleDelta = true) (tck : Nat)
    (k : Option Int) (w1 w2 : Rat) (u1 s1 u2 s2 : Nat) :
    procFinish c (numCpus k) ⟨w1, procSecs tck u1, procSecs tck s1⟩ ⟨w2, procSecs tck u2, procSecs tck s2⟩
      = round1 (procExact tck u1 s1 u2 s2 w1 w2) := by
  apply procFinish_scaled c hg tck (numCpus k) (numCpus_pos k) w1 w2 u1 s1 u2 s2 _ _ rfl rfl
  simp [hs]

/-- after any history with a constant CPU count, an object's remembered samples are those of
    its own previous call -/
theorem prunAll_entry (c : Cfg) (hg : c.Good) (tck : Nat) (k : Option Int) (h : List PCall) (hk : ∀ p ∈ h, p.ncpuRaw = k) :
    ∀ (s : PSt) (q : Option (Rat × Nat × Nat)) (o : Nat),
      s o = q.map (fun x => ⟨procStamp c (numCpus k) x.1, procSecs tck x.2.1, procSecs tck x.2.2⟩) →
      (prunAll c tck s h) o
        = (h.foldl (pprevStep o) q).map
            (fun x => ⟨procStamp c (numCpus k) x.1, procSecs tck x.2.1, procSecs tck x.2.2⟩) := by
  induction h with
  | nil => intro s q o hs; exact hs
  | cons p ps ih =>
    intro s q o hs
    simp only [prunAll, List.foldl_cons]
    apply ih (fun x hx => hk x (by simp [hx]))
    have hpk : p.ncpuRaw = k := hk p (by simp)
    unfold pprevStep
    by_cases ho : p.obj = o
    · subst ho
      rw [pstep_same, hpk]
      simp only [if_true]
      cases ptaken p with
      | none => simpa using hs
      | some v => obtain ⟨w, u, st⟩ := v; simp
    · rw [pstep_other c tck s p o ho]
      simpa [ho] using hs

/-- the repaired shape remembers the raw clock: after ANY history (any CPU counts) an object's
    remembered samples are those of its own previous call -/
theorem prunAll_entry_fixed (c : Cfg) (hs : c.procScaleDelta = true) (tck : Nat) (h : List PCall) :
    ∀ (s : PSt) (q : Option (Rat × Nat × Nat)) (o : Nat),
      s o = q.map (fun x => ⟨x.1, procSecs tck x.2.1, procSecs tck x.2.2⟩) →
      (prunAll c tck s h) o
        = (h.foldl (pprevStep o) q).map (fun x => ⟨x.1, procSecs tck x.2.1, procSecs tck x.2.2⟩) := by
  induction h with
  | nil => intro s q o hq; exact hq
  | cons p ps ih =>
    intro s q o hq
    simp only [prunAll, List.foldl_cons]
    apply ih
    unfold pprevStep
    by_cases ho : p.obj = o
    · subst ho
      rw [pstep_same]
      simp only [if_true]
      cases ptaken p with
      | none => simpa using hq
      | some v => obtain ⟨w, u, st⟩ := v; simp [procStamp, hs]
    · rw [pstep_other c tck s p o ho]
      simpa [ho] using hq

end Psutil.C07
