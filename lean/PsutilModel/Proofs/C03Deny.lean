/-
  Proofs/C03Deny.lean — deny accounting, to prove children() / parent() at full strength.

  `TriK E m Q`: like `Tri`, but the exception post-condition sees the access counter at the start
  and at the raise, and the counter is shown to be monotone. With it:
    * `Plat.createTime q` raises only NoSuchProcess(q), or AccessDenied(q) *with a refusal inside
      its own access interval* (`EO`);
    * `Process(q)` (`mkProcess`) returns an object without a cached create time only if a refusal
      happened inside its interval;
    * so the second `create_time()` on such an object cannot be refused again (`DenyOnce`), and
      children()/parent() never leak AccessDenied carrying another pid.
-/
import PsutilModel.Proofs.C03Front
namespace Psutil.C03
open Spec

/-- some access with index in [k0, k1) was refused -/
def DeniedIn (c : Ctx) (k0 k1 : Nat) : Prop := ∃ i, k0 ≤ i ∧ i < k1 ∧ c.deny i ≠ none

theorem deniedIn_widen {c : Ctx} {a b d : Nat} (h : a ≤ b) (hd : DeniedIn c b d) : DeniedIn c a d := by
  obtain ⟨i, h1, h2, h3⟩ := hd; exact ⟨i, by omega, h2, h3⟩

theorem deniedIn_disjoint {c : Ctx} (ha : Adm c) {a b d e : Nat} (hbd : b ≤ d)
    (h1 : DeniedIn c a b) (h2 : DeniedIn c d e) : False := by
  obtain ⟨i, _, hi2, hi3⟩ := h1
  obtain ⟨j, hj1, _, hj3⟩ := h2
  cases hi : c.deny i with
  | none => exact hi3 hi
  | some x =>
    cases hj : c.deny j with
    | none => exact hj3 hj
    | some y => have := ha.deny.2 i j x y hi hj; omega

/-- what a body below `wrap_exceptions` of `q` may raise, with evidence -/
def EB (q : Nat) : Ctx → Nat → Nat → PyExc → Prop := fun c k0 k1 e =>
  (e = .perm ∧ DeniedIn c k0 k1) ∨ ((e = .fnf ∨ e = .ple) ∧ pst c k1 q = .gone) ∨
  e = .nsp q ∨ (e = .ad q ∧ DeniedIn c k0 k1)

/-- what comes out of the decorator: NoSuchProcess(q), or AccessDenied(q) caused by a refusal in the interval -/
def EO (q : Nat) : Ctx → Nat → Nat → PyExc → Prop := fun c k0 k1 e =>
  e = .nsp q ∨ (e = .ad q ∧ DeniedIn c k0 k1)

theorem EO_EB {q : Nat} {c : Ctx} {a b : Nat} {e : PyExc} (h : EO q c a b e) : EB q c a b e := by
  rcases h with h | h
  · exact Or.inr (Or.inr (Or.inl h))
  · exact Or.inr (Or.inr (Or.inr h))

theorem EB_widen {q : Nat} {c : Ctx} {a b d : Nat} {e : PyExc} (h : a ≤ b) (he : EB q c b d e) : EB q c a d e := by
  rcases he with ⟨h1, h2⟩ | h2 | h2 | ⟨h1, h2⟩
  · exact Or.inl ⟨h1, deniedIn_widen h h2⟩
  · exact Or.inr (Or.inl h2)
  · exact Or.inr (Or.inr (Or.inl h2))
  · exact Or.inr (Or.inr (Or.inr ⟨h1, deniedIn_widen h h2⟩))

theorem EO_widen {q : Nat} {c : Ctx} {a b d : Nat} {e : PyExc} (h : a ≤ b) (he : EO q c b d e) : EO q c a d e := by
  rcases he with h2 | ⟨h1, h2⟩
  · exact Or.inl h2
  · exact Or.inr ⟨h1, deniedIn_widen h h2⟩

def TriK {α : Type} (E : Ctx → Nat → Nat → PyExc → Prop) (m : M α) (Q : α → Prop) : Prop :=
  ∀ c s, Adm c → CacheInv s.cache →
    match m c s with
    | (.ok a, s') => Q a ∧ s.k ≤ s'.k ∧ CacheInv s'.cache
    | (.error e, s') => E c s.k s'.k e ∧ s.k ≤ s'.k ∧ CacheInv s'.cache

theorem trik_pure {α : Type} {E : Ctx → Nat → Nat → PyExc → Prop} {Q : α → Prop} {a : α} (h : Q a) :
    TriK E (pure a : M α) Q := by
  intro c s _ hi; exact ⟨h, Nat.le_refl _, hi⟩

theorem trik_bind {α β : Type} {E : Ctx → Nat → Nat → PyExc → Prop} {m : M α} {f : α → M β}
    {Q : α → Prop} {R : β → Prop}
    (hw : ∀ c a b d e, a ≤ b → E c b d e → E c a d e)
    (hm : TriK E m Q) (hf : ∀ a, Q a → TriK E (f a) R) : TriK E (m >>= f) R := by
  intro c s ha hi
  have h1 := hm c s ha hi
  show match M.bind m f c s with
    | (.ok a, s') => R a ∧ s.k ≤ s'.k ∧ CacheInv s'.cache
    | (.error e, s') => E c s.k s'.k e ∧ s.k ≤ s'.k ∧ CacheInv s'.cache
  unfold M.bind
  rcases hr : m c s with ⟨r, s1⟩
  rw [hr] at h1
  cases r with
  | error e => exact h1
  | ok a =>
    have h2 := hf a h1.1 c s1 ha h1.2.2
    simp only
    rcases hr2 : f a c s1 with ⟨r2, s2⟩
    rw [hr2] at h2
    cases r2 with
    | ok b => exact ⟨h2.1, Nat.le_trans h1.2.1 h2.2.1, h2.2.2⟩
    | error e => exact ⟨hw _ _ _ _ _ h1.2.1 h2.1, Nat.le_trans h1.2.1 h2.2.1, h2.2.2⟩

theorem trik_weaken {α : Type} {E E' : Ctx → Nat → Nat → PyExc → Prop} {m : M α} {Q Q' : α → Prop}
    (hm : TriK E m Q) (hE : ∀ c a b e, E c a b e → E' c a b e) (hQ : ∀ a, Q a → Q' a) : TriK E' m Q' := by
  intro c s ha hi
  have h1 := hm c s ha hi
  rcases hr : m c s with ⟨r, s'⟩
  rw [hr] at h1
  cases r with
  | error e => exact ⟨hE _ _ _ _ h1.1, h1.2⟩
  | ok a => exact ⟨hQ _ h1.1, h1.2⟩

theorem trik_fresh {α : Type} {E : Ctx → Nat → Nat → PyExc → Prop} {m : M α} {Q : α → Prop} (hm : TriK E m Q) :
    TriK E (fresh m) Q := by
  intro c s ha hi
  have h1 := hm c { s with cache := {} } ha cacheInv_empty
  unfold fresh
  rcases hr : m c { s with cache := {} } with ⟨r, s'⟩
  rw [hr] at h1
  cases r with
  | ok a => exact ⟨h1.1, h1.2.1, hi⟩
  | error e => exact ⟨h1.1, h1.2.1, hi⟩

/-- one access to /proc/<q>/stat (open or read) -/
theorem trik_access_stat {α : Type} (q : Nat) (a : OsAcc) (tbl : World → WS → Except Errno α) (Q : α → Prop)
    (herr : ∀ w st en, tbl w st = .error en → (en = .ENOENT ∨ en = .ESRCH) ∧ pstOf w st q = .gone)
    (hok : ∀ w st v, tbl w st = .ok v → Q v) : TriK (EB q) (access a tbl) Q := by
  intro c s ha hi
  obtain ⟨r, s', h, hk, hc, hr⟩ := access_spec a tbl c s ha
  rw [h]
  cases r with
  | ok v => exact ⟨hok _ _ _ hr.1, by omega, by rw [hc]; exact hi⟩
  | error e =>
    refine ⟨?_, by omega, by rw [hc]; exact hi⟩
    rcases hr with ⟨he, _, hd⟩ | ⟨en, ht, he, _⟩
    · exact Or.inl ⟨he, s.k, Nat.le_refl _, by omega, hd⟩
    · obtain ⟨hen, hg⟩ := herr _ _ _ ht
      refine Or.inr (Or.inl ⟨?_, ?_⟩)
      · rcases hen with h | h <;> subst h <;> subst he <;> simp [Errno.toExc]
      · rw [hk]; exact pst_gone_mono ha (Nat.le_succ _) hg

theorem trik_readStat (q : Nat) : TriK (EB q) (readFile (.file q .stat)) (fun x => ∃ r, x = Content.stat r) := by
  unfold readFile
  refine trik_bind (fun _ _ _ _ _ h he => EB_widen h he) (Q := fun _ => True) ?_ (fun _ _ => ?_)
  · refine trik_access_stat q _ _ _ (fun w st en h => ?_) (fun _ _ _ _ => trivial)
    rcases tblOpen_file_err h with ⟨h1, h2⟩ | ⟨_, _, hne⟩
    · exact ⟨Or.inl h1, h2⟩
    · exact absurd rfl hne
  · refine trik_access_stat q _ _ _ (fun w st en h => ?_) (fun _ _ _ h => tblRead_file_ok (f := .stat) h)
    obtain ⟨h1, h2⟩ := tblRead_file_err h
    exact ⟨Or.inr h1, h2 rfl⟩

theorem trik_getCache {E : Ctx → Nat → Nat → PyExc → Prop} : TriK E getCache (fun k => CacheInv k) := by
  intro c s _ hi; exact ⟨hi, Nat.le_refl _, hi⟩

theorem trik_modifyCache {E : Ctx → Nat → Nat → PyExc → Prop} {f : Cache → Cache}
    (hf : ∀ k, CacheInv k → CacheInv (f k)) : TriK E (modifyCache f) (fun _ => True) := by
  intro c s _ hi; exact ⟨trivial, Nat.le_refl _, hf _ hi⟩

theorem trik_memoIf {α : Type} {E : Ctx → Nat → Nat → PyExc → Prop} (b : Bool) (get : Cache → Option α)
    (set : α → Cache → Cache) (p : Nat) {body : M α} {Q : α → Prop}
    (hw : ∀ c a b d e, a ≤ b → E c b d e → E c a d e)
    (hget : ∀ k v, CacheInv k → get k = some v → Q v)
    (hset : ∀ k v, CacheInv k → Q v → CacheInv (set v k))
    (hb : TriK E body Q) : TriK E (memoIf b get set p body) Q := by
  unfold memoIf
  cases b
  · exact hb
  · show TriK E (memo get set p body) Q
    unfold memo
    refine trik_bind hw trik_getCache (fun k hk => ?_)
    split
    · split
      · rename_i v hv; exact trik_pure (hget k v hk hv)
      · refine trik_bind hw hb (fun v hv => ?_)
        refine trik_bind hw (Q := fun _ => True) ?_ (fun _ _ => trik_pure hv)
        exact trik_modifyCache (fun k' hk' => hset k' v hk' hv)
    · exact hb

/-- `_is_zombie` on a process that is gone: False, counter moves forward, cache untouched -/
theorem isZombie_false_of_gone (r : Host) (q : Nat) (c : Ctx) (s : St) (ha : Adm c) (hg : pst c s.k q = .gone) :
    ∃ s', isZombie (goodCfg r) q c s = (.ok false, s') ∧ s'.cache = s.cache ∧ s.k ≤ s'.k := by
  obtain ⟨r1, s1, h1, hk1, hc1, hr1⟩ :=
    access_spec (.fs .openF (.file q .stat)) (fun w st => tblOpen w st (.file q .stat)) c s ha
  unfold isZombie readFile accOpen accRead tryCatch
  simp only [bind_eq, pure_eq, M.bind, M.pure, h1]
  cases r1 with
  | ok u => exact absurd hg (tblOpen_stat_ok hr1.1)
  | error e =>
    simp only
    have hc : catches (goodCfg r).isZombieCatch e = true := by
      rcases hr1 with ⟨he, _⟩ | ⟨en, _, he, _⟩
      · subst he; rfl
      · subst he; exact catches_os en
    simp only [hc, if_true]
    exact ⟨s1, rfl, hc1, by omega⟩

/-- the decorator, with evidence -/
theorem wrapK (r : Host) (q : Nat) {α : Type} {body : M α} {Q : α → Prop} (hb : TriK (EB q) body Q) :
    TriK (EO q) (wrapExceptions (goodCfg r) q body) Q := by
  intro c s ha hi
  have h1 := hb c s ha hi
  unfold wrapExceptions tryCatch
  rcases hr : body c s with ⟨res, s1⟩
  rw [hr] at h1
  cases res with
  | ok a => exact h1
  | error e =>
    simp only
    obtain ⟨hE, hk, hci⟩ := h1
    rcases hE with ⟨he, hd⟩ | ⟨he, hg⟩ | he | ⟨he, hd⟩
    · subst he
      simp [goodCfg, PyExc.bases, wrapSteps, throw]
      exact ⟨Or.inr ⟨rfl, hd⟩, hk, hci⟩
    · obtain ⟨sz, hz, hcz, hkz⟩ := isZombie_false_of_gone r q c s1 ha hg
      have hrz : raiseIfZombie (goodCfg r) q c s1 = (.ok (), sz) := by
        unfold raiseIfZombie
        simp only [bind_eq, pure_eq, M.bind, hz]
        rfl
      rcases he with he | he <;> subst he
      · have hfind : (goodCfg r).wrapClauses.find? (fun cl => PyExc.fnf.bases.contains cl.1)
            = some ("FileNotFoundError",
                ["_raise_if_zombie", "if not exists(stat): raise NoSuchProcess", "raise"]) := by
          simp [goodCfg, PyExc.bases]
        simp only [hfind, wrapSteps_fnf, bind_eq, M.bind, hrz]
        obtain ⟨s3, h3, hc3, hk3⟩ := pathExists_gone q (.file q .stat) rfl c sz ha (pst_gone_mono ha hkz hg)
        simp only [h3, throw]
        exact ⟨Or.inl rfl, by omega, by rw [hc3, hcz]; exact hci⟩
      · have hfind : (goodCfg r).wrapClauses.find? (fun cl => PyExc.ple.bases.contains cl.1)
            = some ("ProcessLookupError", ["_raise_if_zombie", "raise NoSuchProcess"]) := by
          simp [goodCfg, PyExc.bases]
        simp only [hfind, wrapSteps_ple, bind_eq, M.bind, hrz, throw]
        exact ⟨Or.inl rfl, by omega, by rw [hcz]; exact hci⟩
    · subst he
      have : (goodCfg r).wrapClauses.find? (fun cl => (PyExc.nsp q).bases.contains cl.1) = none := by
        simp [goodCfg, PyExc.bases]
      simp only [this]
      exact ⟨Or.inl rfl, hk, hci⟩
    · subst he
      have : (goodCfg r).wrapClauses.find? (fun cl => (PyExc.ad q).bases.contains cl.1) = none := by
        simp [goodCfg, PyExc.bases]
      simp only [this]
      exact ⟨Or.inr ⟨rfl, hd⟩, hk, hci⟩

theorem WK (r : Host) (name : String) (q : Nat) {α : Type} {body : M α} {Q : α → Prop}
    (hw : (goodCfg r).wrapped.contains name = true) (hb : TriK (EB q) body Q) :
    TriK (EO q) (W (goodCfg r) name q body) Q := by
  unfold W; rw [if_neg (by simp [goodCfg]), if_pos hw]; exact wrapK r q hb

variable (r : Host)

theorem parseStatFile_K (q : Nat) : TriK (EO q) (Plat.parseStatFile (goodCfg r) q) (fun _ => True) := by
  unfold Plat.parseStatFile
  refine WK r _ q (by rfl) ?_
  refine trik_memoIf _ _ _ q (fun _ _ _ _ _ h he => EB_widen h he) (fun _ _ _ _ => trivial)
    (fun k v hk _ => cacheInv_set_stat v hk) ?_
  refine trik_bind (fun _ _ _ _ _ h he => EB_widen h he) (trik_readStat q) (fun x hx => ?_)
  obtain ⟨rec, hx⟩ := hx
  subst hx
  exact trik_pure trivial

theorem createTime_K (q : Nat) : TriK (EO q) (Plat.createTime (goodCfg r) q) (fun _ => True) := by
  unfold Plat.createTime
  refine WK r _ q (by rfl) ?_
  exact trik_bind (fun _ _ _ _ _ h he => EB_widen h he)
    (trik_weaken (parseStatFile_K r q) (fun _ _ _ _ h => EO_EB h) (fun _ h => h)) (fun _ _ => trik_pure trivial)

theorem fe_createTime_K (o : Obj) : TriK (EO o.pid) (Fe.createTime (goodCfg r) o) (fun _ => True) := by
  unfold Fe.createTime
  split
  · exact trik_pure trivial
  · exact trik_fresh (createTime_K r o.pid)

/-- `psutil.Process(q)`: NoSuchProcess(q), or an object whose create time is missing only because an
    access inside this very call was refused -/
theorem mkProcess_K (q : Nat) (c : Ctx) (s : St) (ha : Adm c) (hi : CacheInv s.cache) :
    match Fe.mkProcess (goodCfg r) q c s with
    | (.ok ch, s') => ch.pid = q ∧ (ch.ct = none → DeniedIn c s.k s'.k) ∧ s.k ≤ s'.k ∧ CacheInv s'.cache
    | (.error e, s') => e = .nsp q ∧ s.k ≤ s'.k ∧ CacheInv s'.cache := by
  have h1 := trik_bind (E := EO q) (R := fun o : Obj => o.pid = q ∧ o.ct ≠ none) (fun _ _ _ _ _ h he => EO_widen h he)
    (trik_fresh (createTime_K r q)) (fun ct _ => trik_pure (a := (⟨q, some ct⟩ : Obj)) ⟨rfl, by simp⟩) c s ha hi
  unfold Fe.mkProcess tryCatch
  rcases hr : (fresh (Plat.createTime (goodCfg r) q) >>= fun ct => (pure ⟨q, some ct⟩ : M Obj)) c s with ⟨res, s1⟩
  rw [hr] at h1
  cases res with
  | ok ch => exact ⟨h1.1.1, fun hn => absurd hn h1.1.2, h1.2⟩
  | error e =>
    simp only
    obtain ⟨hE, hk, hci⟩ := h1
    rcases hE with he | ⟨he, hd⟩ <;> subst he
    · simp [Fe.clauseOf, goodCfg, catches, PyExc.bases, throw]
      exact ⟨hk, hci⟩
    · simp [Fe.clauseOf, goodCfg, catches, PyExc.bases, pure_eq, M.pure]
      exact ⟨hd, hk, hci⟩

theorem fe_createTime_some (o : Obj) (x : Nat) (h : o.ct = some x) (c : Ctx) (s : St) :
    Fe.createTime (goodCfg r) o c s = (.ok x, s) := by
  unfold Fe.createTime; rw [h]; rfl

/-- the try block of children() for one listed child `q`: nothing but a psutil error for the
    object's own pid can leave it -/
theorem childBlock_safe (o : Obj) (q : Nat) :
    Tri (PsOnly o.pid)
      (tryCatch
        (do let ch ← Fe.mkProcess (goodCfg r) q
            let mine ← Fe.createTime (goodCfg r) o
            let theirs ← Fe.createTime (goodCfg r) ch
            pure (some (decide (mine ≤ theirs))))
        (fun e => if catches (goodCfg r).childrenCatch e then some (pure none) else none))
      (fun _ => True) := by
  intro c s ha hi
  have hA := mkProcess_K r q c s ha hi
  unfold tryCatch
  simp only [bind_eq, M.bind]
  rcases hrA : Fe.mkProcess (goodCfg r) q c s with ⟨ra, s1⟩
  rw [hrA] at hA
  cases ra with
  | error e =>
    obtain ⟨he, _, hci⟩ := hA
    subst he
    have : catches (goodCfg r).childrenCatch (.nsp q) = true := by rfl
    simp only [this, ↓reduceIte]
    exact ⟨trivial, hci⟩
  | ok ch =>
    obtain ⟨hpid, hden, hk1, hci1⟩ := hA
    simp only
    have hB := fe_createTime_K r o c s1 ha hci1
    rcases hrB : Fe.createTime (goodCfg r) o c s1 with ⟨rb, s2⟩
    rw [hrB] at hB
    cases rb with
    | error e =>
      obtain ⟨hE, _, hci2⟩ := hB
      simp only
      rcases hE with he | ⟨he, _⟩ <;> subst he
      · have : catches (goodCfg r).childrenCatch (.nsp o.pid) = true := by rfl
        simp only [this, ↓reduceIte]
        exact ⟨trivial, hci2⟩
      · have : catches (goodCfg r).childrenCatch (.ad o.pid) = false := by rfl
        simp only [this, Bool.false_eq_true, ↓reduceIte]
        exact ⟨Or.inr (Or.inr rfl), hci2⟩
    | ok mine =>
      obtain ⟨_, hk2, hci2⟩ := hB
      simp only
      have hC := fe_createTime_K r ch c s2 ha hci2
      rcases hrC : Fe.createTime (goodCfg r) ch c s2 with ⟨rc, s3⟩
      rw [hrC] at hC
      cases rc with
      | ok theirs => exact ⟨trivial, hC.2.2⟩
      | error e =>
        obtain ⟨hE, _, hci3⟩ := hC
        simp only
        rw [hpid] at hE
        rcases hE with he | ⟨he, hd⟩ <;> subst he
        · have : catches (goodCfg r).childrenCatch (.nsp q) = true := by rfl
          simp only [this, ↓reduceIte]
          exact ⟨trivial, hci3⟩
        · -- AccessDenied(q) here would need a second refusal
          exfalso
          cases hct : ch.ct with
          | some x => rw [fe_createTime_some r ch x hct] at hrC; cases hrC
          | none => exact deniedIn_disjoint ha hk2 (hden hct) hd

theorem childrenLoop_full (o : Obj) : ∀ (pm : List (Nat × Nat)),
    Tri (PsOnly o.pid) (Fe.childrenLoop (goodCfg r) o pm) (fun _ => True) := by
  intro pm
  induction pm with
  | nil => unfold Fe.childrenLoop; exact tri_pure trivial
  | cons x rest ih =>
    obtain ⟨q, pp⟩ := x
    unfold Fe.childrenLoop
    split
    · exact tri_bind (childBlock_safe r o q)
        (fun res _ => tri_bind ih (fun _ _ => by split <;> exact tri_pure trivial))
    · exact ih

/-- children() at full strength (repaired ppid_map) -/
theorem children_safe (o : Obj) : Tri (PsOnly o.pid) (Fe.children (goodCfg r) o) (fun _ => True) := by
  unfold Fe.children
  refine tri_bind (tri_exc (raiseIfPidReused_safe r o) (fun _ _ _ h => nspOnly_psOnly h)) (fun _ _ => ?_)
  refine tri_bind (tri_exc (ppidMap_safe r) (fun _ _ _ h => h.elim)) (fun pm _ => ?_)
  exact tri_bind (childrenLoop_full r o _) (fun _ _ => tri_pure trivial)

/-- the try block of parent(): nothing leaves it -/
theorem parentBlock_safe (o : Obj) (pp ctime : Nat) :
    Tri (PsOnly o.pid)
      (tryCatch
        (do let par ← Fe.mkProcess (goodCfg r) pp
            let pt ← Fe.createTime (goodCfg r) par
            if pt ≤ ctime then pure (Val.proc pp) else pure Val.none)
        (fun e => if catches (goodCfg r).parentCatch e then some (pure Val.none) else none))
      (fun _ => True) := by
  intro c s ha hi
  have hA := mkProcess_K r pp c s ha hi
  unfold tryCatch
  simp only [bind_eq, M.bind]
  rcases hrA : Fe.mkProcess (goodCfg r) pp c s with ⟨ra, s1⟩
  rw [hrA] at hA
  cases ra with
  | error e =>
    obtain ⟨he, _, hci⟩ := hA
    subst he
    have : catches (goodCfg r).parentCatch (.nsp pp) = true := by rfl
    simp only [this, ↓reduceIte]
    exact ⟨trivial, hci⟩
  | ok par =>
    obtain ⟨hpid, hden, hk1, hci1⟩ := hA
    simp only
    have hC := fe_createTime_K r par c s1 ha hci1
    rcases hrC : Fe.createTime (goodCfg r) par c s1 with ⟨rc, s2⟩
    rw [hrC] at hC
    cases rc with
    | ok pt =>
      simp only
      by_cases hle : pt ≤ ctime <;> simp only [hle, ↓reduceIte, pure_eq, M.pure] <;> exact ⟨trivial, hC.2.2⟩
    | error e =>
      obtain ⟨hE, _, hci2⟩ := hC
      simp only
      rw [hpid] at hE
      rcases hE with he | ⟨he, hd⟩ <;> subst he
      · have : catches (goodCfg r).parentCatch (.nsp pp) = true := by rfl
        simp only [this, ↓reduceIte]
        exact ⟨trivial, hci2⟩
      · exfalso
        cases hct : par.ct with
        | some x => rw [fe_createTime_some r par x hct] at hrC; cases hrC
        | none => exact deniedIn_disjoint ha (Nat.le_refl _) (hden hct) hd

/-- parent() at full strength -/
theorem parent_safe (o : Obj) : Tri (PsOnly o.pid) (Fe.parent (goodCfg r) o) (fun _ => True) := by
  unfold Fe.parent
  refine tri_bind tri_listdir_root (fun pids hne => ?_)
  split
  · rename_i hnone
    exact absurd (foldl_min_none _ _ hnone).1 hne
  · split
    · -- the lowest-PID stop: (since d7107b4) the identity probe first — NoSuchProcess(pid) or None
      exact tri_bind (tri_exc (rootStop_safe r o) (fun _ _ _ h => nspOnly_psOnly h)) (fun _ _ => tri_pure trivial)
    · refine tri_bind (fe_ppid_safe r o) (fun pp _ => ?_)
      refine tri_bind (fe_createTime_safe r o) (fun ct _ => ?_)
      exact parentBlock_safe r o pp ct

end Psutil.C03
