/-
  Proofs/C17Users.lean — helper lemmas for the users() part of C17: the utmp record layout
  (field access by offset on the rendered record), integer round-trips, `strcmp` against a
  literal, and the chunking of a file into records.
-/
import PsutilModel.Model.C17
import PsutilModel.Spec.C17
namespace Psutil.C17
open Spec

/-! ### little-endian integers -/

theorem encLE_length (k n : Nat) : (encLE k n).length = k := by
  induction k generalizing n with
  | zero => rfl
  | succ k ih => simp [encLE, ih]

theorem leNat_encLE (k n : Nat) : leNat (encLE k n) = n % 256 ^ k := by
  induction k generalizing n with
  | zero => simp [encLE, leNat, Nat.mod_one]
  | succ k ih =>
    simp only [encLE, leNat, ih]
    rw [Nat.pow_succ, Nat.mul_comm (256 ^ k) 256, Nat.mod_mul]

theorem encS_length (k : Nat) (v : Int) : (encS k v).length = k := encLE_length _ _

theorem sle32_encS (v : Int) (X : Bytes) (h : -2147483648 ≤ v ∧ v < 2147483648) :
    sle32 (encS 4 v ++ X) = v := by
  unfold sle32
  rw [List.take_left' (encS_length 4 v)]
  unfold encS toSigned
  rw [leNat_encLE]
  have e : (256 ^ 4 : Nat) = 4294967296 := by decide
  have e1 : (2 ^ (32 - 1) : Nat) = 2147483648 := by decide
  have e2 : (2 ^ 32 : Nat) = 4294967296 := by decide
  rw [e, e1]
  have h0 : 0 ≤ v % ((4294967296 : Nat) : Int) := Int.emod_nonneg _ (by decide)
  have h2 : v % ((4294967296 : Nat) : Int) < ((4294967296 : Nat) : Int) := Int.emod_lt_of_pos _ (by decide)
  split <;> omega

theorem sle16_encS (v : Int) (X : Bytes) (h : -32768 ≤ v ∧ v < 32768) :
    sle16 (encS 2 v ++ X) = v := by
  unfold sle16
  rw [List.take_left' (encS_length 2 v)]
  unfold encS toSigned
  rw [leNat_encLE]
  have e : (256 ^ 2 : Nat) = 65536 := by decide
  have e1 : (2 ^ (16 - 1) : Nat) = 32768 := by decide
  have e2 : (2 ^ 16 : Nat) = 65536 := by decide
  rw [e, e1]
  have h0 : 0 ≤ v % ((65536 : Nat) : Int) := Int.emod_nonneg _ (by decide)
  have h2 : v % ((65536 : Nat) : Int) < ((65536 : Nat) : Int) := Int.emod_lt_of_pos _ (by decide)
  split <;> omega


/-! ### record layout: what lies at each offset of `render r ++ beyond` -/

theorem render_length (r : Utmp) (h : r.WF) : (render r).length = 384 := by
  simp [render, encS_length, h.line, h.id, h.user, h.host, h.exit, h.session, h.usec, h.addr, h.unused]

/-- the bytes that follow `ut_user` in memory -/
def afterUser (r : Utmp) (beyond : Bytes) : Bytes :=
  r.host ++ (r.exit ++ (r.session ++ (encS 4 r.sec ++ (r.usec ++ (r.addr ++ (r.unused ++ beyond))))))

def afterHost (r : Utmp) (beyond : Bytes) : Bytes :=
  r.exit ++ (r.session ++ (encS 4 r.sec ++ (r.usec ++ (r.addr ++ (r.unused ++ beyond)))))

theorem mem_at0 (r : Utmp) (b : Bytes) :
    render r ++ b = encS 2 r.typ ++ ([0, 0] ++ (encS 4 r.pid ++ (r.line ++ (r.id ++ (r.user ++ afterUser r b))))) := by
  simp [render, afterUser, List.append_assoc]

theorem drop4 (r : Utmp) (b : Bytes) :
    (render r ++ b).drop 4 = encS 4 r.pid ++ (r.line ++ (r.id ++ (r.user ++ afterUser r b))) := by
  rw [mem_at0]
  have : (encS 2 r.typ ++ ([0, 0] ++ (encS 4 r.pid ++ (r.line ++ (r.id ++ (r.user ++ afterUser r b))))))
      = (encS 2 r.typ ++ [0, 0]) ++ (encS 4 r.pid ++ (r.line ++ (r.id ++ (r.user ++ afterUser r b)))) := by
    simp [List.append_assoc]
  rw [this]
  exact List.drop_left' (by simp [encS_length])

theorem drop8 (r : Utmp) (b : Bytes) :
    (render r ++ b).drop 8 = r.line ++ (r.id ++ (r.user ++ afterUser r b)) := by
  have : (render r ++ b).drop 8 = ((render r ++ b).drop 4).drop 4 := by simp [List.drop_drop]
  rw [this, drop4]
  exact List.drop_left' (encS_length 4 _)

theorem drop44 (r : Utmp) (h : r.WF) (b : Bytes) :
    (render r ++ b).drop 44 = r.user ++ afterUser r b := by
  have : (render r ++ b).drop 44 = ((render r ++ b).drop 8).drop 36 := by simp [List.drop_drop]
  rw [this, drop8]
  have : r.line ++ (r.id ++ (r.user ++ afterUser r b)) = (r.line ++ r.id) ++ (r.user ++ afterUser r b) := by
    simp [List.append_assoc]
  rw [this]
  exact List.drop_left' (by simp [h.line, h.id])

theorem drop76 (r : Utmp) (h : r.WF) (b : Bytes) :
    (render r ++ b).drop 76 = r.host ++ afterHost r b := by
  have : (render r ++ b).drop 76 = ((render r ++ b).drop 44).drop 32 := by simp [List.drop_drop]
  rw [this, drop44 r h]
  exact List.drop_left' h.user

theorem drop340 (r : Utmp) (h : r.WF) (b : Bytes) :
    (render r ++ b).drop 340 = encS 4 r.sec ++ (r.usec ++ (r.addr ++ (r.unused ++ b))) := by
  have : (render r ++ b).drop 340 = ((render r ++ b).drop 76).drop 264 := by simp [List.drop_drop]
  rw [this, drop76 r h]
  have : r.host ++ afterHost r b
      = (r.host ++ (r.exit ++ r.session)) ++ (encS 4 r.sec ++ (r.usec ++ (r.addr ++ (r.unused ++ b)))) := by
    simp [afterHost, List.append_assoc]
  rw [this]
  exact List.drop_left' (by simp [h.host, h.exit, h.session])

/-! ### field reads -/

theorem takeWhile_length_le {α} (p : α → Bool) (l : List α) : (l.takeWhile p).length ≤ l.length := by
  induction l with
  | nil => simp
  | cons a l ih => simp only [List.takeWhile]; split <;> simp <;> omega

/-- a size-bounded read of a field of width `w` that starts at `off` yields the field cut at
    its first NUL, and touches nothing at or beyond `off + w` -/
theorem readStr_bounded (mem field rest : Bytes) (off w : Nat) (hd : mem.drop off = field ++ rest)
    (hw : field.length = w) :
    (readStr true mem off w).val = cut field ∧ (readStr true mem off w).stop ≤ off + w := by
  simp only [readStr, if_true, hd, List.take_left' hw, cut]
  refine ⟨trivial, ?_⟩
  have := takeWhile_length_le (fun c => c != 0) field
  omega

/-- `strcmp(p, lit) == 0` ⇔ the field, cut at its first NUL, is `lit` (literal NUL-free and
    shorter than the field) -/
theorem take_eq_lit_iff (lit l : Bytes) (h0 : ∀ c ∈ lit, c ≠ 0) (hl : lit.length < l.length) :
    l.take (lit.length + 1) = lit ++ [0] ↔ l.takeWhile (fun c => c != 0) = lit := by
  induction lit generalizing l with
  | nil =>
    cases l with
    | nil => simp at hl
    | cons x xs =>
      by_cases hx : x = 0
      · simp [hx, List.takeWhile]
      · have hb : (x != 0) = true := by simp [hx]
        simp [hx, hb, List.takeWhile]
  | cons c lit ih =>
    cases l with
    | nil => simp at hl
    | cons x xs =>
      have hc : c ≠ 0 := h0 c (by simp)
      have h0' : ∀ d ∈ lit, d ≠ 0 := fun d hd => h0 d (by simp [hd])
      have hl' : lit.length < xs.length := by simp at hl; omega
      have ih' := ih xs h0' hl'
      by_cases hx : x = 0
      · subst hx
        simp [List.takeWhile]
        intro e; exact absurd e.symm hc
      · have hb : (x != 0) = true := by simp [hx]
        simp only [List.length_cons, List.take_succ_cons, List.cons_append, List.cons.injEq,
          List.takeWhile, hb, ih']

theorem strcmpEq_iff (mem field rest lit : Bytes) (off : Nat) (hd : mem.drop off = field ++ rest)
    (h0 : ∀ c ∈ lit, c ≠ 0) (hl : lit.length < field.length) :
    strcmpEq mem off lit = true ↔ cut field = lit := by
  unfold strcmpEq cut
  rw [hd, List.take_append_of_le_length (by omega), decide_eq_true_iff]
  exact take_eq_lit_iff lit field h0 hl

/-! ### a file is its whole records -/

theorem recordsAux_render (rs : List Utmp) (h : ∀ r ∈ rs, r.WF) (trail : Bytes) :
    recordsAux rs.length (renderAll rs ++ trail) = rs.map render := by
  induction rs with
  | nil => rfl
  | cons r rs ih =>
    have hr := render_length r (h r (by simp))
    have ih' := ih (fun x hx => h x (by simp [hx]))
    simp only [List.length_cons, recordsAux, renderAll, List.flatMap_cons, List.append_assoc, List.map_cons]
    rw [List.take_left' hr, List.drop_left' hr]
    simp only [renderAll] at ih'
    rw [ih']

theorem renderAll_length (rs : List Utmp) (h : ∀ r ∈ rs, r.WF) : (renderAll rs).length = 384 * rs.length := by
  induction rs with
  | nil => rfl
  | cons r rs ih =>
    have hr := render_length r (h r (by simp))
    have ih' := ih (fun x hx => h x (by simp [hx]))
    simp only [renderAll, List.flatMap_cons, List.length_append, List.length_cons] at ih' ⊢
    omega

theorem records_render (rs : List Utmp) (h : ∀ r ∈ rs, r.WF) (trail : Bytes) (ht : trail.length < 384) :
    records (renderAll rs ++ trail) = rs.map render := by
  unfold records
  have : (renderAll rs ++ trail).length / 384 = rs.length := by
    rw [List.length_append, renderAll_length rs h]; omega
  rw [this]
  exact recordsAux_render rs h trail


/-! ### the good configuration, and one loop iteration under it -/

structure UCfg.Good (c : UCfg) : Prop where
  user : c.userBounded = true
  line : c.lineBounded = true
  host : c.hostBounded = true
  filt : c.filterUserProcess = true
  lits : c.localLits = [display0, display00]
  name : c.localName = localhost
  order : c.tupleOrder = ["ut_user", "ut_line", "ut_host", "ut_tv.tv_sec", "ut_pid"]
  perm : c.pyPerm = [0, 1, 2, 3, 4]
  orNone : c.pyOrNone = [1]

theorem sle16_render (r : Utmp) (h : r.WF) (b : Bytes) : sle16 (render r ++ b) = r.typ := by
  rw [mem_at0]; exact sle16_encS _ _ h.typ

theorem localAny (c : UCfg) (hg : c.Good) (r : Utmp) (h : r.WF) (b : Bytes) :
    c.localLits.any (strcmpEq (render r ++ b) 76) = decide (cut r.host = display0 ∨ cut r.host = display00) := by
  have h1 := strcmpEq_iff (render r ++ b) r.host (afterHost r b) display0 76 (drop76 r h b)
    (by decide) (by rw [h.host]; decide)
  have h2 := strcmpEq_iff (render r ++ b) r.host (afterHost r b) display00 76 (drop76 r h b)
    (by decide) (by rw [h.host]; decide)
  rw [hg.lits]
  simp only [List.any_cons, List.any_nil, Bool.or_false]
  rw [Bool.eq_iff_iff]
  simp only [Bool.or_eq_true, decide_eq_true_iff, h1, h2]

theorem slots_good (c : UCfg) (hg : c.Good) (r : Utmp) (h : r.WF) (b : Bytes) :
    c.tupleOrder.map (slotVal c (render r ++ b)) =
      [.str (cut r.user), .str (cut r.line), .str (hostRule (cut r.host)), .int r.sec, .int r.pid] := by
  have hu := (readStr_bounded (render r ++ b) r.user (afterUser r b) 44 32 (drop44 r h b) h.user).1
  have hl := (readStr_bounded (render r ++ b) r.line (r.id ++ (r.user ++ afterUser r b)) 8 32 (drop8 r b) h.line).1
  have hh := (readStr_bounded (render r ++ b) r.host (afterHost r b) 76 256 (drop76 r h b) h.host).1
  have hs : sle32 ((render r ++ b).drop 340) = r.sec := by rw [drop340 r h]; exact sle32_encS _ _ h.sec
  have hp : sle32 ((render r ++ b).drop 4) = r.pid := by rw [drop4]; exact sle32_encS _ _ h.pid
  rw [hg.order]
  simp only [List.map_cons, List.map_nil, slotVal, hg.user, hg.line, hg.host, hu, hl, hh, hs, hp,
    localAny c hg r h b, hg.name]
  simp [hostRule]

theorem decodeRec_good (c : UCfg) (hg : c.Good) (r : Utmp) (h : r.WF) (b : Bytes) :
    decodeRec c (render r ++ b) =
      if r.typ = 7 then
        some [.str (cut r.user), .str (cut r.line), .str (hostRule (cut r.host)), .int r.sec, .int r.pid]
      else none := by
  unfold decodeRec
  rw [sle16_render r h, hg.filt, slots_good c hg r h b]
  by_cases ht : r.typ = 7
  · simp [ht, USER_PROCESS]
  · simp [ht, USER_PROCESS]

theorem pyRow_good (c : UCfg) (hg : c.Good) (a b d e f : Val) :
    usersPyRow c [a, b, d, e, f] = [a, (if falsy b then .none else b), d, e, f] := by
  unfold usersPyRow
  rw [hg.perm, hg.orNone]
  rfl

/-- every string access of one iteration stays inside the 384-byte record -/
theorem recReads_good (c : UCfg) (hg : c.Good) (r : Utmp) (h : r.WF) (b : Bytes) :
    ∀ s ∈ recReads c (render r ++ b), s ≤ 384 := by
  have hu := (readStr_bounded (render r ++ b) r.user (afterUser r b) 44 32 (drop44 r h b) h.user).2
  have hl := (readStr_bounded (render r ++ b) r.line (r.id ++ (r.user ++ afterUser r b)) 8 32 (drop8 r b) h.line).2
  have hh := (readStr_bounded (render r ++ b) r.host (afterHost r b) 76 256 (drop76 r h b) h.host).2
  intro s hs
  unfold recReads at hs
  rw [hg.user, hg.line, hg.host, hg.lits] at hs
  split at hs
  · simp at hs
  · simp only [List.map_cons, List.map_nil, List.mem_append, List.mem_cons, List.not_mem_nil, or_false] at hs
    rcases hs with (hs | hs) | hs
    · rcases hs with hs | hs <;> omega
    · rcases hs with hs | hs
      · rw [hs]; decide
      · rw [hs]; decide
    · split at hs
      · simp at hs
      · simp only [List.mem_cons, List.not_mem_nil, or_false] at hs; omega

end Psutil.C17
