/- Proofs/C16Locks.lean — one lock at a time per thread ⇒ some thread can always move. Core Lean only. -/
import PsutilModel.Model.C16Locks
namespace Psutil.C16.Locks

/-- a held lock is held by a thread that knows it -/
def Inv (s : St) : Prop := ∀ o t, s.held o = some t → s.cur t = some o

theorem inv_step {s s' : St} (hI : Inv s) (h : Step s s') : Inv s' := by
  cases h with
  | acquire t o rest hc hp hh =>
    intro o' t' hh'
    have hh'' : (if o' = o then some t else s.held o') = some t' := hh'
    show (if t' = t then some o else s.cur t') = some o'
    by_cases e : o' = o
    · subst e
      simp only [if_true, Option.some.injEq] at hh''
      subst hh''; simp
    · simp only [e, if_false] at hh''
      have := hI o' t' hh''
      by_cases e2 : t' = t
      · subst e2; rw [hc] at this; cases this
      · simp only [e2, if_false]; exact this
  | release t o hc =>
    intro o' t' hh'
    have hh'' : (if o' = o then none else s.held o') = some t' := hh'
    show (if t' = t then none else s.cur t') = some o'
    by_cases e : o' = o
    · simp [e] at hh''
    · simp only [e, if_false] at hh''
      have := hI o' t' hh''
      by_cases e2 : t' = t
      · subst e2; rw [hc] at this; exact absurd (Option.some.inj this).symm e
      · simp only [e2, if_false]; exact this

theorem reach_inv {prog : Nat → List Nat} {s : St} (h : Reach prog s) : Inv s := by
  induction h with
  | init => intro o t hh; cases hh
  | step _ hs ih => exact inv_step ih hs

end Psutil.C16.Locks
