/-
  Proofs/C03Walk.lean — the walks over OTHER processes: children(recursive=True) and parents().

  * children(recursive=True): the per-child try block is the one of children() (deny accounting,
    `childBlock_safe`), the inner `for` by induction over the child list, the `while stack` loop by
    induction over the fuel — for every fuel, every map, every stack / seen / ret.
  * parents(): every `parent()` call is safe *for the object it is called on* (`parentCore_safe`);
    the walk calls it on ancestor objects, so what leaves parents() is a psutil error for the object
    or for an ancestor (`PsAny`). With a handler around `proc.parent()` that ends the walk on
    NoSuchProcess / AccessDenied (`repairedParentsCatch`) only errors for the object itself are left.
-/
import PsutilModel.Proofs.C03Deny
namespace Psutil.C03
open Spec

variable (r : Host)

/-! ## children(recursive=True) -/

theorem childrenRecInner_safe (o : Obj) : ∀ (kids : List Nat),
    Tri (PsOnly o.pid) (Fe.childrenRecInner (goodCfg r) o kids) (fun _ => True) := by
  intro kids
  induction kids with
  | nil => unfold Fe.childrenRecInner; exact tri_pure trivial
  | cons q rest ih =>
    unfold Fe.childrenRecInner
    exact tri_bind (childBlock_safe r o q)
      (fun res _ => tri_bind ih (fun _ _ => by split <;> exact tri_pure trivial))

theorem childrenRecWalk_safe (o : Obj) : ∀ (fuel : Nat) (pm : List (Nat × Nat)) (stack seen ret : List Nat),
    Tri (PsOnly o.pid) (Fe.childrenRecWalk (goodCfg r) o fuel pm stack seen ret) (fun _ => True) := by
  intro fuel
  induction fuel with
  | zero => intro pm stack seen ret; unfold Fe.childrenRecWalk; exact tri_pure trivial
  | succ n ih =>
    intro pm stack seen ret
    cases stack with
    | nil => unfold Fe.childrenRecWalk; exact tri_pure trivial
    | cons pid st =>
      unfold Fe.childrenRecWalk
      split
      · exact ih _ _ _ _
      · exact tri_bind (childrenRecInner_safe r o _) (fun acc _ => ih _ _ _ _)

/-- children(recursive=True), for every fuel (`none` = the `len(map) + 1` the model supplies) -/
theorem childrenRecFuel_safe (o : Obj) (fuel : Option Nat) :
    Tri (PsOnly o.pid) (Fe.childrenRecFuel (goodCfg r) o fuel) (fun _ => True) := by
  unfold Fe.childrenRecFuel
  refine tri_bind (tri_exc (raiseIfPidReused_safe r o) (fun _ _ _ h => nspOnly_psOnly h)) (fun _ _ => ?_)
  refine tri_bind (tri_exc (ppidMap_safe r) (fun _ _ _ h => h.elim)) (fun pm _ => ?_)
  exact tri_bind (childrenRecWalk_safe r o _ _ _ _ _) (fun _ _ => tri_pure trivial)

/-! ## parents() -/

theorem lowestPid_safe {E : Ctx → Nat → PyExc → Prop} : Tri E Fe.lowestPid (fun _ => True) := by
  unfold Fe.lowestPid
  refine tri_bind tri_listdir_root (fun pids hne => ?_)
  split
  · rename_i hnone
    exact absurd (foldl_min_none _ _ hnone).1 hne
  · exact tri_pure trivial

/-- the try block of parent(), returning the parent object: nothing leaves it; the object it
    returns carries the parent's pid -/
theorem parentCoreBlock_safe (o : Obj) (pp ctime : Nat) :
    Tri (PsOnly o.pid)
      (tryCatch
        (do let par ← Fe.mkProcess (goodCfg r) pp
            let pt ← Fe.createTime (goodCfg r) par
            if pt ≤ ctime then pure (some (par, pt)) else pure none)
        (fun e => if catches (goodCfg r).parentCatch e then some (pure none) else none))
      (fun _ => True) := by
  intro c s ha hi
  have hA := mkProcess_K r pp c s ha hi
  unfold tryCatch
  simp only [bind_eq, M.bind]
  rcases hrA : Fe.mkProcess (goodCfg r) pp c s with ⟨ra, s1⟩
  rw [hrA] at hA
  cases ra with
  | error e =>
    obtain ⟨he, _, hci⟩ := hA
    subst he
    have : catches (goodCfg r).parentCatch (.nsp pp) = true := by rfl
    simp only [this, ↓reduceIte]
    exact ⟨trivial, hci⟩
  | ok par =>
    obtain ⟨hpid, hden, hk1, hci1⟩ := hA
    simp only
    have hC := fe_createTime_K r par c s1 ha hci1
    rcases hrC : Fe.createTime (goodCfg r) par c s1 with ⟨rc, s2⟩
    rw [hrC] at hC
    cases rc with
    | ok pt =>
      simp only
      by_cases hle : pt ≤ ctime <;> simp only [hle, ↓reduceIte, pure_eq, M.pure] <;> exact ⟨trivial, hC.2.2⟩
    | error e =>
      obtain ⟨hE, _, hci2⟩ := hC
      simp only
      rw [hpid] at hE
      rcases hE with he | ⟨he, hd⟩ <;> subst he
      · have : catches (goodCfg r).parentCatch (.nsp pp) = true := by rfl
        simp only [this, ↓reduceIte]
        exact ⟨trivial, hci2⟩
      · exfalso
        cases hct : par.ct with
        | some x => rw [fe_createTime_some r par x hct] at hrC; cases hrC
        | none => exact deniedIn_disjoint ha (Nat.le_refl _) (hden hct) hd

/-- one parent() call, on whatever object (the target or an ancestor), whatever its caches: a value or a
    psutil error carrying THAT object's pid -/
theorem parentCore_safe (lowest : Nat) (o : Obj) (cached : Option Nat) :
    Tri (PsOnly o.pid) (Fe.parentCore (goodCfg r) lowest o cached) (fun _ => True) := by
  unfold Fe.parentCore
  split
  · -- the lowest-PID stop: (since d7107b4) the identity probe first — NoSuchProcess(pid of THIS object) or None
    exact tri_bind (tri_exc (rootStop_safe r o) (fun _ _ _ h => nspOnly_psOnly h)) (fun _ _ => tri_pure trivial)
  · refine tri_bind (fe_ppid_safe r o) (fun pp _ => ?_)
    refine tri_bind (Q := fun _ => True) ?_ (fun ct _ => parentCoreBlock_safe r o pp ct)
    cases cached with
    | some x => exact tri_pure trivial
    | none => exact fe_createTime_safe r o

/-- NoSuchProcess / ZombieProcess / AccessDenied carrying some pid -/
def PsAny : Ctx → Nat → PyExc → Prop := fun c k e => ∃ q, PsOnly q c k e

theorem psOnly_any {p : Nat} {c : Ctx} {k : Nat} {e : PyExc} (h : PsOnly p c k e) : PsAny c k e := ⟨p, h⟩

/-- the walk as the source has it (no handler around `proc.parent()`): psutil errors only, but possibly
    carrying an ancestor's pid -/
theorem parentsLoop_any (lowest : Nat) : ∀ (fuel : Nat) (proc : Obj) (ct : Nat) (seen : List Nat),
    Tri PsAny (Fe.parentsLoop (goodCfg r) [] lowest fuel proc ct seen) (fun _ => True) := by
  intro fuel
  induction fuel with
  | zero => intro proc ct seen; unfold Fe.parentsLoop; exact tri_pure trivial
  | succ n ih =>
    intro proc ct seen
    unfold Fe.parentsLoop
    refine tri_bind (Q := fun _ => True) ?_ (fun res _ => ?_)
    · refine tri_tryCatch (E' := PsAny) ?_ (fun e _ c k he => he) (fun e m' h _ => ?_)
      · exact tri_bind (tri_exc (parentCore_safe r lowest proc (some ct)) (fun _ _ _ h => psOnly_any h))
          (fun _ _ => tri_pure trivial)
      · simp [catches] at h
    · split
      · exact tri_pure trivial
      · exact tri_pure trivial
      · split
        · exact tri_pure trivial
        · exact tri_bind (ih _ _ _) (fun _ _ => tri_pure trivial)

/-- the handler the repair puts around `proc = proc.parent()`: `except (NoSuchProcess, AccessDenied): break` -/
def repairedParentsCatch : List String := ["NoSuchProcess", "AccessDenied"]

/-- the repaired walk raises nothing at all: whatever an ancestor's parent() raises ends the walk -/
theorem parentsLoop_repaired (lowest : Nat) : ∀ (fuel : Nat) (proc : Obj) (ct : Nat) (seen : List Nat),
    Tri NoExc (Fe.parentsLoop (goodCfg r) repairedParentsCatch lowest fuel proc ct seen) (fun _ => True) := by
  intro fuel
  induction fuel with
  | zero => intro proc ct seen; unfold Fe.parentsLoop; exact tri_pure trivial
  | succ n ih =>
    intro proc ct seen
    unfold Fe.parentsLoop
    refine tri_bind (Q := fun _ => True) ?_ (fun res _ => ?_)
    · refine tri_tryCatch (E' := PsOnly proc.pid) ?_ (fun e h c k he => ?_) (fun e m' h _ => ?_)
      · exact tri_bind (parentCore_safe r lowest proc (some ct)) (fun _ _ => tri_pure trivial)
      · rcases he with he | he | he <;> subst he <;>
          simp [repairedParentsCatch, catches, PyExc.bases] at h
      · split at h
        · injection h with h; subst h; exact tri_pure trivial
        · cases h
    · split
      · exact tri_pure trivial
      · exact tri_pure trivial
      · split
        · exact tri_pure trivial
        · exact tri_bind (ih _ _ _) (fun _ _ => tri_pure trivial)

theorem askFuel_safe {E : Ctx → Nat → PyExc → Prop} : Tri E Fe.askFuel (fun _ => True) := by
  intro c s _ hi; exact ⟨trivial, hi⟩

/-- parents() as it is: a value or a psutil error for the object or one of its ancestors -/
theorem parentsFuel_any (o : Obj) (fuel : Option Nat) :
    Tri PsAny (Fe.parentsFuel (goodCfg r) [] o fuel) (fun _ => True) := by
  unfold Fe.parentsFuel
  refine tri_bind lowestPid_safe (fun lowest _ => ?_)
  refine tri_bind (tri_exc (parentCore_safe r lowest o none) (fun _ _ _ h => psOnly_any h)) (fun res _ => ?_)
  split
  · exact tri_pure trivial
  · split
    · exact tri_pure trivial
    · refine tri_bind askFuel_safe (fun d _ => ?_)
      exact tri_bind (parentsLoop_any r lowest _ _ _ _) (fun _ _ => tri_pure trivial)

/-- parents() with the repaired loop: a value or a psutil error for the object's own pid -/
theorem parentsFuel_repaired (o : Obj) (fuel : Option Nat) :
    Tri (PsOnly o.pid) (Fe.parentsFuel (goodCfg r) repairedParentsCatch o fuel) (fun _ => True) := by
  unfold Fe.parentsFuel
  refine tri_bind lowestPid_safe (fun lowest _ => ?_)
  refine tri_bind (parentCore_safe r lowest o none) (fun res _ => ?_)
  split
  · exact tri_pure trivial
  · split
    · exact tri_pure trivial
    · refine tri_bind askFuel_safe (fun d _ => ?_)
      exact tri_bind (tri_exc (parentsLoop_repaired r lowest _ _ _ _) (fun _ _ _ h => h.elim))
        (fun _ _ => tri_pure trivial)

end Psutil.C03
