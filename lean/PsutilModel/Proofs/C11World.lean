/-
  Proofs/C11World.lean — from lines to files to the whole rendered procfs: the inode map of a
  rendered world is the holder relation, a rendered file is parsed into the rows of its sockets.
-/
import PsutilModel.Proofs.C11Lines
import PsutilModel.Proofs.C11Inodes
set_option linter.unusedSimpArgs false
namespace Psutil.C11
open Spec

theorem filterMap_congr' {α β : Type} {f g : α → Option β} (l : List α) (h : ∀ a ∈ l, f a = g a) :
    l.filterMap f = l.filterMap g := by
  induction l with
  | nil => rfl
  | cons a as ih =>
    simp only [List.filterMap_cons, h a (by simp)]
    rw [ih (fun x hx => h x (by simp [hx]))]

theorem flatMap_congr' {α β : Type} {f g : α → List β} (l : List α) (h : ∀ a ∈ l, f a = g a) :
    l.flatMap f = l.flatMap g := by
  induction l with
  | nil => rfl
  | cons a as ih =>
    simp only [List.flatMap_cons, h a (by simp)]
    rw [ih (fun x hx => h x (by simp [hx]))]

/-! ### fd links -/

theorem renderDec_inj {a b : Nat} (h : renderDec a = renderDec b) : a = b := by
  have h1 := parseDec_renderDec a
  rw [h, parseDec_renderDec] at h1
  exact (Option.some.inj h1).symm

theorem lit_socket : lit "socket:[" = socketPrefix := by decide

theorem keyOf_sock (j : Nat) : keyOf (renderTarget (.sock j)) = some (renderDec j) := by
  simp [renderTarget, keyOf, lit_socket, socketPrefix, startsWith, List.isPrefixOf]

theorem keyOf_other (t : Bytes) (h : (Target.other t).WF) : keyOf (renderTarget (.other t)) = none := by
  simp only [Target.WF] at h
  simp [renderTarget, keyOf, h]

theorem keyOf_gone : keyOf (renderTarget .gone) = none := rfl

def renderFds (fds : List (Nat × Target)) : List FdEntry := fds.map fun e => (e.1, renderTarget e.2)

theorem hits_render (pid i : Nat) (fds : List (Nat × Target)) (hw : ∀ e ∈ fds, e.2.WF) :
    hits pid (renderDec i) (renderFds fds)
      = fds.filterMap fun e => if e.2 = .sock i then some (pid, e.1) else none := by
  unfold hits renderFds
  rw [List.filterMap_map]
  apply filterMap_congr'
  intro e he
  simp only [Function.comp]
  cases ht : e.2 with
  | sock j =>
    rw [keyOf_sock]
    by_cases hji : j = i
    · subst hji; simp
    · have : renderDec j ≠ renderDec i := fun h => hji (renderDec_inj h)
      simp [this, hji]
  | other t =>
    have := hw e he
    rw [ht] at this
    rw [keyOf_other t this]; simp
  | gone => rw [keyOf_gone]; simp

theorem renderWorld_procs (le : Bool) (w : World) :
    (renderWorld le w).procs = w.procs.map fun p => (p.1, p.2.map renderFds) := rfl

/-- **the inode map is the holder relation**: for every socket inode, the merged map holds exactly
    the visible `(pid, fd)` holders, in listing order -/
theorem allHits_render (le : Bool) (w : World) (hw : w.WF) (i : Nat) :
    allHits (renderDec i) (renderWorld le w).procs = holders w i := by
  rw [renderWorld_procs]
  unfold allHits holders
  rw [List.flatMap_map]
  apply flatMap_congr'
  intro p hp
  cases hfd : p.2 with
  | none => simp
  | some fds =>
    simp only [Option.map_some]
    exact hits_render p.1 i fds (hw.targets p hp fds hfd)

/-! ### lines never contain a newline -/

theorem not_mem_of_noWs {t : Bytes} (h : NoWs t) : 10 ∉ t := by
  intro hm
  have := h 10 hm
  simp [isWs] at this

theorem nl_not_mem_fieldsLine (fs : List (Nat × Bytes)) (hf : FieldsOK fs) : 10 ∉ fieldsLine fs := by
  induction fs with
  | nil => simp [fieldsLine]
  | cons f fs ih =>
    rw [fieldsLine_cons]
    intro hm
    rcases List.mem_append.mp hm with h | h
    · simp [List.mem_replicate] at h
    · rcases List.mem_append.mp h with h | h
      · exact not_mem_of_noWs (hf f (by simp)).2 h
      · exact ih (fun g hg => hf g (by simp [hg])) h

theorem nl_not_mem_inetLine (le tcp : Bool) (sl : Nat) (s : Sock) : 10 ∉ inetLine le tcp sl s := by
  unfold inetLine padRight
  intro hm
  rcases List.mem_append.mp hm with h | h
  · exact nl_not_mem_fieldsLine _ (fieldsOK_inet le tcp sl s) h
  · simp [List.mem_replicate] at h

theorem nl_not_mem_unixLine (s : Sock) (hu : s.fam = .unix) (hw : s.WF) : 10 ∉ unixLine s := by
  simp only [Sock.WF, hu] at hw
  unfold unixLine
  intro hm
  rcases List.mem_append.mp hm with h | h
  · exact nl_not_mem_fieldsLine _ (fieldsOK_unix s) h
  · cases hp : s.path with
    | none => rw [hp] at h; cases h
    | some p =>
      rw [hp] at h
      rcases List.mem_cons.mp h with h | h
      · cases h
      · exact hw.2 p hp h

/-! ### whole files -/

/-- `inodes[inode][0]` or `(None, -1)` -/
def firstOwner (inodes : Inodes) (k : Bytes) : Option Nat × Int :=
  match sem inodes k with
  | (pid, fd) :: _ => (some pid, (fd : Int))
  | [] => (none, -1)

theorem pidFd_of_inv (inodes : Inodes) (hi : Inv inodes) (k : Bytes) :
    pidFd inodes k = .ok (firstOwner inodes k) := by
  unfold pidFd firstOwner sem
  cases h : inodes.lookup k with
  | none => rfl
  | some l =>
    cases l with
    | nil => exact absurd rfl (hi k [] h)
    | cons a as => rfl

/-- the row `process_inet` yields for socket `s` (or none when filtered out) -/
def inetRow? (inodes : Inodes) (fp : Option Nat) (s : Sock) : Option Row :=
  if filteredOut fp (firstOwner inodes (renderDec s.inode)).1 then none
  else some (rowFor s (firstOwner inodes (renderDec s.inode)).1 (firstOwner inodes (renderDec s.inode)).2)

theorem processInetLines_render (c : Cfg) (hg : c.Good) (f : Fam) (typ : Nat) (inodes : Inodes) (hi : Inv inodes)
    (fp : Option Nat) (socks : List Sock)
    (hs : ∀ s ∈ socks, IsInet s ∧ s.WF ∧ s.fam = f ∧ s.typ = typ) :
    ∀ sl, processInetLines c f.num typ inodes fp (inetLines c.littleEndian (typ == 1) sl socks)
      = .ok (socks.filterMap (inetRow? inodes fp)) := by
  induction socks with
  | nil => intro sl; rfl
  | cons s ss ih =>
    intro sl
    obtain ⟨h1, h2, h3, h4⟩ := hs s (by simp)
    have ih' := ih (fun x hx => hs x (by simp [hx])) (sl + 1)
    simp only [inetLines, processInetLines]
    have := processInetLine_render c hg s h1 h2 sl inodes fp
    rw [h3, h4] at this
    rw [this, pidFd_of_inv inodes hi, ih']
    simp only [List.filterMap_cons, inetRow?]
    cases hf : filteredOut fp (firstOwner inodes (renderDec s.inode)).1 <;> simp [hf]

theorem nl_not_mem_inetLines (le tcp : Bool) (socks : List Sock) :
    ∀ sl, ∀ l ∈ inetLines le tcp sl socks, 10 ∉ l := by
  induction socks with
  | nil => intro sl l hl; cases hl
  | cons s ss ih =>
    intro sl l hl
    simp only [inetLines, List.mem_cons] at hl
    rcases hl with h | h
    · rw [h]; exact nl_not_mem_inetLine le tcp sl s
    · exact ih (sl + 1) l h

/-- a whole rendered tcp/udp file is parsed into the rows of its sockets, in file order -/
theorem processInet_render (c : Cfg) (hg : c.Good) (name : String) (f : Fam) (typ : Nat) (header : Bytes)
    (hh : 10 ∉ header) (inodes : Inodes) (hi : Inv inodes) (fp : Option Nat) (socks : List Sock)
    (hs : ∀ s ∈ socks, IsInet s ∧ s.WF ∧ s.fam = f ∧ s.typ = typ) :
    processInet c name (some (fileOf header (inetLines c.littleEndian (typ == 1) 0 socks))) f.num typ inodes fp
      = .ok (socks.filterMap (inetRow? inodes fp)) := by
  unfold processInet
  simp only []
  rw [linesOf_fileOf header _ hh (nl_not_mem_inetLines _ _ socks 0)]
  simp only [List.drop_succ_cons, List.drop_zero]
  exact processInetLines_render c hg f typ inodes hi fp socks hs 0

/-- the rows `process_unix` yields for socket `s` -/
def unixRows (inodes : Inodes) (fp : Option Nat) (s : Sock) : List Row :=
  ((ownerPairs inodes (renderDec s.inode)).filter (fun p => !filteredOut fp p.1)).map (fun p => rowFor s p.1 p.2)

theorem processUnixLines_render (c : Cfg) (hg : c.Good) (inodes : Inodes) (fp : Option Nat) (socks : List Sock)
    (hs : ∀ s ∈ socks, s.fam = .unix ∧ s.WF) :
    processUnixLines c inodes fp (socks.map unixLine) = .ok (socks.flatMap (unixRows inodes fp)) := by
  induction socks with
  | nil => rfl
  | cons s ss ih =>
    obtain ⟨h1, h2⟩ := hs s (by simp)
    have ih' := ih (fun x hx => hs x (by simp [hx]))
    simp only [List.map_cons, processUnixLines]
    rw [processUnixLine_render c hg s h1 h2 inodes fp, ih']
    simp [unixRows]

theorem processUnix_render (c : Cfg) (hg : c.Good) (inodes : Inodes) (fp : Option Nat) (socks : List Sock)
    (hs : ∀ s ∈ socks, s.fam = .unix ∧ s.WF) :
    processUnix c (some (fileOf unixHeader (socks.map unixLine))) inodes fp
      = .ok (socks.flatMap (unixRows inodes fp)) := by
  unfold processUnix
  simp only []
  have hh : 10 ∉ unixHeader := by decide
  have hl : ∀ l ∈ socks.map unixLine, 10 ∉ l := by
    intro l hl
    obtain ⟨s, hs', rfl⟩ := List.mem_map.mp hl
    exact nl_not_mem_unixLine s (hs s hs').1 (hs s hs').2
  rw [linesOf_fileOf unixHeader _ hh hl]
  simp only [List.drop_succ_cons, List.drop_zero]
  exact processUnixLines_render c hg inodes fp socks hs

end Psutil.C11
