/-
  Proofs/C17Py.lean — round 2: RootFsDeviceFinder on kernel-consistent trees, net_if_stats() assembly,
  net_if_addrs() front end (Model/C17Py.lean against Spec/C17Py.lean).
-/
import PsutilModel.Spec.C17Py
import PsutilModel.Proofs.C17Parts
import PsutilModel.Proofs.C17Mnt
namespace Psutil.C17
open Spec

structure FCfg.Good (c : FCfg) : Prop where
  skip : c.partSkip = 2
  minf : c.partMinFields = 4
  maj : c.partMajorIdx = 0
  min : c.partMinorIdx = 1
  nam : c.partNameIdx = 3
  pre : c.devPrefixes = [[47, 100, 101, 118, 47], [47, 100, 101, 118, 47], [47, 100, 101, 118, 47]]
  keys : c.ueventKeys = [[68, 69, 86, 78, 65, 77, 69, 61], [68, 69, 86, 78, 65, 77, 69, 61]]
  order : c.order = ["ask_proc_partitions", "ask_sys_dev_block", "ask_sys_class_block"]
  ex : c.existsCheck = true
  needle : c.needleOrder = ["major", "minor"]

theorem splitWsGo_spaces (k : Nat) (rest : Bytes) : splitWsGo (List.replicate k 32 ++ rest) [] = splitWsGo rest [] := by
  induction k with
  | zero => simp
  | succ k ih =>
    simp only [List.replicate_succ, List.cons_append, splitWsGo]
    simpa [isWs] using ih

theorem splitWsGo_tok_sp (t rest : Bytes) (hne : t ≠ []) (h : NoWs t) :
    splitWsGo (t ++ 32 :: rest) [] = t :: splitWsGo rest [] := by
  rw [splitWsGo_token t _ [] h, List.append_nil, splitWsGo_ws 32 rest _ (by decide) (by simpa using hne)]
  simp

theorem splitWsGo_last (t : Bytes) (hne : t ≠ []) (h : NoWs t) : splitWsGo t [] = [t] := by
  have := splitWsGo_token t [] [] h
  simp only [List.append_nil] at this
  rw [this]
  cases hr : t.reverse with
  | nil => exact absurd (by simpa using hr) hne
  | cons a as =>
    have : t = (a :: as).reverse := by rw [← hr]; simp
    simp [splitWsGo, this]

theorem splitWs_partLine (d : BlockDev) (h : d.WF) :
    splitWs (partLineOf d) = [renderDec d.major, renderDec d.minor, renderDec d.blocks, d.name] := by
  unfold splitWs partLineOf padL
  have e : List.replicate (4 - (renderDec d.major).length) 32 ++ renderDec d.major ++ [32, 32]
      ++ (List.replicate (7 - (renderDec d.minor).length) 32 ++ renderDec d.minor) ++ [32]
      ++ (List.replicate (10 - (renderDec d.blocks).length) 32 ++ renderDec d.blocks) ++ [32] ++ d.name
      = List.replicate (4 - (renderDec d.major).length) 32 ++ (renderDec d.major ++ 32 :: (List.replicate 1 32 ++
        (List.replicate (7 - (renderDec d.minor).length) 32 ++ (renderDec d.minor ++ 32 ::
        (List.replicate (10 - (renderDec d.blocks).length) 32 ++ (renderDec d.blocks ++ 32 :: d.name)))))) := by
    simp [List.append_assoc]
  rw [e, splitWsGo_spaces, splitWsGo_tok_sp _ _ (renderDec_ne_nil _) (renderDec_noWs _), splitWsGo_spaces,
    splitWsGo_spaces, splitWsGo_tok_sp _ _ (renderDec_ne_nil _) (renderDec_noWs _), splitWsGo_spaces,
    splitWsGo_tok_sp _ _ (renderDec_ne_nil _) (renderDec_noWs _), splitWsGo_last _ h.ne h.nows]

theorem pyDigitsInt_renderDec (n : Nat) : pyDigitsInt (renderDec n) = some n := by
  unfold pyDigitsInt
  have h1 : renderDec n ≠ [] := renderDec_ne_nil n
  have h2 : (renderDec n).all isDigit = true := by
    rw [List.all_eq_true]; exact renderDec_isDigit n
  simp [h1, h2, parseDec_renderDec]

theorem partLine_good (c : FCfg) (hg : c.Good) (M m : Nat) (d : BlockDev) (h : d.WF) :
    partLine c M m (partLineOf d) = if d.major = M ∧ d.minor = m then .found (devPath d) else .nothing := by
  unfold partLine
  simp only [splitWs_partLine d h, hg.minf, hg.maj, hg.min, hg.nam, FCfg.needle, hg.needle, if_true,
    List.length_cons, List.length_nil, FCfg.devPrefix, hg.pre]
  simp only [devPath]
  by_cases hM : d.major = M <;> by_cases hm : d.minor = m <;> simp [hM, hm, h.ne, pyDigitsInt_renderDec]

theorem firstAsk_map_find (f : Bytes → Ask) (g : BlockDev → Bytes) (p : BlockDev → Bool) (ds : List BlockDev)
    (hf : ∀ d ∈ ds, f (g d) = if p d then .found (devPath d) else .nothing) :
    firstAsk f (ds.map g) = match ds.find? p with | some d => .found (devPath d) | none => .nothing := by
  induction ds with
  | nil => rfl
  | cons d ds ih =>
    have hd := hf d (by simp)
    have ih' := ih (fun x hx => hf x (by simp [hx]))
    simp only [List.map_cons, firstAsk, hd, List.find?_cons]
    cases hp : p d <;> simp [ih']

/-- ask_proc_partitions on the kernel's rendering of a device list -/
theorem askPartLines_consistent (c : FCfg) (hg : c.Good) (M m : Nat) (ds : List BlockDev) (h : ∀ d ∈ ds, d.WF) :
    askPartLines c M m (partLinesOf ds) =
      match rootOf ds M m with | some d => .found (devPath d) | none => .nothing := by
  unfold askPartLines partLinesOf partHeader rootOf
  rw [hg.skip]
  simp only [List.cons_append, List.nil_append, List.drop_succ_cons, List.drop_zero]
  exact firstAsk_map_find _ _ (fun d => decide (d.major = M ∧ d.minor = m)) ds
    (fun d hd => by rw [partLine_good c hg M m d (h d hd)]; by_cases hh : d.major = M ∧ d.minor = m <;> simp [hh])


def devnameKey : Bytes := [68, 69, 86, 78, 65, 77, 69, 61]

theorem afterLast_none_of_noeq (s : Bytes) (h : 61 ∉ s) : afterLast devnameKey s = none := by
  induction s with
  | nil => simp [afterLast, devnameKey]
  | cons c cs ih =>
    have hc : 61 ∉ cs := fun hh => h (by simp [hh])
    simp only [afterLast, ih hc]
    have : startsWith devnameKey (c :: cs) = false := by
      cases hs : startsWith devnameKey (c :: cs) with
      | false => rfl
      | true =>
        exfalso
        unfold startsWith at hs
        have hp := List.isPrefixOf_iff_prefix.mp hs
        have : (61 : Nat) ∈ c :: cs := hp.subset (by simp [devnameKey])
        exact h this
    simp [this]

theorem afterLast_devname (name : Bytes) (h : 61 ∉ name) : afterLast devnameKey (devnameKey ++ name) = some name := by
  have hn := afterLast_none_of_noeq name h
  simp [devnameKey, afterLast, startsWith, List.isPrefixOf] at hn ⊢
  simp [hn]


theorem ueventLines_consistent (c : FCfg) (hg : c.Good) (d : BlockDev) (h : d.WF) :
    askUeventLines c (ueventLinesOf d) = .found (devPath d) := by
  have hkey0 : c.ueventKeys.getD 0 [] = devnameKey := by rw [hg.keys]; rfl
  have hkey1 : c.ueventKeys.getD 1 [] = devnameKey := by rw [hg.keys]; rfl
  have hpre : c.devPrefix 1 = [47, 100, 101, 118, 47] := by unfold FCfg.devPrefix; rw [hg.pre]; rfl
  have hstrip : stripWs (devnameKey ++ d.name) = devnameKey ++ d.name := by
    apply stripWs_nows
    · simp [devnameKey]
    · intro x hx
      simp only [List.mem_append] at hx
      rcases hx with hx | hx
      · simp only [devnameKey, List.mem_cons, List.not_mem_nil, or_false] at hx
        rcases hx with rfl | rfl | rfl | rfl | rfl | rfl | rfl | rfl <;> decide
      · exact h.nows x hx
  have l1 : ueventLine c ([77, 65, 74, 79, 82, 61] ++ renderDec d.major) = .nothing := by
    have : startsWith devnameKey ([77, 65, 74, 79, 82, 61] ++ renderDec d.major) = false := by
      simp [startsWith, devnameKey, List.isPrefixOf]
    simp only [ueventLine, hkey0, this, Bool.false_eq_true, if_false]
  have l2 : ueventLine c ([77, 73, 78, 79, 82, 61] ++ renderDec d.minor) = .nothing := by
    have : startsWith devnameKey ([77, 73, 78, 79, 82, 61] ++ renderDec d.minor) = false := by
      simp [startsWith, devnameKey, List.isPrefixOf]
    simp only [ueventLine, hkey0, this, Bool.false_eq_true, if_false]
  have l3 : ueventLine c (devnameKey ++ d.name) = .found (devPath d) := by
    have hs : startsWith devnameKey (devnameKey ++ d.name) = true := by
      simp [startsWith, devnameKey, List.isPrefixOf]
    simp only [ueventLine, hkey0, hkey1, hs, if_true, hstrip, afterLast_devname d.name h.noeq, Option.getD_some, hpre, devPath]
    simp [h.ne]
  simp only [askUeventLines, ueventLinesOf, firstAsk, l1, l2]
  rw [show ([68, 69, 86, 78, 65, 77, 69, 61] : Bytes) = devnameKey from rfl, l3]

theorem needleText_inj (a b a' b' : Nat) (h : needleText a b = needleText a' b') : a = a' ∧ b = b' := by
  unfold needleText at h
  have n1 : ∀ n : Nat, ∀ x ∈ renderDec n, (fun c : Nat => c != 58) x = true := by
    intro n x hx
    have := renderDec_isDigit n x hx
    simp only [isDigit, Bool.and_eq_true, decide_eq_true_eq] at this
    simp; omega
  have t1 := takeWhile_prefix (fun c : Nat => c != 58) (renderDec a) 58 (renderDec b) (n1 a) (by decide)
  have t2 := takeWhile_prefix (fun c : Nat => c != 58) (renderDec a') 58 (renderDec b') (n1 a') (by decide)
  simp only [List.append_assoc, List.singleton_append] at h
  rw [h, t2] at t1
  have ha : a' = a := by
    have := congrArg parseDec? t1
    simpa [parseDec_renderDec] using this
  subst ha
  have hb := List.append_cancel_left h
  injection hb with _ hb
  have := congrArg parseDec? hb
  exact ⟨rfl, by simpa [parseDec_renderDec] using this⟩

theorem stripWs_classDev (d : BlockDev) : stripWs (classDevOf d) = needleText d.major d.minor := by
  unfold classDevOf needleText
  have hne : renderDec d.major ++ [58] ++ renderDec d.minor ≠ [] := by simp
  have hnows : ∀ x ∈ renderDec d.major ++ [58] ++ renderDec d.minor, isWs x = false := by
    intro x hx
    simp only [List.mem_append, List.mem_singleton] at hx
    rcases hx with (hx | rfl) | hx
    · exact renderDec_noWs _ x hx
    · decide
    · exact renderDec_noWs _ x hx
  -- strip removes the trailing newline only
  obtain ⟨a, s, hs⟩ : ∃ a s, renderDec d.major ++ [58] ++ renderDec d.minor = a :: s := by
    cases hh : renderDec d.major ++ [58] ++ renderDec d.minor with
    | nil => exact absurd hh hne
    | cons a s => exact ⟨a, s, rfl⟩
  have hstr := stripWs_nows _ hne hnows
  rw [hs] at hstr hnows ⊢
  have ha : isWs a = false := hnows a (by simp)
  unfold stripWs at hstr ⊢
  simp only [List.cons_append, lstripWs_cons_nows a _ ha] at hstr ⊢
  unfold rstripWs at hstr ⊢
  have : (a :: (s ++ [10])).reverse = 10 :: (a :: s).reverse := by simp
  rw [this]
  have h10 : isWs 10 = true := by decide
  simp only [lstripWs, h10, if_true]
  exact hstr


def expected (ds : List BlockDev) (M m : Nat) : Ask :=
  match rootOf ds M m with | some d => .found (devPath d) | none => .nothing

theorem classBlock_consistent (c : FCfg) (hg : c.Good) (M m : Nat) (cls : List BlockDev) :
    askSysClassBlock c M m (cls.map (fun d => (d.name, some (classDevOf d)))) = expected cls M m := by
  have hpre : c.devPrefix 2 = [47, 100, 101, 118, 47] := by unfold FCfg.devPrefix; rw [hg.pre]; rfl
  have hnd : c.needle M m = (M, m) := by simp [FCfg.needle, hg.needle]
  unfold expected rootOf
  induction cls with
  | nil => rfl
  | cons d ds ih =>
    simp only [List.map_cons, askSysClassBlock, stripWs_classDev, hnd, List.find?_cons]
    by_cases hp : d.major = M ∧ d.minor = m
    · have : needleText d.major d.minor = needleText M m := by rw [hp.1, hp.2]
      simp [this, hp, hpre, devPath]
    · have : needleText d.major d.minor ≠ needleText M m := fun hh => hp (needleText_inj _ _ _ _ hh)
      simp only [this, if_false, hp, decide_false]
      exact ih

theorem expected_perm (ds cls : List BlockDev) (M m : Nat)
    (uniq : ∀ d ∈ ds, ∀ e ∈ ds, d.major = e.major → d.minor = e.minor → d = e)
    (same : ∀ d, d ∈ cls ↔ d ∈ ds) : expected cls M m = expected ds M m := by
  unfold expected rootOf
  cases h1 : ds.find? (fun d => decide (d.major = M ∧ d.minor = m)) with
  | none =>
    have hn : cls.find? (fun d => decide (d.major = M ∧ d.minor = m)) = none := by
      rw [List.find?_eq_none] at h1 ⊢
      intro x hx; exact h1 x ((same x).1 hx)
    rw [hn]
  | some d =>
    have hd := List.mem_of_find?_eq_some h1
    have hp := List.find?_some h1
    simp only [decide_eq_true_eq] at hp
    cases h2 : cls.find? (fun d => decide (d.major = M ∧ d.minor = m)) with
    | none =>
      rw [List.find?_eq_none] at h2
      exact absurd (by simpa using hp) (h2 d ((same d).2 hd))
    | some e =>
      have he := (same e).1 (List.mem_of_find?_eq_some h2)
      have hq := List.find?_some h2
      simp only [decide_eq_true_eq] at hq
      have : e = d := uniq e he d hd (by rw [hq.1, hp.1]) (by rw [hq.2, hp.2])
      rw [this]

/-- **the three strategies agree** on a tree in which /proc/partitions, /sys/dev/block and
    /sys/class/block show the same devices: each answers `/dev/<name>` of the device whose number is
    the root's, or nothing when no listed device has that number -/
theorem strategies_agree (c : FCfg) (hg : c.Good) (ds cls : List BlockDev) (s : RootSys) (h : Consistent ds cls s) :
    runStrategy c s "ask_proc_partitions" = expected ds s.major s.minor
    ∧ runStrategy c s "ask_sys_dev_block" = expected ds s.major s.minor
    ∧ runStrategy c s "ask_sys_class_block" = expected ds s.major s.minor := by
  have hnd : c.needle s.major s.minor = (s.major, s.minor) := by simp [FCfg.needle, hg.needle]
  refine ⟨?_, ?_, ?_⟩
  · obtain ⟨t, ht, hl⟩ := h.parts
    have e : runStrategy c s "ask_proc_partitions" = askProcPartitions c s.major s.minor t := by
      simp [runStrategy, ht]
    rw [e, askProcPartitions, hl, askPartLines_consistent c hg _ _ ds h.wf]
    rfl
  · have e : runStrategy c s "ask_sys_dev_block" =
        (match s.uevent s.major s.minor with | none => .nothing | some t => askSysDevBlock c t) := by
      simp only [runStrategy, hnd]
      rfl
    rw [e]
    rcases h.uev s.major s.minor with ⟨t, d, ht, hr, hl⟩ | ⟨hn, hr⟩
    · have hd : d ∈ ds := List.mem_of_find?_eq_some hr
      simp only [ht, askSysDevBlock, hl, ueventLines_consistent c hg d (h.wf d hd), expected, hr]
    · simp only [hn, expected, hr]
  · have e : runStrategy c s "ask_sys_class_block" = askSysClassBlock c s.major s.minor s.classDevs := by
      simp [runStrategy]
    rw [e, h.cls, classBlock_consistent c hg, expected_perm ds cls _ _ h.uniq h.sameSet]

/-- `find()` on such a tree: the root device's path when it exists in /dev, else None — and it is
    the FIRST strategy that answers; the others are only fallbacks -/
theorem rootFind_consistent (c : FCfg) (hg : c.Good) (ds cls : List BlockDev) (s : RootSys) (h : Consistent ds cls s) :
    rootFind c s = match rootOf ds s.major s.minor with
      | some d => if s.pathExists (devPath d) then .found (devPath d) else .nothing
      | none => .nothing := by
  obtain ⟨h1, h2, h3⟩ := strategies_agree c hg ds cls s h
  unfold rootFind
  rw [hg.order, hg.ex]
  simp only [findChain, h1, h2, h3, expected]
  cases rootOf ds s.major s.minor with
  | none => rfl
  | some d => simp

/-! ### net_if_stats() -/

structure TCfg.Good (t : TCfg) : Prop where
  tol : t.ethTolerated = [95, 22]
  unk : t.duplexUnknownC = 255
  map : t.duplexMap = [(1, 2), (0, 1), (255, 0)]
  skip : t.skipErrno = 19
  order : t.callOrder = ["net_if_mtu", "net_if_flags", "net_if_duplex_speed"]
  sep : t.flagSep = [44]
  isup : t.isupFlag = "running"

theorem iffNames_linux (flags : Nat) : iffNames Spec.linuxIff 65535 flags = Spec.flagNames (flags % 65536) := by
  unfold iffNames Spec.flagNames
  congr 1
  apply List.filter_congr
  intro e he
  have hm : flags &&& 65535 = flags % 65536 := Nat.and_two_pow_sub_one_eq_mod flags 16
  rw [hm]
  simp only [Spec.linuxIff, List.mem_cons, List.not_mem_nil, or_false] at he
  rcases he with rfl | rfl | rfl | rfl | rfl | rfl | rfl | rfl | rfl | rfl | rfl | rfl | rfl | rfl | rfl | rfl
  · exact and_two_pow_ne_zero _ 0
  · exact and_two_pow_ne_zero _ 1
  · exact and_two_pow_ne_zero _ 2
  · exact and_two_pow_ne_zero _ 3
  · exact and_two_pow_ne_zero _ 4
  · exact and_two_pow_ne_zero _ 5
  · exact and_two_pow_ne_zero _ 6
  · exact and_two_pow_ne_zero _ 7
  · exact and_two_pow_ne_zero _ 8
  · exact and_two_pow_ne_zero _ 9
  · exact and_two_pow_ne_zero _ 10
  · exact and_two_pow_ne_zero _ 11
  · exact and_two_pow_ne_zero _ 12
  · exact and_two_pow_ne_zero _ 13
  · exact and_two_pow_ne_zero _ 14
  · exact and_two_pow_ne_zero _ 15

theorem running_in_flagNames (w : Nat) : (Spec.flagNames w).contains "running" = (w / 64 % 2 == 1) := by
  rw [Bool.eq_iff_iff]
  simp only [List.contains_iff_mem, Spec.flagNames, List.mem_map, List.mem_filter, beq_iff_eq]
  constructor
  · rintro ⟨e, ⟨he, hp⟩, hn⟩
    simp only [Spec.linuxIff, List.mem_cons, List.not_mem_nil, or_false] at he
    rcases he with rfl | rfl | rfl | rfl | rfl | rfl | rfl | rfl | rfl | rfl | rfl | rfl | rfl | rfl | rfl | rfl <;>
      first | exact hp | (exact absurd hn (by decide))
  · intro h
    exact ⟨(0x40, "running"), ⟨by simp [Spec.linuxIff], h⟩, rfl⟩


theorem running_in_flagNames' (w : Nat) : decide ("running" ∈ Spec.flagNames w) = (w / 64 % 2 == 1) := by
  rw [← running_in_flagNames]; simp

theorem ethSpeed_good (c : ECfg) (hg : c.castUnsigned = true) (hi lo : Nat) (hh : hi < 65536) (hl : lo < 65536) :
    ethSpeed c hi lo = .speed (nicSpeed hi lo) := by
  have hor : hi * 65536 ||| lo = hi * 65536 + lo := by
    have h := Nat.two_pow_add_eq_or_of_lt (i := 16) (b := lo) (by simpa using hl) hi
    have e : (2 : Nat) ^ 16 = 65536 := by decide
    rw [e] at h
    rw [Nat.mul_comm hi 65536, ← h]
  unfold ethSpeed nicSpeed INT_MAX
  rw [hg, hor]
  have hm : (hi * 65536 + lo) % 4294967296 = hi * 65536 + lo := Nat.mod_eq_of_lt (by omega)
  simp only [Bool.not_true, Bool.false_and, Bool.false_eq_true, if_false, hm]
  by_cases h1 : hi * 65536 + lo = 4294967295
  · simp [h1]
  · by_cases h2 : hi * 65536 + lo > 2147483647
    · have h2' : ((hi * 65536 + lo : Nat) : Int) > 2147483647 := by omega
      simp only [h1, h2, h2', or_true, if_true]
    · have h2' : ¬ ((hi * 65536 + lo : Nat) : Int) > 2147483647 := by omega
      simp only [h1, h2, h2', or_self, if_false]

/-- per-NIC outcome the specification prescribes -/
def nicSpecOut (a : NicAns) : NicOut :=
  match nicFailure a with
  | some c => if c = 19 then .skip else .osError c
  | none =>
    match a.mtu, a.flags with
    | .ok mtu, .ok fl =>
      (match nicRowOf mtu fl a.eth with
       | some r => .row r
       | none => .keyError (match a.eth with | .ok (d, _, _) => d | .error _ => 0))
    | _, _ => .skip

theorem duplexLookup (d : Nat) : List.lookup d [(1, 2), (0, 1), (255, 0)] = duplexOf d := by
  unfold duplexOf
  by_cases h1 : d = 1
  · subst h1; rfl
  · by_cases h0 : d = 0
    · subst h0; rfl
    · by_cases h255 : d = 255
      · subst h255; rfl
      · have e1 : (d == 1) = false := by simpa using h1
        have e0 : (d == 0) = false := by simpa using h0
        have e255 : (d == 255) = false := by simpa using h255
        simp [List.lookup, e1, e0, e255, h1, h0, h255]

theorem nicStats_good (t : TCfg) (ht : t.Good) (e : ECfg) (he : e.castUnsigned = true) (a : NicAns)
    (hw : ∀ d hi lo, a.eth = .ok (d, hi, lo) → hi < 65536 ∧ lo < 65536) :
    nicStats t e Spec.linuxIff 65535 a = nicSpecOut a := by
  obtain ⟨mtu, flags, eth⟩ := a
  unfold nicStats nicSpecOut nicFailure
  simp only [ht.order, ht.skip, ht.isup, ht.sep, ht.map, List.findSome?_cons, List.findSome?_nil]
  have s1 : ("net_if_mtu" == "net_if_mtu") = true := by decide
  have s2 : ("net_if_flags" == "net_if_mtu") = false := by decide
  have s3 : ("net_if_flags" == "net_if_flags") = true := by decide
  have s4 : ("net_if_duplex_speed" == "net_if_mtu") = false := by decide
  have s5 : ("net_if_duplex_speed" == "net_if_flags") = false := by decide
  have s6 : ("net_if_duplex_speed" == "net_if_duplex_speed") = true := by decide
  simp only [s1, s2, s3, s4, s5, s6, if_true, Bool.false_eq_true, if_false]
  cases mtu with
  | error c => simp
  | ok m =>
    cases flags with
    | error c => simp
    | ok fl =>
      cases eth with
      | error c =>
        simp only [duplexSpeedC, ht.tol, ht.unk]
        by_cases h95 : c = 95
        · subst h95
          simp [nicRowOf, iffNames_linux, running_in_flagNames', List.lookup]
        · by_cases h22 : c = 22
          · subst h22
            simp [nicRowOf, iffNames_linux, running_in_flagNames', List.lookup]
          · simp [h95, h22]
      | ok v =>
        obtain ⟨d, hi, lo⟩ := v
        obtain ⟨hh, hl⟩ := hw d hi lo rfl
        have hs := (ethSpeed_good e he hi lo hh hl)
        simp only [duplexSpeedC, hs, nicRowOf, iffNames_linux, duplexLookup]
        cases duplexOf d <;> simp [running_in_flagNames']


/-- net_if_stats() over every list of NICs = the specification -/
theorem netIfStats_good (t : TCfg) (ht : t.Good) (e : ECfg) (he : e.castUnsigned = true)
    (nics : List (Bytes × NicAns)) (hw : ∀ p ∈ nics, ∀ d hi lo, p.2.eth = .ok (d, hi, lo) → hi < 65536 ∧ lo < 65536) :
    C17.netIfStats t e Spec.linuxIff 65535 nics = Spec.netIfStats nics [] := by
  unfold C17.netIfStats
  generalize ([] : List (Bytes × NicRow)) = acc
  induction nics generalizing acc with
  | nil => rfl
  | cons p rest ih =>
    obtain ⟨n, a⟩ := p
    have ih' := fun acc => ih (fun q hq => hw q (by simp [hq])) acc
    have hg := nicStats_good t ht e he a (hw (n, a) (by simp))
    simp only [netIfStatsGo, Spec.netIfStats, hg, nicSpecOut]
    cases hf : nicFailure a with
    | some c =>
      by_cases h19 : c = 19
      · simp [h19, ih']
      · simp [h19]
    | none =>
      simp only
      cases hm : a.mtu with
      | error c => simp [ih']
      | ok mtu =>
        cases hfl : a.flags with
        | error c => simp [ih']
        | ok fl =>
          simp only
          cases nicRowOf mtu fl a.eth with
          | none => simp only; rfl
          | some r => simp [ih']

/-! ### net_if_addrs() front end -/

structure WCfg.Good (w : WCfg) : Prop where
  af : w.afLink = 17
  sep : w.sep = 58
  min : w.minSeps = 5
  pad : w.padText = [48, 48]
  key : w.sortKeyIdx = 1

/-- the padding loop: `k` groups `:00` are appended, `k` = what is missing to 5 separators -/
theorem padMac_eq (w : WCfg) (hg : w.Good) (f : Nat) (a : Bytes) (hf : 5 - a.count 58 ≤ f) :
    padMac w f a = a ++ (List.replicate (5 - a.count 58) [58, 48, 48]).flatten := by
  induction f generalizing a with
  | zero =>
    have : 5 - a.count 58 = 0 := by omega
    simp [padMac, this]
  | succ f ih =>
    simp only [padMac, hg.sep, hg.min, hg.pad]
    by_cases hc : a.count 58 < 5
    · have hcount : (a ++ [58] ++ [48, 48]).count 58 = a.count 58 + 1 := by
        simp [List.count_append]
      rw [if_pos hc, ih _ (by rw [hcount]; omega), hcount]
      have : 5 - a.count 58 = (5 - (a.count 58 + 1)) + 1 := by omega
      rw [this, List.replicate_succ]
      simp [List.append_assoc]
    · have : 5 - a.count 58 = 0 := by omega
      simp [hc, this]

theorem dictAppend_lookup (d : List (Bytes × List AddrRow)) (r : AddrRow) (n : Bytes) :
    ((dictAppend d r).lookup n).getD [] = (d.lookup n).getD [] ++ (if r.name = n then [r] else []) := by
  induction d with
  | nil =>
    by_cases h : r.name = n
    · simp [dictAppend, List.lookup, h]
    · have : (n == r.name) = false := by simpa using fun hh => h hh.symm
      simp [dictAppend, List.lookup, h, this]
  | cons p rest ih =>
    obtain ⟨k, l⟩ := p
    simp only [dictAppend]
    by_cases hk : k = r.name
    · subst hk
      by_cases hn : r.name = n
      · subst hn; simp [List.lookup]
      · have : (n == r.name) = false := by simpa using fun hh => hn hh.symm
        simp [List.lookup, this, hn]
    · simp only [hk, if_false]
      by_cases hn : n = k
      · subst hn
        have : ¬ r.name = n := fun hh => hk hh.symm
        simp [List.lookup, this]
      · have : (n == k) = false := by simpa using hn
        simp only [List.lookup, this]
        exact ih

/-- the value stored under a NIC name = the rows of that NIC, in the order they were appended -/
theorem group_lookup (rows : List AddrRow) (n : Bytes) (d : List (Bytes × List AddrRow)) :
    ((rows.foldl dictAppend d).lookup n).getD [] = (d.lookup n).getD [] ++ rows.filter (fun r => r.name = n) := by
  induction rows generalizing d with
  | nil => simp
  | cons r rows ih =>
    simp only [List.foldl_cons, ih, dictAppend_lookup, List.filter_cons]
    by_cases h : r.name = n <;> simp [h]

/-! ### the sort of net_if_addrs() is stable -/

def famLe (a b : AddrRow) : Prop := a.fam ≤ b.fam

theorem mem_insertByFam (r y : AddrRow) (xs : List AddrRow) : y ∈ insertByFam r xs ↔ y = r ∨ y ∈ xs := by
  induction xs with
  | nil => simp [insertByFam]
  | cons x xs ih =>
    simp only [insertByFam]
    split
    · simp
    · simp only [List.mem_cons, ih]
      constructor
      · rintro (h | h | h) <;> simp [h]
      · rintro (h | h | h) <;> simp [h]

theorem insertByFam_sorted (r : AddrRow) (xs : List AddrRow) (h : xs.Pairwise famLe) :
    (insertByFam r xs).Pairwise famLe := by
  induction xs with
  | nil => simp [insertByFam]
  | cons x xs ih =>
    have hx := List.pairwise_cons.mp h
    simp only [insertByFam]
    split
    · rename_i hlt
      refine List.pairwise_cons.mpr ⟨?_, h⟩
      intro y hy
      simp only [List.mem_cons] at hy
      rcases hy with rfl | hy
      · exact Int.le_of_lt hlt
      · exact Int.le_trans (Int.le_of_lt hlt) (hx.1 y hy)
    · rename_i hge
      refine List.pairwise_cons.mpr ⟨?_, ih hx.2⟩
      intro y hy
      rcases (mem_insertByFam r y xs).mp hy with rfl | hy
      · exact Int.not_lt.mp hge
      · exact hx.1 y hy

theorem insertByFam_filter (r : AddrRow) (xs : List AddrRow) (h : xs.Pairwise famLe) (f : Int) :
    (insertByFam r xs).filter (fun a => a.fam = f) = xs.filter (fun a => a.fam = f) ++ (if r.fam = f then [r] else []) := by
  induction xs with
  | nil => by_cases hr : r.fam = f <;> simp [insertByFam, hr]
  | cons x xs ih =>
    have hx := List.pairwise_cons.mp h
    simp only [insertByFam]
    split
    · rename_i hlt
      by_cases hr : r.fam = f
      · have hnone : (x :: xs).filter (fun a => decide (a.fam = f)) = [] := by
          rw [List.filter_eq_nil_iff]
          intro y hy
          simp only [List.mem_cons] at hy
          have : x.fam ≤ y.fam := by
            rcases hy with rfl | hy
            · exact Int.le_refl _
            · exact hx.1 y hy
          simp only [decide_eq_true_eq]
          omega
        rw [List.filter_cons, hnone]
        simp [hr]
      · simp [hr]
    · rw [List.filter_cons, ih hx.2, List.filter_cons]
      by_cases hxf : x.fam = f <;> simp [hxf]

theorem foldl_insert (rs acc : List AddrRow) (h : acc.Pairwise famLe) :
    (rs.foldl (fun acc r => insertByFam r acc) acc).Pairwise famLe
    ∧ ∀ f : Int, (rs.foldl (fun acc r => insertByFam r acc) acc).filter (fun a => a.fam = f)
        = acc.filter (fun a => a.fam = f) ++ rs.filter (fun a => a.fam = f) := by
  induction rs generalizing acc with
  | nil => exact ⟨h, fun f => by simp⟩
  | cons r rs ih =>
    obtain ⟨h1, h2⟩ := ih (insertByFam r acc) (insertByFam_sorted r acc h)
    refine ⟨h1, fun f => ?_⟩
    simp only [List.foldl_cons]
    rw [h2 f, insertByFam_filter r acc h f, List.filter_cons]
    by_cases hr : r.fam = f <;> simp [hr]

/-- `rawlist.sort(key=family)`: sorted by family, and STABLE — the rows of one family keep the
    order the kernel listed them in -/
theorem sortByFam_stable (rs : List AddrRow) :
    (sortByFam rs).Pairwise famLe ∧ ∀ f : Int, (sortByFam rs).filter (fun a => a.fam = f) = rs.filter (fun a => a.fam = f) := by
  have := foldl_insert rs [] List.Pairwise.nil
  exact ⟨this.1, fun f => by simpa [sortByFam] using this.2 f⟩

end Psutil.C17
