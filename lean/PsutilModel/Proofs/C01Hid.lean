/-
  Proofs/C01Hid.lean — the weaker invariant that survives unreadable `/proc/pid/stat` files
  (`KEv.hide`): objects whose start time is KNOWN (`_ident = (pid, t)`) still never reach a wrong
  owner, and no object ever addresses another PID or a process group.  Used by
  `C01_known_start_no_wrong_owner` (Props/C01.lean).
-/
import PsutilModel.Proofs.C01Args
namespace Psutil.C01
variable {nt : Bool}
open Spec

/-! ### kernel -/

structure KInv2 (nt : Bool) (k : Kernel) : Prop where
  uniq : (k.procs.map (·.pid)).Nodup
  stamped : ∀ x ∈ k.procs, x.start < k.clock
  btime : BtOK nt k.btime
  stamp : ∀ x ∈ k.procs, x.stamp = x.start

/-- the only thing asked of a history here: the published boot time is never 0 -/
def KEv.OKb (e : KEv) (nt : Bool) : Prop :=
  match e with
  | .setBtime b => BtOK nt b
  | .spawnSameTick _ => False      -- psutil's documented assumption: a PID is not recycled within one clock tick
  | _ => True

def Ev.OKb (ev : Ev) (nt : Bool) : Prop :=
  match ev with
  | .k e => e.OKb nt
  | .c _ => True

def HistOKb (nt : Bool) (h : List Ev) : Prop := ∀ e ∈ h, e.OKb nt

instance (nt : Bool) : DecidablePred (KEv.OKb · nt) := fun e => by
  cases e <;> simp only [KEv.OKb] <;> infer_instance

instance (nt : Bool) : DecidablePred (Ev.OKb · nt) := fun e => by
  cases e <;> simp only [Ev.OKb] <;> infer_instance

instance (nt : Bool) (h : List Ev) : Decidable (HistOKb nt h) := by
  unfold HistOKb; infer_instance

/-- the hypotheses of the main theorems are stronger -/
theorem HistOK.toOKb {h : List Ev} (hh : HistOK nt h) : HistOKb nt h := fun e he => by
  have := hh e he
  cases e with
  | c _ => trivial
  | k ke => cases ke <;> first | trivial | exact this

theorem KInv2.apply {k : Kernel} (h : KInv2 nt k) (e : KEv) (he : e.OKb nt) : KInv2 nt (k.apply e) := by
  have hst := stamps_apply e (fun p hp => by subst hp; exact he) h.stamp
  cases e with
  | spawnSameTick p => exact he.elim
  | spawn p =>
    cases hf : k.find p with
    | some x => rw [apply_spawn_busy hf]; exact h
    | none =>
      rw [apply_spawn_free hf] at hst ⊢
      refine ⟨?_, ?_, h.btime, hst⟩
      · simp only [List.map_cons, List.nodup_cons]
        refine ⟨?_, h.uniq⟩
        intro hm
        obtain ⟨x, hx, hxp⟩ := List.mem_map.1 hm
        have := List.find?_eq_none.1 hf x hx
        simp [hxp] at this
      · intro x hx
        rcases List.mem_cons.1 hx with rfl | hx
        · exact Nat.lt_succ_self _
        · exact Nat.lt_succ_of_lt (h.stamped x hx)
  | exit p =>
    refine ⟨?_, ?_, h.btime, hst⟩
    · have : (k.apply (.exit p)).procs.map (·.pid) = k.procs.map (·.pid) := by
        simp only [Kernel.apply, List.map_map]
        apply List.map_congr_left
        intro x _; simp only [Function.comp]; split <;> rfl
      rw [this]; exact h.uniq
    · intro x hx
      simp only [Kernel.apply, List.mem_map] at hx
      obtain ⟨y, hy, rfl⟩ := hx
      have := h.stamped y hy
      split <;> exact this
  | reap p =>
    refine ⟨?_, ?_, h.btime, hst⟩
    · exact List.Nodup.sublist (List.Sublist.map _ List.filter_sublist) h.uniq
    · intro x hx
      exact h.stamped x (List.mem_filter.1 hx).1
  | tick n =>
    refine ⟨h.uniq, ?_, h.btime, hst⟩
    intro x hx
    exact Nat.lt_of_lt_of_le (h.stamped x hx) (Nat.le_add_right _ _)
  | setBtime b => exact ⟨h.uniq, h.stamped, he, hst⟩
  | perm p e =>
    obtain ⟨hp, hc, hb, _⟩ := apply_perm_rest k p e
    exact ⟨by rw [hp]; exact h.uniq, by rw [hp, hc]; exact h.stamped, by rw [hb]; exact h.btime, hst⟩
  | hide p b =>
    obtain ⟨hp, hc, hb, _⟩ := apply_hide_rest k p b
    exact ⟨by rw [hp]; exact h.uniq, by rw [hp, hc]; exact h.stamped, by rw [hb]; exact h.btime, hst⟩

/-! ### objects -/

/-- `BOOT_TIME`, once set, keeps its value -/
def BootExt (bt bt' : Option Nat) : Prop := ∀ B, bt = some B → bt' = some B

theorem BootExt.refl (bt : Option Nat) : BootExt bt bt := fun _ h => h
theorem BootExt.trans {a b c : Option Nat} (h1 : BootExt a b) (h2 : BootExt b c) : BootExt a c :=
  fun B h => h2 B (h1 B h)

structure ObjOK2 (clk : Nat) (k : Kernel) (bt : Option Nat) (o : PObj) : Prop where
  ghost_lt : o.ghost < k.clock
  ident_eq : ∀ v, o.ident = some v → ∃ B, bt = some B ∧ v = o.ghost + clk * B

theorem ObjOK2.mono {clk : Nat} {k : Kernel} {bt bt' : Option Nat} {o : PObj} (h : ObjOK2 clk k bt o)
    (hb : BootExt bt bt') : ObjOK2 clk k bt' o :=
  ⟨h.ghost_lt, fun v hv => let ⟨B, hB, e⟩ := h.ident_eq v hv; ⟨B, hb B hB, e⟩⟩

/-- what a call may do to the module state here: objects untouched, `BOOT_TIME` only initialised -/
structure PsExt (nt : Bool) (ps ps' : Ps) : Prop where
  objs : ps'.objs = ps.objs
  boot : BootExt ps.bootTime ps'.bootTime
  nz : (∀ B, ps.bootTime = some B → BtOK nt B) → ∀ B, ps'.bootTime = some B → BtOK nt B

theorem PsExt.refl (ps : Ps) : PsExt nt ps ps := ⟨rfl, BootExt.refl _, fun h => h⟩
theorem PsExt.trans {a b c : Ps} (h1 : PsExt nt a b) (h2 : PsExt nt b c) : PsExt nt a c :=
  ⟨h2.objs.trans h1.objs, h1.boot.trans h2.boot, fun h => h2.nz (h1.nz h)⟩

/-- same pid, same ghost, same `_ident` -/
structure Same (o o' : PObj) : Prop where
  pid : o'.pid = o.pid
  ghost : o'.ghost = o.ghost
  ident : o'.ident = o.ident

theorem Same.refl (o : PObj) : Same o o := ⟨rfl, rfl, rfl⟩

theorem bootTimeCall_ext (c : Cfg) (k : Kernel) (hk : BtOK c.createNoneTest k.btime) (ps : Ps) (hc : c.BootGood) :
    PsExt c.createNoneTest ps (bootTimeCall c k ps).1 := by
  cases hb : ps.bootTime with
  | none =>
    rw [bootTimeCall_none hb]
    exact ⟨rfl, fun B hB => (by rw [hb] at hB; cases hB), fun _ B hB => (by cases hB; exact hk)⟩
  | some B => rw [bootTimeCall_some hc hb]; exact PsExt.refl _

theorem bootForCreate_ext {c : Cfg} (hc : c.BootGood) {k : Kernel} (hk : BtOK c.createNoneTest k.btime) (ps : Ps)
    (hnz : ∀ B, ps.bootTime = some B → BtOK c.createNoneTest B) :
    PsExt c.createNoneTest ps (bootForCreate c k ps).1
      ∧ (bootForCreate c k ps).1.bootTime = some (bootForCreate c k ps).2
      ∧ (∀ B, ps.bootTime = some B → (bootForCreate c k ps).2 = B) := by
  cases hb : ps.bootTime with
  | none =>
    rw [bootForCreate_none hc hb]
    exact ⟨⟨rfl, fun B hB => (by rw [hb] at hB; cases hB), fun _ B hB => (by cases hB; exact hk)⟩, rfl,
      fun B hB => (by cases hB)⟩
  | some B =>
    rw [bootForCreate_some hc hb (hnz B hb)]
    exact ⟨PsExt.refl _, hb, fun B' hB' => by cases hB'; rfl⟩

/-- `Process(pid)` under the weak invariant -/
theorem mkObj_ext {c : Cfg} (hc : c.BootGood) {k : Kernel} (hk : KInv2 c.createNoneTest k) (ps : Ps)
    (hnz : ∀ B, ps.bootTime = some B → BtOK c.createNoneTest B) (pid : Nat) :
    PsExt c.createNoneTest ps (mkObj c k ps pid).1
      ∧ ∀ o, (mkObj c k ps pid).2 = some o → ObjOK2 c.clk k (mkObj c k ps pid).1.bootTime o := by
  unfold mkObj
  cases hf : k.find pid with
  | none => exact ⟨PsExt.refl _, fun o h => by cases h⟩
  | some x =>
    dsimp only
    by_cases hh : k.isHidden pid = true
    · rw [if_pos hh]
      refine ⟨PsExt.refl _, fun o h => ?_⟩
      simp only [Option.some.injEq] at h
      subst h
      exact ⟨h_lt hk hf, fun v hv => by cases hv⟩
    · rw [if_neg hh]
      obtain ⟨hext, hbt, _⟩ := bootForCreate_ext hc hk.btime ps hnz
      refine ⟨hext, fun o h => ?_⟩
      simp only [Option.some.injEq] at h
      subst h
      exact ⟨h_lt hk hf, fun v hv => ⟨_, hbt, by
        simp only [Option.some.injEq, hk.stamp x (List.mem_of_find?_eq_some hf)] at hv; exact hv.symm⟩⟩
where
  h_lt {k : Kernel} (hk : KInv2 c.createNoneTest k) {pid : Nat} {x : Inst} (hf : k.find pid = some x) : x.start < k.clock :=
    hk.stamped x (List.mem_of_find?_eq_some hf)

/-! ### `is_running()` and the guard, in any state -/

theorem isRunningO_ext {c : Cfg} (hc : c.BootGood) {k : Kernel} (hk : KInv2 c.createNoneTest k) (ps : Ps)
    (hnz : ∀ B, ps.bootTime = some B → BtOK c.createNoneTest B) (o : PObj) :
    PsExt c.createNoneTest ps (isRunningO c k ps o).1 ∧ Same o (isRunningO c k ps o).2.1 := by
  unfold isRunningO
  split
  · exact ⟨PsExt.refl _, Same.refl _⟩
  · have hm := (mkObj_ext hc hk ps hnz o.pid).1
    cases hmk : mkObj c k ps o.pid with
    | mk ps' oo =>
      rw [hmk] at hm
      cases oo with
      | none => exact ⟨hm, ⟨rfl, rfl, rfl⟩⟩
      | some fresh =>
        dsimp only
        split
        · exact ⟨⟨hm.objs, hm.boot, hm.nz⟩, ⟨rfl, rfl, rfl⟩⟩
        · exact ⟨hm, Same.refl _⟩

theorem raise_ext {c : Cfg} (hc : c.BootGood) {k : Kernel} (hk : KInv2 c.createNoneTest k) (ps : Ps)
    (hnz : ∀ B, ps.bootTime = some B → BtOK c.createNoneTest B) (o : PObj) :
    PsExt c.createNoneTest ps (raiseIfPidReusedO c k ps o).1 ∧ Same o (raiseIfPidReusedO c k ps o).2.1 := by
  have h := isRunningO_ext hc hk ps hnz o
  rw [raise_eq]
  split
  · exact ⟨PsExt.refl _, Same.refl _⟩
  · split
    · exact h
    · split <;> exact h

theorem guarded_ext {c : Cfg} (hc : c.BootGood) (has : Bool) {k : Kernel} (hk : KInv2 c.createNoneTest k) (ps : Ps)
    (hnz : ∀ B, ps.bootTime = some B → BtOK c.createNoneTest B) (o : PObj) :
    PsExt c.createNoneTest ps (guardedO c has k ps o).1 ∧ Same o (guardedO c has k ps o).2.1 := by
  unfold guardedO
  cases has with
  | true => simpa using raise_ext hc hk ps hnz o
  | false => exact ⟨PsExt.refl _, Same.refl _⟩

theorem method_ext {c : Cfg} (hc : c.BootGood) {k : Kernel} (hk : KInv2 c.createNoneTest k) (ps : Ps)
    (hnz : ∀ B, ps.bootTime = some B → BtOK c.createNoneTest B) (o : PObj) {call : Call} {r : MRes}
    (hm : method c k ps o call = some r) : PsExt c.createNoneTest ps r.ps ∧ Same o r.o := by
  cases call <;> simp only [method, Option.some.injEq, reduceCtorEq] at hm
  · subst hm; exact isRunningO_ext hc hk ps hnz o
  · subst hm
    have hg := guarded_ext hc c.guardSignal hk ps hnz o
    rw [signalM_eq]
    split
    · exact hg
    · split
      · exact hg
      · split
        · exact ⟨hg.1, ⟨hg.2.pid, hg.2.ghost, hg.2.ident⟩⟩
        · exact hg
  · subst hm
    rename_i kind args
    have hg := guarded_ext hc (guardOf c kind) hk ps hnz o
    rw [setterM_eq]
    split
    · exact hg
    · split
      · exact hg
      · split <;> exact hg
  · subst hm
    have hg := guarded_ext hc c.guardPpid hk ps hnz o
    rw [ppidM_eq]
    split
    · exact hg
    · split <;> exact hg
  · subst hm
    unfold createTimeM
    split
    · exact ⟨PsExt.refl _, Same.refl _⟩
    · split
      · exact ⟨PsExt.refl _, Same.refl _⟩
      · split
        · exact ⟨PsExt.refl _, Same.refl _⟩
        · exact ⟨(bootForCreate_ext hc hk.btime ps hnz).1, ⟨rfl, rfl, rfl⟩⟩
  · subst hm; exact ⟨PsExt.refl _, Same.refl _⟩

/-- **the guard and a known start.**  In any state satisfying the weak invariant: when the guard lets an object
    with `_ident = (pid, t)` through, the PID is held by the very incarnation the object was built for. -/
theorem guard_known {c : Cfg} (hc : c.BootGood) (hg : c.goneRaises = true) {k : Kernel} (ps : Ps)
    (hnz : ∀ B, ps.bootTime = some B → BtOK c.createNoneTest B) {o : PObj} (hok : ObjOK2 c.clk k ps.bootTime o)
    {v : Nat} (hv : o.ident = some v) {x : Inst} (hf : k.find o.pid = some x) (hst : x.stamp = x.start)
    (hpass : (raiseIfPidReusedO c k ps o).2.2 = false) : x.start = o.ghost := by
  obtain ⟨B, hB, hvB⟩ := hok.ident_eq v hv
  rw [raise_eq] at hpass
  by_cases hr : o.reused = true
  · rw [if_pos hr] at hpass; cases hpass
  · rw [if_neg hr] at hpass
    simp only [Bool.not_eq_true] at hr
    -- what is_running() computes here
    have hrun : isRunningO c k ps o =
        if (o.gone || o.reused) = true then (ps, o, false)
        else if k.isHidden o.pid = true then
          ({ ps with pidsReused := o.pid :: ps.pidsReused }, { o with reused := true, gone := true }, false)
        else if o.ident ≠ some (x.start + c.clk * B) then
          ({ ps with pidsReused := o.pid :: ps.pidsReused }, { o with reused := true, gone := true }, false)
        else (ps, o, true) := by
      unfold isRunningO
      split
      · rfl
      · simp only [mkObj, hf]
        by_cases hh : k.isHidden o.pid = true
        · simp [hh, hv]
        · simp only [hh, Bool.false_eq_true, if_false, bootForCreate_some hc hB (hnz B hB), hst]
    rw [hrun] at hpass
    by_cases hgo : o.gone = true
    · simp [hgo, hg] at hpass
    · simp only [Bool.not_eq_true] at hgo
      simp only [hgo, hr, Bool.or_self, Bool.false_eq_true, if_false] at hpass
      by_cases hh : k.isHidden o.pid = true
      · simp [hh] at hpass
      · simp only [hh, Bool.false_eq_true, if_false] at hpass
        by_cases hid : o.ident = some (x.start + c.clk * B)
        · rw [hv] at hid
          simp only [Option.some.injEq] at hid
          omega
        · simp [hid] at hpass

/-! ### state invariant over histories with unreadable stat files -/

structure PInv2 (nt : Bool) (clk : Nat) (k : Kernel) (ps : Ps) : Prop where
  boot_nz : ∀ B, ps.bootTime = some B → BtOK nt B
  objs : ∀ o ∈ ps.objs, ObjOK2 clk k ps.bootTime o

structure Inv2 (nt : Bool) (clk : Nat) (s : St) : Prop where
  kern : KInv2 nt s.kern
  ps : PInv2 nt clk s.kern s.ps

theorem PInv2.ext {clk : Nat} {k : Kernel} {ps ps' : Ps} (h : PInv2 nt clk k ps) (he : PsExt nt ps ps') :
    PInv2 nt clk k ps' :=
  ⟨he.nz h.boot_nz, fun o ho => (h.objs o (he.objs ▸ ho)).mono he.boot⟩

theorem PInv2.push {clk : Nat} {k : Kernel} {ps : Ps} (h : PInv2 nt clk k ps) {o : PObj}
    (ho : ObjOK2 clk k ps.bootTime o) : PInv2 nt clk k { ps with objs := ps.objs ++ [o] } :=
  ⟨h.boot_nz, fun x hx => by
    rcases List.mem_append.1 hx with hx | hx
    · exact h.objs x hx
    · simp only [List.mem_singleton] at hx; subst hx; exact ho⟩

theorem iterLoop_inv2 {c : Cfg} (hc : c.BootGood) {k : Kernel} (hk : KInv2 c.createNoneTest k) (kept : List (Nat × Nat))
    (evicted : List Nat) : ∀ (l : List Nat) (ps : Ps), PInv2 c.createNoneTest c.clk k ps →
      PInv2 c.createNoneTest c.clk k (iterLoop c k kept evicted ps l).1 := by
  intro l
  induction l with
  | nil => intro ps h; exact h
  | cons p rest ih =>
    intro ps h
    rw [iterLoop_cons]
    cases hl : pmLookup kept p with
    | some i => exact ih ps h
    | none =>
      simp only
      split
      · exact ih ps h
      · have hm := mkObj_ext hc hk ps h.boot_nz p
        cases hmk : mkObj c k ps p with
        | mk ps' oo =>
          rw [hmk] at hm
          cases oo with
          | none => exact ih ps' (h.ext hm.1)
          | some o => exact ih _ ((h.ext hm.1).push (hm.2 o rfl))

theorem PInv2.apply {clk : Nat} {k : Kernel} {ps : Ps} (h : PInv2 nt clk k ps) (e : KEv) : PInv2 nt clk (k.apply e) ps :=
  ⟨h.boot_nz, fun o ho => ⟨Nat.lt_of_lt_of_le (h.objs o ho).ghost_lt (clock_mono k e), (h.objs o ho).ident_eq⟩⟩

theorem step_inv2 {c : Cfg} (hc : c.BootGood) (s : St) (ev : Ev) (hev : ev.OKb c.createNoneTest) (h : Inv2 c.createNoneTest c.clk s) :
    Inv2 c.createNoneTest c.clk (step c s ev).1 := by
  cases ev with
  | k e => exact ⟨h.kern.apply e hev, h.ps.apply e⟩
  | c call =>
    cases htg : call.target with
    | some i =>
      cases ho : s.ps.objs[i]? with
      | none => rw [step_bad_index c s htg ho]; exact h
      | some o =>
        obtain ⟨r, hm⟩ := method_some c s.kern s.ps o htg
        rw [step_method c s htg ho hm]
        obtain ⟨hext, hsame⟩ := method_ext hc h.kern s.ps h.ps.boot_nz o hm
        have hp := h.ps.ext hext
        refine ⟨h.kern, hp.boot_nz, ?_⟩
        intro x hx
        simp only [setObj] at hx ⊢
        rcases List.mem_or_eq_of_mem_set hx with hx | rfl
        · exact hp.objs x hx
        · have hoo := (h.ps.objs o (List.mem_of_getElem? ho)).mono hext.boot
          exact ⟨by rw [hsame.ghost]; exact hoo.ghost_lt, fun v hv => by
            rw [hsame.ident] at hv; rw [hsame.ghost]; exact hoo.ident_eq v hv⟩
    | none =>
      cases call <;> simp [Call.target] at htg <;> simp only [step]
      · rename_i pid
        split
        · split <;> exact h
        · have hm := mkObj_ext hc h.kern s.ps h.ps.boot_nz pid.toNat
          split
          · rename_i ps' heq; rw [heq] at hm; exact ⟨h.kern, h.ps.ext hm.1⟩
          · rename_i ps' o heq; rw [heq] at hm; exact ⟨h.kern, (h.ps.ext hm.1).push (hm.2 o rfl)⟩
      · exact ⟨h.kern, h.ps.ext (bootTimeCall_ext c s.kern h.kern.btime s.ps hc)⟩
      · split <;> exact h
      · refine ⟨h.kern, ?_⟩
        have := iterLoop_inv2 hc h.kern
          ((s.ps.pmap.filter fun e => (sortPids (s.kern.procs.map (·.pid))).contains e.1).filter
            fun e => !s.ps.pidsReused.contains e.1)
          (((s.ps.pmap.filter fun e => (sortPids (s.kern.procs.map (·.pid))).contains e.1).filter
            fun e => s.ps.pidsReused.contains e.1).map (·.1))
          (sortPids (s.kern.procs.map (·.pid))) s.ps h.ps
        exact ⟨this.boot_nz, this.objs⟩
      · exact h
      · split <;> exact h

theorem init_inv2 (clk : Nat) {b : Nat} (hb : BtOK nt b) : Inv2 nt clk (St.init b) :=
  ⟨⟨by simp [St.init], fun x hx => by simp [St.init] at hx, hb, fun x hx => by simp [St.init] at hx⟩,
   ⟨fun B hB => by simp [St.init] at hB, fun o ho => by simp [St.init] at ho⟩⟩

theorem run_inv2 {c : Cfg} (hc : c.BootGood) (h : List Ev) : ∀ (s : St), HistOKb c.createNoneTest h → Inv2 c.createNoneTest c.clk s →
    Inv2 c.createNoneTest c.clk (run c s h) := by
  induction h with
  | nil => intro s _ hi; exact hi
  | cons e es ih =>
    intro s hok hi
    exact ih _ (fun x hx => hok x (List.mem_cons_of_mem _ hx)) (step_inv2 hc s e (hok e List.mem_cons_self) hi)

/-! ### the effect log -/

/-- what holds of every logged OS call, whatever became of the stat files: made by an existing object,
    under exactly its PID, a signal never to PID ≤ 0; and — when the object's start time is known — while the
    PID was held by the incarnation the object was built for -/
def EffOK2 (objs : List PObj) (e : Eff) : Prop :=
  ∃ o, objs[e.obj]? = some o ∧ e.pid = (o.pid : Int) ∧ (e.kind = .kill → 0 < e.pid)
    ∧ (o.ident ≠ none → e.owner = some o.ghost)

def ObjsSame (a b : List PObj) : Prop := ∀ (j : Nat) (o : PObj), a[j]? = some o → ∃ o', b[j]? = some o' ∧ Same o o'

theorem ObjsSame.refl (a : List PObj) : ObjsSame a a := fun _ o h => ⟨o, h, Same.refl o⟩

theorem EffOK2.mono {a b : List PObj} (hext : ObjsSame a b) {e : Eff} (h : EffOK2 a e) : EffOK2 b e := by
  obtain ⟨o, ho, hp, hk, hw⟩ := h
  obtain ⟨o', ho', hs⟩ := hext _ _ ho
  exact ⟨o', ho', by rw [hs.pid]; exact hp, hk, fun hn => by rw [hs.ghost]; exact hw (by rw [← hs.ident]; exact hn)⟩

theorem step_same {c : Cfg} (hc : c.BootGood) (s : St) (ev : Ev) (h : Inv2 c.createNoneTest c.clk s) :
    ObjsSame s.ps.objs (step c s ev).1.ps.objs := by
  cases ev with
  | k e => exact ObjsSame.refl _
  | c call =>
    cases htg : call.target with
    | some i =>
      cases ho : s.ps.objs[i]? with
      | none => rw [step_bad_index c s htg ho]; exact ObjsSame.refl _
      | some o =>
        obtain ⟨r, hm⟩ := method_some c s.kern s.ps o htg
        rw [step_method c s htg ho hm]
        obtain ⟨hext, hsame⟩ := method_ext hc h.kern s.ps h.ps.boot_nz o hm
        simp only [setObj, hext.objs]
        intro j x hx
        by_cases hij : i = j
        · subst hij
          rw [ho] at hx; cases hx
          exact ⟨r.o, List.getElem?_set_self (getElem?_lt_of_some ho), hsame⟩
        · exact ⟨x, by rw [List.getElem?_set_ne hij]; exact hx, Same.refl x⟩
    | none =>
      cases call <;> simp [Call.target] at htg <;> simp only [step]
      · rename_i pid
        split
        · split <;> exact ObjsSame.refl _
        · have hm := mkObj_ext hc h.kern s.ps h.ps.boot_nz pid.toNat
          split
          · rename_i ps' heq; rw [heq] at hm
            intro j x hx; exact ⟨x, (by rw [hm.1.objs]; exact hx), Same.refl x⟩
          · rename_i ps' o heq; rw [heq] at hm
            intro j x hx
            exact ⟨x, (by rw [hm.1.objs]; exact getElem?_append_of_some hx _), Same.refl x⟩
      · intro j x hx
        exact ⟨x, by rw [(bootTimeCall_pmap c s.kern s.ps).2]; exact hx, Same.refl x⟩
      · split <;> exact ObjsSame.refl _
      · obtain ⟨t, ht⟩ := (processIter_shape c s.kern s.ps).1
        intro j x hx
        exact ⟨x, by rw [ht]; exact getElem?_append_of_some hx t, Same.refl x⟩
      · exact ObjsSame.refl _
      · split <;> exact ObjsSame.refl _

/-- an effect produced under the weak invariant -/
theorem method_eff_ok2 {c : Cfg} (hg : c.Good) {k : Kernel} {ps : Ps} (hst : ∀ x ∈ k.procs, x.stamp = x.start)
    (hnz : ∀ B, ps.bootTime = some B → BtOK c.createNoneTest B) {o : PObj} (hok : ObjOK2 c.clk k ps.bootTime o)
    {call : Call} {r : MRes} (hm : method c k ps o call = some r)
    {e : EffKind × Int × List Int × Option Nat × Option Errno} (he : r.eff = some e) :
    e.2.1 = (o.pid : Int) ∧ (e.1 = .kill → 0 < e.2.1) ∧ (o.ident ≠ none → e.2.2.2.1 = some o.ghost) := by
  cases hec : isEffectCall call with
  | false => rw [method_eff_none hm hec] at he; cases he
  | true =>
    cases call <;> simp [isEffectCall] at hec <;>
      simp only [method, Option.some.injEq] at hm <;> subst hm
    · obtain ⟨x, hf, rfl, hgf, h0⟩ := signalM_eff_shape _ _ _ _ _ he
      rw [hg.guardSignal] at hgf
      refine ⟨rfl, fun _ => ?_, fun hn => ?_⟩
      · simp only [hg.pid0Refused, Bool.and_true, beq_eq_false_iff_ne, ne_eq] at h0
        show (0 : Int) < (o.pid : Int)
        omega
      · cases hv : o.ident with
        | none => exact absurd hv hn
        | some v =>
          have := guard_known hg.toBootGood hg.goneRaises ps hnz hok hv hf (hst x (List.mem_of_find?_eq_some hf)) (by simpa [guardedO] using hgf)
          simp [this]
    · rename_i kind args
      obtain ⟨x, a, hf, _, rfl, hgf⟩ := setterM_eff_shape _ _ _ _ _ _ he
      rw [guardOf_good hg] at hgf
      refine ⟨rfl, fun h => (by cases h), fun hn => ?_⟩
      cases hv : o.ident with
      | none => exact absurd hv hn
      | some v =>
        have := guard_known hg.toBootGood hg.goneRaises ps hnz hok hv hf (hst x (List.mem_of_find?_eq_some hf)) (by simpa [guardedO] using hgf)
        simp [this]

def LogOK2 (s : St) : Prop := ∀ e ∈ s.log, EffOK2 s.ps.objs e

theorem step_log2 {c : Cfg} (hg : c.Good) (s : St) (ev : Ev) (h : Inv2 c.createNoneTest c.clk s) (hl : LogOK2 s) :
    LogOK2 (step c s ev).1 := by
  have hext := step_same hg.toBootGood s ev h
  have hold : ∀ e ∈ s.log, EffOK2 (step c s ev).1.ps.objs e := fun e he => EffOK2.mono hext (hl e he)
  cases ev with
  | k e => exact hold
  | c call =>
    cases htg : call.target with
    | none => intro e he; rw [(step_no_target c s htg).1] at he; exact hold e he
    | some i =>
      cases ho : s.ps.objs[i]? with
      | none => rw [step_bad_index c s htg ho]; exact hl
      | some o =>
        obtain ⟨r, hm⟩ := method_some c s.kern s.ps o htg
        rw [step_method c s htg ho hm] at hold ⊢
        cases heff : r.eff with
        | none => intro e he; simp only [pushEff] at he; exact hold e he
        | some t =>
          obtain ⟨kind, pid, arg, owner, res⟩ := t
          intro e he
          simp only [pushEff, List.mem_cons] at he
          rcases he with rfl | he
          · have hok := h.ps.objs o (List.mem_of_getElem? ho)
            have := method_eff_ok2 hg h.kern.stamp h.ps.boot_nz hok hm heff
            simp only at this
            obtain ⟨hext', hsame⟩ := method_ext hg.toBootGood h.kern s.ps h.ps.boot_nz o hm
            refine ⟨r.o, ?_, ?_, this.2.1, ?_⟩
            · simp only [setObj, hext'.objs]; exact List.getElem?_set_self (getElem?_lt_of_some ho)
            · rw [hsame.pid]; exact this.1
            · intro hn; rw [hsame.ghost]; exact this.2.2 (by rw [← hsame.ident]; exact hn)
          · exact hold e he

theorem run_log2 {c : Cfg} (hg : c.Good) (h : List Ev) : ∀ (s : St), HistOKb c.createNoneTest h → Inv2 c.createNoneTest c.clk s → LogOK2 s →
    LogOK2 (run c s h) := by
  induction h with
  | nil => intro s _ _ hl; exact hl
  | cons e es ih =>
    intro s hok hi hl
    exact ih _ (fun x hx => hok x (List.mem_cons_of_mem _ hx))
      (step_inv2 hg.toBootGood s e (hok e List.mem_cons_self) hi) (step_log2 hg s e hi hl)

/-! ### `create_time()` testing `BOOT_TIME is not None` (`createNoneTest = true`: /repo 29257b1, fixes/C02-boottime-zero)

With that test the boot-time hypotheses are void: `BtOK true b` holds for every `b` (0 included) and `HistOK true` /
`HistOKb true` put no restriction on clock steps.  Props/C01.lean and Props/C02.lean state their theorems with
`HistOK true` / `HistOKb true` and no hypothesis on the initial boot time, and discharge the `createNoneTest`-indexed
hypotheses of the lemmas with these three (fed by the obligation `cfg_none_test`). -/

theorem BtOK.of_none_test {c : Cfg} (hn : c.createNoneTest = true) (b : Nat) : BtOK c.createNoneTest b := Or.inl hn

theorem HistOK.of_none_test {c : Cfg} (hn : c.createNoneTest = true) {h : List Ev} (hh : HistOK true h) :
    HistOK c.createNoneTest h := by rw [hn]; exact hh

theorem HistOKb.of_none_test {c : Cfg} (hn : c.createNoneTest = true) {h : List Ev} (hh : HistOKb true h) :
    HistOKb c.createNoneTest h := by rw [hn]; exact hh

end Psutil.C01
