/- Proofs/C03TablesU.lean — the exhaustive runs (`decide +kernel`) for the source WITHOUT the is_running() repair
   (`lenient := false`), both values of HAS_PROC_SMAPS_ROLLUP. Statements: see Proofs/C03Tables.lean / Props/C03.lean. -/
import PsutilModel.Proofs.C03Tables
namespace Psutil.C03
open Spec

set_option maxRecDepth 100000 in
theorem leaks_u (r : Bool) : ∀ x ∈ twoDenialLeaks, LeakHolds ⟨r, false⟩ x := by
  cases r <;> decide +kernel

set_option maxRecDepth 100000 in
theorem bounded_u (r : Bool) : ∀ nm ∈ twoDenialBounded, BoundedSafe ⟨r, false⟩ w0 nm 12 := by
  cases r <;> decide +kernel

end Psutil.C03
