/- Proofs/C06.lean — helper lemmas for the C06 theorems. -/
import PsutilModel.Model.C06
import PsutilModel.Spec.C06
namespace Psutil.C06

/-- the configuration for which the property's theorems hold (every field is a translator fact) -/
structure Cfg.Good (c : Cfg) : Prop where
  statUsesRfind : c.statUsesRfind = true
  nameFromFirstLpar : c.nameFromFirstLpar = true
  statSkip : c.statSkip = 2
  iStatus : c.iStatus = 0
  iPpid : c.iPpid = 1
  iTty : c.iTty = 4
  iUtime : c.iUtime = 11
  iStime : c.iStime = 12
  iCutime : c.iCutime = 13
  iCstime : c.iCstime = 14
  iStart : c.iStart = 19
  iCpu : c.iCpu = 36
  iBlkio : c.iBlkio = 39
  blkioFallback : c.blkioFallback = true
  threadsUsesRfind : c.threadsUsesRfind = true
  threadsSkip : c.threadsSkip = 2
  tUtime : c.tUtime = 11
  tStime : c.tStime = 12
  statusBinary : c.statusBinary = true
  uidKey : c.uidKey = Spec.keyUid ++ [58]
  uidAnchored : c.uidAnchored = true
  uidSep : c.uidSep = Sep.tabOne
  gidKey : c.gidKey = Spec.keyGid ++ [58]
  gidAnchored : c.gidAnchored = true
  gidSep : c.gidSep = Sep.tabOne
  thrKey : c.thrKey = Spec.keyThreads ++ [58]
  thrAnchored : c.thrAnchored = true
  thrSep : c.thrSep = Sep.tabOne
  ctxKey : c.ctxKey = Spec.ctxWord ++ [58]
  ctxAnchored : c.ctxAnchored = false
  ctxSep : c.ctxSep = Sep.tabOne

end Psutil.C06

namespace Psutil.C06
open Spec

/-! ### generic list / byte lemmas -/

theorem mem_joinWith {sep : Bytes} {fs : List Bytes} {c : Nat} (h : c ∈ joinWith sep fs) :
    c ∈ sep ∨ ∃ f ∈ fs, c ∈ f := by
  induction fs with
  | nil => simp [joinWith] at h
  | cons f fs ih =>
    cases fs with
    | nil => exact Or.inr ⟨f, by simp, by simpa [joinWith] using h⟩
    | cons g gs =>
      simp only [joinWith, List.mem_append] at h
      rcases h with (h | h) | h
      · exact Or.inr ⟨f, by simp, h⟩
      · exact Or.inl h
      · rcases ih h with h | ⟨x, hx, hc⟩
        · exact Or.inl h
        · exact Or.inr ⟨x, by simp [hx], hc⟩

/-- `split()` of space-joined tokens followed by the record's final newline -/
theorem splitWs_join_nl (fs : List Bytes) (hne : fs ≠ [])
    (h : ∀ f ∈ fs, f ≠ [] ∧ NoWs f) : splitWs (joinWith [32] fs ++ [10]) = fs := by
  unfold splitWs
  induction fs with
  | nil => exact absurd rfl hne
  | cons f fs ih =>
    have hf := h f (by simp)
    have hrev : f.reverse ≠ [] := by simpa using hf.1
    cases fs with
    | nil =>
      simp only [joinWith]
      rw [splitWsGo_token f [10] [] hf.2]
      simp only [List.append_nil]
      rw [splitWsGo_ws 10 [] _ (by decide) hrev]
      simp [splitWsGo]
    | cons g gs =>
      have ih' := ih (by simp) (fun x hx => h x (by simp [hx]))
      simp only [joinWith] at ih' ⊢
      rw [List.append_assoc, List.append_assoc, splitWsGo_token f _ [] hf.2]
      simp only [List.append_nil, List.singleton_append]
      rw [splitWsGo_ws 32 _ _ (by decide) hrev]
      simp only [List.reverse_reverse]
      rw [ih']

theorem pyIdx_ofNat (len n : Nat) : pyIdx len (Int.ofNat n) = min n len := by
  unfold pyIdx
  have : ¬ (Int.ofNat n < 0) := by simp
  rw [if_neg this]; simp

theorem pyIdx_ofNat_add (len n k : Nat) : pyIdx len (Int.ofNat n + Int.ofNat k) = min (n + k) len := by
  rw [← pyIdx_ofNat]; rfl

theorem pyIdx_ofNat_add_one (len n : Nat) : pyIdx len (Int.ofNat n + 1) = min (n + 1) len := by
  rw [← pyIdx_ofNat]; rfl

theorem pyFind_first (c : Nat) (pre suf : Bytes) (h : c ∉ pre) :
    pyFind c (pre ++ c :: suf) = Int.ofNat pre.length := by
  simp [pyFind, findIdx?_first c pre suf h]

theorem pyRfind_last (c : Nat) (pre suf : Bytes) (h : c ∉ suf) :
    pyRfind c (pre ++ c :: suf) = Int.ofNat pre.length := by
  simp [pyRfind, rfindIdx?_last c pre suf h]

theorem renderInt_ne_nil (i : Int) : renderInt i ≠ [] := by
  unfold renderInt; split
  · simp
  · exact renderDec_ne_nil _

theorem renderInt_chars (i : Int) : ∀ c ∈ renderInt i, c = 45 ∨ isDigit c = true := by
  intro c hc
  unfold renderInt at hc
  split at hc
  · rcases List.mem_cons.mp hc with h | h
    · exact Or.inl h
    · exact Or.inr (renderDec_isDigit _ c h)
  · exact Or.inr (renderDec_isDigit _ c hc)

/-- what a token of the numeric tail can contain -/
def TokOk (t : Bytes) : Prop := t ≠ [] ∧ ∀ c ∈ t, c = 45 ∨ isDigit c = true ∨ isLetter c = true

theorem tokOk_dec (n : Nat) : TokOk (renderDec n) :=
  ⟨renderDec_ne_nil n, fun c hc => Or.inr (Or.inl (renderDec_isDigit n c hc))⟩

theorem tokOk_int (i : Int) : TokOk (renderInt i) :=
  ⟨renderInt_ne_nil i, fun c hc => (renderInt_chars i c hc).elim Or.inl (fun h => Or.inr (Or.inl h))⟩

theorem okChar_props {c : Nat} (h : c = 45 ∨ isDigit c = true ∨ isLetter c = true) :
    isWs c = false ∧ c ≠ 41 ∧ c ≠ 32 ∧ c ≠ 40 ∧ c ≠ 10 := by
  simp only [isDigit, isLetter, Bool.and_eq_true, Bool.or_eq_true, decide_eq_true_eq] at h
  simp only [isWs, Bool.or_eq_false_iff, beq_eq_false_iff_ne, Bool.and_eq_false_iff,
    decide_eq_false_iff_not]
  omega

theorem TokOk.noWs {t : Bytes} (h : TokOk t) : NoWs t := fun c hc => (okChar_props (h.2 c hc)).1

theorem TokOk.not_mem {t : Bytes} (h : TokOk t) {c : Nat} (hc : c = 41 ∨ c = 32 ∨ c = 40 ∨ c = 10) :
    c ∉ t := by
  intro hm
  have := okChar_props (h.2 c hm)
  omega

theorem statTokens_ok (r : StatRec) (hwf : r.WF) : ∀ t ∈ statTokens r, TokOk t := by
  intro t ht
  unfold statTokens at ht
  rw [List.mem_append] at ht
  rcases ht with ht | ht
  · simp only [List.mem_cons, List.not_mem_nil, or_false] at ht
    rcases ht with h | h | h | h | h | h | h | h | h | h | h | h | h | h | h | h | h | h | h | h | h | h | h | h | h | h | h | h | h | h | h | h | h | h | h | h | h | h | h
    all_goals first
      | (subst h; exact tokOk_dec _)
      | (subst h; exact tokOk_int _)
      | (subst h; exact ⟨by simp, fun c hc => by
            have : c = r.state := by simpa using hc
            subst this; exact Or.inr (Or.inr hwf)⟩)
  · cases hta : r.tail with
    | none => simp [hta] at ht
    | some p =>
      obtain ⟨b, more⟩ := p
      simp only [hta, List.mem_cons, List.mem_map] at ht
      rcases ht with h | ⟨x, _, h⟩
      · subst h; exact tokOk_dec _
      · subst h; exact tokOk_dec _

/-! ### `/proc/<pid>/stat` round trip -/

/-- the dict `_parse_stat_file` must return for record `r`: the kernel's tokens -/
def rawView (r : StatRec) : StatRaw :=
  { name := r.comm, status := [r.state], ppid := renderDec r.ppid, ttynr := renderDec r.ttyNr,
    utime := renderDec r.utime, stime := renderDec r.stime, cutime := renderDec r.cutime,
    cstime := renderDec r.cstime, ctime := renderDec r.starttime, cpuNum := renderDec r.processor,
    blkio := match r.tail with
      | some (b, _) => some (renderDec b)
      | none => none }

theorem statTokens_ne_nil (r : StatRec) : statTokens r ≠ [] := by simp [statTokens]

/-- key lemma: nothing after the comm's closing parenthesis contains `)` -/
theorem rfind_last_paren (r : StatRec) (hwf : r.WF) :
    41 ∉ (32 :: (joinWith [32] (statTokens r) ++ [10])) := by
  intro hm
  simp only [List.mem_cons, List.mem_append, List.not_mem_nil, or_false] at hm
  rcases hm with h | h | h
  · omega
  · rcases mem_joinWith h with h | ⟨t, ht, hc⟩
    · simp at h
    · exact (statTokens_ok r hwf t ht).not_mem (Or.inl rfl) hc
  · omega

theorem renderStat_split_rpar (r : StatRec) :
    renderStat r = (renderDec r.pid ++ [32, 40] ++ r.comm)
      ++ 41 :: (32 :: (joinWith [32] (statTokens r) ++ [10])) := by
  simp [renderStat]

theorem renderStat_split_lpar (r : StatRec) :
    renderStat r = (renderDec r.pid ++ [32])
      ++ 40 :: (r.comm ++ 41 :: 32 :: (joinWith [32] (statTokens r) ++ [10])) := by
  simp [renderStat]

theorem pyRfind_renderStat (r : StatRec) (hwf : r.WF) :
    pyRfind 41 (renderStat r) = Int.ofNat ((renderDec r.pid).length + 2 + r.comm.length) := by
  rw [renderStat_split_rpar, pyRfind_last 41 _ _ (rfind_last_paren r hwf)]
  congr 1
  simp only [List.length_append, List.length_cons, List.length_nil]

theorem pyFind_renderStat (r : StatRec) :
    pyFind 40 (renderStat r) = Int.ofNat ((renderDec r.pid).length + 1) := by
  rw [renderStat_split_lpar, pyFind_first]
  · simp
  · intro hm
    rcases List.mem_append.mp hm with h | h
    · exact renderDec_not_mem r.pid 40 (by decide) h
    · simp at h

theorem name_slice (r : StatRec) (hwf : r.WF) :
    pySlice (renderStat r) (pyFind 40 (renderStat r) + 1) (pyRfind 41 (renderStat r)) = r.comm := by
  rw [pyFind_renderStat, pyRfind_renderStat r hwf]
  unfold pySlice
  rw [pyIdx_ofNat, pyIdx_ofNat_add_one]
  have hlen : (renderStat r).length
      = (renderDec r.pid).length + 2 + r.comm.length + (3 + (joinWith [32] (statTokens r)).length) := by
    simp [renderStat]; omega
  rw [Nat.min_eq_left (by omega), Nat.min_eq_left (by omega)]
  rw [renderStat_split_rpar, List.take_left' (by simp only [List.length_append, List.length_cons, List.length_nil])]
  rw [List.drop_left' (by simp only [List.length_append, List.length_cons, List.length_nil])]

theorem fields_of_render (r : StatRec) (hwf : r.WF) :
    splitWs (pyFrom (renderStat r) (pyRfind 41 (renderStat r) + Int.ofNat 2)) = statTokens r := by
  rw [pyRfind_renderStat r hwf]
  unfold pyFrom
  rw [pyIdx_ofNat_add]
  have hlen : (renderStat r).length
      = (renderDec r.pid).length + 2 + r.comm.length + (3 + (joinWith [32] (statTokens r)).length) := by
    simp [renderStat]; omega
  rw [Nat.min_eq_left (by omega)]
  have : renderStat r = (renderDec r.pid ++ [32, 40] ++ r.comm ++ [41, 32])
      ++ (joinWith [32] (statTokens r) ++ [10]) := by simp [renderStat]
  rw [this, List.drop_left' (by simp only [List.length_append, List.length_cons, List.length_nil])]
  exact splitWs_join_nl _ (statTokens_ne_nil r)
    (fun t ht => ⟨(statTokens_ok r hwf t ht).1, (statTokens_ok r hwf t ht).noWs⟩)

theorem parseStat_render (c : Cfg) (hg : c.Good) (r : StatRec) (hwf : r.WF) :
    parseStat c (renderStat r) = .ok (rawView r) := by
  unfold parseStat
  simp only [hg.statUsesRfind, hg.nameFromFirstLpar, hg.statSkip, hg.iStatus, hg.iPpid, hg.iTty,
    hg.iUtime, hg.iStime, hg.iCutime, hg.iCstime, hg.iStart, hg.iCpu, hg.iBlkio, hg.blkioFallback,
    if_true, name_slice r hwf, fields_of_render r hwf]
  cases ht : r.tail with
  | none => simp [statTokens, getField, rawView, ht, bind, Except.bind, pure, Except.pure]
  | some p =>
    obtain ⟨b, more⟩ := p
    simp [statTokens, getField, rawView, ht, bind, Except.bind, pure, Except.pure]

/-! ### `int()` / `float()` of a kernel-printed number -/

theorem parseInt?_renderDec (n : Nat) : parseInt? (renderDec n) = some (n : Int) := by
  have hne := renderDec_ne_nil n
  have hd := renderDec_isDigit n
  have hp := parseDec_renderDec n
  cases h : renderDec n with
  | nil => exact absurd h hne
  | cons c cs =>
    rw [h] at hd hp
    have hc : isDigit c = true := hd c (by simp)
    have hc45 : c ≠ 45 := by
      simp only [isDigit, Bool.and_eq_true, decide_eq_true_eq] at hc; omega
    unfold parseInt?
    split
    · next heq => exact absurd (List.cons.inj heq).1 hc45
    · simp [hp]

theorem pyInt_renderDec (n : Nat) : pyInt (renderDec n) = .ok (n : Int) := by
  simp [pyInt, parseInt?_renderDec]

theorem pyFloat_renderDec (n : Nat) : pyFloat (renderDec n) = .ok (n : Rat) := by
  simp [pyFloat, pyInt_renderDec, Functor.map, Except.map, Rat.intCast_natCast]

/-! ### `threads()`: one per-thread record -/

/-- the record without its final newline -/
def statBody (r : StatRec) : Bytes :=
  renderDec r.pid ++ [32, 40] ++ r.comm ++ [41, 32] ++ joinWith [32] (statTokens r)

theorem renderStat_eq_body (r : StatRec) : renderStat r = statBody r ++ [10] := by
  simp [renderStat, statBody]

theorem joinWith_last (sep : Bytes) (fs : List Bytes) (hne : fs ≠ []) (h : ∀ f ∈ fs, f ≠ []) :
    ∃ pre x, joinWith sep fs = pre ++ [x] ∧ ∃ f ∈ fs, x ∈ f := by
  induction fs with
  | nil => exact absurd rfl hne
  | cons f fs ih =>
    cases fs with
    | nil =>
      have hf := h f (by simp)
      refine ⟨f.dropLast, f.getLast hf, ?_, f, by simp, List.getLast_mem hf⟩
      simp [joinWith, List.dropLast_concat_getLast]
    | cons g gs =>
      obtain ⟨pre, x, he, t, ht, hx⟩ := ih (by simp) (fun y hy => h y (by simp [hy]))
      refine ⟨f ++ sep ++ pre, x, ?_, t, by simp [ht], hx⟩
      simp only [joinWith] at he ⊢
      rw [he]; simp

theorem lstripWs_of_head {c : Nat} {cs : Bytes} (h : isWs c = false) : lstripWs (c :: cs) = c :: cs := by
  simp [lstripWs, h]

theorem stripWs_renderStat (r : StatRec) (hwf : r.WF) : stripWs (renderStat r) = statBody r := by
  rw [renderStat_eq_body]
  -- first byte: a digit of the pid
  have hpid := renderDec_ne_nil r.pid
  obtain ⟨pre, x, hj, t, ht, hx⟩ := joinWith_last [32] (statTokens r) (statTokens_ne_nil r)
    (fun t ht => (statTokens_ok r hwf t ht).1)
  have hxws : isWs x = false := (statTokens_ok r hwf t ht).noWs x hx
  cases hp : renderDec r.pid with
  | nil => exact absurd hp hpid
  | cons d ds =>
    have hd : isWs d = false := renderDec_noWs r.pid d (by rw [hp]; simp)
    have hbody : statBody r = d :: (ds ++ [32, 40] ++ r.comm ++ [41, 32] ++ joinWith [32] (statTokens r)) := by
      simp [statBody, hp]
    have hbody2 : statBody r = (renderDec r.pid ++ [32, 40] ++ r.comm ++ [41, 32] ++ pre) ++ [x] := by
      simp [statBody, hj]
    unfold stripWs
    rw [hbody, List.cons_append, lstripWs_of_head hd, ← List.cons_append, ← hbody]
    unfold rstripWs
    rw [hbody2]
    simp only [List.reverse_append, List.reverse_cons, List.reverse_nil, List.nil_append,
      List.cons_append]
    have h10 : isWs 10 = true := by decide
    simp [lstripWs, h10, hxws]

theorem statBody_split (r : StatRec) :
    statBody r = (renderDec r.pid ++ [32, 40] ++ r.comm) ++ 41 :: (32 :: joinWith [32] (statTokens r)) := by
  simp [statBody]

theorem rfind_last_paren_body (r : StatRec) (hwf : r.WF) :
    41 ∉ (32 :: joinWith [32] (statTokens r)) := by
  intro hm
  exact rfind_last_paren r hwf (by
    simp only [List.mem_cons, List.mem_append] at hm ⊢
    rcases hm with h | h
    · exact Or.inl h
    · exact Or.inr (Or.inl h))

theorem thread_values (c : Cfg) (hg : c.Good) (r : StatRec) (hwf : r.WF) :
    splitOn 32 (pyFrom (statBody r) (pyRfind 41 (statBody r) + Int.ofNat c.threadsSkip))
      = statTokens r := by
  rw [hg.threadsSkip, statBody_split, pyRfind_last 41 _ _ (rfind_last_paren_body r hwf)]
  unfold pyFrom
  rw [pyIdx_ofNat_add]
  have hle : (renderDec r.pid ++ [32, 40] ++ r.comm).length + 2
      ≤ ((renderDec r.pid ++ [32, 40] ++ r.comm) ++ 41 :: (32 :: joinWith [32] (statTokens r))).length := by
    simp only [List.length_append, List.length_cons, List.length_nil]; omega
  rw [Nat.min_eq_left hle]
  have : (renderDec r.pid ++ [32, 40] ++ r.comm) ++ 41 :: (32 :: joinWith [32] (statTokens r))
      = ((renderDec r.pid ++ [32, 40] ++ r.comm) ++ [41, 32]) ++ joinWith [32] (statTokens r) := by simp
  rw [this, List.drop_left' (by simp only [List.length_append, List.length_cons, List.length_nil])]
  exact splitOn_join 32 _ (statTokens_ne_nil r)
    (fun t ht => (statTokens_ok r hwf t ht).not_mem (Or.inr (Or.inl rfl)))

theorem pyDiv_pos (x : Rat) (tck : Nat) (htck : 0 < tck) : pyDiv x tck = .ok (x / tck) := by
  simp [pyDiv, Nat.ne_of_gt htck]

theorem threadOne_render (c : Cfg) (hg : c.Good) (tck : Nat) (htck : 0 < tck) (r : StatRec) (hwf : r.WF) :
    threadOne c tck r.pid (renderStat r)
      = .ok ⟨r.pid, (r.utime : Rat) / tck, (r.stime : Rat) / tck⟩ := by
  unfold threadOne threadValues
  simp only [stripWs_renderStat r hwf, hg.threadsUsesRfind, if_true, thread_values c hg r hwf,
    hg.tUtime, hg.tStime]
  simp [statTokens, getField, bind, Except.bind, pure, Except.pure, pyFloat_renderDec, pyDiv_pos _ tck htck]

end Psutil.C06
