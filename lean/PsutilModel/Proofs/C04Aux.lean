/-
  Proofs/C04Aux.lean — vocabulary of the trace-level statements (`yieldsOf`), an executable
  check of the sequential-history predicate (used for non-vacuity examples), and small lemmas
  about `dedup` and the `info` a visit attaches.
-/
import PsutilModel.Proofs.C04Sim
namespace Psutil.C04
open Spec

/-- the PID yielded by generator `g` at one step of a run, if any -/
def yieldOf (g : Nat) : Op × Out → Option Nat
  | (.next g' _, .yield _ p _) => if g' = g then some p else none
  | _ => none

/-- the PIDs generator `g` yields along history `h` from state `s`, in order -/
def yieldsOf (c : Cfg) (s : St) (g : Nat) (h : List Op) : List Nat :=
  (h.zip (trace c s h)).filterMap (yieldOf g)

theorem yieldsOf_cons (c : Cfg) (s : St) (g : Nat) (op : Op) (ops : List Op) :
    yieldsOf c s g (op :: ops)
      = match yieldOf g (op, (step c s op).2) with
        | some p => p :: yieldsOf c (step c s op).1 g ops
        | none => yieldsOf c (step c s op).1 g ops := by
  simp only [yieldsOf, trace, List.zip_cons_cons, List.filterMap_cons]
  cases yieldOf g (op, (step c s op).2) <;> rfl


/-- executable check of `OpOK` (for the non-vacuity examples) -/
def idleExcept (gens : List Gen) (g : Option Nat) : Bool :=
  (List.range gens.length).all fun j =>
    (g == some j) || match gens[j]? with
      | some gen => !isRun gen
      | none => true

def noReuseB (c : Cfg) : Attrs → Bool
  | .none => true
  | .names l => (namesOf c l).all fun n => !(kindOf c n == AttrKind.reuse)

def opOKb (c : Cfg) (s : St) : Op → Bool
  | .next g _ =>
    idleExcept s.gens (some g) &&
      match s.gens[g]? with
      | some gen => noReuseB c gen.attrs
          && (!(gen.st == GSt.fresh) || (!s.k.procs.isEmpty && (c.drainFirst || s.flagged.isEmpty)))
      | none => true
  | .cacheClear => idleExcept s.gens none
  | .pids => !s.k.procs.isEmpty
  | .pidExists _ => !s.k.procs.isEmpty
  | _ => true

def seqHistB (c : Cfg) : St → List Op → Bool
  | _, [] => true
  | s, op :: ops => opOKb c s op && seqHistB c (step c s op).1 ops

theorem idleExcept_sound {gens : List Gen} {g : Option Nat} (h : idleExcept gens g = true) :
    ∀ (j : Nat) (gen : Gen), g ≠ some j → gens[j]? = some gen → isRun gen = false := by
  intro j gen hj hg
  have hlt : j < gens.length := (List.getElem?_eq_some_iff.mp hg).1
  have := (List.all_eq_true.mp h) j (List.mem_range.mpr hlt)
  simp only [hg, Bool.or_eq_true, beq_iff_eq, Bool.not_eq_true'] at this
  rcases this with h1 | h1
  · exact absurd h1 hj
  · exact h1

theorem noReuseB_sound {c : Cfg} {a : Attrs} (h : noReuseB c a = true) : NoReuse c a := by
  cases a with
  | none => trivial
  | names l =>
    intro n hn
    have := (List.all_eq_true.mp h) n hn
    intro e
    simp [e] at this

theorem opOKb_sound {c : Cfg} {s : St} {op : Op} (h : opOKb c s op = true) : OpOK c s op := by
  cases op with
  | next g mid =>
    simp only [opOKb, Bool.and_eq_true] at h
    refine ⟨fun j gen hj hg => idleExcept_sound h.1 j gen (by simpa using fun e => hj e.symm) hg, ?_⟩
    intro gen hg
    have h2 := h.2
    rw [hg] at h2
    simp only [Bool.and_eq_true, Bool.or_eq_true, Bool.not_eq_true', beq_eq_false_iff_ne, ne_eq,
      List.isEmpty_eq_false_iff, List.isEmpty_iff] at h2
    refine ⟨noReuseB_sound h2.1, fun hf => ?_⟩
    rcases h2.2 with h3 | h3
    · exact absurd hf h3
    · exact h3
  | cacheClear =>
    exact fun j gen hg => idleExcept_sound (g := none) h j gen (by simp) hg
  | pids =>
    have h' : s.k.procs ≠ [] := by simpa [opOKb] using h
    exact h'
  | pidExists n =>
    have h' : s.k.procs ≠ [] := by simpa [opOKb] using h
    exact h'
  | kev e => trivial
  | iter a => trivial
  | close g => trivial
  | isRunning r => trivial

theorem seqHistB_sound (c : Cfg) : ∀ (h : List Op) (s : St), seqHistB c s h = true → SeqHist c s h
  | [], _, _ => trivial
  | op :: ops, s, h => by
    simp only [seqHistB, Bool.and_eq_true] at h
    exact ⟨opOKb_sound h.1, seqHistB_sound c ops _ h.2⟩


theorem mem_dedup (x : String) (l : List String) : x ∈ dedup l ↔ x ∈ l := by
  induction l with
  | nil => simp [dedup]
  | cons y ys ih =>
    simp only [dedup]
    split
    · rename_i hc
      simp only [List.contains_eq_mem, decide_eq_true_eq] at hc
      rw [ih]
      constructor
      · intro h; exact List.mem_cons_of_mem _ h
      · intro h
        rcases List.mem_cons.mp h with e | h'
        · rw [e]; exact hc
        · exact h'
    · simp [ih]

theorem nodup_dedup (l : List String) : (dedup l).Nodup := by
  induction l with
  | nil => simp [dedup]
  | cons y ys ih =>
    simp only [dedup]
    split
    · exact ih
    · rename_i hc
      simp only [List.contains_eq_mem, decide_eq_true_eq] at hc
      exact List.nodup_cons.mpr ⟨fun h => hc ((mem_dedup y ys).mp h), ih⟩

theorem visit_info (c : Cfg) (attrs : Attrs) (g : Nat) (listed : List Nat) :
    ∀ (todo : List (Nat × Option Ref)) (s : St) (pmap : PMap) (r : Ref) (p : Nat) (info : Option (List String)),
      (visit c attrs g listed s pmap todo).2 = .yield r p info →
      info = match attrs with
        | .none => none
        | .names l => some (namesOf c l) := by
  intro todo
  induction todo with
  | nil => intro s pmap r p info h; simp [visit] at h
  | cons e rest ih =>
    intro s pmap r p info h
    obtain ⟨pid, oref⟩ := e
    simp only [visit] at h
    cases ha : addProc s pmap pid oref with
    | none => rw [ha] at h; exact ih _ _ r p info h
    | some x =>
      obtain ⟨s1, pm1, r1⟩ := x
      rw [ha] at h
      simp only at h
      cases hf : fillInfo c attrs r1 pid s1 with
      | ok s2 info' =>
        rw [hf] at h
        simp only [Out.yield.injEq] at h
        obtain ⟨_, _, rfl⟩ := h
        cases attrs with
        | none => simp only [fillInfo, Fill.ok.injEq] at hf; exact hf.2.symm
        | names l =>
          simp only [fillInfo] at hf
          split at hf
          · cases hf
          · split at hf
            · simp only [Fill.ok.injEq] at hf; exact hf.2.symm
            · cases hf
      | bad => rw [hf] at h; cases h
      | nsp s2 => rw [hf] at h; exact ih _ _ r p info h


end Psutil.C04
