/-
  Proofs/C12Stat.lean — seeded round 5: the errno / class with which `os.stat` of a path outside procfs fails
  (`FsEnt.unstatable`). Helper definitions and lemmas for the theorems `C12_stat_errno_never_matters`,
  `C12_unstatable_deleted_is_stale`, `C12_exists_strict_answer` in Props/C12.lean.
-/
import PsutilModel.Proofs.C12Front
namespace Psutil.C12
open Spec

/-- the same answer of the file system with the errno of a failing `os.stat` forgotten: a refused examination
    (PermissionError) stays refused, every other failure becomes plain "no such file" -/
def FsEnt.forgetErrno : FsEnt → FsEnt
  | .unstatable _ .permission => .denied
  | .unstatable _ _ => .absent
  | e => e

/-- the world in which every failing `os.stat` outside procfs fails with ENOENT or EACCES only -/
def World.forgetErrno (w : World) : World := { w with fs := fun p => (w.fs p).forgetErrno }

theorem named_forgetErrno (e : FsEnt) : named e.forgetErrno = named e := by
  cases e with
  | unstatable en cls => cases cls <;> rfl
  | _ => rfl

theorem forgetErrno_eq_file (e : FsEnt) (x : Bool) : e.forgetErrno = .file x ↔ e = .file x := by
  cases e with
  | unstatable en cls => cases cls <;> simp [FsEnt.forgetErrno]
  | _ => simp [FsEnt.forgetErrno]

theorem linkClean_forgetErrno (fs : Bytes → FsEnt) (t : Bytes) :
    linkClean (fun p => (fs p).forgetErrno) t = linkClean fs t := by
  unfold linkClean
  simp only [named_forgetErrno]

theorem isFile_forgetErrno (fs : Bytes → FsEnt) (p : Bytes) :
    isFile (fun p => (fs p).forgetErrno) p = isFile fs p := by
  unfold isFile
  cases h : fs p with
  | unstatable en cls => cases cls <;> simp [FsEnt.forgetErrno, h]
  | _ => simp [FsEnt.forgetErrno, h]

theorem xOk_forgetErrno (fs : Bytes → FsEnt) (p : Bytes) :
    xOk (fun p => (fs p).forgetErrno) p = xOk fs p := by
  unfold xOk
  cases h : fs p with
  | unstatable en cls => cases cls <;> simp [FsEnt.forgetErrno, h]
  | _ => simp [FsEnt.forgetErrno, h]

theorem readlinkRaw_forgetErrno (w : World) (l : LinkSt) :
    readlinkRaw good w.forgetErrno l = readlinkRaw good w l := by
  unfold readlinkRaw
  have he : effLink w.forgetErrno l = effLink w l := rfl
  rw [he]
  cases effLink w l with
  | target t =>
    have : readlinkClean good w.forgetErrno.fs t = readlinkClean good w.fs t := by
      rw [readlinkClean_eq, readlinkClean_eq]
      show (match linkClean (fun p => (w.fs p).forgetErrno) t with
        | some r => (Except.ok r : Raw Bytes) | none => .error (.os .eacces)) = _
      rw [linkClean_forgetErrno]
      rfl
    simp only [this]
    rfl
  | err e => cases e <;> rfl

theorem cwd_forgetErrno (w : World) : cwd good w.forgetErrno = cwd good w := by
  unfold cwd
  rw [show w.forgetErrno.cwd = w.cwd from rfl, readlinkRaw_forgetErrno]
  rfl

theorem procExe_forgetErrno (w : World) : procExe good w.forgetErrno = procExe good w := by
  unfold procExe
  rw [show w.forgetErrno.exe = w.exe from rfl, readlinkRaw_forgetErrno]
  rfl

theorem guessIt_forgetErrno (w : World) (fb : Res Bytes) :
    guessIt good w.forgetErrno fb = guessIt good w fb := by
  unfold guessIt
  rw [show cmdline good w.forgetErrno = cmdline good w from rfl]
  cases cmdline good w with
  | error e => rfl
  | ok l =>
    cases l with
    | nil => rfl
    | cons a0 rest =>
      show (if isAbs a0 && isFile (fun p => (w.fs p).forgetErrno) a0 && xOk (fun p => (w.fs p).forgetErrno) a0
        then _ else _) = _
      rw [isFile_forgetErrno, xOk_forgetErrno]

theorem exe_forgetErrno (w : World) (st : St) : exe good w.forgetErrno st = exe good w st := by
  unfold exe
  simp only [procExe_forgetErrno, guessIt_forgetErrno]

theorem step_forgetErrno (w : World) (st : St) (c : Call) :
    step good st w.forgetErrno c = step good st w c := by
  cases c with
  | exe => simp only [step, exe_forgetErrno]
  | cwd => simp only [step, cwd_forgetErrno]
  | _ => rfl

theorem stepIn_forgetErrno (b : Block) (w : World) (st : St) (c : Call) :
    stepIn good b st w.forgetErrno c = stepIn good b st w c := by
  cases c with
  | exe => simp only [stepIn, step_forgetErrno]
  | cwd => simp only [stepIn, step_forgetErrno]
  | cmdline => rfl
  | environ => rfl
  | name => rfl
  | username => rfl
  | terminal => rfl

theorem runAll_forgetErrno (st : St) (h : List (World × Call)) :
    runAll good st (h.map fun wc => (wc.1.forgetErrno, wc.2)) = runAll good st h := by
  induction h generalizing st with
  | nil => rfl
  | cons wc rest ih =>
    obtain ⟨w, c⟩ := wc
    simp only [List.map_cons, runAll, step_forgetErrno, ih]

/-! ### the specification does not look at the errno either -/

theorem specLink_forgetErrno (w : World) (l : LinkSt) : Spec.link w.forgetErrno l = Spec.link w l := by
  unfold Spec.link
  cases l with
  | target t =>
    show (if !w.dirExists then _ else (linkClean (fun p => (w.fs p).forgetErrno) t).map Except.ok) = _
    rw [linkClean_forgetErrno]
  | err e => cases e <;> rfl

theorem guessOf_forgetErrno (w : World) : Spec.guessOf w.forgetErrno = Spec.guessOf w := by
  unfold Spec.guessOf
  rw [show Spec.cmdline w.forgetErrno = Spec.cmdline w from rfl]
  cases Spec.cmdline w with
  | none => rfl
  | some r =>
    cases r with
    | error e => rfl
    | ok l =>
      cases l with
      | nil => rfl
      | cons a0 rest =>
        show some (if a0.head? = some 47 ∧ 0 ∉ a0 ∧ (w.fs a0).forgetErrno = .file true then _ else _) = _
        simp only [forgetErrno_eq_file]

theorem exeOnce_forgetErrno (w : World) : Spec.exeOnce w.forgetErrno = Spec.exeOnce w := by
  unfold Spec.exeOnce
  rw [show w.forgetErrno.exe = w.exe from rfl, specLink_forgetErrno, guessOf_forgetErrno]

theorem exeMemory_forgetErrno (ws : List World) :
    Spec.exeMemory (ws.map World.forgetErrno) = Spec.exeMemory ws := by
  induction ws with
  | nil => rfl
  | cons w ws ih => simp only [List.map_cons, Spec.exeMemory, exeOnce_forgetErrno, ih]

theorem specCall_forgetErrno (ws : List World) (w : World) (c : Call) :
    Spec.call (ws.map World.forgetErrno) w.forgetErrno c = Spec.call ws w c := by
  cases c with
  | exe => simp only [Spec.call, Spec.exeAfter, exeMemory_forgetErrno, exeOnce_forgetErrno]
  | cwd =>
    simp only [Spec.call, Spec.cwd]
    rw [show w.forgetErrno.cwd = w.cwd from rfl, specLink_forgetErrno]
  | _ => rfl

end Psutil.C12
