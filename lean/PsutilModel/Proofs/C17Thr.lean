/-
  Proofs/C17Thr.lean — the invariant behind the thread theorems of Props/C17.lean (seeded round 5).

  With no GIL window around the static-result call and none between the call and the decode, a thread that has a
  result pending owns the GIL, so the static object still holds ITS record when it decodes it.
-/
import PsutilModel.Model.C17Thr
import PsutilModel.Spec.C17Thr
namespace Psutil.C17.Thr

variable {α : Type}

@[simp] theorem setThr_self (f : Nat → Thread α) (t : Nat) (x : Thread α) : setThr f t x t = x := by simp [setThr]

@[simp] theorem setThr_ne (f : Nat → Thread α) {t u : Nat} (x : Thread α) (h : u ≠ t) : setThr f t x u = f u := by
  simp [setThr, h]

/-- what is true of thread `t` in every reachable state of a Good configuration -/
def ThrInv (files : Nat → List α) (s : St α) (t : Nat) : Prop :=
  (s.thr t).own = files t ∧
  match (s.thr t).pc with
  | .enter => (s.thr t).out ++ (s.thr t).todo = (s.thr t).own
  | .head => s.gil = some t ∧ (s.thr t).out ++ (s.thr t).todo = (s.thr t).own
  | .use => s.gil = some t ∧ ∃ r, s.static = some r ∧ (s.thr t).out ++ r :: (s.thr t).todo = (s.thr t).own
  | .done => (s.thr t).out = (s.thr t).own
  | _ => False

def Inv (files : Nat → List α) (s : St α) : Prop := ∀ t, ThrInv files s t

theorem init_inv (files : Nat → List α) : Inv files (initSt files) := by
  intro t
  simp [ThrInv, initSt]

/-- a thread other than the GIL owner is waiting to enter or has returned -/
theorem other_idle {files : Nat → List α} {s : St α} {t u : Nat} (hg : s.gil = some t) (hu : ThrInv files s u) (hut : u ≠ t) :
    (s.thr u).pc = .enter ∨ (s.thr u).pc = .done := by
  unfold ThrInv at hu
  cases hpc : (s.thr u).pc <;> simp only [hpc] at hu <;> simp_all

theorem step_inv (c : GilCfg) (hc : c.Good) (files : Nat → List α) (t : Nat) (s : St α) (h : Inv files s) :
    Inv files (step c t s) := by
  obtain ⟨h1, h2⟩ := hc
  intro u
  have ht := h t
  have hu := h u
  by_cases hut : u = t
  · -- the thread that moved
    subst hut
    unfold ThrInv at ht ⊢
    unfold step
    cases hpc : (s.thr u).pc <;> simp only [hpc, h1, h2] at ht ⊢
    · -- enter
      by_cases hg : s.gil = none <;> simp_all
    · -- head
      unfold produce
      cases htd : (s.thr u).todo <;> simp_all
    · exact ht.2.elim
    · exact ht.2.elim
    · exact ht.2.elim
    · exact ht.2.elim
    · -- use
      obtain ⟨ho, hg, r, hs, hr⟩ := ht
      simp_all
    · -- done
      simpa using ht
  · -- another thread moved: if it changed the GIL or the static object it owned the GIL (or nobody did)
    unfold ThrInv at ht
    unfold step
    cases hpc : (s.thr t).pc <;> simp only [hpc, h1, h2] at ht ⊢
    · -- enter
      by_cases hg : s.gil = none
      · unfold ThrInv at hu ⊢
        cases hpu : (s.thr u).pc <;> simp_all
      · simpa [hg] using hu
    · -- head
      have hid := other_idle ht.2.1 hu hut
      unfold produce
      unfold ThrInv at hu ⊢
      cases htd : (s.thr t).todo <;> rcases hid with hid | hid <;> simp_all
    · exact ht.2.elim
    · exact ht.2.elim
    · exact ht.2.elim
    · exact ht.2.elim
    · -- use
      obtain ⟨ho, hg, r, hs, hr⟩ := ht
      unfold ThrInv at hu ⊢
      cases hpu : (s.thr u).pc <;> simp_all
    · simpa using hu

theorem run_inv (c : GilCfg) (hc : c.Good) (files : Nat → List α) (sched : List Nat) (s : St α) (h : Inv files s) :
    Inv files (run c sched s) := by
  induction sched generalizing s with
  | nil => exact h
  | cons t r ih => exact ih _ (step_inv c hc files t s h)

/-- what the invariant says about the rows of a call -/
theorem inv_rows {files : Nat → List α} {s : St α} {t : Nat} (h : ThrInv files s t) :
    (s.thr t).out <+: files t ∧ ((s.thr t).pc = .done → (s.thr t).out = files t) := by
  unfold ThrInv at h
  obtain ⟨ho, h⟩ := h
  rw [← ho]
  cases hpc : (s.thr t).pc <;> simp only [hpc] at h
  · exact ⟨⟨_, h⟩, by simp⟩
  · exact ⟨⟨_, h.2⟩, by simp⟩
  · obtain ⟨_, r, _, hr⟩ := h
    exact ⟨⟨_, hr⟩, by simp⟩
  · exact ⟨⟨[], by simp [h]⟩, fun _ => h⟩

end Psutil.C17.Thr
