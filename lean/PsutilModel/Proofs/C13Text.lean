/-
  Proofs/C13Text.lean — text-level helper lemmas for C13: strip / split / maxsplit, lines.
-/
import PsutilModel.Model.C13
import PsutilModel.Spec.C13
namespace Psutil.C13
open Psutil Psutil.C13.Spec

/-! ### takeWhile / dropWhile on a token followed by a blank -/

theorem takeWhile_tok (tok rest : Bytes) (w : Nat) (h : NoWs tok) (hw : isWs w = true) :
    (tok ++ w :: rest).takeWhile (fun c => !isWs c) = tok := by
  induction tok with
  | nil => simp [hw]
  | cons c t ih =>
    have hc : isWs c = false := h c (by simp)
    have ht : NoWs t := fun d hd => h d (by simp [hd])
    simp [hc, ih ht]

theorem dropWhile_tok (tok rest : Bytes) (w : Nat) (h : NoWs tok) (hw : isWs w = true) :
    (tok ++ w :: rest).dropWhile (fun c => !isWs c) = w :: rest := by
  induction tok with
  | nil => simp [hw]
  | cons c t ih =>
    have hc : isWs c = false := h c (by simp)
    have ht : NoWs t := fun d hd => h d (by simp [hd])
    simp [hc, ih ht]

theorem takeWhile_tok_end (tok : Bytes) (h : NoWs tok) :
    tok.takeWhile (fun c => !isWs c) = tok := by
  induction tok with
  | nil => rfl
  | cons c t ih =>
    have hc : isWs c = false := h c (by simp)
    have ht : NoWs t := fun d hd => h d (by simp [hd])
    simp [hc, ih ht]

theorem dropWhile_tok_end (tok : Bytes) (h : NoWs tok) :
    tok.dropWhile (fun c => !isWs c) = [] := by
  induction tok with
  | nil => rfl
  | cons c t ih =>
    have hc : isWs c = false := h c (by simp)
    have ht : NoWs t := fun d hd => h d (by simp [hd])
    simp [hc, ih ht]

/-! ### lstrip / rstrip -/

theorem lstripWs_cons_nonws (c : Nat) (t : Bytes) (h : isWs c = false) : lstripWs (c :: t) = c :: t := by
  simp [lstripWs, h]

theorem lstripWs_cons_ws (c : Nat) (t : Bytes) (h : isWs c = true) : lstripWs (c :: t) = lstripWs t := by
  simp [lstripWs, h]

theorem lstripWs_spaces (n : Nat) (rest : Bytes) : lstripWs (List.replicate n 32 ++ rest) = lstripWs rest := by
  induction n with
  | zero => simp
  | succ n ih => simp [List.replicate_succ, lstripWs, isWs, ih]

theorem lstripWs_append_of_ne (B A : Bytes) (h : lstripWs B ≠ []) : lstripWs (B ++ A) = lstripWs B ++ A := by
  induction B with
  | nil => simp [lstripWs] at h
  | cons c t ih =>
    by_cases hc : isWs c = true
    · simp only [List.cons_append, lstripWs, hc, if_true] at h ⊢
      exact ih h
    · simp [lstripWs, hc]

theorem lstripWs_snoc_nonws (x : Bytes) (c : Nat) (h : isWs c = false) :
    lstripWs (x ++ [c]) = lstripWs x ++ [c] := by
  induction x with
  | nil => simp [lstripWs, h]
  | cons a t ih =>
    by_cases ha : isWs a = true
    · simp [lstripWs, ha, ih]
    · simp [lstripWs, ha]

theorem rstripWs_append (A B : Bytes) (h : rstripWs B ≠ []) : rstripWs (A ++ B) = A ++ rstripWs B := by
  unfold rstripWs at *
  have h' : lstripWs B.reverse ≠ [] := by simpa using h
  rw [List.reverse_append, lstripWs_append_of_ne _ _ h']
  simp

theorem rstripWs_snoc_ws (b : Bytes) (c : Nat) (h : isWs c = true) : rstripWs (b ++ [c]) = rstripWs b := by
  unfold rstripWs
  simp [lstripWs, h]

theorem rstripWs_snoc_nonws (b : Bytes) (c : Nat) (h : isWs c = false) : rstripWs (b ++ [c]) = b ++ [c] := by
  unfold rstripWs
  simp [lstripWs, h]

theorem mem_lstripWs {s : Bytes} {c : Nat} (h : c ∈ lstripWs s) : c ∈ s := by
  induction s with
  | nil => simp [lstripWs] at h
  | cons a t ih =>
    unfold lstripWs at h
    split at h
    · exact List.mem_cons_of_mem _ (ih h)
    · exact h

theorem mem_rstripWs {s : Bytes} {c : Nat} (h : c ∈ rstripWs s) : c ∈ s := by
  unfold rstripWs at h
  have := mem_lstripWs (List.mem_reverse.mp h)
  exact List.mem_reverse.mp this

/-! ### `bytes.split(None, n)` -/

theorem splitWsN_nil (n : Nat) : splitWsN n [] = [] := by
  cases n <;> simp [splitWsN, lstripWs]

theorem splitWsN_ws (n : Nat) (w : Nat) (rest : Bytes) (hw : isWs w = true) :
    splitWsN n (w :: rest) = splitWsN n rest := by
  cases n <;> simp [splitWsN, lstripWs, hw]

theorem splitWsN_spaces (n k : Nat) (rest : Bytes) :
    splitWsN n (List.replicate k 32 ++ rest) = splitWsN n rest := by
  induction k with
  | zero => simp
  | succ k ih =>
    rw [List.replicate_succ, List.cons_append, splitWsN_ws n 32 _ (by decide), ih]

theorem splitWsN_succ_of_lstrip (n : Nat) (s : Bytes) (c : Nat) (t : Bytes) (h : lstripWs s = c :: t) :
    splitWsN (n + 1) s
      = (c :: t).takeWhile (fun c => !isWs c) :: splitWsN n ((c :: t).dropWhile (fun c => !isWs c)) := by
  simp [splitWsN, h]

theorem splitWsN_tok (n : Nat) (tok rest : Bytes) (w : Nat) (hne : tok ≠ []) (h : NoWs tok)
    (hw : isWs w = true) : splitWsN (n + 1) (tok ++ w :: rest) = tok :: splitWsN n (w :: rest) := by
  cases tok with
  | nil => exact absurd rfl hne
  | cons c t =>
    have hc : isWs c = false := h c (by simp)
    have hl : lstripWs (c :: t ++ w :: rest) = c :: t ++ w :: rest := lstripWs_cons_nonws c _ hc
    rw [splitWsN_succ_of_lstrip n _ c (t ++ w :: rest) hl, ← List.cons_append,
      takeWhile_tok (c :: t) rest w h hw, dropWhile_tok (c :: t) rest w h hw]

theorem splitWsN_tok_end (n : Nat) (tok : Bytes) (hne : tok ≠ []) (h : NoWs tok) :
    splitWsN (n + 1) tok = [tok] := by
  cases tok with
  | nil => exact absurd rfl hne
  | cons c t =>
    have hc : isWs c = false := h c (by simp)
    have hl : lstripWs (c :: t) = c :: t := lstripWs_cons_nonws c _ hc
    rw [splitWsN_succ_of_lstrip n _ c t hl, takeWhile_tok_end (c :: t) h, dropWhile_tok_end (c :: t) h,
      splitWsN_nil]

theorem splitWsN_zero (c : Nat) (t : Bytes) (hc : isWs c = false) : splitWsN 0 (c :: t) = [c :: t] := by
  simp [splitWsN, lstripWs, hc]

/-! ### lines -/

def modLast (f : α → α) : List α → List α
  | [] => []
  | [a] => [f a]
  | a :: b :: t => a :: modLast f (b :: t)

theorem unlines_cons (l : Bytes) (ls : List Bytes) : unlines (l :: ls) = l ++ 10 :: unlines ls := by
  simp [unlines]

theorem unlines_single (l : Bytes) : unlines [l] = l ++ [10] := by
  simp [unlines]

theorem unlines_append (a b : List Bytes) : unlines (a ++ b) = unlines a ++ unlines b := by
  simp [unlines]

theorem rstripWs_unlines_ne (L : List Bytes) (hne : L ≠ [])
    (hlast : ∀ l, L.getLast? = some l → rstripWs l ≠ []) : rstripWs (unlines L) ≠ [] := by
  induction L with
  | nil => exact absurd rfl hne
  | cons a t ih =>
    cases t with
    | nil =>
      have := hlast a (by simp)
      rw [unlines_single, rstripWs_snoc_ws a 10 (by decide)]
      exact this
    | cons b t' =>
      have ih' := ih (by simp) (fun l hl => hlast l (by simpa using hl))
      rw [unlines_cons, show a ++ 10 :: unlines (b :: t') = (a ++ [10]) ++ unlines (b :: t') by simp,
        rstripWs_append _ _ ih']
      simp

/-- `f.read().strip().split(b'\n')` of a file whose every line is newline-terminated:
    the lines, the last one right-stripped. -/
theorem splitOn_rstrip_unlines (L : List Bytes) (hne : L ≠ []) (hnl : ∀ l ∈ L, 10 ∉ l)
    (hlast : ∀ l, L.getLast? = some l → rstripWs l ≠ []) :
    splitOn 10 (rstripWs (unlines L)) = modLast rstripWs L := by
  induction L with
  | nil => exact absurd rfl hne
  | cons a t ih =>
    cases t with
    | nil =>
      simp only [modLast]
      rw [unlines_single, rstripWs_snoc_ws a 10 (by decide)]
      apply splitOn_noSep
      intro hm
      exact hnl a (by simp) (mem_rstripWs hm)
    | cons b t' =>
      have hl' : ∀ l, (b :: t').getLast? = some l → rstripWs l ≠ [] :=
        fun l hl => hlast l (by simpa using hl)
      have ih' := ih (by simp) (fun l hl => hnl l (by simp [hl])) hl'
      have hne' := rstripWs_unlines_ne (b :: t') (by simp) hl'
      rw [unlines_cons, show a ++ 10 :: unlines (b :: t') = (a ++ [10]) ++ unlines (b :: t') by simp,
        rstripWs_append _ _ hne', List.append_assoc, List.singleton_append,
        splitOn_append 10 a _ (hnl a (by simp)), ih']
      rfl

theorem stripWs_of_head_nonws (c : Nat) (t : Bytes) (hc : isWs c = false) :
    stripWs (c :: t) = rstripWs (c :: t) := by
  simp [stripWs, lstripWs, hc]

theorem modLast_append (f : α → α) (A B : List α) (hB : B ≠ []) :
    modLast f (A ++ B) = A ++ modLast f B := by
  induction A with
  | nil => rfl
  | cons a t ih =>
    cases h : t ++ B with
    | nil => simp at h; exact absurd h.2 hB
    | cons x y =>
      simp only [List.cons_append, h, modLast]
      rw [← h, ih]

theorem modLast_snoc (f : α → α) (A : List α) (b : α) : modLast f (A ++ [b]) = A ++ [f b] := by
  rw [modLast_append f A [b] (by simp)]; rfl

/-- `for line in f` over newline-terminated lines -/
theorem linesOf_unlines (L : List Bytes) (hnl : ∀ l ∈ L, 10 ∉ l) : linesOf (unlines L) = L := by
  have key : splitOn 10 (unlines L) = L ++ [[]] := by
    induction L with
    | nil => simp [unlines, splitOn]
    | cons a t ih =>
      rw [unlines_cons, splitOn_append 10 a _ (hnl a (by simp)), ih (fun l hl => hnl l (by simp [hl]))]
      rfl
  unfold linesOf
  rw [key]
  simp

theorem readline_append (x rest : Bytes) (h : 10 ∉ x) : readline (x ++ 10 :: rest) = x := by
  unfold readline
  induction x with
  | nil => simp [List.takeWhile]
  | cons c t ih =>
    have hc : c ≠ 10 := fun e => h (by simp [e])
    have ht : 10 ∉ t := fun m => h (by simp [m])
    simp [hc, ih ht]

end Psutil.C13
