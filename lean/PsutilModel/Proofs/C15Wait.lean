/-
  Proofs/C15Wait.lean — what one run of the `wait_pid` loop guarantees, each obtained from
  `loop_rule` by choosing an invariant; then lifted to `waitPid` and `procWait`.
-/
import PsutilModel.Proofs.C15
namespace Psutil.C15
open Spec

/-! ### `endedBy` -/

theorem endedBy_of_ended {env : Env} {t : Rat} (h : env.ended t = true) : endedBy env t := by
  unfold Env.ended at h
  unfold endedBy
  cases hx : env.exitAt with
  | none => simp [hx] at h
  | some e => right; simpa [hx] using h

theorem endedBy_mono {env : Env} {t t' : Rat} (h : endedBy env t) (hle : t ≤ t') : endedBy env t' := by
  unfold endedBy at *
  rcases h with h | h
  · exact Or.inl h
  · right
    cases hx : env.exitAt with
    | none => simp [hx] at h
    | some e => simp only [hx] at h ⊢; linarith

theorem not_endedBy_of_alive {env : Env} {t : Rat} (hk : env.kind ≠ .neverExisted)
    (h : env.ended t = false) : ¬ endedBy env t := by
  unfold Env.ended at h
  unfold endedBy
  rintro (h' | h')
  · exact hk h'
  · cases hx : env.exitAt with
    | none => simp [hx] at h'
    | some e => simp only [hx] at h h'; simp at h; linarith

theorem endedBy_of_not_exists {env : Env} {t : Rat} (h : env.pidExists t = false) : endedBy env t := by
  unfold Env.pidExists at h
  cases hk : env.kind with
  | neverExisted => exact Or.inl hk
  | nonChild => simp [hk] at h; exact endedBy_of_ended h
  | child st => simp [hk] at h; exact endedBy_of_ended h

theorem not_endedBy_of_exists {env : Env} {t : Rat} (h : env.pidExists t = true) : ¬ endedBy env t := by
  unfold Env.pidExists at h
  cases hk : env.kind with
  | neverExisted => simp [hk] at h
  | nonChild => simp [hk] at h; exact not_endedBy_of_alive (by simp [hk]) h
  | child st => simp [hk] at h; exact not_endedBy_of_alive (by simp [hk]) h

theorem isChild_iff {env : Env} : isChild env ↔ ∃ st, env.kind = .child st := by
  unfold isChild
  cases env.kind <;> simp

theorem decode_ne_none (st : Nat) : decode st ≠ .none := by
  rcases decode_cases st with ⟨c, h⟩ | h <;> simp [h]

theorem decode_ne_timeout (st : Nat) (sec : Rat) (p : Nat) : decode st ≠ .timeout sec p := by
  rcases decode_cases st with ⟨c, h⟩ | h <;> simp [h]

theorem decode_ne_hang (st : Nat) : decode st ≠ .hang := by
  rcases decode_cases st with ⟨c, h⟩ | h <;> simp [h]

theorem decode_ne_fuel (st : Nat) : decode st ≠ .outOfFuel := by
  rcases decode_cases st with ⟨c, h⟩ | h <;> simp [h]

section
variable {c : Cfg} (hg : c.Good) (env : Env) (pid : Nat) (timeout : Option Rat) (stopAt : Rat)
include hg

local notation "LOOP" => waitLoop c env pid timeout stopAt

/-- never early + a code only for a child + None only for a non-child -/
theorem loop_neverEarly (fuel : Nat) (s : St) :
    (∀ cc, (LOOP fuel s).1 = .code cc → isChild env ∧ endedBy env (LOOP fuel s).2.now) ∧
    ((LOOP fuel s).1 = .none → ¬ isChild env ∧ endedBy env (LOOP fuel s).2.now) := by
  refine loop_rule hg env pid timeout stopAt (fun _ _ => True)
    (fun o s => (∀ cc, o = .code cc → isChild env ∧ endedBy env s.now) ∧
                (o = .none → ¬ isChild env ∧ endedBy env s.now))
    ?_ ?_ ?_ ?_ ?_ ?_ ?_ ?_ fuel s trivial
  · intros; trivial
  · intro n s τ _ _ _ _; exact ⟨fun _ h => (by cases h), fun h => (by cases h)⟩
  · intros; trivial
  · intro n s st _ hk _ he _ _
    exact ⟨fun _ _ => ⟨isChild_iff.2 ⟨st, hk⟩, endedBy_of_ended he⟩,
           fun h => absurd h (decode_ne_none st)⟩
  · intro n s st e _ hk _ hx
    refine ⟨fun _ _ => ⟨isChild_iff.2 ⟨st, hk⟩, ?_⟩, fun h => absurd h (decode_ne_none st)⟩
    right; simp only [hx]; exact le_rmax_right _ _
  · intro n s st _ _ _ _; exact ⟨fun _ h => (by cases h), fun h => (by cases h)⟩
  · intro n s _ hk he
    refine ⟨fun _ h => (by cases h), fun _ => ⟨?_, endedBy_of_not_exists he⟩⟩
    intro hc; obtain ⟨st, h⟩ := isChild_iff.1 hc; exact hk st h
  · intro s _; exact ⟨fun _ h => (by cases h), fun h => (by cases h)⟩

/-- a returned exit status is the decoding of the child's status word -/
theorem loop_decode (fuel : Nat) (s : St) (cc : Int) (h : (LOOP fuel s).1 = .code cc) :
    ∃ st, env.kind = .child st ∧ decode st = .code cc := by
  have := loop_rule hg env pid timeout stopAt (fun _ _ => True)
    (fun o _ => ∀ cc, o = .code cc → ∃ st, env.kind = .child st ∧ decode st = .code cc)
    (by intros; trivial)
    (by intro n s τ _ _ _ _ cc h; cases h)
    (by intros; trivial)
    (by intro n s st _ hk _ _ _ _ cc h; exact ⟨st, hk, h⟩)
    (by intro n s st e _ hk _ _ cc h; exact ⟨st, hk, h⟩)
    (by intro n s st _ _ _ _ cc h; cases h)
    (by intro n s _ _ _ cc h; cases h)
    (by intro s _ cc h; cases h)
    fuel s trivial
  exact this cc h

/-- TimeoutExpired: carries the timeout and the pid, is raised at/after the deadline, and — when
    the last waitpid call was not interrupted — with the process still alive at that instant -/
theorem loop_timeoutSound (fuel : Nat) (s : St) (sec : Rat) (p : Nat)
    (h : (LOOP fuel s).1 = .timeout sec p) :
    timeout = some sec ∧ p = pid ∧ stopAt ≤ (LOOP fuel s).2.now ∧
    (env.eintr ((LOOP fuel s).2.nWait - 1) = false → ¬ endedBy env (LOOP fuel s).2.now) := by
  have := loop_rule hg env pid timeout stopAt (fun _ _ => True)
    (fun o s => ∀ sec p, o = .timeout sec p →
      timeout = some sec ∧ p = pid ∧ stopAt ≤ s.now ∧
      (env.eintr (s.nWait - 1) = false → ¬ endedBy env s.now))
    (by intros; trivial)
    (by
      intro n s τ _ hw ht hd sec p h
      cases h
      refine ⟨ht, rfl, hd, fun hne => ?_⟩
      cases hw with
      | eintr h1 h2 => rw [h2] at hne; cases hne
      | aliveChild st hk _ ha _ _ => exact not_endedBy_of_alive (by simp [hk]) ha
      | existsNonChild _ he => exact not_endedBy_of_exists he)
    (by intros; trivial)
    (by intro n s st _ _ _ _ _ _ sec p h; exact absurd h (decode_ne_timeout st sec p))
    (by intro n s st e _ _ _ _ sec p h; exact absurd h (decode_ne_timeout st sec p))
    (by intro n s st _ _ _ _ sec p h; cases h)
    (by intro n s _ _ _ sec p h; cases h)
    (by intro s _ sec p h; cases h)
    fuel s trivial
  exact this sec p h

/-- with a timeout, whatever happens happens less than one capped interval after the deadline -/
theorem loop_bound (fuel : Nat) (s : St) (ht : timeout.isSome = true)
    (h0 : s.now < stopAt + Spec.cap) (hi : s.interval ≤ Spec.cap) :
    (LOOP fuel s).2.now < stopAt + Spec.cap := by
  have := loop_rule hg env pid timeout stopAt
    (fun _ s => s.now < stopAt + Spec.cap ∧ s.interval ≤ Spec.cap)
    (fun _ s => s.now < stopAt + Spec.cap)
    (by intro n s h; exact h)
    (by intro n s τ h _ _ _; exact h.1)
    (by
      intro n s h _ hlt
      obtain ⟨τ, hτ⟩ := Option.isSome_iff_exists.1 ht
      have := hlt τ hτ
      refine ⟨?_, ?_⟩
      · rw [advance_now]; linarith [h.2]
      · rw [advance_interval hg]; exact rmin_le_right _ _)
    (by intro n s st h _ _ _ _ _; exact h.1)
    (by intro n s st e _ _ hn _; rw [hn] at ht; cases ht)
    (by intro n s st h _ _ _; exact h.1)
    (by intro n s h _ _; exact h.1)
    (by intro s h; exact h.1)
    fuel s ⟨h0, hi⟩
  exact this

/-- every sleep follows the schedule -/
theorem loop_intervals (fuel : Nat) (s : St)
    (h0 : s.interval = iv s.sleeps.length) (h1 : ∀ n x, s.sleeps[n]? = some x → x = iv n) :
    ∀ n x, (LOOP fuel s).2.sleeps[n]? = some x → x = iv n := by
  have := loop_rule hg env pid timeout stopAt
    (fun _ s => s.interval = iv s.sleeps.length ∧ ∀ n x, s.sleeps[n]? = some x → x = iv n)
    (fun _ s => ∀ n x, s.sleeps[n]? = some x → x = iv n)
    (by intro n s h; exact h)
    (by intro n s τ h _ _ _; exact h.2)
    (by
      intro n s h _ _
      refine ⟨?_, ?_⟩
      · rw [advance_interval hg, advance_sleeps, h.1, iv_succ]; simp
      · intro k x hk
        rw [advance_sleeps] at hk
        by_cases hlt : k < s.sleeps.length
        · rw [List.getElem?_append_left hlt] at hk; exact h.2 k x hk
        · rw [List.getElem?_append_right (by omega)] at hk
          have : k - s.sleeps.length = 0 := by
            by_contra hne
            have : [s.interval][k - s.sleeps.length]? = none := by
              apply List.getElem?_eq_none; simp; omega
            rw [this] at hk; cases hk
          rw [this] at hk
          simp at hk
          have hk' : k = s.sleeps.length := by omega
          rw [← hk, h.1, hk'])
    (by intro n s st h _ _ _ _ _; exact h.2)
    (by intro n s st e h _ _ _; exact h.2)
    (by intro n s st h _ _ _; exact h.2)
    (by intro n s h _ _; exact h.2)
    (by intro s h; exact h.2)
    fuel s ⟨h0, h1⟩
  exact this

/-- once the deadline has passed nothing is slept any more and the clock stands still
    (`timeout=0`: from the very first iteration) -/
theorem loop_zero (fuel : Nat) (s : St) (τ : Rat) (ht : timeout = some τ) (h0 : stopAt ≤ s.now) :
    (LOOP fuel s).2.sleeps = s.sleeps ∧ (LOOP fuel s).2.now = s.now := by
  have := loop_rule hg env pid timeout stopAt
    (fun _ s' => s'.sleeps = s.sleeps ∧ s'.now = s.now)
    (fun _ s' => s'.sleeps = s.sleeps ∧ s'.now = s.now)
    (by intro n s' h; exact h)
    (by intro n s' τ h _ _ _; exact h)
    (by intro n s' h _ hlt; have := hlt τ ht; rw [h.2] at this; linarith)
    (by intro n s' st h _ _ _ _ _; exact h)
    (by intro n s' st e _ _ hn _; rw [hn] at ht; cases ht)
    (by intro n s' st h _ _ _; exact h)
    (by intro n s' h _ _; exact h)
    (by intro s' h; exact h)
    fuel s ⟨rfl, rfl⟩
  exact this

/-- the clock never runs backwards, the poll interval stays positive -/
theorem loop_mono (fuel : Nat) (s : St) (hi : 0 < s.interval) :
    s.now ≤ (LOOP fuel s).2.now := by
  have := loop_rule hg env pid timeout stopAt
    (fun _ s' => 0 < s'.interval ∧ s.now ≤ s'.now)
    (fun _ s' => s.now ≤ s'.now)
    (by intro n s' h; exact h)
    (by intro n s' τ h _ _ _; exact h.2)
    (by
      intro n s' h _ _
      refine ⟨?_, ?_⟩
      · rw [advance_interval hg]; exact lt_rmin (by linarith [h.1]) cap_pos
      · rw [advance_now]; linarith [h.1, h.2])
    (by intro n s' st h _ _ _ _ _; exact h.2)
    (by intro n s' st e h _ _ _; exact le_trans h.2 (le_rmax_left _ _))
    (by intro n s' st h _ _ _; exact h.2)
    (by intro n s' h _ _; exact h.2)
    (by intro s' h; exact h.2)
    fuel s ⟨hi, le_refl _⟩
  exact this

/-- termination: with a timeout, `fuel` iterations suffice as soon as
    `deadline − now ≤ (fuel − 1) · 0.0001` — every iteration that goes on advances the clock by at
    least 0.1 ms and only goes on before the deadline -/
theorem loop_terminates (fuel : Nat) (s : St) (τ : Rat) (ht : timeout = some τ)
    (hi : Spec.i0 ≤ s.interval) (hf : 1 ≤ fuel) (hb : stopAt - s.now ≤ ((fuel : Rat) - 1) * Spec.i0) :
    (LOOP fuel s).1 ≠ .outOfFuel := by
  have := loop_rule hg env pid timeout stopAt
    (fun n s' => Spec.i0 ≤ s'.interval ∧ 1 ≤ n ∧ stopAt - s'.now ≤ ((n : Rat) - 1) * Spec.i0)
    (fun o _ => o ≠ .outOfFuel)
    (by intro n s' h; exact h)
    (by intro n s' τ _ _ _ _; simp)
    (by
      intro n s' h _ hlt
      have hlt := hlt τ ht
      obtain ⟨h1, _, h3⟩ := h
      have hpos := i0_pos
      refine ⟨?_, ?_, ?_⟩
      · rw [advance_interval hg]
        exact le_rmin (by linarith) i0_le_cap
      · -- n ≥ 1: otherwise the budget would be ≤ 0 although the deadline is still ahead
        by_contra hn
        have : n = 0 := by omega
        subst this
        simp at h3
        linarith
      · rw [advance_now]
        push_cast at h3
        linarith)
    (by intro n s' st _ _ _ _ _ _; exact decode_ne_fuel st)
    (by intro n s' st e _ _ _ _; exact decode_ne_fuel st)
    (by intro n s' st _ _ _ _; simp)
    (by intro n s' _ _ _; simp)
    (by intro s' h; omega)
    fuel s ⟨hi, hf, hb⟩
  exact this

/-- the `nWait` counter only grows -/
theorem loop_nWait (fuel : Nat) (s : St) : s.nWait ≤ (LOOP fuel s).2.nWait := by
  have := loop_rule hg env pid timeout stopAt
    (fun _ s' => s.nWait ≤ s'.nWait) (fun _ s' => s.nWait ≤ s'.nWait)
    (by intro n s' h; simp; omega)
    (by intro n s' τ h _ _ _; exact h)
    (by intro n s' h _ _; rw [advance_nWait]; exact h)
    (by intro n s' st h _ _ _ _ _; exact h)
    (by intro n s' st e h _ _ _; exact h)
    (by intro n s' st h _ _ _; exact h)
    (by intro n s' h _ _; exact h)
    (by intro s' h; exact h)
    fuel s (le_refl _)
  exact this

end

/-! ### `wait_pid` itself -/

section
variable {c : Cfg} (hg : c.Good) (env : Env) (pid : Nat) (timeout : Option Rat)
variable (fuel : Nat) (now : Rat) (nWait : Nat)
include hg

local notation "RUN" => waitPid c env pid timeout fuel now nWait

omit hg in
theorem waitPid_pos (hp : 0 < pid) :
    RUN = waitLoop c env pid timeout (now + timeout.getD 0) fuel ⟨now, c.i0, nWait, []⟩ := by
  unfold waitPid
  have : pid ≠ 0 := by omega
  simp [this]

omit hg in
theorem waitPid_zero (hp : pid = 0) : RUN = (.valueError, ⟨now, c.i0, nWait, []⟩) := by
  unfold waitPid; simp [hp]

theorem waitPid_neverEarly :
    (∀ cc, RUN.1 = .code cc → isChild env ∧ endedBy env RUN.2.now) ∧
    (RUN.1 = .none → ¬ isChild env ∧ endedBy env RUN.2.now) := by
  by_cases hp : pid = 0
  · rw [waitPid_zero env pid timeout fuel now nWait hp]
    exact ⟨fun _ h => (by cases h), fun h => (by cases h)⟩
  · rw [waitPid_pos env pid timeout fuel now nWait (by omega)]
    exact loop_neverEarly hg env pid timeout _ fuel _

theorem waitPid_decode (cc : Int) (h : RUN.1 = .code cc) :
    ∃ st, env.kind = .child st ∧ decode st = .code cc := by
  by_cases hp : pid = 0
  · rw [waitPid_zero env pid timeout fuel now nWait hp] at h; cases h
  · rw [waitPid_pos env pid timeout fuel now nWait (by omega)] at h
    exact loop_decode hg env pid timeout _ fuel _ cc h

theorem waitPid_timeoutSound (sec : Rat) (p : Nat) (h : RUN.1 = .timeout sec p) :
    timeout = some sec ∧ p = pid ∧ now + sec ≤ RUN.2.now ∧
    (env.eintr (RUN.2.nWait - 1) = false → ¬ endedBy env RUN.2.now) := by
  by_cases hp : pid = 0
  · rw [waitPid_zero env pid timeout fuel now nWait hp] at h; cases h
  · rw [waitPid_pos env pid timeout fuel now nWait (by omega)] at h ⊢
    have := loop_timeoutSound hg env pid timeout _ fuel _ sec p h
    obtain ⟨h1, h2, h3, h4⟩ := this
    subst h1
    exact ⟨rfl, h2, by simpa using h3, h4⟩

theorem waitPid_bound (τ : Rat) (ht : timeout = some τ) (h0 : 0 ≤ τ) :
    RUN.2.now < now + τ + Spec.cap := by
  by_cases hp : pid = 0
  · rw [waitPid_zero env pid timeout fuel now nWait hp]; simp; linarith [cap_pos]
  · rw [waitPid_pos env pid timeout fuel now nWait (by omega)]
    have := loop_bound hg env pid timeout (now + timeout.getD 0) fuel ⟨now, c.i0, nWait, []⟩
      (by simp [ht]) (by simp [ht]; linarith [cap_pos]) (by simp [hg.i0_eq]; exact i0_le_cap)
    simpa [ht] using this

theorem waitPid_intervals : ∀ n x, RUN.2.sleeps[n]? = some x → x = iv n := by
  by_cases hp : pid = 0
  · rw [waitPid_zero env pid timeout fuel now nWait hp]; simp
  · rw [waitPid_pos env pid timeout fuel now nWait (by omega)]
    exact loop_intervals hg env pid timeout _ fuel _ (by simp [hg.i0_eq, iv_zero]) (by simp)

theorem waitPid_zeroTimeout (τ : Rat) (ht : timeout = some τ) (h0 : τ ≤ 0) :
    RUN.2.sleeps = [] ∧ RUN.2.now = now := by
  by_cases hp : pid = 0
  · rw [waitPid_zero env pid timeout fuel now nWait hp]; simp
  · rw [waitPid_pos env pid timeout fuel now nWait (by omega)]
    have := loop_zero hg env pid timeout (now + timeout.getD 0) fuel ⟨now, c.i0, nWait, []⟩ τ ht
      (by simp [ht]; linarith)
    simpa using this

theorem waitPid_mono : now ≤ RUN.2.now := by
  by_cases hp : pid = 0
  · rw [waitPid_zero env pid timeout fuel now nWait hp]
  · rw [waitPid_pos env pid timeout fuel now nWait (by omega)]
    have := loop_mono hg env pid timeout (now + timeout.getD 0) fuel ⟨now, c.i0, nWait, []⟩
      (by simp [hg.i0_eq]; exact i0_pos)
    simpa using this

theorem waitPid_terminates (τ : Rat) (ht : timeout = some τ) (hf : 1 ≤ fuel)
    (hb : τ ≤ ((fuel : Rat) - 1) * Spec.i0) : RUN.1 ≠ .outOfFuel := by
  by_cases hp : pid = 0
  · rw [waitPid_zero env pid timeout fuel now nWait hp]; simp
  · rw [waitPid_pos env pid timeout fuel now nWait (by omega)]
    exact loop_terminates hg env pid timeout _ fuel _ τ ht (by simp [hg.i0_eq]) hf
      (by simp [ht]; linarith)

theorem waitPid_noHang (τ : Rat) (ht : timeout = some τ) : RUN.1 ≠ .hang := by
  by_cases hp : pid = 0
  · rw [waitPid_zero env pid timeout fuel now nWait hp]; simp
  · rw [waitPid_pos env pid timeout fuel now nWait (by omega)]
    have := loop_rule hg env pid timeout (now + timeout.getD 0) (fun _ _ => True)
      (fun o _ => o ≠ .hang)
      (by intros; trivial) (by intro n s τ _ _ _ _; simp) (by intros; trivial)
      (by intro n s st _ _ _ _ _ _; exact decode_ne_hang st)
      (by intro n s st e _ _ hn _; rw [hn] at ht; cases ht)
      (by intro n s st _ _ hn _; rw [hn] at ht; cases ht)
      (by intro n s _ _ _; simp) (by intro s _; simp)
      fuel ⟨now, c.i0, nWait, []⟩ trivial
    exact this

/-- the shape of every outcome: the decoded status of a child, None for a non-child,
    TimeoutExpired, or no return at all -/
theorem waitPid_shape :
    RUN.1 = .outOfFuel ∨ RUN.1 = .hang ∨ (∃ sec p, RUN.1 = .timeout sec p) ∨
    (pid = 0 ∧ RUN.1 = .valueError) ∨
    (∃ st, env.kind = .child st ∧ RUN.1 = decode st) ∨
    ((∀ st, env.kind ≠ .child st) ∧ RUN.1 = .none) := by
  by_cases hp : pid = 0
  · rw [waitPid_zero env pid timeout fuel now nWait hp]; simp [hp]
  · rw [waitPid_pos env pid timeout fuel now nWait (by omega)]
    have := loop_rule hg env pid timeout (now + timeout.getD 0) (fun _ _ => True)
      (fun o _ => o = .outOfFuel ∨ o = .hang ∨ (∃ sec p, o = .timeout sec p) ∨
        (pid = 0 ∧ o = .valueError) ∨
        (∃ st, env.kind = .child st ∧ o = decode st) ∨ ((∀ st, env.kind ≠ .child st) ∧ o = .none))
      (by intros; trivial)
      (by intro n s τ _ _ _ _; exact Or.inr (Or.inr (Or.inl ⟨τ, pid, rfl⟩)))
      (by intros; trivial)
      (by intro n s st _ hk _ _ _ _; exact Or.inr (Or.inr (Or.inr (Or.inr (Or.inl ⟨st, hk, rfl⟩)))))
      (by intro n s st e _ hk _ _; exact Or.inr (Or.inr (Or.inr (Or.inr (Or.inl ⟨st, hk, rfl⟩)))))
      (by intro n s st _ _ _ _; exact Or.inr (Or.inl rfl))
      (by intro n s _ hk _; exact Or.inr (Or.inr (Or.inr (Or.inr (Or.inr ⟨hk, rfl⟩)))))
      (by intro s _; exact Or.inl rfl)
      fuel ⟨now, c.i0, nWait, []⟩ trivial
    exact this

omit hg in
/-- a PID that never existed: None at once, no sleep -/
theorem waitPid_neverExisted (hk : env.kind = .neverExisted) (hp : 0 < pid)
    (he : env.eintr nWait = false) (hf : 1 ≤ fuel) :
    RUN.1 = .none ∧ RUN.2.now = now ∧ RUN.2.sleeps = [] := by
  rw [waitPid_pos env pid timeout fuel now nWait hp]
  obtain ⟨n, rfl⟩ : ∃ n, fuel = n + 1 := ⟨fuel - 1, by omega⟩
  simp [waitLoop, he, hk, pollNonChild, Env.pidExists]

end

/-! ### `Process.wait` -/

section
variable {c : Cfg} (hg : c.Good) (env : Env) (timeout : Option Rat) (fuel : Nat) (now : Rat) (p : PObj)
include hg

theorem procWait_negative (h : negative timeout = true) :
    procWait c env timeout fuel now p = ⟨.valueError, now, [], p⟩ := by
  simp [procWait, hg.validate, h]

omit hg in
theorem procWait_cached (v : Option Int) (hc : p.exitcode = some v) (h : negative timeout = false) :
    procWait c env timeout fuel now p = ⟨Outcome.ofValue v, now, [], p⟩ := by
  simp [procWait, h, hc]

omit hg in
theorem procWait_fresh (hc : p.exitcode = none) (h : negative timeout = false) :
    procWait c env timeout fuel now p =
      ⟨(waitPid c env p.pid timeout fuel now p.nWait).1,
       (waitPid c env p.pid timeout fuel now p.nWait).2.now,
       (waitPid c env p.pid timeout fuel now p.nWait).2.sleeps,
       { p with exitcode := (waitPid c env p.pid timeout fuel now p.nWait).1.value?,
                nWait := (waitPid c env p.pid timeout fuel now p.nWait).2.nWait }⟩ := by
  simp [procWait, h, hc]

omit hg in
theorem ofValue_value? (o : Outcome) (v : Option Int) (h : o.value? = some v) : Outcome.ofValue v = o := by
  cases o <;> simp [Outcome.value?] at h <;> subst h <;> rfl

end

end Psutil.C15
