/-
  Proofs/C17R3.lean — round 3 lemmas: sprintf bound, disk_partitions over LISTS of mounts lines (entries, comments, blank
  lines interleaved), the rows of net_if_addrs against the kernel's hardware text.
-/
import PsutilModel.Proofs.C17Mnt
import PsutilModel.Proofs.C17Mac
import PsutilModel.Proofs.C17Parts
import PsutilModel.Spec.C17R3
namespace Psutil.C17
open Spec

/-! ### §21 -/

/-- the arguments are no longer than their bounds, one for one -/
def ArgsLe : List (List Char) → List Nat → Prop
  | [], [] => True
  | a :: as, b :: bs => a.length ≤ b ∧ ArgsLe as bs
  | _, _ => False

theorem render_le (ps : List Piece) : ∀ (as : List (List Char)) (bs : List Nat),
    ArgsLe as bs → (renderPieces ps as).length ≤ boundPieces ps bs := by
  induction ps with
  | nil => intro as bs _; simp [renderPieces, boundPieces]
  | cons p ps ih =>
    intro as bs h
    cases p with
    | lit b =>
      simp only [renderPieces, boundPieces, List.length_append]
      have := ih as bs h
      omega
    | str =>
      match as, bs, h with
      | [], [], _ => simpa [renderPieces, boundPieces] using ih [] [] trivial
      | a :: as, b :: bs, h =>
        simp only [renderPieces, boundPieces, List.length_append]
        have := ih as bs h.2
        have h1 := h.1
        omega

/-! ### §23 mounts lines -/

theorem filterMap_zipIdx_irrel {α β} (l : List α) (f : α → Nat → Option β) (g : α → Option β)
    (h : ∀ x ∈ l, ∀ i, f x i = g x) : ∀ n, (l.zipIdx n).filterMap (fun p => f p.1 p.2) = l.filterMap g := by
  induction l with
  | nil => intro n; rfl
  | cons a r ih =>
    intro n
    simp only [List.zipIdx_cons, List.filterMap_cons, h a (by simp)]
    rw [ih (fun x hx => h x (by simp [hx]))]

theorem dropWhile_all {α} (p : α → Bool) (l : List α) (h : ∀ c ∈ l, p c = true) : l.dropWhile p = [] := by
  induction l with
  | nil => rfl
  | cons a t ih => simp [List.dropWhile_cons, h a (by simp), ih (fun c hc => h c (by simp [hc]))]

theorem filterMap_congr' {α β} (f g : α → Option β) (l : List α) (h : ∀ x ∈ l, f x = g x) : l.filterMap f = l.filterMap g := by
  induction l with
  | nil => rfl
  | cons a t ih => simp only [List.filterMap_cons, h a (by simp), ih (fun x hx => h x (by simp [hx]))]

theorem skipBlanks_all (ws : Bytes) (h : ∀ c ∈ ws, isBlank c = true) : skipBlanks ws = [] := by
  unfold skipBlanks
  exact dropWhile_all _ _ h

theorem skipBlanks_indent (ind r : Bytes) (h : ∀ c ∈ ind, isBlank c = true) : skipBlanks (ind ++ 35 :: r) = 35 :: r := by
  induction ind with
  | nil => simp [skipBlanks, isBlank]
  | cons a t ih =>
    have ha := h a (by simp)
    have := ih (fun c hc => h c (by simp [hc]))
    simp only [skipBlanks, List.cons_append, List.dropWhile_cons, ha, if_true] at this ⊢
    exact this

/-- chopping trailing blanks off a comment line leaves its indentation and the `#` -/
theorem chop_comment (ind t : Bytes) :
    ∃ t', ((ind ++ 35 :: t).reverse.dropWhile isBlank).reverse = ind ++ 35 :: t' := by
  have e : (ind ++ 35 :: t).reverse = t.reverse ++ (35 :: ind.reverse) := by simp
  rw [e, List.dropWhile_append]
  split
  · refine ⟨[], ?_⟩
    have : isBlank 35 = false := by decide
    simp [this]
  · refine ⟨(t.reverse.dropWhile isBlank).reverse, ?_⟩
    simp

theorem mntLine_comment (B : Nat) (ind t : Bytes) (hi : ∀ c ∈ ind, isBlank c = true) (hB : (ind ++ 35 :: t).length < B)
    (term : Bool) : mntLine B (ind ++ 35 :: t) term = none := by
  have hw := fgetsLine_whole B (ind ++ 35 :: t) term hB
  obtain ⟨w, hfl⟩ : ∃ w, fgetsLine B (ind ++ 35 :: t) term = (ind ++ 35 :: t, w) :=
    ⟨(fgetsLine B (ind ++ 35 :: t) term).2, Prod.ext hw rfl⟩
  unfold mntLine
  simp only [hfl]
  cases w with
  | false => simp only [Bool.false_eq_true, if_false, skipBlanks_indent ind t hi]
  | true =>
    obtain ⟨t', ht'⟩ := chop_comment ind t
    simp only [if_true, ht', skipBlanks_indent ind t' hi]

theorem mntLine_blank (B : Nat) (ws : Bytes) (hi : ∀ c ∈ ws, isBlank c = true) (hB : ws.length < B) (term : Bool) :
    mntLine B ws term = none := by
  have hw := fgetsLine_whole B ws term hB
  obtain ⟨w, hfl⟩ : ∃ w, fgetsLine B ws term = (ws, w) := ⟨(fgetsLine B ws term).2, Prod.ext hw rfl⟩
  unfold mntLine
  simp only [hfl]
  cases w with
  | false => simp only [Bool.false_eq_true, if_false, skipBlanks_all ws hi]
  | true =>
    have h1 : ws.reverse.dropWhile isBlank = [] := dropWhile_all _ _ (fun c hc => hi c (List.mem_reverse.1 hc))
    simp only [if_true, h1, List.reverse_nil]
    rfl

/-- one line of a mounts file under a line buffer of at least 4096 bytes -/
theorem mntLine_mline (B : Nat) (hB : 4096 ≤ B) (l : MLine) (hl : MLineOk l) (term : Bool) :
    mntLine B (renderMLine l) term = entryOf l := by
  cases l with
  | entry m =>
    have h : MntOk m := hl
    exact mntLine_renderMnt B m h.dev h.dir h.typ h.opts h.nohash (by have := h.fits; omega) term
  | comment ind t =>
    obtain ⟨h1, h2⟩ : (∀ c ∈ ind, isBlank c = true) ∧ ind.length + 1 + t.length ≤ 4095 := hl
    exact mntLine_comment B ind t h1 (by simp only [List.length_append, List.length_cons]; omega) term
  | blank ws =>
    obtain ⟨h1, h2⟩ : (∀ c ∈ ws, isBlank c = true) ∧ ws.length ≤ 4095 := hl
    exact mntLine_blank B ws h1 (by omega) term

theorem filterMap_entries (ls : List MLine) :
    ls.filterMap entryOf = entriesOf ls := by
  induction ls with
  | nil => rfl
  | cons l r ih => cases l <;> simp [List.filterMap_cons, entriesOf, entryOf, ih]

/-- **the C loop over a whole mounts file** -/
theorem diskPartitionsC_lines (c : DCfg) (hg : c.Good) (ls : List MLine) (h : ∀ l ∈ ls, MLineOk l) (lastTerm : Bool) :
    diskPartitionsC c (ls.map renderMLine) lastTerm = (entriesOf ls).map (fun m => [m.dev, m.dir, m.typ, m.opts]) := by
  unfold diskPartitionsC
  have key := filterMap_zipIdx_irrel (ls.map renderMLine)
    (fun x i => mntLine c.effBuf x (lastTerm || decide (i + 1 < (ls.map renderMLine).length)))
    (fun x => mntLine c.effBuf x true)
    (by
      intro x hx i
      obtain ⟨l, hl, rfl⟩ := List.mem_map.1 hx
      rw [mntLine_mline c.effBuf hg.buf l (h l hl), mntLine_mline c.effBuf hg.buf l (h l hl)]) 0
  rw [key, List.filterMap_map]
  have hf : ls.filterMap ((fun x => mntLine c.effBuf x true) ∘ renderMLine)
      = ls.filterMap entryOf := by
    apply filterMap_congr'
    intro l hl
    exact mntLine_mline c.effBuf hg.buf l (h l hl) true
  rw [hf, filterMap_entries]
  apply List.map_congr_left
  intro m _
  simp [mntTuple, hg.order]

theorem mntsOfTuples_map (ms : List Mnt) :
    mntsOfTuples (ms.map (fun m => [m.dev, m.dir, m.typ, m.opts])) = some ms := by
  induction ms with
  | nil => rfl
  | cons m r ih => simp [mntsOfTuples, mntOfTuple, ih]

theorem renderFsLine_noNl (e : FsEntry) (h : e.WF) : 10 ∉ renderFsLine e := by
  intro hm
  simp only [renderFsLine, List.mem_append, List.mem_cons, List.not_mem_nil, or_false] at hm
  rcases hm with (hm | hm) | hm
  · cases e.nodev <;> simp [nodevWord] at hm
  · omega
  · have := h.nows 10 hm
    simp [isWs] at this

/-! ### §11 rows against the kernel's hardware text -/

theorem sockText_congr (hw1 hw2 : Bytes → Option Bytes) (fam : Nat) (o : Option Sock)
    (h : ∀ s, o = some s → fam = 17 → hw1 (hwAddr s) = hw2 (hwAddr s)) : sockText hw1 fam o = sockText hw2 fam o := by
  cases o with
  | none => rfl
  | some s =>
    unfold sockText
    by_cases h1 : fam = 2 ∨ fam = 10
    · simp [h1]
    · by_cases h2 : fam = 17
      · simp only [h2, if_true, h s rfl h2]
      · simp [h1, h2]

theorem ifRow_congr (hw1 hw2 : Bytes → Option Bytes) (e : IfEntry)
    (h : ∀ a, e.addr = some a → a.fam = 17 → ∀ o ∈ [e.addr, e.netmask, e.ifu], ∀ s, o = some s → hw1 (hwAddr s) = hw2 (hwAddr s)) :
    Spec.ifRow hw1 e = Spec.ifRow hw2 e := by
  unfold Spec.ifRow
  cases ha : e.addr with
  | none => rfl
  | some a =>
    have k : ∀ o ∈ [e.addr, e.netmask, e.ifu], sockText hw1 a.fam o = sockText hw2 a.fam o := by
      intro o ho
      exact sockText_congr hw1 hw2 a.fam o (fun s hs hf => h a ha hf o ho s hs)
    have k1 := k e.addr (by simp)
    have k2 := k e.netmask (by simp)
    have k3 := k e.ifu (by simp)
    rw [ha] at k1
    simp only [k1, k2, k3]

/-- a link-level sockaddr honouring libc's contract carries at most 255 address bytes, each a byte -/
def StoreBytes (s : Sock) : Prop := ∀ b ∈ s.store, b < 256

theorem hwAddr_len (s : Sock) : (hwAddr s).length ≤ s.store.getD 11 0 := by
  unfold hwAddr
  simp only [List.length_take]
  omega

theorem macFormat_hwText (c : MCfg) (hg : c.Good) (d : Bytes) (hl : d.length ≤ 255) (hb : ∀ b ∈ d, b < 256) :
    macFormat c d = hwText d := by
  unfold hwText
  by_cases hd : d = []
  · subst hd; simp [macFormat]
  · simp only [hd, if_false]
    exact macFormat_text c hg d hd (by omega) hb

/-- every byte of every sockaddr object of the entry is a byte -/
def EntryBytes (e : IfEntry) : Prop := ∀ o ∈ [e.addr, e.netmask, e.ifu], ∀ s, o = some s → ∀ b ∈ s.store, b < 256

theorem hwAddr_mem (s : Sock) (b : Nat) (h : b ∈ hwAddr s) : b ∈ s.store :=
  List.mem_of_mem_drop (List.mem_of_mem_take h)

/-- the rows of the model against the specification written with the KERNEL's hardware text (no model function inside) -/
theorem ifRows_hwText (c : NCfg) (hg : c.Good) (mac : MCfg) (hm : mac.Good) (es : List IfEntry)
    (h : ∀ e ∈ es, EntryWF e) (hb : ∀ e ∈ es, EntryBytes e) : ifRows c mac es = Spec.ifRows hwText es := by
  unfold ifRows Spec.ifRows
  apply filterMap_congr'
  intro e he
  rw [ifRow_good c hg mac hm.buf e (h e he)]
  apply ifRow_congr
  intro a ha hf o ho s hs
  have hw : SockWF a.fam s := by
    obtain ⟨wa, wn, wu⟩ := (h e he).addr a ha
    simp only [List.mem_cons, List.not_mem_nil, or_false] at ho
    rcases ho with rfl | rfl | rfl
    · rw [ha] at hs; cases hs; exact wa
    · exact wn s hs
    · exact wu s hs
  have hl := (hw.link hf).2
  exact macFormat_hwText mac hm (hwAddr s) (by have := hwAddr_len s; omega)
    (fun b hbm => hb e he o ho s hs b (hwAddr_mem s b hbm))

end Psutil.C17
