/-
  Proofs/C03Fuel.lean — the fuel the model gives to the two `while` loops is never exhausted.

  children(recursive=True): every entry of the ppid map is pushed at most once (when its parent is marked seen),
  so `stack.length + #(entries whose parent is not yet seen)` bounds the number of pops left; it is
  `len(map) + 1` at the start. Any two fuel values above that bound give the SAME computation (same result, same
  state), for every map — cycles, duplicates, self-parents included: the bound is semantically invisible, the
  fuelled walk is the Python loop.
-/
import PsutilModel.Proofs.C03Walk
namespace Psutil.C03

variable (cfg : Cfg)

/-- entries of the map whose parent has not been marked seen yet -/
def unseenEntries (pm : List (Nat × Nat)) (seen : List Nat) : Nat :=
  (pm.filter (fun x => !seen.contains x.2)).length

theorem unseenEntries_step (pm : List (Nat × Nat)) (seen : List Nat) (pid : Nat) (h : seen.contains pid = false) :
    unseenEntries pm (pid :: seen) + (pm.filter (fun x => x.2 == pid)).length = unseenEntries pm seen := by
  unfold unseenEntries
  induction pm with
  | nil => rfl
  | cons x rest ih =>
    by_cases hx : x.2 = pid
    · have h1 : (x.2 == pid) = true := by simp [hx]
      have h2 : (pid :: seen).contains x.2 = true := by simp [hx]
      have h3 : seen.contains x.2 = false := by rw [hx]; exact h
      simp only [List.filter_cons, h1, h2, h3, Bool.not_true, Bool.not_false, Bool.false_eq_true, ↓reduceIte,
        List.length_cons]
      omega
    · have h1 : (x.2 == pid) = false := by simp [hx]
      have h2 : (pid :: seen).contains x.2 = seen.contains x.2 := by
        simp only [List.contains_cons, beq_iff_eq, hx, false_or]
        simp [hx]
      simp only [List.filter_cons, h1, h2, Bool.false_eq_true, ↓reduceIte]
      cases hs : seen.contains x.2 <;> simp only [Bool.not_true, Bool.not_false, Bool.false_eq_true, ↓reduceIte,
        List.length_cons] <;> omega

/-- the inner `for` accepts a sub-list of the children it is given -/
theorem childrenRecInner_length (o : Obj) : ∀ (kids : List Nat) (c : Ctx) (s s' : St) (acc : List Nat),
    Fe.childrenRecInner cfg o kids c s = (.ok acc, s') → acc.length ≤ kids.length := by
  intro kids
  induction kids with
  | nil =>
    intro c s s' acc h
    unfold Fe.childrenRecInner at h
    simp only [pure_eq, M.pure, Prod.mk.injEq, Except.ok.injEq] at h
    rw [← h.1]; exact Nat.le_refl _
  | cons q rest ih =>
    intro c s s' acc h
    unfold Fe.childrenRecInner at h
    simp only [bind_eq, M.bind] at h
    split at h
    · rename_i r s1 hb
      split at h
      · rename_i more s2 hr
        have := ih c s1 s2 more hr
        split at h <;> simp only [pure_eq, M.pure, Prod.mk.injEq, Except.ok.injEq] at h <;> rw [← h.1] <;>
          simp only [List.length_cons] <;> omega
      · cases h
    · cases h

/-- **fuel sufficiency of the `while stack` loop**: above the bound, the fuel value is immaterial -/
theorem childrenRecWalk_fuel (o : Obj) (pm : List (Nat × Nat)) : ∀ (n m : Nat) (stack seen ret : List Nat) (c : Ctx) (s : St),
    stack.length + unseenEntries pm seen ≤ n → stack.length + unseenEntries pm seen ≤ m →
    Fe.childrenRecWalk cfg o n pm stack seen ret c s = Fe.childrenRecWalk cfg o m pm stack seen ret c s := by
  intro n
  induction n with
  | zero =>
    intro m stack seen ret c s hn hm
    have : stack = [] := by
      cases stack with
      | nil => rfl
      | cons a b => simp at hn
    subst this
    cases m <;> simp [Fe.childrenRecWalk]
  | succ n ih =>
    intro m stack seen ret c s hn hm
    cases stack with
    | nil => cases m <;> simp [Fe.childrenRecWalk]
    | cons pid st =>
      cases m with
      | zero => simp at hm
      | succ m =>
        simp only [List.length_cons] at hn hm
        unfold Fe.childrenRecWalk
        by_cases hseen : seen.contains pid = true
        · simp only [hseen, ↓reduceIte]
          exact ih m st seen ret c s (by omega) (by omega)
        · have hs : seen.contains pid = false := by simpa using hseen
          simp only [hs, Bool.false_eq_true, ↓reduceIte, bind_eq, M.bind]
          rcases hr : Fe.childrenRecInner cfg o ((pm.filter (fun x => x.2 == pid)).map (·.1)) c s with ⟨res, s1⟩
          cases res with
          | error e => simp only [hr]
          | ok acc =>
            simp only [hr]
            have hlen := childrenRecInner_length cfg o _ c s s1 acc hr
            simp only [List.length_map] at hlen
            have hstep := unseenEntries_step pm seen pid hs
            refine ih m _ _ _ c s1 ?_ ?_ <;> simp only [List.length_append, List.length_reverse] <;> omega

/-- ppid_map() has at most one entry per listed name -/
theorem ppidMapLoop_length : ∀ (pids : List Nat) (c : Ctx) (s s' : St) (pm : List (Nat × Nat)),
    Plat.ppidMapLoop cfg pids c s = (.ok pm, s') → pm.length ≤ pids.length := by
  intro pids
  induction pids with
  | nil =>
    intro c s s' pm h
    unfold Plat.ppidMapLoop at h
    simp only [pure_eq, M.pure, Prod.mk.injEq, Except.ok.injEq] at h
    rw [← h.1]; exact Nat.le_refl _
  | cons q rest ih =>
    intro c s s' pm h
    unfold Plat.ppidMapLoop at h
    simp only [bind_eq, M.bind] at h
    split at h
    · rename_i r s1 hb
      split at h
      · have := ih c s1 s' pm h
        simp only [List.length_cons]; omega
      · simp only [bind_eq, M.bind] at h
        split at h
        · rename_i more s2 hr
          have := ih c s1 s2 more hr
          simp only [pure_eq, M.pure, Prod.mk.injEq, Except.ok.injEq] at h
          rw [← h.1]; simp only [List.length_cons]; omega
        · cases h
      · cases h
    · cases h

/-- the /proc listing shows at most the processes of the world -/
theorem listdir_root_length (c : Ctx) (s s' : St) (pids : List Nat)
    (h : accListdir .root c s = (.ok pids, s')) : pids.length ≤ c.w.procs.length := by
  unfold accListdir access at h
  simp only [OsAcc.owner, Path.owner, Option.isSome_none, Bool.false_eq_true, ↓reduceIte, tblListdir] at h
  simp only [Prod.mk.injEq, Except.ok.injEq] at h
  rw [← h.1]
  exact List.length_filterMap_le _ _

theorem ppidMap_length (c : Ctx) (s s' : St) (pm : List (Nat × Nat))
    (h : Plat.ppidMap cfg c s = (.ok pm, s')) : pm.length ≤ c.w.procs.length := by
  unfold Plat.ppidMap at h
  simp only [bind_eq, M.bind] at h
  split at h
  · rename_i pids s1 hl
    exact Nat.le_trans (ppidMapLoop_length cfg pids c s1 s' pm h) (listdir_root_length c s s1 pids hl)
  · cases h

/-- children(recursive=True): any fuel ≥ number of listed PIDs + 1 gives the computation of the default fuel -/
theorem childrenRecFuel_sufficient (o : Obj) (fuel : Nat) (c : Ctx) (s : St) (hf : c.w.procs.length + 1 ≤ fuel) :
    Fe.childrenRecFuel cfg o (some fuel) c s = Fe.childrenRecFuel cfg o none c s := by
  unfold Fe.childrenRecFuel
  simp only [bind_eq, M.bind]
  rcases Fe.raiseIfPidReused cfg o c s with ⟨r0, s0⟩
  cases r0 with
  | error e => rfl
  | ok u =>
    simp only
    rcases hp : Plat.ppidMap cfg c s0 with ⟨r1, s1⟩
    cases r1 with
    | error e => rfl
    | ok pm =>
      simp only [Option.getD_some, Option.getD_none]
      have hlen := ppidMap_length cfg c s0 s1 pm hp
      have hflt : ∀ (l : List (Nat × Nat)), l.length ≤ pm.length →
          Fe.childrenRecWalk cfg o fuel l [o.pid] [] [] c s1 = Fe.childrenRecWalk cfg o (l.length + 1) l [o.pid] [] [] c s1 := by
        intro l hl
        have hu : unseenEntries l [] ≤ l.length := List.length_filter_le _ _
        exact childrenRecWalk_fuel cfg o l _ _ _ _ _ c s1 (by simp only [List.length_cons, List.length_nil]; omega)
          (by simp only [List.length_cons, List.length_nil]; omega)
      have hl : (if cfg.childrenPopSelf = true then List.filter (fun x => x.fst != o.pid) pm else pm).length ≤ pm.length := by
        split
        · exact List.length_filter_le _ _
        · exact Nat.le_refl _
      rw [hflt _ hl]

/-! ## parents(): each iteration of the `while` loop adds a new LISTED pid to `seen`

    `proc = proc.parent()` returns an object only after a successful read of /proc/<ppid>/stat, so the pid it
    carries is listed in the world; `seen` never holds a pid twice; hence at most `#listed` iterations. -/

/-- the world lists a process `q` -/
def Listed (c : Ctx) (q : Nat) : Prop := (c.w.info q).isSome = true

theorem wrapSteps_not_ok {α : Type} (p : Nat) (e : PyExc) : ∀ (steps : List String) (c : Ctx) (s s' : St) (v : α),
    wrapSteps cfg p e steps c s ≠ (.ok v, s') := by
  intro steps
  induction steps with
  | nil => intro c s s' v h; simp [wrapSteps, throw] at h
  | cons st rest ih =>
    intro c s s' v h
    unfold wrapSteps at h
    split at h
    · simp [throw] at h
    · split at h
      · simp [throw] at h
      · split at h
        · simp [throw] at h
        · split at h
          · simp only [bind_eq, M.bind] at h
            split at h
            · exact ih _ _ _ _ h
            · cases h
          · split at h
            · simp only [bind_eq, M.bind] at h
              split at h
              · split at h
                · simp [throw] at h
                · exact ih _ _ _ _ h
              · cases h
            · simp [throw] at h

theorem wrap_ok_inv {α : Type} (p : Nat) (body : M α) (c : Ctx) (s s' : St) (v : α)
    (h : wrapExceptions cfg p body c s = (.ok v, s')) : body c s = (.ok v, s') := by
  unfold wrapExceptions tryCatch at h
  split at h
  · rename_i a s1 hb; rw [hb]; exact h
  · rename_i e s1 hb
    split at h
    · rename_i m' hh
      simp only at hh
      split at hh
      · cases hh
      · injection hh with hh; subst hh
        exact absurd h (wrapSteps_not_ok cfg p e _ c s1 s' v)
    · cases h

theorem W_ok_inv {α : Type} (name : String) (p : Nat) (body : M α) (c : Ctx) (s s' : St) (v : α)
    (h : W cfg name p body c s = (.ok v, s')) : body c s = (.ok v, s') := by
  unfold W at h
  split at h
  · exact h
  · split at h
    · exact wrap_ok_inv cfg p body c s s' v h
    · exact h

theorem memoIf_inactive {α : Type} (b : Bool) (get : Cache → Option α) (set : α → Cache → Cache) (p : Nat)
    (body : M α) (c : Ctx) (s : St) (hc : s.cache.active = false) : memoIf b get set p body c s = body c s := by
  unfold memoIf
  cases b
  · rfl
  · unfold memo
    simp only [bind_eq, M.bind, getCache, hc, Bool.false_and, Bool.false_eq_true, ↓reduceIte]

theorem pstOf_listed {w : World} {st : WS} {q : Nat} (h : pstOf w st q ≠ .gone) : (w.info q).isSome = true := by
  unfold pstOf World.state at h
  cases hi : w.info q with
  | none => simp [hi] at h
  | some i => rfl

theorem accRead_stat_listed (q : Nat) (c : Ctx) (s s' : St) (x : Content)
    (h : accRead (.file q .stat) c s = (.ok x, s')) : Listed c q := by
  unfold accRead access at h
  split at h
  · cases h
  · split at h
    · rename_i r ht
      obtain ⟨_, _, _, hng⟩ := tblRead_stat_ok ht
      exact pstOf_listed hng
    · cases h

/-- a successful create_time() outside oneshot() has read /proc/<q>/stat: `q` is listed -/
theorem createTime_ok_listed (q : Nat) (c : Ctx) (s s' : St) (v : Nat)
    (h : Plat.createTime cfg q c s = (.ok v, s')) (hc : s.cache.active = false) : Listed c q := by
  unfold Plat.createTime at h
  have h1 := W_ok_inv cfg _ q _ c s s' v h
  simp only [bind_eq, M.bind] at h1
  split at h1
  · rename_i rec s1 hp
    unfold Plat.parseStatFile at hp
    have h2 := W_ok_inv cfg _ q _ c s s1 rec hp
    rw [memoIf_inactive _ _ _ _ _ c s hc] at h2
    simp only [bind_eq, M.bind, readFile] at h2
    split at h2
    · rename_i content s2 hrf
      split at hrf
      · rename_i u s3 ho
        exact accRead_stat_listed q c s3 s2 content hrf
      · cases hrf
    · cases h2
  · cases h1

theorem fresh_createTime_listed (q : Nat) (c : Ctx) (s s' : St) (v : Nat)
    (h : fresh (Plat.createTime cfg q) c s = (.ok v, s')) : Listed c q := by
  unfold fresh at h
  rcases hr : Plat.createTime cfg q c { s with cache := {} } with ⟨res, s1⟩
  rw [hr] at h
  cases res with
  | error e => cases h
  | ok v' => exact createTime_ok_listed cfg q c _ s1 v' hr rfl

theorem mkProcess_ok (q : Nat) (c : Ctx) (s s' : St) (par : Obj)
    (h : Fe.mkProcess cfg q c s = (.ok par, s')) : par.pid = q ∧ (par.ct ≠ none → Listed c q) := by
  unfold Fe.mkProcess tryCatch at h
  simp only [bind_eq, M.bind] at h
  rcases hr : fresh (Plat.createTime cfg q) c s with ⟨res, s1⟩
  rw [hr] at h
  cases res with
  | ok ct =>
    simp only [pure_eq, M.pure, Prod.mk.injEq, Except.ok.injEq] at h
    rw [← h.1]
    exact ⟨rfl, fun _ => fresh_createTime_listed cfg q c s s1 ct hr⟩
  | error e =>
    simp only at h
    split at h
    · rename_i m' hm
      split at hm
      · injection hm with hm; subst hm
        simp only [pure_eq, M.pure, Prod.mk.injEq, Except.ok.injEq] at h
        rw [← h.1]; exact ⟨rfl, fun hne => absurd rfl hne⟩
      · injection hm with hm; subst hm; simp [throw] at h
      · cases hm
    · cases h

theorem fe_createTime_ok (o : Obj) (c : Ctx) (s s' : St) (v : Nat)
    (h : Fe.createTime cfg o c s = (.ok v, s')) (hct : o.ct = none) : Listed c o.pid := by
  unfold Fe.createTime at h
  rw [hct] at h
  exact fresh_createTime_listed cfg o.pid c s s' v h

/-- the object parent() returns carries a listed pid -/
theorem parentCore_some_listed (lowest : Nat) (o : Obj) (cached : Option Nat) (c : Ctx) (s s' : St) (par : Obj) (pt : Nat)
    (h : Fe.parentCore cfg lowest o cached c s = (.ok (some (par, pt)), s')) : Listed c par.pid := by
  unfold Fe.parentCore at h
  split at h
  · -- the lowest-PID stop answers None (or raises inside the identity probe): never an object
    simp only [bind_eq, M.bind] at h
    split at h
    · simp [pure_eq, M.pure] at h
    · cases h
  · simp only [bind_eq, M.bind] at h
    split at h
    · rename_i pp s1 _
      split at h
      · rename_i ctime s2 _
        unfold tryCatch at h
        simp only [bind_eq, M.bind] at h
        rcases hm : Fe.mkProcess cfg pp c s2 with ⟨rm, s3⟩
        rw [hm] at h
        cases rm with
        | error e =>
          simp only at h
          split at h
          · rename_i m' hh
            split at hh
            · injection hh with hh; subst hh; simp [pure_eq, M.pure] at h
            · cases hh
          · cases h
        | ok par' =>
          simp only at h
          obtain ⟨hpid, hlist⟩ := mkProcess_ok cfg pp c s2 s3 par' hm
          rcases hc : Fe.createTime cfg par' c s3 with ⟨rc, s4⟩
          rw [hc] at h
          cases rc with
          | error e =>
            simp only at h
            split at h
            · rename_i m' hh
              split at hh
              · injection hh with hh; subst hh; simp [pure_eq, M.pure] at h
              · cases hh
            · cases h
          | ok pt' =>
            simp only at h
            by_cases hle : pt' ≤ ctime
            · simp only [hle, ↓reduceIte, pure_eq, M.pure, Prod.mk.injEq, Except.ok.injEq, Option.some.injEq] at h
              have hp : par' = par := h.1.1
              subst hp
              rw [hpid]
              cases hct : par'.ct with
              | none => have := fe_createTime_ok cfg par' c s3 s4 pt' hc hct; rw [hpid] at this; exact this
              | some x => exact hlist (by rw [hct]; simp)
            · simp [hle, pure_eq, M.pure] at h
      · cases h
    · cases h

/-- listed processes not yet in `seen` -/
def unseenListed (c : Ctx) (seen : List Nat) : Nat := (c.w.procs.filter (fun i => !seen.contains i.pid)).length

theorem unseen_filter_step (l : List ProcInfo) (seen : List Nat) (q : Nat) (hs : seen.contains q = false) :
    (l.filter (fun i => !(q :: seen).contains i.pid)).length ≤ (l.filter (fun i => !seen.contains i.pid)).length ∧
    ((∃ i ∈ l, i.pid = q) →
      (l.filter (fun i => !(q :: seen).contains i.pid)).length < (l.filter (fun i => !seen.contains i.pid)).length) := by
  induction l with
  | nil => exact ⟨Nat.le_refl _, fun ⟨i, hi, _⟩ => by cases hi⟩
  | cons x rest ih =>
    by_cases hx : x.pid = q
    · have h2 : (q :: seen).contains x.pid = true := by simp [hx]
      have h3 : seen.contains x.pid = false := by rw [hx]; exact hs
      simp only [List.filter_cons, h2, h3, Bool.not_true, Bool.not_false, Bool.false_eq_true, ↓reduceIte, List.length_cons]
      exact ⟨by omega, fun _ => by omega⟩
    · have h2 : (q :: seen).contains x.pid = seen.contains x.pid := by
        simp only [List.contains_cons]
        have : (x.pid == q) = false := by simp [hx]
        simp [this]
      simp only [List.filter_cons, h2]
      refine ⟨?_, fun ⟨i, hi, hiq⟩ => ?_⟩
      · cases seen.contains x.pid <;> simp only [Bool.not_true, Bool.not_false, Bool.false_eq_true, ↓reduceIte,
          List.length_cons] <;> omega
      · have hin : ∃ i ∈ rest, i.pid = q := by
          rcases List.mem_cons.1 hi with h | h
          · subst h; exact absurd hiq hx
          · exact ⟨i, h, hiq⟩
        have := ih.2 hin
        cases seen.contains x.pid <;> simp only [Bool.not_true, Bool.not_false, Bool.false_eq_true, ↓reduceIte,
          List.length_cons] <;> omega

theorem unseenListed_step (c : Ctx) (seen : List Nat) (q : Nat) (hl : Listed c q) (hs : seen.contains q = false) :
    unseenListed c (q :: seen) < unseenListed c seen := by
  unfold unseenListed
  refine (unseen_filter_step c.w.procs seen q hs).2 ?_
  unfold Listed World.info at hl
  cases hf : c.w.procs.find? (fun i => i.pid == q) with
  | none => simp [hf] at hl
  | some i =>
    have := List.find?_some hf
    exact ⟨i, List.mem_of_find?_eq_some hf, by simpa using this⟩

/-- **fuel sufficiency of the parents() loop**: above the number of listed, unseen PIDs the fuel value is immaterial -/
theorem parentsLoop_fuel (catchL : List String) (lowest : Nat) : ∀ (n m : Nat) (proc : Obj) (ct : Nat) (seen : List Nat)
    (c : Ctx) (s : St), unseenListed c seen < n → unseenListed c seen < m →
    Fe.parentsLoop cfg catchL lowest n proc ct seen c s = Fe.parentsLoop cfg catchL lowest m proc ct seen c s := by
  intro n
  induction n with
  | zero => intro m proc ct seen c s hn; omega
  | succ n ih =>
    intro m proc ct seen c s hn hm
    cases m with
    | zero => omega
    | succ m =>
      unfold Fe.parentsLoop
      simp only [bind_eq, M.bind]
      rcases hr : tryCatch (do let x ← Fe.parentCore cfg lowest proc (some ct); pure (some x))
          (fun e => if catches catchL e then some (pure none) else none) c s with ⟨res, s1⟩
      simp only [bind_eq, M.bind] at hr
      cases res with
      | error e => rfl
      | ok r =>
        simp only
        match r, hr with
        | none, _ => rfl
        | some none, _ => rfl
        | some (some (par, pt)), hr =>
          simp only
          by_cases hseen : seen.contains par.pid = true
          · simp only [hseen, ↓reduceIte]
          · have hs : seen.contains par.pid = false := by simpa using hseen
            simp only [hs, Bool.false_eq_true, ↓reduceIte, bind_eq, M.bind]
            have hlisted : Listed c par.pid := by
              unfold tryCatch at hr
              simp only [M.bind] at hr
              rcases hp : Fe.parentCore cfg lowest proc (some ct) c s with ⟨rp, s2⟩
              rw [hp] at hr
              cases rp with
              | ok x =>
                simp only [pure_eq, M.pure, Prod.mk.injEq, Except.ok.injEq, Option.some.injEq] at hr
                rw [hr.1] at hp
                exact parentCore_some_listed cfg lowest proc (some ct) c s s2 par pt hp
              | error e =>
                simp only at hr
                split at hr
                · rename_i m' hh
                  split at hh
                  · injection hh with hh; subst hh; simp [pure_eq, M.pure] at hr
                  · cases hh
                · cases hr
            have hdec := unseenListed_step c seen par.pid hlisted hs
            rw [ih m par pt (par.pid :: seen) c s1 (by omega) (by omega)]

/-- parents(): any fuel ≥ number of listed PIDs + 1 gives the computation of the default fuel -/
theorem parentsFuel_sufficient (catchL : List String) (o : Obj) (fuel : Nat) (c : Ctx) (s : St)
    (hf : c.w.procs.length + 1 ≤ fuel) :
    Fe.parentsFuel cfg catchL o (some fuel) c s = Fe.parentsFuel cfg catchL o none c s := by
  unfold Fe.parentsFuel
  simp only [bind_eq, M.bind]
  rcases Fe.lowestPid c s with ⟨r0, s0⟩
  cases r0 with
  | error e => rfl
  | ok lowest =>
    simp only
    rcases Fe.parentCore cfg lowest o none c s0 with ⟨r1, s1⟩
    cases r1 with
    | error e => rfl
    | ok x =>
      simp only
      match x with
      | none => rfl
      | some (par, pt) =>
        simp only
        split
        · rfl
        · simp only [bind_eq, M.bind, Fe.askFuel, Option.getD_some, Option.getD_none]
          have hu : unseenListed c [par.pid, o.pid] ≤ c.w.procs.length := List.length_filter_le _ _
          rw [parentsLoop_fuel cfg catchL lowest fuel (c.w.procs.length + 1) par pt _ c s1 (by omega) (by omega)]

end Psutil.C03
