/-
  Proofs/C17Shape.lean — round 2: the source shape of the string decoding in users.c (Model/C17Py §16).
-/
import PsutilModel.Proofs.C17Py
import PsutilModel.Proofs.C17Users
namespace Psutil.C17
open Spec

/-- the ONE source shape the users() theorems are proved for -/
structure UShape.Canonical (s : UShape) : Prop where
  slots : s.slotExprs =
    [("py_username", [boundedExpr "ut_user"]), ("py_tty", [boundedExpr "ut_line"]),
     ("py_hostname", ["PyUnicode_DecodeFSDefault(\"localhost\")", boundedExpr "ut_host"])]
  uses : s.fieldUses =
    [boundedExpr "ut_user", boundedExpr "ut_line", "strcmp(ut->ut_host,\":0\")", "strcmp(ut->ut_host,\":0.0\")",
     boundedExpr "ut_host"]
  mentions : s.mentions = [("ut_user", 3), ("ut_line", 3), ("ut_host", 5)]
  locals : s.charLocals = []

/-- everything of `UCfg.Good` that is not the decode shape -/
structure UCfg.RestGood (c : UCfg) : Prop where
  filt : c.filterUserProcess = true
  lits : c.localLits = [display0, display00]
  name : c.localName = localhost
  order : c.tupleOrder = ["ut_user", "ut_line", "ut_host", "ut_tv.tv_sec", "ut_pid"]
  perm : c.pyPerm = [0, 1, 2, 3, 4]
  orNone : c.pyOrNone = [1]

theorem kind_canonical (s : UShape) (h : s.Canonical) :
    s.kind "py_username" "ut_user" = .bounded ∧ s.kind "py_tty" "ut_line" = .bounded
    ∧ s.kind "py_hostname" "ut_host" = .bounded := by
  unfold UShape.kind
  rw [h.slots]
  refine ⟨?_, ?_, ?_⟩ <;> decide

/-- a configuration whose decode flags are read off a canonical shape is good, whatever flags the
    base configuration carried -/
theorem withShape_good (base : UCfg) (hb : base.RestGood) (s : UShape) (h : s.Canonical) :
    (base.withShape s).Good := by
  obtain ⟨k1, k2, k3⟩ := kind_canonical s h
  refine ⟨?_, ?_, ?_, hb.filt, hb.lits, hb.name, hb.order, hb.perm, hb.orNone⟩ <;>
    simp [UCfg.withShape, k1, k2, k3]

end Psutil.C17
