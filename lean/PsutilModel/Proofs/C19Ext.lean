/- Proofs/C19Ext.lean — small helper lemmas for the clause-by-clause battery theorems and the
   hwmon/thermal-zone fallback equivalence of Props/C19.lean -/
import PsutilModel.Proofs.C19
import PsutilModel.Proofs.C19Battery
namespace Psutil.C19
open Spec

/-- a thermal zone that is reported: readable numeric `temp`, readable `type`, no trip points -/
def goodZone : Zone := { temp := .content (kernelInt 30000), typ := .content [120], trips := [] }

theorem goodZone_row : ∃ w, zoneRow goodZone = some w := by
  simp [zoneRow, goodZone, fileNum, FileState.readOpt, pyFloat_renderInt_strip]

theorem altInt_first (x : Int) (g : FileState) : altInt (.content (kernelInt x)) g = some (some x) := by
  simp [altInt, fileInt, FileState.readOpt, pyInt_kernelInt]

theorem altInt_second (f : FileState) (hf : f.readOpt = none) (g : FileState) : altInt f g = fileInt g := by
  simp [altInt, fileInt, hf]

theorem acOnline_eq (ss : List Supply) : acOnline ss = altInt (onlineOf ss bAC0) (onlineOf ss bAC) := by
  unfold acOnline onlineOf supplyNamed
  simp only []
  cases h0 : ss.find? (fun s => s.name == bAC0) <;> cases h1 : ss.find? (fun s => s.name == bAC) <;> simp

end Psutil.C19
