/-
  Proofs/C15R2.lean — lemmas for the second extension of C15:
    * `wait_procs` over Process/Popen objects is `wait_procs` over the embedded Process objects
      (`waitProcsM_embed`): every theorem about `waitProcs` transfers;
    * `set(procs)` keeps the first of several equal objects (`setOf_*`).
-/
import PsutilModel.Proofs.C15Ext
import PsutilModel.Model.C15R2
namespace Psutil.C15
open Spec

/-! ### embedding -/

theorem embedObj_returncode (p : PObj) (s : Option (Option Int)) : (embedObj p s).returncode = p.returncode := by
  unfold embedObj; split <;> rfl

theorem embedObj_pid (p : PObj) (s : Option (Option Int)) : (embedObj p s).pid = p.pid := by
  unfold embedObj; split <;> rfl

theorem embedObj_setPid (p : PObj) (s : Option (Option Int)) (pid : Nat) :
    ({ embedObj p s with pid := pid } : PObj) = embedObj { p with pid := pid } s := by
  unfold embedObj; split <;> rfl

theorem WP.ext' {a b : WP} (h1 : a.now = b.now) (h2 : a.objs = b.objs) (h3 : a.gone = b.gone)
    (h4 : a.cbLog = b.cbLog) (h5 : a.sleeps = b.sleeps) (h6 : a.calls = b.calls)
    (h7 : a.cbSeen = b.cbSeen) : a = b := by
  cases a; cases b; simp_all

theorem embed_markGone (hasCb : Bool) (w : WP) (sub : Nat → Option (Option Int)) (pid : Nat) (v : Option Int) :
    WPM.embed ⟨markGone hasCb w pid v, sub⟩ = markGone hasCb (WPM.embed ⟨w, sub⟩) pid v := by
  rw [markGone_eq, markGone_eq]
  apply WP.ext' <;> try rfl
  · funext q
    simp only [WPM.embed]
    by_cases e : q = pid
    · subst e; simp only [if_true]; unfold embedObj; split <;> rfl
    · simp only [e, if_false]

theorem procWait_pid (c : Cfg) (env : Env) (timeout : Option Rat) (fuel : Nat) (now : Rat) (p : PObj) :
    (procWait c env timeout fuel now p).obj.pid = p.pid := by
  unfold procWait
  split
  · rfl
  · split <;> rfl

/-- the state after `proc.wait` came back, for a Process (`s' = none`) or a Popen (`s'` = its returncode) -/
theorem embed_afterWait (m : WPM) (r re : WaitRes) (pid : Nat) (t : Rat) (s' : Option (Option Int))
    (hp : r.obj.pid = pid) (hnow : re.now = r.now) (hsl : re.sleeps = r.sleeps)
    (hobj : re.obj = embedObj r.obj s') :
    WPM.embed ⟨afterWait m.w r pid t, fun q => if q = pid then s' else m.sub q⟩ =
      afterWait m.embed re pid t := by
  apply WP.ext'
  · simp [WPM.embed, afterWait, hnow]
  · funext q
    simp only [WPM.embed, afterWait, WP.setObj, hobj, embedObj_pid, hp]
    by_cases e : q = pid
    · simp [e]
    · simp [e]
  · rfl
  · rfl
  · simp [WPM.embed, afterWait, hsl]
  · rfl
  · rfl

/-- the shape of `check_gone` once `proc.wait` has answered `r` -/
def cgForm (envOf : Nat → Env) (hasCb : Bool) (m : WPM) (r : WaitRes) (pid : Nat) (t : Rat)
    (s' : Option (Option Int)) : Except Outcome WPM :=
  match r.out with
  | .timeout _ _ => .ok ⟨afterWait m.w r pid t, fun q => if q = pid then s' else m.sub q⟩
  | .code cc => .ok ⟨markGone hasCb (afterWait m.w r pid t) pid (some cc), fun q => if q = pid then s' else m.sub q⟩
  | .none => if (envOf pid).running r.now then .ok ⟨afterWait m.w r pid t, fun q => if q = pid then s' else m.sub q⟩
             else .ok ⟨markGone hasCb (afterWait m.w r pid t) pid none, fun q => if q = pid then s' else m.sub q⟩
  | o => .error o

theorem cgForm_embed (c : Cfg) (envOf : Nat → Env) (hasCb : Bool) (fuel : Nat) (m : WPM) (r re : WaitRes)
    (pid : Nat) (t : Rat) (s' : Option (Option Int))
    (hre : procWait c (envOf pid) (some t) fuel m.embed.now { m.embed.objs pid with pid := pid } = re)
    (hp : r.obj.pid = pid) (hout : re.out = r.out) (hnow : re.now = r.now) (hsl : re.sleeps = r.sleeps)
    (hobj : re.obj = embedObj r.obj s') :
    checkGone c envOf hasCb fuel m.embed pid t = (cgForm envOf hasCb m r pid t s').map WPM.embed := by
  rw [checkGone_eq c envOf hasCb fuel m.embed pid t re hre]
  have ea := embed_afterWait m r re pid t s' hp hnow hsl hobj
  unfold cgForm
  rw [hout, hnow]
  cases r.out with
  | timeout a b => simp only [Except.map]; rw [ea]
  | code cc => simp only [Except.map]; rw [embed_markGone, ea]
  | none =>
    simp only
    by_cases hr : (envOf pid).running r.now = true
    · simp only [hr, if_true, Except.map]; rw [ea]
    · simp only [hr, Bool.false_eq_true, if_false, Except.map]; rw [embed_markGone, ea]
  | valueError => rfl
  | hang => rfl
  | outOfFuel => rfl

section
variable {c : Cfg} (hg : c.Good) (hv : c.popenValidateFirst = true)
  (envOf : Nat → Env) (hasCb : Bool) (fuel : Nat)
include hg hv

/-- ONE `check_gone`: dispatching `proc.wait` on the class of the object and then forgetting the
    class gives what `check_gone` gives on the embedded objects -/
theorem checkGoneM_embed (m : WPM) (pid : Nat) (t : Rat) :
    checkGone c envOf hasCb fuel m.embed pid t = (checkGoneM c envOf hasCb fuel m pid t).map WPM.embed := by
  cases hs : m.sub pid with
  | none =>
    -- a plain Process
    have hobj0 : ({ m.embed.objs pid with pid := pid } : PObj) = { m.w.objs pid with pid := pid } := by
      simp [WPM.embed, hs, embedObj]
    generalize hr : procWait c (envOf pid) (some t) fuel m.w.now { m.w.objs pid with pid := pid } = r
    have hsub : (fun q => if q = pid then none else m.sub q) = m.sub := by
      funext q; by_cases e : q = pid
      · subst e; simp [hs]
      · simp [e]
    have hM : checkGoneM c envOf hasCb fuel m pid t = cgForm envOf hasCb m r pid t none := by
      unfold checkGoneM cgForm
      simp only [hs]
      rw [checkGone_eq c envOf hasCb fuel m.w pid t r hr, hsub]
      cases r.out with
      | none =>
        simp only
        by_cases hrun : (envOf pid).running r.now = true
        · simp only [hrun, if_true]
        · simp only [hrun, Bool.false_eq_true, if_false]
      | _ => rfl
    rw [hM]
    refine cgForm_embed c envOf hasCb fuel m r r pid t none ?_ ?_ rfl rfl rfl ?_
    · rw [hobj0]; exact hr
    · rw [← hr, procWait_pid]
    · simp [embedObj]
  | some rc =>
    -- a Popen
    generalize hq : popenWait c (envOf pid) (some t) fuel m.w.now ⟨{ m.w.objs pid with pid := pid }, rc⟩ = pr
    have hM : checkGoneM c envOf hasCb fuel m pid t =
        cgForm envOf hasCb m ⟨pr.out, pr.now, pr.sleeps, pr.obj.proc⟩ pid t (some pr.obj.subRc) := by
      unfold checkGoneM cgForm
      simp only [hs, hq]
      cases pr.out <;> rfl
    rw [hM]
    have hobj0 : ({ m.embed.objs pid with pid := pid } : PObj) =
        embedObj { m.w.objs pid with pid := pid } (some rc) := by
      simp only [WPM.embed, hs]; exact embedObj_setPid _ _ _
    by_cases hn : negative (some t) = true
    · -- cannot happen inside wait_procs; both sides raise ValueError
      have e1 : pr = ⟨.valueError, m.w.now, [], ⟨{ m.w.objs pid with pid := pid }, rc⟩⟩ := by
        rw [← hq]; simp [popenWait, hv, hn]
      refine cgForm_embed c envOf hasCb fuel m _ ⟨.valueError, m.w.now, [], _⟩ pid t _ ?_ ?_ ?_ ?_ ?_ rfl
      · rw [hobj0]
        rw [procWait_negative hg (envOf pid) (some t) fuel m.embed.now _ hn]
        rw [e1]; rfl
      · rw [e1]
      · rw [e1]
      · rw [e1]
      · rw [e1]
    · have hn' : negative (some t) = false := by simpa using hn
      cases rc with
      | some cc =>
        have e1 : pr = ⟨.code cc, m.w.now, [], ⟨{ m.w.objs pid with pid := pid }, some cc⟩⟩ := by
          rw [← hq]
          exact popenWait_set (envOf pid) (some t) fuel m.w.now _ cc rfl hg.popenRcFirst (by simp [hn'])
        refine cgForm_embed c envOf hasCb fuel m _
          ⟨.code cc, m.w.now, [], embedObj { m.w.objs pid with pid := pid } (some (some cc))⟩ pid t _ ?_ ?_ ?_ ?_ ?_ ?_
        · rw [hobj0]
          exact procWait_cached (envOf pid) (some t) fuel m.embed.now _ (some cc) rfl hn'
        · rw [e1]
        · rw [e1]
        · rw [e1]
        · rw [e1]
        · rw [e1]
      | none =>
        obtain ⟨h1, h2, h3, h4, h5⟩ :=
          popenWait_unset hg (envOf pid) (some t) fuel m.w.now ⟨{ m.w.objs pid with pid := pid }, none⟩ rfl
        rw [hq] at h1 h2 h3 h4 h5
        simp only at h1 h2 h3 h4 h5
        refine cgForm_embed c envOf hasCb fuel m _
          (procWait c (envOf pid) (some t) fuel m.w.now { m.w.objs pid with pid := pid }) pid t _ ?_ ?_ ?_ ?_ ?_ ?_
        · rw [hobj0]; rfl
        · simp only; rw [h4, procWait_pid]
        · simp only; rw [h1]
        · simp only; rw [h2]
        · simp only; rw [h3]
        · simp only
          rw [h4, h5]
          cases ho : (procWait c (envOf pid) (some t) fuel m.w.now { m.w.objs pid with pid := pid }).out with
          | code cc =>
            have := procWait_code_stored (envOf pid) (some t) fuel m.w.now { m.w.objs pid with pid := pid } cc ho
            simp only [rcAfter, embedObj]
            generalize (procWait c (envOf pid) (some t) fuel m.w.now { m.w.objs pid with pid := pid }).obj = o at this
            cases o; simp_all
          | _ => simp [rcAfter, embedObj]

theorem passNM_embed (t : Rat) : ∀ (l : List Nat) (m : WPM),
    passN c envOf hasCb fuel t l m.embed = (passNM c envOf hasCb fuel t l m).map WPM.embed := by
  intro l
  induction l with
  | nil => intro m; rfl
  | cons pid rest ih =>
    intro m
    simp only [passN, passNM]
    rw [checkGoneM_embed hg hv envOf hasCb fuel m pid t]
    cases checkGoneM c envOf hasCb fuel m pid t with
    | error o => rfl
    | ok m' => simp only [Except.map]; exact ih m'

theorem passTM_embed (deadline maxT : Rat) : ∀ (l : List Nat) (m : WPM) (tmo : Rat),
    passT c envOf hasCb fuel deadline maxT l m.embed tmo =
      (passTM c envOf hasCb fuel deadline maxT l m tmo).map (fun r => (r.1.embed, r.2)) := by
  intro l
  induction l with
  | nil => intro m tmo; rfl
  | cons pid rest ih =>
    intro m tmo
    simp only [passT, passTM]
    have hnow : m.embed.now = m.w.now := rfl
    rw [hnow]
    by_cases hb : rmin (deadline - m.w.now) maxT ≤ 0
    · simp only [hb, if_true]; rfl
    · simp only [hb, if_false]
      rw [checkGoneM_embed hg hv envOf hasCb fuel m pid _]
      cases checkGoneM c envOf hasCb fuel m pid (rmin (deadline - m.w.now) maxT) with
      | error o => rfl
      | ok m' => simp only [Except.map]; exact ih m' _

variable (order : Nat → List Nat → List Nat)

theorem whileTM_embed (deadline : Rat) : ∀ (k : Nat) (alive : List Nat) (m : WPM) (tmo : Rat),
    whileT c envOf hasCb fuel order deadline k alive m.embed tmo =
      (whileTM c envOf hasCb fuel order deadline k alive m tmo).map (fun r => (r.1.embed, r.2)) := by
  intro k
  induction k with
  | zero => intro alive m tmo; rfl
  | succ k ih =>
    intro alive m tmo
    simp only [whileT, whileTM]
    by_cases he : alive.isEmpty = true
    · simp only [he, if_true]; rfl
    · simp only [he, Bool.false_eq_true, if_false]
      by_cases ht : tmo ≤ 0
      · simp only [ht, if_true]; rfl
      · simp only [ht, if_false]
        have hc : m.embed.calls = m.w.calls := rfl
        rw [hc, passTM_embed hg hv envOf hasCb fuel deadline _ _ m tmo]
        cases passTM c envOf hasCb fuel deadline (maxTimeout c alive) (order m.w.calls.length alive) m tmo with
        | error o => rfl
        | ok r =>
          obtain ⟨m', tmo'⟩ := r
          simp only [Except.map]
          have hgone : m'.embed.gone = m'.w.gone := rfl
          rw [hgone]
          exact ih _ m' tmo'

theorem whileNM_embed : ∀ (k : Nat) (alive : List Nat) (m : WPM),
    whileN c envOf hasCb fuel order k alive m.embed =
      (whileNM c envOf hasCb fuel order k alive m).map (fun r => (r.1.embed, r.2)) := by
  intro k
  induction k with
  | zero => intro alive m; rfl
  | succ k ih =>
    intro alive m
    simp only [whileN, whileNM]
    by_cases he : alive.isEmpty = true
    · simp only [he, if_true]; rfl
    · simp only [he, Bool.false_eq_true, if_false]
      have hc : m.embed.calls = m.w.calls := rfl
      rw [hc, passNM_embed hg hv envOf hasCb fuel _ _ m]
      cases passNM c envOf hasCb fuel (maxTimeout c alive) (order m.w.calls.length alive) m with
      | error o => rfl
      | ok m' =>
        simp only [Except.map]
        have hgone : m'.embed.gone = m'.w.gone := rfl
        rw [hgone]
        exact ih _ m'

theorem lastAttemptM_embed (alive : List Nat) (m : WPM) :
    lastAttempt c envOf hasCb fuel order alive m.embed =
      (lastAttemptM c envOf hasCb fuel order alive m).map (fun r => (r.1.embed, r.2)) := by
  unfold lastAttempt lastAttemptM
  by_cases he : alive.isEmpty = true
  · simp only [he, if_true]; rfl
  · simp only [he, Bool.false_eq_true, if_false]
    have hc : m.embed.calls = m.w.calls := rfl
    rw [hc, passNM_embed hg hv envOf hasCb fuel _ _ m]
    cases passNM c envOf hasCb fuel 0 (order m.w.calls.length alive) m with
    | error o => rfl
    | ok m' => rfl

/-- `wait_procs` over Process and Popen objects, with the classes forgotten afterwards, IS
    `wait_procs` over the embedded Process objects -/
theorem waitProcsM_embed (procs : List Nat) (timeout : Option Rat) (m : WPM) :
    waitProcs c envOf procs timeout hasCb order fuel m.embed =
      (waitProcsM c envOf procs timeout hasCb order fuel m).map (fun r => (r.1.embed, r.2)) := by
  unfold waitProcs waitProcsM
  by_cases hn : negative timeout = true
  · simp only [hn, if_true]; rfl
  · simp only [hn, Bool.false_eq_true, if_false]
    have hnow : m.embed.now = m.w.now := rfl
    cases timeout with
    | some τ =>
      simp only
      rw [hnow, whileTM_embed hg hv envOf hasCb fuel order _ _ _ m τ]
      cases whileTM c envOf hasCb fuel order (m.w.now + τ) fuel (dedup procs) m τ with
      | error o => rfl
      | ok r =>
        obtain ⟨m', alive'⟩ := r
        simp only [Except.map]
        exact lastAttemptM_embed hg hv envOf hasCb fuel order alive' m'
    | none =>
      simp only
      rw [whileNM_embed hg hv envOf hasCb fuel order _ _ m]
      cases whileNM c envOf hasCb fuel order fuel (dedup procs) m with
      | error o => rfl
      | ok r =>
        obtain ⟨m', alive'⟩ := r
        simp only [Except.map]
        exact lastAttemptM_embed hg hv envOf hasCb fuel order alive' m'

end

/-! ### `set(procs)` -/

theorem mem_setOf_pid {l : List Item} {p : Nat} : (∃ x ∈ setOf l, x.pid = p) ↔ ∃ x ∈ l, x.pid = p := by
  induction l with
  | nil => simp [setOf]
  | cons a as ih =>
    simp only [setOf, List.mem_cons, List.mem_filter]
    constructor
    · rintro ⟨x, hx | ⟨hx, _⟩, rfl⟩
      · exact ⟨a, Or.inl rfl, by rw [hx]⟩
      · obtain ⟨y, hy, e⟩ := ih.1 ⟨x, hx, rfl⟩
        exact ⟨y, Or.inr hy, e⟩
    · rintro ⟨x, hx | hx, rfl⟩
      · exact ⟨a, Or.inl rfl, by rw [hx]⟩
      · by_cases e : x.pid = a.pid
        · exact ⟨a, Or.inl rfl, e.symm⟩
        · obtain ⟨y, hy, e'⟩ := ih.2 ⟨x, hx, rfl⟩
          exact ⟨y, Or.inr ⟨hy, by simp [e', e]⟩, e'⟩

theorem setOf_sub {l : List Item} {x : Item} (h : x ∈ setOf l) : x ∈ l := by
  induction l with
  | nil => simp [setOf] at h
  | cons a as ih =>
    simp only [setOf, List.mem_cons, List.mem_filter] at h
    rcases h with h | ⟨h, _⟩
    · exact List.mem_cons.2 (Or.inl h)
    · exact List.mem_cons.2 (Or.inr (ih h))

/-- one object per process -/
theorem setOf_nodup (l : List Item) : ((setOf l).map Item.pid).Nodup := by
  induction l with
  | nil => simp [setOf]
  | cons a as ih =>
    simp only [setOf, List.map_cons, List.nodup_cons, List.mem_map, List.mem_filter]
    refine ⟨?_, (ih.sublist (List.Sublist.map _ List.filter_sublist))⟩
    rintro ⟨x, ⟨_, hx⟩, e⟩
    simp [e] at hx

/-- … and it is the FIRST object of that process in the list -/
theorem setOf_first (l : List Item) : ∀ x ∈ setOf l, survivor l x.pid = some x := by
  induction l with
  | nil => simp [setOf]
  | cons a as ih =>
    intro x hx
    simp only [setOf, List.mem_cons, List.mem_filter] at hx
    unfold survivor
    rcases hx with rfl | ⟨hx, hne⟩
    · simp
    · have : (a.pid == x.pid) = false := by
        simp only [bne_iff_ne, ne_eq] at hne
        simp only [beq_eq_false_iff_ne, ne_eq]
        exact fun e => hne e.symm
      rw [List.find?_cons, this]
      exact ih x hx


/-! ### the `gone` set only grows, whatever the number of passes -/

section
variable {c : Cfg} (hg : c.Good) (envOf : Nat → Env) (hasCb : Bool) (fuel : Nat) (input : List Nat)
  (order : Nat → List Nat → List Nat) (hperm : ∀ k l, (order k l).Perm l)
include hg hperm

theorem whileT_gone_mono (deadline : Rat) :
    ∀ (k : Nat) (alive : List Nat) (w : WP) (tmo : Rat) (w' : WP) (alive' : List Nat),
      LInv envOf hasCb input w alive → w.now < deadline + Spec.cap →
      whileT c envOf hasCb fuel order deadline k alive w tmo = .ok (w', alive') →
      ∀ q ∈ w.gone, q ∈ w'.gone := by
  intro k
  induction k with
  | zero => intro alive w tmo w' alive' _ _ h; simp [whileT] at h
  | succ k ih =>
    intro alive w tmo w' alive' hl hd h
    simp only [whileT] at h
    by_cases he : alive.isEmpty = true
    · simp only [he, if_true] at h; cases h; exact fun q hq => hq
    · simp only [he, Bool.false_eq_true, if_false] at h
      by_cases ht : tmo ≤ 0
      · simp only [ht, if_true] at h; cases h; exact fun q hq => hq
      · simp only [ht, if_false] at h
        cases hp : passT c envOf hasCb fuel deadline (maxTimeout c alive) (order w.calls.length alive) w tmo with
        | error o => rw [hp] at h; cases h
        | ok r =>
          obtain ⟨w1, tmo1⟩ := r
          rw [hp] at h; simp only at h
          obtain ⟨hnd, hmem⟩ := order_ok envOf hasCb input hl (hperm w.calls.length alive)
          obtain ⟨i1, s1, _, _, d1⟩ :=
            passT_inv hg envOf hasCb fuel input deadline _ _ w w1 tmo tmo1 hl.1 hnd hmem hd hp
          have := ih _ w1 tmo1 w' alive' (linv_next envOf hasCb input hl i1 s1) d1 h
          exact fun q hq => this q (s1 q hq)

theorem whileN_gone_mono :
    ∀ (k : Nat) (alive : List Nat) (w : WP) (w' : WP) (alive' : List Nat),
      LInv envOf hasCb input w alive →
      whileN c envOf hasCb fuel order k alive w = .ok (w', alive') →
      ∀ q ∈ w.gone, q ∈ w'.gone := by
  intro k
  induction k with
  | zero => intro alive w w' alive' _ h; simp [whileN] at h
  | succ k ih =>
    intro alive w w' alive' hl h
    simp only [whileN] at h
    by_cases he : alive.isEmpty = true
    · simp only [he, if_true] at h; cases h; exact fun q hq => hq
    · simp only [he, Bool.false_eq_true, if_false] at h
      cases hp : passN c envOf hasCb fuel (maxTimeout c alive) (order w.calls.length alive) w with
      | error o => rw [hp] at h; cases h
      | ok w1 =>
        rw [hp] at h; simp only at h
        obtain ⟨hnd, hmem⟩ := order_ok envOf hasCb input hl (hperm w.calls.length alive)
        have hpos : 0 ≤ maxTimeout c alive := by
          unfold maxTimeout
          apply div_nonneg <;> exact Nat.cast_nonneg _
        obtain ⟨i1, s1, _, _, _⟩ :=
          passN_inv hg envOf hasCb fuel input _ hpos _ w w1 hl.1 hnd hmem hp
        have := ih _ w1 w' alive' (linv_next envOf hasCb input hl i1 s1) h
        exact fun q hq => this q (s1 q hq)

end

end Psutil.C15
