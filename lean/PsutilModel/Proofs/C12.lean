/-
  Proofs/C12.lean — helper lemmas for Props/C12.lean.
-/
import PsutilModel.Model.C12
import PsutilModel.Spec.C12
namespace Psutil.C12
open Spec

/-! ### the configuration under which the full statements hold -/

deriving instance DecidableEq for Cfg

/-- the documented literals; tests of `name()` on bytes; text files read without translation -/
def good : Cfg :=
  { sepTest := 0, sepNul := 0, sepSpace := 32, rule2Sep := 0, rule2In := 32, rule2Split := 32,
    stripOne := true, envNul := 0, envEq := 61, rlNul := 0, deletedSuffix := Spec.deleted, deletedCut := 10,
    nameMinLen := 15, nameTestOnBytes := true, textRaw := true,
    -- name(): a zombie's / unreadable cmdline keeps the kernel's name; exe(): only AccessDenied leads to the
    -- guess, only AccessDenied of the guess is swallowed, only an AccessDenied fallback is re-raised
    nameSwallows := [.zombieProcess, .accessDenied], exeGuessOn := [.accessDenied],
    exeGuessSwallows := [.accessDenied], guessReraises := [.accessDenied],
    -- path_exists_strict: whatever `os.stat` fails with means "nothing of that name exists" — except a refused
    -- examination (PermissionError), which leaves the helper; no failure is answered True
    existsFalseOn := OsCls.all.filter (· != .permission), existsTrueOn := [] }

@[simp] theorem good_nameSwallows : good.nameSwallows = [.zombieProcess, .accessDenied] := rfl
@[simp] theorem good_exeGuessOn : good.exeGuessOn = [.accessDenied] := rfl
@[simp] theorem good_exeGuessSwallows : good.exeGuessSwallows = [.accessDenied] := rfl
attribute [simp] linkGone

@[simp] theorem good_existsTrueOn : good.existsTrueOn = [] := rfl
@[simp] theorem good_existsFalseOn (c : OsCls) : c ∈ good.existsFalseOn ↔ c ≠ .permission := by
  cases c <;> decide

/-! ### fields / splitOn -/

theorem fields_eq_splitOn (sep : Nat) (s : Bytes) : fields sep s = splitOn sep s := by
  induction s with
  | nil => rfl
  | cons c cs ih =>
    simp only [fields, List.foldr_cons] at ih ⊢
    rw [ih]
    simp only [splitOn]
    split
    · rfl
    · cases splitOn sep cs <;> rfl

theorem splitOn_mem_noSep (sep : Nat) (s : Bytes) : ∀ f ∈ splitOn sep s, sep ∉ f := by
  induction s with
  | nil => simp [splitOn]
  | cons c cs ih =>
    unfold splitOn
    split
    · intro f hf
      simp only [List.mem_cons] at hf
      rcases hf with rfl | hf
      · simp
      · exact ih f hf
    · rename_i hc
      split
      · intro f hf
        simp only [List.mem_cons, List.not_mem_nil, or_false] at hf
        subst hf
        simpa using fun e => hc e.symm
      · rename_i h t heq
        rw [heq] at ih
        intro f hf
        simp only [List.mem_cons] at hf
        rcases hf with rfl | hf
        · have := ih h (by simp)
          simp only [List.mem_cons, not_or]
          exact ⟨fun e => hc e.symm, this⟩
        · exact ih f (by simp [hf])

theorem joinWith_splitOn (sep : Nat) (s : Bytes) : joinWith [sep] (splitOn sep s) = s := by
  induction s with
  | nil => simp [splitOn, joinWith]
  | cons c cs ih =>
    unfold splitOn
    split
    · rename_i hc
      have hne := splitOn_ne_nil sep cs
      cases hsp : splitOn sep cs with
      | nil => exact absurd hsp hne
      | cons h t =>
        rw [hsp] at ih
        simp [joinWith, ih, hc]
    · split
      · rename_i heq
        exact absurd heq (splitOn_ne_nil sep cs)
      · rename_i h t heq
        rw [heq] at ih
        cases t with
        | nil => simp [joinWith] at ih ⊢; exact ih
        | cons g gs =>
          simp only [joinWith] at ih ⊢
          simp [ih]

/-- `fields` really are the fields: non-empty list, no separator inside a field, and joining
    them with the separator gives the string back … -/
theorem fields_isFields (sep : Nat) (s : Bytes) : IsFields sep s (fields sep s) := by
  rw [fields_eq_splitOn]
  exact ⟨splitOn_ne_nil sep s, splitOn_mem_noSep sep s, joinWith_splitOn sep s⟩

/-- … and they are the only such list. -/
theorem isFields_unique (sep : Nat) (s : Bytes) (fs : List Bytes) (h : IsFields sep s fs) :
    fs = fields sep s := by
  obtain ⟨hne, hno, hj⟩ := h
  rw [fields_eq_splitOn, ← hj, splitOn_join sep fs hne hno]

theorem splitOn_length_one (sep : Nat) (s : Bytes) :
    (splitOn sep s).length = 1 ↔ sep ∉ s := by
  constructor
  · intro h
    cases hsp : splitOn sep s with
    | nil => exact absurd hsp (splitOn_ne_nil sep s)
    | cons a t =>
      rw [hsp] at h
      have ht : t = [] := by simpa using h
      subst ht
      have hj := joinWith_splitOn sep s
      rw [hsp] at hj
      simp only [joinWith] at hj
      subst hj
      exact splitOn_mem_noSep sep a a (by rw [hsp]; simp)
  · intro h
    rw [splitOn_noSep sep s h]; rfl

end Psutil.C12
