/-
  Proofs/C04Keep.lean — seeded round 5: the LIFETIME of a "recycled" flag (`_pids_reused`).

  * `FlagSub` / `step_flagSub` / `runAll_flagSub`: every operation of a history except the one that STARTS an
    iteration (the first `next()` of a generator: the prologue drains the set) keeps every flag — `cache_clear()`,
    `next()` / `close()` of generators that are in flight (which republish their private map), `is_running()`,
    `pids()`, `pid_exists()`, creating generators, kernel events.
  * `prologue_flagged_lacks` (both prologue orders), `genNext_flagged_first_new`, `flagged_iteration_fresh`: the
    iteration that starts while `p` is flagged yields for `p` — if anything — only references that no object had
    when it started.
-/
import PsutilModel.Proofs.C04Flag
namespace Psutil.C04

/-- every PID flagged in `s` is flagged in `s'` -/
def FlagSub (s s' : St) : Prop := ∀ p ∈ s.flagged, p ∈ s'.flagged

theorem FlagSub.refl (s : St) : FlagSub s s := fun _ h => h

theorem FlagSub.trans {a b c : St} (h1 : FlagSub a b) (h2 : FlagSub b c) : FlagSub a c :=
  fun p hp => h2 p (h1 p hp)

theorem FlagSub.of_eq {a b : St} (h : b.flagged = a.flagged) : FlagSub a b := by
  intro p hp; rw [h]; exact hp

theorem mem_addFlag {fl : List Nat} {p : Nat} (pid : Nat) (h : p ∈ fl) : p ∈ addFlag fl pid := by
  unfold addFlag
  split
  · exact h
  · exact List.mem_append_left _ h

theorem mem_addFlag_self (fl : List Nat) (pid : Nat) : pid ∈ addFlag fl pid := by
  unfold addFlag
  split
  · rename_i h; simpa using h
  · simp

theorem isRunningObj_flagSub (s : St) (r : Ref) (o : PObj) : FlagSub s (isRunningObj s r o).1 := by
  intro p hp
  unfold isRunningObj
  split
  · exact hp
  · split
    · exact hp
    · split
      · exact hp
      · exact mem_addFlag _ hp

theorem raiseIfReused_flagSub (cfg : Cfg) (s : St) (r : Ref) (o : PObj) : FlagSub s (raiseIfReused cfg s r o).1 := by
  intro p hp
  unfold raiseIfReused
  split
  · exact hp
  · have := isRunningObj_flagSub s r o p hp
    simp only
    split <;> exact this

theorem asDictLoop_flagSub (cfg : Cfg) (r : Ref) (pid : Nat) (ls : List String) :
    ∀ s, FlagSub s (asDictLoop cfg r pid s ls).1 := by
  induction ls with
  | nil => intro s p hp; simpa [asDictLoop] using hp
  | cons nm rest ih =>
    intro s
    simp only [asDictLoop]
    split
    · exact ih s
    · split
      · exact ih s
      · exact FlagSub.refl s
    · split
      · exact FlagSub.refl s
      · rename_i o _
        have hf := raiseIfReused_flagSub cfg s r o
        cases hr : raiseIfReused cfg s r o with
        | mk s1 raised =>
          rw [hr] at hf
          simp only at hf ⊢
          split
          · exact hf
          · split
            · exact hf.trans (ih s1)
            · exact hf

theorem fillInfo_flagSub_ok {cfg : Cfg} {attrs : Attrs} {r : Ref} {pid : Nat} {s s2 : St} {info : Option (List String)}
    (h : fillInfo cfg attrs r pid s = .ok s2 info) : FlagSub s s2 := by
  cases attrs with
  | none => simp only [fillInfo, Fill.ok.injEq] at h; obtain ⟨rfl, _⟩ := h; exact FlagSub.refl _
  | names l =>
    simp only [fillInfo] at h
    split at h
    · cases h
    · have hf := asDictLoop_flagSub cfg r pid (namesOf cfg l) s
      split at h
      · rename_i s2' heq
        simp only [Fill.ok.injEq] at h
        obtain ⟨rfl, _⟩ := h
        rw [heq] at hf; exact hf
      · cases h

theorem fillInfo_flagSub_nsp {cfg : Cfg} {attrs : Attrs} {r : Ref} {pid : Nat} {s s2 : St}
    (h : fillInfo cfg attrs r pid s = .nsp s2) : FlagSub s s2 := by
  cases attrs with
  | none => simp [fillInfo] at h
  | names l =>
    simp only [fillInfo] at h
    split at h
    · cases h
    · have hf := asDictLoop_flagSub cfg r pid (namesOf cfg l) s
      split at h
      · cases h
      · rename_i s2' heq
        simp only [Fill.nsp.injEq] at h
        subst h
        rw [heq] at hf; exact hf

/-- a run of the loop — any number of visited / skipped PIDs, the `finally` that publishes the private map
    included — keeps every flag (it can only add some: `as_dict` of a reuse-checking name) -/
theorem visit_flagSub (c : Cfg) (attrs : Attrs) (g : Nat) (listed : List Nat) :
    ∀ (todo : List (Nat × Option Ref)) (s : St) (pmap : PMap), FlagSub s (visit c attrs g listed s pmap todo).1 := by
  intro todo
  induction todo with
  | nil => intro s pmap p hp; simpa [visit, finish, St.setGen] using hp
  | cons e rest ih =>
    intro s pmap
    obtain ⟨pid, oref⟩ := e
    simp only [visit]
    cases ha : addProc s pmap pid oref with
    | none => exact ih s _
    | some x =>
      obtain ⟨s1, pm1, r⟩ := x
      have hf1 : FlagSub s s1 := FlagSub.of_eq (addProc_frame ha).2.2.2
      simp only
      cases hfi : fillInfo c attrs r pid s1 with
      | ok s2 info =>
        simp only
        intro p hp
        have := fillInfo_flagSub_ok hfi p (hf1 p hp)
        simpa [St.setGen] using this
      | bad =>
        simp only
        intro p hp
        have := hf1 p hp
        simpa [finish, St.setGen] using this
      | nsp s2 =>
        simp only
        exact hf1.trans ((fillInfo_flagSub_nsp hfi).trans (ih s2 _))

/-- the ONE kind of operation that may take a flag away: the first `next()` of a generator (it runs the
    prologue, whose drain loop empties `_pids_reused`) -/
def StartsIter (s : St) : Op → Prop
  | .next g _ => ∃ gen, s.gens[g]? = some gen ∧ gen.st = .fresh
  | _ => False

theorem pidsCall_flagSub (s : St) : FlagSub s (pidsCall s).1 := FlagSub.of_eq (pidsCall_res s).2.2.2.1

/-- **every operation that does not start an iteration keeps every flag** — `cache_clear()` in particular,
    and `next()` / `close()` of a generator in flight (they publish the generator's private map) -/
theorem step_flagSub (c : Cfg) (s : St) (op : Op) (h : ¬ StartsIter s op) : FlagSub s (step c s op).1 := by
  cases op with
  | kev e => exact FlagSub.refl s
  | pids =>
    have := pidsCall_flagSub s
    simp only [step]
    cases hpc : pidsCall s with
    | mk s' res => rw [hpc] at this; cases res <;> exact this
  | pidExists n =>
    simp only [step, pidExists]
    split
    · exact FlagSub.refl s
    · split
      · have := pidsCall_flagSub s
        cases hpc : pidsCall s with
        | mk s' res => rw [hpc] at this; cases res <;> exact this
      · split <;> exact FlagSub.refl s
  | iter attrs => exact FlagSub.refl s
  | next g mid =>
    simp only [step, genNext]
    cases hg : s.gens[g]? with
    | none => exact FlagSub.refl s
    | some gen =>
      simp only
      cases hst : gen.st with
      | fresh => exact absurd ⟨gen, hg, hst⟩ h
      | done => exact FlagSub.refl s
      | running pmap todo listed =>
        simp only
        have := visit_flagSub c gen.attrs g listed todo (s.applyMid mid) pmap
        exact fun p hp => this p hp
  | close g =>
    simp only [step, genClose]
    cases hg : s.gens[g]? with
    | none => exact FlagSub.refl s
    | some gen =>
      simp only
      cases hst : gen.st with
      | fresh => exact FlagSub.refl s
      | done => exact FlagSub.refl s
      | running pmap todo listed => exact FlagSub.refl s
  | cacheClear => exact FlagSub.refl s
  | isRunning r =>
    simp only [step]
    cases hr : s.objs[r]? with
    | none => exact FlagSub.refl s
    | some o => exact isRunningObj_flagSub s r o

/-- no operation of the history starts an iteration (judged on the state each operation runs in) -/
def NoStart (c : Cfg) : St → List Op → Prop
  | _, [] => True
  | s, op :: ops => ¬ StartsIter s op ∧ NoStart c (step c s op).1 ops

theorem runAll_flagSub (c : Cfg) : ∀ (h : List Op) (s : St), NoStart c s h → FlagSub s (runAll c s h) := by
  intro h
  induction h with
  | nil => intro s _; exact FlagSub.refl s
  | cons op ops ih =>
    intro s hn
    exact (step_flagSub c s op hn.1).trans (ih _ hn.2)

/-! ## the iteration that starts while `p` is flagged -/

/-- either prologue order: a PID flagged when the prologue runs has no entry in the private map -/
theorem prologue_flagged_lacks (c : Cfg) (s : St) (p : Nat) (hp : p ∈ s.flagged)
    (pm : PMap) (todo : List (Nat × Option Ref)) (l : List Nat)
    (h : (prologue c s).2 = some (pm, todo, l)) : pm.get p = none := by
  cases hd : c.drainFirst with
  | false => exact (prologue_flagged_dropped c hd s p hp pm todo l h).1
  | true =>
    unfold prologue at h
    simp only [hd, if_true] at h
    cases hpc : pidsCall { s with flagged := [] } with
    | mk s2 res =>
      rw [hpc] at h
      cases res with
      | none => simp at h
      | some a =>
        simp only [Option.some.injEq, Prod.mk.injEq] at h
        obtain ⟨rfl, _, _⟩ := h
        rw [removeAll_eq_filter, get_filter _ (fun q => !(List.filter (fun p => !a.contains p) (PMap.keys (removeAll s.pmap s.flagged))).contains q)]
        rw [removeAll_eq_filter, get_filter _ (fun q => !s.flagged.contains q)]
        simp [hp]

/-- first `next()` of the iteration that starts while `p` is flagged (either order, cached or not, listed or
    not): if it yields `p`, then a reference that no object had before; afterwards `p` stands on the to-do
    list (if at all) as a NEW pid -/
theorem genNext_flagged_first_new (c : Cfg) (s : St) (hi : Inv s) (g : Nat)
    (mid : List KEv) (gen : Gen) (hg : s.gens[g]? = some gen) (hst : gen.st = .fresh)
    (p : Nat) (hp : p ∈ s.flagged) :
    (∀ r info, (genNext c s g mid).2 = .yield r p info → s.objs.length ≤ r)
    ∧ NewSt (genNext c s g mid).1 g p := by
  unfold genNext
  rw [hg]
  simp only [hst]
  have pr := prologue_res c s hi.kernel.nodup hi.pmap
  cases hpr : prologue c s with
  | mk s1 res =>
    rw [hpr] at pr
    obtain ⟨p1, _, _, p4, p5⟩ := pr
    simp only at p1 p4 p5
    cases res with
    | none =>
      simp only
      refine ⟨fun r info hy => (by cases hy), ⟨{ gen with st := .done }, ?_, Or.inr rfl⟩⟩
      simp [St.applyMid, setGen_get_self, p1, hg]
    | some x =>
      obtain ⟨pm, todo, listed⟩ := x
      simp only
      have hlack := prologue_flagged_lacks c s p hp pm todo listed (by rw [hpr])
      have hnew : ∀ e ∈ todo, e.1 = p → e.2 = none := by
        intro e he hep
        rw [p5.2.2.2.2.2.1 e he, hep]; exact hlack
      have hg1 : (s1.applyMid mid).gens[g]? = some gen := by simpa [St.applyMid, p1] using hg
      refine ⟨?_, ?_⟩
      · intro r info hy
        have := visit_new_fresh c gen.attrs g listed p todo (s1.applyMid mid) pm hnew r info hy
        have h0 : (s1.applyMid mid).objs = s.objs := by simp [St.applyMid, p4]
        rw [← h0]; exact this.1
      · have vr := visit_res c gen.attrs g listed todo (s1.applyMid mid) pm
        rcases vr.outcome with ⟨r, q, info, pm', rest, pre, _, _, hgen, _⟩ | ⟨_, hgen, _, _⟩
        · rw [hg1] at hgen
          simp only [Option.map_some] at hgen
          refine ⟨_, hgen, Or.inl ⟨pm', rest, listed, rfl, ?_⟩⟩
          intro e he hep
          exact hnew e (visit_todo_sub c gen.attrs g listed todo _ pm _ pm' rest listed hgen rfl e he) hep
        · rw [hg1] at hgen
          simp only [Option.map_some] at hgen
          exact ⟨_, hgen, Or.inr rfl⟩

/-- **the iteration that starts while `p` is flagged**, consumed by `next(g)` calls with kernel events anywhere,
    either prologue order: every reference it yields for `p` is one that no object had when it started -/
theorem flagged_iteration_fresh (c : Cfg) (s : St) (hi : Inv s) (ho : ObjInv s)
    (g : Nat) (gen : Gen) (hg : s.gens[g]? = some gen) (hst : gen.st = .fresh) (p : Nat)
    (hp : p ∈ s.flagged) (mid0 : List KEv) (h : List Op) (hops : IterOps g h) :
    ∀ r ∈ yieldRefsOf c s g p (.next g mid0 :: h), s.objs.length ≤ r := by
  intro r hr
  obtain ⟨n1, n2⟩ := genNext_flagged_first_new c s hi g mid0 gen hg hst p hp
  have hlen := step_objs_length_le c s (.next g mid0) ho
  have ho' := step_objInv c s (.next g mid0) ho
  have ih' := newSt_run c g p s.objs.length h (step c s (.next g mid0)).1 hops ho' n2 hlen
  rw [yieldRefsOf_cons] at hr
  cases hy : yieldRef g p (.next g mid0, (step c s (.next g mid0)).2) with
  | none => rw [hy] at hr; exact ih' r hr
  | some r0 =>
    rw [hy] at hr
    rcases List.mem_cons.mp hr with e | hm
    · subst e
      cases hout : (step c s (.next g mid0)).2 with
      | yield r' q info =>
        rw [hout] at hy
        simp only [yieldRef] at hy
        split at hy
        · rename_i hc'
          simp only [Option.some.injEq] at hy
          subst hy
          obtain ⟨_, rfl⟩ := hc'
          exact n1 r' info hout
        · cases hy
      | _ => rw [hout] at hy; simp [yieldRef] at hy
    · exact ih' r hm

/-- `is_running()` on a live object whose PID the table holds as another incarnation: the answer is False and
    the PID is flagged -/
theorem isRunning_finds_recycled (c : Cfg) (s : St) (r : Ref) (o : PObj) (hr : s.objs[r]? = some o)
    (hg : o.gone = false) (hu : o.reused = false) (b : Nat) (hs : s.k.statStart o.pid = some b) (hne : b ≠ o.ident) :
    (step c s (.isRunning r)).2 = .bool false ∧ o.pid ∈ (step c s (.isRunning r)).1.flagged := by
  have hbe : (b == o.ident) = false := by simpa using hne
  refine ⟨?_, ?_⟩
  · simp [step, hr, isRunningObj, hg, hu, hs, hbe]
  · simp only [step, hr, isRunningObj, hg, hu, hs, hbe, Bool.or_self, Bool.false_eq_true, if_false]
    exact mem_addFlag_self _ _

end Psutil.C04
