/- Proofs/C19Boot.lean — histories of boot_time() / Process.create_time() / cpu_stats() around the module
   global BOOT_TIME (Model/C19Boot.lean) against the state-free promise of Spec/C19Boot.lean. -/
import PsutilModel.Proofs.C19Text
import PsutilModel.Spec.C19Boot
import Mathlib.Tactic.Linarith
namespace Psutil.C19
open Spec

/-- a module global that is unset or holds a `btime` the kernel printed (a natural number) -/
def natG : Option Nat → Option Rat
  | none => none
  | some n => some (n : Rat)

/-- the global after one moment of a kernel-format history (the same for EVERY return rule) -/
def stepG (g : Option Nat) (k : KStep) : Option Nat :=
  match k.call with
  | .cpuStats => g
  | _ => match g with
    | some x => some x
    | none => some k.krec.btime

theorem answers_boot (o : HOut) (k : KStep) (h : k.call = .bootTime) :
    Answers o k ↔ o = .time (.ok (k.krec.btime : Rat)) := by
  simp only [Answers, Spec.expected, h]

theorem answers_stats (o : HOut) (k : KStep) (h : k.call = .cpuStats) :
    Answers o k ↔ o = .stats (.ok ⟨some k.krec.ctxt, some k.krec.intr, some k.krec.softirq⟩) := by
  simp only [Answers, Spec.expected, h]

theorem answers_create (o : HOut) (k : KStep) (st : Nat) (h : k.call = .createTime st) : Answers o k := by
  simp only [Answers, Spec.expected, h]

theorem bootCall_render (rule : BootRule) (g : Option Rat) (r : StatRec) :
    bootCall rule g (.content (renderStat r))
      = (.ok (rule g (r.btime : Rat)), match g with | some x => some x | none => some (r.btime : Rat)) := by
  unfold bootCall
  rw [bootTime_render]
  rfl

theorem histStep_global (rule : BootRule) (ticks : Nat) (g : Option Nat) (k : KStep) :
    (histStep rule ticks (natG g) k.toH).2 = natG (stepG g k) := by
  unfold histStep stepG KStep.toH
  cases hc : k.call with
  | bootTime => cases g <;> simp [bootCall_render, natG]
  | createTime start => cases g <;> simp [createTimeCall, bootCall_render, natG]
  | cpuStats => simp

theorem histStep_out_boot (rule : BootRule) (ticks : Nat) (g : Option Rat) (k : KStep) (h : k.call = .bootTime) :
    (histStep rule ticks g k.toH).1 = .time (.ok (rule g (k.krec.btime : Rat))) := by
  unfold histStep KStep.toH
  simp [h, bootCall_render]

theorem histStep_out_stats (rule : BootRule) (ticks : Nat) (g : Option Rat) (k : KStep) (h : k.call = .cpuStats) :
    (histStep rule ticks g k.toH).1 = .stats (.ok ⟨some k.krec.ctxt, some k.krec.intr, some k.krec.softirq⟩) := by
  unfold histStep KStep.toH
  simp [h, cpuStats_render]

/-- a rule that hands back the value just read for every (global, value) a kernel-format history can
    produce mirrors the kernel over every such history, from every reachable global -/
theorem histRun_mirrors_of_rule (rule : BootRule) (h : ∀ (g : Option Nat) (v : Nat), rule (natG g) (v : Rat) = (v : Rat))
    (ticks : Nat) (g : Option Nat) (ks : List KStep) :
    HistoryMirrors (histRun rule ticks (natG g) (ks.map KStep.toH)) ks := by
  induction ks generalizing g with
  | nil => exact True.intro
  | cons k ks ih =>
    simp only [List.map_cons, histRun]
    refine ⟨?_, ?_⟩
    · cases hc : k.call with
      | bootTime => rw [answers_boot _ k hc, histStep_out_boot rule ticks _ k hc, h]
      | createTime start => exact answers_create _ k start hc
      | cpuStats => rw [answers_stats _ k hc, histStep_out_stats rule ticks _ k hc]
    · rw [histStep_global]
      exact ih _

/-- a history whose only content is one value of `btime` -/
def recOf (b : Nat) : StatRec :=
  { cpuTotal := [], cpus := [], intr := 0, intrRest := [], ctxt := 0, btime := b
    processes := 0, softirq := 0, softirqRest := [] }

/-- …and conversely: a rule that deviates at some (global, value) is refuted by a history of at most
    two `boot_time()` calls — `[v]` for an unset global, `[a, v]` for the global `a` -/
theorem rule_of_histRun_mirrors (rule : BootRule)
    (h : ∀ ks : List KStep, HistoryMirrors (histRun rule 100 none (ks.map KStep.toH)) ks)
    (g : Option Nat) (v : Nat) : rule (natG g) (v : Rat) = (v : Rat) := by
  cases g with
  | none =>
    have h1 := h [⟨recOf v, .bootTime⟩]
    simp only [List.map_cons, List.map_nil, histRun] at h1
    have ha := h1.1
    rw [answers_boot _ _ rfl, histStep_out_boot rule 100 none ⟨recOf v, .bootTime⟩ rfl] at ha
    simpa [recOf, natG] using ha
  | some a =>
    have h1 := h [⟨recOf a, .bootTime⟩, ⟨recOf v, .bootTime⟩]
    simp only [List.map_cons, List.map_nil, histRun] at h1
    have hb := h1.2.1
    have hg := histStep_global rule 100 none ⟨recOf a, .bootTime⟩
    simp only [natG] at hg
    rw [answers_boot _ _ rfl, hg, histStep_out_boot rule 100 _ ⟨recOf v, .bootTime⟩ rfl] at hb
    simpa [recOf, natG, stepG] using hb

/-! ### create_time() is explained by ONE boot time -/

theorem histStep_some_global (rule : BootRule) (ticks : Nat) (x : Rat) (s : HStep) :
    (histStep rule ticks (some x) s).2 = some x := by
  unfold histStep
  cases s.call with
  | bootTime => simp only [bootCall]; cases bootTime s.stat <;> rfl
  | createTime start => rfl
  | cpuStats => rfl

theorem histStep_some_create (rule : BootRule) (ticks : Nat) (x : Rat) (s : HStep) (start : Nat) (v : Rat)
    (hc : s.call = .createTime start) (ho : (histStep rule ticks (some x) s).1 = .time (.ok v)) :
    v = (start : Rat) / (ticks : Rat) + x := by
  unfold histStep at ho
  rw [hc] at ho
  simp only [createTimeCall] at ho
  injection ho with ho
  injection ho with ho
  exact ho.symm

theorem stable_from_some (rule : BootRule) (ticks : Nat) (x : Rat) (ss : List HStep) :
    ∀ p ∈ (histRun rule ticks (some x) ss).zip ss, ∀ start v,
      p.2.call = .createTime start → p.1 = .time (.ok v) → v = (start : Rat) / (ticks : Rat) + x := by
  induction ss with
  | nil => intro p hp; simp [histRun] at hp
  | cons s ss ih =>
    intro p hp start v hc ho
    simp only [histRun, List.zip_cons_cons, List.mem_cons] at hp
    rcases hp with rfl | hp
    · exact histStep_some_create rule ticks x s start v hc ho
    · rw [histStep_some_global] at hp
      exact ih p hp start v hc ho

/-- from an unset global: a successful create_time() sets the global to the very value it used -/
theorem histStep_none_create (ticks : Nat) (s : HStep) (start : Nat) (v : Rat)
    (hc : s.call = .createTime start) (ho : (histStep ruleFresh ticks none s).1 = .time (.ok v)) :
    ∃ y, (histStep ruleFresh ticks none s).2 = some y ∧ v = (start : Rat) / (ticks : Rat) + y := by
  unfold histStep at ho ⊢
  rw [hc] at ho ⊢
  simp only [createTimeCall, bootCall] at ho ⊢
  cases hb : bootTime s.stat with
  | error e => rw [hb] at ho; simp at ho
  | ok bt =>
    rw [hb] at ho
    simp only [ruleFresh] at ho ⊢
    injection ho with ho
    injection ho with ho
    exact ⟨bt, rfl, ho.symm⟩

theorem stable_from_none (ticks : Nat) (ss : List HStep) :
    StableCreate ticks (histRun ruleFresh ticks none ss) ss := by
  induction ss with
  | nil => exact ⟨0, by intro p hp; simp [histRun] at hp⟩
  | cons s ss ih =>
    cases hg : (histStep ruleFresh ticks none s).2 with
    | none =>
      obtain ⟨x, hx⟩ := ih
      refine ⟨x, ?_⟩
      intro p hp start v hc ho
      simp only [histRun, List.zip_cons_cons, List.mem_cons] at hp
      rcases hp with rfl | hp
      · obtain ⟨y, hy, _⟩ := histStep_none_create ticks s start v hc ho
        rw [hg] at hy
        cases hy
      · rw [hg] at hp
        exact hx p hp start v hc ho
    | some y =>
      refine ⟨y, ?_⟩
      intro p hp start v hc ho
      simp only [histRun, List.zip_cons_cons, List.mem_cons] at hp
      rcases hp with rfl | hp
      · obtain ⟨y', hy', hv⟩ := histStep_none_create ticks s start v hc ho
        rw [hg] at hy'
        cases hy'
        exact hv
      · rw [hg] at hp
        exact stable_from_some ruleFresh ticks y ss p hp start v hc ho

/-! ### the tolerance rule -/

/-- within less than a second of a remembered whole number of seconds there is only that number -/
theorem ruleWithin_lt_one (tol : Rat) (ht : tol < 1) (g : Option Nat) (v : Nat) :
    ruleWithin tol (natG g) (v : Rat) = (v : Rat) := by
  cases g with
  | none => rfl
  | some a =>
    simp only [natG, ruleWithin]
    split
    · rename_i hle
      obtain ⟨h1, h2⟩ := hle
      have h1' : ((v : Int) : Rat) - ((a : Int) : Rat) < 1 := by push_cast; linarith
      have h2' : ((a : Int) : Rat) - ((v : Int) : Rat) < 1 := by push_cast; linarith
      have e1 : (v : Int) - (a : Int) < 1 := by exact_mod_cast h1'
      have e2 : (a : Int) - (v : Int) < 1 := by exact_mod_cast h2'
      have : a = v := by omega
      rw [this]
    · rfl

/-- …and from one second on the rule serves a stale value: remembered `a`, the kernel says `a + 1` -/
theorem ruleWithin_ge_one (tol : Rat) (ht : 1 ≤ tol) (a : Nat) :
    ruleWithin tol (natG (some a)) ((a + 1 : Nat) : Rat) = (a : Rat) := by
  simp only [natG, ruleWithin]
  have h1 : ((a + 1 : Nat) : Rat) - (a : Rat) ≤ tol := by push_cast; linarith
  have h2 : (a : Rat) - ((a + 1 : Nat) : Rat) ≤ tol := by push_cast; linarith
  rw [if_pos ⟨h1, h2⟩]

end Psutil.C19
