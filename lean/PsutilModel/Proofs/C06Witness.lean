/- Proofs/C06Witness.lean — the concrete witnesses used by the proved counterexamples of
   Props/C06.lean, with their rendered bytes. -/
import PsutilModel.Proofs.C06
namespace Psutil.C06
open Spec

/-- a thread named `a) b` with 300 user ticks and 400 system ticks -/
def witnessThread : StatRec :=
  { pid := 7, comm := [97, 41, 32, 98], state := 83, ppid := 1, pgrp := 0, session := 0, ttyNr := 0,
    tpgid := -1, flags := 0, minflt := 0, cminflt := 0, majflt := 0, cmajflt := 0,
    utime := 300, stime := 400, cutime := 0, cstime := 0, priority := 20, nice := 0,
    numThreads := 1, itrealvalue := 0, starttime := 5, vsize := 0, rss := 0, rsslim := 0,
    startcode := 0, endcode := 0, startstack := 0, kstkesp := 0, kstkeip := 0, signal := 0,
    blocked := 0, sigignore := 0, sigcatch := 0, wchan := 0, nswap := 0, cnswap := 0,
    exitSignal := 17, processor := 0, rtPriority := 0, policy := 0, tail := none }

theorem witnessThread_wf : witnessThread.WF := by unfold StatRec.WF; decide

/-- `7 (a) b) S 1 0 0 0 -1 0 0 0 0 0 300 400 0 0 20 0 1 0 5 0 … 17 0 0 0\n` -/
theorem witnessThread_bytes : renderStat witnessThread =
    [55, 32, 40, 97, 41, 32, 98, 41, 32, 83, 32, 49, 32, 48, 32, 48, 32, 48, 32, 45, 49, 32, 48, 32, 48,
     32, 48, 32, 48, 32, 48, 32, 51, 48, 48, 32, 52, 48, 48, 32, 48, 32, 48, 32, 50, 48, 32, 48, 32, 49, 32,
     48, 32, 53, 32, 48, 32, 48, 32, 48, 32, 48, 32, 48, 32, 48, 32, 48, 32, 48, 32, 48, 32, 48, 32, 48, 32,
     48, 32, 48, 32, 48, 32, 48, 32, 49, 55, 32, 48, 32, 48, 32, 48, 10] := by
  simp [renderStat, statTokens, witnessThread, joinWith, renderInt, renderDec, renderRadix,
    renderRadixAux, decimal]

/-- a process of uid/gid 1234 with one thread, named `nm` -/
def witnessStatus (nm : Bytes) : StatusRec :=
  { comm := nm, pre := [], uid := (1234, 1234, 1234, 1234), gid := (1234, 1234, 1234, 1234),
    mid1 := [], threads := 1, mid2 := [], vol := 0, nonvol := 0 }

theorem witnessStatus_wf (nm : Bytes) : (witnessStatus nm).WF := by
  intro kv h; simp [witnessStatus] at h

theorem dec_1234 : renderDec 1234 = [49, 50, 51, 52] := by
  simp [renderDec, renderRadix, renderRadixAux, decimal]
theorem dec_1 : renderDec 1 = [49] := by simp [renderDec, renderRadix, renderRadixAux, decimal]
theorem dec_0 : renderDec 0 = [48] := by simp [renderDec, renderRadix, renderRadixAux, decimal]

/-- the status file of `witnessStatus nm`, with the (escaped) name left symbolic -/
theorem witnessStatus_bytes (nm : Bytes) : renderStatus (witnessStatus nm) =
    [78, 97, 109, 101, 58, 9] ++ escName nm ++
    [10, 85, 105, 100, 58, 9, 49, 50, 51, 52, 9, 49, 50, 51, 52, 9, 49, 50, 51, 52, 9, 49, 50, 51, 52,
     10, 71, 105, 100, 58, 9, 49, 50, 51, 52, 9, 49, 50, 51, 52, 9, 49, 50, 51, 52, 9, 49, 50, 51, 52,
     10, 84, 104, 114, 101, 97, 100, 115, 58, 9, 49,
     10, 118, 111, 108, 117, 110, 116, 97, 114, 121, 95, 99, 116, 120, 116, 95, 115, 119, 105, 116, 99, 104, 101, 115, 58, 9, 48,
     10, 110, 111, 110, 118, 111, 108, 117, 110, 116, 97, 114, 121, 95, 99, 116, 120, 116, 95, 115, 119, 105, 116, 99, 104, 101, 115, 58, 9, 48,
     10] := by
  simp [renderStatus, statusLines, renderLines, statusLine, witnessStatus, idLine, tabbed, joinWith,
    keyName, keyUid, keyGid, keyThreads, keyVol, keyNonvol, ctxWord, dec_1234, dec_1, dec_0]

/-- `Uid:\t0\t0\t0` -/
def nameUid : Bytes := [85, 105, 100, 58, 9, 48, 9, 48, 9, 48]
/-- `Gid:\t0\t0\t0` -/
def nameGid : Bytes := [71, 105, 100, 58, 9, 48, 9, 48, 9, 48]
/-- `Threads:\t99` -/
def nameThreads : Bytes := [84, 104, 114, 101, 97, 100, 115, 58, 9, 57, 57]

/-- `a\rUid:\t0\t0\t0` -/
def nameCrUid : Bytes := [97, 13, 85, 105, 100, 58, 9, 48, 9, 48, 9, 48]


end Psutil.C06
