/-
  Proofs/C18Frame.lean — "a call on process `pid` touches nothing but the state of `pid`":
  frame lemmas for every syscall, native function and `_pslinux` method of Model/C18.lean.
-/
import PsutilModel.Proofs.C18
namespace Psutil.C18

/-- everything except the state of process `pid` (and the log) is the same in `k'` as in `k` -/
structure Frame (pid : Nat) (k k' : Kernel) : Prop where
  others : ∀ q, q ≠ pid → k'.procs q = k.procs q
  self : k'.self = k.self
  ncpu : k'.ncpu = k.ncpu
  nrOpen : k'.nrOpen = k.nrOpen
  cap : k'.capResource = k.capResource
  capNice : k'.capNice = k.capNice

theorem Frame.refl (pid : Nat) (k : Kernel) : Frame pid k k := ⟨fun _ _ => rfl, rfl, rfl, rfl, rfl, rfl⟩

theorem frame_setProc (k : Kernel) (pid : Nat) (st : PState) (e : Eff) : Frame pid k (setProc k pid st e) :=
  ⟨fun q hq => by simp [setProc, hq], rfl, rfl, rfl, rfl, rfl⟩

theorem resolve_pid (k : Kernel) {pid : Nat} (h : pid ≠ 0) : resolve k pid = pid := by simp [resolve, h]

theorem frame_sysSetpriority {k k' : Kernel} {pid : Nat} (h : pid ≠ 0) {v : Int}
    (hs : sysSetpriority k pid v = .ok k') : Frame pid k k' := by
  unfold sysSetpriority at hs
  rw [resolve_pid k h] at hs
  dsimp only at hs
  split at hs
  · cases hs
  · cases hs; exact frame_setProc _ _ _ _

theorem frame_sysIoprioSet {k k' : Kernel} {pid : Nat} (h : pid ≠ 0) {v : Nat}
    (hs : sysIoprioSet k pid v = .ok k') : Frame pid k k' := by
  unfold sysIoprioSet at hs
  rw [resolve_pid k h] at hs
  dsimp only at hs
  split at hs
  · split at hs
    · cases hs
    · cases hs; exact frame_setProc _ _ _ _
  · cases hs

theorem frame_sysSchedSetaffinity {k k' : Kernel} {pid : Nat} (h : pid ≠ 0) {m : List Nat}
    (hs : sysSchedSetaffinity k pid m = .ok k') : Frame pid k k' := by
  unfold sysSchedSetaffinity at hs
  rw [resolve_pid k h] at hs
  dsimp only at hs
  split at hs
  · cases hs
  · split at hs
    · cases hs
    · cases hs; exact frame_setProc _ _ _ _

theorem frame_sysPrlimitSet {k k' : Kernel} {pid : Nat} (h : pid ≠ 0) {r s hd : Nat}
    (hs : sysPrlimitSet k pid r s hd = .ok k') : Frame pid k k' := by
  unfold sysPrlimitSet at hs
  rw [resolve_pid k h] at hs
  dsimp only at hs
  split at hs
  · cases hs
  · split at hs
    · cases hs
    · split at hs
      · cases hs
      · split at hs
        · cases hs
        · cases hs; exact frame_setProc _ _ _ _

theorem frame_ofSys {α : Type} {x : Except Errno α} {a : α} (h : ofSys x = .ok a) : x = .ok a := by
  cases x <;> simp_all [ofSys]

theorem frame_niceSet (k : Kernel) {pid : Nat} (h : pid ≠ 0) (v : Int) : Frame pid k (niceSet k pid v).2 := by
  unfold niceSet
  split
  · rename_i k' hk
    unfold cextSetpriority at hk
    split at hk
    · exact frame_sysSetpriority h (frame_ofSys hk)
    · cases hk
  · exact Frame.refl _ _

theorem frame_ioniceSet (c : Cfg) (k : Kernel) {pid : Nat} (h : pid ≠ 0) (cls : Int) (v : Option Int) :
    Frame pid k (ioniceSet c k pid cls v).2 := by
  unfold ioniceSet
  simp only
  split
  · exact Frame.refl _ _
  · split
    · exact Frame.refl _ _
    · split
      · rename_i k' hk
        unfold cextIoprioSet at hk
        split at hk
        · cases hk
        · split at hk
          · cases hk
          · split at hk
            · cases hk
            · simp only at hk
              split at hk
              · exact frame_sysIoprioSet h (frame_ofSys hk)
              · cases hk
      · exact Frame.refl _ _

theorem frame_cpuAffinitySet (k : Kernel) {pid : Nat} (h : pid ≠ 0) (cpus : List Int) :
    Frame pid k (cpuAffinitySet k pid cpus).2 := by
  unfold cpuAffinitySet
  split
  · rename_i k' hk
    unfold cextAffinitySet at hk
    split at hk
    · cases hk
    · exact frame_sysSchedSetaffinity h (frame_ofSys hk)
  · split
    · split
      · exact Frame.refl _ _
      · split <;> exact Frame.refl _ _
    · exact Frame.refl _ _

theorem frame_rlimitL (c : Cfg) (k : Kernel) {pid : Nat} (h : pid ≠ 0) (res : Int) (l : Option (List Int)) :
    Frame pid k (rlimitL c k pid res l).2 := by
  unfold rlimitL
  split
  · exact Frame.refl _ _
  · split
    · split <;> exact Frame.refl _ _
    · split
      · exact Frame.refl _ _
      · split
        · rename_i k' hk
          unfold pyPrlimitSet at hk
          split at hk
          · cases hk
          · split at hk
            · split at hk
              · cases hk
              · split at hk
                · rename_i hk'
                  cases hk
                  exact frame_sysPrlimitSet h hk'
                · cases hk
                · cases hk
            · cases hk
        · exact Frame.refl _ _

theorem frame_step (c : Cfg) (k : Kernel) {pid : Nat} (h : pid ≠ 0) (req : Req) :
    Frame pid k (step c k pid req).2 := by
  cases req with
  | nice v =>
    cases v with
    | none => simp only [step, niceGet]; split <;> exact Frame.refl _ _
    | some v => exact frame_niceSet k h v
  | ionice cls v =>
    cases cls with
    | none =>
      cases v with
      | none => simp only [step, ioniceGet]; split <;> (try split) <;> exact Frame.refl _ _
      | some v => simp only [step, ioniceGet]; split <;> (try split) <;> (try split) <;> exact Frame.refl _ _
    | some cls => exact frame_ioniceSet c k h cls v
  | cpuAffinity cpus =>
    cases cpus with
    | none => simp only [step, cpuAffinity]; split <;> exact Frame.refl _ _
    | some cpus =>
      simp only [step, cpuAffinity]
      split
      · split
        · exact frame_cpuAffinitySet k h _
        · split
          · exact frame_cpuAffinitySet k h _
          · split
            · exact Frame.refl _ _
            · exact frame_cpuAffinitySet k h _
      · exact frame_cpuAffinitySet k h _
  | rlimit res l => exact frame_rlimitL c k h res l

end Psutil.C18
