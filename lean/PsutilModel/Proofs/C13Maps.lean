/-
  Proofs/C13Maps.lean — `memory_maps` over rendered smaps content: the block splitter cuts
  exactly at header lines and every row is the mapping's own.
-/
import PsutilModel.Proofs.C13Lines
namespace Psutil.C13
open Psutil Psutil.C13.Spec

/-- the facts (translator-extracted) under which the theorems are stated -/
structure Cfg.Good (c : Cfg) : Prop where
  statmOrder : c.statmOrder = [1, 0, 2, 3, 4, 5, 6]
  statmTake : c.statmTake = 7
  mapsKeys : c.mapsKeys = rowKeys.map (· ++ [58])
  mapsFactor : c.mapsFactor = 1024
  smapsFactor : c.smapsFactor = 1024
  rollupFactor : c.rollupFactor = 1024
  anonName : c.anonName = anon
  deletedSuffix : c.deletedSuffix = deletedMarker
  deletedCut : c.deletedCut = 10
  flagsPrefix : c.flagsPrefix = vmFlagsLabel
  rollupPrivate : c.rollupPrivate = [80, 114, 105, 118, 97, 116, 101, 95]
  rollupPss : c.rollupPss = kPss
  rollupSwap : c.rollupSwap = kSwap
  pmemFields : c.pmemFields = pmemNames
  pfullmemFields : c.pfullmemFields = pfullmemNames
  /-- `\nPrivate.*:\s+(\d+)` -/
  privatePat : c.privatePat = .lit 10 :: (Re.lits kPrivate ++ [.star .dot, .lit 58, .plus .ws, .cap .digit])
  /-- `\nPss\:\s+(\d+)` -/
  pssPat : c.pssPat = .lit 10 :: (Re.lits kPss ++ [.plus .ws, .cap .digit])
  /-- `\nSwap\:\s+(\d+)` -/
  swapPat : c.swapPat = .lit 10 :: (Re.lits kSwap ++ [.plus .ws, .cap .digit])
  /-- `_parse_smaps_rollup` is NOT wrapped by `@wrap_exceptions` -/
  rollupWrapped : c.rollupWrapped = false
  /-- `memory_percent` rejects by membership in `list(pfullmem._fields)` -/
  pctByMembership : c.pctByMembership = true
  /-- `int(x) * PAGESIZE`, `PAGESIZE = cext_posix.getpagesize()` -/
  statmFixedScale : c.statmFixedScale = none
  pagesizeFromSystem : c.pagesizeFromSystem = true
  /-- `except (ProcessLookupError, FileNotFoundError)` -/
  fallbackEnoent : c.fallbackEnoent = true
  fallbackEsrch : c.fallbackEsrch = true
  /-- statm is read after uss / pss / swap -/
  basicFirst : c.basicFirst = false
  /-- `if HAS_PROC_SMAPS_ROLLUP or HAS_PROC_SMAPS:` … `else: memory_full_info = memory_info`;
      `if HAS_PROC_SMAPS:` around `memory_maps` -/
  fullGuard : c.fullGuard = .rollupOrSmaps
  fullElseIsInfo : c.fullElseIsInfo = true
  mapsGuard : c.mapsGuard = .smaps

/-! ### one step of `get_blocks` -/

theorem blocks_kv (c : Cfg) (probe : Bytes → Probe) (line : Bytes) (rest : List Bytes) (cur : Bytes)
    (d : Dict) (k f1 : Bytes) (tl : List Bytes) (v : Nat)
    (hs : splitWsN 5 line = k :: f1 :: tl) (hk : endsWith [58] k = true) (hp : parseDec? f1 = some v) :
    blocks c probe (line :: rest) cur d = blocks c probe rest cur ((k, v * c.mapsFactor) :: d) := by
  simp [blocks, hs, hk, hp]

theorem blocks_flags (c : Cfg) (probe : Bytes → Probe) (line : Bytes) (rest : List Bytes) (cur : Bytes)
    (d : Dict) (k f1 : Bytes) (tl : List Bytes)
    (hs : splitWsN 5 line = k :: f1 :: tl) (hk : endsWith [58] k = true) (hp : parseDec? f1 = none)
    (hf : startsWith c.flagsPrefix k = true) :
    blocks c probe (line :: rest) cur d = blocks c probe rest cur d := by
  simp [blocks, hs, hk, hp, hf]

theorem blocks_hdr (c : Cfg) (probe : Bytes → Probe) (line : Bytes) (rest : List Bytes) (cur : Bytes)
    (d : Dict) (a : Bytes) (tl : List Bytes) (r : Row) (rs : List Row)
    (hs : splitWsN 5 line = a :: tl) (ha : endsWith [58] a = false)
    (hrow : mkRow c probe cur d = .ok r)
    (hrest : blocks c probe rest line (if c.dictPerBlock then [] else d) = .ok rs) :
    blocks c probe (line :: rest) cur d = .ok (r :: rs) := by
  simp [blocks, hs, ha, hrow, hrest]

/-! ### the dict after the key lines of one mapping -/

def dictOf (f : Nat) (kvs : List KV) (d : Dict) : Dict :=
  kvs.foldl (fun d e => (e.key ++ [58], e.val * f) :: d) d

theorem blocks_kvs (c : Cfg) (probe : Bytes → Probe) (kvs : List KV) (rest : List Bytes) (cur : Bytes)
    (d : Dict) (hk : ∀ e ∈ kvs, wfKey e.key = true) :
    blocks c probe (kvs.map kvLine ++ rest) cur d = blocks c probe rest cur (dictOf c.mapsFactor kvs d) := by
  induction kvs generalizing d with
  | nil => rfl
  | cons e t ih =>
    obtain ⟨tl, hs⟩ := split_kvLine e (hk e (by simp))
    simp only [List.map_cons, List.cons_append, dictOf, List.foldl_cons]
    rw [blocks_kv c probe _ _ cur d _ _ tl e.val hs (endsWith_key e.key) (parseDec_renderDec e.val)]
    exact ih _ (fun x hx => hk x (by simp [hx]))

theorem key_colon_beq (k k' : Bytes) : (k ++ [58] == k' ++ [58]) = (k == k') := by
  by_cases h : k = k'
  · subst h; simp
  · have : k ++ [58] ≠ k' ++ [58] := fun e => h (List.append_cancel_right e)
    simp [h, this]

theorem lookup_dictOf (f : Nat) (kvs : List KV) (d : Dict) (k : Bytes)
    (hnd : (kvs.map (·.key)).Nodup) :
    (dictOf f kvs d).lookup (k ++ [58])
      = match kvs.find? (fun e => e.key == k) with
        | some e => some (e.val * f)
        | none => d.lookup (k ++ [58]) := by
  induction kvs generalizing d with
  | nil => rfl
  | cons e t ih =>
    simp only [List.map_cons, List.nodup_cons] at hnd
    simp only [dictOf, List.foldl_cons]
    have ih' := ih ((e.key ++ [58], e.val * f) :: d) hnd.2
    simp only [dictOf] at ih'
    rw [ih']
    by_cases hk : e.key = k
    · subst hk
      have hnone : t.find? (fun e' => e'.key == e.key) = none := by
        rw [List.find?_eq_none]
        intro x hx hxe
        apply hnd.1
        have : x.key = e.key := by simpa using hxe
        rw [← this]
        exact List.mem_map_of_mem (f := (·.key)) hx
      simp [hnone, List.find?, List.lookup]
    · have hb : (e.key == k) = false := by simpa using hk
      have hb' : (k ++ [58] == e.key ++ [58]) = false := by
        rw [key_colon_beq]; simpa using fun e' => hk e'.symm
      simp only [List.find?, hb]
      cases t.find? (fun e' => e'.key == k) with
      | some e' => rfl
      | none => simp [List.lookup, hb']

/-- uniform keys: the dict never holds a key outside the common key list -/
def DictOK (K : List Bytes) (d : Dict) : Prop := ∀ k, k ∉ K → d.lookup (k ++ [58]) = none

theorem find_none_of_not_mem (kvs : List KV) (k : Bytes) (h : k ∉ kvs.map (·.key)) :
    kvs.find? (fun e => e.key == k) = none := by
  rw [List.find?_eq_none]
  intro x hx hxe
  apply h
  have : x.key = k := by simpa using hxe
  rw [← this]
  exact List.mem_map_of_mem (f := (·.key)) hx

theorem dictOK_dictOf (f : Nat) (kvs : List KV) (d : Dict) (hnd : (kvs.map (·.key)).Nodup)
    (hd : DictOK (kvs.map (·.key)) d) : DictOK (kvs.map (·.key)) (dictOf f kvs d) := by
  intro k hk
  rw [lookup_dictOf f kvs d k hnd, find_none_of_not_mem kvs k hk]
  exact hd k hk

theorem get_eq_find (m : Mapping) (k : Bytes) :
    m.get k = ((m.kv.find? (fun e => e.key == k)).map (·.val)).getD 0 := rfl

theorem mkNums_dictOf (c : Cfg) (hg : c.Good) (m : Mapping) (d : Dict)
    (hnd : (m.kv.map (·.key)).Nodup) (hd : DictOK (m.kv.map (·.key)) d) :
    mkNums c (dictOf c.mapsFactor m.kv d) = rowKeys.map fun k => 1024 * m.get k := by
  unfold mkNums
  rw [hg.mapsKeys, hg.mapsFactor, List.map_map]
  apply List.map_congr_left
  intro k _
  simp only [Function.comp]
  rw [lookup_dictOf 1024 m.kv d k hnd, get_eq_find]
  cases hf : m.kv.find? (fun e => e.key == k) with
  | some e => simp [Nat.mul_comm]
  | none =>
    have hk : k ∉ m.kv.map (·.key) := by
      intro hm
      obtain ⟨e, he, hek⟩ := List.mem_map.mp hm
      have := List.find?_eq_none.mp hf e he
      simp [hek] at this
    simp [hd k hk]

/-! ### the path -/

theorem isWs_of_isUWs {c : Nat} (h : isUWs c = false) : isWs c = false := by
  unfold isUWs at h
  simp only [Bool.or_eq_false_iff] at h
  exact h.1

theorem ulstrip_cons {c : Nat} {t : Bytes} (h : isUWs c = false) : ulstrip (c :: t) = c :: t := by
  simp [ulstrip, h]

theorem ustrip_id (c : Nat) (t : Bytes) (l : Nat) (r : Bytes) (hc : isUWs c = false)
    (hrev : (c :: t).reverse = l :: r) (hl : isUWs l = false) : ustrip (c :: t) = c :: t := by
  unfold ustrip
  rw [ulstrip_cons hc, hrev, ulstrip_cons hl, ← hrev, List.reverse_reverse]

theorem endsWith_append_self (p s : Bytes) : endsWith s (p ++ s) = true := by
  simp [endsWith, List.reverse_append]

theorem fixPath_shown (c : Cfg) (hg : c.Good) (probe : Bytes → Probe) (m : Mapping) (p : Bytes)
    (hp : m.path = some p) (hw : wfPath c.stripsPath p m.deleted = true)
    (hfs : fsConsistent probe m = true) :
    fixPath c probe (shownName p m.deleted) = .ok p := by
  unfold wfPath at hw
  cases p with
  | nil => simp at hw
  | cons c0 t =>
    simp only [Bool.and_eq_true, Bool.not_eq_true', Bool.or_eq_true] at hw
    obtain ⟨⟨hc0, _⟩, hlast⟩ := hw
    unfold fsConsistent at hfs
    simp only [hp] at hfs
    unfold fixPath
    rw [hg.deletedSuffix, hg.deletedCut]
    cases hdel : m.deleted
    · -- not deleted: the name is printed as is
      simp only [hdel, Bool.false_eq_true, if_false, Bool.or_false] at hfs hlast
      have hstrip : (if c.stripsPath = true then ustrip (shownName (c0 :: t) false) else shownName (c0 :: t) false)
          = c0 :: t := by
        simp only [shownName, Bool.false_eq_true, if_false]
        cases hs : c.stripsPath
        · simp
        · simp only [if_true]
          simp only [hs, or_false, Bool.true_eq_false, false_or] at hlast
          cases hr : (c0 :: t).reverse with
          | nil => simp at hr
          | cons l r =>
            rw [hr] at hlast
            exact ustrip_id c0 t l r hc0 hr (by simpa using hlast)
      simp only [hstrip]
      by_cases he : endsWith deletedMarker (c0 :: t) = true
      · have hpres : probe (c0 :: t) = .present := by
          simp only [he, Bool.not_true, Bool.false_or, beq_iff_eq] at hfs
          exact hfs
        simp [he, hpres]
      · simp [he]
    · -- deleted: "name (deleted)" is printed, and that file does not exist
      simp only [hdel, if_true, beq_iff_eq] at hfs
      have hsh : shownName (c0 :: t) true = c0 :: (t ++ deletedMarker) := by simp [shownName]
      have hstrip : (if c.stripsPath = true then ustrip (shownName (c0 :: t) true) else shownName (c0 :: t) true)
          = (c0 :: t) ++ deletedMarker := by
        rw [hsh]
        cases hs : c.stripsPath
        · simp
        · simp only [if_true]
          have hr : (c0 :: (t ++ deletedMarker)).reverse = 41 :: ([100, 101, 116, 101, 108, 101, 100, 40, 32] ++ (c0 :: t).reverse) := by
            simp [deletedMarker, List.reverse_append]
          rw [ustrip_id c0 (t ++ deletedMarker) 41 _ hc0 hr (by decide)]
          simp
      simp only [hstrip, endsWith_append_self, if_true, hfs]
      have : ((c0 :: t) ++ deletedMarker).length - 10 = (c0 :: t).length := by
        simp [deletedMarker]
      rw [this, List.take_left']
      rfl

theorem shown_head (p : Bytes) (deleted : Bool) (c0 : Nat) (t : Bytes) (h : p = c0 :: t) :
    ∃ t', shownName p deleted = c0 :: t' := by
  subst h
  cases deleted
  · exact ⟨t, rfl⟩
  · exact ⟨t ++ deletedMarker, rfl⟩

/-! ### a well-formed mapping, unpacked -/

structure WfM (strips : Bool) (K : List Bytes) (m : Mapping) : Prop where
  keys : m.kv.map (·.key) = K
  kv : ∀ e ∈ m.kv, wfKV e = true
  flags : ∀ fs, m.flags = some fs → wfFlags fs = true
  pathNone : m.path = none → m.deleted = false
  path : ∀ p, m.path = some p → wfPath strips p m.deleted = true

theorem wfMapping_spec {strips : Bool} {K : List Bytes} {m : Mapping}
    (h : wfMapping strips K m = true) : WfM strips K m := by
  unfold wfMapping at h
  simp only [Bool.and_eq_true, beq_iff_eq, List.all_eq_true] at h
  obtain ⟨⟨⟨hk, hkv⟩, hfl⟩, hp⟩ := h
  refine ⟨hk, hkv, ?_, ?_, ?_⟩
  · intro fs hfs; simpa [hfs] using hfl
  · intro hn; simpa [hn] using hp
  · intro p hpp; simpa [hpp] using hp

theorem wfKV_key {e : KV} (h : wfKV e = true) : wfKey e.key = true := by
  unfold wfKV at h
  simp only [Bool.and_eq_true] at h
  exact h.1.1

theorem mkRow_header (c : Cfg) (hg : c.Good) (probe : Bytes → Probe) (K : List Bytes) (m : Mapping)
    (d : Dict) (hw : WfM c.stripsPath K m) (hfs : fsConsistent probe m = true)
    (hn : mkNums c d = rowKeys.map fun k => 1024 * m.get k) :
    mkRow c probe (headerLine m) d = .ok (specRow m) := by
  unfold mkRow
  cases hp : m.path with
  | none =>
    rw [split_header_anon m hp]
    simp [specRow, hp, hn, hg.anonName]
  | some p =>
    have hwp := hw.path p hp
    have hwp' := hwp
    unfold wfPath at hwp'
    cases p with
    | nil => simp at hwp'
    | cons c0 t =>
      simp only [Bool.and_eq_true, Bool.not_eq_true'] at hwp'
      obtain ⟨t', ht'⟩ := shown_head (c0 :: t) m.deleted c0 t rfl
      rw [split_header_path m (c0 :: t) hp c0 t' ht' (isWs_of_isUWs hwp'.1.1)]
      simp only
      rw [fixPath_shown c hg probe m (c0 :: t) hp hwp hfs]
      simp [specRow, hp, hn]

/-! ### lines after the first header, the last one right-stripped -/

def flagLines (m : Mapping) : List Bytes := match m.flags with | none => [] | some fs => [flagsLine fs]
def flagLinesLast (m : Mapping) : List Bytes := match m.flags with | none => [] | some fs => [flagsBody fs]

def tailLines (m : Mapping) : List Bytes := m.kv.map kvLine ++ flagLines m
def tailLinesLast (m : Mapping) : List Bytes := m.kv.map kvLine ++ flagLinesLast m

def restLines : Mapping → List Mapping → List Bytes
  | m, [] => tailLinesLast m
  | m, m2 :: ms => tailLines m ++ headerLine m2 :: restLines m2 ms

theorem mappingLines_eq (m : Mapping) : mappingLines m = headerLine m :: tailLines m := by
  unfold mappingLines tailLines flagLines
  cases m.flags <;> rfl

theorem modLast_tailLines (m : Mapping) (hkv : m.kv ≠ [])
    (hfl : ∀ fs, m.flags = some fs → wfFlags fs = true) :
    modLast rstripWs (tailLines m) = tailLinesLast m := by
  unfold tailLines tailLinesLast flagLines flagLinesLast
  cases hf : m.flags with
  | none =>
    simp only [List.append_nil]
    rcases eq_nil_or_snoc m.kv with h | ⟨L, b, h⟩
    · exact absurd h hkv
    · rw [h, List.map_append, List.map_singleton, modLast_snoc, rstripWs_kvLine]
  | some fs =>
    simp only
    rw [modLast_snoc, rstripWs_flagsLine fs (hfl fs hf)]

theorem modLast_lines (m : Mapping) (ms : List Mapping)
    (hkv : ∀ x ∈ m :: ms, x.kv ≠ [])
    (hfl : ∀ x ∈ m :: ms, ∀ fs, x.flags = some fs → wfFlags fs = true) :
    modLast rstripWs ((m :: ms).flatMap mappingLines) = headerLine m :: restLines m ms := by
  induction ms generalizing m with
  | nil =>
    have hne : tailLines m ≠ [] := by
      unfold tailLines
      have := hkv m (by simp)
      intro h
      have := (List.append_eq_nil_iff.mp h).1
      simp at this
      contradiction
    simp only [List.flatMap_cons, List.flatMap_nil, List.append_nil, mappingLines_eq, restLines]
    rw [show headerLine m :: tailLines m = [headerLine m] ++ tailLines m from rfl,
      modLast_append _ _ _ hne, modLast_tailLines m (hkv m (by simp)) (hfl m (by simp))]
    rfl
  | cons m2 ms' ih =>
    have ih' := ih m2 (fun x hx => hkv x (by simp [hx])) (fun x hx => hfl x (by simp [hx]))
    have hne : (m2 :: ms').flatMap mappingLines ≠ [] := by
      simp [List.flatMap_cons, mappingLines_eq]
    rw [List.flatMap_cons, modLast_append _ _ _ hne, ih', mappingLines_eq]
    simp [restLines]

/-! ### the splitter over the lines of well-formed mappings -/

theorem blocks_flagLines (c : Cfg) (hg : c.Good) (probe : Bytes → Probe) (m : Mapping)
    (rest : List Bytes) (cur : Bytes) (d : Dict)
    (hfl : ∀ fs, m.flags = some fs → wfFlags fs = true) :
    blocks c probe (flagLines m ++ rest) cur d = blocks c probe rest cur d := by
  unfold flagLines
  cases hf : m.flags with
  | none => rfl
  | some fs =>
    obtain ⟨f1, tl, hs, hp⟩ := split_flagsLine fs (hfl fs hf)
    simp only [List.singleton_append]
    exact blocks_flags c probe _ rest cur d _ f1 tl hs (by decide) hp (by rw [hg.flagsPrefix]; decide)

theorem blocks_flagLinesLast (c : Cfg) (hg : c.Good) (probe : Bytes → Probe) (m : Mapping)
    (rest : List Bytes) (cur : Bytes) (d : Dict)
    (hfl : ∀ fs, m.flags = some fs → wfFlags fs = true) :
    blocks c probe (flagLinesLast m ++ rest) cur d = blocks c probe rest cur d := by
  unfold flagLinesLast
  cases hf : m.flags with
  | none => rfl
  | some fs =>
    obtain ⟨f1, tl, hs, hp⟩ := split_flagsBody fs (hfl fs hf)
    simp only [List.singleton_append]
    exact blocks_flags c probe _ rest cur d _ f1 tl hs (by decide) hp (by rw [hg.flagsPrefix]; decide)

theorem blocks_restLines (c : Cfg) (hg : c.Good) (probe : Bytes → Probe) (K : List Bytes)
    (hK : K.Nodup) (m : Mapping) (ms : List Mapping) (d : Dict)
    (hw : ∀ x ∈ m :: ms, WfM c.stripsPath K x) (hfs : ∀ x ∈ m :: ms, fsConsistent probe x = true)
    (hd : DictOK K d) :
    blocks c probe (restLines m ms) (headerLine m) d = .ok ((m :: ms).map specRow) := by
  induction ms generalizing m d with
  | nil =>
    have hm := hw m (by simp)
    have hkeys : ∀ e ∈ m.kv, wfKey e.key = true := fun e he => wfKV_key (hm.kv e he)
    have hnd : (m.kv.map (·.key)).Nodup := by rw [hm.keys]; exact hK
    have hd' : DictOK (m.kv.map (·.key)) d := by rw [hm.keys]; exact hd
    simp only [restLines, tailLinesLast]
    rw [blocks_kvs c probe m.kv _ _ d hkeys]
    have := blocks_flagLinesLast c hg probe m [] (headerLine m) (dictOf c.mapsFactor m.kv d) hm.flags
    rw [List.append_nil] at this
    rw [this]
    simp only [blocks]
    rw [mkRow_header c hg probe K m _ hm (hfs m (by simp)) (mkNums_dictOf c hg m d hnd hd')]
    rfl
  | cons m2 ms' ih =>
    have hm := hw m (by simp)
    have hkeys : ∀ e ∈ m.kv, wfKey e.key = true := fun e he => wfKV_key (hm.kv e he)
    have hnd : (m.kv.map (·.key)).Nodup := by rw [hm.keys]; exact hK
    have hd' : DictOK (m.kv.map (·.key)) d := by rw [hm.keys]; exact hd
    have hdo : DictOK K (dictOf c.mapsFactor m.kv d) := by
      have := dictOK_dictOf c.mapsFactor m.kv d hnd hd'
      rwa [hm.keys] at this
    simp only [restLines, tailLines, List.append_assoc]
    rw [blocks_kvs c probe m.kv _ _ d hkeys, blocks_flagLines c hg probe m _ _ _ hm.flags]
    have hrow := mkRow_header c hg probe K m _ hm (hfs m (by simp)) (mkNums_dictOf c hg m d hnd hd')
    have hnext : DictOK K (if c.dictPerBlock then [] else dictOf c.mapsFactor m.kv d) := by
      cases c.dictPerBlock
      · simpa using hdo
      · intro k _; rfl
    have ih' := ih m2 _ (fun x hx => hw x (by simp [hx])) (fun x hx => hfs x (by simp [hx])) hnext
    have hsplit : ∃ tl, splitWsN 5 (headerLine m2) = addrStr m2 :: tl := by
      have hm2 := hw m2 (by simp)
      cases hp : m2.path with
      | none => exact ⟨_, split_header_anon m2 hp⟩
      | some p =>
        have hwp := hm2.path p hp
        unfold wfPath at hwp
        cases p with
        | nil => simp at hwp
        | cons c0 t =>
          simp only [Bool.and_eq_true, Bool.not_eq_true'] at hwp
          obtain ⟨t', ht'⟩ := shown_head (c0 :: t) m2.deleted c0 t rfl
          exact ⟨_, split_header_path m2 (c0 :: t) hp c0 t' ht' (isWs_of_isUWs hwp.1.1)⟩
    obtain ⟨tl, hs⟩ := hsplit
    rw [blocks_hdr c probe _ _ _ _ _ tl _ _ hs (addr_no_colon_end m2) hrow ih']
    rfl

end Psutil.C13
