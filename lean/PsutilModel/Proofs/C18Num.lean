/-
  Proofs/C18Num.lean — a CPU number held in a C long is the number itself: `stepPyN 64` is
  `stepPyW` (seeded round 5, change C01-7).
-/
import PsutilModel.Model.C18Num
namespace Psutil.C18

theorem two_pow_64 : (2 : Int) ^ 64 = 18446744073709551616 := by decide

/-- storing a number of the C long range into a 64-bit signed integer keeps it -/
theorem wrapS_long {v : Int} (h : fitsCLong v = true) : wrapS 64 v = v := by
  have h' := of_decide_eq_true h
  unfold wrapS
  simp only [two_pow_64]
  split <;> omega

theorem heldAs_long (v : Int) : heldAs 64 v = v := by
  unfold heldAs
  split
  · next h => exact wrapS_long h
  · rfl

theorem map_heldAs_long (l : List Int) : l.map (heldAs 64) = l := by
  induction l with
  | nil => rfl
  | cons a t ih => simp only [List.map, heldAs_long, ih]

theorem cpuAffinitySetN_long (c : Cfg) (elig : Option (List Nat)) (k : Kernel) (pid who : Nat) (cpus : List Int) :
    cpuAffinitySetN 64 c elig k pid who cpus = cpuAffinitySetW c elig k pid who cpus := by
  unfold cpuAffinitySetN cpuAffinitySetW
  rw [map_heldAs_long]
  cases cextAffinitySetP c.affSetChecks k who cpus <;> rfl

theorem cpuAffinityN_long (c : Cfg) (k : Kernel) (pid whoGet whoSet : Nat) (x : Ctx) (cpus : Option (List Int)) :
    cpuAffinityN 64 c k pid whoGet whoSet x cpus = cpuAffinityW c k pid whoGet whoSet x cpus := by
  cases cpus with
  | none => rfl
  | some l =>
    cases h1 : l.isEmpty <;> cases h2 : c.emptyAsksCount <;> cases h3 : c.emptyAsksAll <;>
      cases h4 : getEligibleCpusX k pid x.statusMask <;>
      simp [cpuAffinityN, cpuAffinityW, cpuAffinitySetN_long, h1, h2, h3, h4]

theorem stepXN_long (c : Cfg) (rt : Routing) (o : Origin) (k : Kernel) (pid : Nat) (x : Ctx) (r : Req) :
    stepXN 64 c rt o k pid x r = stepXW c rt o k pid x r := by
  unfold stepXN
  split
  · simp only [stepXW, cpuAffinityN_long]
  · rfl

theorem stepPyCoreN_long (c : Cfg) (rt : Routing) (o : Origin) (k : Kernel) (pid : Nat) (x : Ctx) (r : PyReq) :
    stepPyCoreN 64 c rt o k pid x r = stepPyCoreW c rt o k pid x r := by
  unfold stepPyCoreN stepPyCoreW
  split
  · simp only [cpuAffinitySetN_long]
  · rfl
  · simp only [stepXN_long]

/-- the native setter holding CPU numbers in a C long: exactly the model of the earlier rounds -/
theorem stepPyN_long (c : Cfg) (rt : Routing) (o : Origin) (k : Kernel) (pid : Nat) (x : Ctx) (r : PyReq) :
    stepPyN 64 c rt o k pid x r = stepPyW c rt o k pid x r := by
  unfold stepPyN stepPyW
  rw [stepPyCoreN_long]

end Psutil.C18
