/-
  Proofs/C13GroupSpec.lean — `specGrouped` (the grouped view the driver prints as SPEC) as a finite map.
-/
import PsutilModel.Proofs.C13Misc
namespace Psutil.C13
open Psutil Psutil.C13.Spec

theorem mem_distinctPaths (l : List Bytes) (q : Bytes) : q ∈ distinctPaths l ↔ q ∈ l := by
  induction l with
  | nil => simp [distinctPaths]
  | cons a t ih =>
    simp only [distinctPaths, List.mem_cons, List.mem_filter, ih, bne_iff_ne]
    constructor
    · rintro (h | ⟨h, _⟩)
      · exact Or.inl h
      · exact Or.inr h
    · rintro (h | h)
      · exact Or.inl h
      · by_cases hq : q = a
        · exact Or.inl hq
        · exact Or.inr ⟨h, hq⟩

theorem nodup_distinctPaths (l : List Bytes) : (distinctPaths l).Nodup := by
  induction l with
  | nil => simp [distinctPaths]
  | cons a t ih =>
    simp only [distinctPaths, List.nodup_cons, List.mem_filter, bne_iff_ne]
    exact ⟨fun h => h.2 rfl, ih.filter _⟩

theorem lookup_map_pair (ks : List Bytes) (f : Bytes → List Nat) (q : Bytes) :
    (ks.map fun p => (p, f p)).lookup q = if q ∈ ks then some (f q) else none := by
  induction ks with
  | nil => rfl
  | cons a t ih =>
    simp only [List.map_cons, List.lookup, List.mem_cons]
    cases hq : (q == a) with
    | true =>
      have : q = a := by simpa using hq
      simp [this]
    | false =>
      have hne : q ≠ a := by simpa using hq
      simp only [ih, hne, false_or]

theorem specGrouped_lookup (w : Nat) (rows : List Row) (p : Bytes) :
    (specGrouped w rows).lookup p
      = if p ∈ rows.map (·.path) then some ((List.range w).map fun i => specGroupedField rows p i) else none := by
  unfold specGrouped
  rw [lookup_map_pair (distinctPaths (rows.map (·.path))) (fun p => (List.range w).map fun i => specGroupedField rows p i) p]
  simp only [mem_distinctPaths]

theorem specGrouped_keys_nodup (w : Nat) (rows : List Row) : ((specGrouped w rows).map (·.1)).Nodup := by
  unfold specGrouped
  rw [List.map_map]
  have : (distinctPaths (rows.map (·.path))).map ((fun g : GRow => g.1) ∘ fun p => (p, (List.range w).map fun i => specGroupedField rows p i))
      = distinctPaths (rows.map (·.path)) := List.map_id'' (fun _ => rfl) _
  rw [this]
  exact nodup_distinctPaths _

end Psutil.C13
