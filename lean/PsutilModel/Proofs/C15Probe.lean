/-
  Proofs/C15Probe.lean — seeded round 5: a wait that polls with `os.kill(pid, 0)` does not depend on
  what the procfs view shows (simulation of `waitPidV` / `procWaitV` / `popenWaitV` / `checkGoneV`
  by the view-free model of Model/C15.lean), and a wait that polls the procfs view returns early.
-/
import PsutilModel.Proofs.C15R3
import PsutilModel.Model.C15Probe
namespace Psutil.C15
open Spec

/-! ### asking `kill` = the view-free model -/

theorem pollNonChildP_eq (c : Cfg) (env : Env) (pid : Nat) (timeout : Option Rat) (stopAt : Rat) :
    ∀ (fuel : Nat) (s : St),
      pollNonChildP c (fun now => env.pidExists now) pid timeout stopAt fuel s =
        pollNonChild c env pid timeout stopAt fuel s := by
  intro fuel
  induction fuel with
  | zero => intro s; rfl
  | succ n ih =>
    intro s
    rw [pollNonChildP, pollNonChild]
    simp only [ih]
    rfl

theorem waitLoopP_eq (c : Cfg) (env : Env) (pid : Nat) (timeout : Option Rat) (stopAt : Rat) :
    ∀ (fuel : Nat) (s : St),
      waitLoopP c env (fun now => env.pidExists now) pid timeout stopAt fuel s =
        waitLoop c env pid timeout stopAt fuel s := by
  intro fuel
  induction fuel with
  | zero => intro s; rfl
  | succ n ih =>
    intro s
    rw [waitLoopP, waitLoop]
    simp only [ih, pollNonChildP_eq]
    rfl

theorem waitPidV_kill (c : Cfg) (env : Env) (view : View) (pid : Int) (timeout : Option Rat) (fuel : Nat)
    (now : Rat) (nWait : Nat) :
    waitPidV c .kill env view pid timeout fuel now nWait = waitPidI c env pid timeout fuel now nWait := by
  unfold waitPidV waitPidI
  simp only [Probe.ask, waitLoopP_eq]

theorem procWaitV_kill (c : Cfg) (env : Env) (view : View) (timeout : Option Rat) (fuel : Nat) (now : Rat)
    (p : PObj) :
    procWaitV c .kill env view timeout fuel now p = procWaitI c env timeout fuel now p := by
  unfold procWaitV procWaitI
  simp only [waitPidV_kill]
  rfl

theorem popenWaitG_procWait (c : Cfg) (env : Env) (timeout : Option Rat) (fuel : Nat) (now : Rat)
    (q : PopenObj) :
    popenWaitG c (procWait c env timeout fuel now) timeout now q = popenWait c env timeout fuel now q := rfl

theorem popenWaitV_kill {c : Cfg} (h0 : c.pidRejectsZero = true) (hpos : c.pidRejectsPos = false)
    (env : Env) (view : View) (timeout : Option Rat) (fuel : Nat) (now : Rat) (q : PopenObj) :
    popenWaitV c .kill env view timeout fuel now q = popenWait c env timeout fuel now q := by
  have e : procWaitV c .kill env view timeout fuel now = procWait c env timeout fuel now := by
    funext p
    rw [procWaitV_kill, procWaitI_eq h0 hpos]
  unfold popenWaitV
  rw [e, popenWaitG_procWait]

/-! ### one `check_gone` of `wait_procs` -/

theorem pidExists_false_of_endedBy {env : Env} {t : Rat} (h : endedBy env t) : env.pidExists t = false := by
  cases hx : env.pidExists t with
  | false => rfl
  | true => exact absurd h (not_endedBy_of_exists hx)

/-- under the loop invariant of `wait_procs` (every cached exit code is a true one), a `check_gone`
    whose wait polls with `kill` does the same whatever the procfs views show: `is_running()` is asked
    only after `wait()` returned None, i.e. once the kernel says the process is gone, and a view never
    lists what the kernel does not have -/
theorem checkGoneV_kill {c : Cfg} (hg : c.Good) (h0 : c.pidRejectsZero = true) (hpos : c.pidRejectsPos = false)
    (envOf : Nat → Env) (viewOf : Nat → View) (hasCb : Bool) (fuel : Nat) (input : List Nat)
    (w : WP) (pid : Nat) (t : Rat) (ht : 0 ≤ t) (hi : Inv envOf hasCb input w) :
    checkGoneV c .kill envOf viewOf hasCb fuel w pid t = checkGone c envOf hasCb fuel w pid t := by
  have hc : ∀ v, ({ w.objs pid with pid := pid } : PObj).exitcode = some v →
      RightVal (envOf pid) v ∧ endedBy (envOf pid) w.now := fun v hv => hi.cache pid v hv
  unfold checkGoneV
  simp only [procWaitV_kill, procWaitI_eq h0 hpos]
  generalize hr : procWait c (envOf pid) (some t) fuel w.now { w.objs pid with pid := pid } = r
  obtain ⟨_, _, _, f4, _, f6, _, _⟩ :=
    procWait_facts hg (envOf pid) t fuel w.now { w.objs pid with pid := pid } ht hc r hr
  rw [checkGone_eq c envOf hasCb fuel w pid t r hr]
  cases ho : r.out with
  | none =>
    have hpe : (envOf pid).pidExists r.now = false := pidExists_false_of_endedBy (f4 none (f6 ho)).2
    simp [Env.listed, Env.running, hpe, afterWait]
  | code cc => simp [afterWait]
  | timeout a b => simp [afterWait]
  | valueError => simp
  | hang => simp
  | outOfFuel => simp

/-! ### asking the procfs view: the witness of the seeded change -/

/-- some other process (not a child) that never ends … -/
def hiddenEnv : Env := ⟨.nonChild, none, fun _ => false⟩
/-- … and a procfs view that does not list it (hidepid / `PROCFS_PATH` pointed elsewhere) -/
def hiddenView : View := fun _ => false

/-- `wait_pid(8, timeout=0)` polling the procfs view: None at once, for a process that is alive -/
theorem hidden_run (c : Cfg) (h0 : c.pidRejectsPos = false) :
    (waitPidV c .procfs hiddenEnv hiddenView 8 (some 0) 1 0 0).1 = .none ∧
    (waitPidV c .procfs hiddenEnv hiddenView 8 (some 0) 1 0 0).2.now = 0 := by
  simp [waitPidV, pidRefused, h0, waitLoopP, pollNonChildP, Probe.ask, Env.listed, hiddenEnv, hiddenView]

/-! ### the whole `wait_procs`: asking `kill`, the loops over `checkGoneV` are the view-free loops -/

section
variable {c : Cfg} (hg : c.Good) (h0 : c.pidRejectsZero = true) (hpos : c.pidRejectsPos = false)
  (envOf : Nat → Env) (viewOf : Nat → View) (hasCb : Bool) (fuel : Nat) (input : List Nat)
include hg h0 hpos

theorem passNV_kill (t : Rat) (ht : 0 ≤ t) :
    ∀ (l : List Nat) (w : WP), Inv envOf hasCb input w → l.Nodup →
      (∀ q ∈ l, q ∉ w.gone ∧ q ∈ input) →
      passNV c .kill envOf viewOf hasCb fuel t l w = passN c envOf hasCb fuel t l w := by
  intro l
  induction l with
  | nil => intro w _ _ _; rfl
  | cons pid rest ih =>
    intro w hi hnd hl
    simp only [passNV, passN]
    rw [checkGoneV_kill hg h0 hpos envOf viewOf hasCb fuel input w pid t ht hi]
    cases hcg : checkGone c envOf hasCb fuel w pid t with
    | error o => rfl
    | ok w1 =>
      simp only
      obtain ⟨hn, hin⟩ := hl pid (by simp)
      obtain ⟨i1, _, s2, _, _, _⟩ := checkGone_step hg envOf hasCb fuel input w w1 pid t ht hi hn hin hcg
      have hnd' := (List.nodup_cons.1 hnd)
      have hl' : ∀ q ∈ rest, q ∉ w1.gone ∧ q ∈ input := by
        intro q hq
        refine ⟨fun hq1 => ?_, (hl q (by simp [hq])).2⟩
        rcases s2 q hq1 with h' | h'
        · exact (hl q (by simp [hq])).1 h'
        · subst h'; exact hnd'.1 hq
      exact ih w1 i1 hnd'.2 hl'

theorem passTV_kill (deadline maxT : Rat) :
    ∀ (l : List Nat) (w : WP) (tmo : Rat), Inv envOf hasCb input w → l.Nodup →
      (∀ q ∈ l, q ∉ w.gone ∧ q ∈ input) →
      passTV c .kill envOf viewOf hasCb fuel deadline maxT l w tmo =
        passT c envOf hasCb fuel deadline maxT l w tmo := by
  intro l
  induction l with
  | nil => intro w tmo _ _ _; rfl
  | cons pid rest ih =>
    intro w tmo hi hnd hl
    simp only [passTV, passT]
    by_cases hbreak : rmin (deadline - w.now) maxT ≤ 0
    · simp only [hbreak, if_true]
    · simp only [hbreak, if_false]
      have htpos : 0 ≤ rmin (deadline - w.now) maxT := le_of_lt (lt_of_not_ge hbreak)
      rw [checkGoneV_kill hg h0 hpos envOf viewOf hasCb fuel input w pid _ htpos hi]
      cases hcg : checkGone c envOf hasCb fuel w pid (rmin (deadline - w.now) maxT) with
      | error o => rfl
      | ok w1 =>
        simp only
        obtain ⟨hn, hin⟩ := hl pid (by simp)
        obtain ⟨i1, _, s2, _, _, _⟩ :=
          checkGone_step hg envOf hasCb fuel input w w1 pid _ htpos hi hn hin hcg
        have hnd' := (List.nodup_cons.1 hnd)
        have hl' : ∀ q ∈ rest, q ∉ w1.gone ∧ q ∈ input := by
          intro q hq
          refine ⟨fun hq1 => ?_, (hl q (by simp [hq])).2⟩
          rcases s2 q hq1 with h' | h'
          · exact (hl q (by simp [hq])).1 h'
          · subst h'; exact hnd'.1 hq
        exact ih w1 _ i1 hnd'.2 hl'

variable (order : Nat → List Nat → List Nat) (hperm : ∀ k l, (order k l).Perm l)
include hperm

theorem whileTV_kill (deadline : Rat) :
    ∀ (k : Nat) (alive : List Nat) (w : WP) (tmo : Rat),
      LInv envOf hasCb input w alive → w.now < deadline + Spec.cap →
      whileTV c .kill envOf viewOf hasCb fuel order deadline k alive w tmo =
        whileT c envOf hasCb fuel order deadline k alive w tmo := by
  intro k
  induction k with
  | zero => intro alive w tmo _ _; rfl
  | succ k ih =>
    intro alive w tmo hl hd
    simp only [whileTV, whileT]
    by_cases he : alive.isEmpty = true
    · simp only [he, if_true]
    · simp only [he, Bool.false_eq_true, if_false]
      by_cases ht : tmo ≤ 0
      · simp only [ht, if_true]
      · simp only [ht, if_false]
        obtain ⟨hnd, hmem⟩ := order_ok envOf hasCb input hl (hperm w.calls.length alive)
        rw [passTV_kill hg h0 hpos envOf viewOf hasCb fuel input deadline _ _ w tmo hl.1 hnd hmem]
        cases hp : passT c envOf hasCb fuel deadline (maxTimeout c alive) (order w.calls.length alive) w tmo with
        | error o => rfl
        | ok r =>
          obtain ⟨w1, tmo1⟩ := r
          simp only
          obtain ⟨i1, s1, _, _, d1⟩ :=
            passT_inv hg envOf hasCb fuel input deadline _ _ w w1 tmo tmo1 hl.1 hnd hmem hd hp
          exact ih _ w1 tmo1 (linv_next envOf hasCb input hl i1 s1) d1

theorem whileNV_kill :
    ∀ (k : Nat) (alive : List Nat) (w : WP), LInv envOf hasCb input w alive →
      whileNV c .kill envOf viewOf hasCb fuel order k alive w = whileN c envOf hasCb fuel order k alive w := by
  intro k
  induction k with
  | zero => intro alive w _; rfl
  | succ k ih =>
    intro alive w hl
    simp only [whileNV, whileN]
    by_cases he : alive.isEmpty = true
    · simp only [he, if_true]
    · simp only [he, Bool.false_eq_true, if_false]
      obtain ⟨hnd, hmem⟩ := order_ok envOf hasCb input hl (hperm w.calls.length alive)
      have hpos' : 0 ≤ maxTimeout c alive := by
        unfold maxTimeout
        apply div_nonneg <;> exact Nat.cast_nonneg _
      rw [passNV_kill hg h0 hpos envOf viewOf hasCb fuel input _ hpos' _ w hl.1 hnd hmem]
      cases hp : passN c envOf hasCb fuel (maxTimeout c alive) (order w.calls.length alive) w with
      | error o => rfl
      | ok w1 =>
        simp only
        obtain ⟨i1, s1, _, _, _⟩ := passN_inv hg envOf hasCb fuel input _ hpos' _ w w1 hl.1 hnd hmem hp
        exact ih _ w1 (linv_next envOf hasCb input hl i1 s1)

theorem lastAttemptV_kill (alive : List Nat) (w : WP) (hl : LInv envOf hasCb input w alive) :
    lastAttemptV c .kill envOf viewOf hasCb fuel order alive w = lastAttempt c envOf hasCb fuel order alive w := by
  unfold lastAttemptV lastAttempt
  by_cases he : alive.isEmpty = true
  · simp only [he, if_true]
  · simp only [he, Bool.false_eq_true, if_false]
    obtain ⟨hnd, hmem⟩ := order_ok envOf hasCb input hl (hperm w.calls.length alive)
    rw [passNV_kill hg h0 hpos envOf viewOf hasCb fuel input 0 (le_refl _) _ w hl.1 hnd hmem]
    rfl

end

/-- `wait_procs` from a fresh state: whatever the procfs views show, the run is the view-free run -/
theorem waitProcsV_kill {c : Cfg} (hg : c.Good) (h0 : c.pidRejectsZero = true) (hpos : c.pidRejectsPos = false)
    (envOf : Nat → Env) (viewOf : Nat → View) (hasCb : Bool) (fuel : Nat)
    (order : Nat → List Nat → List Nat) (hperm : ∀ k l, (order k l).Perm l)
    (procs : List Nat) (timeout : Option Rat) (w : WP) (hf : Fresh envOf w) :
    waitProcsV c .kill envOf viewOf procs timeout hasCb order fuel w =
      waitProcs c envOf procs timeout hasCb order fuel w := by
  obtain ⟨hg0, hcb0, hs0, hc0⟩ := hf
  have hl0 : LInv envOf hasCb (dedup procs) w (dedup procs) := by
    refine ⟨⟨by rw [hg0]; simp, by rw [hcb0, hg0]; simp, by rw [hg0]; simp, by rw [hg0]; simp, hc0,
        by rw [hs0]; simp, by rw [hs0, hcb0]; simp⟩,
      nodup_dedup procs, fun q => by rw [hg0]; simp⟩
  unfold waitProcsV waitProcs
  by_cases hneg : negative timeout = true
  · simp [hneg]
  · simp only [hneg, Bool.false_eq_true, if_false]
    cases ht : timeout with
    | some τ =>
      simp only
      have hτ : 0 ≤ τ := by
        rw [ht] at hneg; simp [negative] at hneg; exact hneg
      rw [whileTV_kill hg h0 hpos envOf viewOf hasCb fuel (dedup procs) order hperm (w.now + τ) fuel _ w τ hl0
        (by linarith [cap_pos])]
      cases hw : whileT c envOf hasCb fuel order (w.now + τ) fuel (dedup procs) w τ with
      | error o => rfl
      | ok r =>
        obtain ⟨w1, alive1⟩ := r
        simp only
        obtain ⟨l1, _, _⟩ := whileT_inv hg envOf hasCb fuel (dedup procs) order hperm (w.now + τ)
          fuel _ w τ w1 alive1 hl0 (by linarith [cap_pos]) hw
        exact lastAttemptV_kill hg h0 hpos envOf viewOf hasCb fuel (dedup procs) order hperm alive1 w1 l1
    | none =>
      simp only
      rw [whileNV_kill hg h0 hpos envOf viewOf hasCb fuel (dedup procs) order hperm fuel _ w hl0]
      cases hw : whileN c envOf hasCb fuel order fuel (dedup procs) w with
      | error o => rfl
      | ok r =>
        obtain ⟨w1, alive1⟩ := r
        simp only
        obtain ⟨l1, _, _⟩ := whileN_inv hg envOf hasCb fuel (dedup procs) order hperm
          fuel _ w w1 alive1 hl0 hw
        exact lastAttemptV_kill hg h0 hpos envOf viewOf hasCb fuel (dedup procs) order hperm alive1 w1 l1

end Psutil.C15
