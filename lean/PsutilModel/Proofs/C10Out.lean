/-
  Proofs/C10Out.lean — helper lemmas for the output-level / kernel-listing-level statements
  `C10_outputs_monotone` and `C10_floor_sound` (Props/C10.lean).
-/
import PsutilModel.Proofs.C10Front
import PsutilModel.Spec.C10Out
namespace Psutil.C10
open Spec

/-- one step of the promise: listed in two consecutive snapshots ⇒ no counter decreases -/
theorem valueAt_step (snaps : List Raw) (r1 r2 : Raw) (k : Key) (v1 v2 : List Nat) (i : Nat)
    (h1 : r1.lookup k = some v1) (h2 : r2.lookup k = some v2)
    (hi1 : i < v1.length) (hi2 : i < v2.length) :
    valueAt (r1 :: snaps) k i ≤ valueAt (r2 :: r1 :: snaps) k i := by
  simp only [valueAt, expectedTuple, epochVals_cons_some h2, epochVals_cons_some h1, Option.getD_some,
    List.getD_eq_getElem?_getD, List.getElem?_mapIdx, hi1, hi2, List.getElem?_eq_getElem,
    Option.map_some, wrapSum, tupleAt]
  by_cases hlt : v2[i] < v1[i]
  · simp [hlt]
  · simp [hlt]; omega

/-- … and along any chain of snapshots that all list the device -/
theorem valueAt_chain (w : Nat) (k : Key) (i : Nat) (hi : i < w) (snaps : List Raw) (r1 : Raw)
    (o1 : List Nat) (hr1 : RawW w r1) (h1 : r1.lookup k = some o1) :
    ∀ (S : List Raw), (∀ r ∈ S, r.lookup k ≠ none ∧ RawW w r) → ∀ (r2 : Raw) (o2 : List Nat),
      RawW w r2 → r2.lookup k = some o2 →
      valueAt (r1 :: snaps) k i ≤ valueAt (r2 :: (S ++ r1 :: snaps)) k i := by
  intro S
  induction S with
  | nil =>
    intro _ r2 o2 hr2 h2
    have l1 : i < o1.length := by have := hr1 _ (mem_of_lookup h1); simp only at this; omega
    have l2 : i < o2.length := by have := hr2 _ (mem_of_lookup h2); simp only at this; omega
    exact valueAt_step snaps r1 r2 k o1 o2 i h1 h2 l1 l2
  | cons s S' ih =>
    intro hS r2 o2 hr2 h2
    obtain ⟨hs, hsw⟩ := hS s (by simp)
    cases hso : s.lookup k with
    | none => exact absurd hso hs
    | some os =>
      have a := ih (fun r hr => hS r (by simp [hr])) s os hsw hso
      have l1 : i < os.length := by have := hsw _ (mem_of_lookup hso); simp only at this; omega
      have l2 : i < o2.length := by have := hr2 _ (mem_of_lookup h2); simp only at this; omega
      have b := valueAt_step (S' ++ r1 :: snaps) s r2 k os o2 i hso h2 l1 l2
      exact Nat.le_trans a b

theorem lookup_map_val (g : Key → List Nat → List Nat) (l : Raw) (k : Key) :
    (l.map fun kv => (kv.1, g kv.1 kv.2)).lookup k = (l.lookup k).map (g k) := by
  induction l with
  | nil => rfl
  | cons a as ih =>
    obtain ⟨ak, av⟩ := a
    by_cases hk : k = ak
    · subst hk; simp [List.lookup]
    · have hb : (k == ak) = false := by simpa using hk
      simp only [List.map_cons, List.lookup, hb]; exact ih

/-- the entry of a listed device in the promised dict: same width as the raw tuple, field `i` is `valueAt` -/
theorem lookup_expected (h : List Op) (n : Name) (raw : Raw) (k : Key) (v : List Nat)
    (hl : raw.lookup k = some v) :
    ∃ v', (expected h n raw).lookup k = some v' ∧ v'.length = v.length
      ∧ ∀ i, tupleAt v' i = valueAt (raw :: snapsOf n h) k i := by
  refine ⟨v.mapIdx fun i x => x + wrapSum i (epochVals k (raw :: snapsOf n h)), ?_, by simp, ?_⟩
  · have := lookup_map_val (fun k' v' => (expectedTuple (raw :: snapsOf n h) k').getD v') raw k
    simp only [expected]
    rw [this, hl]
    simp [expectedTuple, epochVals_cons_some hl]
  · intro i
    simp [valueAt, tupleAt, expectedTuple, epochVals_cons_some hl]

theorem platRaw_net (c : Cfg) (pd : Bool) (l : Listing) :
    platRaw c .net pd l = l.map fun e => (e.1, e.2.2) := by
  have : ∀ l : Listing, l.filter (fun _ => true) = l := fun l => List.filter_eq_self.mpr (by simp)
  simp [platRaw, this]

/-- a call that lands in the slot of `fn`'s per-device form is a call of `fn`, and for the disk
    function (whose forms have separate slots) a per-device one -/
theorem slotOf_eq_perdev (c : Cfg) (hf : c.formsSeparate = true) (f fn : Fn) (pd : Bool)
    (h : slotOf c f pd = slotOf c fn true) : f = fn ∧ (f = .disk → pd = true) := by
  cases f <;> cases fn <;> cases pd <;> simp [slotOf, hf] at h ⊢

/-- a device the kernel lists is handed to `wrap_numbers` by every form that shares the per-device
    form's slot (the Linux whole-disk filter only applies to the system-wide disk form) -/
theorem platRaw_lookup_listed (c : Cfg) (f : Fn) (pd : Bool) (l : Listing) (k : Key)
    (hpd : f = .disk → pd = true) (h : ∃ e ∈ l, e.1 = k) : (platRaw c f pd l).lookup k ≠ none := by
  have key : platRaw c f pd l = l.map fun e => (e.1, e.2.2) := by
    cases f with
    | net => exact platRaw_net c pd l
    | disk => rw [hpd rfl]; exact platRaw_perdev c .disk l
  obtain ⟨o, ho⟩ := lookup_listed l k h
  rw [key, ho]; simp

/-- the `nowrap=True` snapshots that the operations `mid` add to the slot of `fn`'s per-device form
    all list a device that stays present, and nothing is forgotten -/
theorem snaps_mid (c : Cfg) (hf : c.formsSeparate = true) (fn : Fn) (k : Key) (mid : List FOp)
    (hmid : ∀ op ∈ mid, StaysListed fn k op) :
    ∀ acc : List Raw, ∃ S,
      List.foldl (snapsStep (slotOf c fn true)) acc (lowerAll c mid) = S ++ acc
      ∧ ∀ r ∈ S, r.lookup k ≠ none ∧ Op.call (slotOf c fn true) true r ∈ lowerAll c mid := by
  induction mid with
  | nil => intro acc; exact ⟨[], by simp [lowerAll], by simp⟩
  | cons m ms ih =>
    intro acc
    have hm := hmid m (by simp)
    have ih' := ih (fun op hop => hmid op (by simp [hop]))
    have key : ∃ S0, List.foldl (snapsStep (slotOf c fn true)) acc (lower c m) = S0 ++ acc
        ∧ ∀ r ∈ S0, r.lookup k ≠ none ∧ Op.call (slotOf c fn true) true r ∈ lower c m := by
      cases m with
      | call cl =>
        simp only [lower, List.foldl_cons, List.foldl_nil, snapsStep]
        by_cases hcond : slotOf c cl.fn cl.perdev = slotOf c fn true ∧ cl.nowrap = true
        · rw [if_pos hcond]
          obtain ⟨hfn, hpd⟩ := slotOf_eq_perdev c hf _ _ _ hcond.1
          refine ⟨[platRaw c cl.fn cl.perdev cl.listing], rfl, ?_⟩
          intro r hr
          simp only [List.mem_singleton] at hr
          subst hr
          refine ⟨platRaw_lookup_listed c cl.fn cl.perdev cl.listing k hpd (hm hfn hcond.2), ?_⟩
          simp [← hcond.1, hcond.2]
        · rw [if_neg hcond]; exact ⟨[], rfl, by simp⟩
      | clear f =>
        refine ⟨[], ?_, by simp⟩
        have hne : f ≠ fn := hm
        cases f <;> cases fn <;> first
          | exact absurd rfl hne
          | (cases hcp : c.clearPer <;> simp [lower, slotOf, snapsStep, hf, hcp])
      | clearAll => exact absurd hm (by simp [StaysListed])
    obtain ⟨S0, h0, hS0⟩ := key
    obtain ⟨S1, h1, hS1⟩ := ih' (S0 ++ acc)
    refine ⟨S1 ++ S0, ?_, ?_⟩
    · simp only [lowerAll, List.flatMap_cons, List.foldl_append] at h1 ⊢
      rw [h0, h1]; simp
    · intro r hr
      simp only [lowerAll, List.flatMap_cons, List.mem_append] at hS1 ⊢
      rcases List.mem_append.mp hr with h | h
      · exact ⟨(hS1 r h).1, Or.inr (hS1 r h).2⟩
      · exact ⟨(hS0 r h).1, Or.inl (hS0 r h).2⟩

/-! ### `prevPresent` (Spec/C10.lean) finds exactly such a stretch of the public history -/

theorem contains_listed (l : Listing) (k : Key) (h : (l.map (·.1)).contains k = true) :
    ∃ e ∈ l, e.1 = k := by
  simp only [List.contains_eq_mem, List.mem_map, decide_eq_true_eq] at h
  exact h

/-- (newest first) -/
theorem prevPresent_split_rev (fn : Fn) (k : Key) (rh : List FOp) :
    ∀ j, prevPresent k (rh.filterMap (pastEntry fn)) = some j →
    ∃ midr l1 post, rh = midr ++ FOp.call ⟨fn, true, true, l1⟩ :: post ∧ (∃ e ∈ l1, e.1 = k)
      ∧ (∀ op ∈ midr, StaysListed fn k op) ∧ (midr.filterMap (pastEntry fn)).length = j := by
  induction rh with
  | nil => intro j h; simp [prevPresent] at h
  | cons op rh ih =>
    intro j h
    -- an operation that does not concern `fn`, or concerns it without ending the stretch
    have extend : ∀ j', prevPresent k (rh.filterMap (pastEntry fn)) = some j' → StaysListed fn k op →
        ∃ midr l1 post, op :: rh = midr ++ FOp.call ⟨fn, true, true, l1⟩ :: post ∧ (∃ e ∈ l1, e.1 = k)
          ∧ (∀ o ∈ midr, StaysListed fn k o)
          ∧ (midr.filterMap (pastEntry fn)).length = j' + (pastEntry fn op).toList.length := by
      intro j' hj' hst
      obtain ⟨midr, l1, post, hfh, hl1, hmid, hlen⟩ := ih j' hj'
      refine ⟨op :: midr, l1, post, by simp [hfh], hl1, ?_, ?_⟩
      · intro o ho
        rcases List.mem_cons.mp ho with h' | h'
        · subst h'; exact hst
        · exact hmid o h'
      · rw [List.filterMap_cons]
        cases pastEntry fn op <;> simp [hlen]
    cases op with
    | call c =>
      by_cases hfn : c.fn = fn
      · obtain ⟨cfn, nowrap, perdev, listing⟩ := c
        simp only at hfn
        subst hfn
        simp only [List.filterMap_cons, pastEntry, if_true, prevPresent] at h
        cases nowrap with
        | false =>
          simp only [Bool.false_eq_true, if_false, Option.map_eq_some_iff] at h
          obtain ⟨j', hj', rfl⟩ := h
          obtain ⟨midr, l1, post, a, b, c', d⟩ := extend j' hj' (by intro _ hnw; cases hnw)
          exact ⟨midr, l1, post, a, b, c', by simpa [pastEntry] using d⟩
        | true =>
          simp only [if_true] at h
          by_cases hk : (listing.map (·.1)).contains k = true
          · rw [if_pos hk] at h
            cases perdev with
            | true =>
              simp only [if_true, Option.some.injEq] at h
              subst h
              exact ⟨[], listing, rh, rfl, contains_listed listing k hk, by simp, by simp⟩
            | false =>
              simp only [Bool.false_eq_true, if_false, Option.map_eq_some_iff] at h
              obtain ⟨j', hj', rfl⟩ := h
              obtain ⟨midr, l1, post, a, b, c', d⟩ :=
                extend j' hj' (by intro _ _; exact contains_listed listing k hk)
              exact ⟨midr, l1, post, a, b, c', by simpa [pastEntry] using d⟩
          · rw [if_neg hk] at h; cases h
      · have hpe : pastEntry fn (.call c) = none := by simp [pastEntry, hfn]
        rw [List.filterMap_cons, hpe] at h
        obtain ⟨midr, l1, post, a, b, c', d⟩ := extend j h (by intro hh; exact absurd hh hfn)
        exact ⟨midr, l1, post, a, b, c', by simpa [hpe] using d⟩
    | clear f =>
      by_cases hf : f = fn
      · simp [pastEntry, hf, prevPresent] at h
      · have hpe : pastEntry fn (.clear f) = none := by simp [pastEntry, hf]
        rw [List.filterMap_cons, hpe] at h
        obtain ⟨midr, l1, post, a, b, c', d⟩ := extend j h hf
        exact ⟨midr, l1, post, a, b, c', by simpa [hpe] using d⟩
    | clearAll => simp [pastEntry, prevPresent] at h

/-- If `prevPresent k` finds the `j`-th entry of the past of `fn`, the public history splits into
    `pre ++ [per-device nowrap=True call of fn listing k] ++ mid` where `k` stays listed across `mid`
    and `j` entries of `mid` concern `fn`. -/
theorem prevPresent_split (fn : Fn) (k : Key) (fh : List FOp) (j : Nat)
    (h : prevPresent k (pastOf fn fh) = some j) :
    ∃ pre l1 mid, fh = pre ++ FOp.call ⟨fn, true, true, l1⟩ :: mid ∧ (∃ e ∈ l1, e.1 = k)
      ∧ (∀ op ∈ mid, StaysListed fn k op) ∧ (pastOf fn mid).length = j := by
  obtain ⟨midr, l1, post, hrh, hl1, hmid, hlen⟩ := prevPresent_split_rev fn k fh.reverse j h
  refine ⟨post.reverse, l1, midr.reverse, ?_, hl1, ?_, ?_⟩
  · have := congrArg List.reverse hrh
    simpa using this
  · intro op hop; exact hmid op (List.mem_reverse.mp hop)
  · simpa [pastOf] using hlen

end Psutil.C10
