/-
  Proofs/C01Pid0.lean — no OS call of any kind is ever made with PID 0 (for setpriority / ioprio_set /
  sched_setaffinity / prlimit, PID 0 means "the calling process").  `_send_signal` and `_pslinux.Process.rlimit`
  refuse PID 0 themselves (any state: Props/C01.lean); `nice_set`, `ionice_set` and `cpu_affinity_set` do not — for
  them the argument is that no object with PID 0 can exist, because Linux never lists a PID 0 (hypothesis
  `HistNoPid0`: the histories spawn no PID 0).
-/
import PsutilModel.Proofs.C01Eff
import PsutilModel.Proofs.C02
namespace Psutil.C01
variable {nt : Bool}
open Spec

/-- Linux lists no PID 0: the idle task has no /proc entry ("PID 0 is not supported on Linux", _pslinux.py) -/
def Ev.NoPid0 : Ev → Prop
  | .k (.spawn p) => p ≠ 0
  | .k (.spawnSameTick p) => p ≠ 0
  | _ => True

def HistNoPid0 (h : List Ev) : Prop := ∀ e ∈ h, e.NoPid0

instance : DecidablePred Ev.NoPid0 := fun e => by
  cases e with
  | c _ => simp only [Ev.NoPid0]; infer_instance
  | k ke => cases ke <;> simp only [Ev.NoPid0] <;> infer_instance

instance (h : List Ev) : Decidable (HistNoPid0 h) := by
  unfold HistNoPid0; infer_instance

/-- no PID 0 in the process table, no object with PID 0 -/
structure NoZero (s : St) : Prop where
  procs : ∀ x ∈ s.kern.procs, x.pid ≠ 0
  objs : ∀ o ∈ s.ps.objs, o.pid ≠ 0

theorem procs_apply_nozero (k : Kernel) (e : KEv) (he : (Ev.k e).NoPid0) (h : ∀ x ∈ k.procs, x.pid ≠ 0) :
    ∀ x ∈ (k.apply e).procs, x.pid ≠ 0 := by
  cases e with
  | spawn p =>
    simp only [Kernel.apply]; split
    · exact h
    · intro x hx
      rcases List.mem_cons.1 hx with rfl | hx
      · exact he
      · exact h x hx
  | spawnSameTick p =>
    simp only [Kernel.apply]; split
    · exact h
    · intro x hx
      rcases List.mem_cons.1 hx with rfl | hx
      · exact he
      · exact h x hx
  | exit p =>
    intro x hx
    simp only [Kernel.apply, List.mem_map] at hx
    obtain ⟨y, hy, rfl⟩ := hx
    have := h y hy
    split <;> exact this
  | reap p => exact fun x hx => h x (List.mem_filter.1 hx).1
  | tick n => exact h
  | setBtime b => exact h
  | perm p e => rw [(apply_perm_rest k p e).1]; exact h
  | hide p b => rw [(apply_hide_rest k p b).1]; exact h

theorem pid_ne_zero_of_owner {k : Kernel} (h : ∀ x ∈ k.procs, x.pid ≠ 0) {p : Nat} (ho : k.owner p ≠ none) :
    p ≠ 0 := by
  simp only [Kernel.owner, Kernel.find] at ho
  cases hf : k.procs.find? (·.pid == p) with
  | none => simp [hf] at ho
  | some x =>
    have hm := List.mem_of_find?_eq_some hf
    have hp : x.pid = p := by simpa using List.find?_some hf
    exact hp ▸ h x hm

/-- every object `process_iter()`'s loop leaves behind is an old one or was built for a listed PID -/
theorem iterLoop_objs_owner (c : Cfg) (k : Kernel) (kept : List (Nat × Nat)) (evicted : List Nat) :
    ∀ (l : List Nat) (ps : Ps), ∀ o ∈ (iterLoop c k kept evicted ps l).1.objs, o ∈ ps.objs ∨ k.owner o.pid ≠ none := by
  intro l
  induction l with
  | nil => intro ps o ho; exact Or.inl (by simpa [iterLoop] using ho)
  | cons p rest ih =>
    intro ps
    rw [iterLoop_cons]
    cases hl : pmLookup kept p with
    | some i => exact ih ps
    | none =>
      simp only
      split
      · exact ih ps
      · have hm := mkObj_shape c k ps p
        cases hmk : mkObj c k ps p with
        | mk ps' oo =>
          rw [hmk] at hm
          cases oo with
          | none =>
            simp only at hm ⊢
            intro o ho
            have := ih ps' o ho
            rw [hm.1] at this
            exact this
          | some o1 =>
            simp only at hm ⊢
            obtain ⟨hobjs, _, hpid, hown, _, _⟩ := hm
            intro o ho
            rcases ih { ps' with objs := ps'.objs ++ [o1] } o ho with hin | hne
            · simp only [hobjs] at hin
              rcases List.mem_append.1 hin with hin | hin
              · exact Or.inl hin
              · simp only [List.mem_singleton] at hin
                subst hin
                exact Or.inr (by rw [hpid, hown]; simp)
            · exact Or.inr hne

theorem processIter_objs_owner (c : Cfg) (k : Kernel) (ps : Ps) :
    ∀ o ∈ (processIter c k ps).1.objs, o ∈ ps.objs ∨ k.owner o.pid ≠ none := by
  intro o ho
  simp only [processIter] at ho
  exact iterLoop_objs_owner c k _ _ _ ps o ho

theorem step_nozero {c : Cfg} (hc : c.BootGood) (s : St) (ev : Ev) (hz : ev.NoPid0)
    (h : Inv c.createNoneTest c.clk s) (hn : NoZero s) : NoZero (step c s ev).1 := by
  cases ev with
  | k e => exact ⟨procs_apply_nozero s.kern e hz hn.procs, hn.objs⟩
  | c call =>
    refine ⟨by rw [step_call_kern]; exact hn.procs, ?_⟩
    cases htg : call.target with
    | some i =>
      cases ho : s.ps.objs[i]? with
      | none => rw [step_bad_index c s htg ho]; exact hn.objs
      | some o =>
        obtain ⟨r, hm⟩ := method_some c s.kern s.ps o htg
        rw [step_method c s htg ho hm]
        obtain ⟨_, hevo, hobjs⟩ := method_inv hc h ho hm
        simp only [setObj, hobjs]
        intro o' ho'
        rcases List.mem_or_eq_of_mem_set ho' with hm' | rfl
        · exact hn.objs o' hm'
        · rw [hevo.pid]; exact hn.objs o (List.mem_of_getElem? ho)
    | none =>
      cases call <;> simp [Call.target] at htg <;> simp only [step]
      · rename_i pid
        split
        · split <;> exact hn.objs
        · have := mkObj_inv hc h.kern h.ps pid.toNat
          split
          · rename_i ps' heq; rw [heq] at this; rw [this.1]; exact hn.objs
          · rename_i ps' o heq; rw [heq] at this
            obtain ⟨_, hobjs, hpid, hown, _⟩ := this
            simp only [hobjs]
            intro o' ho'
            rcases List.mem_append.1 ho' with hin | hin
            · exact hn.objs o' hin
            · simp only [List.mem_singleton] at hin
              subst hin
              exact pid_ne_zero_of_owner hn.procs (p := o'.pid) (by rw [hpid, hown]; simp)
      · rw [(bootTimeCall_inv hc h.kern.btime h.ps).2]; exact hn.objs
      · split <;> exact hn.objs
      · intro o ho
        rcases processIter_objs_owner c s.kern s.ps o ho with hin | hne
        · exact hn.objs o hin
        · exact pid_ne_zero_of_owner hn.procs hne
      · exact hn.objs
      · split <;> exact hn.objs

theorem run_nozero {c : Cfg} (hc : c.BootGood) (h : List Ev) : ∀ (s : St), HistOK c.createNoneTest h → HistNoPid0 h →
    Inv c.createNoneTest c.clk s → NoZero s → NoZero (run c s h) := by
  induction h with
  | nil => intro s _ _ _ hn; exact hn
  | cons e es ih =>
    intro s hok hz hi hn
    exact ih _ (fun x hx => hok x (List.mem_cons_of_mem _ hx)) (fun x hx => hz x (List.mem_cons_of_mem _ hx))
      (step_inv hc s e (hok e List.mem_cons_self) hi) (step_nozero hc s e (hz e List.mem_cons_self) hi hn)

theorem init_nozero (b : Nat) : NoZero (St.init b) :=
  ⟨fun x hx => by simp [St.init] at hx, fun o ho => by simp [St.init] at ho⟩

end Psutil.C01
