/-
  Proofs/C11Scan.lean — descriptor races and errors. `get_proc_inodes` / `get_all_inodes` with every
  `listdir` / `readlink` outcome explicit (`getProcInodesE`, `getAllInodesE`, `retrieveE`,
  `netConnectionsE`) compute, whenever no error escapes, what the error-free core computes on the
  file system with the failing descriptors / processes erased; over a rendered world that erased
  file system is the rendering of the world's inspectable part (`WorldE.view`).
-/
import PsutilModel.Proofs.C11Rows
set_option linter.unusedSimpArgs false
namespace Psutil.C11
open Spec

/-! ### what the `except` clauses catch, under `Cfg.Good` -/

theorem catches_known_other {cls : String} (h : cls ∈ knownClasses) (n : Nat) :
    catches cls (Exc.ofErrno (.other n)) = false := by
  simp only [knownClasses, List.mem_cons, List.not_mem_nil, or_false] at h
  rcases h with rfl | rfl | rfl <;> simp [catches, Exc.ofErrno, Exc.pyClass, Exc.isOSError]

theorem any_known_other (l : List String) (h : l.all knownClasses.contains = true) (n : Nat) :
    l.any (fun cls => catches cls (Exc.ofErrno (.other n))) = false := by
  rw [List.any_eq_false]
  intro cls hc
  have := List.all_eq_true.mp h cls hc
  simp only [List.contains_eq_mem, decide_eq_true_eq] at this
  simp [catches_known_other this n]

/-- the readlink handlers step over exactly the "vanished" errnos -/
theorem linkSkips_eq (c : Cfg) (hg : c.Good) (e : Errno) : linkSkips c e = errVanished e := by
  have hn := hg.linkSkipNamed
  simp only [Bool.and_eq_true] at hn
  have hall := List.all_eq_true.mp hg.linkSkip
  cases e with
  | other n =>
    have h2 : c.linkSkipErrnos.contains (Errno.other n).name = false := by
      cases hc : c.linkSkipErrnos.contains (Errno.other n).name with
      | false => rfl
      | true =>
        have hm : (Errno.other n).name ∈ c.linkSkipErrnos := by simpa using hc
        have := List.all_eq_true.mp hn.1 _ hm
        exact absurd this (by simp [Errno.name]; decide)
    simp only [linkSkips, any_known_other _ hn.2 n, h2, errVanished, Bool.or_self]
  | enoent => simpa using hall .enoent (by simp [namedErrnos])
  | esrch => simpa using hall .esrch (by simp [namedErrnos])
  | einval => simpa using hall .einval (by simp [namedErrnos])
  | enametoolong => simpa using hall .enametoolong (by simp [namedErrnos])
  | eacces => simpa using hall .eacces (by simp [namedErrnos])
  | eperm => simpa using hall .eperm (by simp [namedErrnos])

/-- get_all_inodes catches exactly the "process gone or not ours" errnos -/
theorem allCaught_eq (c : Cfg) (hg : c.Good) (e : Errno) : allCaught c (Exc.ofErrno e) = errUnlistable e := by
  have hall := List.all_eq_true.mp hg.allSkip
  cases e with
  | other n => simp only [allCaught, any_known_other _ hg.allSkipNamed n, errUnlistable]
  | enoent => simpa using hall .enoent (by simp [namedErrnos])
  | esrch => simpa using hall .esrch (by simp [namedErrnos])
  | einval => simpa using hall .einval (by simp [namedErrnos])
  | enametoolong => simpa using hall .enametoolong (by simp [namedErrnos])
  | eacces => simpa using hall .eacces (by simp [namedErrnos])
  | eperm => simpa using hall .eperm (by simp [namedErrnos])

/-! ### the readlink loop -/

/-- the outcome of reading every link of one listing: the entries as the core sees them (a skipped
    descriptor = a vanished one), or the first errno that is raised -/
def scan (c : Cfg) : List FdEntryE → Except Errno (List FdEntry)
  | [] => .ok []
  | (fd, r) :: rest =>
    match r with
    | .ok t =>
      match scan c rest with
      | .ok es => .ok ((fd, some t) :: es)
      | .error e => .error e
    | .err e =>
      if linkSkips c e then
        match scan c rest with
        | .ok es => .ok ((fd, none) :: es)
        | .error e' => .error e'
      else .error e

theorem procLoopE_scan (c : Cfg) (pid : Nat) (fds : List FdEntryE) : ∀ m : Inodes,
    procLoopE c pid fds m =
      match scan c fds with
      | .ok es => .ok (es.foldl (procStep pid) m)
      | .error e => .error (Exc.ofErrno e) := by
  induction fds with
  | nil => intro m; rfl
  | cons x rest ih =>
    intro m
    obtain ⟨fd, r⟩ := x
    cases r with
    | ok t =>
      by_cases h : startsWith socketPrefix t = true
      · simp only [procLoopE, h, if_true, scan, ih]
        cases scan c rest <;> simp [procStep, keyOf, h]
      · simp only [procLoopE, h, if_false, scan, ih]
        cases scan c rest <;> simp [procStep, keyOf, h]
    | err e =>
      cases hs : linkSkips c e
      · simp only [procLoopE, scan, hs, Bool.false_eq_true, if_false]
      · simp only [procLoopE, scan, hs, if_true, ih]
        cases scan c rest <;> simp [procStep, keyOf]

theorem getProcInodesE_ok (c : Cfg) (pid : Nat) (fds : List FdEntryE) :
    getProcInodesE c pid (.ok fds) =
      match scan c fds with
      | .ok es => .ok (getProcInodes pid es)
      | .error e => .error (Exc.ofErrno e) := by
  simp only [getProcInodesE, procLoopE_scan, getProcInodes_eq]

/-! ### the loop over the processes -/

/-- a process as the core sees it: unlistable when `listdir` or one of the `readlink`s raises -/
def eraseList (c : Cfg) : ListRes → Option (List FdEntry)
  | .error _ => none
  | .ok fds =>
    match scan c fds with
    | .ok es => some es
    | .error _ => none

def eraseProcs (c : Cfg) (procs : List (Nat × ListRes)) : List (Nat × Option (List FdEntry)) :=
  procs.map fun p => (p.1, eraseList c p.2)

/-- whatever `get_proc_inodes` raises for this process is caught by `get_all_inodes` -/
def ListCaught (c : Cfg) (l : ListRes) : Prop :=
  match l with
  | .error e => allCaught c (Exc.ofErrno e) = true
  | .ok fds =>
    match scan c fds with
    | .ok _ => True
    | .error e => allCaught c (Exc.ofErrno e) = true

theorem allLoopE_erase (c : Cfg) (procs : List (Nat × ListRes)) (h : ∀ p ∈ procs, ListCaught c p.2) :
    ∀ m : Inodes, allLoopE c procs m = .ok ((eraseProcs c procs).foldl (allStep c) m) := by
  induction procs with
  | nil => intro m; rfl
  | cons p ps ih =>
    intro m
    obtain ⟨pid, l⟩ := p
    have hp := h (pid, l) (by simp)
    have ih' := ih (fun x hx => h x (by simp [hx]))
    cases l with
    | error e =>
      simp only [ListCaught] at hp
      simp [allLoopE, getProcInodesE, hp, ih', eraseProcs, eraseList, allStep]
    | ok fds =>
      simp only [ListCaught] at hp
      simp only [allLoopE, getProcInodesE_ok, eraseProcs, List.map_cons, List.foldl_cons, eraseList]
      cases hs : scan c fds with
      | ok es =>
        simp only [allStep]
        exact ih' _
      | error e =>
        rw [hs] at hp
        simp only [hp, if_true, allStep]
        exact ih' _

theorem getAllInodesE_erase (c : Cfg) (procs : List (Nat × ListRes)) (h : ∀ p ∈ procs, ListCaught c p.2) :
    getAllInodesE c procs = .ok (getAllInodes c (eraseProcs c procs)) := by
  simp only [getAllInodesE, allLoopE_erase c procs h, getAllInodes]

/-- …and an error that is not caught leaves the loop (and the whole call) at once -/
theorem allLoopE_raises (c : Cfg) (pre : List (Nat × ListRes)) (hpre : ∀ p ∈ pre, ListCaught c p.2)
    (pid : Nat) (l : ListRes) (x : Exc) (hx : getProcInodesE c pid l = .error x) (hc : allCaught c x = false)
    (post : List (Nat × ListRes)) :
    getAllInodesE c (pre ++ (pid, l) :: post) = .error x := by
  unfold getAllInodesE
  generalize ([] : Inodes) = m
  induction pre generalizing m with
  | nil => simp [allLoopE, hx, hc]
  | cons p ps ih =>
    obtain ⟨pid', l'⟩ := p
    have hp := hpre (pid', l') (by simp)
    have ih' := ih (fun y hy => hpre y (by simp [hy]))
    simp only [List.cons_append, allLoopE]
    cases l' with
    | error e =>
      simp only [ListCaught] at hp
      simp only [getProcInodesE, hp, if_true]
      exact ih' m
    | ok fds =>
      simp only [ListCaught] at hp
      rw [getProcInodesE_ok]
      cases hs : scan c fds with
      | ok es => exact ih' _
      | error e =>
        rw [hs] at hp
        simp only [hp, if_true]
        exact ih' m

/-! ### `retrieve` looks at `net` only through `fs.net` -/

theorem entryRows_congr (c : Cfg) (fs1 fs2 : ProcFs) (hn : ∀ n, fs1.net n = fs2.net n) (inodes : Inodes)
    (pid : Option Nat) (e : TEntry) : entryRows c fs1 inodes pid e = entryRows c fs2 inodes pid e := by
  simp only [entryRows, hn]

theorem retrieveEntries_congr (c : Cfg) (fs1 fs2 : ProcFs) (hn : ∀ n, fs1.net n = fs2.net n) (inodes : Inodes)
    (pid : Option Nat) (es : List TEntry) :
    ∀ ret, retrieveEntries c fs1 inodes pid es ret = retrieveEntries c fs2 inodes pid es ret := by
  induction es with
  | nil => intro ret; rfl
  | cons e es ih =>
    intro ret
    simp only [retrieveEntries, entryRows_congr c fs1 fs2 hn inodes pid e]
    cases entryRows c fs2 inodes pid e with
    | error x => rfl
    | ok rows => exact ih _

/-! ### rendered worlds -/

theorem denied_not_skipped (c : Cfg) (hg : c.Good) {e : Errno} (h : errDenied e = true) : linkSkips c e = false := by
  rw [linkSkips_eq c hg]
  cases e <;> simp [errDenied] at h <;> rfl

theorem denied_caught (c : Cfg) (hg : c.Good) {e : Errno} (h : errDenied e = true) :
    allCaught c (Exc.ofErrno e) = true := by
  rw [allCaught_eq c hg]
  cases e <;> simp [errDenied] at h <;> rfl

theorem unlistable_caught (c : Cfg) (hg : c.Good) {e : Errno} (h : errUnlistable e = true) :
    allCaught c (Exc.ofErrno e) = true := by
  rw [allCaught_eq c hg]; exact h

def renderFdsE (fds : List (Nat × TargetE)) : List FdEntryE := fds.map fun x => (x.1, renderTargetE x.2)

def viewFds (fds : List (Nat × TargetE)) : List (Nat × Target) := fds.map fun x => (x.1, x.2.view)

/-- every failing descriptor of the table fails in one of the "cannot be inspected" ways -/
def FdsInspectable (fds : List (Nat × TargetE)) : Prop :=
  ∀ x ∈ fds, ∀ e, x.2 = .fail e → (errVanished e || errDenied e) = true

theorem renderTarget_view (t : TargetE) :
    (match renderTargetE t with
     | .ok b => renderTarget t.view = some b
     | .err _ => renderTarget t.view = none) := by
  cases t <;> simp [renderTargetE, renderTarget, TargetE.view]

/-- is this descriptor denied to us? -/
def tgtDenied : TargetE → Bool
  | .fail e => errDenied e
  | _ => false

theorem deniedIn_cons (x : Nat × TargetE) (rest : List (Nat × TargetE)) :
    deniedIn (x :: rest) = (tgtDenied x.2 || deniedIn rest) := by
  obtain ⟨fd, t⟩ := x
  cases t <;> simp [deniedIn, tgtDenied]

theorem scan_cons_ok (c : Cfg) (fd : Nat) (b : Bytes) (rest : List FdEntryE) :
    scan c ((fd, .ok b) :: rest) = match scan c rest with
      | .ok es => .ok ((fd, some b) :: es)
      | .error e => .error e := by
  simp only [scan]

theorem scan_cons_skip (c : Cfg) (fd : Nat) (e : Errno) (rest : List FdEntryE) (h : linkSkips c e = true) :
    scan c ((fd, .err e) :: rest) = match scan c rest with
      | .ok es => .ok ((fd, none) :: es)
      | .error e' => .error e' := by
  simp only [scan, h, if_true]

theorem scan_cons_raise (c : Cfg) (fd : Nat) (e : Errno) (rest : List FdEntryE) (h : linkSkips c e = false) :
    scan c ((fd, .err e) :: rest) = .error e := by
  simp only [scan, h, Bool.false_eq_true, if_false]

/-- reading the links of a rendered table: a denial if one of the descriptors is denied, otherwise
    the rendering of the table's visible part -/
theorem scan_render (c : Cfg) (hg : c.Good) (fds : List (Nat × TargetE)) (h : FdsInspectable fds) :
    (deniedIn fds = false → scan c (renderFdsE fds) = .ok (renderFds (viewFds fds)))
    ∧ (deniedIn fds = true → ∃ e, errDenied e = true ∧ scan c (renderFdsE fds) = .error e) := by
  induction fds with
  | nil => exact ⟨fun _ => rfl, fun h0 => by simp [deniedIn] at h0⟩
  | cons x rest ih =>
    obtain ⟨fd, t⟩ := x
    have hrest : FdsInspectable rest := fun y hy => h y (by simp [hy])
    obtain ⟨ih1, ih2⟩ := ih hrest
    rw [deniedIn_cons]
    -- a descriptor that is read: `b` is its link text
    have readable : ∀ b : Bytes, renderTargetE t = .ok b → renderTarget t.view = some b → tgtDenied t = false →
        (((tgtDenied t || deniedIn rest) = false → scan c (renderFdsE ((fd, t) :: rest)) = .ok (renderFds (viewFds ((fd, t) :: rest))))
        ∧ ((tgtDenied t || deniedIn rest) = true → ∃ e, errDenied e = true ∧ scan c (renderFdsE ((fd, t) :: rest)) = .error e)) := by
      intro b hb hv hnd
      have e1 : renderFdsE ((fd, t) :: rest) = (fd, .ok b) :: renderFdsE rest := by
        simp only [renderFdsE, List.map_cons, hb]
      have e2 : renderFds (viewFds ((fd, t) :: rest)) = (fd, some b) :: renderFds (viewFds rest) := by
        simp only [renderFds, viewFds, List.map_cons, hv]
      rw [e1, e2, scan_cons_ok, hnd, Bool.false_or]
      constructor
      · intro h0; rw [ih1 h0]
      · intro h1
        obtain ⟨e, he, hs⟩ := ih2 h1
        exact ⟨e, he, by rw [hs]⟩
    cases t with
    | sock i => exact readable _ rfl rfl rfl
    | other b => exact readable _ rfl rfl rfl
    | fail e =>
      have hcls := h (fd, .fail e) (by simp) e rfl
      have e1 : renderFdsE ((fd, .fail e) :: rest) = (fd, .err e) :: renderFdsE rest := rfl
      have e2 : renderFds (viewFds ((fd, .fail e) :: rest)) = (fd, none) :: renderFds (viewFds rest) := rfl
      rw [e1, e2]
      cases hde : errDenied e with
      | true =>
        have hT : tgtDenied (.fail e) = true := hde
        rw [hT, Bool.true_or]
        exact ⟨fun h0 => absurd h0 (by decide), fun _ => ⟨e, hde, scan_cons_raise c fd e _ (denied_not_skipped c hg hde)⟩⟩
      | false =>
        have hv : linkSkips c e = true := by
          rw [linkSkips_eq c hg]; simpa [hde] using hcls
        have hF : tgtDenied (.fail e) = false := hde
        rw [hF, Bool.false_or, scan_cons_skip c fd e _ hv]
        constructor
        · intro h0; rw [ih1 h0]
        · intro h1
          obtain ⟨e', he', hs⟩ := ih2 h1
          exact ⟨e', he', by rw [hs]⟩

/-- one process of a rendered world -/
def renderListE (l : Except Errno (List (Nat × TargetE))) : ListRes :=
  match l with
  | .error e => .error e
  | .ok fds => .ok (renderFdsE fds)

def ProcInspectable (l : Except Errno (List (Nat × TargetE))) : Prop :=
  match l with
  | .error e => errUnlistable e = true
  | .ok fds => FdsInspectable fds

theorem erase_renderListE (c : Cfg) (hg : c.Good) (l : Except Errno (List (Nat × TargetE))) (h : ProcInspectable l) :
    eraseList c (renderListE l) = (viewProc l).map renderFds ∧ ListCaught c (renderListE l) := by
  cases l with
  | error e =>
    simp only [ProcInspectable] at h
    exact ⟨rfl, unlistable_caught c hg h⟩
  | ok fds =>
    simp only [ProcInspectable] at h
    obtain ⟨h1, h2⟩ := scan_render c hg fds h
    cases hd : deniedIn fds with
    | false =>
      have := h1 hd
      simp [renderListE, eraseList, ListCaught, this, viewProc, hd, viewFds]
    | true =>
      obtain ⟨e, he, hs⟩ := h2 hd
      simp [renderListE, eraseList, ListCaught, hs, viewProc, hd, denied_caught c hg he]

theorem renderWorldE_procs (le : Bool) (w : WorldE) :
    (renderWorldE le w).procs = w.procs.map fun p => (p.1, renderListE p.2) := by
  simp only [renderWorldE]
  apply List.map_congr_left
  intro p _
  cases p.2 <;> rfl

theorem erase_renderWorldE (c : Cfg) (hg : c.Good) (le : Bool) (w : WorldE) (hi : w.Inspectable) :
    eraseProcs c (renderWorldE le w).procs = (renderWorld le w.view).procs
    ∧ ∀ p ∈ (renderWorldE le w).procs, ListCaught c p.2 := by
  have hp : ∀ p ∈ w.procs, ProcInspectable p.2 := by
    intro p hp
    have := hi p hp
    cases hl : p.2 with
    | error e => rw [hl] at this; exact this
    | ok fds => rw [hl] at this; exact this
  rw [renderWorldE_procs, renderWorld_procs]
  constructor
  · simp only [eraseProcs, WorldE.view, List.map_map]
    apply List.map_congr_left
    intro p hpm
    simp only [Function.comp, (erase_renderListE c hg p.2 (hp p hpm)).1]
  · intro p hpm
    obtain ⟨p0, hp0, rfl⟩ := List.mem_map.mp hpm
    exact (erase_renderListE c hg p0.2 (hp p0 hp0)).2

/-! ### the public functions -/

/-- system-wide: when nothing escapes, the call is the core's call on the erased file system -/
theorem netConnectionsE_system (c : Cfg) (fs : ProcFsE) (kind : String)
    (h : ∀ p ∈ fs.procs, ListCaught c p.2) :
    netConnectionsE c fs kind none = netConnections c ⟨fs.net, eraseProcs c fs.procs⟩ kind none := by
  simp only [netConnectionsE, netConnections, retrieveE, retrieve, getAllInodesE_erase c fs.procs h,
    Option.isSome, Bool.false_and, Bool.false_eq_true, if_false]
  split
  · rfl
  · cases c.tmap.lookup kind with
    | none => rfl
    | some es =>
      exact retrieveEntries_congr c ⟨fs.net, []⟩ ⟨fs.net, eraseProcs c fs.procs⟩ (fun _ => rfl) _ _ es []

/-- **descriptor races never fail the system-wide call**, and it returns the promised rows of the
    inspectable part of the world -/
theorem scan_system (c : Cfg) (hg : c.Good) (ht : c.TmapGood) (w : WorldE) (hw : w.view.WF)
    (hi : w.Inspectable) (kind : String) (hk : kind ∈ kinds) :
    ∃ rows, netConnectionsE c (renderWorldE c.littleEndian w) kind none = .ok rows
      ∧ Accepts (expects w.view ⟨kind, none⟩) rows := by
  obtain ⟨rows, h1, h2⟩ := netConnections_system c hg ht w.view hw kind hk
  obtain ⟨e1, e2⟩ := erase_renderWorldE c hg c.littleEndian w hi
  refine ⟨rows, ?_, h2⟩
  rw [netConnectionsE_system c _ kind e2, e1]
  exact h1

theorem lookup_map_snd {β γ : Type} (f : β → γ) (l : List (Nat × β)) (p : Nat) :
    (l.map fun x => (x.1, f x.2)).lookup p = (l.lookup p).map f := by
  induction l with
  | nil => rfl
  | cons a as ih =>
    obtain ⟨p0, x⟩ := a
    simp only [List.map_cons, lookupNat_cons]
    by_cases h : p = p0 <;> simp [h, ih]

/-- per-process form: the process' own descriptors can be listed and fail, if at all, by vanishing
    (whatever happens in other processes: they are not looked at) -/
theorem scan_process (c : Cfg) (hg : c.Good) (ht : c.TmapGood) (w : WorldE) (hw : w.view.WF)
    (hn : (w.procs.map (·.1)).Nodup) (kind : String) (hk : kind ∈ kinds) (p' : Nat)
    (fds : List (Nat × TargetE)) (hl : w.procs.lookup (p' + 1) = some (.ok fds))
    (hf : FdsInspectable fds) (hd : deniedIn fds = false) :
    ∃ rows, netConnectionsE c (renderWorldE c.littleEndian w) kind (some (p' + 1)) = .ok rows
      ∧ Accepts (expects w.view ⟨kind, some (p' + 1)⟩) rows := by
  have hlv : w.view.procs.lookup (p' + 1) = some (some (viewFds fds)) := by
    simp only [WorldE.view]
    rw [lookup_map_snd viewProc w.procs (p' + 1), hl]
    simp [viewProc, hd, viewFds]
  have hnv : (w.view.procs.map (·.1)).Nodup := by
    show ((w.procs.map fun p => (p.1, viewProc p.2)).map (·.1)).Nodup
    rw [List.map_map]; exact hn
  obtain ⟨rows, h1, h2⟩ := netConnections_process c hg ht w.view hw hnv kind hk p' (viewFds fds) hlv
  refine ⟨rows, ?_, h2⟩
  have hlE : (renderWorldE c.littleEndian w).procs.lookup (p' + 1) = some (.ok (renderFdsE fds)) := by
    rw [renderWorldE_procs, lookup_map_snd renderListE w.procs (p' + 1), hl]
    rfl
  have hlR : (renderWorld c.littleEndian w.view).procs.lookup (p' + 1) = some (some (renderFds (viewFds fds))) := by
    rw [lookup_renderProcs, hlv]; rfl
  have hscan := (scan_render c hg fds hf).1 hd
  have hin : ¬ kind ∉ c.connKinds := fun h => h (kind_in_connKinds ht hk)
  simp only [netConnections, hin, if_false, retrieve, hlR] at h1
  simp only [netConnectionsE, hin, if_false, retrieveE, hlE, getProcInodesE_ok, hscan]
  have hcongr : ∀ es, retrieveEntries c ⟨(renderWorldE c.littleEndian w).net, []⟩
        (getProcInodes (p' + 1) (renderFds (viewFds fds))) (some (p' + 1)) es []
      = retrieveEntries c (renderWorld c.littleEndian w.view)
        (getProcInodes (p' + 1) (renderFds (viewFds fds))) (some (p' + 1)) es [] :=
    fun es => retrieveEntries_congr c ⟨(renderWorldE c.littleEndian w).net, []⟩
      (renderWorld c.littleEndian w.view) (fun _ => rfl) _ _ es []
  split at h1
  · rename_i hemp
    simp only [hemp, if_true] at h1 ⊢
    rw [← h1]; rfl
  · rename_i hemp
    simp only [hemp, if_false] at h1 ⊢
    cases hlk : c.tmap.lookup kind with
    | none => rw [hlk] at h1; cases h1
    | some es =>
      rw [hlk] at h1
      simp only [hcongr es, h1]
      rfl

/-! ### the driver's executable tests are the propositions used above -/

theorem fdsInspectable_iff (fds : List (Nat × TargetE)) : fdsInspectable fds = true ↔ FdsInspectable fds := by
  simp only [fdsInspectable, FdsInspectable, List.all_eq_true]
  constructor
  · intro h x hx e he
    have := h x hx
    rw [he] at this
    exact this
  · intro h x hx
    cases ht : x.2 with
    | sock i => rfl
    | other b => rfl
    | fail e => exact h x hx e ht

theorem inspectable_iff (w : WorldE) : w.inspectable = true ↔ w.Inspectable := by
  simp only [WorldE.inspectable, WorldE.Inspectable, List.all_eq_true]
  constructor
  · intro h p hp
    have := h p hp
    cases hl : p.2 with
    | error e => rw [hl] at this; exact this
    | ok fds => rw [hl] at this; exact (fdsInspectable_iff fds).mp this
  · intro h p hp
    have := h p hp
    cases hl : p.2 with
    | error e => rw [hl] at this; exact this
    | ok fds => rw [hl] at this; exact (fdsInspectable_iff fds).mpr this

end Psutil.C11
