/-
  Proofs/C01.lean — helper lemmas shared by Props/C01.lean and Props/C02.lean:
  the simulated kernel table, and the state invariant of the identity machine.
-/
import PsutilModel.Model.C01
import PsutilModel.Spec.C01
namespace Psutil.C01
open Spec

/-! ### the kernel table: who owns a PID after an event -/

theorem find?_map_pid (l : List Inst) (f : Inst → Inst) (hf : ∀ x, (f x).pid = x.pid) (q : Nat) :
    (l.map f).find? (·.pid == q) = (l.find? (·.pid == q)).map f := by
  induction l with
  | nil => rfl
  | cons a as ih =>
    simp only [List.map_cons, List.find?_cons, hf]
    cases h : a.pid == q <;> simp [ih]

theorem find?_filter_pid (l : List Inst) (p q : Nat) :
    (l.filter fun x => !(x.pid == p)).find? (·.pid == q)
      = if q = p then none else l.find? (·.pid == q) := by
  induction l with
  | nil => simp
  | cons a as ih =>
    by_cases hap : a.pid = p
    · by_cases hqp : q = p
      · simp [hap, hqp]
      · have : ¬ p = q := fun e => hqp e.symm
        simp [hap, ih, hqp, this]
    · by_cases hqp : q = p
      · subst hqp
        simp [hap, ih]
      · simp [hap, List.find?_cons, ih, hqp]

theorem apply_spawn_free {k : Kernel} {p : Nat} (h : k.find p = none) :
    k.apply (.spawn p) = { k with procs := ⟨p, k.clock, false, k.clock⟩ :: k.procs, clock := k.clock + 1 } := by
  simp only [Kernel.apply, h]

theorem apply_sst_free {k : Kernel} {p : Nat} (h : k.find p = none) :
    k.apply (.spawnSameTick p)
      = { k with procs := ⟨p, k.clock, false, k.clock - 1⟩ :: k.procs, clock := k.clock + 1 } := by
  simp only [Kernel.apply, h]

theorem apply_sst_busy {k : Kernel} {p : Nat} {x : Inst} (h : k.find p = some x) :
    k.apply (.spawnSameTick p) = k := by
  simp only [Kernel.apply, h]

theorem apply_spawn_busy {k : Kernel} {p : Nat} {x : Inst} (h : k.find p = some x) :
    k.apply (.spawn p) = k := by
  simp only [Kernel.apply, h]

theorem owner_spawn (k : Kernel) (p q : Nat) :
    (k.apply (.spawn p)).owner q = if q = p ∧ k.owner p = none then some k.clock else k.owner q := by
  cases h : k.find p with
  | some x => rw [apply_spawn_busy h]; simp [Kernel.owner, h]
  | none =>
    rw [apply_spawn_free h]
    by_cases hq : q = p
    · subst hq
      have ho : k.owner q = none := by simp [Kernel.owner, h]
      rw [if_pos ⟨rfl, ho⟩]
      simp [Kernel.owner, Kernel.find]
    · have : ¬ p = q := fun e => hq e.symm
      simp [Kernel.owner, Kernel.find, hq, this]

/-- a same-tick spawn creates a NEW incarnation (own `start`) just like `spawn`; only its `stamp` repeats -/
theorem owner_sst (k : Kernel) (p q : Nat) :
    (k.apply (.spawnSameTick p)).owner q = if q = p ∧ k.owner p = none then some k.clock else k.owner q := by
  cases h : k.find p with
  | some x => rw [apply_sst_busy h]; simp [Kernel.owner, h]
  | none =>
    rw [apply_sst_free h]
    by_cases hq : q = p
    · subst hq
      have ho : k.owner q = none := by simp [Kernel.owner, h]
      rw [if_pos ⟨rfl, ho⟩]
      simp [Kernel.owner, Kernel.find]
    · have : ¬ p = q := fun e => hq e.symm
      simp [Kernel.owner, Kernel.find, hq, this]

theorem owner_exit (k : Kernel) (p q : Nat) : (k.apply (.exit p)).owner q = k.owner q := by
  simp only [Kernel.apply, Kernel.owner, Kernel.find]
  rw [find?_map_pid]
  · cases k.procs.find? (·.pid == q) with
    | none => rfl
    | some x => simp only [Option.map_some]; split <;> rfl
  · intro x; split <;> rfl

theorem owner_reap (k : Kernel) (p q : Nat) :
    (k.apply (.reap p)).owner q = if q = p then none else k.owner q := by
  simp only [Kernel.apply, Kernel.owner, Kernel.find, find?_filter_pid]
  split <;> rfl

theorem owner_tick (k : Kernel) (n q : Nat) : (k.apply (.tick n)).owner q = k.owner q := rfl
theorem owner_setBtime (k : Kernel) (b q : Nat) : (k.apply (.setBtime b)).owner q = k.owner q := rfl

theorem owner_perm (k : Kernel) (p : Nat) (e : Option Errno) (q : Nat) : (k.apply (.perm p e)).owner q = k.owner q := by
  cases e <;> rfl
theorem owner_hide (k : Kernel) (p : Nat) (b : Bool) (q : Nat) : (k.apply (.hide p b)).owner q = k.owner q := by
  cases b <;> rfl

/-- permission / readability inputs move nothing but themselves -/
theorem apply_perm_rest (k : Kernel) (p : Nat) (e : Option Errno) :
    (k.apply (.perm p e)).procs = k.procs ∧ (k.apply (.perm p e)).clock = k.clock
      ∧ (k.apply (.perm p e)).btime = k.btime ∧ (k.apply (.perm p e)).hidden = k.hidden := by
  cases e <;> exact ⟨rfl, rfl, rfl, rfl⟩

theorem apply_hide_rest (k : Kernel) (p : Nat) (b : Bool) :
    (k.apply (.hide p b)).procs = k.procs ∧ (k.apply (.hide p b)).clock = k.clock
      ∧ (k.apply (.hide p b)).btime = k.btime ∧ (k.apply (.hide p b)).denied = k.denied := by
  cases b <;> exact ⟨rfl, rfl, rfl, rfl⟩

theorem clock_mono (k : Kernel) (e : KEv) : k.clock ≤ (k.apply e).clock := by
  cases e with
  | spawn p => simp only [Kernel.apply]; split <;> simp
  | exit p => exact Nat.le_refl _
  | reap p => exact Nat.le_refl _
  | tick n => simp only [Kernel.apply]; omega
  | setBtime b => exact Nat.le_refl _
  | perm p e => rw [(apply_perm_rest k p e).2.1]; exact Nat.le_refl _
  | hide p b => rw [(apply_hide_rest k p b).2.1]; exact Nat.le_refl _
  | spawnSameTick p => simp only [Kernel.apply]; split <;> simp

/-- an owner is always stamped before "now" -/
def Kernel.Stamped (k : Kernel) : Prop := ∀ x ∈ k.procs, x.start < k.clock

/-- an incarnation that lost its PID never gets it back: new incarnations are stamped `≥ clock` -/
theorem dead_stays_dead (k : Kernel) (e : KEv) (pid g : Nat) (hg : g < k.clock)
    (hd : k.owner pid ≠ some g) : (k.apply e).owner pid ≠ some g := by
  cases e with
  | spawn p =>
    rw [owner_spawn]; split
    · intro h; injection h with h; omega
    · exact hd
  | exit p => rw [owner_exit]; exact hd
  | reap p => rw [owner_reap]; split <;> simp [hd]
  | tick n => exact hd
  | setBtime b => exact hd
  | perm p e => rw [owner_perm]; exact hd
  | hide p b => rw [owner_hide]; exact hd
  | spawnSameTick p =>
    rw [owner_sst]; split
    · intro h; injection h with h; omega
    · exact hd

/-! ### kernel invariant -/

/-- a published / cached boot time the proofs can live with: any value once `create_time()` tests
    `BOOT_TIME is not None` (`nt = true`: fixes/C02-boottime-zero), a non-zero one while it tests truthiness
    (`BOOT_TIME or boot_time()` treats a cached 0.0 as unset) -/
abbrev BtOK (nt : Bool) (b : Nat) : Prop := nt = true ∨ b ≠ 0

structure KInv (nt : Bool) (k : Kernel) : Prop where
  uniq : (k.procs.map (·.pid)).Nodup
  stamped : ∀ x ∈ k.procs, x.start < k.clock
  btime : BtOK nt k.btime
  nohide : k.hidden = []
  /-- one incarnation per clock tick: what the stat file shows identifies the incarnation -/
  stamp : ∀ x ∈ k.procs, x.stamp = x.start

/-- events a history may contain: the published boot time is never 0 (1970-01-01) — only while `create_time()` tests
    the cached value by truthiness (`nt = false`), see `BtOK` — and — what psutil's
    `_init` assumes about every platform but Windows — `/proc/pid/stat` can always be opened (no `hide p true`).
    Permission changes (`perm`) are unrestricted. -/
def KEv.OK (e : KEv) (nt : Bool) : Prop :=
  match e with
  | .setBtime b => BtOK nt b
  | .hide _ on => on = false
  | .spawnSameTick _ => False      -- psutil's documented assumption: a PID is not recycled within one clock tick
  | _ => True

theorem KInv.apply {nt : Bool} {k : Kernel} (h : KInv nt k) (e : KEv) (he : e.OK nt) : KInv nt (k.apply e) := by
  cases e with
  | spawn p =>
    cases hf : k.find p with
    | some x => rw [apply_spawn_busy hf]; exact h
    | none =>
      rw [apply_spawn_free hf]
      refine ⟨?_, ?_, h.btime, h.nohide, ?_⟩
      rotate_left 2
      · intro x hx
        rcases List.mem_cons.1 hx with rfl | hx
        · rfl
        · exact h.stamp x hx
      · simp only [List.map_cons, List.nodup_cons]
        refine ⟨?_, h.uniq⟩
        intro hm
        obtain ⟨x, hx, hxp⟩ := List.mem_map.1 hm
        have := List.find?_eq_none.1 hf x hx
        simp [hxp] at this
      · intro x hx
        rcases List.mem_cons.1 hx with rfl | hx
        · exact Nat.lt_succ_self _
        · exact Nat.lt_succ_of_lt (h.stamped x hx)
  | exit p =>
    refine ⟨?_, ?_, h.btime, h.nohide, ?_⟩
    rotate_left 2
    · intro x hx
      simp only [Kernel.apply, List.mem_map] at hx
      obtain ⟨y, hy, rfl⟩ := hx
      have := h.stamp y hy
      split <;> exact this
    · have : (k.apply (.exit p)).procs.map (·.pid) = k.procs.map (·.pid) := by
        simp only [Kernel.apply, List.map_map]
        apply List.map_congr_left
        intro x _; simp only [Function.comp]; split <;> rfl
      rw [this]; exact h.uniq
    · intro x hx
      simp only [Kernel.apply, List.mem_map] at hx
      obtain ⟨y, hy, rfl⟩ := hx
      have := h.stamped y hy
      split <;> exact this
  | reap p =>
    refine ⟨?_, ?_, h.btime, h.nohide, fun x hx => h.stamp x (List.mem_filter.1 hx).1⟩
    · exact List.Nodup.sublist (List.Sublist.map _ List.filter_sublist) h.uniq
    · intro x hx
      exact h.stamped x (List.mem_filter.1 hx).1
  | tick n =>
    refine ⟨h.uniq, ?_, h.btime, h.nohide, h.stamp⟩
    intro x hx
    exact Nat.lt_of_lt_of_le (h.stamped x hx) (Nat.le_add_right _ _)
  | setBtime b => exact ⟨h.uniq, h.stamped, he, h.nohide, h.stamp⟩
  | spawnSameTick p => exact he.elim
  | perm p e =>
    obtain ⟨hp, hc, hb, hh⟩ := apply_perm_rest k p e
    exact ⟨by rw [hp]; exact h.uniq, by rw [hp, hc]; exact h.stamped, by rw [hb]; exact h.btime, by rw [hh]; exact h.nohide, by rw [hp]; exact h.stamp⟩
  | hide p b =>
    obtain ⟨hp, hc, hb, _⟩ := apply_hide_rest k p b
    refine ⟨by rw [hp]; exact h.uniq, by rw [hp, hc]; exact h.stamped, by rw [hb]; exact h.btime, ?_, by rw [hp]; exact h.stamp⟩
    simp only [KEv.OK] at he
    subst he
    simp [Kernel.apply, h.nohide]

theorem KInv.find_lt {nt : Bool} {k : Kernel} (h : KInv nt k) {pid : Nat} {x : Inst} (hf : k.find pid = some x) :
    x.start < k.clock := h.stamped x (List.mem_of_find?_eq_some hf)

theorem mem_eq_of_nodup_pid : ∀ {l : List Inst}, (l.map (·.pid)).Nodup →
    ∀ {a b : Inst}, a ∈ l → b ∈ l → a.pid = b.pid → a = b
  | [], _, _, _, ha, _, _ => by cases ha
  | c :: cs, hn, a, b, ha, hb, hab => by
    simp only [List.map_cons, List.nodup_cons] at hn
    rcases List.mem_cons.1 ha with rfl | ha' <;> rcases List.mem_cons.1 hb with rfl | hb'
    · rfl
    · exact absurd (hab ▸ List.mem_map.2 ⟨b, hb', rfl⟩) hn.1
    · exact absurd (hab ▸ List.mem_map.2 ⟨a, ha', rfl⟩) hn.1
    · exact mem_eq_of_nodup_pid hn.2 ha' hb' hab

/-- with unique PIDs, "my incarnation is in the table" is "my incarnation owns my PID" -/
theorem listed_iff_owner {nt : Bool} {k : Kernel} (h : KInv nt k) (o : PObj) :
    Listed k o ↔ k.owner o.pid = some o.ghost := by
  constructor
  · rintro ⟨x, hx, hp, hs⟩
    have hsome : (k.procs.find? (·.pid == o.pid)).isSome := by
      rw [List.find?_isSome]; exact ⟨x, hx, by simp [hp]⟩
    obtain ⟨y, hy⟩ := Option.isSome_iff_exists.1 hsome
    have hyp : y.pid = o.pid := by simpa using List.find?_some hy
    have hym := List.mem_of_find?_eq_some hy
    have : y = x := mem_eq_of_nodup_pid h.uniq hym hx (hyp.trans hp.symm)
    simp [Kernel.owner, Kernel.find, hy, this, hs]
  · intro ho
    simp only [Kernel.owner, Kernel.find] at ho
    cases hf : k.procs.find? (·.pid == o.pid) with
    | none => simp [hf] at ho
    | some y =>
      simp [hf] at ho
      exact ⟨y, List.mem_of_find?_eq_some hf, by simpa using List.find?_some hf, ho⟩

theorem listedB_iff (k : Kernel) (o : PObj) : listedB k o = true ↔ Listed k o := by
  simp [listedB, Listed]

end Psutil.C01
