/-
  Proofs/C15R3.lean — third round (audit-driven): integer pids, "ValueError only when justified",
  LIVENESS of `wait_pid` (an ended process IS answered), what a callback sees.
-/
import PsutilModel.Proofs.C15Procs
import PsutilModel.Model.C15R3
namespace Psutil.C15
open Spec

/-! ### integer pids -/

theorem waitPidI_nonpos {c : Cfg} (h0 : c.pidRejectsZero = true) (hn : c.pidRejectsNeg = true)
    (env : Env) (pid : Int) (timeout : Option Rat) (fuel : Nat) (now : Rat) (nWait : Nat) (hp : pid ≤ 0) :
    waitPidI c env pid timeout fuel now nWait = (.valueError, ⟨now, c.i0, nWait, []⟩) := by
  unfold waitPidI pidRefused
  by_cases hz : pid = 0
  · simp [hz, h0]
  · have : pid < 0 := by omega
    simp [hz, this, hn]

theorem waitPidI_nat {c : Cfg} (h0 : c.pidRejectsZero = true) (hpos : c.pidRejectsPos = false)
    (env : Env) (n : Nat) (timeout : Option Rat) (fuel : Nat) (now : Rat) (nWait : Nat) :
    waitPidI c env (n : Int) timeout fuel now nWait = waitPid c env n timeout fuel now nWait := by
  unfold waitPidI pidRefused waitPid
  by_cases hz : n = 0
  · subst hz; simp [h0]
  · have h1 : ¬ ((n : Int) = 0) := by omega
    have h2 : ¬ ((n : Int) < 0) := by omega
    simp [hz, h2, hpos]

theorem procWaitI_eq {c : Cfg} (h0 : c.pidRejectsZero = true) (hpos : c.pidRejectsPos = false)
    (env : Env) (timeout : Option Rat) (fuel : Nat) (now : Rat) (p : PObj) :
    procWaitI c env timeout fuel now p = procWait c env timeout fuel now p := by
  unfold procWaitI procWait
  simp only [waitPidI_nat h0 hpos]
  rfl

/-! ### ValueError only when justified -/

theorem decode_valueError_notTermination {st : Nat} (h : decode st = .valueError) : notTermination st := by
  intro cause hm hs
  have := decode_status (mem_allCauses.1 hm)
  rw [hs, h] at this
  cases this

theorem endedBy_rmax {env : Env} {t e : Rat} (hx : env.exitAt = some e) : endedBy env (rmax t e) := by
  unfold endedBy
  right
  rw [hx]
  exact le_rmax_right t e

section
variable {c : Cfg} (hg : c.Good) (env : Env) (pid : Nat) (timeout : Option Rat)
variable (fuel : Nat) (now : Rat) (nWait : Nat)
include hg

local notation "RUN" => waitPid c env pid timeout fuel now nWait

/-- `wait_pid` raises ValueError only for PID 0 or for a child that HAS ended with a status word the
    decoding chain does not know -/
theorem waitPid_valueError (h : RUN.1 = .valueError) :
    pid = 0 ∨ ∃ st, env.kind = .child st ∧ decode st = .valueError ∧ endedBy env RUN.2.now := by
  by_cases hp : pid = 0
  · exact Or.inl hp
  · right
    rw [waitPid_pos env pid timeout fuel now nWait (by omega)] at h ⊢
    have := loop_rule hg env pid timeout (now + timeout.getD 0) (fun _ _ => True)
      (fun o s => o = .valueError → ∃ st, env.kind = .child st ∧ decode st = .valueError ∧ endedBy env s.now)
      (by intros; trivial)
      (by intro n s τ _ _ _ _ h; cases h)
      (by intros; trivial)
      (by intro n s st _ hk _ he _ _ h; exact ⟨st, hk, h, endedBy_of_ended he⟩)
      (by intro n s st e _ hk _ hx h; exact ⟨st, hk, h, endedBy_rmax hx⟩)
      (by intro n s st _ _ _ _ h; cases h)
      (by intro n s _ _ _ h; cases h)
      (by intro s _ h; cases h)
      fuel ⟨now, c.i0, nWait, []⟩ trivial
    exact this h

end

/-! ### liveness without a timeout -/

/-- what the code answers for a process that has ended -/
def expectedOut (env : Env) : Outcome :=
  match env.kind with
  | .child st => decode st
  | _ => .none

theorem answered_expectedOut (env : Env) : answered env (expectedOut env) ∨
    ∃ st, env.kind = .child st ∧ notTermination st := by
  unfold answered expectedOut
  cases hk : env.kind with
  | child st =>
    simp only
    by_cases hn : notTermination st
    · exact Or.inr ⟨st, rfl, hn⟩
    · left
      intro cause hm hs
      have := decode_status (mem_allCauses.1 hm)
      rw [hs] at this
      exact this
  | nonChild => left; simp
  | neverExisted => left; simp

section
variable {c : Cfg} (hg : c.Good) (env : Env) (pid : Nat) (stopAt : Rat)
include hg

theorem advance_interval_ge (s : St) (h : Spec.i0 ≤ s.interval) : Spec.i0 ≤ (s.advance c).interval := by
  show Spec.i0 ≤ rmin (s.interval * (c.factor : Rat)) c.cap
  rw [hg.factor_eq, hg.cap_eq]
  exact le_rmin (by linarith [i0_pos]) i0_le_cap

omit hg in
theorem pidExists_false_of {e : Rat} {t : Rat}
    (hx : env.kind = .neverExisted ∨ env.exitAt = some e) (h : e ≤ t) : env.pidExists t = false := by
  unfold Env.pidExists Env.ended
  rcases hx with hx | hx
  · simp [hx]
  · cases hk : env.kind <;> simp [hx, h]

/-- `while _pid_exists(pid): sleep` without a deadline: gone after at most ⌈(e − now)/0.1 ms⌉ sleeps -/
theorem pollNonChild_live (e : Rat) (hx : env.kind = .neverExisted ∨ env.exitAt = some e) :
    ∀ (n : Nat) (s : St), Spec.i0 ≤ s.interval → e - s.now ≤ (n : Rat) * Spec.i0 →
      (pollNonChild c env pid none stopAt (n + 1) s).1 = .none := by
  intro n
  induction n with
  | zero =>
    intro s _ hb
    have : e ≤ s.now := by simp at hb; linarith
    unfold pollNonChild
    simp [pidExists_false_of env hx this]
  | succ k ih =>
    intro s hi hb
    unfold pollNonChild
    by_cases he : env.pidExists s.now = true
    · simp only [he, if_true, sleepStep]
      apply ih (s.advance c) (advance_interval_ge hg s hi)
      show e - (s.now + s.interval) ≤ (k : Rat) * Spec.i0
      push_cast at hb
      linarith
    · have he' : env.pidExists s.now = false := by simpa using he
      simp [he']

/-- the `while True` loop without a timeout: once the interruptions stop (`K`) and the process ends
    (`e`), `K − nWait` interrupted rounds, `B` polling rounds and one more suffice -/
theorem waitLoop_live (K : Nat) (hK : ∀ n, K ≤ n → env.eintr n = false) (e : Rat)
    (hx : env.kind = .neverExisted ∨ env.exitAt = some e) (B : Nat) :
    ∀ (fuel : Nat) (s : St), Spec.i0 ≤ s.interval → (K - s.nWait) + B + 1 ≤ fuel →
      e - s.now ≤ (B : Rat) * Spec.i0 →
      (waitLoop c env pid none stopAt fuel s).1 = expectedOut env := by
  intro fuel
  induction fuel with
  | zero => intro s _ hf _; omega
  | succ n ih =>
    intro s hi hf hb
    unfold waitLoop
    by_cases hint : env.eintr s.nWait = true
    · have hlt : s.nWait < K := by
        by_contra hge
        have := hK s.nWait (by omega)
        rw [this] at hint; cases hint
      simp only [hint, if_true, sleepStep]
      apply ih
      · exact advance_interval_ge hg _ hi
      · show K - (s.nWait + 1) + B + 1 ≤ n
        omega
      · show e - (s.now + s.interval) ≤ (B : Rat) * Spec.i0
        linarith [i0_pos]
    · have hint' : env.eintr s.nWait = false := by simpa using hint
      simp only [hint', Bool.false_eq_true, if_false]
      unfold expectedOut
      cases hk : env.kind with
      | child st =>
        simp only
        rcases hx with hx | hx
        · rw [hk] at hx; cases hx
        · simp [hx]
      | nonChild =>
        simp only
        refine pollNonChild_live hg env pid stopAt e hx n { s with nWait := s.nWait + 1 } hi ?_
        show e - s.now ≤ (n : Rat) * Spec.i0
        have : (B : Rat) ≤ (n : Rat) := by exact_mod_cast (by omega : B ≤ n)
        nlinarith [i0_pos]
      | neverExisted =>
        simp only
        refine pollNonChild_live hg env pid stopAt e hx n { s with nWait := s.nWait + 1 } hi ?_
        show e - s.now ≤ (n : Rat) * Spec.i0
        have : (B : Rat) ≤ (n : Rat) := by exact_mod_cast (by omega : B ≤ n)
        nlinarith [i0_pos]

end

/-! ### a PID that never existed, first waitpid call interrupted: NOT at once -/

/-- never existed; the first `os.waitpid` call is interrupted -/
def neverEintrEnv : Env := ⟨.neverExisted, none, fun n => n == 0⟩

theorem neverEintr_run {c : Cfg} (hg : c.Good) :
    (waitPid c neverEintrEnv 7 none 5 0 0).1 = .none ∧
    (waitPid c neverEintrEnv 7 none 5 0 0).2.sleeps = [c.i0] := by
  simp [waitPid, waitLoop, neverEintrEnv, sleepStep, pollNonChild, Env.pidExists, St.advance]

end Psutil.C15
