/-
  Proofs/C17Mnt.lean — the mount-line round trip (round 2): glibc's field split + `decode_name` (Model/C17Ext §13)
  undo the kernel's escaping (Spec/C17Ext `renderMnt`) for EVERY mount entry.
-/
import PsutilModel.Proofs.C17Ext
namespace Psutil.C17
open Spec

theorem decodeName_plain (f c : Nat) (r : Bytes) (h : c ≠ 92) :
    decodeName (f + 1) (c :: r) = c :: decodeName f r := by
  rw [decodeName.eq_def]
  split <;> simp_all

theorem decodeName_escape (f c : Nat) (r : Bytes) :
    decodeName (f + 1) (escapeByte c ++ r) = c :: decodeName f r := by
  unfold escapeByte
  by_cases h32 : c = 32
  · subst h32; simp [decodeName]
  · by_cases h9 : c = 9
    · subst h9; simp [decodeName]
    · by_cases h10 : c = 10
      · subst h10; simp [decodeName]
      · by_cases h92 : c = 92
        · subst h92; simp [decodeName]
        · simp only [h32, h9, h10, h92, if_false, List.singleton_append]
          exact decodeName_plain f c r h92

theorem decodeName_nil (f : Nat) : decodeName f [] = [] := by
  cases f <;> simp [decodeName]

/-- glibc's `decode_name` undoes the kernel's escaping, for every byte string -/
theorem decodeName_escapeName (b : Bytes) : ∀ f, b.length ≤ f → decodeName f (escapeName b) = b := by
  induction b with
  | nil => intro f _; exact decodeName_nil f
  | cons c b ih =>
    intro f hf
    obtain ⟨f', rfl⟩ : ∃ f', f = f' + 1 := ⟨f - 1, by simp at hf; omega⟩
    have : escapeName (c :: b) = escapeByte c ++ escapeName b := by simp [escapeName]
    rw [this, decodeName_escape, ih f' (by simp at hf; omega)]

theorem escapeByte_length_pos (c : Nat) : 1 ≤ (escapeByte c).length := by
  unfold escapeByte; split <;> (try split) <;> (try split) <;> (try split) <;> simp

theorem escapeName_length (b : Bytes) : b.length ≤ (escapeName b).length := by
  induction b with
  | nil => simp [escapeName]
  | cons c b ih =>
    have : escapeName (c :: b) = escapeByte c ++ escapeName b := by simp [escapeName]
    rw [this, List.length_append, List.length_cons]
    have := escapeByte_length_pos c
    omega

theorem takeWhile_prefix {α} (p : α → Bool) (l : List α) (a : α) (r : List α)
    (hl : ∀ x ∈ l, p x = true) (ha : p a = false) : (l ++ a :: r).takeWhile p = l := by
  induction l with
  | nil => simp [ha]
  | cons x l ih =>
    have hx := hl x (by simp)
    simp only [List.cons_append, List.takeWhile_cons, hx, if_true]
    rw [ih (fun y hy => hl y (by simp [hy]))]

/-- one field followed by a blank: the token is the field, decoded; the rest is what follows -/
theorem nextField_escaped (x rest : Bytes) :
    nextField (some (escapeName x ++ 32 :: rest)) = (x, some (skipBlanks rest)) := by
  have htw : (escapeName x ++ 32 :: rest).takeWhile (fun c => !isBlank c) = escapeName x :=
    takeWhile_prefix _ _ _ _ (fun y hy => by simp [isBlank_escapeName x y hy]) (by decide)
  simp only [nextField, strsepBlank, htw]
  have : (escapeName x).length < (escapeName x ++ 32 :: rest).length := by simp
  simp only [this, if_true, Option.map_some]
  rw [decodeName_escapeName x _ (by have := escapeName_length x; omega)]
  simp

theorem escapeName_head (b : Bytes) (hb : b ≠ []) (h35 : b.head? ≠ some 35) :
    ∃ c t, escapeName b = c :: t ∧ c ≠ 35 ∧ isBlank c = false := by
  cases b with
  | nil => exact absurd rfl hb
  | cons d ds =>
    have e : escapeName (d :: ds) = escapeByte d ++ escapeName ds := by simp [escapeName]
    have hd : d ≠ 35 := by simpa using h35
    rw [e]
    unfold escapeByte
    by_cases h32 : d = 32
    · exact ⟨92, 48 :: 52 :: 48 :: escapeName ds, by simp [h32], by decide, by decide⟩
    · by_cases h9 : d = 9
      · exact ⟨92, 48 :: 49 :: 49 :: escapeName ds, by simp [h9], by decide, by decide⟩
      · by_cases h10 : d = 10
        · exact ⟨92, 48 :: 49 :: 50 :: escapeName ds, by simp [h10], by decide, by decide⟩
        · by_cases h92 : d = 92
          · exact ⟨92, 49 :: 51 :: 52 :: escapeName ds, by simp [h92], by decide, by decide⟩
          · exact ⟨d, escapeName ds, by simp [h32, h9, h10, h92], hd, by simp [isBlank, h32, h9]⟩

theorem skipBlanks_escaped (b rest : Bytes) (hb : b ≠ []) : skipBlanks (escapeName b ++ rest) = escapeName b ++ rest := by
  cases b with
  | nil => exact absurd rfl hb
  | cons d ds =>
    have hne : escapeName (d :: ds) ≠ [] := by
      have := escapeName_length (d :: ds); intro h; rw [h] at this; simp at this
    cases he : escapeName (d :: ds) with
    | nil => exact absurd he hne
    | cons c t =>
      have hc : isBlank c = false := isBlank_escapeName (d :: ds) c (by rw [he]; simp)
      simp [skipBlanks, hc]


theorem chop_nonblank_end (l : Bytes) (c : Nat) (hc : isBlank c = false) :
    ((l ++ [c]).reverse.dropWhile isBlank).reverse = l ++ [c] := by
  simp [hc]

/-- **round trip** — a mount entry rendered the way the kernel prints it decodes to itself -/
theorem mntLine_renderMnt (B : Nat) (m : Mnt) (h1 : m.dev ≠ []) (h2 : m.dir ≠ []) (h3 : m.typ ≠ [])
    (h4 : m.opts ≠ []) (h35 : m.dev.head? ≠ some 35) (hB : (renderMnt m).length < B) (term : Bool) :
    mntLine B (renderMnt m) term = some m := by
  have hw := fgetsLine_whole B (renderMnt m) term hB
  obtain ⟨w, hfl⟩ : ∃ w, fgetsLine B (renderMnt m) term = (renderMnt m, w) :=
    ⟨(fgetsLine B (renderMnt m) term).2, Prod.ext hw rfl⟩
  have hshape : renderMnt m = escapeName m.dev ++ 32 :: (escapeName m.dir ++ 32 :: (escapeName m.typ ++ 32 ::
      (escapeName m.opts ++ 32 :: [48, 32, 48]))) := by
    simp [renderMnt, List.append_assoc]
  have hend : renderMnt m = (escapeName m.dev ++ [32] ++ escapeName m.dir ++ [32] ++ escapeName m.typ ++ [32]
      ++ escapeName m.opts ++ [32, 48, 32]) ++ [48] := by
    simp [renderMnt, List.append_assoc]
  have hchop : (if w = true then ((renderMnt m).reverse.dropWhile isBlank).reverse else renderMnt m) = renderMnt m := by
    cases w
    · simp
    · simp only [if_true]
      rw [hend]
      exact chop_nonblank_end _ 48 (by decide)
  obtain ⟨c, t, hct, hc35, hcb⟩ := escapeName_head m.dev h1 h35
  unfold mntLine
  simp only [hfl, hchop]
  have hskip : skipBlanks (renderMnt m) = renderMnt m := by
    rw [hshape]; exact skipBlanks_escaped m.dev _ h1
  rw [hskip]
  have hcons : renderMnt m = c :: (t ++ 32 :: (escapeName m.dir ++ 32 :: (escapeName m.typ ++ 32 ::
      (escapeName m.opts ++ 32 :: [48, 32, 48])))) := by
    rw [hshape, hct]; simp
  split
  · rename_i heq; rw [hcons] at heq; cases heq
  · rename_i heq; rw [hcons] at heq; injection heq with ha _; exact absurd ha hc35
  · rw [hshape, nextField_escaped, skipBlanks_escaped _ _ h2, nextField_escaped, skipBlanks_escaped _ _ h3,
      nextField_escaped, skipBlanks_escaped _ _ h4, nextField_escaped]

end Psutil.C17
