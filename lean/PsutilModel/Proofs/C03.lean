/-
  Proofs/C03.lean — the program logic used by the C03 theorems.

  `Tri E m Q`: started in any state whose oneshot cache is well-formed, under any admissible
  fault plan, `m` either returns a value satisfying `Q` or raises an exception `e` with
  `E ctx k e` (k = access counter at the raise), and leaves the cache well-formed.

  Exception post-conditions:
    `PsOnly p`  — only NoSuchProcess / ZombieProcess / AccessDenied carrying pid `p`
    `ExcOK p`   — what a body under `wrap_exceptions` may raise so that the wrapper turns it
                  into `PsOnly p`: PermissionError, ProcessLookupError, psutil errors for `p`,
                  or FileNotFoundError *at a point where both probes of the handler fail or see a
                  zombie* (`FnfSafe`)
    `ExcLax p`  — like `ExcOK` but FileNotFoundError unconditionally (inside a local try/except
                  that catches it)
-/
import PsutilModel.Model.C03
import PsutilModel.Spec.C03
namespace Psutil.C03
open Spec

/-! ## the configuration the theorems are proved for -/

/-- the two facts the theorems are proved for BOTH values of: HAS_PROC_SMAPS_ROLLUP (host dependent) and whether
    is_running() carries the repair of finding C03-denied-probe-reads-as-reuse (`Cfg.probeLenient`; false for the
    source as it is, true once the candidate fixes/C03-denied-probe-lenient.rejected.diff (not proposed: it conflicts with C05/C01, see notes/C03.md) has landed) -/
structure Host where
  rollup : Bool
  lenient : Bool
  deriving DecidableEq, Repr

/-- the expected translator output -/
def goodCfg (h : Host) : Cfg :=
  { wrapClauses := [("PermissionError", ["raise AccessDenied"]),
                    ("ProcessLookupError", ["_raise_if_zombie", "raise NoSuchProcess"]),
                    ("FileNotFoundError", ["_raise_if_zombie", "if not exists(stat): raise NoSuchProcess", "raise"])]
    isZombieCatch := ["OSError"]
    readlinkCatch := ["FileNotFoundError", "ProcessLookupError"]
    threadsCatch := ["FileNotFoundError", "ProcessLookupError"]
    ofLinkCatch := ["FileNotFoundError", "ProcessLookupError"]
    ofInfoCatch := ["FileNotFoundError", "ProcessLookupError"]
    inodesCatch := ["FileNotFoundError", "ProcessLookupError"]
    fullInfoCatch := ["ProcessLookupError", "FileNotFoundError"]
    ppidMapCatch := ["FileNotFoundError", "ProcessLookupError", "PermissionError"]
    asDictCatch := ["AccessDenied", "ZombieProcess"]
    iterCatch := ["NoSuchProcess"]
    childrenCatch := ["NoSuchProcess", "ZombieProcess"]
    childrenRecCatch := ["NoSuchProcess", "ZombieProcess"]
    parentCatch := ["NoSuchProcess"]
    parentsCatch := []
    initClauses := [(["AccessDenied"], "pass"), (["ZombieProcess"], "pass"), (["NoSuchProcess"], "raise NoSuchProcess")]
    runningClauses := [(["ZombieProcess"], "return True"), (["NoSuchProcess"], "return False")]
    nameCatch := ["AccessDenied", "ZombieProcess"]
    statusCatch := ["ZombieProcess"]
    exeCatch := ["AccessDenied"]
    exeGuessCatch := ["AccessDenied"]
    guessClauses := []
    guessTailRaises := true
    wrapped := ["_parse_smaps", "_parse_stat_file", "_read_smaps_file", "_read_status_file", "cmdline",
                "cpu_affinity_get", "cpu_affinity_set", "cpu_num", "cpu_times", "create_time", "cwd", "environ",
                "exe", "gids", "io_counters", "ionice_get", "ionice_set", "memory_full_info", "memory_info",
                "memory_maps", "name", "net_connections", "nice_get", "nice_set", "num_ctx_switches", "num_fds",
                "num_threads", "open_files", "ppid", "rlimit", "status", "terminal", "threads", "uids", "wait"]
    memoized := ["_parse_stat_file", "_read_smaps_file", "_read_status_file"]
    feMemoized := ["cpu_times", "memory_info", "ppid", "uids"]
    hasRollup := h.rollup
    goneGuard := true
    childrenPopSelf := true
    probeLenient := h.lenient
    asDictSkipCatch := ["NotImplementedError"]
    asDictSkipRule := "if attrs: raise; continue"
    parentRootGuard := true
    lazyBodies := []
    existsStrictClauses := [(["PermissionError"], "raise"), (["OSError"], "return False")] }

/-- the source before /repo d7107b4: the lowest-PID stop of parent() answers None without any identity probe -/
def preRootGuardCfg (h : Host) : Cfg :=
  { goodCfg h with parentRootGuard := false }

/-- the source before the repair of lead L3: ppid_map() tolerates only ENOENT / ESRCH -/
def preFixCfg (h : Host) : Cfg :=
  { goodCfg h with ppidMapCatch := ["FileNotFoundError", "ProcessLookupError"] }

/-! ## state of a process at an access index -/

/-- state of process `p` when the target is in state `st` (unknown pid = gone) -/
def pstOf (w : World) (st : WS) (p : Nat) : WS :=
  match w.state st p with
  | some (s, _) => s
  | none => .gone

def pst (c : Ctx) (k : Nat) (p : Nat) : WS := pstOf c.w (c.ws k) p

theorem pstOf_cases (w : World) (st : WS) (p : Nat) :
    pstOf w st p = st ∨ (∀ st', pstOf w st' p = pstOf w st p) := by
  unfold pstOf World.state
  cases w.info p with
  | none => right; intro _; rfl
  | some i =>
    by_cases h : (p == w.target) = true
    · left; simp [h]
    · right; intro st'; simp [h]

theorem pst_mono {c : Ctx} (h : Adm c) {i j : Nat} (hij : i ≤ j) (p : Nat) :
    (pst c i p).rank ≤ (pst c j p).rank := by
  unfold pst pstOf World.state
  cases c.w.info p with
  | none => exact Nat.le_refl _
  | some inf =>
    by_cases hp : (p == c.w.target) = true
    · simp only [hp, if_true]; exact h.mono i j hij
    · simp only [hp]; exact Nat.le_refl _

theorem pst_gone_mono {c : Ctx} (h : Adm c) {i j : Nat} (hij : i ≤ j) {p : Nat}
    (hg : pst c i p = .gone) : pst c j p = .gone := by
  have := pst_mono h hij p
  rw [hg] at this
  cases hj : pst c j p <;> simp [hj, WS.rank] at this ⊢

theorem pst_not_alive_mono {c : Ctx} (h : Adm c) {i j : Nat} (hij : i ≤ j) {p : Nat}
    (hg : pst c i p ≠ .alive) : pst c j p ≠ .alive := by
  have := pst_mono h hij p
  intro hj
  rw [hj] at this
  cases hi : pst c i p <;> simp [hi, WS.rank] at this hg

/-- a FileNotFoundError raised at access counter `k` is harmless for `wrap_exceptions` of `p`:
    `p` is not alive any more, and if it is (still) a zombie no later access is refused -/
def FnfSafe (c : Ctx) (k : Nat) (p : Nat) : Prop :=
  pst c k p ≠ .alive ∧ (pst c k p = .zombie → ∀ j, k ≤ j → c.deny j = none)

theorem fnfSafe_mono {c : Ctx} (h : Adm c) {i j : Nat} (hij : i ≤ j) {p : Nat}
    (hs : FnfSafe c i p) : FnfSafe c j p := by
  refine ⟨pst_not_alive_mono h hij hs.1, fun hz l hl => ?_⟩
  have hi : pst c i p = .zombie := by
    have := pst_mono h hij p
    rw [hz] at this
    cases hi : pst c i p
    · exact absurd hi hs.1
    · rfl
    · simp [hi, WS.rank] at this
  exact hs.2 hi l (Nat.le_trans hij hl)

theorem fnfSafe_of_gone {c : Ctx} {k p : Nat} (hg : pst c k p = .gone) : FnfSafe c k p :=
  ⟨by rw [hg]; decide, by rw [hg]; intro h; cases h⟩

/-! ## exception post-conditions -/

def PsOnly (p : Nat) : Ctx → Nat → PyExc → Prop := fun _ _ e =>
  e = .nsp p ∨ e = .zombie p ∨ e = .ad p

def ExcOK (p : Nat) : Ctx → Nat → PyExc → Prop := fun c k e =>
  match e with
  | .perm => True
  | .ple => True
  | .nsp q => q = p
  | .zombie q => q = p
  | .ad q => q = p
  | .fnf => FnfSafe c k p
  | _ => False

def ExcLax (p : Nat) : Ctx → Nat → PyExc → Prop := fun _ _ e =>
  match e with
  | .perm => True
  | .ple => True
  | .fnf => True
  | .nsp q => q = p
  | .zombie q => q = p
  | .ad q => q = p
  | _ => False

theorem psOnly_excOK {p : Nat} {c : Ctx} {k : Nat} {e : PyExc} (h : PsOnly p c k e) : ExcOK p c k e := by
  rcases h with h | h | h <;> subst h <;> simp [ExcOK]

theorem excOK_lax {p : Nat} {c : Ctx} {k : Nat} {e : PyExc} (h : ExcOK p c k e) : ExcLax p c k e := by
  cases e <;> simp_all [ExcOK, ExcLax]

theorem excOK_mono {p : Nat} {c : Ctx} (ha : Adm c) {i j : Nat} (hij : i ≤ j) {e : PyExc}
    (h : ExcOK p c i e) : ExcOK p c j e := by
  cases e <;> simp_all [ExcOK]
  exact fnfSafe_mono ha hij h

/-! ## triples -/

/-- the only cached datum whose shape a consumer relies on: the status file is never empty -/
def CacheInv (k : Cache) : Prop := ∀ x, k.status = some x → x = .text

theorem cacheInv_empty : CacheInv {} := by intro x h; cases h

def Tri (E : Ctx → Nat → PyExc → Prop) (m : M α) (Q : α → Prop) : Prop :=
  ∀ c s, Adm c → CacheInv s.cache →
    match m c s with
    | (.ok a, s') => Q a ∧ CacheInv s'.cache
    | (.error e, s') => E c s'.k e ∧ CacheInv s'.cache

theorem tri_pure {E : Ctx → Nat → PyExc → Prop} {Q : α → Prop} {a : α} (h : Q a) :
    Tri E (pure a : M α) Q := by
  intro c s _ hi; exact ⟨h, hi⟩

theorem tri_throw {E : Ctx → Nat → PyExc → Prop} {Q : α → Prop} {e : PyExc}
    (h : ∀ c k, E c k e) : Tri E (throw e : M α) Q := by
  intro c s _ hi; exact ⟨h c s.k, hi⟩

theorem tri_bind {E : Ctx → Nat → PyExc → Prop} {m : M α} {f : α → M β} {Q : α → Prop} {R : β → Prop}
    (hm : Tri E m Q) (hf : ∀ a, Q a → Tri E (f a) R) : Tri E (m >>= f) R := by
  intro c s ha hi
  have h1 := hm c s ha hi
  show match M.bind m f c s with
    | (.ok a, s') => R a ∧ CacheInv s'.cache
    | (.error e, s') => E c s'.k e ∧ CacheInv s'.cache
  unfold M.bind
  rcases hr : m c s with ⟨r, s'⟩
  rw [hr] at h1
  cases r with
  | error e => exact h1
  | ok a => exact hf a h1.1 c s' ha h1.2

theorem tri_weaken {E E' : Ctx → Nat → PyExc → Prop} {m : M α} {Q Q' : α → Prop}
    (hm : Tri E m Q) (hE : ∀ c k e, E c k e → E' c k e) (hQ : ∀ a, Q a → Q' a) : Tri E' m Q' := by
  intro c s ha hi
  have h1 := hm c s ha hi
  rcases hr : m c s with ⟨r, s'⟩
  rw [hr] at h1
  cases r with
  | error e => exact ⟨hE _ _ _ h1.1, h1.2⟩
  | ok a => exact ⟨hQ _ h1.1, h1.2⟩

theorem tri_post {E : Ctx → Nat → PyExc → Prop} {m : M α} {Q Q' : α → Prop}
    (hm : Tri E m Q) (hQ : ∀ a, Q a → Q' a) : Tri E m Q' :=
  tri_weaken hm (fun _ _ _ h => h) hQ

theorem tri_exc {E E' : Ctx → Nat → PyExc → Prop} {m : M α} {Q : α → Prop}
    (hm : Tri E m Q) (hE : ∀ c k e, E c k e → E' c k e) : Tri E' m Q :=
  tri_weaken hm hE (fun _ h => h)

/-- try/except whose handlers are safe wherever they start -/
theorem tri_tryCatch {E E' : Ctx → Nat → PyExc → Prop} {m : M α} {h : PyExc → Option (M α)} {Q : α → Prop}
    (hm : Tri E' m Q)
    (hnone : ∀ e, h e = none → ∀ c k, E' c k e → E c k e)
    (hsome : ∀ e m', h e = some m' → (∃ c k, E' c k e) → Tri E m' Q) : Tri E (tryCatch m h) Q := by
  intro c s ha hi
  have h1 := hm c s ha hi
  unfold tryCatch
  rcases hr : m c s with ⟨r, s'⟩
  rw [hr] at h1
  cases r with
  | ok a => exact h1
  | error e =>
    simp only
    cases hh : h e with
    | none => exact ⟨hnone e hh c _ h1.1, h1.2⟩
    | some m' => exact hsome e m' hh ⟨c, _, h1.1⟩ c s' ha h1.2

theorem tri_ite {E : Ctx → Nat → PyExc → Prop} {b : Bool} {m1 m2 : M α} {Q : α → Prop}
    (h1 : b = true → Tri E m1 Q) (h2 : b = false → Tri E m2 Q) : Tri E (if b then m1 else m2) Q := by
  cases b
  · simpa using h2 rfl
  · simpa using h1 rfl

theorem tri_fresh {E : Ctx → Nat → PyExc → Prop} {m : M α} {Q : α → Prop} (hm : Tri E m Q) :
    Tri E (fresh m) Q := by
  intro c s ha hi
  have h1 := hm c { s with cache := {} } ha cacheInv_empty
  unfold fresh
  rcases hr : m c { s with cache := {} } with ⟨r, s'⟩
  rw [hr] at h1
  cases r with
  | ok a => exact ⟨h1.1, hi⟩
  | error e => exact ⟨h1.1, hi⟩

theorem tri_getCache {E : Ctx → Nat → PyExc → Prop} : Tri E getCache (fun k => CacheInv k) := by
  intro c s _ hi; exact ⟨hi, hi⟩

theorem tri_modifyCache {E : Ctx → Nat → PyExc → Prop} {f : Cache → Cache}
    (hf : ∀ k, CacheInv k → CacheInv (f k)) : Tri E (modifyCache f) (fun _ => True) := by
  intro c s _ hi; exact ⟨trivial, hf _ hi⟩

/-! ## one access -/

theorem toExc_cases (e : Errno) : e.toExc = .fnf ∨ e.toExc = .ple ∨ e.toExc = .perm := by
  cases e <;> simp [Errno.toExc]

/-- what one access can do -/
theorem access_spec (a : OsAcc) (tbl : World → WS → Except Errno α) (c : Ctx) (s : St) (ha : Adm c) :
    ∃ r s', access a tbl c s = (r, s') ∧ s'.k = s.k + 1 ∧ s'.cache = s.cache ∧
      (match r with
       | .ok v => tbl c.w (c.ws s.k) = .ok v ∧ (a.owner.isSome = true → c.deny s.k = none)
       | .error e =>
          (e = .perm ∧ a.owner.isSome = true ∧ c.deny s.k ≠ none) ∨
          (∃ en, tbl c.w (c.ws s.k) = .error en ∧ e = en.toExc ∧
                 (a.owner.isSome = true → c.deny s.k = none))) := by
  unfold access
  by_cases ho : a.owner.isSome = true
  · simp only [ho, if_true]
    cases hd : c.deny s.k with
    | some en =>
      refine ⟨_, _, rfl, rfl, rfl, ?_⟩
      left
      refine ⟨?_, trivial, by simp⟩
      rcases ha.deny.1 s.k en hd with h | h <;> subst h <;> rfl
    | none =>
      simp only
      cases ht : tbl c.w (c.ws s.k) with
      | ok v => exact ⟨_, _, rfl, rfl, rfl, by simp_all⟩
      | error en => exact ⟨_, _, rfl, rfl, rfl, Or.inr ⟨en, by simp_all⟩⟩
  · simp only [ho]
    cases ht : tbl c.w (c.ws s.k) with
    | ok v => exact ⟨_, _, rfl, rfl, rfl, by simp_all⟩
    | error en => exact ⟨_, _, rfl, rfl, rfl, Or.inr ⟨en, by simp_all⟩⟩

/-! ## behaviour-table facts -/

theorem tblOpen_file_err {w : World} {st : WS} {p : Nat} {f : PFile} {en : Errno}
    (h : tblOpen w st (.file p f) = .error en) :
    (en = .ENOENT ∧ pstOf w st p = .gone) ∨ (en = .ESRCH ∧ pstOf w st p = .zombie ∧ f ≠ .stat) := by
  unfold tblOpen at h; unfold pstOf
  cases hs : w.state st p with
  | none => simp [hs] at h ⊢; exact h.symm
  | some x =>
    obtain ⟨s', i⟩ := x
    cases s' <;> simp [hs] at h ⊢
    · split at h <;> simp at h
      rename_i hf
      refine ⟨h.symm, ?_⟩
      rcases hf with hf | hf <;> simp [hf]
    · exact h.symm

theorem tblRead_file_err {w : World} {st : WS} {p : Nat} {f : PFile} {en : Errno}
    (h : tblRead w st (.file p f) = .error en) :
    en = .ESRCH ∧ (f = .stat → pstOf w st p = .gone) := by
  unfold tblRead at h; unfold pstOf
  cases hs : w.state st p with
  | none => simp [hs] at h ⊢; exact h.symm
  | some x =>
    obtain ⟨s', i⟩ := x
    cases s' <;> cases f <;> simp [hs] at h ⊢ <;> exact h.symm

/-- shapes a successful read of /proc/<pid>/<f> can have -/
def okContent : PFile → Content → Prop
  | .stat, c => ∃ r, c = .stat r
  | .status, c => c = .text
  | .statm, c => c = .text
  | .io, c => c = .text
  | .cmdline, c => c = .empty ∨ ∃ n g, c = .args n g
  | .environ, c => c = .text ∨ c = .empty
  | .smaps, c => c = .text ∨ c = .empty
  | .smapsRollup, c => c = .text

theorem tblRead_file_ok {w : World} {st : WS} {p : Nat} {f : PFile} {x : Content}
    (h : tblRead w st (.file p f) = .ok x) : okContent f x := by
  unfold tblRead at h
  cases hs : w.state st p with
  | none => simp [hs] at h
  | some y =>
    obtain ⟨s', i⟩ := y
    cases s' <;> cases f <;> simp [hs] at h <;> subst h <;> (try split) <;> simp [okContent]

theorem tblRead_stat_ok {w : World} {st : WS} {p : Nat} {x : Content}
    (h : tblRead w st (.file p .stat) = .ok x) :
    ∃ r, x = .stat r ∧ (r.z = true ↔ pstOf w st p = .zombie) ∧ pstOf w st p ≠ .gone := by
  unfold tblRead at h; unfold pstOf
  cases hs : w.state st p with
  | none => simp [hs] at h
  | some y =>
    obtain ⟨s', i⟩ := y
    cases s' <;> simp [hs] at h <;> subst h <;> exact ⟨_, rfl, by simp, by simp⟩

theorem tblOpen_stat_ok {w : World} {st : WS} {p : Nat}
    (h : tblOpen w st (.file p .stat) = .ok ()) : pstOf w st p ≠ .gone := by
  unfold tblOpen at h; unfold pstOf
  cases hs : w.state st p with
  | none => simp [hs] at h
  | some y =>
    obtain ⟨s', i⟩ := y
    cases s' <;> simp [hs] at h ⊢

theorem tblStat_pid_err {w : World} {st : WS} {p : Nat} {en : Errno} {path : Path}
    (hp : path = .pidDir p ∨ path = .file p .stat)
    (h : tblStat w st path = .error en) : en = .ENOENT ∧ pstOf w st p = .gone := by
  unfold tblStat at h; unfold pstOf
  rcases hp with hp | hp <;> subst hp <;> simp only [Path.owner] at h
  all_goals
    cases hs : w.state st p with
    | none => simp [hs] at h ⊢; exact h.symm
    | some y =>
      obtain ⟨s', i⟩ := y
      cases s' <;> simp [hs] at h ⊢
      exact h.symm

theorem tblStat_gone {w : World} {st : WS} {p : Nat} {path : Path}
    (hp : path.owner = some p) (hg : pstOf w st p = .gone) : tblStat w st path = .error .ENOENT := by
  unfold tblStat; unfold pstOf at hg
  rw [hp]; simp only
  cases hs : w.state st p with
  | none => simp
  | some y =>
    obtain ⟨s', i⟩ := y
    simp [hs] at hg; subst hg; simp

theorem tblOpen_gone {w : World} {st : WS} {p : Nat} {f : PFile}
    (hg : pstOf w st p = .gone) : tblOpen w st (.file p f) = .error .ENOENT := by
  unfold tblOpen; unfold pstOf at hg
  cases hs : w.state st p with
  | none => simp [hs]
  | some y =>
    obtain ⟨s', i⟩ := y
    simp [hs] at hg; subst hg; simp [hs]

theorem tblListdir_dir_err {w : World} {st : WS} {p : Nat} {d : PDir} {en : Errno}
    (h : tblListdir w st (.dir p d) = .error en) : en = .ENOENT ∧ pstOf w st p = .gone := by
  unfold tblListdir at h; unfold pstOf
  cases d <;> simp only at h <;>
  cases hs : w.state st p with
  | none => simp [hs] at h ⊢; exact h.symm
  | some y =>
    obtain ⟨s', i⟩ := y
    cases s' <;> simp [hs] at h ⊢
    exact h.symm

theorem tblNative_err {w : World} {st : WS} {p : Nat} {en : Errno}
    (h : tblNative w st p = .error en) : en = .ESRCH := by
  unfold tblNative at h
  cases hs : w.state st p with
  | none => simp [hs] at h; exact h.symm
  | some y =>
    obtain ⟨s', i⟩ := y
    cases s' <;> simp [hs] at h
    exact h.symm

theorem tblReadlink_link_err {w : World} {st : WS} {p : Nat} {l : PLink} {en : Errno}
    (h : tblReadlink w st (.link p l) = .error en) : en = .ENOENT ∧ pstOf w st p ≠ .alive := by
  unfold tblReadlink at h; unfold pstOf
  cases hs : w.state st p with
  | none => simp [hs] at h ⊢; exact h.symm
  | some y =>
    obtain ⟨s', i⟩ := y
    cases s' <;> simp [hs] at h ⊢ <;> exact h.symm

/-! ## triples for single accesses -/

def OsOnly : Ctx → Nat → PyExc → Prop := fun _ _ e => e = .fnf ∨ e = .ple ∨ e = .perm

theorem osOnly_lax {p : Nat} {c : Ctx} {k : Nat} {e : PyExc} (h : OsOnly c k e) : ExcLax p c k e := by
  rcases h with h | h | h <;> subst h <;> simp [ExcLax]

/-- any access raises only bare OSErrors; its value comes from the table -/
theorem tri_access_os {α : Type} (a : OsAcc) (tbl : World → WS → Except Errno α) (Q : α → Prop)
    (hok : ∀ w st v, tbl w st = .ok v → Q v) : Tri OsOnly (access a tbl) Q := by
  intro c s ha hi
  obtain ⟨r, s', h, hk, hc, hr⟩ := access_spec a tbl c s ha
  rw [h]
  cases r with
  | ok v => exact ⟨hok _ _ _ hr.1, by rw [hc]; exact hi⟩
  | error e =>
    refine ⟨?_, by rw [hc]; exact hi⟩
    rcases hr with ⟨he, _⟩ | ⟨en, _, he, _⟩
    · exact Or.inr (Or.inr he)
    · rw [he]; exact toExc_cases en

theorem tri_access_lax {α : Type} {p : Nat} (a : OsAcc) (tbl : World → WS → Except Errno α) (Q : α → Prop)
    (hok : ∀ w st v, tbl w st = .ok v → Q v) : Tri (ExcLax p) (access a tbl) Q :=
  tri_exc (tri_access_os a tbl Q hok) (fun _ _ _ h => osOnly_lax h)

/-- an access whose ENOENT means "process `p` is gone" is safe under `wrap_exceptions` of `p` -/
theorem tri_access_good {α : Type} {p : Nat} (a : OsAcc) (tbl : World → WS → Except Errno α) (Q : α → Prop)
    (herr : ∀ w st en, tbl w st = .error en → en = .ESRCH ∨ (en = .ENOENT ∧ pstOf w st p = .gone))
    (hok : ∀ w st v, tbl w st = .ok v → Q v) : Tri (ExcOK p) (access a tbl) Q := by
  intro c s ha hi
  obtain ⟨r, s', h, hk, hc, hr⟩ := access_spec a tbl c s ha
  rw [h]
  cases r with
  | ok v => exact ⟨hok _ _ _ hr.1, by rw [hc]; exact hi⟩
  | error e =>
    refine ⟨?_, by rw [hc]; exact hi⟩
    rcases hr with ⟨he, _⟩ | ⟨en, ht, he, _⟩
    · subst he; simp [ExcOK]
    · rcases herr _ _ _ ht with hen | ⟨hen, hg⟩
      · subst hen; subst he; simp [ExcOK, Errno.toExc]
      · subst hen; subst he
        simp only [ExcOK, Errno.toExc]
        rw [hk]
        exact fnfSafe_of_gone (pst_gone_mono ha (Nat.le_succ _) hg)

theorem bind_eq {α β : Type} (m : M α) (f : α → M β) : (m >>= f) = M.bind m f := rfl
theorem pure_eq {α : Type} (a : α) : (pure a : M α) = M.pure a := rfl

theorem tri_readFile_file {p : Nat} (f : PFile) : Tri (ExcOK p) (readFile (.file p f)) (okContent f) := by
  unfold readFile
  refine tri_bind (Q := fun _ => True) ?_ (fun _ _ => ?_)
  · exact tri_access_good _ _ _ (fun w st en h => by
      rcases tblOpen_file_err h with ⟨h1, h2⟩ | ⟨h1, _⟩
      · exact Or.inr ⟨h1, h2⟩
      · exact Or.inl h1) (fun _ _ _ _ => trivial)
  · exact tri_access_good _ _ _ (fun w st en h => Or.inl (tblRead_file_err h).1)
      (fun _ _ _ h => tblRead_file_ok h)

theorem tri_readFile_lax {p : Nat} (path : Path) (Q : Content → Prop)
    (hok : ∀ w st v, tblRead w st path = .ok v → Q v) : Tri (ExcLax p) (readFile path) Q := by
  unfold readFile
  refine tri_bind (Q := fun _ => True) ?_ (fun _ _ => ?_)
  · exact tri_access_lax _ _ _ (fun _ _ _ _ => trivial)
  · exact tri_access_lax _ _ _ hok

theorem tri_listdir_dir {p : Nat} (d : PDir) : Tri (ExcOK p) (accListdir (.dir p d)) (fun _ => True) :=
  tri_access_good _ _ _ (fun _ _ _ h => Or.inr (tblListdir_dir_err h)) (fun _ _ _ _ => trivial)

theorem tri_raiseIfNotAlive {p : Nat} : Tri (ExcOK p) (raiseIfNotAlive p) (fun _ => True) :=
  tri_access_good _ _ _ (fun _ _ _ h => Or.inr (tblStat_pid_err (Or.inl rfl) h)) (fun _ _ _ _ => trivial)

theorem tri_native {p : Nat} (n : Native) : Tri (ExcOK p) (accNative n p) (fun _ => True) :=
  tri_access_good _ _ _ (fun _ _ _ h => Or.inl (tblNative_err h)) (fun _ _ _ _ => trivial)

/-! ## the two probes of the `wrap_exceptions` handler -/

theorem catches_os (en : Errno) : catches ["OSError"] en.toExc = true := by cases en <;> rfl
theorem catches_os2 (en : Errno) : catches ["OSError", "ValueError"] en.toExc = true := by cases en <;> rfl

theorem denyOnce_after {c : Ctx} (ha : Adm c) {i : Nat} (h : c.deny i ≠ none) {j : Nat} (hj : i < j) :
    c.deny j = none := by
  cases hi : c.deny i with
  | none => exact absurd hi h
  | some e =>
    cases hjv : c.deny j with
    | none => rfl
    | some e' => have := ha.deny.2 i j e e' hi hjv; omega

/-- `_is_zombie` never raises; started where a FileNotFoundError is harmless (`FnfSafe`) it
    answers True or leaves the process gone -/
theorem isZombie_run (r : Host) (p : Nat) (c : Ctx) (s : St) (ha : Adm c) :
    ∃ b s', isZombie (goodCfg r) p c s = (.ok b, s') ∧ s'.cache = s.cache ∧ s.k ≤ s'.k ∧
      (FnfSafe c s.k p → b = true ∨ pst c s'.k p = .gone) := by
  obtain ⟨r1, s1, h1, hk1, hc1, hr1⟩ :=
    access_spec (.fs .openF (.file p .stat)) (fun w st => tblOpen w st (.file p .stat)) c s ha
  obtain ⟨r2, s2, h2, hk2, hc2, hr2⟩ :=
    access_spec (.fs .readF (.file p .stat)) (fun w st => tblRead w st (.file p .stat)) c s1 ha
  unfold isZombie readFile accOpen accRead tryCatch
  simp only [bind_eq, pure_eq, M.bind, M.pure, h1]
  cases r1 with
  | error e =>
    simp only
    have hc : catches (goodCfg r).isZombieCatch e = true := by
      rcases hr1 with ⟨he, _⟩ | ⟨en, _, he, _⟩
      · subst he; rfl
      · subst he; exact catches_os en
    simp only [hc, if_true]
    refine ⟨false, s1, rfl, hc1, by omega, fun hs => Or.inr ?_⟩
    rw [hk1]
    rcases hr1 with ⟨_, _, hd⟩ | ⟨en, ht, _, _⟩
    · -- refused: then the process cannot be a zombie here (FnfSafe), so it is gone
      cases hp : pst c s.k p with
      | alive => exact absurd hp hs.1
      | zombie => exact absurd (hs.2 hp s.k (Nat.le_refl _)) hd
      | gone => exact pst_gone_mono ha (Nat.le_succ _) hp
    · rcases tblOpen_file_err ht with ⟨_, hg⟩ | ⟨_, _, hne⟩
      · exact pst_gone_mono ha (Nat.le_succ _) hg
      · exact absurd rfl hne
  | ok u =>
    simp only [h2]
    cases r2 with
    | error e =>
      simp only
      have hc : catches (goodCfg r).isZombieCatch e = true := by
        rcases hr2 with ⟨he, _⟩ | ⟨en, _, he, _⟩
        · subst he; rfl
        · subst he; exact catches_os en
      simp only [hc, if_true]
      refine ⟨false, s2, rfl, by rw [hc2, hc1], by omega, fun hs => Or.inr ?_⟩
      have hng : pst c s.k p ≠ .gone := tblOpen_stat_ok hr1.1
      have hz : pst c s.k p = .zombie := by
        cases hp : pst c s.k p with
        | alive => exact absurd hp hs.1
        | zombie => rfl
        | gone => exact absurd hp hng
      rcases hr2 with ⟨_, _, hd⟩ | ⟨en, ht, _, _⟩
      · exact absurd (hs.2 hz s1.k (by omega)) hd
      · have hg : pst c s1.k p = .gone := (tblRead_file_err ht).2 rfl
        exact pst_gone_mono ha (by omega) hg
    | ok x =>
      simp only
      obtain ⟨rec, hx, hzz, hng1⟩ := tblRead_stat_ok hr2.1
      subst hx
      refine ⟨rec.z, s2, rfl, by rw [hc2, hc1], by omega, fun hs => Or.inl ?_⟩
      have hng : pst c s.k p ≠ .gone := tblOpen_stat_ok hr1.1
      have hz : pst c s.k p = .zombie := by
        cases hp : pst c s.k p with
        | alive => exact absurd hp hs.1
        | zombie => rfl
        | gone => exact absurd hp hng
      have h1z : pst c s1.k p ≠ .alive := pst_not_alive_mono ha (by omega) hs.1
      apply hzz.2
      show pst c s1.k p = .zombie
      cases hp : pst c s1.k p with
      | alive => exact absurd hp h1z
      | zombie => rfl
      | gone => exact absurd hp hng1

/-- `_raise_if_zombie` raises nothing but ZombieProcess(p) -/
theorem raiseIfZombie_run (r : Host) (p : Nat) (c : Ctx) (s : St) (ha : Adm c) :
    ∃ res s', raiseIfZombie (goodCfg r) p c s = (res, s') ∧ s'.cache = s.cache ∧ s.k ≤ s'.k ∧
      (res = .ok () ∨ res = .error (.zombie p)) ∧
      (FnfSafe c s.k p → res = .error (.zombie p) ∨ pst c s'.k p = .gone) := by
  obtain ⟨b, s', h, hc, hk, hf⟩ := isZombie_run r p c s ha
  unfold raiseIfZombie
  simp only [bind_eq, pure_eq, M.bind, h]
  cases b with
  | true => exact ⟨_, s', rfl, hc, hk, Or.inr rfl, fun _ => Or.inl rfl⟩
  | false =>
    refine ⟨_, s', rfl, hc, hk, Or.inl rfl, fun hs => Or.inr ?_⟩
    rcases hf hs with h | h
    · cases h
    · exact h

theorem tri_raiseIfZombie {E : Ctx → Nat → PyExc → Prop} (r : Host) (p : Nat)
    (hE : ∀ c k, E c k (.zombie p)) : Tri E (raiseIfZombie (goodCfg r) p) (fun _ => True) := by
  intro c s ha hi
  obtain ⟨res, s', h, hc, _, hres, _⟩ := raiseIfZombie_run r p c s ha
  rw [h]
  rcases hres with h | h <;> subst h
  · exact ⟨trivial, by rw [hc]; exact hi⟩
  · exact ⟨hE _ _, by rw [hc]; exact hi⟩

/-- once `p` is gone, `os.path.exists(/proc/p/stat)` (and `lexists(/proc/p)`) is False -/
theorem pathExists_gone (p : Nat) (path : Path) (hp : path.owner = some p) (c : Ctx) (s : St) (ha : Adm c)
    (hg : pst c s.k p = .gone) :
    ∃ s', pathExists path c s = (.ok false, s') ∧ s'.cache = s.cache ∧ s'.k = s.k + 1 := by
  obtain ⟨r1, s1, h1, hk1, hc1, hr1⟩ :=
    access_spec (.fs .stat path) (fun w st => tblStat w st path) c s ha
  unfold pathExists accStat tryCatch
  simp only [bind_eq, pure_eq, M.bind, M.pure, h1]
  cases r1 with
  | ok u =>
    have := tblStat_gone (w := c.w) (st := c.ws s.k) hp hg
    rw [this] at hr1; cases hr1.1
  | error e =>
    simp only
    have hcat : catches ["OSError", "ValueError"] e = true := by
      rcases hr1 with ⟨he, _⟩ | ⟨en, _, he, _⟩
      · subst he; rfl
      · subst he; exact catches_os2 en
    simp only [hcat, if_true]
    exact ⟨s1, rfl, hc1, hk1⟩

/-! ## `wrap_exceptions` -/

theorem wrapSteps_ple (r : Host) (p : Nat) (α : Type) :
    (wrapSteps (goodCfg r) p .ple ["_raise_if_zombie", "raise NoSuchProcess"] : M α) =
      (raiseIfZombie (goodCfg r) p >>= fun _ => throw (.nsp p)) := by
  simp [wrapSteps]

theorem wrapSteps_fnf (r : Host) (p : Nat) (α : Type) :
    (wrapSteps (goodCfg r) p .fnf
        ["_raise_if_zombie", "if not exists(stat): raise NoSuchProcess", "raise"] : M α) =
      (raiseIfZombie (goodCfg r) p >>= fun _ =>
        pathExists (.file p .stat) >>= fun ex => if !ex then throw (.nsp p) else throw .fnf) := by
  rfl

/-- **wrap_safe**: a body that raises only what `ExcOK p` allows comes out of
    `@wrap_exceptions` raising only NoSuchProcess / ZombieProcess / AccessDenied for `p`.
    In particular the bare `raise` at the end of the FileNotFoundError clause is not reached. -/
theorem wrap_safe (r : Host) (p : Nat) {α : Type} {body : M α} {Q : α → Prop}
    (hb : Tri (ExcOK p) body Q) : Tri (PsOnly p) (wrapExceptions (goodCfg r) p body) Q := by
  intro c s ha hi
  have h1 := hb c s ha hi
  unfold wrapExceptions tryCatch
  rcases hr : body c s with ⟨res, s1⟩
  rw [hr] at h1
  cases res with
  | ok a => exact h1
  | error e =>
    simp only
    cases e with
    | perm =>
      simp [goodCfg, PyExc.bases, wrapSteps, throw, PsOnly]
      exact h1.2
    | ple =>
      have hfind : (goodCfg r).wrapClauses.find? (fun cl => PyExc.ple.bases.contains cl.1)
          = some ("ProcessLookupError", ["_raise_if_zombie", "raise NoSuchProcess"]) := by
        simp [goodCfg, PyExc.bases]
      simp only [hfind, wrapSteps_ple]
      obtain ⟨res, s2, h2, hc2, _, hres, _⟩ := raiseIfZombie_run r p c s1 ha
      simp only [bind_eq, M.bind, h2]
      rcases hres with h | h <;> subst h
      · simp only [throw]
        exact ⟨Or.inl rfl, by rw [hc2]; exact h1.2⟩
      · exact ⟨Or.inr (Or.inl rfl), by rw [hc2]; exact h1.2⟩
    | fnf =>
      have hfind : (goodCfg r).wrapClauses.find? (fun cl => PyExc.fnf.bases.contains cl.1)
          = some ("FileNotFoundError",
              ["_raise_if_zombie", "if not exists(stat): raise NoSuchProcess", "raise"]) := by
        simp [goodCfg, PyExc.bases]
      simp only [hfind, wrapSteps_fnf]
      have hsafe : FnfSafe c s1.k p := h1.1
      obtain ⟨res, s2, h2, hc2, _, hres, hz⟩ := raiseIfZombie_run r p c s1 ha
      simp only [bind_eq, M.bind, h2]
      rcases hz hsafe with h | hg
      · subst h
        exact ⟨Or.inr (Or.inl rfl), by rw [hc2]; exact h1.2⟩
      · rcases hres with h | h <;> subst h
        · obtain ⟨s3, h3, hc3, _⟩ := pathExists_gone p (.file p .stat) rfl c s2 ha hg
          simp only [h3, throw]
          exact ⟨Or.inl rfl, by rw [hc3, hc2]; exact h1.2⟩
        · exact ⟨Or.inr (Or.inl rfl), by rw [hc2]; exact h1.2⟩
    | nsp q =>
      have : q = p := h1.1
      subst this
      simp [goodCfg, PyExc.bases, PsOnly]
      exact h1.2
    | zombie q =>
      have : q = p := h1.1
      subst this
      simp [goodCfg, PyExc.bases, PsOnly]
      exact h1.2
    | ad q =>
      have : q = p := h1.1
      subst this
      simp [goodCfg, PyExc.bases, PsOnly]
      exact h1.2
    | indexError => exact absurd h1.1 (by simp [ExcOK])
    | valueError => exact absurd h1.1 (by simp [ExcOK])
    | keyError => exact absurd h1.1 (by simp [ExcOK])
    | typeError => exact absurd h1.1 (by simp [ExcOK])
    | runtimeError => exact absurd h1.1 (by simp [ExcOK])
    | notImplemented => exact absurd h1.1 (by simp [ExcOK])

/-- a decorated `_pslinux.Process` method -/
theorem W_safe (r : Host) (name : String) (p : Nat) {α : Type} {body : M α} {Q : α → Prop}
    (hw : (goodCfg r).wrapped.contains name = true)
    (hb : Tri (ExcOK p) body Q) : Tri (PsOnly p) (W (goodCfg r) name p body) Q := by
  unfold W; rw [if_neg (by simp [goodCfg]), if_pos hw]; exact wrap_safe r p hb

/-- an undecorated helper keeps its body's contract -/
theorem W_plain (r : Host) (name : String) (p : Nat) {α : Type} {body : M α} {Q : α → Prop}
    {E : Ctx → Nat → PyExc → Prop}
    (hw : (goodCfg r).wrapped.contains name = false)
    (hb : Tri E body Q) : Tri E (W (goodCfg r) name p body) Q := by
  unfold W; rw [if_neg (by simp [goodCfg])]; simp only [hw]; exact hb

theorem tri_memo {E : Ctx → Nat → PyExc → Prop} {α : Type} (get : Cache → Option α) (set : α → Cache → Cache)
    (p : Nat) {body : M α} {Q : α → Prop}
    (hget : ∀ k v, CacheInv k → get k = some v → Q v)
    (hset : ∀ k v, CacheInv k → Q v → CacheInv (set v k))
    (hb : Tri E body Q) : Tri E (memo get set p body) Q := by
  unfold memo
  refine tri_bind tri_getCache (fun k hk => ?_)
  split
  · split
    · rename_i v hv; exact tri_pure (hget k v hk hv)
    · refine tri_bind hb (fun v hv => ?_)
      refine tri_bind (Q := fun _ => True) ?_ (fun _ _ => tri_pure hv)
      exact tri_modifyCache (fun k' hk' => hset k' v hk' hv)
  · exact hb

theorem tri_memoIf {E : Ctx → Nat → PyExc → Prop} {α : Type} (b : Bool) (get : Cache → Option α)
    (set : α → Cache → Cache) (p : Nat) {body : M α} {Q : α → Prop}
    (hget : ∀ k v, CacheInv k → get k = some v → Q v)
    (hset : ∀ k v, CacheInv k → Q v → CacheInv (set v k))
    (hb : Tri E body Q) : Tri E (memoIf b get set p body) Q := by
  unfold memoIf; cases b
  · exact hb
  · exact tri_memo get set p hget hset hb

end Psutil.C03
