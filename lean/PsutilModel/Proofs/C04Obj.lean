/-
  Proofs/C04Obj.lean — the object heap: references never dangle and never change PID.

  Second invariant `ObjInv`: every reference stored under PID `p` — in `_pmap`, in the private map
  of a suspended generator, in its to-do list — points to an existing object whose `pid` field is
  `p`. It holds initially, every operation keeps it (for EVERY `Cfg`), objects are never deleted and
  never change PID (`ObjsExt`), and the reference `next(g)` yields is a live object of exactly the
  yielded PID.
-/
import PsutilModel.Proofs.C04Step
namespace Psutil.C04

/-- every reference stored under PID `p` points to an existing object whose `pid` field is `p` -/
def MapOK (objs : List PObj) (m : PMap) : Prop := ∀ e ∈ m, ∃ o, objs[e.2]? = some o ∧ o.pid = e.1

def TodoOK (objs : List PObj) (todo : List (Nat × Option Ref)) : Prop :=
  ∀ e ∈ todo, ∀ r, e.2 = some r → ∃ o, objs[r]? = some o ∧ o.pid = e.1

/-- the private map and the to-do list of every suspended generator -/
def GensOK (objs : List PObj) (gens : List Gen) : Prop :=
  ∀ (i : Nat) (gen : Gen) (pm : PMap) (todo : List (Nat × Option Ref)) (l : List Nat),
    gens[i]? = some gen → gen.st = .running pm todo l → MapOK objs pm ∧ TodoOK objs todo

structure ObjInv (s : St) : Prop where
  pmap : MapOK s.objs s.pmap
  gens : GensOK s.objs s.gens

/-- `b` has every object of `a`, at the same reference, with the same PID -/
def ObjsExt (a b : List PObj) : Prop :=
  ∀ (r : Nat) (o : PObj), a[r]? = some o → ∃ o' : PObj, b[r]? = some o' ∧ o'.pid = o.pid

theorem ObjsExt.refl (a : List PObj) : ObjsExt a a := fun _ o h => ⟨o, h, rfl⟩

theorem ObjsExt.trans {a b c : List PObj} (h1 : ObjsExt a b) (h2 : ObjsExt b c) : ObjsExt a c := by
  intro r o h
  obtain ⟨o1, h1', e1⟩ := h1 r o h
  obtain ⟨o2, h2', e2⟩ := h2 r o1 h1'
  exact ⟨o2, h2', e2.trans e1⟩

theorem ObjsExt.of_eq {a a' b : List PObj} (h : a = a') (h2 : ObjsExt a b) : ObjsExt a' b := h ▸ h2

theorem ObjsExt.length_le {a b : List PObj} (h : ObjsExt a b) : a.length ≤ b.length := by
  by_cases hlt : b.length < a.length
  · obtain ⟨o', h', _⟩ := h b.length a[b.length] (List.getElem?_eq_getElem hlt)
    have := (List.getElem?_eq_some_iff.mp h').1
    omega
  · omega

theorem MapOK.mono {a b : List PObj} {m : PMap} (hm : MapOK a m) (h : ObjsExt a b) : MapOK b m := by
  intro e he
  obtain ⟨o, h1, h2⟩ := hm e he
  obtain ⟨o', h3, h4⟩ := h _ o h1
  exact ⟨o', h3, h4.trans h2⟩

theorem TodoOK.mono {a b : List PObj} {t : List (Nat × Option Ref)} (ht : TodoOK a t) (h : ObjsExt a b) :
    TodoOK b t := by
  intro e he r hr
  obtain ⟨o, h1, h2⟩ := ht e he r hr
  obtain ⟨o', h3, h4⟩ := h _ o h1
  exact ⟨o', h3, h4.trans h2⟩

theorem GensOK.mono {a b : List PObj} {gens : List Gen} (hg : GensOK a gens) (h : ObjsExt a b) :
    GensOK b gens := by
  intro i gen pm todo l h1 h2
  obtain ⟨x, y⟩ := hg i gen pm todo l h1 h2
  exact ⟨x.mono h, y.mono h⟩

theorem mapOK_nil (objs : List PObj) : MapOK objs [] := by
  intro e he; cases he

theorem mapOK_remove {objs : List PObj} {m : PMap} (h : MapOK objs m) (p : Nat) : MapOK objs (m.remove p) := by
  intro e he
  unfold PMap.remove at he
  exact h e (List.mem_filter.mp he).1

theorem mem_set_obj {m : PMap} {p r : Nat} {e : Nat × Ref} (h : e ∈ m.set p r) : e ∈ m ∨ e = (p, r) := by
  unfold PMap.set at h
  split at h
  · obtain ⟨x, hx, rfl⟩ := List.mem_map.mp h
    split
    · exact Or.inr rfl
    · exact Or.inl hx
  · rcases List.mem_append.mp h with h | h
    · exact Or.inl h
    · exact Or.inr (List.mem_singleton.mp h)

theorem objsExt_set {a : List PObj} {r : Nat} {o o' : PObj} (h : a[r]? = some o) (hp : o'.pid = o.pid) :
    ObjsExt a (a.set r o') := by
  intro r' x hx
  by_cases hr : r = r'
  · subst hr
    rw [h] at hx
    simp only [Option.some.injEq] at hx
    subst hx
    have hlt := (List.getElem?_eq_some_iff.mp h).1
    exact ⟨o', by simp [hlt], hp⟩
  · exact ⟨x, by simp [hr, hx], rfl⟩

theorem objsExt_append (a l : List PObj) : ObjsExt a (a ++ l) := by
  intro r o h
  have hlt := (List.getElem?_eq_some_iff.mp h).1
  exact ⟨o, by rw [List.getElem?_append_left hlt]; exact h, rfl⟩

theorem gensOK_setGen {objs : List PObj} {s : St} {g : Nat} {st : GSt} (h : GensOK objs s.gens)
    (hst : ∀ pm t l, st = .running pm t l → MapOK objs pm ∧ TodoOK objs t) :
    GensOK objs (s.setGen g st).gens := by
  intro i gen pm todo l hg hs
  by_cases hig : i = g
  · subst hig
    rw [setGen_get_self] at hg
    cases hsg : s.gens[i]? with
    | none => rw [hsg] at hg; cases hg
    | some x =>
      rw [hsg] at hg
      simp only [Option.map_some, Option.some.injEq] at hg
      subst hg
      exact hst pm todo l hs
  · rw [setGen_get_ne _ _ _ _ hig] at hg
    exact h i gen pm todo l hg hs

/-! ## the sub-steps only append objects or update one in place, keeping its PID -/

theorem isRunningObj_objsExt (s : St) (r : Ref) (o : PObj) (h : s.objs[r]? = some o) :
    ObjsExt s.objs (isRunningObj s r o).1.objs := by
  unfold isRunningObj
  split
  · exact ObjsExt.refl _
  · split
    · exact objsExt_set h rfl
    · split
      · exact ObjsExt.refl _
      · exact objsExt_set h rfl

theorem raiseIfReused_objsExt (cfg : Cfg) (s : St) (r : Ref) (o : PObj) (h : s.objs[r]? = some o) :
    ObjsExt s.objs (raiseIfReused cfg s r o).1.objs := by
  unfold raiseIfReused
  split
  · exact ObjsExt.refl _
  · have := isRunningObj_objsExt s r o h
    simp only
    split <;> exact this

theorem asDictLoop_objsExt (cfg : Cfg) (r : Ref) (pid : Nat) (ls : List String) :
    ∀ s, ObjsExt s.objs (asDictLoop cfg r pid s ls).1.objs := by
  induction ls with
  | nil => intro s; exact ObjsExt.refl _
  | cons nm rest ih =>
    intro s
    simp only [asDictLoop]
    split
    · exact ih s
    · split
      · exact ih s
      · exact ObjsExt.refl _
    · split
      · exact ObjsExt.refl _
      · rename_i o ho
        have hf := raiseIfReused_objsExt cfg s r o ho
        cases hr : raiseIfReused cfg s r o with
        | mk s1 raised =>
          rw [hr] at hf
          simp only at hf ⊢
          split
          · exact hf
          · split
            · exact hf.trans (ih s1)
            · exact hf

theorem fillInfo_objsExt_ok {cfg : Cfg} {attrs : Attrs} {r : Ref} {pid : Nat} {s s2 : St}
    {info : Option (List String)} (h : fillInfo cfg attrs r pid s = .ok s2 info) : ObjsExt s.objs s2.objs := by
  cases attrs with
  | none => simp only [fillInfo, Fill.ok.injEq] at h; obtain ⟨rfl, _⟩ := h; exact ObjsExt.refl _
  | names l =>
    simp only [fillInfo] at h
    split at h
    · cases h
    · have hf := asDictLoop_objsExt cfg r pid (namesOf cfg l) s
      split at h
      · rename_i s2' heq
        simp only [Fill.ok.injEq] at h
        obtain ⟨rfl, _⟩ := h
        rw [heq] at hf; exact hf
      · cases h

theorem fillInfo_objsExt_nsp {cfg : Cfg} {attrs : Attrs} {r : Ref} {pid : Nat} {s s2 : St}
    (h : fillInfo cfg attrs r pid s = .nsp s2) : ObjsExt s.objs s2.objs := by
  cases attrs with
  | none => simp [fillInfo] at h
  | names l =>
    simp only [fillInfo] at h
    split at h
    · cases h
    · have hf := asDictLoop_objsExt cfg r pid (namesOf cfg l) s
      split at h
      · cases h
      · rename_i s2' heq
        simp only [Fill.nsp.injEq] at h
        subst h
        rw [heq] at hf; exact hf

/-- `add(pid)`: the reference it returns is an object of PID `pid`, and the map stays sound -/
theorem addProc_obj {s : St} {pmap : PMap} {pid : Nat} {oref : Option Ref} {s1 : St} {pm1 : PMap} {r : Ref}
    (h : addProc s pmap pid oref = some (s1, pm1, r)) (hm : MapOK s.objs pmap)
    (ho : ∀ r0, oref = some r0 → ∃ o, s.objs[r0]? = some o ∧ o.pid = pid) :
    ObjsExt s.objs s1.objs ∧ MapOK s1.objs pm1 ∧ ∃ o, s1.objs[r]? = some o ∧ o.pid = pid := by
  cases oref with
  | some r0 =>
    simp only [addProc, Option.some.injEq, Prod.mk.injEq] at h
    obtain ⟨rfl, rfl, rfl⟩ := h
    exact ⟨ObjsExt.refl _, hm, ho r0 rfl⟩
  | none =>
    simp only [addProc] at h
    split at h
    · cases h
    · rename_i id _
      simp only [Option.some.injEq, Prod.mk.injEq] at h
      obtain ⟨rfl, rfl, rfl⟩ := h
      have hext : ObjsExt s.objs (s.objs ++ [⟨pid, id, false, false⟩]) := objsExt_append _ _
      have hnew : ∃ o, (s.objs ++ [(⟨pid, id, false, false⟩ : PObj)])[s.objs.length]? = some o ∧ o.pid = pid :=
        ⟨⟨pid, id, false, false⟩, by simp, rfl⟩
      refine ⟨hext, ?_, hnew⟩
      intro e he
      rcases mem_set_obj he with he | he
      · exact (hm.mono hext) e he
      · subst he; exact hnew

/-! ## the loop -/

theorem visit_obj (cfg : Cfg) (attrs : Attrs) (g : Nat) (listed : List Nat) :
    ∀ (todo : List (Nat × Option Ref)) (s : St) (pmap : PMap),
      MapOK s.objs s.pmap → GensOK s.objs s.gens → MapOK s.objs pmap → TodoOK s.objs todo →
      ObjsExt s.objs (visit cfg attrs g listed s pmap todo).1.objs
      ∧ ObjInv (visit cfg attrs g listed s pmap todo).1
      ∧ ∀ r p info, (visit cfg attrs g listed s pmap todo).2 = .yield r p info →
          ∃ o, (visit cfg attrs g listed s pmap todo).1.objs[r]? = some o ∧ o.pid = p := by
  intro todo
  induction todo with
  | nil =>
    intro s pmap _ h2 h3 _
    simp only [visit]
    refine ⟨ObjsExt.refl _, ⟨h3, ?_⟩, by intro r p info h; cases h⟩
    show GensOK s.objs (s.setGen g .done).gens
    exact gensOK_setGen h2 (by intro pm t l h; cases h)
  | cons e rest ih =>
    intro s pmap h1 h2 h3 h4
    obtain ⟨pid, oref⟩ := e
    simp only [visit]
    have h4r : TodoOK s.objs rest := fun e he => h4 e (List.mem_cons_of_mem _ he)
    cases ha : addProc s pmap pid oref with
    | none => exact ih s _ h1 h2 (mapOK_remove h3 pid) h4r
    | some x =>
      obtain ⟨s1, pm1, r⟩ := x
      have hf1 := addProc_frame ha
      obtain ⟨e1, m1, hr1⟩ := addProc_obj ha h3 (fun r0 h => h4 (pid, oref) (List.mem_cons_self ..) r0 h)
      simp only
      cases hfi : fillInfo cfg attrs r pid s1 with
      | ok s2 info =>
        have hf2 := fillInfo_frame_ok hfi
        have e2 := fillInfo_objsExt_ok hfi
        have e12 := e1.trans e2
        simp only
        refine ⟨e12, ⟨?_, ?_⟩, ?_⟩
        · show MapOK s2.objs s2.pmap
          rw [hf2.2.2, hf1.2.2.1]; exact h1.mono e12
        · show GensOK s2.objs (s2.setGen g (.running pm1 rest listed)).gens
          apply gensOK_setGen
          · rw [hf2.1, hf1.1]; exact h2.mono e12
          · intro pm t l h
            simp only [GSt.running.injEq] at h
            obtain ⟨rfl, rfl, _⟩ := h
            exact ⟨m1.mono e2, h4r.mono e12⟩
        · intro r' p info' h
          simp only [Out.yield.injEq] at h
          obtain ⟨rfl, rfl, _⟩ := h
          obtain ⟨o, ho1, ho2⟩ := hr1
          obtain ⟨o', ho3, ho4⟩ := e2 _ o ho1
          exact ⟨o', ho3, ho4.trans ho2⟩
      | bad =>
        simp only
        refine ⟨e1, ⟨m1, ?_⟩, by intro r' p i h; cases h⟩
        show GensOK s1.objs (s1.setGen g .done).gens
        apply gensOK_setGen
        · rw [hf1.1]; exact h2.mono e1
        · intro pm t l h; cases h
      | nsp s2 =>
        have hf2 := fillInfo_frame_nsp hfi
        have e2 := fillInfo_objsExt_nsp hfi
        have e12 := e1.trans e2
        simp only
        have := ih s2 (pm1.remove pid) (by rw [hf2.2.2, hf1.2.2.1]; exact h1.mono e12)
          (by rw [hf2.1, hf1.1]; exact h2.mono e12) (mapOK_remove (m1.mono e2) pid) (h4r.mono e12)
        exact ⟨e12.trans this.1, this.2.1, this.2.2⟩

/-! ## the prologue -/

theorem removeAll_sub (m : PMap) (ps : List Nat) : ∀ e ∈ removeAll m ps, e ∈ m := by
  rw [removeAll_eq_filter]
  intro e he
  exact (List.mem_filter.mp he).1

theorem mergeTodo_ok {objs : List PObj} {pm : PMap} (new : List Nat) (h : MapOK objs pm) :
    TodoOK objs (mergeTodo pm new) := by
  intro e he r hr
  simp only [mergeTodo] at he
  rw [mem_sortBy] at he
  rcases List.mem_append.mp he with h' | h'
  · obtain ⟨x, hx, rfl⟩ := List.mem_map.mp h'
    simp only [Option.some.injEq] at hr
    subst hr
    exact h x hx
  · obtain ⟨p, _, rfl⟩ := List.mem_map.mp h'
    cases hr

theorem prologue_obj (cfg : Cfg) (s : St) (h : MapOK s.objs s.pmap) :
    (prologue cfg s).1.objs = s.objs ∧ (prologue cfg s).1.gens = s.gens ∧ (prologue cfg s).1.pmap = s.pmap
    ∧ ∀ pm todo l, (prologue cfg s).2 = some (pm, todo, l) → MapOK s.objs pm ∧ TodoOK s.objs todo := by
  have hpm : ∀ ps1 ps2, MapOK s.objs (removeAll (removeAll s.pmap ps1) ps2) :=
    fun _ _ e he => h e (removeAll_sub _ _ e (removeAll_sub _ _ e he))
  unfold prologue
  cases hd : cfg.drainFirst with
  | true =>
    simp only [if_true]
    have hc := pidsCall_res { s with flagged := [] }
    cases hpc : pidsCall { s with flagged := [] } with
    | mk s2 res =>
      rw [hpc] at hc
      simp only at hc
      obtain ⟨c1, _, c3, _, c5, _⟩ := hc
      cases res with
      | none => simp only; exact ⟨c5, c1, c3, by intro pm todo l h; cases h⟩
      | some a =>
        simp only
        refine ⟨c5, c1, c3, ?_⟩
        intro pm todo l h
        simp only [Option.some.injEq, Prod.mk.injEq] at h
        obtain ⟨rfl, rfl, _⟩ := h
        exact ⟨hpm _ _, mergeTodo_ok _ (hpm _ _)⟩
  | false =>
    simp only [Bool.false_eq_true, if_false]
    have hc := pidsCall_res s
    cases hpc : pidsCall s with
    | mk s1 res =>
      rw [hpc] at hc
      simp only at hc
      obtain ⟨c1, _, c3, _, c5, _⟩ := hc
      cases res with
      | none => simp only; exact ⟨c5, c1, c3, by intro pm todo l h; cases h⟩
      | some a =>
        simp only
        refine ⟨c5, c1, c3, ?_⟩
        intro pm todo l h
        simp only [Option.some.injEq, Prod.mk.injEq] at h
        obtain ⟨rfl, rfl, _⟩ := h
        exact ⟨hpm _ _, mergeTodo_ok _ (hpm _ _)⟩

/-! ## `next(g)` -/

theorem genNext_obj (cfg : Cfg) (s : St) (g : Nat) (mid : List KEv) (ho : ObjInv s) :
    ObjsExt s.objs (genNext cfg s g mid).1.objs ∧ ObjInv (genNext cfg s g mid).1
    ∧ ∀ r p info, (genNext cfg s g mid).2 = .yield r p info →
        ∃ o, (genNext cfg s g mid).1.objs[r]? = some o ∧ o.pid = p := by
  unfold genNext
  cases hg : s.gens[g]? with
  | none =>
    simp only
    exact ⟨ObjsExt.refl _, ⟨ho.pmap, ho.gens⟩, by intro r p i h; cases h⟩
  | some gen =>
    simp only
    cases hst : gen.st with
    | done =>
      simp only
      exact ⟨ObjsExt.refl _, ⟨ho.pmap, ho.gens⟩, by intro r p i h; cases h⟩
    | running pm todo listed =>
      simp only
      obtain ⟨a, b⟩ := ho.gens g gen pm todo listed hg hst
      exact visit_obj cfg gen.attrs g listed todo (s.applyMid mid) pm ho.pmap ho.gens a b
    | fresh =>
      simp only
      have pr := prologue_obj cfg s ho.pmap
      cases hp : prologue cfg s with
      | mk s1 res =>
        rw [hp] at pr
        simp only at pr
        obtain ⟨p1, p2, p3, p4⟩ := pr
        have hm1 : MapOK s1.objs s1.pmap := by rw [p1, p3]; exact ho.pmap
        have hg1 : GensOK s1.objs s1.gens := by rw [p1, p2]; exact ho.gens
        cases res with
        | none =>
          simp only
          refine ⟨ObjsExt.of_eq p1 (ObjsExt.refl _), ⟨hm1, ?_⟩, by intro r p i h; cases h⟩
          show GensOK s1.objs (s1.setGen g .done).gens
          exact gensOK_setGen hg1 (by intro pm t l h; cases h)
        | some x =>
          obtain ⟨pm, todo, listed⟩ := x
          simp only
          obtain ⟨a, b⟩ := p4 pm todo listed rfl
          have v := visit_obj cfg gen.attrs g listed todo (s1.applyMid mid) pm hm1 hg1
            (by show MapOK s1.objs pm; rw [p1]; exact a) (by show TodoOK s1.objs todo; rw [p1]; exact b)
          exact ⟨ObjsExt.of_eq (show (s1.applyMid mid).objs = s.objs from p1) v.1, v.2⟩

/-! ## every operation -/

theorem pidsCall_obj (s : St) (ho : ObjInv s) : ObjsExt s.objs (pidsCall s).1.objs ∧ ObjInv (pidsCall s).1 := by
  obtain ⟨h1, _, h3, _, h5, _⟩ := pidsCall_res s
  exact ⟨by rw [h5]; exact ObjsExt.refl _, ⟨by rw [h5, h3]; exact ho.pmap, by rw [h5, h1]; exact ho.gens⟩⟩

/-- objects are never deleted and never change PID, and the invariant is kept -/
theorem step_obj (c : Cfg) (s : St) (op : Op) (ho : ObjInv s) :
    ObjsExt s.objs (step c s op).1.objs ∧ ObjInv (step c s op).1 := by
  have same : ObjsExt s.objs s.objs ∧ ObjInv s := ⟨ObjsExt.refl _, ho⟩
  cases op with
  | kev e =>
    simp only [step]
    exact ⟨ObjsExt.refl _, ⟨ho.pmap, ho.gens⟩⟩
  | pids =>
    have hc := pidsCall_obj s ho
    simp only [step]
    cases hp : pidsCall s with
    | mk s' res =>
      rw [hp] at hc
      cases res <;> exact hc
  | pidExists n =>
    simp only [step, pidExists]
    split
    · exact same
    · split
      · have hc := pidsCall_obj s ho
        cases hp : pidsCall s with
        | mk s' res =>
          rw [hp] at hc
          cases res <;> exact hc
      · split <;> exact same
  | iter attrs =>
    simp only [step]
    refine ⟨ObjsExt.refl _, ⟨ho.pmap, ?_⟩⟩
    intro i gen pm todo l hg hst
    simp only at hg
    by_cases hlt : i < s.gens.length
    · rw [List.getElem?_append_left hlt] at hg
      exact ho.gens i gen pm todo l hg hst
    · rw [List.getElem?_append_right (by omega)] at hg
      cases hidx : i - s.gens.length with
      | zero =>
        rw [hidx] at hg
        simp only [List.getElem?_cons_zero, Option.some.injEq] at hg
        subst hg
        cases hst
      | succ k => rw [hidx] at hg; simp at hg
  | next g mid =>
    simp only [step]
    have := genNext_obj c s g mid ho
    exact ⟨this.1, this.2.1⟩
  | close g' =>
    simp only [step, genClose]
    cases hg : s.gens[g']? with
    | none => exact same
    | some gen =>
      simp only
      cases hst : gen.st with
      | fresh =>
        simp only
        exact ⟨ObjsExt.refl _, ⟨ho.pmap, gensOK_setGen ho.gens (by intro _ _ _ h; cases h)⟩⟩
      | running pm todo listed =>
        simp only
        refine ⟨ObjsExt.refl _, ⟨(ho.gens g' gen pm todo listed hg hst).1, ?_⟩⟩
        show GensOK s.objs (s.setGen g' .done).gens
        exact gensOK_setGen ho.gens (by intro _ _ _ h; cases h)
      | done => simp only; exact same
  | cacheClear =>
    simp only [step]
    exact ⟨ObjsExt.refl _, ⟨mapOK_nil _, ho.gens⟩⟩
  | isRunning r =>
    simp only [step]
    cases hr : s.objs[r]? with
    | none => exact same
    | some o =>
      simp only
      have e := isRunningObj_objsExt s r o hr
      have f := isRunningObj_frame s r o
      exact ⟨e, ⟨by rw [f.2.2]; exact ho.pmap.mono e, by rw [f.1]; exact ho.gens.mono e⟩⟩

/-! ## the statements -/

theorem init_objInv (k : Kernel) : ObjInv (St.init k) :=
  ⟨mapOK_nil _, by intro i gen pm todo l h; simp [St.init] at h⟩

/-- every operation keeps `ObjInv`, for every configuration (the other invariant is not needed) -/
theorem step_objInv (c : Cfg) (s : St) (op : Op) (ho : ObjInv s) : ObjInv (step c s op).1 :=
  (step_obj c s op ho).2

/-- objects are never deleted and never change PID -/
theorem step_objsExt (c : Cfg) (s : St) (op : Op) (ho : ObjInv s) : ObjsExt s.objs (step c s op).1.objs :=
  (step_obj c s op ho).1

theorem step_objs_length_le (c : Cfg) (s : St) (op : Op) (ho : ObjInv s) :
    s.objs.length ≤ (step c s op).1.objs.length :=
  (step_objsExt c s op ho).length_le

theorem runAll_obj (c : Cfg) (h : List Op) :
    ∀ s, ObjInv s → ObjsExt s.objs (runAll c s h).objs ∧ ObjInv (runAll c s h) := by
  induction h with
  | nil => intro s ho; exact ⟨ObjsExt.refl _, ho⟩
  | cons op ops ih =>
    intro s ho
    have h1 := step_obj c s op ho
    have h2 := ih _ h1.2
    exact ⟨h1.1.trans h2.1, h2.2⟩

theorem runAll_objInv (c : Cfg) (h : List Op) : ∀ s, ObjInv s → ObjInv (runAll c s h) :=
  fun s ho => (runAll_obj c h s ho).2

theorem runAll_objsExt (c : Cfg) (h : List Op) (s : St) (ho : ObjInv s) : ObjsExt s.objs (runAll c s h).objs :=
  (runAll_obj c h s ho).1

/-- every state reachable from the initial one satisfies `ObjInv` -/
theorem reachable_objInv (c : Cfg) (k : Kernel) (h : List Op) : ObjInv (runAll c (St.init k) h) :=
  runAll_objInv c h _ (init_objInv k)

/-- the reference `next(g)` yields is a live object of exactly the yielded PID -/
theorem next_yield_obj (c : Cfg) (s : St) (ho : ObjInv s) (g : Nat) (mid : List KEv) (r : Ref) (p : Nat)
    (info : Option (List String)) (h : (step c s (.next g mid)).2 = .yield r p info) :
    ∃ o, (step c s (.next g mid)).1.objs[r]? = some o ∧ o.pid = p := by
  simp only [step] at h ⊢
  exact (genNext_obj c s g mid ho).2.2 r p info h

/-- a reference stored in `_pmap` keeps pointing to an object of its PID after any further history -/
theorem pmap_ref_stable (c : Cfg) (s : St) (ho : ObjInv s) (h : List Op) (e : Nat × Ref) (he : e ∈ s.pmap) :
    ∃ o, (runAll c s h).objs[e.2]? = some o ∧ o.pid = e.1 :=
  (ho.pmap.mono (runAll_objsExt c h s ho)) e he

end Psutil.C04
