/-
  Proofs/C15.lean — helper lemmas for Props/C15.lean: arithmetic of the back-off schedule, the
  wait-status macros, and ONE induction principle (`loop_rule`) for the fuelled polling loops of
  `wait_pid`, from which every per-call theorem is obtained by choosing an invariant.
-/
import Mathlib.Tactic.Linarith
import Mathlib.Tactic.NormNum
import Mathlib.Tactic.Ring
import Mathlib.Algebra.Order.Field.Rat
import PsutilModel.Model.C15
import PsutilModel.Spec.C15
namespace Psutil.C15
open Spec

/-- the configuration the property statement speaks about: 0.1 ms, doubling, 40 ms cap,
    deadline checked (with `>=`) before sleeping, negative timeouts rejected.
    (`sliceN`, the numerator of `wait_procs`' per-process slice, is deliberately NOT constrained:
    every theorem holds for any slice, the fact only feeds the model the driver runs.) -/
structure Cfg.Good (c : Cfg) : Prop where
  i0n : c.i0n = 1
  i0d : c.i0d = 10000
  factor : c.factor = 2
  capn : c.capn = 1
  capd : c.capd = 25
  check : c.checkBeforeSleep = true
  ge : c.deadlineGe = true
  validate : c.validateNonNeg = true
  -- extension: the argument checks / the Popen wrapper have the shape the theorems speak about
  -- (`popenValidateFirst` is deliberately NOT constrained: theorems are stated for both values)
  pidCheck : c.pidCheck = true
  cbCheck : c.cbCheck = true
  popenRcFirst : c.popenRcFirst = true
  popenStoresRc : c.popenStoresRc = true

theorem Cfg.Good.i0_eq {c : Cfg} (hg : c.Good) : c.i0 = Spec.i0 := by
  simp [Cfg.i0, Spec.i0, hg.i0n, hg.i0d]

theorem Cfg.Good.cap_eq {c : Cfg} (hg : c.Good) : c.cap = Spec.cap := by
  simp [Cfg.cap, Spec.cap, hg.capn, hg.capd]

theorem Cfg.Good.factor_eq {c : Cfg} (hg : c.Good) : (c.factor : Rat) = 2 := by
  simp [hg.factor]

theorem cap_pos : (0 : Rat) < Spec.cap := by norm_num [Spec.cap]
theorem i0_pos : (0 : Rat) < Spec.i0 := by norm_num [Spec.i0]
theorem i0_le_cap : Spec.i0 ≤ Spec.cap := by norm_num [Spec.i0, Spec.cap]

/-! ### `rmin` / `rmax` -/

theorem rmin_le_left (a b : Rat) : rmin a b ≤ a := by
  unfold rmin; split <;> linarith
theorem rmin_le_right (a b : Rat) : rmin a b ≤ b := by
  unfold rmin; split <;> linarith
theorem le_rmin {a b x : Rat} (ha : x ≤ a) (hb : x ≤ b) : x ≤ rmin a b := by
  unfold rmin; split <;> assumption
theorem lt_rmin {a b x : Rat} (ha : x < a) (hb : x < b) : x < rmin a b := by
  unfold rmin; split <;> assumption
theorem le_rmax_left (a b : Rat) : a ≤ rmax a b := by
  unfold rmax; split <;> linarith
theorem le_rmax_right (a b : Rat) : b ≤ rmax a b := by
  unfold rmax; split <;> linarith

/-! ### the schedule `iv n = min (0.0001 · 2ⁿ) 0.04` -/

theorem pow2_pos (n : Nat) : (0 : Rat) < pow2 n := by
  induction n with
  | zero => norm_num [pow2]
  | succ n ih => simp only [pow2]; linarith

theorem iv_zero : iv 0 = Spec.i0 := by
  norm_num [iv, pow2, rmin, Spec.i0, Spec.cap]

/-- doubling then capping one schedule entry gives the next one -/
theorem iv_succ (n : Nat) : rmin (iv n * 2) Spec.cap = iv (n + 1) := by
  have hp := pow2_pos n
  have hc := cap_pos
  have hi := i0_pos
  unfold iv
  simp only [pow2]
  by_cases h : Spec.i0 * pow2 n ≤ Spec.cap
  · have e : rmin (Spec.i0 * pow2 n) Spec.cap = Spec.i0 * pow2 n := by simp [rmin, h]
    rw [e]; congr 1; ring
  · have e : rmin (Spec.i0 * pow2 n) Spec.cap = Spec.cap := by simp [rmin, h]
    rw [e]
    have h' : Spec.cap < Spec.i0 * pow2 n := lt_of_not_ge h
    have e1 : rmin (Spec.cap * 2) Spec.cap = Spec.cap := by
      unfold rmin; split
      · linarith
      · rfl
    have e2 : rmin (Spec.i0 * (pow2 n * 2)) Spec.cap = Spec.cap := by
      unfold rmin; split
      · nlinarith
      · rfl
    rw [e1, e2]

theorem iv_pos (n : Nat) : 0 < iv n := by
  unfold iv
  exact lt_rmin (mul_pos i0_pos (pow2_pos n)) cap_pos

theorem iv_le_cap (n : Nat) : iv n ≤ Spec.cap := rmin_le_right _ _

theorem i0_le_iv (n : Nat) : Spec.i0 ≤ iv n := by
  unfold iv
  apply le_rmin _ i0_le_cap
  have : (1 : Rat) ≤ pow2 n := by
    induction n with
    | zero => norm_num [pow2]
    | succ n ih => simp only [pow2]; linarith
  have hi := i0_pos
  nlinarith

/-! ### wait status words -/

/-- every valid cause is in the finite table the Spec searches, and conversely -/
theorem mem_allCauses {cause : Cause} : cause ∈ allCauses ↔ cause.Valid := by
  unfold allCauses
  simp only [List.mem_append, List.mem_map, List.mem_range, List.mem_flatMap, List.mem_cons,
    List.not_mem_nil, or_false]
  cases cause with
  | exited c =>
    simp only [Cause.Valid, Cause.exited.injEq, reduceCtorEq, and_false, exists_const,
      or_false, exists_eq_right]
    omega
  | signaled s core =>
    simp only [Cause.Valid, reduceCtorEq, and_false, exists_const, Cause.signaled.injEq, false_or]
    constructor
    · rintro ⟨i, hi, h | h⟩ <;> omega
    · intro h
      refine ⟨s - 1, by omega, ?_⟩
      cases core
      · left; exact ⟨by omega, rfl⟩
      · right; exact ⟨by omega, rfl⟩

/-- the decoding chain of `wait_pid` inverts the kernel's encoding: exit code c ↦ c, signal s ↦ −s -/
theorem decode_status {cause : Cause} (hv : cause.Valid) : decode cause.status = .code cause.value := by
  cases cause with
  | exited c =>
    simp only [Cause.Valid] at hv
    have h1 : wifexited (c * 256) = true := by simp [wifexited, wtermsig]; omega
    have h2 : wexitstatus (c * 256) = c := by simp [wexitstatus]; omega
    simp [decode, Cause.status, Cause.value, h1, h2]
  | signaled s core =>
    simp only [Cause.Valid] at hv
    have hs : wtermsig (s + if core = true then 128 else 0) = s := by
      cases core <;> simp [wtermsig] <;> omega
    have h1 : wifexited (s + if core = true then 128 else 0) = false := by
      simp [wifexited, hs]; omega
    have h2 : wifsignaled (s + if core = true then 128 else 0) = true := by
      simp only [wifsignaled, hs, toSignedChar, decide_eq_true_eq]
      split <;> omega
    simp [decode, Cause.status, Cause.value, h1, h2, hs]

/-- `decode` yields an exit status or ValueError, nothing else -/
theorem decode_cases (st : Nat) : (∃ c, decode st = .code c) ∨ decode st = .valueError := by
  unfold decode
  split
  · exact Or.inl ⟨_, rfl⟩
  · split
    · exact Or.inl ⟨_, rfl⟩
    · exact Or.inr rfl

/-! ### `sleep()` under the good configuration -/

theorem advance_now {c : Cfg} (s : St) : (s.advance c).now = s.now + s.interval := rfl
theorem advance_sleeps {c : Cfg} (s : St) : (s.advance c).sleeps = s.sleeps ++ [s.interval] := rfl
theorem advance_nWait {c : Cfg} (s : St) : (s.advance c).nWait = s.nWait := rfl

section
variable {c : Cfg} (hg : c.Good)
include hg

theorem advance_interval (s : St) : (s.advance c).interval = rmin (s.interval * 2) Spec.cap := by
  simp [St.advance, hg.factor_eq, hg.cap_eq]

/-- either the deadline has passed (raise, state untouched) or it has not (sleep, back off) -/
theorem sleepStep_cases (pid : Nat) (timeout : Option Rat) (stopAt : Rat) (s : St) :
    (∃ τ, timeout = some τ ∧ stopAt ≤ s.now ∧
        sleepStep c pid timeout stopAt s = (some (.timeout τ pid), s)) ∨
    ((∀ τ, timeout = some τ → s.now < stopAt) ∧
        sleepStep c pid timeout stopAt s = (none, s.advance c)) := by
  cases timeout with
  | none => right; exact ⟨by simp, rfl⟩
  | some τ =>
    by_cases h : stopAt ≤ s.now
    · left; exact ⟨τ, rfl, h, by simp [sleepStep, hg.check, pastDeadline, hg.ge, h]⟩
    · right
      exact ⟨fun _ _ => lt_of_not_ge h, by simp [sleepStep, hg.check, pastDeadline, hg.ge, h]⟩

end

/-! ### the induction principle for `waitLoop` / `pollNonChild` -/

/-- why `sleep()` is being called, seen from the state `s` it is called in -/
inductive Why (env : Env) (timeout : Option Rat) (s : St) : Prop
  /-- the waitpid call just made was interrupted -/
  | eintr (h1 : 1 ≤ s.nWait) (h2 : env.eintr (s.nWait - 1) = true)
  /-- WNOHANG waitpid on a child just said "still running" -/
  | aliveChild (st : Nat) (hk : env.kind = .child st) (ht : timeout.isSome = true)
      (ha : env.ended s.now = false) (h1 : 1 ≤ s.nWait) (h2 : env.eintr (s.nWait - 1) = false)
  /-- `pid_exists` on a non-child just said True -/
  | existsNonChild (hk : ∀ st, env.kind ≠ .child st) (he : env.pidExists s.now = true)

section
variable {c : Cfg} (hg : c.Good) (env : Env) (pid : Nat) (timeout : Option Rat) (stopAt : Rat)
/- `P fuel s`: invariant at the head of an iteration that still has `fuel` iterations to spend
   (most uses ignore `fuel`; the termination theorem does not). -/
variable (P : Nat → St → Prop) (Q : Outcome → St → Prop)
include hg

theorem pollNonChild_rule
    (hk : ∀ st, env.kind ≠ .child st)
    (hraise : ∀ n s τ, P (n + 1) s → Why env timeout s → timeout = some τ → stopAt ≤ s.now →
      Q (.timeout τ pid) s)
    (hcont : ∀ n s, P (n + 1) s → Why env timeout s → (∀ τ, timeout = some τ → s.now < stopAt) →
      P n (s.advance c))
    (hnone : ∀ n s, P (n + 1) s → env.pidExists s.now = false → Q .none s)
    (hfuel : ∀ s, P 0 s → Q .outOfFuel s) :
    ∀ fuel s, P fuel s → Q (pollNonChild c env pid timeout stopAt fuel s).1
                           (pollNonChild c env pid timeout stopAt fuel s).2 := by
  intro fuel
  induction fuel with
  | zero => intro s hp; exact hfuel s hp
  | succ n ih =>
    intro s hp
    unfold pollNonChild
    by_cases he : env.pidExists s.now = true
    · simp only [he, if_true]
      have hw : Why env timeout s := .existsNonChild hk he
      rcases sleepStep_cases hg pid timeout stopAt s with ⟨τ, ht, hd, e⟩ | ⟨hlt, e⟩
      · rw [e]; exact hraise n s τ hp hw ht hd
      · rw [e]; exact ih _ (hcont n s hp hw hlt)
    · have he' : env.pidExists s.now = false := by simpa using he
      simp only [he', Bool.false_eq_true, if_false]
      exact hnone n s hp he'

theorem loop_rule
    (hbump : ∀ n s, P n s → P n { s with nWait := s.nWait + 1 })
    (hraise : ∀ n s τ, P (n + 1) s → Why env timeout s → timeout = some τ → stopAt ≤ s.now →
      Q (.timeout τ pid) s)
    (hcont : ∀ n s, P (n + 1) s → Why env timeout s → (∀ τ, timeout = some τ → s.now < stopAt) →
      P n (s.advance c))
    (hcode : ∀ n s st, P (n + 1) s → env.kind = .child st → timeout.isSome = true →
      env.ended s.now = true → 1 ≤ s.nWait → env.eintr (s.nWait - 1) = false → Q (decode st) s)
    (hblock : ∀ n s st e, P (n + 1) s → env.kind = .child st → timeout = none → env.exitAt = some e →
      Q (decode st) { s with now := rmax s.now e })
    (hhang : ∀ n s st, P (n + 1) s → env.kind = .child st → timeout = none → env.exitAt = none →
      Q .hang s)
    (hnone : ∀ n s, P (n + 1) s → (∀ st, env.kind ≠ .child st) → env.pidExists s.now = false →
      Q .none s)
    (hfuel : ∀ s, P 0 s → Q .outOfFuel s) :
    ∀ fuel s, P fuel s → Q (waitLoop c env pid timeout stopAt fuel s).1
                           (waitLoop c env pid timeout stopAt fuel s).2 := by
  intro fuel
  induction fuel with
  | zero => intro s hp; exact hfuel s hp
  | succ n ih =>
    intro s hp
    have hp1 := hbump _ s hp
    unfold waitLoop
    by_cases hi : env.eintr s.nWait = true
    · simp only [hi, if_true]
      have hw : Why env timeout { s with nWait := s.nWait + 1 } :=
        .eintr (by simp) (by simpa using hi)
      rcases sleepStep_cases hg pid timeout stopAt { s with nWait := s.nWait + 1 }
        with ⟨τ, ht, hd, e⟩ | ⟨hlt, e⟩
      · rw [e]; exact hraise n _ τ hp1 hw ht hd
      · rw [e]; exact ih _ (hcont n _ hp1 hw hlt)
    · have hi' : env.eintr s.nWait = false := by simpa using hi
      simp only [hi', Bool.false_eq_true, if_false]
      cases hk : env.kind with
      | child st =>
        simp only
        cases ht : timeout with
        | some τ =>
          simp only
          by_cases he : env.ended s.now = true
          · simp only [he, if_true]
            exact hcode n _ st hp1 hk (by simp [ht]) he (by simp) (by simpa using hi')
          · have he' : env.ended s.now = false := by simpa using he
            simp only [he', Bool.false_eq_true, if_false]
            have hw : Why env timeout { s with nWait := s.nWait + 1 } :=
              .aliveChild st hk (by simp [ht]) he' (by simp) (by simpa using hi')
            rcases sleepStep_cases hg pid timeout stopAt { s with nWait := s.nWait + 1 }
              with ⟨τ', ht', hd, e⟩ | ⟨hlt, e⟩
            · rw [ht] at e; rw [e]; exact hraise n _ τ' hp1 hw ht' hd
            · rw [ht] at e; rw [e]; rw [← ht]; exact ih _ (hcont n _ hp1 hw hlt)
        | none =>
          simp only
          cases hx : env.exitAt with
          | some e => simp only; exact hblock n _ st e hp1 hk ht hx
          | none => simp only; exact hhang n _ st hp1 hk ht hx
      | nonChild =>
        simp only
        have hk' : ∀ st, env.kind ≠ .child st := by intro st h; rw [hk] at h; cases h
        exact pollNonChild_rule hg env pid timeout stopAt P Q hk' hraise hcont
          (fun n s hp he => hnone n s hp hk' he) hfuel (n + 1) _ hp1
      | neverExisted =>
        simp only
        have hk' : ∀ st, env.kind ≠ .child st := by intro st h; rw [hk] at h; cases h
        exact pollNonChild_rule hg env pid timeout stopAt P Q hk' hraise hcont
          (fun n s hp he => hnone n s hp hk' he) hfuel (n + 1) _ hp1

end

/-! ### `check_gone`'s three steps, as one record update -/

/-- the three steps of `markGone` in the order of the source: the callback sees the returncode
    already set and the process already in `gone` -/
theorem markGone_eq (hasCb : Bool) (w : WP) (pid : Nat) (v : Option Int) :
    markGone hasCb w pid v =
      { w with objs := fun q => if q = pid then { w.objs pid with returncode := some v } else w.objs q
               gone := if pid ∈ w.gone then w.gone else w.gone ++ [pid]
               cbLog := if hasCb then w.cbLog ++ [pid] else w.cbLog
               cbSeen := if hasCb then w.cbSeen ++ [⟨pid, some (v), true⟩] else w.cbSeen } := by
  cases hasCb
  · simp [markGone, stepCallback, stepAddGone, stepSetRc]
  · by_cases h : pid ∈ w.gone <;> simp [markGone, stepCallback, stepAddGone, stepSetRc, h]


end Psutil.C15
