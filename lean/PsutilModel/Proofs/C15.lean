/-
  Proofs/C15.lean — helper lemmas for Props/C15.lean.
-/
import Mathlib.Tactic.Linarith
import Mathlib.Tactic.NormNum
import Mathlib.Algebra.Order.Field.Rat
import PsutilModel.Model.C15
import PsutilModel.Spec.C15
namespace Psutil.C15

/-- the configuration the property statement speaks about: 0.1 ms, doubling, 40 ms cap,
    deadline checked (with `>=`) before sleeping, negative timeouts rejected -/
structure Cfg.Good (c : Cfg) : Prop where
  i0n : c.i0n = 1
  i0d : c.i0d = 10000
  factor : c.factor = 2
  capn : c.capn = 1
  capd : c.capd = 25
  check : c.checkBeforeSleep = true
  ge : c.deadlineGe = true
  validate : c.validateNonNeg = true
  slice : c.sliceN = 1

end Psutil.C15
