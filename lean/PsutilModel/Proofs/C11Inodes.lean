/-
  Proofs/C11Inodes.lean — the inode → [(pid, fd)] maps built by `get_proc_inodes` /
  `get_all_inodes` hold, for every socket inode, exactly the visible holders in listing order.
-/
import PsutilModel.Model.C11
import PsutilModel.Spec.C11
set_option linter.unusedSimpArgs false
namespace Psutil.C11
open Spec

/-- `inodes.get(k, [])` -/
def sem (m : Inodes) (k : Bytes) : List (Nat × Nat) := (m.lookup k).getD []

/-- a `defaultdict(list)` filled by `append` never holds an empty list -/
def Inv (m : Inodes) : Prop := ∀ k l, m.lookup k = some l → l ≠ []

def keys (m : Inodes) : List Bytes := m.map (·.1)

theorem lookup_cons (k k0 : Bytes) (l : List (Nat × Nat)) (as : Inodes) :
    List.lookup k ((k0, l) :: as) = if k = k0 then some l else List.lookup k as := by
  by_cases h : k = k0
  · subst h; simp [List.lookup]
  · have hb : (k == k0) = false := by simpa using h
    simp [List.lookup, hb, h]

theorem lookup_none_of_not_mem (m : Inodes) (k : Bytes) (h : k ∉ keys m) : m.lookup k = none := by
  induction m with
  | nil => rfl
  | cons a as ih =>
    obtain ⟨k0, l0⟩ := a
    have h1 : k ≠ k0 := fun e => h (by simp [keys, e])
    have h2 : k ∉ keys as := fun hm => h (by simp [keys] at hm ⊢; exact Or.inr hm)
    rw [lookup_cons]; simp [h1, ih h2]

theorem sem_nil_of_lookup_none {m : Inodes} {k : Bytes} (h : m.lookup k = none) : sem m k = [] := by
  simp [sem, h]

theorem lookup_eq_of_inv {m : Inodes} (hi : Inv m) (k : Bytes) :
    m.lookup k = if sem m k = [] then none else some (sem m k) := by
  unfold sem
  cases h : m.lookup k with
  | none => simp
  | some l => simp [hi k l h]

/-! ### `inodes[k].append(v)` -/

theorem lookup_append_same (m : Inodes) (k : Bytes) (v : Nat × Nat) :
    (m.append k v).lookup k = some (sem m k ++ [v]) := by
  induction m with
  | nil => simp [Inodes.append, lookup_cons, sem]
  | cons a as ih =>
    obtain ⟨k', l⟩ := a
    unfold Inodes.append
    by_cases h : k' = k
    · subst h; simp [lookup_cons, sem]
    · have h' : k ≠ k' := fun e => h e.symm
      simp only [h, if_false, lookup_cons, h', sem] at ih ⊢
      exact ih

theorem lookup_append_other (m : Inodes) (k k' : Bytes) (v : Nat × Nat) (hne : k' ≠ k) :
    (m.append k v).lookup k' = m.lookup k' := by
  induction m with
  | nil => simp [Inodes.append, lookup_cons, hne]
  | cons a as ih =>
    obtain ⟨k0, l⟩ := a
    unfold Inodes.append
    by_cases h : k0 = k
    · subst h; simp [lookup_cons, hne]
    · simp only [h, if_false, lookup_cons]
      by_cases h2 : k' = k0
      · subst h2; simp
      · simp [h2, ih]

theorem sem_append (m : Inodes) (k k' : Bytes) (v : Nat × Nat) :
    sem (m.append k v) k' = if k' = k then sem m k' ++ [v] else sem m k' := by
  by_cases h : k' = k
  · subst h; simp [sem, lookup_append_same]
  · simp [sem, lookup_append_other m k k' v h, h]

theorem inv_append (m : Inodes) (k : Bytes) (v : Nat × Nat) (hi : Inv m) : Inv (m.append k v) := by
  intro k' l hl
  by_cases h : k' = k
  · subst h; rw [lookup_append_same] at hl; cases hl; simp
  · rw [lookup_append_other m k k' v h] at hl; exact hi k' l hl

theorem keys_append (m : Inodes) (k : Bytes) (v : Nat × Nat) :
    keys (m.append k v) = if k ∈ keys m then keys m else keys m ++ [k] := by
  induction m with
  | nil => simp [Inodes.append, keys]
  | cons a as ih =>
    obtain ⟨k0, l⟩ := a
    unfold Inodes.append
    by_cases h : k0 = k
    · subst h; simp [keys]
    · have h' : ¬ k = k0 := fun e => h e.symm
      simp only [h, if_false]
      simp only [keys, List.map_cons, List.mem_cons, h', false_or] at ih ⊢
      rw [ih]
      by_cases hm : k ∈ List.map (fun x => x.fst) as <;> simp [hm]

theorem keysNodup_append (m : Inodes) (k : Bytes) (v : Nat × Nat) (hn : (keys m).Nodup) :
    (keys (m.append k v)).Nodup := by
  rw [keys_append]
  split
  · exact hn
  · rename_i h
    rw [List.nodup_append]
    refine ⟨hn, by simp, ?_⟩
    intro a ha b hb
    simp at hb; subst hb
    exact fun e => h (e ▸ ha)

/-! ### `get_proc_inodes` -/

/-- the dictionary key a link target contributes (`inode[8:][:-1]` of a `socket:[…]` link) -/
def keyOf (t : Option Bytes) : Option Bytes :=
  match t with
  | some target => if startsWith socketPrefix target then some ((target.drop 8).dropLast) else none
  | none => none

def procStep (pid : Nat) (m : Inodes) (e : FdEntry) : Inodes :=
  match keyOf e.2 with
  | some k => m.append k (pid, e.1)
  | none => m

theorem getProcInodes_eq (pid : Nat) (fds : List FdEntry) :
    getProcInodes pid fds = fds.foldl (procStep pid) [] := by
  unfold getProcInodes
  congr 1
  funext m e
  unfold procStep keyOf
  cases e.2 with
  | none => rfl
  | some t => by_cases h : startsWith socketPrefix t = true <;> simp [h]

/-- the (pid, fd) pairs of `fds` whose link gives key `k`, in listing order -/
def hits (pid : Nat) (k : Bytes) (fds : List FdEntry) : List (Nat × Nat) :=
  fds.filterMap fun e => if keyOf e.2 = some k then some (pid, e.1) else none

theorem foldl_procStep (pid : Nat) (fds : List FdEntry) :
    ∀ m0 : Inodes, Inv m0 → (keys m0).Nodup →
      (∀ k, sem (fds.foldl (procStep pid) m0) k = sem m0 k ++ hits pid k fds)
      ∧ Inv (fds.foldl (procStep pid) m0) ∧ (keys (fds.foldl (procStep pid) m0)).Nodup := by
  induction fds with
  | nil => intro m0 hi hn; simp [hits, hi, hn]
  | cons e es ih =>
    intro m0 hi hn
    simp only [List.foldl_cons]
    cases hk : keyOf e.2 with
    | none =>
      have : procStep pid m0 e = m0 := by simp [procStep, hk]
      rw [this]
      obtain ⟨h1, h2, h3⟩ := ih m0 hi hn
      refine ⟨fun k => ?_, h2, h3⟩
      rw [h1 k]; simp [hits, hk]
    | some k0 =>
      have : procStep pid m0 e = m0.append k0 (pid, e.1) := by simp [procStep, hk]
      rw [this]
      obtain ⟨h1, h2, h3⟩ := ih _ (inv_append m0 k0 _ hi) (keysNodup_append m0 k0 _ hn)
      refine ⟨fun k => ?_, h2, h3⟩
      rw [h1 k, sem_append]
      by_cases hkk : k = k0
      · subst hkk; simp [hits, hk]
      · have : ¬ k0 = k := fun e => hkk e.symm
        simp [hits, hk, hkk, this]

theorem inv_nil : Inv [] := by intro k l h; cases h

theorem getProcInodes_spec (pid : Nat) (fds : List FdEntry) :
    (∀ k, sem (getProcInodes pid fds) k = hits pid k fds)
    ∧ Inv (getProcInodes pid fds) ∧ (keys (getProcInodes pid fds)).Nodup := by
  rw [getProcInodes_eq]
  obtain ⟨h1, h2, h3⟩ := foldl_procStep pid fds [] inv_nil (by simp [keys])
  exact ⟨fun k => by rw [h1 k]; simp [sem], h2, h3⟩

/-! ### `inodes.setdefault(k, []).extend(l)` and the merge loop -/

theorem lookup_extend_same (m : Inodes) (k : Bytes) (l : List (Nat × Nat)) :
    (m.extend k l).lookup k = some (sem m k ++ l) := by
  induction m with
  | nil => simp [Inodes.extend, lookup_cons, sem]
  | cons a as ih =>
    obtain ⟨k', l'⟩ := a
    unfold Inodes.extend
    by_cases h : k' = k
    · subst h; simp [lookup_cons, sem]
    · have h' : k ≠ k' := fun e => h e.symm
      simp only [h, if_false, lookup_cons, h', sem] at ih ⊢
      exact ih

theorem lookup_extend_other (m : Inodes) (k k' : Bytes) (l : List (Nat × Nat)) (hne : k' ≠ k) :
    (m.extend k l).lookup k' = m.lookup k' := by
  induction m with
  | nil => simp [Inodes.extend, lookup_cons, hne]
  | cons a as ih =>
    obtain ⟨k0, l0⟩ := a
    unfold Inodes.extend
    by_cases h : k0 = k
    · subst h; simp [lookup_cons, hne]
    · simp only [h, if_false, lookup_cons]
      by_cases h2 : k' = k0
      · subst h2; simp
      · simp [h2, ih]

theorem sem_extend (m : Inodes) (k k' : Bytes) (l : List (Nat × Nat)) :
    sem (m.extend k l) k' = if k' = k then sem m k' ++ l else sem m k' := by
  by_cases h : k' = k
  · subst h; simp [sem, lookup_extend_same]
  · simp [sem, lookup_extend_other m k k' l h, h]

theorem inv_extend (m : Inodes) (k : Bytes) (l : List (Nat × Nat)) (hi : Inv m) (hl : l ≠ []) :
    Inv (m.extend k l) := by
  intro k' l' h
  by_cases hk : k' = k
  · subst hk; rw [lookup_extend_same] at h; cases h; simp [hl]
  · rw [lookup_extend_other m k k' l hk] at h; exact hi k' l' h

/-- the `for inode, pairs in proc_inodes.items(): inodes.setdefault(inode, []).extend(pairs)` loop -/
theorem foldl_extend (P : Inodes) (hP : Inv P) (hn : (keys P).Nodup) :
    ∀ m : Inodes, Inv m →
      (∀ k, sem (P.foldl (fun m kv => m.extend kv.1 kv.2) m) k = sem m k ++ sem P k)
      ∧ Inv (P.foldl (fun m kv => m.extend kv.1 kv.2) m) := by
  induction P with
  | nil => intro m hi; simp [sem, hi]
  | cons a as ih =>
    intro m hi
    obtain ⟨k0, l0⟩ := a
    have hl0 : l0 ≠ [] := hP k0 l0 (by simp [lookup_cons])
    have hn' : k0 ∉ keys as ∧ (keys as).Nodup := by simpa [keys] using hn
    have hPas : Inv as := by
      intro k l h
      have hk : k ≠ k0 := by
        intro e; subst e
        rw [lookup_none_of_not_mem as k hn'.1] at h; cases h
      exact hP k l (by simp [lookup_cons, hk, h])
    obtain ⟨h1, h2⟩ := ih hPas hn'.2 (m.extend k0 l0) (inv_extend m k0 l0 hi hl0)
    simp only [List.foldl_cons]
    refine ⟨fun k => ?_, h2⟩
    rw [h1 k, sem_extend]
    by_cases hk : k = k0
    · subst hk
      have : sem as k = [] := sem_nil_of_lookup_none (lookup_none_of_not_mem as k hn'.1)
      simp only [sem] at this ⊢
      simp [this, lookup_cons]
    · simp [hk, sem, lookup_cons]

/-! ### `get_all_inodes` (merging variant) -/

/-- all (pid, fd) pairs over all listable processes whose link gives key `k`, in listing order -/
def allHits (k : Bytes) (procs : List (Nat × Option (List FdEntry))) : List (Nat × Nat) :=
  procs.flatMap fun p =>
    match p.2 with
    | none => []
    | some fds => hits p.1 k fds

theorem mergeProc_extend (c : Cfg) (he : c.inodesExtend = true) (m P : Inodes) :
    mergeProc c m P = P.foldl (fun m kv => m.extend kv.1 kv.2) m := by
  simp [mergeProc, he]

theorem getAllInodes_spec (c : Cfg) (he : c.inodesExtend = true) (procs : List (Nat × Option (List FdEntry))) :
    (∀ k, sem (getAllInodes c procs) k = allHits k procs) ∧ Inv (getAllInodes c procs) := by
  unfold getAllInodes
  suffices h : ∀ m0 : Inodes, Inv m0 →
      (∀ k, sem (procs.foldl (allStep c) m0) k = sem m0 k ++ allHits k procs)
      ∧ Inv (procs.foldl (allStep c) m0) by
    obtain ⟨h1, h2⟩ := h [] inv_nil
    exact ⟨fun k => by rw [h1 k]; simp [sem], h2⟩
  induction procs with
  | nil => intro m0 hi; simp [allHits, hi]
  | cons p ps ih =>
    intro m0 hi
    simp only [List.foldl_cons]
    cases hp : p.2 with
    | none =>
      have : allStep c m0 p = m0 := by simp [allStep, hp]
      rw [this]
      obtain ⟨h1, h2⟩ := ih m0 hi
      refine ⟨fun k => ?_, h2⟩
      rw [h1 k]; simp [allHits, hp]
    | some fds =>
      have : allStep c m0 p = (getProcInodes p.1 fds).foldl (fun m kv => m.extend kv.1 kv.2) m0 := by
        simp [allStep, hp, mergeProc_extend c he]
      rw [this]
      obtain ⟨g1, g2, g3⟩ := getProcInodes_spec p.1 fds
      obtain ⟨f1, f2⟩ := foldl_extend (getProcInodes p.1 fds) g2 g3 m0 hi
      obtain ⟨h1, h2⟩ := ih _ f2
      refine ⟨fun k => ?_, h2⟩
      rw [h1 k, f1 k, g1 k]
      simp [allHits, hp]

end Psutil.C11
