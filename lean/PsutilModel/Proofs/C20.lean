/-
  Proofs/C20.lean — helper lemmas for the C20 theorems.
-/
import PsutilModel.Model.C20Gen
import PsutilModel.Spec.C20
namespace Psutil.C20

def PyClass.all : List PyClass := [.processLookup, .fileNotFound, .permission, .osError]

theorem Family.mem_all (f : Family) : f ∈ Family.all := by cases f <;> decide
theorem Platform.mem_all (p : Platform) : p ∈ Platform.all := by cases p <;> decide
theorem PyClass.mem_all (c : PyClass) : c ∈ PyClass.all := by cases c <;> decide
theorem PidState.mem_all (s : PidState) : s ∈ PidState.all := by cases s <;> decide
theorem Errno.mem_all (e : Errno) : e ∈ Errno.all := by cases e <;> decide

/-- the errors of the sweep: six errnos, on Windows × six `winerror` values -/
def sweptErrs (p : Platform) : List Err :=
  if p == .windows then
    Errno.all.flatMap fun e => [none, some 0, some 5, some 1314, some 299, some 87].map fun w => ⟨e, w⟩
  else Errno.all.map fun e => ⟨e, none⟩

def sweptEnvs (pid : Nat) : List Env :=
  PidState.all.flatMap fun s => [true, false].map fun l => ⟨pid, s, l⟩

/-- the action of the first `except` clause that catches class `c` -/
def dispatch : List Clause → PyClass → Option Action
  | [], _ => none
  | c :: cs, k => if catches c.names k then some c.action else dispatch cs k

theorem runClauses_eq_dispatch (f : Family) (w : WinCfg) (e : Err) (env : Env) (cs : List Clause) :
    runClauses f w e env cs =
      match dispatch cs (pyClass e.errno) with
      | none => .raw e
      | some a => runAction f w a e env := by
  induction cs with
  | nil => rfl
  | cons c cs ih =>
    simp only [runClauses, dispatch]
    split <;> simp_all

/-- what the decorators do per exception class, as a table (read off the generated clauses by `decide`) -/
def actionTable (f : Family) (c : PyClass) : Option Action :=
  match f, c with
  | .bsd, .processLookup => some .zombieProbe
  | .bsd, .permission => some .accessDenied
  | .bsd, _ => some .pid0Rule
  | .osx, .processLookup => some .zombieProbe
  | .osx, .permission => some .accessDenied
  | .osx, _ => none
  | .sunos, .processLookup | .sunos, .fileNotFound => some .existsProbe
  | .sunos, .permission => some .accessDenied
  | .sunos, .osError => some .pid0Rule
  | .aix, .processLookup | .aix, .fileNotFound => some .existsProbe
  | .aix, .permission => some .accessDenied
  | .aix, .osError => none
  | .windows, _ => some .convertOserror

theorem dispatch_generated :
    ∀ f ∈ Family.all, ∀ c ∈ PyClass.all, dispatch (cfg.clauses f) c = actionTable f c := by decide

theorem dispatch_cfg (f : Family) (c : PyClass) : dispatch (cfg.clauses f) c = actionTable f c :=
  dispatch_generated f (Family.mem_all f) c (PyClass.mem_all c)

/-- the generated Windows facts, as a closed record -/
theorem winCfg_generated :
    cfg.win = { permIsinstance := true, permCodes := [5, 1314],
                convert := [(.permission, .ad), (.processLookup, .nsp), (.otherwise, .reraise)],
                partialCopy := 299, retryTimes := 33 } := by decide

theorem procfs_dispatch :
    ∀ c ∈ PyClass.all, dispatch cfg.procfsClauses c =
      (match c with
       | .processLookup | .fileNotFound => some .zombieProbe
       | .permission => some .accessDenied
       | .osError => none) := by decide

/-! ### MAC padding -/

theorem count_append_group (sep : Char) (h0 : sep ≠ '0') (a : List Char) :
    (a ++ [sep, '0', '0']).count sep = a.count sep + 1 := by
  simp [List.count_append, Ne.symm h0]

theorem padMacGo_spec (sep : Char) (h0 : sep ≠ '0') :
    ∀ (fuel : Nat) (a : List Char), 5 ≤ fuel + a.count sep →
      padMacGo sep fuel a = a ++ (List.replicate (5 - a.count sep) [sep, '0', '0']).flatten := by
  intro fuel
  induction fuel with
  | zero =>
    intro a h
    have : 5 - a.count sep = 0 := by omega
    simp [padMacGo, this]
  | succ n ih =>
    intro a h
    simp only [padMacGo]
    split
    · next hlt =>
      rw [ih _ (by rw [count_append_group sep h0]; omega), count_append_group sep h0]
      have : 5 - a.count sep = (5 - (a.count sep + 1)) + 1 := by omega
      rw [this, List.replicate_succ, List.flatten_cons]
      simp
    · next hge =>
      have : 5 - a.count sep = 0 := by omega
      simp [this]

/-! ### broadcast address, bit by bit -/

theorem ipv4Broadcast_bits (a n : Nat) (ha : a < 2 ^ 32) (i : Nat) :
    (ipv4Broadcast a n).testBit i = (decide (i < 32 - n) || a.testBit i) := by
  unfold ipv4Broadcast prefixMask
  simp only [Nat.testBit_or, Nat.testBit_and, Nat.testBit_xor, Nat.testBit_two_pow_sub_one]
  by_cases h1 : i < 32 - n
  · simp [h1]
  · by_cases h2 : i < 32
    · simp [h1, h2]
    · have : a.testBit i = false := by
        apply Nat.testBit_lt_two_pow
        calc a < 2 ^ 32 := ha
          _ ≤ 2 ^ i := Nat.pow_le_pow_right (by decide) (by omega)
      simp [h1, h2, this]

theorem ipv6Broadcast_bits (a n : Nat) (ha : a < 2 ^ 128) (i : Nat) :
    (ipv6Broadcast a n).testBit i = (decide (i < 128 - n) || a.testBit i) := by
  unfold ipv6Broadcast prefixMask6
  simp only [Nat.testBit_or, Nat.testBit_and, Nat.testBit_xor, Nat.testBit_two_pow_sub_one]
  by_cases h1 : i < 128 - n
  · simp [h1]
  · by_cases h2 : i < 128
    · simp [h1, h2]
    · have : a.testBit i = false := by
        apply Nat.testBit_lt_two_pow
        calc a < 2 ^ 128 := ha
          _ ≤ 2 ^ i := Nat.pow_le_pow_right (by decide) (by omega)
      simp [h1, h2, this]

/-! ### sorted-subset check (both lists are emitted sorted by the translator) -/

/-- `xs ⊆ ys` for two lists sorted the same way: one pass -/
def subsetSorted : List String → List String → Bool
  | [], _ => true
  | _ :: _, [] => false
  | x :: xs, y :: ys => if x == y then subsetSorted xs ys else subsetSorted (x :: xs) ys

theorem subsetSorted_sound : ∀ (xs ys : List String), subsetSorted xs ys = true → ∀ x ∈ xs, x ∈ ys := by
  intro xs ys
  induction ys generalizing xs with
  | nil =>
    intro h x hx
    cases xs with
    | nil => cases hx
    | cons a as => simp [subsetSorted] at h
  | cons y ys ih =>
    intro h x hx
    cases xs with
    | nil => cases hx
    | cons a as =>
      simp only [subsetSorted] at h
      split at h
      · next heq =>
        have hay : a = y := by simpa using heq
        cases hx with
        | head => simp [hay]
        | tail _ hx' => exact List.mem_cons_of_mem _ (ih as h x hx')
      · exact List.mem_cons_of_mem _ (ih (a :: as) h x hx)

/-! ### documented ⊆ exposed, per platform (one pass over the two sorted generated lists) -/

def documentedOf (p : Platform) : List String := (Gen.C20.documented.lookup p.key).getD []
def exposedOf (p : Platform) : List String := (Gen.C20.exposed.lookup p.key).getD []

theorem api_subset_check : ∀ p ∈ Platform.all, subsetSorted (documentedOf p) (exposedOf p) = true := by
  decide +kernel

end Psutil.C20
