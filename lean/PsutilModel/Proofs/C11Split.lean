/-
  Proofs/C11Split.lean — `str.split()`, `str.split(None, k)` and line iteration over text laid
  out as the kernel does it: fields preceded by runs of blanks, lines terminated by `\n`.
-/
import PsutilModel.Model.C11
import PsutilModel.Spec.C11
set_option linter.unusedSimpArgs false
namespace Psutil.C11
open Spec

theorem isWs_32 : isWs 32 = true := by decide

theorem splitWsGo_pad (p : Nat) (rest : Bytes) :
    splitWsGo (List.replicate p 32 ++ rest) [] = splitWsGo rest [] := by
  induction p with
  | zero => simp
  | succ p ih => simp [List.replicate_succ, splitWsGo, isWs_32, ih]

/-- what may follow the last field: nothing, or something starting with a whitespace byte -/
def TailOK (tail : Bytes) : Prop := tail = [] ∨ ∃ c tl, tail = c :: tl ∧ isWs c = true

theorem fieldsLine_cons (f : Nat × Bytes) (fs : List (Nat × Bytes)) :
    fieldsLine (f :: fs) = List.replicate f.1 32 ++ (f.2 ++ fieldsLine fs) := by
  simp [fieldsLine, List.flatMap_cons]

def FieldsOK (fs : List (Nat × Bytes)) : Prop := ∀ f ∈ fs, f.2 ≠ [] ∧ NoWs f.2
def PadsOK (fs : List (Nat × Bytes)) : Prop := ∀ f ∈ fs, 1 ≤ f.1

theorem splitWsGo_fields (fs : List (Nat × Bytes)) (hf : FieldsOK fs) (hp : PadsOK fs)
    (tail : Bytes) (ht : TailOK tail) :
    ∀ cur : Bytes, cur ≠ [] →
      splitWsGo (fieldsLine fs ++ tail) cur = cur.reverse :: (fs.map (·.2) ++ splitWsGo tail []) := by
  induction fs with
  | nil =>
    intro cur hc
    simp only [fieldsLine, List.flatMap_nil, List.nil_append, List.map_nil]
    cases ht with
    | inl h =>
      subst h
      cases cur with
      | nil => exact absurd rfl hc
      | cons a as => simp [splitWsGo]
    | inr h =>
      obtain ⟨c, tl, rfl, hws⟩ := h
      rw [splitWsGo_ws c tl cur hws hc]
      simp [splitWsGo, hws]
  | cons f fs ih =>
    intro cur hc
    have hf1 := hf f (by simp)
    have hp1 := hp f (by simp)
    have ih' := ih (fun g hg => hf g (by simp [hg])) (fun g hg => hp g (by simp [hg]))
    obtain ⟨q, hq⟩ : ∃ q, f.1 = q + 1 := ⟨f.1 - 1, by omega⟩
    rw [fieldsLine_cons, hq, List.replicate_succ]
    simp only [List.cons_append, List.append_assoc]
    rw [splitWsGo_ws 32 _ cur isWs_32 hc, splitWsGo_pad, splitWsGo_token f.2 _ [] hf1.2]
    rw [List.append_nil, ih' f.2.reverse (by simpa using hf1.1)]
    simp

/-- `line.split()` of a kernel-style line: the fields, then the tokens of whatever follows -/
theorem splitWs_fields (f : Nat × Bytes) (fs : List (Nat × Bytes)) (hf : FieldsOK (f :: fs))
    (hp : PadsOK fs) (tail : Bytes) (ht : TailOK tail) :
    splitWs (fieldsLine (f :: fs) ++ tail) = f.2 :: (fs.map (·.2) ++ splitWsGo tail []) := by
  have hf1 := hf f (by simp)
  unfold splitWs
  rw [fieldsLine_cons]
  simp only [List.append_assoc]
  rw [splitWsGo_pad, splitWsGo_token f.2 _ [] hf1.2, List.append_nil,
    splitWsGo_fields fs (fun g hg => hf g (by simp [hg])) hp tail ht f.2.reverse (by simpa using hf1.1)]
  simp

/-! ### `split(None, k)` -/

theorem lstripWs_pad (p : Nat) (rest : Bytes) : lstripWs (List.replicate p 32 ++ rest) = lstripWs rest := by
  induction p with
  | zero => simp
  | succ p ih => simp [List.replicate_succ, lstripWs, isWs_32, ih]

theorem lstripWs_token (t rest : Bytes) (hne : t ≠ []) (hn : NoWs t) : lstripWs (t ++ rest) = t ++ rest := by
  cases t with
  | nil => exact absurd rfl hne
  | cons c cs => simp [lstripWs, hn c (by simp)]

theorem takeWhile_token (t X : Bytes) (hn : NoWs t) (hx : TailOK X) :
    (t ++ X).takeWhile (fun c => !isWs c) = t ∧ (t ++ X).dropWhile (fun c => !isWs c) = X := by
  induction t with
  | nil =>
    cases hx with
    | inl h => subst h; simp
    | inr h => obtain ⟨c, tl, rfl, hws⟩ := h; simp [List.takeWhile, List.dropWhile, hws]
  | cons c cs ih =>
    have hc : isWs c = false := hn c (by simp)
    have := ih (fun d hd => hn d (by simp [hd]))
    simp [List.takeWhile, List.dropWhile, hc, this]

theorem tailOK_fields (fs : List (Nat × Bytes)) (hp : PadsOK fs) (tail : Bytes) (ht : TailOK tail) :
    TailOK (fieldsLine fs ++ tail) := by
  cases fs with
  | nil => simpa [fieldsLine] using ht
  | cons f fs =>
    have hp1 := hp f (by simp)
    obtain ⟨q, hq⟩ : ∃ q, f.1 = q + 1 := ⟨f.1 - 1, by omega⟩
    right
    rw [fieldsLine_cons, hq, List.replicate_succ]
    simp only [List.cons_append]
    exact ⟨32, _, rfl, isWs_32⟩

/-- `line.split(None, n)` when the line has `n + 1` fields: the first `n`, then the rest of the line -/
theorem splitWsMax_fields : ∀ (fs : List (Nat × Bytes)) (f : Nat × Bytes), FieldsOK (f :: fs) → PadsOK fs →
    ∀ tail : Bytes, splitWsMax fs.length (fieldsLine (f :: fs) ++ tail)
      = ((f :: fs).dropLast.map (·.2)) ++ [((f :: fs).getLast (by simp)).2 ++ tail] := by
  intro fs
  induction fs with
  | nil =>
    intro f hf _ tail
    have hf1 := hf f (by simp)
    rw [fieldsLine_cons]
    simp only [fieldsLine, List.flatMap_nil, List.append_nil, List.length_nil, splitWsMax, List.append_assoc]
    rw [lstripWs_pad, lstripWs_token f.2 tail hf1.1 hf1.2]
    have : (f.2 ++ tail).isEmpty = false := by
      cases h : f.2 with
      | nil => exact absurd h hf1.1
      | cons a as => simp
    simp [this]
  | cons g gs ih =>
    intro f hf hp tail
    have hf1 := hf f (by simp)
    have hfg : FieldsOK (g :: gs) := fun x hx => hf x (by simp [hx])
    have hpg : PadsOK gs := fun x hx => hp x (by simp [hx])
    have ih' := ih g hfg hpg tail
    rw [fieldsLine_cons]
    simp only [List.length_cons, splitWsMax, List.append_assoc]
    rw [lstripWs_pad, lstripWs_token f.2 _ hf1.1 hf1.2]
    have hne : (f.2 ++ (fieldsLine (g :: gs) ++ tail)).isEmpty = false := by
      cases h : f.2 with
      | nil => exact absurd h hf1.1
      | cons a as => simp
    have hx : TailOK (fieldsLine (g :: gs) ++ tail) := by
      have hp1 := hp g (by simp)
      obtain ⟨q, hq⟩ : ∃ q, g.1 = q + 1 := ⟨g.1 - 1, by omega⟩
      right
      rw [fieldsLine_cons, hq, List.replicate_succ]
      simp only [List.cons_append]
      exact ⟨32, _, rfl, isWs_32⟩
    have htw := takeWhile_token f.2 _ hf1.2 hx
    simp only [hne, Bool.false_eq_true, if_false, htw.1, htw.2]
    rw [ih']
    simp [List.dropLast, List.getLast]

/-- `s.partition(' ')[2]` -/
theorem afterFirstSpace_append (t path : Bytes) (h : 32 ∉ t) : afterFirstSpace (t ++ 32 :: path) = path := by
  induction t with
  | nil => simp [afterFirstSpace]
  | cons c cs ih =>
    have hc : c ≠ 32 := fun e => h (by simp [e])
    simp [afterFirstSpace, hc, ih (fun m => h (by simp [m]))]

theorem afterFirstSpace_none (t : Bytes) (h : 32 ∉ t) : afterFirstSpace t = [] := by
  induction t with
  | nil => rfl
  | cons c cs ih =>
    have hc : c ≠ 32 := fun e => h (by simp [e])
    simp [afterFirstSpace, hc, ih (fun m => h (by simp [m]))]

/-! ### line iteration -/

theorem splitOn_lines (lines : List Bytes) (h : ∀ l ∈ lines, 10 ∉ l) :
    splitOn 10 (lines.flatMap (fun l => l ++ [10])) = lines ++ [[]] := by
  induction lines with
  | nil => simp [splitOn]
  | cons l ls ih =>
    simp only [List.flatMap_cons, List.append_assoc, List.singleton_append]
    rw [splitOn_append 10 l _ (h l (by simp)), ih (fun x hx => h x (by simp [hx]))]
    simp

/-- iterating over a file = its header line, then its lines -/
theorem linesOf_fileOf (header : Bytes) (lines : List Bytes) (hh : 10 ∉ header) (h : ∀ l ∈ lines, 10 ∉ l) :
    linesOf (fileOf header lines) = header :: lines := by
  unfold linesOf fileOf
  rw [splitOn_append 10 header _ hh, splitOn_lines lines h]
  have : (header :: (lines ++ [[]])).reverse = [] :: (header :: lines).reverse := by simp
  rw [this]
  simp

end Psutil.C11
