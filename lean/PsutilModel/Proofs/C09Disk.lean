/-
  Proofs/C09Disk.lean — the diskstats branch table as extracted by the translator, applied to
  the token lists of kernel-rendered lines. Every lemma here is a proof obligation on
  `Generated/C09.lean`: a changed guard, index, slice bound, unpack/yield/stored order, scaled
  name or sector size makes one of them fail.
-/
import PsutilModel.Proofs.C09
namespace Psutil.C09
open Spec

/-- i-th branch of the extracted `if/elif` chain -/
def B (i : Nat) : Branch := diskCfg.branches.getD i ⟨[], 0, [], 0, none, [], []⟩

/-! #### which branch a field count selects -/

theorem branch_15 : branchFor diskCfg 15 = some (B 0) := by rfl

theorem branch_7 : branchFor diskCfg 7 = some (B 2) := by rfl

theorem branch_full (n : Nat) (h : n = 14 ∨ 18 ≤ n) : branchFor diskCfg n = some (B 1) := by
  unfold branchFor
  simp [diskCfg, Gen.C09.diskBranches, guardHolds, B]
  omega

theorem branch_unknown (n : Nat) (h : layoutKnown n = false) : branchFor diskCfg n = none := by
  unfold branchFor
  simp [layoutKnown] at h
  simp [diskCfg, Gen.C09.diskBranches, guardHolds]
  omega

/-! #### from the integers of a line to the stored tuple -/

theorem values_full (v0 v1 v2 v3 v4 v5 v6 v7 v8 v9 v10 : Nat) :
    diskValues diskCfg (B 1) [] [v0, v1, v2, v3, v4, v5, v6, v7, v8, v9, v10]
      = .ok [v0, v4, v2 * 512, v6 * 512, v3, v7, v1, v5, v9] := by rfl

theorem values_old24 (r v1 v2 v3 v4 v5 v6 v7 v8 v9 v10 : Nat) :
    diskValues diskCfg (B 0) [("reads", r)] [v1, v2, v3, v4, v5, v6, v7, v8, v9, v10]
      = .ok [r, v4, v2 * 512, v6 * 512, v3, v7, v1, v5, v9] := by rfl

theorem values_part (a b c d : Nat) :
    diskValues diskCfg (B 2) [] [a, b, c, d] = .ok [a, c, b * 512, d * 512, 0, 0, 0, 0, 0] := by rfl

/-- the nine values of `documented9`, in field order -/
def vals9 (r : Rec) : List Nat := (documented9 r).map (·.2)

theorem diskFields_full (a b name : Bytes) (s : Io11) (ext : List Nat)
    (h : ext.length = 0 ∨ 4 ≤ ext.length) :
    diskFields diskCfg (a :: b :: name :: (s.cols ++ ext).map renderDec)
      = .ok (name, vals9 (.full s ext)) := by
  have hlen : (a :: b :: name :: (s.cols ++ ext).map renderDec).length = ext.length + 14 := by
    simp [Io11.cols]
  unfold diskFields
  rw [hlen, branch_full _ (by omega)]
  have e1 : (B 1).nameIdx = 2 := rfl
  have e2 : (B 1).singles = [] := rfl
  have e3 : (B 1).lo = 3 := rfl
  have e4 : (B 1).hi = some 14 := rfl
  simp only [e1, e2, e3, e4, singlesEnv, Res.bind, sliceOf, Io11.cols, List.getElem?_cons_succ,
    List.getElem?_cons_zero, List.drop_succ_cons, List.drop_zero, List.cons_append, List.nil_append,
    List.map_cons, List.take_succ_cons, List.take_zero, Nat.reduceSub, ints, intTok_renderDec,
    values_full]
  rfl

theorem diskFields_part (a b name : Bytes) (r sr w sw : Nat) :
    diskFields diskCfg (a :: b :: name :: [r, sr, w, sw].map renderDec)
      = .ok (name, vals9 (.part r sr w sw)) := by
  unfold diskFields
  have hlen : (a :: b :: name :: [r, sr, w, sw].map renderDec).length = 7 := rfl
  rw [hlen, branch_7]
  have e1 : (B 2).nameIdx = 2 := rfl
  have e2 : (B 2).singles = [] := rfl
  have e3 : (B 2).lo = 3 := rfl
  have e4 : (B 2).hi = none := rfl
  simp only [e1, e2, e3, e4, singlesEnv, Res.bind, sliceOf, List.getElem?_cons_succ,
    List.getElem?_cons_zero, List.drop_succ_cons, List.drop_zero, List.map_cons, List.map_nil,
    ints, intTok_renderDec, values_part]
  rfl

theorem diskFields_old24 (a b name : Bytes) (s : Io11) (last : Nat) :
    diskFields diskCfg (a :: b :: renderDec s.reads :: name :: (s.cols.drop 1 ++ [last]).map renderDec)
      = .ok (name, vals9 (.old24 s last)) := by
  unfold diskFields
  have hlen : (a :: b :: renderDec s.reads :: name ::
      (s.cols.drop 1 ++ [last]).map renderDec).length = 15 := rfl
  rw [hlen, branch_15]
  have e1 : (B 0).nameIdx = 3 := rfl
  have e2 : (B 0).singles = [("reads", 2)] := rfl
  have e3 : (B 0).lo = 4 := rfl
  have e4 : (B 0).hi = some 14 := rfl
  simp only [e1, e2, e3, e4, singlesEnv, intAt, Res.bind, sliceOf, Io11.cols, List.getElem?_cons_succ,
    List.getElem?_cons_zero, List.drop_succ_cons, List.drop_zero, List.cons_append, List.nil_append,
    List.map_cons, List.map_nil, List.take_succ_cons, List.take_zero, Nat.reduceSub, ints,
    intTok_renderDec, values_old24]
  rfl

/-- layouts the kernel (or psutil's test-suite) defines: the 18-field layout may grow -/
def WFRec : Rec → Prop
  | .full _ ext => ext.length = 0 ∨ 4 ≤ ext.length
  | _ => True

theorem hasUniSpace_renderDiskLine (d : Dev) (hn : hasUniSpace d.name = false) :
    hasUniSpace (renderDiskLine d) = false := by
  obtain ⟨maj, min, name, p, st⟩ := d
  have hm : ∀ c, Odd c → ∀ w n, c ∉ numW w n :=
    fun c h w n => odd_not_mem_padLeft c w _ h (odd_not_mem_renderDec c n h)
  cases st with
  | full s ext =>
    have e : renderDiskLine ⟨maj, min, name, p, .full s ext⟩
        = (numW 4 maj ++ 32 :: numW 7 min ++ [32]) ++ (name ++ spaced (s.cols ++ ext)) := by
      simp [renderDiskLine]
    rw [e]
    refine hasUniSpace_line _ _ _ ?_ (fun c h => odd_not_mem_spaced c _ h) hn
    intro c h
    simp only [List.mem_append, List.mem_cons, not_or, List.not_mem_nil, or_false]
    exact ⟨⟨hm c h _ _, h.1, hm c h _ _⟩, h.1⟩
  | part a b c' e' =>
    have e : renderDiskLine ⟨maj, min, name, p, .part a b c' e'⟩
        = (numW 4 maj ++ 32 :: numW 7 min ++ [32]) ++ (name ++ spaced [a, b, c', e']) := by
      simp [renderDiskLine]
    rw [e]
    refine hasUniSpace_line _ _ _ ?_ (fun c h => odd_not_mem_spaced c _ h) hn
    intro c h
    simp only [List.mem_append, List.mem_cons, not_or, List.not_mem_nil, or_false]
    exact ⟨⟨hm c h _ _, h.1, hm c h _ _⟩, h.1⟩
  | old24 s last =>
    have e : renderDiskLine ⟨maj, min, name, p, .old24 s last⟩
        = (numW 4 maj ++ 32 :: numW 7 min ++ spaced [s.reads] ++ [32])
          ++ (name ++ spaced (s.cols.drop 1 ++ [last])) := by
      simp [renderDiskLine]
    rw [e]
    refine hasUniSpace_line _ _ _ ?_ (fun c h => odd_not_mem_spaced c _ h) hn
    intro c h
    simp only [List.mem_append, List.mem_cons, not_or, List.not_mem_nil, or_false]
    exact ⟨⟨⟨hm c h _ _, h.1, hm c h _ _⟩, odd_not_mem_spaced c _ h⟩, h.1⟩

/-- **per line**: every documented layout parses to the documented values -/
theorem diskLine_render (d : Dev) (hn : WFDisk d.name) (hr : WFRec d.stat) :
    diskLine diskCfg (renderDiskLine d) = .ok (d.name, vals9 d.stat) := by
  obtain ⟨maj, min, name, p, st⟩ := d
  have hu := hasUniSpace_renderDiskLine ⟨maj, min, name, p, st⟩ hn.noUni
  unfold diskLine
  rw [hu]
  simp only [Bool.false_eq_true, if_false]
  cases st with
  | full s ext => rw [fields_full maj min name p s ext hn]; exact diskFields_full _ _ _ s ext hr
  | part a b c e => rw [fields_part maj min name p a b c e hn]; exact diskFields_part _ _ _ a b c e
  | old24 s last => rw [fields_old24 maj min name p s last hn]; exact diskFields_old24 _ _ _ s last

/-! ### the whole `/proc/diskstats` and the `/sys/block` filter -/

theorem not_mem_renderDiskLine (c : Nat) (h : Odd c) (d : Dev) (hn : c ∉ d.name) :
    c ∉ renderDiskLine d := by
  obtain ⟨maj, min, name, p, st⟩ := d
  have hm : ∀ w n, c ∉ numW w n := fun w n => odd_not_mem_padLeft c w _ h (odd_not_mem_renderDec c n h)
  cases st with
  | full s ext =>
    simp only [renderDiskLine, List.mem_append, List.mem_cons, not_or]
    exact ⟨⟨hm _ _, h.1, hm _ _⟩, ⟨h.1, hn⟩, odd_not_mem_spaced c _ h⟩
  | part a b c' e =>
    simp only [renderDiskLine, List.mem_append, List.mem_cons, not_or]
    exact ⟨⟨hm _ _, h.1, hm _ _⟩, ⟨h.1, hn⟩, odd_not_mem_spaced c _ h⟩
  | old24 s last =>
    simp only [renderDiskLine, List.mem_append, List.mem_cons, not_or]
    exact ⟨⟨hm _ _, h.1, hm _ _⟩, ⟨odd_not_mem_spaced c _ h, h.1, hn⟩, odd_not_mem_spaced c _ h⟩

theorem diskFold_map {α : Type} (cfg : DiskCfg) (st : Bytes → Bool) (per : Bool) (xs : List α)
    (render : α → Bytes) (g : α → Bytes × List Nat)
    (h : ∀ x ∈ xs, diskLine cfg (render x) = .ok (g x)) (d : Dict) :
    diskFold cfg st per d (xs.map render)
      = .ok (((xs.filter fun x => !(cfg.skipPartitions && !per && !st (g x).1)).map g).foldl
          (fun d kv => d.set kv.1 kv.2) d) := by
  induction xs generalizing d with
  | nil => rfl
  | cons x r ih =>
    have ihr := ih (fun y hy => h y (by simp [hy]))
    simp only [List.map_cons, diskFold, h x (by simp)]
    by_cases hc : (cfg.skipPartitions && !per && !st (g x).1) = true
    · simp only [hc, if_true, List.filter_cons, Bool.not_true, Bool.false_eq_true, if_false]
      exact ihr d
    · have hc' : (cfg.skipPartitions && !per && !st (g x).1) = false := by simpa using hc
      simp only [hc', Bool.false_eq_true, if_false, List.filter_cons, Bool.not_false, if_true,
        List.map_cons, List.foldl_cons]
      exact ihr _

theorem eq_of_nodup_map {α β : Type} (f : α → β) :
    ∀ (l : List α), (l.map f).Nodup → ∀ a ∈ l, ∀ b ∈ l, f a = f b → a = b := by
  intro l
  induction l with
  | nil => intro _ a ha; cases ha
  | cons x r ih =>
    intro hn a ha b hb hab
    simp only [List.map_cons, List.nodup_cons] at hn
    rw [List.mem_cons] at ha hb
    rcases ha with rfl | ha <;> rcases hb with rfl | hb
    · rfl
    · exact absurd (hab ▸ List.mem_map_of_mem (f := f) hb) hn.1
    · exact absurd (hab ▸ List.mem_map_of_mem (f := f) ha) hn.1
    · exact ih hn.2 a ha b hb hab

/-- a device table as the kernel presents it: names are single tokens, layouts are the
    documented ones, no two devices share a `/sys/block` name, none is called `.` or `..` -/
structure DiskWF (devs : List Dev) : Prop where
  names : ∀ d ∈ devs, WFDisk d.name
  recs : ∀ d ∈ devs, WFRec d.stat
  nodup : (devs.map fun d => sysName d.name).Nodup
  notDot : ∀ d ∈ devs, sysName d.name ≠ [46] ∧ sysName d.name ≠ [46, 46]

theorem DiskWF.nodupNames {devs : List Dev} (wf : DiskWF devs) : (devs.map (·.name)).Nodup := by
  have h : ((devs.map (·.name)).map sysName).Nodup := by
    simpa [List.map_map, Function.comp_def] using wf.nodup
  exact List.Pairwise.of_map sysName (fun a b hab e => hab (by rw [e])) h

/-- `is_storage_device` over the kernel's `/sys/block` says "whole disk" exactly for the
    devices that are not partitions (the `/` → `!` mapping included) -/
theorem isStorage_iff_whole (devs : List Dev) (wf : DiskWF devs) (d : Dev) (hd : d ∈ devs) :
    isStorageDevice diskCfg (sysBlock devs) d.name = !d.partition := by
  have hm : (d.name.map fun c => if c = diskCfg.slashFrom then diskCfg.slashTo else c)
      = sysName d.name := rfl
  unfold isStorageDevice
  simp only [hm]
  have h1 : (sysName d.name == [46]) = false := by simpa using (wf.notDot d hd).1
  have h2 : (sysName d.name == [46, 46]) = false := by simpa using (wf.notDot d hd).2
  rw [h1, h2]
  simp only [Bool.false_or]
  cases hp : d.partition with
  | false =>
    simp only [Bool.not_false, List.contains_eq_mem, decide_eq_true_eq]
    unfold sysBlock
    exact List.mem_map.mpr ⟨d, List.mem_filter.mpr ⟨hd, by simp [hp]⟩, rfl⟩
  | true =>
    simp only [Bool.not_true, List.contains_eq_mem, decide_eq_false_iff_not]
    unfold sysBlock
    intro hmem
    obtain ⟨d', hd', he⟩ := List.mem_map.mp hmem
    rw [List.mem_filter] at hd'
    have := eq_of_nodup_map (fun d => sysName d.name) devs wf.nodup d' hd'.1 d hd he
    rw [this, hp] at hd'
    simp at hd'

/-- a device table for the per-device form and for ANY `/sys/block`: names are single tokens, layouts are
    the documented ones, no two lines carry the same name (nothing about `/sys/block` names) -/
structure DiskTable (devs : List Dev) : Prop where
  names : ∀ d ∈ devs, WFDisk d.name
  recs : ∀ d ∈ devs, WFRec d.stat
  nodup : (devs.map (·.name)).Nodup

theorem DiskWF.table {devs : List Dev} (wf : DiskWF devs) : DiskTable devs := ⟨wf.names, wf.recs, wf.nodupNames⟩

/-- whole file, any `is_storage_device`: the per-device form does not look at it; the system-wide form
    needs it to say "whole disk" exactly for the lines that are not partitions -/
theorem diskPlatform_render_st (devs : List Dev) (wf : DiskTable devs) (per : Bool) (st : Bytes → Bool)
    (hst : per = false → ∀ d ∈ devs, st d.name = !d.partition) :
    diskPlatform diskCfg st per (renderDiskstats devs)
      = .ok ((if per then devs else wholeDisks devs).map fun d => (d.name, vals9 d.stat)) := by
  unfold diskPlatform renderDiskstats
  rw [show diskCfg.univNl = false from rfl, textLines_unlines_nl]
  · rw [diskFold_map diskCfg _ per devs renderDiskLine (fun d => (d.name, vals9 d.stat))
      (fun d hd => diskLine_render d (wf.names d hd) (wf.recs d hd))]
    have hskip : diskCfg.skipPartitions = true := rfl
    have hfilter : (devs.filter fun x => !(diskCfg.skipPartitions && !per && !st x.name))
        = if per then devs else wholeDisks devs := by
      cases per with
      | true => simp
      | false =>
        simp only [hskip, Bool.not_false, Bool.and_self, Bool.true_and, Bool.not_not,
          Bool.false_eq_true, if_false, wholeDisks]
        apply List.filter_congr
        intro x hx
        exact hst rfl x hx
    simp only [hfilter]
    rw [foldl_set_fresh]
    · simp
    · intro _ _ x hx; cases hx
    · have hsub : ((if per then devs else wholeDisks devs).map (·.name)).Sublist (devs.map (·.name)) := by
        cases per with
        | true => simp
        | false => exact List.Sublist.map _ List.filter_sublist
      have := List.Pairwise.sublist hsub wf.nodup
      simp only [List.map_map, Function.comp_def]
      exact this
  · intro l hl
    obtain ⟨d, hd, rfl⟩ := List.mem_map.mp hl
    refine not_mem_renderDiskLine 10 odd10 d ?_
    intro hm
    have := (wf.names d hd).noWs 10 hm
    simp [isWsT, isWs] at this

theorem diskPlatform_render (devs : List Dev) (wf : DiskWF devs) (per : Bool) :
    diskPlatform diskCfg (isStorageDevice diskCfg (sysBlock devs)) per (renderDiskstats devs)
      = .ok ((if per then devs else wholeDisks devs).map fun d => (d.name, vals9 d.stat)) :=
  diskPlatform_render_st devs wf.table per _ (fun _ d hd => isStorage_iff_whole devs wf d hd)

/-- `is_storage_device` over ANY listing `sb` of `/sys/block` that lists exactly the whole disks of the
    table (under their `/` → `!` names; it may list anything else besides) -/
theorem isStorage_of_listing (devs : List Dev) (sb : List Bytes)
    (hl : ∀ d ∈ devs, (sysName d.name ∈ sb ↔ d.partition = false))
    (hdot : ∀ d ∈ devs, sysName d.name ≠ [46] ∧ sysName d.name ≠ [46, 46]) (d : Dev) (hd : d ∈ devs) :
    isStorageDevice diskCfg sb d.name = !d.partition := by
  have hm : (d.name.map fun c => if c = diskCfg.slashFrom then diskCfg.slashTo else c)
      = sysName d.name := rfl
  unfold isStorageDevice
  simp only [hm]
  have h1 : (sysName d.name == [46]) = false := by simpa using (hdot d hd).1
  have h2 : (sysName d.name == [46, 46]) = false := by simpa using (hdot d hd).2
  rw [h1, h2]
  simp only [Bool.false_or]
  cases hp : d.partition with
  | false =>
    simp only [Bool.not_false, List.contains_eq_mem, decide_eq_true_eq]
    exact (hl d hd).2 hp
  | true =>
    simp only [Bool.not_true, List.contains_eq_mem, decide_eq_false_iff_not]
    intro hmem
    have := (hl d hd).1 hmem
    rw [hp] at this
    exact absurd this (by decide)

theorem diskWF_wholeDisks {devs : List Dev} (wf : DiskWF devs) : DiskWF (wholeDisks devs) := by
  have hsub : (wholeDisks devs).Sublist devs := List.filter_sublist
  refine ⟨fun d hd => wf.names d (hsub.subset hd), fun d hd => wf.recs d (hsub.subset hd), ?_,
    fun d hd => wf.notDot d (hsub.subset hd)⟩
  exact List.Pairwise.sublist (List.Sublist.map _ hsub) wf.nodup

/-! ### sums -/

/-- `zip(*rows)` of rows with the same nine cells: the nine columns -/
theorem zipStar_cols9 {α : Type} (f0 f1 f2 f3 f4 f5 f6 f7 f8 : α → Nat) (x : α) (xs : List α) :
    zipStar ((x :: xs).map fun x => [f0 x, f1 x, f2 x, f3 x, f4 x, f5 x, f6 x, f7 x, f8 x])
      = [(x :: xs).map f0, (x :: xs).map f1, (x :: xs).map f2, (x :: xs).map f3, (x :: xs).map f4,
         (x :: xs).map f5, (x :: xs).map f6, (x :: xs).map f7, (x :: xs).map f8] := by
  induction xs generalizing x with
  | nil => simp [zipStar]
  | cons y r ih =>
    have := ih y
    simp only [List.map_cons] at this ⊢
    rw [zipStar, this]
    · simp
    · simp

/-- documented field `k` of one record -/
def fld (k : String) (r : Rec) : Nat := ((documented9 r).lookup k).getD 0

theorem vals9_eq (r : Rec) :
    vals9 r = [fld "read_count" r, fld "write_count" r, fld "read_bytes" r, fld "write_bytes" r,
               fld "read_time" r, fld "write_time" r, fld "read_merged_count" r,
               fld "write_merged_count" r, fld "busy_time" r] := by
  cases r <;> rfl

/-- the system-wide branch of `psutil.disk_io_counters` as extracted: one sum per column -/
theorem aggregate_vals9 (d : Dev) (r : List Dev) :
    aggregate diskAgg ((d :: r).map fun d => vals9 d.stat)
      = some (diskFieldNames.map fun k => (((d :: r).map fun d => fld k d.stat).sum)) := by
  have hfun : (fun d : Dev => vals9 d.stat) = fun d : Dev =>
      [fld "read_count" d.stat, fld "write_count" d.stat, fld "read_bytes" d.stat,
       fld "write_bytes" d.stat, fld "read_time" d.stat, fld "write_time" d.stat,
       fld "read_merged_count" d.stat, fld "write_merged_count" d.stat, fld "busy_time" d.stat] := by
    funext d; exact vals9_eq d.stat
  have hs : diskAgg.source = "zip(*rawdict.values())" := by decide
  have hr : diskAgg.reducer = "sum" := by decide
  unfold aggregate
  rw [if_pos hs, hfun, zipStar_cols9, hr]
  simp [reduceCols, reduceCol, diskFieldNames]

theorem sumFields_documented9 (ds : List Dev) :
    sumFields diskFieldNames (ds.map fun d => documented9 d.stat)
      = diskFieldNames.map fun k => (k, (ds.map fun d => fld k d.stat).sum) := by
  simp [sumFields, fld, List.map_map, Function.comp_def]

theorem zip_vals9 (r : Rec) : Gen.C09.sdiskioFields.zip (vals9 r) = documented9 r := by
  cases r <;> rfl

end Psutil.C09
