/-
  Proofs/C07Store.lean — the `_last_*` objects as containers (seeded round 5): a builtin `dict`
  that is only read and written by key never loses an entry, so the front ends over the container
  (`cstep`) are the front ends over the total function `St` (`step`) for ANY number of keys; a
  container that holds at most `n` entries loses the sample of a thread that is still calling as
  soon as `n + 1` threads poll.
-/
import PsutilModel.Proofs.C07Hist
namespace Psutil.C07
open Spec

/-! ### the dictionary -/

theorem get_setItem (d : PyDict) (t t' : Tid) (v : Stored) :
    PyDict.get (PyDict.setItem d t v) t' = if t' = t then some v else PyDict.get d t' := by
  induction d with
  | nil =>
    by_cases h : t' = t
    · simp [PyDict.setItem, PyDict.get, h]
    · have h' : ¬ t = t' := fun x => h x.symm
      simp [PyDict.setItem, PyDict.get, h, h']
  | cons p r ih =>
    obtain ⟨k, x⟩ := p
    by_cases hk : k = t
    · subst hk
      by_cases h : t' = k
      · simp [PyDict.setItem, PyDict.get, h]
      · have h' : ¬ k = t' := fun x => h x.symm
        simp [PyDict.setItem, PyDict.get, h, h']
    · by_cases h : t' = t
      · subst h
        simp [PyDict.setItem, PyDict.get, hk, ih]
      · by_cases hkt : k = t'
        · subst hkt
          simp [PyDict.setItem, PyDict.get, hk]
        · simp [PyDict.setItem, PyDict.get, hk, hkt, ih, h]

theorem dict_setDict (s : CSt) (f f' : Fam) (d : PyDict) :
    (s.setDict f d).dict f' = if f' = f then d else s.dict f' := by
  obtain ⟨fn, pc⟩ := f
  obtain ⟨fn', pc'⟩ := f'
  cases fn <;> cases pc <;> cases fn' <;> cases pc' <;> simp [CSt.setDict, CSt.dict]

theorem dict_put (b : Option Nat) (s : CSt) (f f' : Fam) (t : Tid) (v : Stored) :
    (s.put b f t v).dict f' = if f' = f then (s.dict f).store b t v else s.dict f' := by
  unfold CSt.put
  rw [dict_setDict]

theorem view_put_none (s : CSt) (f : Fam) (t : Tid) (v : Stored) :
    (s.put none f t v).view = s.view.set f t v := by
  funext f' t'
  simp only [CSt.view, dict_put, St.set]
  by_cases hf : f' = f
  · subst hf
    by_cases ht : t' = t
    · simp [PyDict.store, get_setItem, ht]
    · simp [PyDict.store, get_setItem, ht]
  · simp [hf]

theorem view_init : CSt.init.view = St.init := by
  funext f t
  obtain ⟨fn, pc⟩ := f
  cases fn <;> cases pc <;> rfl

/-! ### `cstep` refines `step` -/

theorem cstep_unfold (e : Env) (s : CSt) (c : Call) :
    cstep e s c =
      if c.negative then (s, .exc .valueError 0)
      else
        match refOf s.view c (slot e.cfg c.fam) with
        | some t1 =>
          match c.reads with
          | [] => (s, .starved)
          | r :: _ => cfinish e s c t1 r 1
        | none =>
          match c.reads with
          | [] => (s, .starved)
          | r0 :: rest =>
            match sample e c.percpu r0 with
            | .error x => (s, .exc x 1)
            | .ok t1 =>
              match rest with
              | [] => (s, .starved)
              | r1 :: _ => cfinish e s c t1 r1 2 := by
  unfold cstep refOf usable CSt.view
  rfl

theorem cfinish_out (e : Env) (s : CSt) (c : Call) (t1 : Stored) (r : Bytes) (n : Nat) :
    (cfinish e s c t1 r n).2 = (finish e s.view c t1 r n).2 := by
  unfold cfinish finish
  cases sample e c.percpu r with
  | error x => rfl
  | ok t2 =>
    simp only
    cases calcStored e c.fn t1 t2 <;> rfl

theorem cfinish_view (e : Env) (hb : e.cfg.storeBound = none) (s : CSt) (c : Call) (t1 : Stored)
    (r : Bytes) (n : Nat) : (cfinish e s c t1 r n).1.view = (finish e s.view c t1 r n).1 := by
  unfold cfinish finish
  cases sample e c.percpu r with
  | error x => rfl
  | ok t2 =>
    simp only [hb]
    cases calcStored e c.fn t1 t2 <;> exact view_put_none _ _ _ _

/-- the value a call returns never depends on the retention policy: it is what `step` returns on
    what the dictionaries hold -/
theorem cstep_out (e : Env) (s : CSt) (c : Call) : (cstep e s c).2 = (step e s.view c).2 := by
  rw [cstep_unfold, step_unfold]
  by_cases hn : c.negative = true
  · simp [hn]
  · simp only [hn, Bool.false_eq_true, if_false]
    cases refOf s.view c (slot e.cfg c.fam) with
    | some t1 =>
      simp only
      cases c.reads with
      | nil => rfl
      | cons r rest => exact cfinish_out e s c t1 r 1
    | none =>
      simp only
      cases c.reads with
      | nil => rfl
      | cons r0 rest =>
        simp only
        cases sample e c.percpu r0 with
        | error x => rfl
        | ok t1 =>
          cases rest with
          | nil => rfl
          | cons r1 rest' => exact cfinish_out e s c t1 r1 2

/-- with builtin dicts (`storeBound = none`) the state after a call is the one of `step` too -/
theorem cstep_view (e : Env) (hb : e.cfg.storeBound = none) (s : CSt) (c : Call) :
    (cstep e s c).1.view = (step e s.view c).1 := by
  rw [cstep_unfold, step_unfold]
  by_cases hn : c.negative = true
  · simp [hn]
  · simp only [hn, Bool.false_eq_true, if_false]
    cases refOf s.view c (slot e.cfg c.fam) with
    | some t1 =>
      simp only
      cases c.reads with
      | nil => rfl
      | cons r rest => exact cfinish_view e hb s c t1 r 1
    | none =>
      simp only
      cases c.reads with
      | nil => rfl
      | cons r0 rest =>
        simp only
        cases sample e c.percpu r0 with
        | error x => rfl
        | ok t1 =>
          cases rest with
          | nil => rfl
          | cons r1 rest' => exact cfinish_view e hb s c t1 r1 2

theorem crunAll_view (e : Env) (hb : e.cfg.storeBound = none) (h : List Call) :
    ∀ s : CSt, (crunAll e s h).view = runAll e s.view h := by
  induction h with
  | nil => intro s; rfl
  | cons c cs ih =>
    intro s
    simp only [crunAll, runAll]
    rw [ih, cstep_view e hb]

theorem cimportState_view (e : Env) (tid0 : Tid) (r0 r1 : Bytes) :
    (cimportState e tid0 r0 r1).view = importState e tid0 r0 r1 := by
  funext fam t
  obtain ⟨fn, pc⟩ := fam
  unfold cimportState importState CSt.view
  cases pc with
  | true =>
    have hd : ∀ a b c d : PyDict, (CSt.mk a b c d).dict ⟨fn, true⟩ = b ∨ (CSt.mk a b c d).dict ⟨fn, true⟩ = d := by
      intro a b c d; cases fn <;> simp [CSt.dict]
    simp only [if_true]
    cases sample e true r1 with
    | error x => cases fn <;> simp [CSt.dict, PyDict.get]
    | ok v =>
      by_cases ht : t = tid0
      · cases fn <;> simp [CSt.dict, PyDict.get, ht]
      · have : ¬ tid0 = t := fun x => ht x.symm
        cases fn <;> simp [CSt.dict, PyDict.get, ht, this]
  | false =>
    simp only [Bool.false_eq_true, if_false]
    cases sample e false r0 with
    | error x => cases fn <;> simp [CSt.dict, PyDict.get]
    | ok v =>
      by_cases ht : t = tid0
      · cases fn <;> simp [CSt.dict, PyDict.get, ht]
      · have : ¬ tid0 = t := fun x => ht x.symm
        cases fn <;> simp [CSt.dict, PyDict.get, ht, this]

/-! ### the specification looks at the caller's own calls only -/

theorem foldl_prevStep_filter (rd : Bool → Bytes → PRes Stored) (fam : Fam) (tid : Tid) (h : List Call) :
    ∀ p, h.foldl (prevStep rd fam tid) p
      = (h.filter fun a => decide (a.fam = fam ∧ a.tid = tid)).foldl (prevStep rd fam tid) p := by
  induction h with
  | nil => intro p; rfl
  | cons a as ih =>
    intro p
    by_cases hk : a.fam = fam ∧ a.tid = tid
    · simp only [List.foldl_cons, List.filter_cons, hk]
      exact ih _
    · have hp : prevStep rd fam tid p a = p := by simp [prevStep, hk]
      simp only [List.foldl_cons, List.filter_cons, hk, decide_false, hp]
      exact ih _

/-! ### a container that holds at most `n` entries -/

theorem get_none_of_keys (d : PyDict) (t : Tid) (h : ∀ p ∈ d, p.1 ≠ t) : PyDict.get d t = none := by
  induction d with
  | nil => rfl
  | cons p r ih =>
    obtain ⟨k, x⟩ := p
    have hk : k ≠ t := h (k, x) (by simp)
    simp only [PyDict.get, hk, if_false]
    exact ih (fun q hq => h q (by simp [hq]))

theorem setItem_absent (d : PyDict) (t : Tid) (v : Stored) (h : PyDict.get d t = none) :
    PyDict.setItem d t v = d ++ [(t, v)] := by
  induction d with
  | nil => rfl
  | cons p r ih =>
    obtain ⟨k, x⟩ := p
    by_cases hk : k = t
    · simp [PyDict.get, hk] at h
    · simp only [PyDict.get, hk, if_false] at h
      simp [PyDict.setItem, hk, ih h]

/-- the dictionary after callers `0 … k-1` each filed the sample `v`, nothing dropped -/
def rangeDict (v : Stored) (k : Nat) : PyDict := (List.range k).map fun i => (i, v)

theorem rangeDict_get_ge (v : Stored) (k t : Nat) (h : k ≤ t) : PyDict.get (rangeDict v k) t = none := by
  apply get_none_of_keys
  intro p hp
  simp only [rangeDict, List.mem_map, List.mem_range] at hp
  obtain ⟨i, hi, rfl⟩ := hp
  exact Nat.ne_of_lt (Nat.lt_of_lt_of_le hi h)

theorem rangeDict_succ (v : Stored) (k : Nat) : rangeDict v (k + 1) = rangeDict v k ++ [(k, v)] := by
  simp [rangeDict, List.range_succ]

theorem rangeDict_length (v : Stored) (k : Nat) : (rangeDict v k).length = k := by simp [rangeDict]

/-- callers `0 … k-1` file `v` one after the other in a container bounded by `n` -/
def fillD (n : Nat) (v : Stored) : Nat → PyDict
  | 0 => []
  | k + 1 => (fillD n v k).store (some n) k v

theorem fillD_le (n : Nat) (v : Stored) : ∀ k, k ≤ n → fillD n v k = rangeDict v k
  | 0, _ => rfl
  | k + 1, h => by
    have ih := fillD_le n v k (by omega)
    have hg := rangeDict_get_ge v k k (Nat.le_refl k)
    have hfull : ¬ n ≤ k := by omega
    simp only [fillD, ih, PyDict.store, hg, Option.isSome_none, Bool.false_eq_true, if_false,
      rangeDict_length, hfull]
    rw [setItem_absent _ _ _ hg, rangeDict_succ]

/-- once `n + 1` callers have filed a sample in a container bounded by `n ≥ 1`, the first caller's is gone -/
theorem fillD_full_get_zero (n : Nat) (v : Stored) (hn : 1 ≤ n) :
    PyDict.get (fillD n v (n + 1)) 0 = none := by
  have h1 := fillD_le n v n (Nat.le_refl n)
  have hg := rangeDict_get_ge v n n (Nat.le_refl n)
  simp only [fillD, h1, PyDict.store, hg, Option.isSome_none, Bool.false_eq_true, if_false,
    rangeDict_length, Nat.le_refl, if_true]
  rw [get_setItem]
  have h0 : ¬ (0 = n) := by omega
  simp only [h0, if_false]
  apply get_none_of_keys
  intro p hp
  obtain ⟨m, rfl⟩ : ∃ m, n = m + 1 := ⟨n - 1, by omega⟩
  simp only [rangeDict, List.range_succ_eq_map, List.map_cons, List.drop_succ_cons, List.drop_zero,
    List.map_map, List.mem_map, List.mem_range, Function.comp] at hp
  obtain ⟨i, _, rfl⟩ := hp
  simp

theorem crunAll_append (e : Env) (a b : List Call) : ∀ s, crunAll e s (a ++ b) = crunAll e (crunAll e s a) b := by
  induction a with
  | nil => intro s; rfl
  | cons c cs ih => intro s; simp only [List.cons_append, crunAll]; exact ih _

/-- the system-wide dictionary of `cpu_percent` -/
def fam0 : Fam := ⟨.percent, false⟩

/-- thread `i`'s non-blocking `cpu_percent()` while `/proc/stat` holds `r` -/
def pollCall (r : Bytes) (i : Tid) : Call := ⟨.percent, i, none, false, [r, r]⟩

/-- a caller without an entry takes two samples and files the second -/
theorem cstep_fresh (e : Env) (hd : e.cfg.dictsDistinct = true) (s : CSt) (r : Bytes) (v : Stored) (i : Tid)
    (hs : sample e false r = .ok v) (hnone : (s.dict fam0).get i = none) :
    (cstep e s (pollCall r i)).1 = s.put e.cfg.storeBound fam0 i v := by
  have hslot : slot e.cfg (pollCall r i).fam = fam0 := by rw [slot_id e.cfg hd]; rfl
  have href : refOf s.view (pollCall r i) fam0 = none := by
    simp [refOf, CSt.view, pollCall, Call.blocking, usable, hnone]
  rw [cstep_unfold, hslot, href]
  simp only [pollCall, Call.negative, Bool.false_eq_true, if_false, hs]
  unfold cfinish
  simp only [hs]
  have hslot' : slot e.cfg (Call.fam ⟨.percent, i, none, false, [r, r]⟩) = fam0 := hslot
  rw [hslot']
  cases calcStored e .percent v v <;> rfl

theorem crunAll_fill (e : Env) (hd : e.cfg.dictsDistinct = true) (n : Nat) (hb : e.cfg.storeBound = some n)
    (r : Bytes) (v : Stored) (hs : sample e false r = .ok v) :
    ∀ k, k ≤ n + 1 →
      (crunAll e CSt.init ((List.range k).map (pollCall r))).dict fam0 = fillD n v k
  | 0, _ => rfl
  | k + 1, h => by
    have ih := crunAll_fill e hd n hb r v hs k (by omega)
    have hnone : PyDict.get (fillD n v k) k = none := by
      rw [fillD_le n v k (by omega)]
      exact rangeDict_get_ge v k k (Nat.le_refl k)
    rw [List.range_succ, List.map_append, crunAll_append]
    simp only [List.map_cons, List.map_nil, crunAll]
    rw [cstep_fresh e hd _ r v k hs (by rw [ih]; exact hnone), dict_put, hb]
    simp only [if_true, ih, fillD]

/-! ### the parser does not look at the container -/

theorem parseFloatTok_sb (c : Cfg) (b : Option Nat) (tck : Nat) (t : Bytes) :
    parseFloatTok { c with storeBound := b } tck t = parseFloatTok c tck t := rfl

theorem parseToks_sb (c : Cfg) (b : Option Nat) (tck : Nat) (ts : List Bytes) :
    parseToks { c with storeBound := b } tck ts = parseToks c tck ts := by
  induction ts with
  | nil => rfl
  | cons t ts ih => simp only [parseToks, parseFloatTok_sb, ih]

theorem cpuTimes_sb (c : Cfg) (b : Option Nat) (nf tck : Nat) (data : Bytes) :
    cpuTimes { c with storeBound := b } nf tck data = cpuTimes c nf tck data := by
  simp only [cpuTimes, parseCpuValues, parseToks_sb]

/-- the system-wide sample is the same whatever the container is -/
theorem sample_sb (c : Cfg) (b : Option Nat) (vlen tck : Nat) (data : Bytes) :
    sample ⟨{ c with storeBound := b }, vlen, tck⟩ false data = sample ⟨c, vlen, tck⟩ false data := by
  simp only [sample, Env.fields, fieldsFor, cpuTimes_sb, Bool.false_eq_true, if_false]

end Psutil.C07
