/-
  Proofs/C08Float.lean — `percent` is computed in IEEE doubles (`float(used) / total * 100`, then
  `round(x, 1)`), the model rounds the exact rational. With the accumulated floating-point error
  as an explicit parameter ε: the two roundings differ by at most one unit in the last place
  (0.1), and only when the exact value lies within ε of a rounding boundary (an odd multiple of
  1/20).
-/
import Mathlib.Tactic.Linarith
import Mathlib.Algebra.Order.Field.Rat
import Mathlib.Algebra.Order.AbsoluteValue.Basic
import Mathlib.Tactic.Ring
import Mathlib.Tactic.NormNum
import PsutilModel.Spec.C08
namespace Psutil.C08
open Spec

theorem round1_stable (q x r r' ε : ℚ) (hq : IsRound1 q r) (hx : IsRound1 x r')
    (h1 : x - q ≤ ε) (h2 : q - x ≤ ε) (hs : ε < 1 / 20) :
    (r' - r ≤ 1 / 10 ∧ r - r' ≤ 1 / 10)
    ∧ (r' ≠ r → ∃ k : ℤ, q - (2 * (k : ℚ) + 1) / 20 ≤ ε ∧ (2 * (k : ℚ) + 1) / 20 - q ≤ ε) := by
  obtain ⟨⟨a, ha⟩, hq1, hq2⟩ := hq
  obtain ⟨⟨b, hb⟩, hx1, hx2⟩ := hx
  subst ha hb
  rcases lt_trichotomy a b with hlt | heq | hgt
  · have hab : (a : ℚ) + 1 ≤ b := by exact_mod_cast hlt
    have hub : ((b - a : ℤ) : ℚ) < 2 := by push_cast; linarith
    have hba : b - a < 2 := by exact_mod_cast hub
    have hb1 : b = a + 1 := by omega
    subst hb1
    push_cast at *
    refine ⟨⟨by linarith, by linarith⟩, fun _ => ⟨a, by linarith, by linarith⟩⟩
  · subst heq
    exact ⟨⟨by linarith, by linarith⟩, fun h => absurd rfl h⟩
  · have hab : (b : ℚ) + 1 ≤ a := by exact_mod_cast hgt
    have hub : ((a - b : ℤ) : ℚ) < 2 := by push_cast; linarith
    have hba : a - b < 2 := by exact_mod_cast hub
    have ha1 : a = b + 1 := by omega
    subst ha1
    push_cast at *
    refine ⟨⟨by linarith, by linarith⟩, fun _ => ⟨b, by linarith, by linarith⟩⟩

end Psutil.C08
