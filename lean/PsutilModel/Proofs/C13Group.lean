/-
  Proofs/C13Group.lean — the grouping fold of `psutil.Process.memory_maps(grouped=True)`.
-/
import PsutilModel.Model.C13
import PsutilModel.Spec.C13
namespace Psutil.C13
open Psutil Psutil.C13.Spec

theorem zipAdd_eq_zipWith (xs ys : List Nat) : zipAdd xs ys = List.zipWith (· + ·) xs ys := by
  induction xs generalizing ys with
  | nil => cases ys <;> rfl
  | cons x xs ih =>
    cases ys with
    | nil => rfl
    | cons y ys => simp [zipAdd, ih]

def sumsOf (w : Nat) (rows : List Row) (p : Bytes) : List Nat :=
  (List.range w).map fun i => specGroupedField rows p i

theorem field_snoc (rows : List Row) (r : Row) (p : Bytes) (i : Nat) :
    specGroupedField (rows ++ [r]) p i
      = specGroupedField rows p i + (if r.path == p then r.nums.getD i 0 else 0) := by
  unfold specGroupedField
  rw [List.filter_append, List.map_append, List.sum_append]
  by_cases h : (r.path == p) = true
  · simp [List.filter, h]
  · simp [List.filter, h]

theorem field_absent (rows : List Row) (p : Bytes) (i : Nat) (h : p ∉ rows.map (·.path)) :
    specGroupedField rows p i = 0 := by
  unfold specGroupedField
  have : rows.filter (fun r => r.path == p) = [] := by
    rw [List.filter_eq_nil_iff]
    intro r hr hrp
    apply h
    have : r.path = p := by simpa using hrp
    rw [← this]
    exact List.mem_map_of_mem (f := (·.path)) hr
  simp [this]

theorem zipAdd_sums (w : Nat) (f : Nat → Nat) (nums : List Nat) (h : nums.length = w) :
    zipAdd ((List.range w).map f) nums = (List.range w).map fun i => f i + nums.getD i 0 := by
  rw [zipAdd_eq_zipWith]
  apply List.ext_getElem
  · simp [h]
  · intro i h1 h2
    have hi : i < w := by simpa using h2
    have hin : i < nums.length := by omega
    simp [List.getElem_zipWith, hin]

theorem lookup_map_update (d : List GRow) (p q : Bytes) (f : List Nat → List Nat) :
    (d.map fun g => if g.1 == q then (g.1, f g.2) else g).lookup p
      = if p == q then (d.lookup p).map f else d.lookup p := by
  induction d with
  | nil => simp [List.lookup]
  | cons g t ih =>
    obtain ⟨gk, gv⟩ := g
    simp only [List.map_cons, List.lookup]
    by_cases hpq : p = q
    · subst hpq
      by_cases hg : gk = p
      · subst hg; simp [List.lookup]
      · have h1 : (gk == p) = false := by simpa using hg
        have h2 : (p == gk) = false := by simpa using fun e => hg e.symm
        simp only [h1, Bool.false_eq_true, if_false, List.lookup, h2]
        simpa using ih
    · have hb : (p == q) = false := by simpa using hpq
      simp only [hb, Bool.false_eq_true, if_false] at ih ⊢
      by_cases hg : gk = q
      · subst hg
        have h2 : (p == gk) = false := by simpa using hpq
        simp only [beq_self_eq_true, if_true, List.lookup, h2]
        exact ih
      · have h1 : (gk == q) = false := by simpa using hg
        simp only [h1, Bool.false_eq_true, if_false, List.lookup]
        cases (p == gk)
        · exact ih
        · rfl

theorem lookup_append_single (d : List GRow) (p q : Bytes) (v : List Nat) (hq : d.lookup q = none) :
    (d ++ [(q, v)]).lookup p = if p == q then some v else d.lookup p := by
  induction d with
  | nil => simp [List.lookup]
  | cons g t ih =>
    obtain ⟨gk, gv⟩ := g
    simp only [List.lookup] at hq
    cases hqg : (q == gk) with
    | true => simp [hqg] at hq
    | false =>
      simp only [hqg] at hq
      have ih' := ih hq
      simp only [List.cons_append, List.lookup]
      cases hpg : (p == gk) with
      | true =>
        have hpgk : p = gk := by simpa using hpg
        have : (p == q) = false := by
          subst hpgk
          have : q ≠ p := by simpa using hqg
          simpa using fun e => this e.symm
        simp [this]
      | false => simpa using ih'

theorem rev_induction {α : Type} {P : List α → Prop} (h0 : P [])
    (hs : ∀ l a, P l → P (l ++ [a])) : ∀ l, P l := by
  intro l
  have : ∀ r : List α, P r.reverse := by
    intro r
    induction r with
    | nil => exact h0
    | cons a t ih => rw [List.reverse_cons]; exact hs _ _ ih
  simpa using this l.reverse

theorem grouped_snoc (rows : List Row) (r : Row) : grouped (rows ++ [r]) = groupStep (grouped rows) r := by
  simp [grouped, List.foldl_append]

/-- the grouped view as a finite map: path ↦ field-wise sums over that path's rows -/
theorem grouped_lookup (w : Nat) (rows : List Row) (hw : ∀ r ∈ rows, r.nums.length = w) :
    ∀ p : Bytes,
    (grouped rows).lookup p = if p ∈ rows.map (·.path) then some (sumsOf w rows p) else none := by
  induction rows using rev_induction with
  | h0 => intro p; simp [grouped, List.lookup]
  | hs rows r ih =>
    intro p
    have ih' := ih (fun x hx => hw x (by simp [hx])) p
    have hr : r.nums.length = w := hw r (by simp)
    have ihq := ih (fun x hx => hw x (by simp [hx])) r.path
    rw [grouped_snoc]
    unfold groupStep
    by_cases hmem : r.path ∈ rows.map (·.path)
    · -- the path is already present: add field-wise
      simp only [ihq, hmem, if_true, Option.isSome_some]
      rw [lookup_map_update (grouped rows) p r.path (fun ns => zipAdd ns r.nums)]
      by_cases hp : p = r.path
      · rw [hp] at ih' ⊢
        simp only [beq_self_eq_true, if_true, ih', hmem, Option.map_some]
        have : r.path ∈ (rows ++ [r]).map (·.path) := by simp
        simp only [this, if_true]
        congr 1
        unfold sumsOf
        rw [zipAdd_sums w _ r.nums hr]
        apply List.map_congr_left
        intro i _
        rw [field_snoc]; simp
      · have hb : (p == r.path) = false := by simpa using hp
        simp only [hb, Bool.false_eq_true, if_false, ih']
        have hiff : (p ∈ (rows ++ [r]).map (·.path)) ↔ (p ∈ rows.map (·.path)) := by
          simp only [List.map_append, List.mem_append, List.map_singleton, List.mem_singleton]
          constructor
          · rintro (h | h)
            · exact h
            · exact absurd h hp
          · exact Or.inl
        have hsum : sumsOf w (rows ++ [r]) p = sumsOf w rows p := by
          unfold sumsOf
          apply List.map_congr_left
          intro i _
          rw [field_snoc]
          have : (r.path == p) = false := by simpa using fun e => hp e.symm
          simp [this]
        by_cases hm : p ∈ rows.map (·.path)
        · simp [hm, hiff.mpr hm, hsum]
        · have : ¬ p ∈ (rows ++ [r]).map (·.path) := fun h => hm (hiff.mp h)
          simp [hm, this, hp]
    · -- a new path: appended with its own figures
      simp only [ihq, hmem, if_false, Option.isSome_none, Bool.false_eq_true]
      have hq : (grouped rows).lookup r.path = none := by rw [ihq]; simp [hmem]
      rw [lookup_append_single _ p r.path r.nums hq]
      by_cases hp : p = r.path
      · rw [hp]
        have : r.path ∈ (rows ++ [r]).map (·.path) := by simp
        simp only [beq_self_eq_true, if_true, this]
        congr 1
        unfold sumsOf
        apply List.ext_getElem
        · simp [hr]
        · intro i h1 h2
          have hi : i < w := by simpa using h2
          simp only [List.getElem_map, List.getElem_range]
          rw [field_snoc, field_absent rows r.path i hmem]
          simp [List.getD_eq_getElem?_getD, h1]
      · have hb : (p == r.path) = false := by simpa using hp
        simp only [hb, Bool.false_eq_true, if_false, ih']
        have hiff : (p ∈ (rows ++ [r]).map (·.path)) ↔ (p ∈ rows.map (·.path)) := by
          simp only [List.map_append, List.mem_append, List.map_singleton, List.mem_singleton]
          constructor
          · rintro (h | h)
            · exact h
            · exact absurd h hp
          · exact Or.inl
        have hsum : sumsOf w (rows ++ [r]) p = sumsOf w rows p := by
          unfold sumsOf
          apply List.map_congr_left
          intro i _
          rw [field_snoc]
          have : (r.path == p) = false := by simpa using fun e => hp e.symm
          simp [this]
        by_cases hm : p ∈ rows.map (·.path)
        · simp [hm, hiff.mpr hm, hsum]
        · have : ¬ p ∈ (rows ++ [r]).map (·.path) := fun h => hm (hiff.mp h)
          simp [hm, this, hp]

end Psutil.C13
