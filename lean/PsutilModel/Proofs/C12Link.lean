/-
  Proofs/C12Link.lean — readlink clean-up (NUL garbage, stale " (deleted)") and basename.
-/
import PsutilModel.Proofs.C12
namespace Psutil.C12
open Spec

theorem headD_splitOn (c : Nat) (t : Bytes) : (splitOn c t).headD [] = t.takeWhile (· != c) := by
  induction t with
  | nil => rfl
  | cons x xs ih =>
    unfold splitOn
    by_cases hx : x = c
    · simp [hx]
    · have hb : (x != c) = true := by simpa using hx
      simp only [hx, if_false, List.takeWhile_cons, hb, if_true]
      cases hs : splitOn c xs with
      | nil => exact absurd hs (splitOn_ne_nil c xs)
      | cons h tl =>
        rw [hs] at ih
        simp only [List.headD_cons] at ih ⊢
        rw [ih]

theorem endsWith_iff (p s : Bytes) : endsWith p s = true ↔ ∃ q, s = q ++ p := by
  unfold endsWith
  rw [List.isPrefixOf_iff_prefix, List.reverse_prefix]
  constructor
  · rintro ⟨t, ht⟩; exact ⟨t, ht.symm⟩
  · rintro ⟨q, hq⟩; exact ⟨q, hq.symm⟩

theorem stripDeleted_append (q : Bytes) : stripDeleted (q ++ deleted) = some q := by
  unfold stripDeleted
  simp [deleted]

theorem stripDeleted_none (p : Bytes) (h : ¬ ∃ q, p = q ++ deleted) : stripDeleted p = none := by
  unfold stripDeleted
  split
  · rename_i hc
    exfalso
    apply h
    refine ⟨p.take (p.length - deleted.length), ?_⟩
    conv => lhs; rw [← List.take_append_drop (p.length - deleted.length) p]
    rw [hc.2]
  · rfl

/-- `_pslinux.readlink` computes the documented clean-up of the link target -/
theorem readlinkClean_eq (fs : Bytes → FsEnt) (t : Bytes) :
    readlinkClean good fs t = match linkClean fs t with
      | some r => .ok r
      | none => .error (.os .eacces) := by
  unfold readlinkClean linkClean
  simp only [good, headD_splitOn]
  by_cases he : endsWith deleted (t.takeWhile (· != 0)) = true
  · obtain ⟨q, hq⟩ := (endsWith_iff _ _).1 he
    rw [he, hq, stripDeleted_append]
    simp only [if_true, existsStrict]
    have hd : deleted.length = 10 := rfl
    cases hfs : fs (q ++ deleted) with
    | unstatable en cls => cases cls <;> simp [hd, statFailure, named, escapeOf, OsCls.all]
    | _ => simp [hd, statFailure, named, escapeOf, OsCls.all]
  · have hn : stripDeleted (t.takeWhile (· != 0)) = none :=
      stripDeleted_none _ (fun h => he ((endsWith_iff _ _).2 h))
    have he' : endsWith deleted (t.takeWhile (· != 0)) = false := by
      cases h : endsWith deleted (t.takeWhile (· != 0)) with
      | false => rfl
      | true => exact absurd h he
    rw [he', hn]
    simp

theorem takeWhile_ne_of_tail (c : Nat) (p tail : Bytes) (hp : c ∉ p)
    (ht : tail = [] ∨ tail.head? = some c) : (p ++ tail).takeWhile (· != c) = p := by
  induction p with
  | nil =>
    rcases ht with rfl | ht
    · rfl
    · cases tail with
      | nil => rfl
      | cons x xs =>
        have : x = c := by simpa using ht
        simp [this]
  | cons x xs ih =>
    have hx : x ≠ c := fun e => hp (by simp [e])
    have hxs : c ∉ xs := fun m => hp (by simp [m])
    simp [hx, ih hxs]

/-! ### basename -/

theorem rfindIdx?_none_iff (c : Nat) (s : Bytes) : rfindIdx? c s = none ↔ c ∉ s := by
  constructor
  · intro h
    induction s with
    | nil => simp
    | cons x xs ih =>
      simp only [rfindIdx?] at h
      cases hr : rfindIdx? c xs with
      | some i => rw [hr] at h; cases h
      | none =>
        rw [hr] at h
        simp only at h
        have hx : x ≠ c := by
          intro e
          simp [e] at h
        simp only [List.mem_cons, not_or]
        exact ⟨fun e => hx e.symm, ih hr⟩
  · exact rfindIdx?_none c s

theorem getLastD_cons_of_ne_nil (a : Bytes) (l : List Bytes) (h : l ≠ []) :
    (a :: l).getLastD [] = l.getLastD [] := by
  cases l with
  | nil => exact absurd rfl h
  | cons b t => simp [List.getLastD]

theorem splitOn_cons (sep c : Nat) (cs : Bytes) :
    splitOn sep (c :: cs) = if c = sep then [] :: splitOn sep cs
      else match splitOn sep cs with
        | [] => [[c]]
        | h :: t => (c :: h) :: t := by
  rw [splitOn]
  split
  · rfl
  · cases splitOn sep cs <;> rfl

/-- `os.path.basename` is "the part after the last slash" -/
theorem basename_eq_base (p : Bytes) : basename p = base p := by
  unfold basename base
  rw [fields_eq_splitOn]
  induction p with
  | nil => rfl
  | cons c cs ih =>
    simp only [rfindIdx?]
    cases hr : rfindIdx? 47 cs with
    | some i =>
      rw [hr] at ih
      simp only at ih ⊢
      have hin : 47 ∈ cs := by
        apply Classical.byContradiction
        intro hn
        rw [(rfindIdx?_none_iff 47 cs).2 hn] at hr
        cases hr
      have hlen : (splitOn 47 cs).length ≠ 1 := fun h => (splitOn_length_one 47 cs).1 h hin
      rw [show (c :: cs).drop (i + 1 + 1) = cs.drop (i + 1) by simp, ih, splitOn_cons]
      by_cases hc : c = 47
      · simp only [hc, if_true]
        exact (getLastD_cons_of_ne_nil [] _ (splitOn_ne_nil 47 cs)).symm
      · simp only [hc, if_false]
        cases hs : splitOn 47 cs with
        | nil => exact absurd hs (splitOn_ne_nil 47 cs)
        | cons h t =>
          rw [hs] at hlen
          have ht : t ≠ [] := by
            intro e; apply hlen; simp [e]
          simp only
          rw [getLastD_cons_of_ne_nil _ _ ht, getLastD_cons_of_ne_nil _ _ ht]
    | none =>
      have hn : 47 ∉ cs := (rfindIdx?_none_iff 47 cs).1 hr
      rw [splitOn_cons, splitOn_noSep 47 cs hn]
      by_cases hc : c = 47
      · simp [hc, List.getLastD]
      · simp [hc, List.getLastD]

end Psutil.C12
