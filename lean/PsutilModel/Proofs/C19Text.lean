/- Proofs/C19Text.lean — /proc/stat as the kernel prints it is read back exactly
   (cpu_stats, boot_time, the /proc/stat fallback of cpu_count). -/
import PsutilModel.Proofs.C19
namespace Psutil.C19
open Spec

/-! ### lines -/

theorem unlines_cons (l : Bytes) (ls : List Bytes) : unlines (l :: ls) = l ++ 10 :: unlines ls := by
  simp [unlines]

theorem splitOn_unlines (ls : List Bytes) (h : ∀ l ∈ ls, 10 ∉ l) : splitOn 10 (unlines ls) = ls ++ [[]] := by
  induction ls with
  | nil => simp [unlines, splitOn]
  | cons l ls ih =>
    rw [unlines_cons, splitOn_append 10 l _ (h l (by simp)), ih (fun x hx => h x (by simp [hx]))]
    rfl

theorem linesOf_unlines (ls : List Bytes) (h : ∀ l ∈ ls, 10 ∉ l) : linesOf (unlines ls) = ls := by
  unfold linesOf
  rw [splitOn_unlines ls h]
  simp

/-! ### tokens -/

theorem mem_joinWith (c : Nat) (sep : Bytes) (fs : List Bytes) (h : c ∈ joinWith sep fs) :
    c ∈ sep ∨ ∃ f ∈ fs, c ∈ f := by
  induction fs with
  | nil => simp [joinWith] at h
  | cons f fs ih =>
    cases fs with
    | nil => simp only [joinWith] at h; exact Or.inr ⟨f, by simp, h⟩
    | cons g gs =>
      simp only [joinWith, List.mem_append] at h
      rcases h with (h | h) | h
      · exact Or.inr ⟨f, by simp, h⟩
      · exact Or.inl h
      · rcases ih h with h' | ⟨x, hx, hc⟩
        · exact Or.inl h'
        · exact Or.inr ⟨x, by simp [hx], hc⟩

theorem joinWith_cons_prefix (sep f : Bytes) (fs : List Bytes) : ∃ tl, joinWith sep (f :: fs) = f ++ tl := by
  cases fs with
  | nil => exact ⟨[], by simp [joinWith]⟩
  | cons g gs => exact ⟨sep ++ joinWith sep (g :: gs), by simp [joinWith]⟩

theorem statLine_no_nl (key : Bytes) (nums : List Nat) (hk : 10 ∉ key) : 10 ∉ statLine key nums := by
  intro h
  rcases mem_joinWith 10 sp _ h with h | ⟨f, hf, hc⟩
  · simp [sp] at h
  · simp only [List.mem_cons, List.mem_map] at hf
    rcases hf with rfl | ⟨n, _, rfl⟩
    · exact hk hc
    · exact renderDec_not_mem n 10 (by decide) hc

theorem statLine_tokens (key : Bytes) (nums : List Nat) (hk : key ≠ []) (hw : NoWs key) :
    splitWs (statLine key nums) = key :: nums.map renderDec := by
  unfold statLine sp
  apply splitWs_join 32 (by decide)
  intro f hf
  simp only [List.mem_cons, List.mem_map] at hf
  rcases hf with rfl | ⟨n, _, rfl⟩
  · exact ⟨hk, hw⟩
  · exact ⟨renderDec_ne_nil n, renderDec_noWs n⟩

theorem statLine_prefix (key : Bytes) (nums : List Nat) : ∃ tl, statLine key nums = key ++ tl :=
  joinWith_cons_prefix sp key _

/-! ### numbers without the trailing newline -/

theorem digit_head (n : Nat) (P : Bytes → Prop) (h : ∀ c cs, renderDec n = c :: cs → c ≠ 45 → c ≠ 43 → P (c :: cs)) :
    P (renderDec n) := by
  obtain ⟨c, cs, hcs, hd⟩ := renderDec_cons n
  rw [hcs]
  apply h c cs hcs
  · intro e; subst e; simp [isDigit] at hd
  · intro e; subst e; simp [isDigit] at hd

theorem pyInt_renderDec (n : Nat) : pyInt? (renderDec n) = some (n : Int) := by
  unfold pyInt?
  rw [stripWs_noWs _ (renderDec_noWs n)]
  obtain ⟨c, cs, hcs, hd⟩ := renderDec_cons n
  have h45 : c ≠ 45 := by intro e; subst e; simp [isDigit] at hd
  have h43 : c ≠ 43 := by intro e; subst e; simp [isDigit] at hd
  rw [hcs]
  split
  · rename_i ds heq; cases heq; exact absurd rfl h45
  · rename_i ds heq; cases heq; exact absurd rfl h43
  · rw [← hcs, parseDec_renderDec]; rfl

theorem pyFloat_renderDec (n : Nat) : pyFloat? (renderDec n) = some (n : Rat) := by
  unfold pyFloat?
  rw [stripWs_noWs _ (renderDec_noWs n)]
  obtain ⟨c, cs, hcs, hd⟩ := renderDec_cons n
  have h45 : c ≠ 45 := by intro e; subst e; simp [isDigit] at hd
  have h43 : c ≠ 43 := by intro e; subst e; simp [isDigit] at hd
  rw [hcs]
  split
  · rename_i ds heq; cases heq; exact absurd rfl h45
  · rename_i ds heq; cases heq; exact absurd rfl h43
  · rw [← hcs, pyFloatU_renderDec]

theorem secondInt_statLine (key : Bytes) (n : Nat) (rest : List Nat) (hk : key ≠ []) (hw : NoWs key) :
    secondInt (statLine key (n :: rest)) = .ok (n : Int) := by
  unfold secondInt
  rw [statLine_tokens key _ hk hw]
  simp [pyInt_renderDec, ofOpt]

/-! ### the lines of /proc/stat by their first bytes -/

/-- a line that starts with `cpu` -/
def CpuLine (l : Bytes) : Prop := ∃ tl, l = 99 :: 112 :: 117 :: tl

theorem cpuLine_total (r : StatRec) : CpuLine (kCpu ++ [32, 32] ++ joinWith sp (r.cpuTotal.map renderDec)) :=
  ⟨32 :: 32 :: joinWith sp (r.cpuTotal.map renderDec), by simp [kCpu]⟩

theorem cpuLine_statLine (i : Nat) (nums : List Nat) : CpuLine (statLine (cpuName i) nums) := by
  obtain ⟨tl, h⟩ := statLine_prefix (cpuName i) nums
  exact ⟨renderDec i ++ tl, by rw [h]; simp [cpuName, kCpu]⟩

theorem cpuLines_all (cpus : List (List Nat)) : ∀ l ∈ cpuLines cpus, CpuLine l := by
  intro l hl
  unfold cpuLines at hl
  simp only [List.mem_map] at hl
  obtain ⟨ic, _, rfl⟩ := hl
  exact cpuLine_statLine _ _

theorem cpuLine_not_keys (l : Bytes) (h : CpuLine l) :
    kCtxt.isPrefixOf l = false ∧ kIntr.isPrefixOf l = false ∧ kSoftirq.isPrefixOf l = false ∧
      kBtime.isPrefixOf l = false := by
  obtain ⟨tl, rfl⟩ := h
  simp [kCtxt, kIntr, kSoftirq, kBtime, List.isPrefixOf]

theorem isPrefixOf_statLine (key : Bytes) (nums : List Nat) : key.isPrefixOf (statLine key nums) = true := by
  obtain ⟨tl, h⟩ := statLine_prefix key nums
  rw [h, List.isPrefixOf_iff_prefix]
  exact List.prefix_append _ _

theorem noWs_lit (k : Bytes) (h : k.all (fun c => !isWs c) = true) : NoWs k := by
  intro c hc
  have := List.all_eq_true.mp h c hc
  simpa using this

/-! ### boot_time -/

theorem bootTimeScan_skip (pre rest : List Bytes) (h : ∀ l ∈ pre, kBtime.isPrefixOf l = false) :
    bootTimeScan (pre ++ rest) = bootTimeScan rest := by
  induction pre with
  | nil => rfl
  | cons l ls ih =>
    simp only [List.cons_append, bootTimeScan, h l (by simp), Bool.false_eq_true, if_false]
    exact ih (fun x hx => h x (by simp [hx]))

theorem stripWs_ends (s : Bytes) (c : Nat) (cs : Bytes) (hs : s = c :: cs) (hc : isWs c = false)
    (d : Nat) (ds : Bytes) (hr : s.reverse = d :: ds) (hd : isWs d = false) : stripWs s = s := by
  unfold stripWs rstripWs
  have h1 : lstripWs s = s := by rw [hs]; simp [lstripWs, hc]
  rw [h1, hr]
  have h2 : lstripWs (d :: ds) = d :: ds := by simp [lstripWs, hd]
  rw [h2, ← hr]
  simp

theorem stripWs_statLine (key : Bytes) (n : Nat) (c : Nat) (cs : Bytes) (hk : key = c :: cs)
    (hc : isWs c = false) : stripWs (statLine key [n]) = statLine key [n] := by
  have e : statLine key [n] = key ++ 32 :: renderDec n := by simp [statLine, joinWith, sp]
  rw [e]
  cases hr : (renderDec n).reverse with
  | nil =>
    have : renderDec n = [] := by simpa using hr
    exact absurd this (renderDec_ne_nil n)
  | cons d ds =>
    have hd : isWs d = false := by
      apply renderDec_noWs n
      have : d ∈ (renderDec n).reverse := by rw [hr]; simp
      simpa using this
    apply stripWs_ends _ c (cs ++ 32 :: renderDec n) (by rw [hk]; simp) hc d (ds ++ 32 :: key.reverse) _ hd
    simp [hr]

theorem statLines_no_nl (r : StatRec) : ∀ l ∈ statLines r, 10 ∉ l := by
  intro l hl
  unfold statLines at hl
  simp only [List.mem_append, List.mem_cons, List.mem_singleton, List.not_mem_nil, or_false] at hl
  rcases hl with (hl | hl) | hl
  · subst hl
    intro h
    simp only [List.mem_append] at h
    rcases h with h | h
    · simp [kCpu] at h
    · rcases mem_joinWith 10 sp _ h with h | ⟨f, hf, hc⟩
      · simp [sp] at h
      · simp only [List.mem_map] at hf
        obtain ⟨n, _, rfl⟩ := hf
        exact renderDec_not_mem n 10 (by decide) hc
  · unfold cpuLines at hl
    simp only [List.mem_map] at hl
    obtain ⟨ic, _, rfl⟩ := hl
    apply statLine_no_nl
    intro h
    simp only [cpuName, List.mem_append] at h
    rcases h with h | h
    · simp [kCpu] at h
    · exact renderDec_not_mem _ 10 (by decide) h
  · rcases hl with rfl | rfl | rfl | rfl | rfl <;> apply statLine_no_nl <;> decide


theorem bootTime_render (r : StatRec) : bootTime (.content (renderStat r)) = .ok (r.btime : Rat) := by
  unfold bootTime renderStat
  simp only [FileState.read]
  have hnl := statLines_no_nl r
  rw [linesOf_unlines _ hnl]
  unfold statLines
  have hpre : ∀ l ∈ [kCpu ++ [32, 32] ++ joinWith sp (r.cpuTotal.map renderDec)] ++ cpuLines r.cpus
      ++ [statLine kIntr (r.intr :: r.intrRest), statLine kCtxt [r.ctxt]], kBtime.isPrefixOf l = false := by
    intro l hl
    simp only [List.mem_append, List.mem_cons, List.mem_singleton, List.not_mem_nil, or_false] at hl
    rcases hl with (hl | hl) | hl
    · subst hl; exact (cpuLine_not_keys _ (cpuLine_total r)).2.2.2
    · exact (cpuLine_not_keys _ (cpuLines_all _ l hl)).2.2.2
    · rcases hl with rfl | rfl
      · obtain ⟨tl, h⟩ := statLine_prefix kIntr (r.intr :: r.intrRest)
        rw [h]; simp [kIntr, kBtime, List.isPrefixOf]
      · obtain ⟨tl, h⟩ := statLine_prefix kCtxt [r.ctxt]
        rw [h]; simp [kCtxt, kBtime, List.isPrefixOf]
  have hsplit : [kCpu ++ [32, 32] ++ joinWith sp (r.cpuTotal.map renderDec)] ++ cpuLines r.cpus ++
        [statLine kIntr (r.intr :: r.intrRest), statLine kCtxt [r.ctxt], statLine kBtime [r.btime],
          statLine [112, 114, 111, 99, 101, 115, 115, 101, 115] [r.processes],
          statLine kSoftirq (r.softirq :: r.softirqRest)]
      = ([kCpu ++ [32, 32] ++ joinWith sp (r.cpuTotal.map renderDec)] ++ cpuLines r.cpus
          ++ [statLine kIntr (r.intr :: r.intrRest), statLine kCtxt [r.ctxt]])
        ++ [statLine kBtime [r.btime], statLine [112, 114, 111, 99, 101, 115, 115, 101, 115] [r.processes],
            statLine kSoftirq (r.softirq :: r.softirqRest)] := by simp
  rw [hsplit, bootTimeScan_skip _ _ hpre]
  simp only [bootTimeScan, isPrefixOf_statLine, if_true]
  rw [stripWs_statLine kBtime r.btime 98 [116, 105, 109, 101] rfl (by decide)]
  rw [statLine_tokens kBtime _ (by decide) (noWs_lit _ (by decide))]
  simp [pyFloat_renderDec, ofOpt]

/-! ### cpu_stats -/

theorem cpuStatsScan_skip (pre rest : List Bytes) (a : StatAcc) (ha : a.full = false)
    (h : ∀ l ∈ pre, kCtxt.isPrefixOf l = false ∧ kIntr.isPrefixOf l = false ∧ kSoftirq.isPrefixOf l = false) :
    cpuStatsScan (pre ++ rest) a = cpuStatsScan rest a := by
  induction pre with
  | nil => rfl
  | cons l ls ih =>
    obtain ⟨h1, h2, h3⟩ := h l (by simp)
    simp only [List.cons_append, cpuStatsScan, h1, h2, h3, Bool.false_eq_true, if_false, ha]
    exact ih (fun x hx => h x (by simp [hx]))

theorem cpuStats_render (r : StatRec) :
    cpuStats (.content (renderStat r)) = .ok ⟨some r.ctxt, some r.intr, some r.softirq⟩ := by
  unfold cpuStats renderStat
  simp only [FileState.read]
  rw [linesOf_unlines _ (statLines_no_nl r)]
  unfold statLines
  have hpre : ∀ l ∈ [kCpu ++ [32, 32] ++ joinWith sp (r.cpuTotal.map renderDec)] ++ cpuLines r.cpus,
      kCtxt.isPrefixOf l = false ∧ kIntr.isPrefixOf l = false ∧ kSoftirq.isPrefixOf l = false := by
    intro l hl
    simp only [List.mem_append, List.mem_singleton] at hl
    rcases hl with hl | hl
    · subst hl
      have := cpuLine_not_keys _ (cpuLine_total r)
      exact ⟨this.1, this.2.1, this.2.2.1⟩
    · have := cpuLine_not_keys _ (cpuLines_all _ l hl)
      exact ⟨this.1, this.2.1, this.2.2.1⟩
  rw [cpuStatsScan_skip _ _ _ (by decide) hpre]
  obtain ⟨t1, e1⟩ := statLine_prefix kIntr (r.intr :: r.intrRest)
  obtain ⟨t3, e3⟩ := statLine_prefix kBtime [r.btime]
  obtain ⟨t4, e4⟩ := statLine_prefix [112, 114, 111, 99, 101, 115, 115, 101, 115] [r.processes]
  obtain ⟨t5, e5⟩ := statLine_prefix kSoftirq (r.softirq :: r.softirqRest)
  have i1 : kCtxt.isPrefixOf (statLine kIntr (r.intr :: r.intrRest)) = false := by
    rw [e1]; simp [kCtxt, kIntr, List.isPrefixOf]
  have b1 : kCtxt.isPrefixOf (statLine kBtime [r.btime]) = false := by rw [e3]; simp [kCtxt, kBtime, List.isPrefixOf]
  have b2 : kIntr.isPrefixOf (statLine kBtime [r.btime]) = false := by rw [e3]; simp [kIntr, kBtime, List.isPrefixOf]
  have b3 : kSoftirq.isPrefixOf (statLine kBtime [r.btime]) = false := by
    rw [e3]; simp [kSoftirq, kBtime, List.isPrefixOf]
  have p1 : kCtxt.isPrefixOf (statLine [112, 114, 111, 99, 101, 115, 115, 101, 115] [r.processes]) = false := by
    rw [e4]; simp [kCtxt, List.isPrefixOf]
  have p2 : kIntr.isPrefixOf (statLine [112, 114, 111, 99, 101, 115, 115, 101, 115] [r.processes]) = false := by
    rw [e4]; simp [kIntr, List.isPrefixOf]
  have p3 : kSoftirq.isPrefixOf (statLine [112, 114, 111, 99, 101, 115, 115, 101, 115] [r.processes]) = false := by
    rw [e4]; simp [kSoftirq, List.isPrefixOf]
  have s1 : kCtxt.isPrefixOf (statLine kSoftirq (r.softirq :: r.softirqRest)) = false := by
    rw [e5]; simp [kCtxt, kSoftirq, List.isPrefixOf]
  have s2 : kIntr.isPrefixOf (statLine kSoftirq (r.softirq :: r.softirqRest)) = false := by
    rw [e5]; simp [kIntr, kSoftirq, List.isPrefixOf]
  have v1 := secondInt_statLine kIntr r.intr r.intrRest (by decide) (noWs_lit _ (by decide))
  have v2 := secondInt_statLine kCtxt r.ctxt [] (by decide) (noWs_lit _ (by decide))
  have v5 := secondInt_statLine kSoftirq r.softirq r.softirqRest (by decide) (noWs_lit _ (by decide))
  simp [cpuStatsScan, StatAcc.full, i1, b1, b2, b3, p1, p2, p3, s1, s2, v1, v2, v5, isPrefixOf_statLine, Except.map]

/-! ### cpu_count: the `cpuN` rows of /proc/stat -/

theorem takeWhile_self (t : Bytes) (h : 32 ∉ t) : t.takeWhile (· ≠ 32) = t := by
  induction t with
  | nil => rfl
  | cons c cs ih =>
    have hc : c ≠ 32 := fun e => h (by simp [e])
    have ih' := ih (fun m => h (by simp [m]))
    simp [List.takeWhile_cons, hc]
    simpa using ih'

theorem takeWhile_sp (t rest : Bytes) (h : 32 ∉ t) : (t ++ 32 :: rest).takeWhile (· ≠ 32) = t := by
  induction t with
  | nil => simp [List.takeWhile]
  | cons c cs ih =>
    have hc : c ≠ 32 := fun e => h (by simp [e])
    have ih' := ih (fun m => h (by simp [m]))
    simp [List.takeWhile_cons, hc]
    simpa using ih'

theorem isCpuNLine_cpuLine (i : Nat) (nums : List Nat) : isCpuNLine (statLine (cpuName i) nums) = true := by
  have hno : 32 ∉ cpuName i := by
    intro h
    simp only [cpuName, List.mem_append] at h
    rcases h with h | h
    · simp [kCpu] at h
    · exact renderDec_not_mem i 32 (by decide) h
  have htok : (statLine (cpuName i) nums).takeWhile (· ≠ 32) = cpuName i := by
    unfold statLine
    cases nums with
    | nil => simp only [List.map_nil, joinWith]; exact takeWhile_self _ hno
    | cons n ns =>
      simp only [List.map_cons, joinWith, sp, List.append_assoc, List.singleton_append]
      exact takeWhile_sp _ _ hno
  unfold isCpuNLine
  rw [htok]
  obtain ⟨d, ds, hd, hdig⟩ := renderDec_cons i
  simp [cpuName, kCpu, hd, hdig]

theorem countWhere_append (p : Bytes → Bool) (a b : List Bytes) :
    countWhere p (a ++ b) = countWhere p a + countWhere p b := by
  simp [countWhere, List.filter_append]

theorem countWhere_all (p : Bytes → Bool) (l : List Bytes) (h : ∀ x ∈ l, p x = true) : countWhere p l = l.length := by
  unfold countWhere
  rw [List.filter_eq_self.mpr h]

theorem cpuLines_length (cpus : List (List Nat)) : (cpuLines cpus).length = cpus.length := by
  simp [cpuLines]

theorem count_stat_rows (r : StatRec) : countWhere isCpuNLine (statLines r) = r.cpus.length := by
  unfold statLines
  rw [countWhere_append, countWhere_append]
  have h1 : countWhere isCpuNLine [kCpu ++ [32, 32] ++ joinWith sp (r.cpuTotal.map renderDec)] = 0 := by
    simp [countWhere, isCpuNLine, kCpu, List.takeWhile]
  have h2 : countWhere isCpuNLine (cpuLines r.cpus) = r.cpus.length := by
    rw [countWhere_all, cpuLines_length]
    intro x hx
    unfold cpuLines at hx
    simp only [List.mem_map] at hx
    obtain ⟨ic, _, rfl⟩ := hx
    exact isCpuNLine_cpuLine _ _
  obtain ⟨t1, e1⟩ := statLine_prefix kIntr (r.intr :: r.intrRest)
  obtain ⟨t2, e2⟩ := statLine_prefix kCtxt [r.ctxt]
  obtain ⟨t3, e3⟩ := statLine_prefix kBtime [r.btime]
  obtain ⟨t4, e4⟩ := statLine_prefix [112, 114, 111, 99, 101, 115, 115, 101, 115] [r.processes]
  obtain ⟨t5, e5⟩ := statLine_prefix kSoftirq (r.softirq :: r.softirqRest)
  have h3 : countWhere isCpuNLine [statLine kIntr (r.intr :: r.intrRest), statLine kCtxt [r.ctxt],
      statLine kBtime [r.btime], statLine [112, 114, 111, 99, 101, 115, 115, 101, 115] [r.processes],
      statLine kSoftirq (r.softirq :: r.softirqRest)] = 0 := by
    rw [e1, e2, e3, e4, e5]
    simp [countWhere, isCpuNLine, kIntr, kCtxt, kBtime, kSoftirq, List.takeWhile]
  rw [h1, h2, h3]
  omega

/-! ### /proc/cpuinfo as the kernel prints it -/

theorem lower_append (a b : Bytes) : lower (a ++ b) = lower a ++ lower b := by simp [lower]

theorem pad3_no (m c : Nat) (hc : c < 48) : c ∉ pad3 m := by
  intro h
  simp only [pad3, List.mem_cons, List.not_mem_nil, or_false] at h
  omega

theorem blockLines_no_nl (b : CpuBlock) : ∀ l ∈ blockLines b, 10 ∉ l := by
  intro l hl
  simp only [blockLines, List.mem_cons, List.not_mem_nil, or_false] at hl
  rcases hl with rfl | rfl | rfl | rfl | rfl | rfl
  · intro h; simp only [List.mem_append, tabColon] at h
    rcases h with (h | h) | h
    · simp at h
    · simp at h
    · exact renderDec_not_mem _ 10 (by decide) h
  · decide
  · intro h; simp only [List.mem_append, tabColon] at h
    rcases h with ((((h | h) | h) | h) | h) | h
    · simp at h
    · simp at h
    · simp at h
    · exact renderDec_not_mem _ 10 (by decide) h
    · simp at h
    · exact pad3_no _ 10 (by decide) h
  · intro h; simp only [List.mem_append, tabColon] at h
    rcases h with (h | h) | h
    · simp at h
    · simp at h
    · exact renderDec_not_mem _ 10 (by decide) h
  · intro h; simp only [List.mem_append, tabColon] at h
    rcases h with (h | h) | h
    · simp at h
    · simp at h
    · exact renderDec_not_mem _ 10 (by decide) h
  · simp

theorem linesOf_renderCpuinfo (bs : List CpuBlock) : linesOf (renderCpuinfo bs) = bs.flatMap blockLines := by
  unfold renderCpuinfo
  apply linesOf_unlines
  intro l hl
  rw [List.mem_flatMap] at hl
  obtain ⟨b, _, hb⟩ := hl
  exact blockLines_no_nl b l hb

theorem parseDec_pad3 (m : Nat) (h : m < 1000) : parseDec? (pad3 m) = some m := by
  unfold parseDec? parseRadix? pad3
  simp only [parseRadixAux, decimal]
  have a1 : 48 ≤ 48 + m / 100 % 10 ∧ 48 + m / 100 % 10 ≤ 57 := by omega
  have a2 : 48 ≤ 48 + m / 10 % 10 ∧ 48 + m / 10 % 10 ≤ 57 := by omega
  have a3 : 48 ≤ 48 + m % 10 ∧ 48 + m % 10 ≤ 57 := by omega
  simp only [a1, a2, a3, and_self, if_true, Option.some.injEq]
  omega

theorem pyFloat_mhz (n m : Nat) (h : m < 1000) :
    pyFloat? (32 :: (renderDec n ++ [46] ++ pad3 m)) = some ((n : Rat) + (m : Rat) / 1000) := by
  have hnw : NoWs (renderDec n ++ [46] ++ pad3 m) := by
    intro c hc
    simp only [List.mem_append, List.mem_singleton] at hc
    rcases hc with (hc | hc) | hc
    · exact renderDec_noWs n c hc
    · subst hc; decide
    · simp only [pad3, List.mem_cons, List.not_mem_nil, or_false] at hc
      simp only [isWs, Bool.or_eq_false_iff, beq_eq_false_iff_ne, Bool.and_eq_false_iff, decide_eq_false_iff_not]
      omega
  have hs : stripWs (32 :: (renderDec n ++ [46] ++ pad3 m)) = renderDec n ++ [46] ++ pad3 m := by
    unfold stripWs
    have : lstripWs (32 :: (renderDec n ++ [46] ++ pad3 m)) = lstripWs (renderDec n ++ [46] ++ pad3 m) := by
      simp [lstripWs, isWs]
    rw [this, lstripWs_noWs _ hnw]
    unfold rstripWs
    rw [lstripWs_noWs _ (noWs_reverse _ hnw)]
    simp
  unfold pyFloat?
  rw [hs]
  obtain ⟨c, cs, hcs, hd⟩ := renderDec_cons n
  have h45 : c ≠ 45 := by intro e; subst e; simp [isDigit] at hd
  have h43 : c ≠ 43 := by intro e; subst e; simp [isDigit] at hd
  have hu : pyFloatU? (renderDec n ++ [46] ++ pad3 m) = some ((n : Rat) + (m : Rat) / 1000) := by
    unfold pyFloatU?
    have hsplit : splitOn 46 (renderDec n ++ [46] ++ pad3 m) = [renderDec n, pad3 m] := by
      rw [List.append_assoc, List.singleton_append, splitOn_append 46 _ _ (renderDec_not_mem n 46 (by decide)),
        splitOn_noSep 46 _ (pad3_no m 46 (by decide))]
    rw [hsplit]
    have hne : renderDec n ≠ [] := renderDec_ne_nil n
    have hp3 : pad3 m ≠ [] := by simp [pad3]
    simp only [hne, false_and, if_false, decOrZero?, hp3, parseDec_renderDec, parseDec_pad3 m h]
    simp [pad3]
  rw [hcs] at hu ⊢
  simp only [List.cons_append] at hu ⊢
  split
  · rename_i ds heq; cases heq; exact absurd rfl h45
  · rename_i ds heq; cases heq; exact absurd rfl h43
  · exact hu

theorem cpuinfoFreqLines_blocks (bs : List CpuBlock) (h : ∀ b ∈ bs, b.mhzMilli < 1000) :
    cpuinfoFreqLines (bs.flatMap blockLines) = .ok (bs.map blockMhz) := by
  induction bs with
  | nil => rfl
  | cons b bs ih =>
    have ih' := ih (fun x hx => h x (by simp [hx]))
    have hm := h b (by simp)
    simp only [List.flatMap_cons, List.map_cons, blockLines, List.cons_append, List.nil_append]
    have hv := pyFloat_mhz b.mhzInt b.mhzMilli hm
    simp only [cpuinfoFreqLines, lower_append, tabColon]
    simp [lower, kCpuMhz, List.isPrefixOf, afterColon] 
    have hv' : pyFloat? (32 :: (renderDec b.mhzInt ++ 46 :: pad3 b.mhzMilli))
        = some ((b.mhzInt : Rat) + (b.mhzMilli : Rat) / 1000) := by simpa using hv
    simp [hv', ih', blockMhz]

theorem count_processor_blocks (bs : List CpuBlock) :
    countWhere (fun l => kProcessor.isPrefixOf (lower l)) (bs.flatMap blockLines) = bs.length := by
  induction bs with
  | nil => rfl
  | cons b bs ih =>
    simp only [List.flatMap_cons, countWhere_append, ih, List.length_cons]
    have : countWhere (fun l => kProcessor.isPrefixOf (lower l)) (blockLines b) = 1 := by
      simp only [blockLines, countWhere, lower_append, tabColon]
      simp [lower, kProcessor, List.isPrefixOf, List.filter]
    omega

end Psutil.C19
