/-
  Proofs/C18Code.lean — round 3: the refinement for `stepX` (what the driver runs under `stepPy`) for
  every good configuration, assembled from the proof layer (`Proofs/C18Step.lean`) and the bridge
  (`Proofs/C18Priv.lean`); CPU numbers that do not fit a C long (finding `C18-huge-cpu-overflowerror`).
-/
import PsutilModel.Proofs.C18Step
namespace Psutil.C18
open Spec

/-- the region of the finding `C18-huge-cpu-overflowerror`: a CPU list with a number outside the
    range of a C long -/
def OverflowRegion (req : Req) : Prop := ∃ cpus, req = .cpuAffinity (some cpus) ∧ ¬ AllLong cpus

/-- a non-empty CPU list naming only CPUs that do not exist or that the process may not use — any
    ints, also beyond the C long range (`OnlyUnusableCpus` adds that restriction) -/
def OnlyUnusableAny (k : Kernel) (st : PState) (cpus : List Int) : Prop :=
  cpus ≠ [] ∧ ∀ x ∈ cpus, x < 0 ∨ k.ncpu ≤ x.toNat ∨ ¬ x.toNat ∈ st.cpuset

theorem onlyUnusable_of_any {k : Kernel} {st : PState} {cpus : List Int} (h : OnlyUnusableAny k st cpus)
    (hl : AllLong cpus) : OnlyUnusableCpus k st cpus :=
  ⟨h.1, fun x hx => ⟨hl x hx, h.2 x hx⟩⟩

theorem expect_of_onlyUnusableAny {k : Kernel} {st : PState} {cpus : List Int} (pid : Nat)
    (h : OnlyUnusableAny k st cpus) :
    Spec.expect k pid st (.cpuAffinity (some cpus)) = .promised (.exc .valueError) k := by
  obtain ⟨hne, hall⟩ := h
  have hemp : cpus.isEmpty = false := by
    cases cpus with
    | nil => exact absurd rfl hne
    | cons _ _ => rfl
  have h1 : ¬ (cpus.all fun x => decide (0 ≤ x) && (Spec.eligible k st).contains x.toNat) = true := by
    rw [List.all_eq_true]
    intro hh
    cases hc : cpus with
    | nil => exact hne hc
    | cons y _ =>
      have hy : y ∈ cpus := by simp [hc]
      have := hh y hy
      simp only [Bool.and_eq_true, decide_eq_true_eq, List.contains_iff_mem] at this
      have he := (mem_eligible k st _).1 this.2
      have h0 := this.1
      rcases hall y hy with h | h | h
      · omega
      · omega
      · exact h he.2
  have h2 : (cpus.all fun x => Spec.isNonexistentOrIneligible k st x) = true := by
    rw [List.all_eq_true]
    intro x hx
    simp only [Spec.isNonexistentOrIneligible, Bool.or_eq_true,
      decide_eq_true_eq, Bool.not_eq_true', List.contains_eq_mem, decide_eq_false_iff_not]
    rcases hall x hx with hu | hu | hu
    · exact Or.inl hu
    · exact Or.inr (fun he => by have := ((mem_eligible k st _).1 he).1; omega)
    · exact Or.inr (fun he => hu ((mem_eligible k st _).1 he).2)
  simp only [Spec.expect, hemp, Bool.false_eq_true, if_false, h1, h2, if_true]

/-- the `cpu_set_t` loop on a list with a number outside the C long range: "invalid CPU value" if a
    −1 comes first, else the OverflowError of `PyLong_AsLong` -/
theorem cpuSetOfSeq_notLong : ∀ {l : List Int}, ¬ AllLong l →
    ∃ e, cpuSetOfSeq l = .error e ∧ (e = .valueError ∨ e = .overflowError)
  | [], h => absurd (fun v hv => by cases hv) h
  | v :: rest, h => by
    unfold cpuSetOfSeq
    by_cases hv : fitsCLong v = true
    · simp only [hv, Bool.not_true, Bool.false_eq_true, if_false]
      by_cases e : v = -1
      · exact ⟨.valueError, by simp [e], Or.inl rfl⟩
      · have hr : ¬ AllLong rest := fun hr => h (fun w hw => by
          rcases List.mem_cons.1 hw with rfl | hw
          · exact hv
          · exact hr w hw)
        obtain ⟨e', he, hor⟩ := cpuSetOfSeq_notLong hr
        exact ⟨e', by simp [e, he], hor⟩
    · exact ⟨.overflowError, by simp [hv], Or.inr rfl⟩

/-- what the specification can promise for a list with a number outside the C long range: only the
    ValueError of the "only unusable CPUs" clause -/
theorem expect_notLong {k : Kernel} {pid : Nat} {st : PState} {cpus : List Int} {o : Out} {k' : Kernel}
    (hn : k.ncpu ≤ 1024) (hnl : ¬ AllLong cpus)
    (hs : Spec.expect k pid st (.cpuAffinity (some cpus)) = .promised o k') :
    o = .exc .valueError ∧ k' = k := by
  simp only [Spec.expect] at hs
  split at hs
  · rename_i hemp
    exfalso; apply hnl
    have : cpus = [] := by cases cpus <;> simp_all
    subst this; intro v hv; cases hv
  · split at hs
    · rename_i hall
      exfalso; apply hnl
      rw [List.all_eq_true] at hall
      intro v hv
      have := hall v hv
      simp only [Bool.and_eq_true, decide_eq_true_eq, List.contains_iff_mem] at this
      have := ((mem_eligible k st _).1 this.2).1
      simp only [fitsCLong, decide_eq_true_eq]; omega
    · split at hs
      · simp only [Verdict.promised.injEq] at hs; exact ⟨hs.1.symm, hs.2.symm⟩
      · cases hs

theorem eligX_some {k : Kernel} {pid : Nat} {st : PState} (hst : k.procs pid = some st) (m : Option (List Nat)) :
    ∃ el, getEligibleCpusX k pid m = some el := by
  cases m with
  | none =>
    simp only [getEligibleCpusX, getEligibleCpus, hst]
    split <;> exact ⟨_, rfl⟩
  | some m => exact ⟨_, rfl⟩

/-- with the OverflowError branch (`fixes/C18-affinity-overflow-valueerror.diff`) a list with a number
    outside the C long range is answered with ValueError, nothing changes — in every context,
    for every caller (the native layer refuses before any system call) -/
theorem stepX_overflow_caught (c : Cfg) (hov : c.overflowValueError = true) (k : Kernel) (pid : Nat)
    (st : PState) (x : Ctx) (cpus : List Int) (hst : k.procs pid = some st) (hstat : k.statCpus ≤ 1024)
    (hnl : ¬ AllLong cpus) :
    stepX c k pid x (.cpuAffinity (some cpus)) = (.exc .valueError, k) := by
  have hemp : cpus.isEmpty = false := by
    cases cpus with
    | nil => exact absurd (fun v hv => by cases hv) hnl
    | cons _ _ => rfl
  have hnl' : ¬ AllLong (dedup c cpus) := fun h => hnl (fun v hv => h v ((mem_dedup c cpus v).2 hv))
  obtain ⟨e, he, hor⟩ := cpuSetOfSeq_notLong hnl'
  obtain ⟨el, hel⟩ := eligX_some hst x.statusMask
  have hdiag : diagnose (List.range k.statCpus) el (dedup c cpus) = true := by
    rw [diagnose_true]
    have : ∃ v ∈ cpus, ¬ fitsCLong v = true := by
      apply Classical.byContradiction
      intro hno
      apply hnl
      intro v hv
      apply Classical.byContradiction
      intro hf
      exact hno ⟨v, hv, hf⟩
    obtain ⟨v, hv, hf⟩ := this
    refine ⟨v, (mem_dedup c cpus v).2 hv, ?_⟩
    simp only [fitsCLong, decide_eq_true_eq] at hf
    by_cases h0 : v < 0
    · exact Or.inl h0
    · right; left
      cases hc : (List.range k.statCpus).contains v.toNat with
      | false => rfl
      | true =>
        rw [List.contains_iff_mem, List.mem_range] at hc; omega
  simp only [stepX, cpuAffinityX, hemp, Bool.false_eq_true, if_false, hel, cpuAffinitySetP, cextAffinitySetP, he]
  rcases hor with rfl | rfl
  · simp [hdiag]
  · simp [hov, hdiag]

/-- without that branch the same call raises OverflowError when the offending number comes before
    any −1 (the code as it is) -/
theorem stepX_overflow_raised (c : Cfg) (hov : c.overflowValueError = false) (k : Kernel) (pid : Nat)
    (x : Ctx) (v : Int) (rest : List Int) (hv : fitsCLong v = false) (hd : dedup c (v :: rest) = v :: rest) :
    stepX c k pid x (.cpuAffinity (some (v :: rest))) = (.exc .overflowError, k) := by
  simp [stepX, cpuAffinityX, hd, cpuAffinitySetP, cextAffinitySetP, cpuSetOfSeq, hv, hov, wrapExc]

/-! ### the set form of `cpu_affinity` in the proof layer with a context -/

/-- only unusable CPUs (C longs): with the EINVAL fall-through, ValueError in every context -/
theorem affSetXo_refused (c : Cfg) (hrep : c.einvalValueError = true) (k : Kernel) (pid : Nat) (st : PState)
    (x : Ctx) (cpus : List Int) (hpid : pid ≠ 0) (hst : k.procs pid = some st) (hn : k.ncpu ≤ 1024)
    (h : OnlyUnusableCpus k st cpus) : affSetXo c k pid x cpus = (.exc .valueError, k) := by
  have hemp : cpus.isEmpty = false := by
    cases cpus with
    | nil => exact absurd rfl h.1
    | cons _ _ => rfl
  obtain ⟨el, hel⟩ := eligX_some hst x.statusMask
  simp only [affSetXo, hemp, Bool.false_eq_true, if_false, hrep, hel]
  exact cpuAffinitySetWith_refused el k pid _ (native_refuses_onlyUnusable c k pid st cpus hpid hst hn h)

/-- side conditions of the bridge that a promise of the specification implies -/
theorem expect_nice_range {k : Kernel} {pid : Nat} {st : PState} {v : Int} {o : Out} {k' : Kernel}
    (hs : Spec.expect k pid st (.nice (some v)) = .promised o k') : -20 ≤ v ∧ v ≤ 19 := by
  simp only [Spec.expect] at hs
  split at hs
  · assumption
  · cases hs

theorem expect_ionice_range {k : Kernel} {pid : Nat} {st : PState} {cls : Int} {value : Option Int} {o : Out}
    {k' : Kernel} (hs : Spec.expect k pid st (.ionice (some cls) value) = .promised o k') :
    (0 ≤ cls ∧ cls ≤ 3 ∧ 0 ≤ value.getD 0 ∧ value.getD 0 ≤ 7) ∨ (value.getD 0 < 0 ∨ value.getD 0 > 7) := by
  simp only [Spec.expect] at hs
  split at hs
  · right; assumption
  · rename_i hl
    split at hs
    · rename_i hc; left; omega
    · cases hs

/-- **the refinement for every good configuration with the EINVAL fall-through**, in every context,
    for the caller of the world (`expectP`): whatever the specification promises, `stepX` yields
    exactly that result and that kernel — outside the region of `C18-huge-cpu-overflowerror` unless
    the configuration has the OverflowError branch. -/
theorem refines_any_context (c : Cfg) (hg : c.Good) (hrep : c.einvalValueError = true) (k : Kernel)
    (pid : Nat) (st : PState) (x : Ctx) (req : Req) (o : Out) (k' : Kernel) (hpid : pid ≠ 0)
    (hst : k.procs pid = some st) (hwf : WF k st)
    (hreg : c.overflowValueError = true ∨ ¬ OverflowRegion req)
    (hs : Spec.expectP k pid st req = .promised o k') : stepX c k pid x req = (o, k') := by
  unfold Spec.expectP at hs
  split at hs
  case isFalse => cases hs
  rename_i hperm
  by_cases hov : OverflowRegion req
  · obtain ⟨cpus, rfl, hnl⟩ := hov
    have hc : c.overflowValueError = true := by
      rcases hreg with h | h
      · exact h
      · exact absurd ⟨cpus, rfl, hnl⟩ h
    obtain ⟨rfl, hk⟩ := expect_notLong hwf.ncpu hnl hs
    rw [hk]
    exact stepX_overflow_caught c hc k pid st x cpus hst (by have := hwf.stat; have := hwf.ncpu; omega) hnl
  · have hlong : ∀ cpus, req = .cpuAffinity (some cpus) → AllLong cpus := by
      intro cpus e
      apply Classical.byContradiction
      intro hnl
      exact hov ⟨cpus, e, hnl⟩
    rw [stepX_eq_stepXo c hg k pid st x req hpid hst hwf.ncpu hperm
      (fun v e => by subst e; exact expect_nice_range hs)
      (fun cls value e => by subst e; exact expect_ionice_range hs) (Or.inr hlong)]
    by_cases haff : ∃ cpus, req = .cpuAffinity (some cpus)
    · obtain ⟨cpus, rfl⟩ := haff
      obtain ⟨el, hel⟩ := eligX_some hst x.statusMask
      by_cases hreg' : InFindingRegion k st (.cpuAffinity (some cpus))
      · obtain ⟨hne, hall, _⟩ := hreg'
        have hou : OnlyUnusableCpus k st cpus :=
          ⟨hne, fun y hy => ⟨by
            have := hall y hy
            have := hwf.ncpu
            have := hwf.stat
            simp only [fitsCLong, decide_eq_true_eq]; omega, Or.inr (Or.inr (hall y hy).2.2)⟩⟩
        rw [expect_of_onlyUnusable pid hou] at hs
        simp only [Verdict.promised.injEq] at hs
        obtain ⟨rfl, rfl⟩ := hs
        exact affSetXo_refused c hrep k pid st x cpus hpid hst hwf.ncpu hou
      · have h1 := step_refines c hg k pid st _ o k' hpid hst hwf hreg' hlong hs
        simp only [step, cpuAffinity, hg.count, Bool.false_eq_true, if_false, hg.empty] at h1
        simp only [stepXo, affSetXo, hg.count, Bool.false_eq_true, if_false, hg.empty, hrep, hel]
        rcases expect_affinity_set_shape hs with ho | ⟨ho, hk⟩
        · subst ho
          split at h1
          · rename_i he
            simp only [he, if_true]
            exact cpuAffinitySetWith_ok _ _ k pid _ k' ((cpuAffinitySet_cases k pid _ _ _ h1).1 rfl)
          · rename_i he
            simp only [he, Bool.false_eq_true, if_false]
            exact cpuAffinitySetWith_ok _ _ k pid _ k' ((cpuAffinitySet_cases k pid _ _ _ h1).1 rfl)
        · subst ho
          have hk' := hk.symm
          subst hk'
          split at h1
          · rename_i he
            simp only [he, if_true]
            exact cpuAffinitySetWith_refused el k pid _ ((cpuAffinitySet_cases k pid _ _ _ h1).2 rfl)
          · rename_i he
            simp only [he, Bool.false_eq_true, if_false]
            exact cpuAffinitySetWith_refused el k pid _ ((cpuAffinitySet_cases k pid _ _ _ h1).2 rfl)
    · have hxo : stepXo c k pid x req = step c k pid req := by
        cases req with
        | nice v => rfl
        | ionice a b => rfl
        | rlimit a b => rfl
        | cpuAffinity cpus =>
          cases cpus with
          | none => rfl
          | some l => exact absurd ⟨l, rfl⟩ haff
      rw [hxo]
      refine step_refines c hg k pid st req o k' hpid hst hwf ?_ hlong hs
      intro hr
      cases req with
      | nice v => exact hr
      | ionice a b => exact hr
      | rlimit a b => exact hr
      | cpuAffinity cpus =>
        cases cpus with
        | none => exact hr
        | some l => exact haff ⟨l, rfl⟩

/-! ### reading the specification for a call as written -/

theorem expectP_of_permitted {k : Kernel} {pid : Nat} {st : PState} {req : Req}
    (h : Spec.permitted k st req = true) : Spec.expectP k pid st req = Spec.expect k pid st req := by
  simp [Spec.expectP, h]

theorem expectPy_nice (k : Kernel) (pid : Nat) (st : PState) (v : Option Scalar) :
    Spec.expectPy k pid st (.nice v) = Spec.expectP k pid st (.nice (v.map Scalar.val)) := rfl

theorem expectPy_ionice (k : Kernel) (pid : Nat) (st : PState) (a b : Option Scalar) :
    Spec.expectPy k pid st (.ionice a b) = Spec.expectP k pid st (.ionice (a.map Scalar.val) (b.map Scalar.val)) := rfl

theorem expectPy_affinity_get (k : Kernel) (pid : Nat) (st : PState) :
    Spec.expectPy k pid st (.cpuAffinity none) = Spec.expectP k pid st (.cpuAffinity none) := rfl

theorem expectPy_affinity_set (k : Kernel) (pid : Nat) (st : PState) (f : CpuForm) (l : List Int)
    (h : f ≠ .iterator ∨ l ≠ []) :
    Spec.expectPy k pid st (.cpuAffinity (some (f, l))) = Spec.expectP k pid st (.cpuAffinity (some l)) := by
  cases f with
  | iterator =>
    cases l with
    | nil => rcases h with h | h <;> exact absurd rfl h
    | cons _ _ => rfl
  | list => rfl
  | tuple => rfl
  | set => rfl
  | range => rfl

theorem expectPy_rlimit_get (k : Kernel) (pid : Nat) (st : PState) (r : Scalar) :
    Spec.expectPy k pid st (.rlimit r none) = Spec.expectP k pid st (.rlimit r.val none) := rfl

theorem expectPy_rlimit_set (k : Kernel) (pid : Nat) (st : PState) (r : Scalar) (f : LimForm) (l : List Int)
    (h : f ≠ .iterator) :
    Spec.expectPy k pid st (.rlimit r (some (f, l))) = Spec.expectP k pid st (.rlimit r.val (some l)) := by
  cases f with
  | iterator => exact absurd rfl h
  | tuple => rfl
  | list => rfl

/-- a request that is not the set form of `cpu_affinity` is outside the region of the finding -/
theorem not_overflowRegion {req : Req} (h : ∀ cpus, req ≠ .cpuAffinity (some cpus)) : ¬ OverflowRegion req :=
  fun ⟨cpus, e, _⟩ => h cpus e

theorem not_overflowRegion_long {cpus : List Int} (h : AllLong cpus) : ¬ OverflowRegion (.cpuAffinity (some cpus)) := by
  rintro ⟨l, e, hn⟩
  cases e
  exact hn h

theorem limitOfPy_lt {v : Int} {n : Nat} (h : Spec.limitOfPy v = some n) : n < 18446744073709551616 := by
  unfold Spec.limitOfPy at h
  split at h
  · cases h; decide
  · split at h
    · cases h; omega
    · cases h

end Psutil.C18
