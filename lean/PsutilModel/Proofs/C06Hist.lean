/- Proofs/C06Hist.lean — helper lemmas for the C06 history theorems (Props/C06.lean). -/
import PsutilModel.Model.C06Hist
import PsutilModel.Spec.C06Hist
namespace Psutil.C06
open Spec

/-! ### what a list of `oneshot()` calls does to the two slots -/

/-- the last front-end (de)activation of the list: `some true` = activation -/
def endsFe : List Act → Option Bool
  | [] => none
  | a :: rest =>
    match endsFe rest with
    | some b => some b
    | none =>
      match a with
      | .feOn => some true
      | .feOff => some false
      | _ => none

/-- the last platform (de)activation of the list -/
def endsPl : List Act → Option Bool
  | [] => none
  | a :: rest =>
    match endsPl rest with
    | some b => some b
    | none =>
      match a with
      | .plOn => some true
      | .plOff => some false
      | _ => none

theorem applyActs_fe (acts : List Act) : ∀ o : Obj,
    (applyActs o acts).fe = (match endsFe acts with
      | some true => some []
      | some false => none
      | none => o.fe) := by
  induction acts with
  | nil => intro o; rfl
  | cons a rest ih =>
    intro o
    have h := ih (applyAct o a)
    simp only [applyActs, List.foldl_cons] at h ⊢
    rw [h]
    simp only [endsFe]
    cases hr : endsFe rest with
    | some b => cases b <;> rfl
    | none => cases a <;> rfl

theorem applyActs_pl (acts : List Act) : ∀ o : Obj,
    (applyActs o acts).pl = (match endsPl acts with
      | some true => some ⟨none, none⟩
      | some false => none
      | none => o.pl) := by
  induction acts with
  | nil => intro o; rfl
  | cons a rest ih =>
    intro o
    have h := ih (applyAct o a)
    simp only [applyActs, List.foldl_cons] at h ⊢
    rw [h]
    simp only [endsPl]
    cases hr : endsPl rest with
    | some b => cases b <;> rfl
    | none => cases a <;> rfl

/-- the configuration under which the history theorem holds: entering a block while one is open does
    nothing; entering activates both slots; LEAVING — normally AND by an exception — ends with both
    slots deactivated -/
structure HCfg.Good (h : HCfg) : Prop where
  nested : h.nestedNoop = true
  enterFe : endsFe h.enterActs = some true
  enterPl : endsPl h.enterActs = some true
  leaveFe : endsFe h.leaveActs = some false
  leavePl : endsPl h.leaveActs = some false
  leaveExcFe : endsFe h.leaveExcActs = some false
  leaveExcPl : endsPl h.leaveExcActs = some false

/-! ### the cache invariant -/

/-- every memoised value was computed from a world of the window `ws` -/
def Inv (e : Env) (o : Obj) (ws : List World) : Prop :=
  (∀ c, o.pl = some c →
      (∀ v, c.stat = some v → ∃ w ∈ ws, parseStat e.cfg w.stat = .ok v) ∧
      (∀ b, c.status = some b → ∃ w ∈ ws, w.status = b)) ∧
  (∀ c, o.fe = some c → ∀ g v, (g, v) ∈ c → ∃ w ∈ ws, direct e g w = .ok v)

theorem Inv.mono {e : Env} {o : Obj} {ws ws' : List World} (hi : Inv e o ws) (hs : ∀ w ∈ ws, w ∈ ws') :
    Inv e o ws' := by
  refine ⟨fun c hc => ⟨fun v hv => ?_, fun b hb => ?_⟩, fun c hc g v hm => ?_⟩
  · obtain ⟨w, hw, h⟩ := (hi.1 c hc).1 v hv; exact ⟨w, hs w hw, h⟩
  · obtain ⟨w, hw, h⟩ := (hi.1 c hc).2 b hb; exact ⟨w, hs w hw, h⟩
  · obtain ⟨w, hw, h⟩ := hi.2 c hc g v hm; exact ⟨w, hs w hw, h⟩

theorem lookup_mem {β : Type} (g : Getter) : ∀ (c : List (Getter × β)) (v : β), c.lookup g = some v → (g, v) ∈ c := by
  intro c
  induction c with
  | nil => intro v h; simp [List.lookup] at h
  | cons a rest ih =>
    intro v h
    obtain ⟨k, x⟩ := a
    by_cases hk : g = k
    · subst hk
      simp [List.lookup] at h
      subst h
      exact List.mem_cons_self
    · have hb : (g == k) = false := by simp [hk]
      simp [List.lookup, hb] at h
      exact List.mem_cons_of_mem _ (ih v h)

theorem readStat_sound (h : HCfg) (e : Env) (cur : World) (o : Obj) (ws : List World)
    (hi : Inv e o ws) (hc : cur ∈ ws) :
    Inv e (readStat h e cur o).2 ws
    ∧ (∃ w ∈ ws, (readStat h e cur o).1 = parseStat e.cfg w.stat)
    ∧ (readStat h e cur o).2.fe = o.fe
    ∧ (o.pl = none → readStat h e cur o = (parseStat e.cfg cur.stat, o)) := by
  obtain ⟨fe, pl⟩ := o
  cases pl with
  | none => exact ⟨hi, ⟨cur, hc, rfl⟩, rfl, fun _ => rfl⟩
  | some c =>
    unfold readStat
    by_cases hm : h.plMemoStat = true
    · simp only [hm, if_true]
      cases hs : c.stat with
      | some v =>
        obtain ⟨w, hw, hp⟩ := (hi.1 c rfl).1 v hs
        exact ⟨hi, ⟨w, hw, hp.symm⟩, rfl, fun hn => by cases hn⟩
      | none =>
        cases hp : parseStat e.cfg cur.stat with
        | error x => exact ⟨hi, ⟨cur, hc, by simp [hp]⟩, by first | rfl | trivial, fun hn => by cases hn⟩
        | ok v =>
          refine ⟨⟨?_, hi.2⟩, ⟨cur, hc, by simp [hp]⟩, by first | rfl | trivial, fun hn => by cases hn⟩
          intro c' hc'
          simp only [Option.some.injEq] at hc'
          subst hc'
          refine ⟨fun v' hv' => ?_, fun b hb => (hi.1 c rfl).2 b hb⟩
          simp only [Option.some.injEq] at hv'
          subst hv'
          exact ⟨cur, hc, hp⟩
    · have hm' := Bool.eq_false_iff.2 hm
      simp only [hm', Bool.false_eq_true, if_false]
      exact ⟨hi, ⟨cur, hc, rfl⟩, by first | rfl | trivial, fun hn => by cases hn⟩

theorem readStatusFile_sound (h : HCfg) (e : Env) (cur : World) (o : Obj) (ws : List World)
    (hi : Inv e o ws) (hc : cur ∈ ws) :
    Inv e (readStatusFile h cur o).2 ws
    ∧ (∃ w ∈ ws, (readStatusFile h cur o).1 = w.status)
    ∧ (readStatusFile h cur o).2.fe = o.fe
    ∧ (o.pl = none → readStatusFile h cur o = (cur.status, o)) := by
  obtain ⟨fe, pl⟩ := o
  cases pl with
  | none => exact ⟨hi, ⟨cur, hc, rfl⟩, rfl, fun _ => rfl⟩
  | some c =>
    unfold readStatusFile
    by_cases hm : h.plMemoStatus = true
    · simp only [hm, if_true]
      cases hs : c.status with
      | some b =>
        obtain ⟨w, hw, hp⟩ := (hi.1 c rfl).2 b hs
        exact ⟨hi, ⟨w, hw, hp.symm⟩, rfl, fun hn => by cases hn⟩
      | none =>
        refine ⟨⟨?_, hi.2⟩, ⟨cur, hc, rfl⟩, by first | rfl | trivial, fun hn => by cases hn⟩
        intro c' hc'
        simp only [Option.some.injEq] at hc'
        subst hc'
        refine ⟨fun v hv => (hi.1 c rfl).1 v hv, fun b hb => ?_⟩
        simp only [Option.some.injEq] at hb
        subst hb
        exact ⟨cur, hc, rfl⟩
    · have hm' := Bool.eq_false_iff.2 hm
      simp only [hm', Bool.false_eq_true, if_false]
      exact ⟨hi, ⟨cur, hc, rfl⟩, by first | rfl | trivial, fun hn => by cases hn⟩

theorem plEval_sound (h : HCfg) (e : Env) (g : Getter) (cur : World) (o : Obj) (ws : List World)
    (hi : Inv e o ws) (hc : cur ∈ ws) :
    Inv e (plEval h e g cur o).2 ws
    ∧ (∃ w ∈ ws, (plEval h e g cur o).1 = direct e g w)
    ∧ (plEval h e g cur o).2.fe = o.fe
    ∧ (o.pl = none → plEval h e g cur o = (direct e g cur, o)) := by
  unfold plEval direct
  by_cases hu : g.usesStat = true
  · simp only [hu, if_true]
    obtain ⟨h1, ⟨w, hw, h2⟩, h3, h4⟩ := readStat_sound h e cur o ws hi hc
    refine ⟨h1, ⟨w, hw, by rw [h2]⟩, h3, fun hn => by rw [h4 hn]⟩
  · have hu' : g.usesStat = false := by simpa using hu
    simp only [hu', Bool.false_eq_true, if_false]
    obtain ⟨h1, ⟨w, hw, h2⟩, h3, h4⟩ := readStatusFile_sound h e cur o ws hi hc
    refine ⟨h1, ⟨w, hw, by rw [h2]⟩, h3, fun hn => by rw [h4 hn]⟩

theorem feEval_sound (h : HCfg) (e : Env) (g : Getter) (cur : World) (o : Obj) (ws : List World)
    (hi : Inv e o ws) (hc : cur ∈ ws) :
    Inv e (feEval h e g cur o).2 ws
    ∧ (∃ w ∈ ws, (feEval h e g cur o).1 = direct e g w)
    ∧ (feEval h e g cur o).2.fe.isSome = o.fe.isSome
    ∧ (o.fe = none → o.pl = none → feEval h e g cur o = (direct e g cur, o)) := by
  obtain ⟨p1, ⟨pw, phw, p2⟩, p3, p4⟩ := plEval_sound h e g cur o ws hi hc
  cases hfe : o.fe with
  | none =>
    have : feEval h e g cur o = plEval h e g cur o := by unfold feEval; rw [hfe]
    rw [this]
    exact ⟨p1, ⟨pw, phw, p2⟩, by rw [p3, hfe], fun _ hn => p4 hn⟩
  | some c =>
    unfold feEval
    rw [hfe]
    by_cases hm : h.feMemo.contains g = true
    · simp only [hm, if_true]
      cases hl : c.lookup g with
      | some v =>
        obtain ⟨w, hw, hd⟩ := hi.2 c hfe g v (lookup_mem g c v hl)
        exact ⟨hi, ⟨w, hw, hd.symm⟩, by simp [hfe], fun hn => by cases hn⟩
      | none =>
        cases hr : (plEval h e g cur o).1 with
        | error x =>
          refine ⟨p1, ⟨pw, phw, by rw [← p2, hr]⟩, by rw [p3, hfe], fun hn => by cases hn⟩
        | ok v =>
          refine ⟨⟨p1.1, ?_⟩, ⟨pw, phw, by rw [← p2, hr]⟩, by simp, fun hn => by cases hn⟩
          intro c' hc' g' v' hm'
          simp only [Option.some.injEq] at hc'
          subst hc'
          rcases List.mem_cons.1 hm' with heq | hin
          · cases heq
            exact ⟨pw, phw, by rw [← p2, hr]⟩
          · exact hi.2 c hfe g' v' hin
    · have hm' : h.feMemo.contains g = false := by simpa using hm
      simp only [hm', Bool.false_eq_true, if_false]
      exact ⟨p1, ⟨pw, phw, p2⟩, by rw [p3, hfe], fun hn => by cases hn⟩

/-! ### model state vs. specification state -/

def RelBlk (e : Env) (s : HState) : Option (Nat × List World) → Prop
  | none => s.stack = [] ∧ s.obj.fe = none ∧ s.obj.pl = none
  | some (d, ws) =>
    s.stack = List.replicate d false ++ [true] ∧ s.cur ∈ ws ∧ s.obj.fe.isSome = true ∧ Inv e s.obj ws

/-- the model state matches the specification state `st` of the history so far -/
def Rel (e : Env) (s : HState) (st : SpecSt World) : Prop :=
  s.cur = st.cur ∧ RelBlk e s st.blk

/-- the un-cached model value as a `view` relation -/
def directView (e : Env) (g : Getter) (w : World) (o : Res Out) : Prop := o = direct e g w

theorem run_conforms (h : HCfg) (hg : h.Good) (e : Env) (evs : List (Ev World)) :
    ∀ (s : HState) (st : SpecSt World), Rel e s st → Conforms (directView e) st evs (run h e s evs) := by
  induction evs with
  | nil => intro s st _; simp [run, Conforms]
  | cons ev evs ih =>
    intro s st hr
    obtain ⟨hcur, hb⟩ := hr
    cases ev with
    | publish w =>
      simp only [run, step, Conforms]
      apply ih
      cases hblk : st.blk with
      | none =>
        rw [hblk] at hb
        refine ⟨by simp [specStep], ?_⟩
        simp only [specStep, hblk, Option.map]
        exact hb
      | some p =>
        obtain ⟨d, ws⟩ := p
        rw [hblk] at hb
        obtain ⟨h1, _, h3, h4⟩ := hb
        refine ⟨by simp [specStep], ?_⟩
        simp only [specStep, hblk, Option.map]
        exact ⟨h1, List.mem_cons_self, h3, h4.mono fun w' hw' => List.mem_cons_of_mem _ hw'⟩
    | get g =>
      simp only [run, step, Conforms]
      cases hblk : st.blk with
      | none =>
        rw [hblk] at hb
        obtain ⟨h1, h2, h3⟩ := hb
        have hi : Inv e s.obj [s.cur] := by
          refine ⟨fun c hc => ?_, fun c hc => ?_⟩
          · rw [h3] at hc; cases hc
          · rw [h2] at hc; cases hc
        obtain ⟨_, _, _, hd⟩ := feEval_sound h e g s.cur s.obj [s.cur] hi List.mem_cons_self
        have heq := hd h2 h3
        refine ⟨⟨st.cur, by simp [candidates, hblk], ?_⟩, ?_⟩
        · rw [heq, hcur]; rfl
        · apply ih
          rw [heq]
          refine ⟨hcur, ?_⟩
          rw [hblk]
          exact ⟨h1, h2, h3⟩
      | some p =>
        obtain ⟨d, ws⟩ := p
        rw [hblk] at hb
        obtain ⟨h1, h2, h3, h4⟩ := hb
        obtain ⟨i1, ⟨w, hw, i2⟩, i3, _⟩ := feEval_sound h e g s.cur s.obj ws h4 h2
        refine ⟨⟨w, by simpa [candidates, hblk] using hw, i2⟩, ?_⟩
        apply ih
        refine ⟨hcur, ?_⟩
        rw [hblk]
        exact ⟨h1, h2, by rw [i3]; exact h3, i1⟩
    | enter =>
      simp only [run, step, Conforms]
      cases hblk : st.blk with
      | none =>
        rw [hblk] at hb
        obtain ⟨h1, h2, h3⟩ := hb
        have hnn : (h.nestedNoop && s.obj.fe.isSome) = false := by simp [h2]
        simp only [hnn, Bool.false_eq_true, if_false]
        apply ih
        have hfe := applyActs_fe h.enterActs s.obj
        have hpl := applyActs_pl h.enterActs s.obj
        rw [hg.enterFe] at hfe
        rw [hg.enterPl] at hpl
        simp only at hfe hpl
        refine ⟨by simp [specStep, hblk, hcur], ?_⟩
        simp only [specStep, hblk]
        refine ⟨by simp [h1], by simp [hcur], by simp [hfe], ?_⟩
        refine ⟨fun c hc => ?_, fun c hc g v hm => ?_⟩
        · rw [hpl] at hc
          simp only [Option.some.injEq] at hc
          subst hc
          refine ⟨?_, ?_⟩ <;> intro _ hx <;> simp at hx
        · rw [hfe] at hc
          simp only [Option.some.injEq] at hc
          subst hc
          cases hm
      | some p =>
        obtain ⟨d, ws⟩ := p
        rw [hblk] at hb
        obtain ⟨h1, h2, h3, h4⟩ := hb
        have hnn : (h.nestedNoop && s.obj.fe.isSome) = true := by simp [hg.nested, h3]
        simp only [hnn, if_true]
        apply ih
        refine ⟨by simp [specStep, hblk, hcur], ?_⟩
        simp only [specStep, hblk]
        exact ⟨by simp [h1, List.replicate_succ], h2, h3, h4⟩
    | leave x =>
      simp only [run, Conforms]
      cases hblk : st.blk with
      | none =>
        rw [hblk] at hb
        obtain ⟨h1, h2, h3⟩ := hb
        simp only [step, h1]
        apply ih
        refine ⟨by simp [specStep, hblk, hcur], ?_⟩
        simp only [specStep, hblk]
        exact ⟨h1, h2, h3⟩
      | some p =>
        obtain ⟨d, ws⟩ := p
        rw [hblk] at hb
        obtain ⟨h1, h2, h3, h4⟩ := hb
        cases d with
        | zero =>
          simp only [List.replicate_zero, List.nil_append] at h1
          simp only [step, h1]
          apply ih
          refine ⟨by simp [specStep, hblk, hcur], ?_⟩
          simp only [specStep, hblk]
          have hfe := applyActs_fe (if x = true then h.leaveExcActs else h.leaveActs) s.obj
          have hpl := applyActs_pl (if x = true then h.leaveExcActs else h.leaveActs) s.obj
          cases x with
          | false =>
            simp only [Bool.false_eq_true, if_false] at hfe hpl ⊢
            rw [hg.leaveFe] at hfe
            rw [hg.leavePl] at hpl
            exact ⟨by first | rfl | trivial, hfe, hpl⟩
          | true =>
            simp only [if_true] at hfe hpl ⊢
            rw [hg.leaveExcFe] at hfe
            rw [hg.leaveExcPl] at hpl
            exact ⟨by first | rfl | trivial, hfe, hpl⟩
        | succ d =>
          simp only [List.replicate_succ, List.cons_append] at h1
          simp only [step, h1]
          apply ih
          refine ⟨by simp [specStep, hblk, hcur], ?_⟩
          simp only [specStep, hblk]
          exact ⟨by first | rfl | trivial, h2, h3, h4⟩

/-! ### the stale platform cache (counterexample side) -/

theorem applyActs_eq (acts : List Act) (o : Obj) :
    applyActs o acts =
      ⟨(match endsFe acts with
        | some true => some []
        | some false => none
        | none => o.fe),
       (match endsPl acts with
        | some true => some ⟨none, none⟩
        | some false => none
        | none => o.pl)⟩ := by
  have hx : ∀ x : Obj, x = ⟨x.fe, x.pl⟩ := fun x => by cases x; rfl
  rw [hx (applyActs o acts), applyActs_fe, applyActs_pl]

/-- When the exit by exception deactivates the front-end slot but does NOT touch the platform slot, the parse of
    `/proc/<pid>/stat` memoised inside the block keeps answering after the block: `name()` called outside every
    block, after the kernel published other files, still reports the OLD name. (Any configuration with these
    five facts.) -/
theorem stale_after_exc_exit (h : HCfg) (e : Env) (w1 w2 : World) (v1 : StatRaw)
    (he1 : endsFe h.enterActs = some true) (he2 : endsPl h.enterActs = some true)
    (hx1 : endsFe h.leaveExcActs = some false) (hx2 : endsPl h.leaveExcActs = none)
    (hm : h.plMemoStat = true)
    (hp : parseStat e.cfg w1.stat = .ok v1) :
    run h e (HState.fresh w1) [.enter, .get .name, .leave true, .publish w2, .get .name]
      = [.ok (.bytes v1.name), .ok (.bytes v1.name)] := by
  by_cases hmem : Getter.name ∈ h.feMemo <;>
  simp [run, step, HState.fresh, applyActs_eq, he1, he2, hx1, hx2, feEval, plEval, readStat, hm, hmem, hp,
    Getter.usesStat, evalStat, bind, Except.bind]

/-- transfer along a rendering `f` of records to worlds: what holds for the files holds for the records -/
theorem Conforms.map {W W' O : Type} (f : W → W') (P : W → Prop)
    (vM : Getter → W' → O → Prop) (vS : Getter → W → O → Prop)
    (hv : ∀ g w o, P w → vM g (f w) o → vS g w o) (evs : List (Ev W)) :
    ∀ (st : SpecSt W) (obs : List O), P st.cur → (∀ w ∈ candidates st, P w) →
      (∀ w ∈ published evs, P w) →
      Conforms vM ⟨f st.cur, st.blk.map fun b => (b.1, b.2.map f)⟩ (evs.map (Ev.map f)) obs →
      Conforms vS st evs obs := by
  induction evs with
  | nil => intro st obs _ _ _ h; simpa [Conforms] using h
  | cons ev evs ih =>
    intro st obs hcur hcand hpub h
    cases ev with
    | publish w =>
      simp only [List.map_cons, Ev.map, Conforms] at h ⊢
      have hpw : P w := hpub w (by simp [published])
      apply ih _ _ hpw
      · intro w' hw'
        cases hblk : st.blk with
        | none => simp [specStep, candidates, hblk] at hw'; rw [hw']; exact hpw
        | some p =>
          simp only [specStep, candidates, hblk, Option.map, List.mem_cons] at hw'
          rcases hw' with rfl | hin
          · exact hpw
          · exact hcand w' (by simpa [candidates, hblk] using hin)
      · intro w' hw'; exact hpub w' (by simp [published, hw'])
      · cases hblk : st.blk with
        | none => simpa [specStep, hblk] using h
        | some p => simpa [specStep, hblk] using h
    | get g =>
      simp only [List.map_cons, Ev.map, Conforms] at h ⊢
      cases obs with
      | nil => exact h
      | cons o rest =>
        simp only at h ⊢
        obtain ⟨⟨w', hw', hview⟩, hrest⟩ := h
        refine ⟨?_, ih st rest hcur hcand (fun w hw => hpub w (by simpa [published] using hw)) hrest⟩
        cases hblk : st.blk with
        | none =>
          simp only [candidates, hblk, Option.map, List.mem_singleton] at hw'
          subst hw'
          exact ⟨st.cur, by simp [candidates, hblk], hv g st.cur o hcur hview⟩
        | some p =>
          simp only [candidates, hblk, Option.map, List.mem_map] at hw'
          obtain ⟨w, hw, rfl⟩ := hw'
          have hwc : w ∈ candidates st := by simpa [candidates, hblk] using hw
          exact ⟨w, hwc, hv g w o (hcand w hwc) hview⟩
    | enter =>
      simp only [List.map_cons, Ev.map, Conforms] at h ⊢
      apply ih _ _ (by cases hblk : st.blk <;> simpa [specStep, hblk] using hcur)
      · intro w' hw'
        cases hblk : st.blk with
        | none => simp [specStep, candidates, hblk] at hw'; rw [hw']; exact hcur
        | some p => exact hcand w' (by simpa [specStep, candidates, hblk] using hw')
      · intro w' hw'; exact hpub w' (by simpa [published] using hw')
      · cases hblk : st.blk with
        | none => simpa [specStep, hblk] using h
        | some p => simpa [specStep, hblk] using h
    | leave x =>
      simp only [List.map_cons, Ev.map, Conforms] at h ⊢
      apply ih _ _ (by
        cases hblk : st.blk with
        | none => simpa [specStep, hblk] using hcur
        | some p => obtain ⟨d, ws⟩ := p; cases d <;> simpa [specStep, hblk] using hcur)
      · intro w' hw'
        cases hblk : st.blk with
        | none => exact hcand w' (by simpa [specStep, candidates, hblk] using hw')
        | some p =>
          obtain ⟨d, ws⟩ := p
          cases d with
          | zero => simp [specStep, candidates, hblk] at hw'; rw [hw']; exact hcur
          | succ d => exact hcand w' (by simpa [specStep, candidates, hblk] using hw')
      · intro w' hw'; exact hpub w' (by simpa [published] using hw')
      · cases hblk : st.blk with
        | none => simpa [specStep, hblk] using h
        | some p =>
          obtain ⟨d, ws⟩ := p
          cases d <;> simpa [specStep, hblk] using h

end Psutil.C06
