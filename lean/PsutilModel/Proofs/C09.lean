/-
  Proofs/C09.lean — helper lemmas for Props/C09.lean: what the kernel-rendered lines look like
  to `split()`/`strip()`/`rfind`, the dict built by a loop over distinct names, column sums.
-/
import PsutilModel.Model.C09Gen
import PsutilModel.Spec.C09
namespace Psutil.C09
open Spec

/-! ### characters of rendered numbers -/

theorem isWsT_space : isWsT 32 = true := by decide

theorem digit_not_wsT (c : Nat) (h : isDigit c = true) : isWsT c = false := by
  simp only [isDigit, Bool.and_eq_true, decide_eq_true_eq] at h
  simp only [isWsT, isWs, Bool.or_eq_false_iff, beq_eq_false_iff_ne, Bool.and_eq_false_iff,
    decide_eq_false_iff_not]
  omega

theorem renderDec_noWsT (n : Nat) : NoP isWsT (renderDec n) :=
  fun c hc => digit_not_wsT c (renderDec_isDigit n c hc)

theorem allP_replicate (k : Nat) : AllP isWsT (List.replicate k 32) := by
  intro c hc
  rw [List.mem_replicate] at hc
  rw [hc.2]; rfl

/-- a byte that is neither a blank nor a digit -/
def Odd (c : Nat) : Prop := c ≠ 32 ∧ isDigit c = false

theorem odd_not_mem_renderDec (c n : Nat) (h : Odd c) : c ∉ renderDec n :=
  renderDec_not_mem n c h.2

theorem odd_not_mem_padLeft (c w : Nat) (s : Bytes) (h : Odd c) (hs : c ∉ s) : c ∉ padLeft w s := by
  unfold padLeft
  intro hm
  rw [List.mem_append] at hm
  cases hm with
  | inl h1 => rw [List.mem_replicate] at h1; exact h.1 h1.2
  | inr h2 => exact hs h2

theorem odd_not_mem_renderCells (c : Nat) (cells : List (Nat × Nat)) (h : Odd c) :
    c ∉ renderCells cells := by
  induction cells with
  | nil => simp [renderCells]
  | cons wv r ih =>
    simp only [renderCells, List.mem_cons, List.mem_append, not_or]
    exact ⟨⟨h.1, odd_not_mem_padLeft c _ _ h (odd_not_mem_renderDec c _ h)⟩, ih⟩

theorem odd_not_mem_spaced (c : Nat) (vs : List Nat) (h : Odd c) : c ∉ spaced vs := by
  induction vs with
  | nil => simp [spaced]
  | cons v r ih =>
    simp only [spaced, List.mem_cons, List.mem_append, not_or]
    exact ⟨⟨h.1, odd_not_mem_renderDec c _ h⟩, ih⟩

theorem odd58 : Odd 58 := ⟨by decide, by decide⟩
theorem odd10 : Odd 10 := ⟨by decide, by decide⟩
theorem odd13 : Odd 13 := ⟨by decide, by decide⟩

/-! ### tokenising rendered cells -/

def cellItem (wv : Nat × Nat) : Bytes × Bytes :=
  (32 :: List.replicate (wv.1 - (renderDec wv.2).length) 32, renderDec wv.2)

theorem renderCells_glue (cells : List (Nat × Nat)) : renderCells cells = glue (cells.map cellItem) := by
  induction cells with
  | nil => rfl
  | cons wv r ih => simp [renderCells, glue, cellItem, numW, padLeft, ih]

theorem good_cellItems (cells : List (Nat × Nat)) : GoodItems isWsT (cells.map cellItem) := by
  intro gt hgt
  rw [List.mem_map] at hgt
  obtain ⟨wv, _, rfl⟩ := hgt
  refine ⟨by simp [cellItem], ?_, renderDec_ne_nil _, renderDec_noWsT _⟩
  intro c hc
  simp only [cellItem, List.mem_cons] at hc
  cases hc with
  | inl h => rw [h]; rfl
  | inr h => exact allP_replicate _ c h

theorem split_renderCells (cells : List (Nat × Nat)) :
    splitP isWsT (renderCells cells) = cells.map fun wv => renderDec wv.2 := by
  have := splitP_glue isWsT (cells.map cellItem) [] (good_cellItems cells) (by intro c hc; cases hc)
  rw [renderCells_glue]
  simpa [cellItem, List.map_map, Function.comp_def] using this

def spItem (v : Nat) : Bytes × Bytes := ([32], renderDec v)

theorem spaced_glue (vs : List Nat) : spaced vs = glue (vs.map spItem) := by
  induction vs with
  | nil => rfl
  | cons v r ih => simp [spaced, glue, spItem, ih]

theorem good_spItems (vs : List Nat) : GoodItems isWsT (vs.map spItem) := by
  intro gt hgt
  rw [List.mem_map] at hgt
  obtain ⟨v, _, rfl⟩ := hgt
  refine ⟨by simp [spItem], ?_, renderDec_ne_nil _, renderDec_noWsT _⟩
  intro c hc
  simp only [spItem, List.mem_singleton] at hc
  rw [hc]; rfl

theorem hasNonAscii_renderDec (n : Nat) : hasNonAscii (renderDec n) = false := by
  unfold hasNonAscii
  rw [List.any_eq_false]
  intro c hc
  have := renderDec_isDigit n c hc
  simp only [isDigit, Bool.and_eq_true, decide_eq_true_eq] at this
  simp only [decide_eq_true_eq]
  omega

/-- `int()` of what `%u`/`%lu`/`%llu` print is the number printed -/
theorem intTok_renderDec (n : Nat) : intTok (renderDec n) = .ok n := by
  unfold intTok
  rw [hasNonAscii_renderDec, pyInt_renderDec]
  rfl

theorem ints_renderDec (vs : List Nat) : ints (vs.map renderDec) = .ok vs := by
  induction vs with
  | nil => rfl
  | cons v r ih => simp [ints, intTok_renderDec, ih, Res.bind]

theorem lead_odd (c : Nat) (h : isUniLead c = true) : Odd c := by
  simp only [isUniLead, Bool.or_eq_true, decide_eq_true_eq] at h
  refine ⟨by omega, ?_⟩
  simp only [isDigit, Bool.and_eq_false_iff, decide_eq_false_iff_not]
  omega

/-- text in which every byte that is neither a blank nor a digit is absent has no Unicode space -/
theorem hasUniSpace_of_odd_free (s : Bytes) (h : ∀ c, Odd c → c ∉ s) : hasUniSpace s = false := by
  apply hasUniSpace_noLead
  intro c hc
  cases hl : isUniLead c with
  | false => rfl
  | true => exact absurd hc (h c (lead_odd c hl))

/-! ### a dict filled in a loop over distinct keys -/

theorem set_fresh (d : Dict) (k : Bytes) (v : List Nat) (h : ∀ x ∈ d, x.1 ≠ k) :
    d.set k v = d ++ [(k, v)] := by
  unfold Dict.set
  have : d.any (fun kv => kv.1 == k) = false := by
    rw [List.any_eq_false]
    intro x hx
    simpa using h x hx
  simp [this]

theorem foldl_set_fresh (kvs : List (Bytes × List Nat)) (d : Dict)
    (hd : ∀ kv ∈ kvs, ∀ x ∈ d, x.1 ≠ kv.1) (hn : (kvs.map (·.1)).Nodup) :
    kvs.foldl (fun d kv => d.set kv.1 kv.2) d = d ++ kvs := by
  induction kvs generalizing d with
  | nil => simp
  | cons kv r ih =>
    simp only [List.map_cons, List.nodup_cons] at hn
    simp only [List.foldl_cons]
    rw [set_fresh d kv.1 kv.2 (hd kv (by simp))]
    rw [ih]
    · simp
    · intro kv' hkv' x hx
      rw [List.mem_append] at hx
      cases hx with
      | inl h => exact hd kv' (by simp [hkv']) x h
      | inr h =>
        simp only [List.mem_singleton] at h
        rw [h]
        intro e
        apply hn.1
        simp only [] at e
        rw [e]
        exact List.mem_map_of_mem (f := (·.1)) hkv'
    · exact hn.2

/-! ### one `/proc/net/dev` line -/

/-- what a name must satisfy for `line[:colon].strip(<chars>)` to give it back: non-empty, its first
    and last bytes are not among the stripped characters, and it does not break the line (`\n`; a
    `\r` inside a name is harmless since `open_text` reads with `newline="\n"` — obligation
    `cfg_no_universal_newlines`) -/
structure WFName (p : Nat → Bool) (n : Bytes) : Prop where
  ne : n ≠ []
  head : ∀ c, n.head? = some c → p c = false
  last : ∀ c, n.getLast? = some c → p c = false
  noLF : 10 ∉ n

theorem padLeft_length_pos (w : Nat) (s : Bytes) (h : s ≠ []) : ∃ k, (padLeft w s).length = k + 1 := by
  cases s with
  | nil => exact absurd rfl h
  | cons a as => exact ⟨List.length (List.replicate (w - (a :: as).length) 32) + as.length, by simp [padLeft]; omega⟩

theorem strip_padLeft (p : Nat → Bool) (hp : p 32 = true) (w : Nat) (n : Bytes) (h : WFName p n) :
    stripP p (padLeft w n) = n := by
  have hall : AllP p (List.replicate (w - n.length) 32) := by
    intro c hc
    rw [List.mem_replicate] at hc
    rw [hc.2]; exact hp
  have := stripP_pad p (List.replicate (w - n.length) 32) n [] hall
    (by intro c hc; cases hc) h.head h.last h.ne
  simpa [padLeft] using this

/-- `netLine` on a kernel-rendered line, for any column configuration that looks for the
    last colon and unpacks sixteen values: the counters are the kernel's, the name is what
    `strip` leaves of the padded name -/
theorem netLine_render_raw (cfg : NetCfg) (hr : cfg.rfind = true) (hu : cfg.unpack.length = 16)
    (i : Iface) (hne : i.name ≠ []) :
    netLine cfg (renderNetLine i) =
      match lookups (cfg.unpack.zip (i.cells.map (·.2))) cfg.output with
      | none => .err .nameError
      | some t => .ok (stripP cfg.nameWs (padLeft 6 i.name), t) := by
  obtain ⟨k, hk⟩ := padLeft_length_pos 6 i.name hne
  have hcolon : rfindIdx? 58 (renderNetLine i) = some (k + 1) := by
    unfold renderNetLine
    rw [rfindIdx?_last 58 _ _ (odd_not_mem_renderCells 58 _ odd58), hk]
  have htake : (renderNetLine i).take (k + 1) = padLeft 6 i.name := by
    unfold renderNetLine
    rw [← hk]; simp
  have hdrop : (renderNetLine i).drop (k + 1 + 1) = renderCells i.cells := by
    unfold renderNetLine
    rw [← hk]
    have : (padLeft 6 i.name ++ 58 :: renderCells i.cells)
        = (padLeft 6 i.name ++ [58]) ++ renderCells i.cells := by simp
    rw [this]
    have hl : (padLeft 6 i.name).length + 1 = (padLeft 6 i.name ++ [58]).length := by simp
    rw [hl, List.drop_left]
  have hlen : (i.cells.map fun wv => wv.2).length = 16 := by simp [Iface.cells]
  have huni : hasUniSpace (renderCells i.cells) = false :=
    hasUniSpace_of_odd_free _ (fun c hc => odd_not_mem_renderCells c _ hc)
  unfold netLine
  simp only [hr, if_true, hcolon, htake, hdrop, huni, Bool.false_eq_true, if_false, split_renderCells]
  have hi : ints (List.map (fun wv => renderDec wv.2) i.cells) = .ok (i.cells.map (·.2)) := by
    have := ints_renderDec (i.cells.map (·.2))
    simpa [List.map_map, Function.comp_def] using this
  rw [hi]
  simp only [hlen, hu, ne_eq, not_true_eq_false, if_false]
  cases lookups (cfg.unpack.zip (List.map (fun x => x.snd) i.cells)) cfg.output <;> rfl

theorem netLine_render (cfg : NetCfg) (hr : cfg.rfind = true) (hu : cfg.unpack.length = 16)
    (hsp : cfg.nameWs 32 = true) (i : Iface) (hn : WFName cfg.nameWs i.name) :
    netLine cfg (renderNetLine i) =
      match lookups (cfg.unpack.zip (i.cells.map (·.2))) cfg.output with
      | none => .err .nameError
      | some t => .ok (i.name, t) := by
  rw [netLine_render_raw cfg hr hu i hn.ne, strip_padLeft cfg.nameWs hsp 6 i.name hn]

/-! ### the whole `/proc/net/dev` -/

theorem not_mem_unlines (c : Nat) (hc : c ≠ 10) (ls : List Bytes) (h : ∀ l ∈ ls, c ∉ l) :
    c ∉ unlines ls := by
  induction ls with
  | nil => simp [unlines]
  | cons l r ih =>
    simp only [unlines, List.mem_append, List.mem_cons, not_or]
    exact ⟨h l (by simp), hc, ih (fun x hx => h x (by simp [hx]))⟩

theorem not_mem_renderNetLine (c : Nat) (h : Odd c) (h58 : c ≠ 58) (i : Iface) (hn : c ∉ i.name) :
    c ∉ renderNetLine i := by
  unfold renderNetLine
  simp only [List.mem_append, List.mem_cons, not_or]
  exact ⟨odd_not_mem_padLeft c 6 _ h hn, h58, odd_not_mem_renderCells c _ h⟩

/-- lines of a text-mode file whose lines contain neither `\n` nor `\r` -/
theorem textLines_unlines (univ : Bool) (ls : List Bytes) (h10 : ∀ l ∈ ls, 10 ∉ l)
    (h13 : ∀ l ∈ ls, 13 ∉ l) : textLines univ (unlines ls) = ls := by
  unfold textLines
  cases univ with
  | true =>
    simp only [if_true]
    rw [univNl_id _ (not_mem_unlines 13 (by decide) ls h13), linesOf_unlines ls h10]
  | false =>
    simp only [Bool.false_eq_true, if_false]
    exact linesOf_unlines ls h10

/-- lines of a file read with `newline="\n"`: only `\n` ends a line -/
theorem textLines_unlines_nl (ls : List Bytes) (h10 : ∀ l ∈ ls, 10 ∉ l) : textLines false (unlines ls) = ls := by
  unfold textLines
  simp only [Bool.false_eq_true, if_false]
  exact linesOf_unlines ls h10

theorem netFold_map {α : Type} (cfg : NetCfg) (xs : List α) (render : α → Bytes)
    (g : α → Bytes × List Nat) (h : ∀ x ∈ xs, netLine cfg (render x) = .ok (g x)) (d : Dict) :
    netFold cfg d (xs.map render) = .ok ((xs.map g).foldl (fun d kv => d.set kv.1 kv.2) d) := by
  induction xs generalizing d with
  | nil => rfl
  | cons x r ih =>
    simp only [List.map_cons, netFold, h x (by simp), List.foldl_cons]
    exact ih (fun y hy => h y (by simp [hy])) _

structure NetWF (p : Nat → Bool) (h1 h2 : Bytes) (ifs : List Iface) : Prop where
  h1LF : 10 ∉ h1
  h2LF : 10 ∉ h2
  names : ∀ i ∈ ifs, WFName p i.name
  nodup : (ifs.map (·.name)).Nodup

theorem netPlatform_render (cfg : NetCfg) (hr : cfg.rfind = true) (hu : cfg.unpack.length = 16)
    (hs : cfg.skip = 2) (hsp : cfg.nameWs 32 = true) (hnl : cfg.univNl = false) (t : Iface → List Nat)
    (ht : ∀ i, lookups (cfg.unpack.zip (i.cells.map (·.2))) cfg.output = some (t i))
    (h1 h2 : Bytes) (ifs : List Iface) (wf : NetWF cfg.nameWs h1 h2 ifs) :
    netPlatform cfg (renderNetDev h1 h2 ifs) = .ok (ifs.map fun i => (i.name, t i)) := by
  unfold netPlatform renderNetDev
  rw [hnl, textLines_unlines_nl]
  · simp only [hs, List.drop_succ_cons, List.drop_zero]
    rw [netFold_map cfg ifs renderNetLine (fun i => (i.name, t i))]
    · rw [foldl_set_fresh]
      · simp
      · intro _ _ x hx; cases hx
      · simpa [List.map_map, Function.comp_def] using wf.nodup
    · intro i hi
      rw [netLine_render cfg hr hu hsp i (wf.names i hi), ht i]
  · intro l hl
    simp only [List.mem_cons, List.mem_map] at hl
    rcases hl with rfl | rfl | ⟨i, hi, rfl⟩
    · exact wf.h1LF
    · exact wf.h2LF
    · exact not_mem_renderNetLine 10 odd10 (by decide) i (wf.names i hi).noLF

/-! ### front end -/

theorem perdevTuples_map {α : Type} (fields : List String) (xs : List α) (name : α → Bytes)
    (vals : α → List Nat) (hv : ∀ x ∈ xs, (vals x).length = fields.length) :
    perdevTuples fields (xs.map fun x => (name x, vals x))
      = .ok (xs.map fun x => (name x, fields.zip (vals x))) := by
  induction xs with
  | nil => rfl
  | cons x r ih =>
    simp only [List.map_cons, perdevTuples, mkTuple, hv x (by simp), if_true, Res.bind]
    rw [ih (fun y hy => hv y (by simp [hy]))]

def tuple8 (i : Iface) : List Nat :=
  [i.txBytes, i.rxBytes, i.txPackets, i.rxPackets, i.rxErrs, i.txErrs, i.rxDrop, i.txDrop]

/-- `zip(*rows)` of rows that all have the same eight cells: the eight columns -/
theorem zipStar_tuple8 (i : Iface) (r : List Iface) :
    zipStar ((i :: r).map tuple8)
      = [(i :: r).map (·.txBytes), (i :: r).map (·.rxBytes), (i :: r).map (·.txPackets),
         (i :: r).map (·.rxPackets), (i :: r).map (·.rxErrs), (i :: r).map (·.txErrs),
         (i :: r).map (·.rxDrop), (i :: r).map (·.txDrop)] := by
  induction r generalizing i with
  | nil => simp [zipStar, tuple8]
  | cons j r ih =>
    have := ih j
    simp only [List.map_cons] at this ⊢
    rw [zipStar, this]
    · simp [tuple8]
    · simp

/-- the system-wide branch of `psutil.net_io_counters` as extracted: one sum per column -/
theorem aggregate_tuple8 (i : Iface) (r : List Iface) :
    aggregate netAgg ((i :: r).map tuple8)
      = some [((i :: r).map (·.txBytes)).sum, ((i :: r).map (·.rxBytes)).sum,
         ((i :: r).map (·.txPackets)).sum, ((i :: r).map (·.rxPackets)).sum,
         ((i :: r).map (·.rxErrs)).sum, ((i :: r).map (·.txErrs)).sum,
         ((i :: r).map (·.rxDrop)).sum, ((i :: r).map (·.txDrop)).sum] := by
  have hs : netAgg.source = "zip(*rawdict.values())" := by decide
  have hr : netAgg.reducer = "sum" := by decide
  unfold aggregate
  rw [if_pos hs, zipStar_tuple8, hr]
  simp [reduceCols, reduceCol]

theorem sumFields_documented8 (ifs : List Iface) :
    sumFields netFieldNames (ifs.map documented8)
      = [("bytes_sent", (ifs.map (·.txBytes)).sum), ("bytes_recv", (ifs.map (·.rxBytes)).sum),
         ("packets_sent", (ifs.map (·.txPackets)).sum), ("packets_recv", (ifs.map (·.rxPackets)).sum),
         ("errin", (ifs.map (·.rxErrs)).sum), ("errout", (ifs.map (·.txErrs)).sum),
         ("dropin", (ifs.map (·.rxDrop)).sum), ("dropout", (ifs.map (·.txDrop)).sum)] := by
  simp [sumFields, netFieldNames, documented8, List.lookup, List.map_map, Function.comp_def]

/-! ### one `/proc/diskstats` line -/

/-- a device name is one token for `str.split()`: non-empty, no ASCII whitespace (0x1c–0x1f
    included) and no UTF-8 encoded Unicode space (U+0085, U+00A0, U+1680, U+2000–U+200A, U+2028,
    U+2029, U+202F, U+205F, U+3000) -/
structure WFDisk (n : Bytes) : Prop where
  ne : n ≠ []
  noWs : NoP isWsT n
  noUni : hasUniSpace n = false

/-- blanks/digits around a name: the line has a Unicode space only if the name has one -/
theorem hasUniSpace_line (pre n post : Bytes) (hpre : ∀ c, Odd c → c ∉ pre) (hpost : ∀ c, Odd c → c ∉ post)
    (hn : hasUniSpace n = false) : hasUniSpace (pre ++ (n ++ post)) = false := by
  rw [hasUniSpace_append_left pre _ (fun c hc => by
    cases hl : isUniLead c with
    | false => rfl
    | true => exact absurd hc (hpre c (lead_odd c hl)))]
  rw [hasUniSpace_append_right n post ?_ (hasUniSpace_of_odd_free post hpost), hn]
  intro x hx
  have hmem : x ∈ post := List.mem_of_mem_head? hx
  by_cases h128 : x < 128
  · exact h128
  · exfalso
    refine hpost x ⟨by omega, ?_⟩ hmem
    simp only [isDigit, Bool.and_eq_false_iff, decide_eq_false_iff_not]
    omega

theorem good_cons (g t : Bytes) (items : List (Bytes × Bytes)) (hg : g ≠ [] ∧ AllP isWsT g)
    (ht : t ≠ [] ∧ NoP isWsT t) (hi : GoodItems isWsT items) : GoodItems isWsT ((g, t) :: items) := by
  intro gt hgt
  rw [List.mem_cons] at hgt
  cases hgt with
  | inl h => rw [h]; exact ⟨hg.1, hg.2, ht.1, ht.2⟩
  | inr h => exact hi gt h

theorem gap_pad (k : Nat) : (32 :: List.replicate k 32) ≠ [] ∧ AllP isWsT (32 :: List.replicate k 32) := by
  refine ⟨by simp, ?_⟩
  intro c hc
  rw [List.mem_cons] at hc
  cases hc with
  | inl h => rw [h]; rfl
  | inr h => exact allP_replicate _ c h

theorem gap_one : ([32] : Bytes) ≠ [] ∧ AllP isWsT [32] := by
  refine ⟨by simp, ?_⟩
  intro c hc
  rw [List.mem_singleton] at hc
  rw [hc]; rfl

theorem tok_dec (n : Nat) : renderDec n ≠ [] ∧ NoP isWsT (renderDec n) :=
  ⟨renderDec_ne_nil n, renderDec_noWsT n⟩

/-- the tokens of a line that starts `"%4d %7d"`, continues with gap/token pairs -/
theorem split_majmin (maj min : Nat) (items : List (Bytes × Bytes)) (hi : GoodItems isWsT items) :
    splitP isWsT (numW 4 maj ++ 32 :: numW 7 min ++ glue items)
      = renderDec maj :: renderDec min :: items.map (·.2) := by
  have h := splitP_layout isWsT (List.replicate (4 - (renderDec maj).length) 32) (renderDec maj)
    ((32 :: List.replicate (7 - (renderDec min).length) 32, renderDec min) :: items) []
    (allP_replicate _) (tok_dec maj) (good_cons _ _ _ (gap_pad _) (tok_dec min) hi)
    (by intro c hc; cases hc)
  simpa [numW, padLeft, glue] using h

theorem fields_full (maj min : Nat) (name : Bytes) (p : Bool) (s : Io11) (ext : List Nat)
    (hn : WFDisk name) :
    splitP isWsT (renderDiskLine ⟨maj, min, name, p, .full s ext⟩)
      = renderDec maj :: renderDec min :: name :: (s.cols ++ ext).map renderDec := by
  have h := split_majmin maj min (([32], name) :: (s.cols ++ ext).map spItem)
    (good_cons _ _ _ gap_one ⟨hn.ne, hn.noWs⟩ (good_spItems _))
  simpa [renderDiskLine, glue, spaced_glue, spItem, List.map_map, Function.comp_def] using h

theorem fields_part (maj min : Nat) (name : Bytes) (p : Bool) (a b c e : Nat) (hn : WFDisk name) :
    splitP isWsT (renderDiskLine ⟨maj, min, name, p, .part a b c e⟩)
      = renderDec maj :: renderDec min :: name :: [a, b, c, e].map renderDec := by
  have h := split_majmin maj min (([32], name) :: [a, b, c, e].map spItem)
    (good_cons _ _ _ gap_one ⟨hn.ne, hn.noWs⟩ (good_spItems _))
  simpa [renderDiskLine, glue, spaced, spItem] using h

theorem fields_old24 (maj min : Nat) (name : Bytes) (p : Bool) (s : Io11) (last : Nat)
    (hn : WFDisk name) :
    splitP isWsT (renderDiskLine ⟨maj, min, name, p, .old24 s last⟩)
      = renderDec maj :: renderDec min :: renderDec s.reads :: name ::
          (s.cols.drop 1 ++ [last]).map renderDec := by
  have h := split_majmin maj min (([32], renderDec s.reads) :: ([32], name) ::
      (s.cols.drop 1 ++ [last]).map spItem)
    (good_cons _ _ _ gap_one (tok_dec _) (good_cons _ _ _ gap_one ⟨hn.ne, hn.noWs⟩ (good_spItems _)))
  simpa [renderDiskLine, glue, spaced, spaced_glue, spItem, List.map_map, Function.comp_def] using h

end Psutil.C09
