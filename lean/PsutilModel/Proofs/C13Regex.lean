/-
  Proofs/C13Regex.lean — the regex model (Model/C13Re.lean: backtracking matcher + `findall` over
  the WHOLE text) against the line-anchored reading (`matchKey`, `matchPrivate` over the lines
  after the first one).

  * `findall_eq_lines`: for a pattern that starts with `\n`, `findall` over a text is the
    line-anchored extraction over its lines as soon as, on every line, the match neither fails
    nor succeeds differently because of what FOLLOWS the line (`LineAgree`: a `\s+` that reaches
    the end of the line would run over the newline).
  * every line of a rendered smaps file is such a line, for each of the three patterns.
-/
import PsutilModel.Proofs.C13Full
import PsutilModel.Model.C13Re
namespace Psutil.C13
open Psutil Psutil.C13.Spec Psutil.C13.Re

/-! ### the matcher on literals, runs of blanks and digits -/

theorem matchSeq_lits (b : Bytes) (p : List Atom) (s : Bytes) :
    matchSeq (lits b ++ p) s = if b.isPrefixOf s then matchSeq p (s.drop b.length) else none := by
  induction b generalizing s with
  | nil => simp [lits, List.isPrefixOf]
  | cons a b ih =>
    cases s with
    | nil => simp [lits, matchSeq, List.isPrefixOf]
    | cons x xs =>
      have ih' := ih xs
      unfold lits at ih' ⊢
      simp only [List.map_cons, List.cons_append, matchSeq, List.isPrefixOf, List.length_cons,
        List.drop_succ_cons]
      by_cases h : x = a
      · subst h
        simpa using ih'
      · have hb : (a == x) = false := by simpa using fun e => h e.symm
        simp [h, hb]

theorem matchSeq_lit_ne (a c : Nat) (p : List Atom) (s : Bytes) (h : c ≠ a) :
    matchSeq (.lit a :: p) (c :: s) = none := by
  simp [matchSeq, h]

theorem capStarK_run (t : Nat → Bool) (ds u acc : Bytes) (hd : ∀ c ∈ ds, t c = true)
    (hu : u = [] ∨ ∃ c r, u = c :: r ∧ t c = false) :
    capStarK t (matchSeq []) acc (ds ++ u) = some (acc.reverse ++ ds, u) := by
  induction ds generalizing acc with
  | nil =>
    rcases hu with h | ⟨c, r, h, hc⟩
    · subst h; simp [capStarK, matchSeq]
    · subst h; simp [capStarK, matchSeq, hc]
  | cons d ds ih =>
    have hd0 := hd d (by simp)
    have ih' := ih (d :: acc) (fun c hc => hd c (by simp [hc]))
    simp only [List.cons_append, capStarK, hd0, if_true, ih', Option.orElse]
    simp

theorem capPlusK_run (t : Nat → Bool) (d : Nat) (ds u : Bytes) (hd0 : t d = true)
    (hd : ∀ c ∈ ds, t c = true) (hu : u = [] ∨ ∃ c r, u = c :: r ∧ t c = false) :
    capPlusK t (matchSeq []) (d :: ds ++ u) = some (d :: ds, u) := by
  simp only [List.cons_append, capPlusK, hd0, if_true]
  rw [capStarK_run t ds u [d] hd hu]
  simp

theorem starK_run_some (t : Nat → Bool) (k : Bytes → M) (ws s : Bytes) (r : Bytes × Bytes)
    (hw : ∀ c ∈ ws, t c = true) (hk : starK t k s = some r) : starK t k (ws ++ s) = some r := by
  induction ws with
  | nil => simpa using hk
  | cons c cs ih =>
    have hc := hw c (by simp)
    simp only [List.cons_append, starK, hc, if_true, ih (fun x hx => hw x (by simp [hx])), Option.orElse]

theorem starK_stop (t : Nat → Bool) (k : Bytes → M) (c : Nat) (s : Bytes) (h : t c = false) :
    starK t k (c :: s) = k (c :: s) := by
  simp [starK, h]

/-- `\s+(\d+)` on "blanks, digits, then the end or a non-digit": the digits, and what follows them -/
theorem match_wsDigits (g : Nat) (ds u : Bytes) (hne : ds ≠ []) (hd : ∀ c ∈ ds, isDigit c = true)
    (hu : u = [] ∨ ∃ c r, u = c :: r ∧ isDigit c = false) :
    matchSeq [.plus .ws, .cap .digit] (List.replicate (g + 1) 32 ++ (ds ++ u)) = some (ds, u) := by
  cases ds with
  | nil => exact absurd rfl hne
  | cons d ds' =>
    have hd0 : isDigit d = true := hd d (by simp)
    have hdw : Cls.ws.test d = false := isDigit_not_ws d hd0
    have hcap : capPlusK Cls.digit.test (matchSeq []) (d :: ds' ++ u) = some (d :: ds', u) :=
      capPlusK_run Cls.digit.test d ds' u hd0 (fun c hc => hd c (by simp [hc])) hu
    have hst : starK Cls.ws.test (matchSeq [.cap .digit]) (d :: ds' ++ u) = some (d :: ds', u) := by
      rw [List.cons_append, starK_stop _ _ d _ hdw]
      exact hcap
    have hrun := starK_run_some Cls.ws.test (matchSeq [.cap .digit]) (List.replicate g 32) (d :: ds' ++ u) _
      (by intro c hc; rw [(List.mem_replicate.mp hc).2]; rfl) hst
    rw [List.replicate_succ, List.cons_append]
    show plusK Cls.ws.test (matchSeq [.cap .digit]) (32 :: (List.replicate g 32 ++ (d :: ds' ++ u))) = _
    have h32 : Cls.ws.test 32 = true := rfl
    simp only [plusK, h32, if_true]
    exact hrun

/-- greedy `.*` followed by a continuation that needs a colon first: on a stretch without colon
    (up to the end of the line) every split fails -/
theorem starK_dot_nocolon (K : Bytes → M) (hK : ∀ c s, c ≠ 58 → K (c :: s) = none) (hK0 : K [] = none)
    (v t : Bytes) (h58 : 58 ∉ v) (ht : t = [] ∨ ∃ t', t = 10 :: t') :
    starK Cls.dot.test K (v ++ t) = none := by
  induction v with
  | nil =>
    rcases ht with h | ⟨t', h⟩
    · subst h; simpa [starK] using hK0
    · subst h
      have h10 : Cls.dot.test 10 = false := rfl
      simp only [List.nil_append, starK, h10]
      exact hK 10 t' (by decide)
  | cons c cs ih =>
    have hc : c ≠ 58 := fun e => h58 (by simp [e])
    have ih' := ih (fun m => h58 (by simp [m]))
    simp only [List.cons_append, starK, ih', hK c _ hc]
    split <;> rfl

/-- … and on "no colon, colon, no colon, end of line" the only colon is the one taken -/
theorem starK_dot_colon (K : Bytes → M) (hK : ∀ c s, c ≠ 58 → K (c :: s) = none) (hK0 : K [] = none)
    (k v t : Bytes) (hk58 : 58 ∉ k) (hk10 : 10 ∉ k) (h58 : 58 ∉ v)
    (ht : t = [] ∨ ∃ t', t = 10 :: t') :
    starK Cls.dot.test K (k ++ 58 :: (v ++ t)) = K (58 :: (v ++ t)) := by
  induction k with
  | nil =>
    have hdot : Cls.dot.test 58 = true := rfl
    simp only [List.nil_append, starK, hdot, if_true, starK_dot_nocolon K hK hK0 v t h58 ht]
    rfl
  | cons c cs ih =>
    have hc : c ≠ 58 := fun e => hk58 (by simp [e])
    have hc10 : c ≠ 10 := fun e => hk10 (by simp [e])
    have hdot : Cls.dot.test c = true := by simp [Cls.test, hc10]
    have ih' := ih (fun m => hk58 (by simp [m])) (fun m => hk10 (by simp [m]))
    simp only [List.cons_append, starK, hdot, if_true, ih', hK c _ hc]
    cases K (58 :: (v ++ t)) <;> rfl

theorem matchSeq_lit_cons (a c : Nat) (p : List Atom) (s : Bytes) :
    matchSeq (.lit a :: p) (c :: s) = if c = a then matchSeq p s else none := rfl

theorem matchSeq_lit_nil (a : Nat) (p : List Atom) : matchSeq (.lit a :: p) [] = none := rfl

/-! ### `findall` of a pattern that starts with `\n`, over a text seen as lines -/

/-- what may follow a line: nothing, or a newline and more text -/
def Follows (t : Bytes) : Prop := t = [] ∨ ∃ t', t = 10 :: t'

/-- On line `l` the pattern `\n q` and the line-anchored extractor `f` agree WHATEVER follows the
    line: both fail, or the match ends inside the line and captures the number `f` reports. -/
def LineAgree (q : List Atom) (f : Bytes → Option Nat) (l : Bytes) : Prop :=
  ∀ t, Follows t →
    (f l = none ∧ matchSeq q (l ++ t) = none) ∨
    (∃ d r v, matchSeq q (l ++ t) = some (d, r ++ t) ∧ r.length ≤ l.length ∧ parseDec? d = some v
        ∧ f l = some v)

/-- the text after the first line: every further line with the newline before it -/
def tailOf (ls : List Bytes) : Bytes := ls.flatMap (10 :: ·)

def unsplit : List Bytes → Bytes
  | [] => []
  | l :: ls => l ++ tailOf ls

theorem follows_tailOf (ls : List Bytes) : Follows (tailOf ls) := by
  cases ls with
  | nil => left; rfl
  | cons l ls => right; exact ⟨l ++ tailOf ls, by simp [tailOf]⟩

theorem tailOf_cons (l : Bytes) (ls : List Bytes) : tailOf (l :: ls) = 10 :: unsplit (l :: ls) := by
  simp [tailOf, unsplit]

theorem unsplit_splitOn (s : Bytes) : unsplit (splitOn 10 s) = s := by
  induction s with
  | nil => simp [splitOn, unsplit, tailOf]
  | cons c cs ih =>
    unfold splitOn
    by_cases hc : c = 10
    · simp only [hc, if_true]
      cases hs : splitOn 10 cs with
      | nil => exact absurd hs (splitOn_ne_nil 10 cs)
      | cons h t =>
        rw [hs] at ih
        show [] ++ tailOf (h :: t) = 10 :: cs
        rw [tailOf_cons, ih]; rfl
    · simp only [hc, if_false]
      cases hs : splitOn 10 cs with
      | nil => exact absurd hs (splitOn_ne_nil 10 cs)
      | cons h t =>
        rw [hs] at ih
        show (c :: h) ++ tailOf t = c :: cs
        rw [← ih]; rfl

theorem splitOn_mem_noSep (s : Bytes) : ∀ l ∈ splitOn 10 s, 10 ∉ l := by
  induction s with
  | nil => intro l hl; simp [splitOn] at hl; subst hl; simp
  | cons c cs ih =>
    intro l hl
    unfold splitOn at hl
    by_cases hc : c = 10
    · simp only [hc, if_true, List.mem_cons] at hl
      rcases hl with h | h
      · subst h; simp
      · exact ih l h
    · simp only [hc, if_false] at hl
      cases hs : splitOn 10 cs with
      | nil => exact absurd hs (splitOn_ne_nil 10 cs)
      | cons h t =>
        rw [hs] at hl ih
        simp only [List.mem_cons] at hl
        rcases hl with e | e
        · subst e
          intro hm
          rcases List.mem_cons.mp hm with e' | e'
          · exact hc e'.symm
          · exact ih h (by simp) e'
        · exact ih l (by simp [e])

/-- inside a line nothing starts: the pattern needs a `\n` first -/
theorem findallGo_skip (q : List Atom) (s t : Bytes) (n : Nat) (hs : 10 ∉ s) (hn : n ≤ s.length) :
    findallGo (.lit 10 :: q) n (s ++ t) = findallGo (.lit 10 :: q) 0 t := by
  induction s generalizing n with
  | nil =>
    have : n = 0 := by simpa using hn
    subst this; rfl
  | cons c cs ih =>
    have hc : c ≠ 10 := fun e => hs (by simp [e])
    have hcs : 10 ∉ cs := fun m => hs (by simp [m])
    cases n with
    | zero =>
      simp only [List.cons_append, findallGo, matchSeq_lit_ne 10 c q _ hc]
      exact ih 0 hcs (Nat.zero_le _)
    | succ k =>
      simp only [List.cons_append, findallGo]
      exact ih k hcs (by simpa using hn)

theorem findallGo_lines (q : List Atom) (f : Bytes → Option Nat) (ls : List Bytes)
    (hnl : ∀ l ∈ ls, 10 ∉ l) (hag : ∀ l ∈ ls, LineAgree q f l) :
    sumInts (findallGo (.lit 10 :: q) 0 (tailOf ls)) = some (sumMatches f ls) := by
  induction ls with
  | nil => rfl
  | cons l ls ih =>
    have ih' := ih (fun x hx => hnl x (by simp [hx])) (fun x hx => hag x (by simp [hx]))
    have hl10 := hnl l (by simp)
    have hT : tailOf (l :: ls) = 10 :: (l ++ tailOf ls) := by simp [tailOf]
    rw [hT, sumMatches_cons]
    rcases hag l (by simp) (tailOf ls) (follows_tailOf ls) with ⟨hf, hm⟩ | ⟨d, r, v, hm, hr, hd, hf⟩
    · have : findallGo (.lit 10 :: q) 0 (10 :: (l ++ tailOf ls)) = findallGo (.lit 10 :: q) 0 (l ++ tailOf ls) := by
        simp [findallGo, matchSeq, hm]
      rw [this, findallGo_skip q l _ 0 hl10 (Nat.zero_le _), ih', hf]
      simp
    · have : findallGo (.lit 10 :: q) 0 (10 :: (l ++ tailOf ls))
          = d :: findallGo (.lit 10 :: q) (l.length - r.length) (l ++ tailOf ls) := by
        simp only [findallGo, matchSeq, if_true, hm]
        congr 2
        simp only [List.length_cons, List.length_append]
        omega
      rw [this, findallGo_skip q l _ _ hl10 (Nat.sub_le _ _)]
      simp only [sumInts, hd, ih', hf, Option.getD_some]

/-- **findall = the line-anchored reading** for a pattern `\n q`, on every text all of whose
    lines (after the first) are closed in the sense of `LineAgree`. -/
theorem findall_eq_lines (q : List Atom) (f : Bytes → Option Nat) (data : Bytes)
    (hag : ∀ l ∈ (splitOn 10 data).drop 1, LineAgree q f l) :
    sumInts (findall (.lit 10 :: q) data) = some (sumMatches f ((splitOn 10 data).drop 1)) := by
  have hjoin := unsplit_splitOn data
  have hno := splitOn_mem_noSep data
  cases hs : splitOn 10 data with
  | nil => exact absurd hs (splitOn_ne_nil 10 data)
  | cons l0 ls =>
    rw [hs] at hjoin hno hag
    simp only [List.drop_succ_cons, List.drop_zero] at hag ⊢
    unfold findall
    rw [← hjoin]
    show sumInts (findallGo (.lit 10 :: q) 0 (l0 ++ tailOf ls)) = _
    rw [findallGo_skip q l0 _ 0 (hno l0 (by simp)) (Nat.zero_le _)]
    exact findallGo_lines q f ls (fun x hx => hno x (by simp [hx])) hag

/-! ### the lines of a rendered smaps file are closed, for each of the three patterns -/

/-- `\nPss\:\s+(\d+)` / `\nSwap\:\s+(\d+)` without the leading `\n` -/
def qKey (key : Bytes) : List Atom := lits key ++ [.plus .ws, .cap .digit]

/-- `\nPrivate.*:\s+(\d+)` without the leading `\n` -/
def qPrivate : List Atom := lits kPrivate ++ [.star .dot, .lit 58, .plus .ws, .cap .digit]

theorem follows_nondigit (kb : Bool) (t : Bytes) (ht : Follows t) :
    (if kb then unitKb else []) ++ t = [] ∨ ∃ c r, (if kb then unitKb else []) ++ t = c :: r ∧ isDigit c = false := by
  rcases unit_noWs_tail kb with h | ⟨u, h⟩
  · rw [h]
    rcases ht with h' | ⟨t', h'⟩
    · left; simp [h']
    · right; exact ⟨10, t', by simp [h'], by decide⟩
  · rw [h]
    right; exact ⟨32, u ++ t, by simp, by decide⟩

theorem match_valuePart (e : KV) (t : Bytes) (ht : Follows t) :
    matchSeq [.plus .ws, .cap .digit] (valuePart e ++ t)
      = some (renderDec e.val, (if e.kb then unitKb else []) ++ t) := by
  obtain ⟨g, hg⟩ := gap_pos e.key (renderDec e.val).length
  unfold valuePart
  rw [hg, List.append_assoc, List.append_assoc]
  exact match_wsDigits g (renderDec e.val) _ (renderDec_ne_nil e.val) (renderDec_isDigit e.val)
    (follows_nondigit e.kb t ht)

theorem kvLine_length_unit (e : KV) : (if e.kb then unitKb else []).length ≤ (kvLine e).length := by
  unfold kvLine
  simp only [List.length_append]
  omega

theorem lineAgree_key_kvLine (k : Bytes) (hk : 58 ∉ k) (e : KV) (he : 58 ∉ e.key) :
    LineAgree (qKey (k ++ [58])) (matchKey (k ++ [58])) (kvLine e) := by
  intro t ht
  have hshape : kvLine e ++ t = e.key ++ 58 :: (valuePart e ++ t) := by rw [kvLine_eq]; simp
  rw [matchKey_kvLine k hk e he, hshape]
  unfold qKey
  rw [matchSeq_lits, prefix_key_beq k e.key _ hk he]
  by_cases h : k = e.key
  · right
    subst h
    refine ⟨renderDec e.val, (if e.kb then unitKb else []), e.val, ?_, kvLine_length_unit e,
      parseDec_renderDec e.val, by simp⟩
    simp only [beq_self_eq_true, if_true]
    rw [show e.key ++ 58 :: (valuePart e ++ t) = (e.key ++ [58]) ++ (valuePart e ++ t) by simp, List.drop_left]
    exact match_valuePart e t ht
  · left
    have : (k == e.key) = false := by simpa using h
    simp [this]

theorem lineAgree_private_kvLine (e : KV) (hk : wfKey e.key = true) :
    LineAgree qPrivate matchPrivate (kvLine e) := by
  intro t ht
  obtain ⟨htok, he⟩ := wfKey_tok hk
  have hshape : kvLine e ++ t = e.key ++ 58 :: (valuePart e ++ t) := by rw [kvLine_eq]; simp
  rw [matchPrivate_kvLine e he, hshape]
  unfold qPrivate
  rw [matchSeq_lits, prefix_nocolon kPrivate e.key _ (by decide)]
  by_cases h : kPrivate.isPrefixOf e.key = true
  · right
    obtain ⟨k', hk'⟩ := List.isPrefixOf_iff_prefix.mp h
    have hk'c : 58 ∉ k' := fun m => he (by rw [← hk']; simp [m])
    have hk'10 : 10 ∉ k' := by
      intro m
      have : isWs 10 = false := htok.2 10 (by rw [← hk']; simp [m])
      exact absurd this (by decide)
    refine ⟨renderDec e.val, (if e.kb then unitKb else []), e.val, ?_, kvLine_length_unit e,
      parseDec_renderDec e.val, by simp [startsWith, h]⟩
    simp only [h, if_true]
    rw [← hk', List.append_assoc, List.drop_left]
    show starK Cls.dot.test (matchSeq (.lit 58 :: [.plus .ws, .cap .digit])) (k' ++ 58 :: (valuePart e ++ t)) = _
    rw [starK_dot_colon _ (fun c s hc => by rw [matchSeq_lit_cons, if_neg hc]) (matchSeq_lit_nil _ _)
      k' (valuePart e) t hk'c hk'10 (valuePart_nocolon e) ht, matchSeq_lit_cons, if_pos rfl]
    exact match_valuePart e t ht
  · left
    have h' : kPrivate.isPrefixOf e.key = false := Bool.eq_false_iff.mpr h
    simp [startsWith, h']

/-- a line whose first character differs from the pattern's first literal -/
theorem lineAgree_head_ne (a : Nat) (q : List Atom) (f : Bytes → Option Nat) (c : Nat) (l : Bytes)
    (h : c ≠ a) (hf : f (c :: l) = none) : LineAgree (.lit a :: q) f (c :: l) := by
  intro t _
  left
  exact ⟨hf, by rw [List.cons_append]; exact matchSeq_lit_ne a c q _ h⟩

theorem mem_restLines (m : Mapping) (ms : List Mapping) (l : Bytes) (h : l ∈ restLines m ms) :
    (∃ x ∈ m :: ms, ∃ e ∈ x.kv, l = kvLine e) ∨ (∃ x : Mapping, l = headerLine x)
      ∨ (∃ fs, l = flagsLine fs) ∨ (∃ fs, l = flagsBody fs) := by
  induction ms generalizing m with
  | nil =>
    simp only [restLines, tailLinesLast, flagLinesLast, List.mem_append, List.mem_map] at h
    rcases h with ⟨e, he, rfl⟩ | h
    · exact Or.inl ⟨m, by simp, e, he, rfl⟩
    · cases hfl : m.flags with
      | none => rw [hfl] at h; simp at h
      | some fs =>
        rw [hfl] at h
        simp only [List.mem_singleton] at h
        exact Or.inr (Or.inr (Or.inr ⟨fs, h⟩))
  | cons m2 ms' ih =>
    simp only [restLines, tailLines, flagLines, List.mem_append, List.mem_map, List.mem_cons] at h
    rcases h with (⟨e, he, rfl⟩ | h) | h | h
    · exact Or.inl ⟨m, by simp, e, he, rfl⟩
    · cases hfl : m.flags with
      | none => rw [hfl] at h; simp at h
      | some fs =>
        rw [hfl] at h
        simp only [List.mem_singleton] at h
        exact Or.inr (Or.inr (Or.inl ⟨fs, h⟩))
    · exact Or.inr (Or.inl ⟨m2, h⟩)
    · rcases ih m2 h with ⟨x, hx, e, he, hl⟩ | h'
      · exact Or.inl ⟨x, by simp only [List.mem_cons] at hx ⊢; exact Or.inr hx, e, he, hl⟩
      · exact Or.inr h'

/-- all lines after the first of a rendered file are closed for a pattern `\n a…` (`a` = `P` or
    `S`) whose line-anchored extractor ignores header / VmFlags lines and agrees on key lines -/
theorem lineAgree_restLines (a : Nat) (q : List Atom) (f : Bytes → Option Nat) (ha : a = 80 ∨ a = 83)
    (hig : Ignores f) (hkv : ∀ e : KV, wfKV e = true → LineAgree (.lit a :: q) f (kvLine e))
    (m : Mapping) (ms : List Mapping) (hw : ∀ x ∈ m :: ms, ∀ e ∈ x.kv, wfKV e = true) :
    ∀ l ∈ restLines m ms, LineAgree (.lit a :: q) f l := by
  intro l hl
  rcases mem_restLines m ms l hl with ⟨x, hx, e, he, rfl⟩ | ⟨x, rfl⟩ | ⟨fs, rfl⟩ | ⟨fs, rfl⟩
  · exact hkv e (hw x hx e he)
  · obtain ⟨c, t, hct, hc⟩ := headerLine_head x
    have hf := hig.header x
    rw [hct] at hf ⊢
    refine lineAgree_head_ne a q f c t ?_ hf
    unfold hexc at hc
    omega
  · have hsh : flagsLine fs = 86 :: ([109, 70, 108, 97, 103, 115, 58] ++ [32] ++ fs.flatMap (· ++ [32])) := by
      simp [flagsLine, vmFlagsLabel]
    have hf := hig.flags fs
    rw [hsh] at hf ⊢
    exact lineAgree_head_ne a q f 86 _ (by omega) hf
  · have hsh : flagsBody fs = 86 :: ([109, 70, 108, 97, 103, 115, 58] ++ [32] ++ joinWith [32] fs) := by
      simp [flagsBody, vmFlagsLabel]
    have hf := hig.body fs
    rw [hsh] at hf ⊢
    exact lineAgree_head_ne a q f 86 _ (by omega) hf


/-! ### `_parse_smaps` as written (three `findall`s over the whole text) on a rendered file -/

theorem sumFindall_lines (q : List Atom) (f : Bytes → Option Nat) (data : Bytes)
    (hag : ∀ l ∈ (splitOn 10 data).drop 1, LineAgree q f l) :
    sumFindall (.lit 10 :: q) data = .ok (sumMatches f ((splitOn 10 data).drop 1)) := by
  unfold sumFindall
  rw [findall_eq_lines q f data hag]

/-- **the regexes over the whole text = their line-anchored reading**, on every rendered file -/
theorem parseSmaps_eq_lines (c : Cfg) (hg : c.Good) {strips : Bool} (K : List Bytes) (hK : K ≠ [])
    (m : Mapping) (ms : List Mapping) (hw : ∀ x ∈ m :: ms, WfM strips K x) :
    parseSmaps c (renderSmaps (m :: ms)) = .ok (parseSmapsLines c (renderSmaps (m :: ms))) := by
  obtain ⟨_, hsplit⟩ := smaps_lines K hK m ms hw
  have hkvs : ∀ x ∈ m :: ms, ∀ e ∈ x.kv, wfKV e = true := fun x hx => (hw x hx).kv
  have hdrop : (splitOn 10 (readSmaps (renderSmaps (m :: ms)))).drop 1 = restLines m ms := by
    rw [hsplit]; rfl
  have hP : sumFindall (.lit 10 :: qPrivate) (readSmaps (renderSmaps (m :: ms)))
      = .ok (sumMatches matchPrivate (restLines m ms)) := by
    rw [← hdrop]
    apply sumFindall_lines
    rw [hdrop]
    exact lineAgree_restLines 80 _ matchPrivate (Or.inl rfl) ignores_matchPrivate
      (fun e he => lineAgree_private_kvLine e (wfKV_key he)) m ms hkvs
  have hS : sumFindall (.lit 10 :: qKey kPss) (readSmaps (renderSmaps (m :: ms)))
      = .ok (sumMatches (matchKey kPss) (restLines m ms)) := by
    rw [← hdrop]
    apply sumFindall_lines
    rw [hdrop]
    exact lineAgree_restLines 80 _ (matchKey kPss) (Or.inl rfl) ignores_matchKey_pss
      (fun e he => lineAgree_key_kvLine bPss (by decide) e (wfKV_nocolon he)) m ms hkvs
  have hW : sumFindall (.lit 10 :: qKey kSwap) (readSmaps (renderSmaps (m :: ms)))
      = .ok (sumMatches (matchKey kSwap) (restLines m ms)) := by
    rw [← hdrop]
    apply sumFindall_lines
    rw [hdrop]
    exact lineAgree_restLines 83 _ (matchKey kSwap) (Or.inr rfl) ignores_matchKey_swap
      (fun e he => lineAgree_key_kvLine bSwap (by decide) e (wfKV_nocolon he)) m ms hkvs
  unfold parseSmaps parseSmapsLines
  rw [hg.privatePat, hg.pssPat, hg.swapPat]
  simp only [hdrop]
  have eP : (Atom.lit 10 :: (lits kPrivate ++ [Atom.star .dot, .lit 58, .plus .ws, .cap .digit])) = .lit 10 :: qPrivate := rfl
  have eS : (Atom.lit 10 :: (lits kPss ++ [Atom.plus .ws, .cap .digit])) = .lit 10 :: qKey kPss := rfl
  have eW : (Atom.lit 10 :: (lits kSwap ++ [Atom.plus .ws, .cap .digit])) = .lit 10 :: qKey kSwap := rfl
  rw [eP, eS, eW, hP, hS, hW]

theorem parseSmaps_rendered (c : Cfg) (hg : c.Good) {strips : Bool} (K : List Bytes) (hK : K ≠ [])
    (hnd : K.Nodup) (m : Mapping) (ms : List Mapping) (hw : ∀ x ∈ m :: ms, WfM strips K x) :
    parseSmaps c (renderSmaps (m :: ms)) = .ok (specFull (m :: ms)) := by
  rw [parseSmaps_eq_lines c hg K hK m ms hw, parseSmapsLines_rendered c hg K hK hnd m ms hw]

theorem full_info_smaps (c : Cfg) (hg : c.Good) (pagesize : Nat) (st : Statm) (ms : List Mapping)
    (rollup : FileRes) (hne : ms ≠ []) (hwf : wfSmaps false ms = true) :
    memoryFullInfo c false pagesize rollup (renderSmaps ms) (renderStatm st)
      = .ok (specFullInfo pagesize st ms) := by
  cases ms with
  | nil => exact absurd rfl hne
  | cons m ms' =>
    unfold wfSmaps keysOf at hwf
    simp only [Bool.and_eq_true, Bool.not_eq_true', decide_eq_true_eq, List.all_eq_true] at hwf
    obtain ⟨⟨hne', hnd⟩, hall⟩ := hwf
    have hK : m.kv.map (·.key) ≠ [] := by
      intro e; rw [e] at hne'; simp at hne'
    have hw : ∀ x ∈ m :: ms', WfM false (m.kv.map (·.key)) x := fun x hx => wfMapping_spec (hall x hx)
    unfold memoryFullInfo
    simp only [Bool.false_eq_true, if_false, hg.basicFirst]
    rw [parseSmaps_rendered c hg _ hK hnd m ms' hw, statm_roundtrip c hg pagesize st]
    rfl


theorem rollup_agrees (c : Cfg) (hg : c.Good) (ms : List Mapping) (hne : ms ≠ [])
    (hwf : wfSmaps false ms = true) :
    parseSmapsRollup c (renderRollup (rollupKeysOf ms) ms) = parseSmaps c (renderSmaps ms) := by
  cases ms with
  | nil => exact absurd rfl hne
  | cons m ms' =>
    unfold wfSmaps keysOf at hwf
    simp only [Bool.and_eq_true, Bool.not_eq_true', decide_eq_true_eq, List.all_eq_true] at hwf
    obtain ⟨⟨hne', hnd⟩, hall⟩ := hwf
    have hK : m.kv.map (·.key) ≠ [] := by
      intro e; rw [e] at hne'; simp at hne'
    have hw : ∀ x ∈ m :: ms', WfM false (m.kv.map (·.key)) x := fun x hx => wfMapping_spec (hall x hx)
    rw [parseSmaps_rendered c hg _ hK hnd m ms' hw]
    have hKsub : ∀ k ∈ rollupKeysOf (m :: ms'), ∃ e ∈ m.kv, e.key = k ∧ e.kb = true := by
      intro k hk
      obtain ⟨e, he, hek⟩ := List.mem_map.mp hk
      have := List.mem_filter.mp he
      exact ⟨e, this.1, hek, this.2⟩
    have hKnd : (rollupKeysOf (m :: ms')).Nodup := by
      unfold rollupKeysOf
      exact List.Nodup.sublist ((List.filter_sublist).map _) hnd
    have hwfRoll : ∀ e ∈ (rollupKeysOf (m :: ms')).map (mkRoll (m :: ms')), wfKV e = true := by
      intro e he
      obtain ⟨k, hk, rfl⟩ := List.mem_map.mp he
      obtain ⟨e0, he0, hek, hkb⟩ := hKsub k hk
      rw [← hek]
      exact wfKV_mkRoll ((hw m (by simp)).kv e0 he0) hkb _
    have habs : ∀ k0 ∈ special, k0 ∉ rollupKeysOf (m :: ms') → total (m :: ms') k0 = 0 :=
      fun k0 hs hk => total_absent m ms' hw k0 hs hk
    rw [rollup_parse c hg _ _ (fun e he => wfKV_key (hwfRoll e he)),
      fold_rollup_spec (m :: ms') _ hKnd hwfRoll habs]


end Psutil.C13
