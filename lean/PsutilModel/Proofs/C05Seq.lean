/-
  Proofs/C05Seq.lean — what a `psutil.Process` object carries from one call to the next (Model/C05Seq.lean):
  while the incarnation it was built for owns its PID, no call changes the object; once a call has seen it
  dead the flags stay set; the flags are only ever set by a call that saw it dead.
-/
import PsutilModel.Model.C05Seq
import PsutilModel.Proofs.C05
namespace Psutil.C05
open Spec

theorem isRunning_alive {look : Look} {me : Caller} (hr : me.reused = false) (hgone : me.gone = false)
    (ha : Alive look me) : isRunning look me = (me, true) := by
  unfold isRunning
  unfold Alive at ha
  simp [hr, hgone, ha]

theorem raise_alive (g : Bool) {look : Look} {me : Caller} (hr : me.reused = false) (hgone : me.gone = false)
    (ha : Alive look me) : raiseIfPidReused g look me = (me, false) := by
  unfold raiseIfPidReused
  simp [hr, isRunning_alive hr hgone ha, hgone]

/-- a flagged object is not looked at again: every guard leaves it as it is (and raises, see `raise_true_of_dead`) -/
theorem raise_flagged_state (g : Bool) (look : Look) {me : Caller} (h : me.gone = true ∨ me.reused = true) :
    (raiseIfPidReused g look me).1 = me := by
  unfold raiseIfPidReused isRunning
  cases hre : me.reused with
  | true => simp
  | false =>
    have hg : me.gone = true := by
      rcases h with h | h
      · exact h
      · rw [hre] at h; cases h
    simp [hg, hre]

theorem isRunning_flagged_state (look : Look) {me : Caller} (h : me.gone = true ∨ me.reused = true) :
    (isRunning look me).1 = me := by
  unfold isRunning
  rcases h with h | h <;> simp [h]

/-- the state component of `children` is the guard's -/
theorem children_state (c : Cfg) (me : Caller) (r : Bool) (look0 : Look) (pm : PpidMap) (look : Look) :
    (children c me r look0 pm look).1
      = (if c.childrenGuarded then raiseIfPidReused c.goneRaises look0 me else (me, false)).1 := by
  unfold children
  simp only
  repeat' split
  all_goals rfl

/-- the state component of `parent`: the object itself, or what one guard leaves -/
theorem parent_state (c : Cfg) (ps : Ps) (T : Table) (me : Caller) :
    (parent c ps T me).2.1 = me ∨ (parent c ps T me).2.1 = (raiseIfPidReused c.goneRaises (lookOf T) me).1 := by
  have hcore : (parentCore c T me).1 = me ∨ (parentCore c T me).1 = (raiseIfPidReused c.goneRaises (lookOf T) me).1 := by
    unfold parentCore
    cases hpg : c.ppidGuarded with
    | false =>
      left
      simp only [Bool.false_eq_true, if_false]
      repeat' split
      all_goals rfl
    | true =>
      right
      simp only [if_true]
      repeat' split
      all_goals rfl
  unfold parent
  cases c.lowestStop with
  | false => simpa using hcore
  | true =>
    simp only [if_true]
    rcases hlow : lowestPid ps T with ⟨ps', _ | lowest⟩
    · left; rfl
    · simp only
      cases (me.pid == lowest) with
      | false => simpa using hcore
      | true =>
        simp only [if_true]
        cases c.rootGuarded with
        | false => left; rfl
        | true =>
          right
          simp only [if_true]
          repeat' split
          all_goals rfl

/-- **one call leaves a live, unflagged object exactly as it was** -/
theorem afterCall_alive (c : Cfg) (T : Table) (ps : Ps) (me : Caller) (call : Call)
    (hr : me.reused = false) (hgone : me.gone = false) (ha : Alive (lookOf T) me) :
    (afterCall c T (ps, me) call).2 = me := by
  have hp : (parent c ps T me).2.1 = me := by
    rcases parent_state c ps T me with h | h
    · exact h
    · rw [h, raise_alive _ hr hgone ha]
  cases call with
  | isRunning => simp [afterCall, isRunning_alive hr hgone ha]
  | children r =>
    simp only [afterCall, children_state]
    cases c.childrenGuarded <;> simp [raise_alive _ hr hgone ha]
  | parent => exact hp
  | parents => exact hp

/-- **one call leaves a flagged object exactly as it was** -/
theorem afterCall_flagged (c : Cfg) (T : Table) (ps : Ps) (me : Caller) (call : Call)
    (h : me.gone = true ∨ me.reused = true) : (afterCall c T (ps, me) call).2 = me := by
  have hp : (parent c ps T me).2.1 = me := by
    rcases parent_state c ps T me with h' | h'
    · exact h'
    · rw [h', raise_flagged_state _ _ h]
  cases call with
  | isRunning => exact isRunning_flagged_state _ h
  | children r =>
    simp only [afterCall, children_state]
    cases c.childrenGuarded
    · rfl
    · exact raise_flagged_state _ _ h
  | parent => exact hp
  | parents => exact hp

theorem afterCalls_alive (c : Cfg) (me : Caller) (hr : me.reused = false) (hgone : me.gone = false) :
    ∀ (h : List Ev) (ps : Ps), (∀ e ∈ h, Alive (lookOf e.table) me) → (afterCalls c (ps, me) h).2 = me := by
  intro h
  induction h with
  | nil => intro _ _; rfl
  | cons e rest ih =>
    intro ps hall
    have h1 := afterCall_alive c e.table ps me e.call hr hgone (hall e (List.mem_cons_self ..))
    unfold afterCalls
    simp only [List.foldl_cons]
    have : afterCall c e.table (ps, me) e.call = ((afterCall c e.table (ps, me) e.call).1, me) :=
      Prod.ext rfl h1
    rw [this]
    exact ih _ (fun x hx => hall x (List.mem_cons_of_mem _ hx))

theorem afterCalls_flagged (c : Cfg) (me : Caller) (hf : me.gone = true ∨ me.reused = true) :
    ∀ (h : List Ev) (ps : Ps), (afterCalls c (ps, me) h).2 = me := by
  intro h
  induction h with
  | nil => intro _; rfl
  | cons e rest ih =>
    intro ps
    have h1 := afterCall_flagged c e.table ps me e.call hf
    unfold afterCalls
    simp only [List.foldl_cons]
    have : afterCall c e.table (ps, me) e.call = ((afterCall c e.table (ps, me) e.call).1, me) :=
      Prod.ext rfl h1
    rw [this]
    exact ih _

/-- no guard changes which process the object stands for -/
theorem raise_pid (g : Bool) (look : Look) (me : Caller) : (raiseIfPidReused g look me).1.pid = me.pid := by
  unfold raiseIfPidReused isRunning
  cases hre : me.reused <;> cases hg : me.gone <;> simp [hre]
  cases look me.pid with
  | none => simp
  | some s => by_cases h : s = me.ctime <;> simp [h, hre]

/-- a guard that sees the incarnation gone or replaced sets `_gone` -/
theorem raise_dead_sets_gone (g : Bool) {look : Look} {me : Caller} (hr : me.reused = false)
    (hgone : me.gone = false) (ha : ¬ Alive look me) : (raiseIfPidReused g look me).1.gone = true := by
  unfold raiseIfPidReused isRunning
  unfold Alive at ha
  simp only [hr, hgone, Bool.false_eq_true, if_false, Bool.or_self]
  cases hl : look me.pid with
  | none => simp
  | some s =>
    have hne : (s == me.ctime) = false := by
      cases hb : s == me.ctime with
      | false => rfl
      | true => exact absurd (by rw [hl]; simpa using hb) ha
    simp [hne]

end Psutil.C05
