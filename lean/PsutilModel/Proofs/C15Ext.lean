/-
  Proofs/C15Ext.lean — helper lemmas for the extension of C15: waiting for oneself, the last
  attempt of `wait_procs` (what `alive` means), `psutil.Popen.wait`, and concrete runs with the
  exit instant strictly between the last poll before the deadline and the deadline.
-/
import PsutilModel.Proofs.C15Examples
import PsutilModel.Proofs.C15Term
namespace Psutil.C15
open Spec

/-! ### waiting for a process that never ends and is not a child (e.g. oneself) -/

section
variable {c : Cfg} (hg : c.Good) (env : Env) (pid : Nat) (timeout : Option Rat)
variable (fuel : Nat) (now : Rat) (nWait : Nat)
include hg

/-- only a blocking `waitpid` on a child can hang -/
theorem waitPid_hang_child (h : (waitPid c env pid timeout fuel now nWait).1 = .hang) :
    ∃ st, env.kind = .child st := by
  by_cases hp : pid = 0
  · rw [waitPid_zero env pid timeout fuel now nWait hp] at h; cases h
  · rw [waitPid_pos env pid timeout fuel now nWait (by omega)] at h
    have := loop_rule hg env pid timeout (now + timeout.getD 0) (fun _ _ => True)
      (fun o _ => o = .hang → ∃ st, env.kind = .child st)
      (by intros; trivial) (by intro n s τ _ _ _ _ h; cases h) (by intros; trivial)
      (by intro n s st _ hk _ _ _ _ _; exact ⟨st, hk⟩)
      (by intro n s st e _ hk _ _ _; exact ⟨st, hk⟩)
      (by intro n s st _ hk _ _ _; exact ⟨st, hk⟩)
      (by intro n s _ _ _ h; cases h) (by intro s _ h; cases h)
      fuel ⟨now, c.i0, nWait, []⟩ trivial
    exact this h

omit hg in
theorem not_endedBy_self (hs : isSelf env) (t : Rat) : ¬ endedBy env t := by
  obtain ⟨hk, hx⟩ := hs
  unfold endedBy
  simp [hk, hx]

/-- the caller waiting for itself: the polling goes on until the deadline — TimeoutExpired, or
    (no timeout) no return at all; never a result, never another exception -/
theorem waitPid_self (hs : isSelf env) (hp : 0 < pid) :
    (waitPid c env pid timeout fuel now nWait).1 = .outOfFuel ∨
    ∃ τ, timeout = some τ ∧ (waitPid c env pid timeout fuel now nWait).1 = .timeout τ pid := by
  have hk := hs.1
  rcases waitPid_shape hg env pid timeout fuel now nWait with
    h | h | ⟨sec, p, h⟩ | ⟨h0, _⟩ | ⟨st, hk', _⟩ | ⟨_, h⟩
  · exact Or.inl h
  · obtain ⟨st, hk'⟩ := waitPid_hang_child hg env pid timeout fuel now nWait h
    rw [hk] at hk'; cases hk'
  · obtain ⟨h1, h2, _, _⟩ := waitPid_timeoutSound hg env pid timeout fuel now nWait sec p h
    exact Or.inr ⟨sec, h1, by rw [h, h2]⟩
  · omega
  · rw [hk] at hk'; cases hk'
  · exact absurd ((waitPid_neverEarly hg env pid timeout fuel now nWait).2 h).2
      (not_endedBy_self env hs _)

end

/-! ### the last attempt of `wait_procs`: who is left in `alive` was seen alive at the return instant -/

theorem mem_markGone (hasCb : Bool) (w : WP) (pid : Nat) (v : Option Int) :
    pid ∈ (markGone hasCb w pid v).gone := by
  simp only [markGone_eq]
  split
  · assumption
  · simp

section
variable {c : Cfg} (hg : c.Good) (envOf : Nat → Env) (hasCb : Bool) (fuel : Nat) (input : List Nat)
include hg

/-- a `check_gone(proc, 0)` that leaves the process out of `gone`: its poll saw it alive -/
theorem checkGone_zero_alive (w w' : WP) (pid : Nat)
    (h : checkGone c envOf hasCb fuel w pid 0 = .ok w') (hn : pid ∉ w'.gone)
    (hc : ∀ n, (envOf pid).eintr n = false) : ¬ endedBy (envOf pid) w'.now := by
  generalize hr : procWait c (envOf pid) (some 0) fuel w.now { w.objs pid with pid := pid } = r
  rw [checkGone_eq c envOf hasCb fuel w pid 0 r hr] at h
  have hneg : negative (some (0 : Rat)) = false := by simp [negative]
  cases ho : r.out with
  | timeout a b =>
    rw [ho] at h; simp only at h; cases h
    show ¬ endedBy (envOf pid) r.now
    cases hx : ({ w.objs pid with pid := pid } : PObj).exitcode with
    | some v =>
      rw [procWait_cached (envOf pid) (some 0) fuel w.now _ v hx hneg] at hr
      subst hr
      cases v <;> simp [Outcome.ofValue] at ho
    | none =>
      rw [procWait_fresh (envOf pid) (some 0) fuel w.now _ hx hneg] at hr
      subst hr
      simp only at ho ⊢
      exact (waitPid_timeoutSound hg (envOf pid) _ (some 0) fuel w.now _ a b ho).2.2.2 (hc _)
  | code cc =>
    rw [ho] at h; simp only at h; cases h
    exact absurd (mem_markGone _ _ _ _) hn
  | none =>
    rw [ho] at h; simp only at h
    by_cases hrun : (envOf pid).running r.now = true
    · simp only [hrun, if_true] at h; cases h
      exact not_endedBy_of_exists hrun
    · simp only [hrun, Bool.false_eq_true, if_false] at h; cases h
      exact absurd (mem_markGone _ _ _ _) hn
  | valueError => rw [ho] at h; cases h
  | hang => rw [ho] at h; cases h
  | outOfFuel => rw [ho] at h; cases h

/-- a pass of `check_gone(proc, 0)` calls: nobody sleeps, the clock stands still, and everybody
    who is still not in `gone` afterwards was polled and seen alive at that very instant -/
theorem passN_zero_alive :
    ∀ (l : List Nat) (w w' : WP), Inv envOf hasCb input w → l.Nodup →
      (∀ q ∈ l, q ∉ w.gone ∧ q ∈ input) → passN c envOf hasCb fuel 0 l w = .ok w' →
      ∀ q ∈ l, q ∉ w'.gone → (∀ n, (envOf q).eintr n = false) → ¬ endedBy (envOf q) w'.now := by
  intro l
  induction l with
  | nil => intro w w' _ _ _ _ q hq; cases hq
  | cons pid rest ih =>
    intro w w' hi hnd hl h q hq hng hc
    simp only [passN] at h
    cases hcg : checkGone c envOf hasCb fuel w pid 0 with
    | error o => rw [hcg] at h; cases h
    | ok w1 =>
      rw [hcg] at h; simp only at h
      obtain ⟨hn, hin⟩ := hl pid (by simp)
      obtain ⟨i1, s1, s2, _, _, _⟩ :=
        checkGone_step hg envOf hasCb fuel input w w1 pid 0 (le_refl _) hi hn hin hcg
      have hnd' := (List.nodup_cons.1 hnd)
      have hl' : ∀ x ∈ rest, x ∉ w1.gone ∧ x ∈ input := by
        intro x hx
        refine ⟨fun hx1 => ?_, (hl x (by simp [hx])).2⟩
        rcases s2 x hx1 with h' | h'
        · exact (hl x (by simp [hx])).1 h'
        · subst h'; exact hnd'.1 hx
      obtain ⟨_, u1, _, _, u4⟩ :=
        passN_inv hg envOf hasCb fuel input 0 (le_refl _) rest w1 w' i1 hnd'.2 hl' h
      rcases List.mem_cons.1 hq with e | hq'
      · subst e
        rw [u4 rfl]
        exact checkGone_zero_alive hg envOf hasCb fuel w w1 q hcg (fun hq1 => hng (u1 q hq1)) hc
      · exact ih w1 w' i1 hnd'.2 hl' h q hq' hng hc

variable (order : Nat → List Nat → List Nat) (hperm : ∀ k l, (order k l).Perm l)
include hperm

theorem lastAttempt_alive (alive : List Nat) (w w' : WP) (alive' : List Nat)
    (hl : LInv envOf hasCb input w alive)
    (h : lastAttempt c envOf hasCb fuel order alive w = .ok (w', alive')) :
    ∀ q ∈ alive', (∀ n, (envOf q).eintr n = false) → ¬ endedBy (envOf q) w'.now := by
  unfold lastAttempt at h
  by_cases he : alive.isEmpty = true
  · simp only [he, if_true] at h; cases h
    intro q hq; rw [List.isEmpty_iff.1 he] at hq; cases hq
  · simp only [he, Bool.false_eq_true, if_false] at h
    cases hp : passN c envOf hasCb fuel 0 (order w.calls.length alive) w with
    | error o => rw [hp] at h; cases h
    | ok w1 =>
      rw [hp] at h; simp only [Except.ok.injEq, Prod.mk.injEq] at h
      obtain ⟨rfl, rfl⟩ := h
      obtain ⟨hnd, hmem⟩ := order_ok envOf hasCb input hl (hperm w.calls.length alive)
      intro q hq hc
      obtain ⟨hq1, hq2⟩ := mem_stillAlive.1 hq
      exact passN_zero_alive hg envOf hasCb fuel input _ w w1 hl.1 hnd hmem hp q
        (((hperm w.calls.length alive).mem_iff).2 hq1) hq2 hc

/-- `wait_procs`: everybody in the returned `alive` list was polled once more at the very end and
    seen alive at the instant of return (when no waitpid call on it was interrupted) -/
theorem waitProcs_alive (procs : List Nat) (timeout : Option Rat) (w w' : WP) (alive' : List Nat)
    (hf : Fresh envOf w)
    (h : waitProcs c envOf procs timeout hasCb order fuel w = .ok (w', alive')) :
    ∀ q ∈ alive', (∀ n, (envOf q).eintr n = false) → ¬ endedBy (envOf q) w'.now := by
  obtain ⟨hg0, hcb0, hs0, hc0⟩ := hf
  have hl0 : LInv envOf hasCb (dedup procs) w (dedup procs) := by
    refine ⟨⟨by rw [hg0]; simp, by rw [hcb0, hg0]; simp, by rw [hg0]; simp, by rw [hg0]; simp, hc0,
        by rw [hs0]; simp, by rw [hs0, hcb0]; simp⟩,
      nodup_dedup procs, fun q => by rw [hg0]; simp⟩
  unfold waitProcs at h
  by_cases hneg : negative timeout = true
  · simp [hneg] at h
  · simp only [hneg, Bool.false_eq_true, if_false] at h
    cases ht : timeout with
    | some τ =>
      rw [ht] at h; simp only at h
      cases hw : whileT c envOf hasCb fuel order (w.now + τ) fuel (dedup procs) w τ with
      | error o => rw [hw] at h; cases h
      | ok r =>
        obtain ⟨w1, alive1⟩ := r
        rw [hw] at h; simp only at h
        have hτ : 0 ≤ τ := by
          rw [ht] at hneg; simp [negative] at hneg; exact hneg
        obtain ⟨l1, _, _⟩ := whileT_inv hg envOf hasCb fuel (dedup procs) order hperm (w.now + τ)
          fuel _ w τ w1 alive1 hl0 (by linarith [cap_pos]) hw
        exact lastAttempt_alive hg envOf hasCb fuel (dedup procs) order hperm alive1 w1 w' alive' l1 h
    | none =>
      rw [ht] at h; simp only at h
      cases hw : whileN c envOf hasCb fuel order fuel (dedup procs) w with
      | error o => rw [hw] at h; cases h
      | ok r =>
        obtain ⟨w1, alive1⟩ := r
        rw [hw] at h; simp only at h
        obtain ⟨l1, _, _⟩ := whileN_inv hg envOf hasCb fuel (dedup procs) order hperm
          fuel _ w w1 alive1 hl0 hw
        exact lastAttempt_alive hg envOf hasCb fuel (dedup procs) order hperm alive1 w1 w' alive' l1 h

end

/-! ### `psutil.Popen.wait` -/

section
variable {c : Cfg} (hg : c.Good) (env : Env) (timeout : Option Rat) (fuel : Nat) (now : Rat) (q : PopenObj)
include hg

/-- what `subprocess.Popen.returncode` is after a call that found it unset -/
def rcAfter (o : Outcome) : Option Int :=
  match o with
  | .code cc => some cc
  | _ => none

/-- with `returncode` unset, `Popen.wait` IS `Process.wait` on the same object (same result or
    exception, same instant, same sleeps, same `_exitcode` bookkeeping), and afterwards
    `returncode` is the exit status returned — unset when None was returned or the call raised -/
theorem popenWait_unset (h : q.subRc = none) :
    (popenWait c env timeout fuel now q).out = (procWait c env timeout fuel now q.proc).out ∧
    (popenWait c env timeout fuel now q).now = (procWait c env timeout fuel now q.proc).now ∧
    (popenWait c env timeout fuel now q).sleeps = (procWait c env timeout fuel now q.proc).sleeps ∧
    (popenWait c env timeout fuel now q).obj.proc = (procWait c env timeout fuel now q.proc).obj ∧
    (popenWait c env timeout fuel now q).obj.subRc =
      rcAfter (procWait c env timeout fuel now q.proc).out := by
  by_cases hv : (c.popenValidateFirst && negative timeout) = true
  · have hn : negative timeout = true := by
      cases hvf : c.popenValidateFirst <;> simp [hvf] at hv; exact hv
    simp [popenWait, hv, procWait_negative hg env timeout fuel now q.proc hn, h, rcAfter]
  · have hv' : (c.popenValidateFirst && negative timeout) = false := by simpa using hv
    simp only [popenWait, hv', Bool.false_eq_true, if_false, hg.popenRcFirst, if_true, h,
      hg.popenStoresRc]
    refine ⟨trivial, trivial, trivial, trivial, ?_⟩
    cases (procWait c env timeout fuel now q.proc).out <;> simp [Outcome.value?, rcAfter]

omit hg in
/-- with `returncode` set the call gives it back at once and touches nothing -/
theorem popenWait_set (cc : Int) (h : q.subRc = some cc) (h1 : c.popenRcFirst = true)
    (hv : (c.popenValidateFirst && negative timeout) = false) :
    popenWait c env timeout fuel now q = ⟨.code cc, now, [], q⟩ := by
  simp [popenWait, hv, h1, h]

end

/-- a returned exit status is what `Process.wait` leaves in `_exitcode` -/
theorem procWait_code_stored {c : Cfg} (env : Env) (timeout : Option Rat) (fuel : Nat) (now : Rat) (p : PObj)
    (cc : Int) (h : (procWait c env timeout fuel now p).out = .code cc) :
    (procWait c env timeout fuel now p).obj.exitcode = some (some cc) := by
  by_cases hv : (c.validateNonNeg && negative timeout) = true
  · simp [procWait, hv] at h
  · cases hx : p.exitcode with
    | some v =>
      simp only [procWait, hv, hx] at h ⊢
      cases v <;> simp [Outcome.ofValue] at h
      subst h; exact hx
    | none =>
      simp only [procWait, hv, hx] at h ⊢
      simp only [Bool.false_eq_true, if_false] at h ⊢
      rw [h]; rfl

/-! ### EINTR at the deadline: what ANY polling implementation is up against -/

/-- what one `waitpid(pid, WNOHANG)` call can answer -/
inductive Ans
  | eintr | echild | running | status (st : Nat)
  deriving DecidableEq, Repr

/-- the answer of the n-th call when it is made at instant `t` -/
def Env.answer (env : Env) (n : Nat) (t : Rat) : Ans :=
  if env.eintr n then .eintr
  else match env.kind with
    | .child st => if env.ended t then .status st else .running
    | _ => .echild

/-- the child of the known finding, every waitpid call interrupted -/
def deadAllEintr : Env := ⟨.child 0, some 0, fun _ => true⟩
/-- a child that never ends, every waitpid call interrupted -/
def liveAllEintr : Env := ⟨.child 0, none, fun _ => true⟩

/-- the two look the same through waitpid -/
theorem answers_coincide : deadAllEintr.answer = liveAllEintr.answer := by
  funext n t; simp [Env.answer, deadAllEintr, liveAllEintr]

/-- the clauses of the property a `wait(pid 7, timeout=0)` at instant 1 must meet -/
def Acceptable (env : Env) (o : Outcome × Rat) : Prop :=
  timeoutSound ⟨env, 7, some 0, 1⟩ ⟨o.1, o.2, []⟩ ∧ neverEarly ⟨env, 7, some 0, 1⟩ ⟨o.1, o.2, []⟩ ∧
  comesBack ⟨env, 7, some 0, 1⟩ ⟨o.1, o.2, []⟩ ∧ o.1 ≠ .valueError

/-! ### concrete runs: the exit falls strictly between the last poll before the deadline and the deadline -/

/-- a child that calls `exit(1)` at t = 0.2 ms -/
def exLate : Env := ⟨.child 256, some (1 / 5000), fun _ => false⟩

/-- `wait_pid(7, timeout=0.25 ms)` at t = 0: polls at 0 and 0.1 ms see the child alive; the exit at
    0.2 ms lies strictly between the poll at 0.1 ms and the deadline 0.25 ms; the deadline check at
    0.1 ms still says "not yet", the full 0.2 ms are slept, the poll at 0.3 ms returns 1 -/
theorem ex_late {c : Cfg} (hg : c.Good) :
    waitPid c exLate 7 (some (1 / 4000)) 50 0 0 =
      (.code 1, ⟨3 / 10000, 1 / 2500, 3, [1 / 10000, 1 / 5000]⟩) := by
  norm_num [waitPid, waitLoop, exLate, sleepStep, pastDeadline, hg.check, hg.ge, Env.ended, St.advance,
    Cfg.i0, Cfg.cap, rmin, hg.i0n, hg.i0d, hg.factor, hg.capn, hg.capd, decode, wifexited, wtermsig,
    wexitstatus]

/-- a Popen object never waited for: no `_exitcode`, no `returncode` -/
def exPopen : PopenObj := ⟨⟨7, none, 0, none⟩, none⟩

end Psutil.C15
