/-
  Proofs/C15Procs.lean — the invariant of `wait_procs` (gone/alive bookkeeping, callback log,
  returncode attribute, cache consistency, clock) through `check_gone`, one pass, the while loops
  and the last attempt.
-/
import PsutilModel.Proofs.C15Wait
namespace Psutil.C15
open Spec

/-! ### small list facts -/

theorem mem_dedup {a : Nat} {l : List Nat} : a ∈ dedup l ↔ a ∈ l := by
  induction l with
  | nil => simp [dedup]
  | cons x xs ih =>
    simp only [dedup]
    split
    · rename_i h
      simp only [List.mem_cons, ih]
      constructor
      · intro h'; exact Or.inr h'
      · rintro (rfl | h')
        · exact ih.1 h
        · exact h'
    · simp [ih]

theorem nodup_dedup (l : List Nat) : (dedup l).Nodup := by
  induction l with
  | nil => simp [dedup]
  | cons x xs ih =>
    simp only [dedup]
    split
    · exact ih
    · rename_i h; exact List.nodup_cons.2 ⟨h, ih⟩

theorem mem_stillAlive {alive gone : List Nat} {p : Nat} :
    p ∈ stillAlive alive gone ↔ p ∈ alive ∧ p ∉ gone := by
  simp [stillAlive, List.mem_filter]

theorem nodup_stillAlive {alive gone : List Nat} (h : alive.Nodup) : (stillAlive alive gone).Nodup := by
  unfold stillAlive
  exact h.sublist List.filter_sublist

/-! ### what a cached value must be -/

/-- the value a finished process of this environment reports: the decoding of its status word
    (a child), None (not a child) -/
def RightVal (env : Env) (v : Option Int) : Prop :=
  (∀ cc, v = some cc → ∃ st, env.kind = .child st ∧ decode st = .code cc) ∧
  (v = none → ¬ isChild env)

section
variable {c : Cfg} (hg : c.Good)
include hg

/-- everything `check_gone` needs to know about one `proc.wait(timeout=t)`, `t ≥ 0` -/
theorem procWait_facts (env : Env) (t : Rat) (fuel : Nat) (now : Rat) (p : PObj) (ht : 0 ≤ t)
    (hc : ∀ v, p.exitcode = some v → RightVal env v ∧ endedBy env now)
    (r : WaitRes) (hr : procWait c env (some t) fuel now p = r) :
    now ≤ r.now ∧ r.now < now + t + Spec.cap ∧ (t = 0 → r.now = now) ∧
    (∀ v, r.obj.exitcode = some v → RightVal env v ∧ endedBy env r.now) ∧
    (∀ cc, r.out = .code cc → r.obj.exitcode = some (some cc)) ∧
    (r.out = .none → r.obj.exitcode = some none) ∧
    r.obj.returncode = p.returncode ∧ r.obj.pid = p.pid := by
  have hneg : negative (some t) = false := by simp [negative]; linarith
  cases hx : p.exitcode with
  | some v =>
    rw [procWait_cached env (some t) fuel now p v hx hneg] at hr
    subst hr
    refine ⟨le_refl _, by simp; linarith [cap_pos], fun _ => rfl, ?_, ?_, ?_, rfl, rfl⟩
    · intro v' hv'; exact hc v' hv'
    · intro cc h; cases v <;> simp [Outcome.ofValue] at h; subst h; exact hx
    · intro h; cases v <;> simp [Outcome.ofValue] at h; exact hx
  | none =>
    rw [procWait_fresh env (some t) fuel now p hx hneg] at hr
    subst hr
    simp only
    have hne := waitPid_neverEarly hg env p.pid (some t) fuel now p.nWait
    refine ⟨waitPid_mono hg env p.pid (some t) fuel now p.nWait,
      waitPid_bound hg env p.pid (some t) fuel now p.nWait t rfl ht,
      fun h0 => (waitPid_zeroTimeout hg env p.pid (some t) fuel now p.nWait t rfl (by linarith)).2,
      ?_, ?_, ?_, trivial, trivial⟩
    · intro v hv
      cases ho : (waitPid c env p.pid (some t) fuel now p.nWait).1 with
      | code cc =>
        rw [ho] at hv; simp [Outcome.value?] at hv; subst hv
        refine ⟨⟨fun cc' h => ?_, fun h => (by cases h)⟩, (hne.1 cc ho).2⟩
        cases h
        exact waitPid_decode hg env p.pid (some t) fuel now p.nWait cc ho
      | none =>
        rw [ho] at hv; simp [Outcome.value?] at hv; subst hv
        exact ⟨⟨fun cc' h => (by cases h), fun _ => (hne.2 ho).1⟩, (hne.2 ho).2⟩
      | timeout a b => rw [ho] at hv; simp [Outcome.value?] at hv
      | valueError => rw [ho] at hv; simp [Outcome.value?] at hv
      | hang => rw [ho] at hv; simp [Outcome.value?] at hv
      | outOfFuel => rw [ho] at hv; simp [Outcome.value?] at hv
    · intro cc h; rw [h]; rfl
    · intro h; rw [h]; rfl

end

/-! ### the invariant -/

structure Inv (envOf : Nat → Env) (hasCb : Bool) (input : List Nat) (w : WP) : Prop where
  nodup : w.gone.Nodup
  cb : w.cbLog = if hasCb then w.gone else []
  sub : ∀ q ∈ w.gone, q ∈ input
  rc : ∀ q ∈ w.gone, ∃ v, (w.objs q).returncode = some v ∧ (w.objs q).exitcode = some v
  cache : ∀ q v, (w.objs q).exitcode = some v → RightVal (envOf q) v ∧ endedBy (envOf q) w.now
  -- what every callback invocation saw: the process already in `gone`, `returncode` already set, to a true value
  seen : ∀ e ∈ w.cbSeen, e.inGone = true ∧ ∃ v, e.rc = some v ∧ RightVal (envOf e.pid) v
  seenPids : w.cbSeen.map (·.pid) = w.cbLog

theorem inv_markGone {envOf : Nat → Env} {hasCb : Bool} {input : List Nat} {w : WP} {pid : Nat}
    {v : Option Int} (hi : Inv envOf hasCb input w) (hn : pid ∉ w.gone) (hin : pid ∈ input)
    (hv : (w.objs pid).exitcode = some v) :
    Inv envOf hasCb input (markGone hasCb w pid v) ∧ (markGone hasCb w pid v).gone = w.gone ++ [pid] ∧
    (markGone hasCb w pid v).now = w.now := by
  have hg' : (markGone hasCb w pid v).gone = w.gone ++ [pid] := by simp [markGone_eq, hn]
  refine ⟨⟨?_, ?_, ?_, ?_, ?_, ?_, ?_⟩, hg', by rw [markGone_eq]⟩
  · rw [hg']
    rw [List.nodup_append]
    refine ⟨hi.nodup, by simp, ?_⟩
    intro a ha b hb
    simp at hb; subst hb
    intro e; subst e; exact hn ha
  · rw [hg']
    simp only [markGone_eq]
    rw [hi.cb]
    cases hasCb <;> simp
  · intro q hq
    rw [hg'] at hq
    simp at hq
    rcases hq with hq | rfl
    · exact hi.sub q hq
    · exact hin
  · intro q hq
    rw [hg'] at hq
    simp at hq
    by_cases e : q = pid
    · subst e
      exact ⟨v, by simp [markGone_eq], by simp [markGone_eq, hv]⟩
    · have hq' : q ∈ w.gone := by rcases hq with h | h; exact h; exact absurd h e
      obtain ⟨v', h1, h2⟩ := hi.rc q hq'
      exact ⟨v', by simp [markGone_eq, e, h1], by simp [markGone_eq, e, h2]⟩
  · intro q v' hq
    have : (w.objs q).exitcode = some v' := by
      by_cases e : q = pid
      · subst e; simpa [markGone_eq] using hq
      · simpa [markGone_eq, e] using hq
    have hnow : (markGone hasCb w pid v).now = w.now := by rw [markGone_eq]
    rw [hnow]
    exact hi.cache q v' this
  · intro e he
    rw [markGone_eq] at he
    simp only at he
    cases hasCb with
    | false => simp only [Bool.false_eq_true, if_false] at he; exact hi.seen e he
    | true =>
      simp only [if_true, List.mem_append, List.mem_singleton] at he
      rcases he with he | rfl
      · exact hi.seen e he
      · exact ⟨rfl, v, rfl, (hi.cache pid v hv).1⟩
  · rw [markGone_eq]
    simp only
    cases hasCb with
    | false => simpa using hi.seenPids
    | true => simp [hi.seenPids]

/-- the state right after `proc.wait(t)` returned or raised, before any `gone.add` -/
def afterWait (w : WP) (r : WaitRes) (pid : Nat) (t : Rat) : WP :=
  { w.setObj r.obj with now := r.now, sleeps := w.sleeps ++ r.sleeps, calls := w.calls ++ [(pid, t)] }

theorem checkGone_eq (c : Cfg) (envOf : Nat → Env) (hasCb : Bool) (fuel : Nat) (w : WP) (pid : Nat)
    (t : Rat) (r : WaitRes)
    (hr : procWait c (envOf pid) (some t) fuel w.now { w.objs pid with pid := pid } = r) :
    checkGone c envOf hasCb fuel w pid t =
      match r.out with
      | .timeout _ _ => .ok (afterWait w r pid t)
      | .code cc => .ok (markGone hasCb (afterWait w r pid t) pid (some cc))
      | .none => if (envOf pid).running r.now then .ok (afterWait w r pid t)
                 else .ok (markGone hasCb (afterWait w r pid t) pid none)
      | o => .error o := by
  subst hr; rfl

section
variable {c : Cfg} (hg : c.Good) (envOf : Nat → Env) (hasCb : Bool) (fuel : Nat) (input : List Nat)
include hg

/-- one `check_gone(proc, t)` that did not raise -/
theorem checkGone_step (w w' : WP) (pid : Nat) (t : Rat) (ht : 0 ≤ t)
    (hi : Inv envOf hasCb input w) (hn : pid ∉ w.gone) (hin : pid ∈ input)
    (h : checkGone c envOf hasCb fuel w pid t = .ok w') :
    Inv envOf hasCb input w' ∧ (∀ q ∈ w.gone, q ∈ w'.gone) ∧ (∀ q ∈ w'.gone, q ∈ w.gone ∨ q = pid) ∧
    w.now ≤ w'.now ∧ w'.now < w.now + t + Spec.cap ∧ (t = 0 → w'.now = w.now) := by
  have hc : ∀ v, ({ w.objs pid with pid := pid } : PObj).exitcode = some v →
      RightVal (envOf pid) v ∧ endedBy (envOf pid) w.now := fun v hv => hi.cache pid v hv
  generalize hr : procWait c (envOf pid) (some t) fuel w.now { w.objs pid with pid := pid } = r
  obtain ⟨f1, f2, f3, f4, f5, f6, f7, f8⟩ :=
    procWait_facts hg (envOf pid) t fuel w.now { w.objs pid with pid := pid } ht hc r hr
  rw [checkGone_eq c envOf hasCb fuel w pid t r hr] at h
  simp only at f7 f8
  have hw1 : Inv envOf hasCb input (afterWait w r pid t) := by
    refine ⟨hi.nodup, hi.cb, hi.sub, ?_, ?_, hi.seen, hi.seenPids⟩
    · intro q hq
      have e : q ≠ pid := fun e => hn (e ▸ hq)
      obtain ⟨v, h1, h2⟩ := hi.rc q hq
      exact ⟨v, by simp [afterWait, WP.setObj, f8, e, h1], by simp [afterWait, WP.setObj, f8, e, h2]⟩
    · intro q v hq
      by_cases e : q = pid
      · subst e
        have : r.obj.exitcode = some v := by simpa [afterWait, WP.setObj, f8] using hq
        exact f4 v this
      · have : (w.objs q).exitcode = some v := by simpa [afterWait, WP.setObj, f8, e] using hq
        obtain ⟨h1, h2⟩ := hi.cache q v this
        exact ⟨h1, endedBy_mono h2 f1⟩
  have hobj : (afterWait w r pid t).objs pid = r.obj := by simp [afterWait, WP.setObj, f8]
  have hgone : (afterWait w r pid t).gone = w.gone := rfl
  have hnow : (afterWait w r pid t).now = r.now := rfl
  cases ho : r.out with
  | timeout a b =>
    rw [ho] at h; simp only at h
    cases h
    exact ⟨hw1, fun q hq => hq, fun q hq => Or.inl hq, f1, f2, f3⟩
  | code cc =>
    rw [ho] at h; simp only at h
    cases h
    obtain ⟨g1, g2, g3⟩ := inv_markGone hw1 (by rw [hgone]; exact hn) hin (v := some cc) (by rw [hobj]; exact f5 cc ho)
    refine ⟨g1, ?_, ?_, ?_, ?_, ?_⟩
    · intro q hq; rw [g2, hgone]; simp; exact Or.inl hq
    · intro q hq; rw [g2, hgone] at hq; simpa using hq
    · rw [g3]; exact f1
    · rw [g3]; exact f2
    · rw [g3]; exact f3
  | none =>
    rw [ho] at h; simp only at h
    by_cases hrun : (envOf pid).running r.now = true
    · simp only [hrun, if_true] at h
      cases h
      exact ⟨hw1, fun q hq => hq, fun q hq => Or.inl hq, f1, f2, f3⟩
    · simp only [hrun, Bool.false_eq_true, if_false] at h
      cases h
      obtain ⟨g1, g2, g3⟩ := inv_markGone hw1 (by rw [hgone]; exact hn) hin (v := none) (by rw [hobj]; exact f6 ho)
      refine ⟨g1, ?_, ?_, ?_, ?_, ?_⟩
      · intro q hq; rw [g2, hgone]; simp; exact Or.inl hq
      · intro q hq; rw [g2, hgone] at hq; simpa using hq
      · rw [g3]; exact f1
      · rw [g3]; exact f2
      · rw [g3]; exact f3
  | valueError => rw [ho] at h; cases h
  | hang => rw [ho] at h; cases h
  | outOfFuel => rw [ho] at h; cases h

/-- a pass with a fixed per-process timeout -/
theorem passN_inv (t : Rat) (ht : 0 ≤ t) :
    ∀ (l : List Nat) (w w' : WP), Inv envOf hasCb input w → l.Nodup →
      (∀ q ∈ l, q ∉ w.gone ∧ q ∈ input) → passN c envOf hasCb fuel t l w = .ok w' →
      Inv envOf hasCb input w' ∧ (∀ q ∈ w.gone, q ∈ w'.gone) ∧ (∀ q ∈ w'.gone, q ∈ w.gone ∨ q ∈ l) ∧
      w.now ≤ w'.now ∧ (t = 0 → w'.now = w.now) := by
  intro l
  induction l with
  | nil =>
    intro w w' hi _ _ h
    simp [passN] at h; subst h
    exact ⟨hi, fun q hq => hq, fun q hq => Or.inl hq, le_refl _, fun _ => rfl⟩
  | cons pid rest ih =>
    intro w w' hi hnd hl h
    simp only [passN] at h
    cases hcg : checkGone c envOf hasCb fuel w pid t with
    | error o => rw [hcg] at h; cases h
    | ok w1 =>
      rw [hcg] at h; simp only at h
      obtain ⟨hn, hin⟩ := hl pid (by simp)
      obtain ⟨i1, s1, s2, t1, _, t3⟩ := checkGone_step hg envOf hasCb fuel input w w1 pid t ht hi hn hin hcg
      have hnd' := (List.nodup_cons.1 hnd)
      have hl' : ∀ q ∈ rest, q ∉ w1.gone ∧ q ∈ input := by
        intro q hq
        refine ⟨fun hq1 => ?_, (hl q (by simp [hq])).2⟩
        rcases s2 q hq1 with h' | h'
        · exact (hl q (by simp [hq])).1 h'
        · subst h'; exact hnd'.1 hq
      obtain ⟨i2, u1, u2, u3, u4⟩ := ih w1 w' i1 hnd'.2 hl' h
      refine ⟨i2, fun q hq => u1 q (s1 q hq), ?_, le_trans t1 u3, fun h0 => ?_⟩
      · intro q hq
        rcases u2 q hq with h' | h'
        · rcases s2 q h' with h'' | h''
          · exact Or.inl h''
          · right; simp [h'']
        · right; simp [h']
      · rw [u4 h0, t3 h0]

/-- a pass of the while loop when a timeout was given -/
theorem passT_inv (deadline maxT : Rat) :
    ∀ (l : List Nat) (w w' : WP) (tmo tmo' : Rat), Inv envOf hasCb input w → l.Nodup →
      (∀ q ∈ l, q ∉ w.gone ∧ q ∈ input) → w.now < deadline + Spec.cap →
      passT c envOf hasCb fuel deadline maxT l w tmo = .ok (w', tmo') →
      Inv envOf hasCb input w' ∧ (∀ q ∈ w.gone, q ∈ w'.gone) ∧ (∀ q ∈ w'.gone, q ∈ w.gone ∨ q ∈ l) ∧
      w.now ≤ w'.now ∧ w'.now < deadline + Spec.cap := by
  intro l
  induction l with
  | nil =>
    intro w w' tmo tmo' hi _ _ hd h
    simp [passT] at h; obtain ⟨rfl, _⟩ := h
    exact ⟨hi, fun q hq => hq, fun q hq => Or.inl hq, le_refl _, hd⟩
  | cons pid rest ih =>
    intro w w' tmo tmo' hi hnd hl hd h
    simp only [passT] at h
    by_cases hbreak : rmin (deadline - w.now) maxT ≤ 0
    · simp only [hbreak, if_true] at h
      cases h
      exact ⟨hi, fun q hq => hq, fun q hq => Or.inl hq, le_refl _, hd⟩
    · simp only [hbreak, if_false] at h
      have htpos : 0 ≤ rmin (deadline - w.now) maxT := le_of_lt (lt_of_not_ge hbreak)
      cases hcg : checkGone c envOf hasCb fuel w pid (rmin (deadline - w.now) maxT) with
      | error o => rw [hcg] at h; cases h
      | ok w1 =>
        rw [hcg] at h; simp only at h
        obtain ⟨hn, hin⟩ := hl pid (by simp)
        obtain ⟨i1, s1, s2, t1, t2, _⟩ :=
          checkGone_step hg envOf hasCb fuel input w w1 pid _ htpos hi hn hin hcg
        have hd1 : w1.now < deadline + Spec.cap := by
          have := rmin_le_left (deadline - w.now) maxT
          linarith
        have hnd' := (List.nodup_cons.1 hnd)
        have hl' : ∀ q ∈ rest, q ∉ w1.gone ∧ q ∈ input := by
          intro q hq
          refine ⟨fun hq1 => ?_, (hl q (by simp [hq])).2⟩
          rcases s2 q hq1 with h' | h'
          · exact (hl q (by simp [hq])).1 h'
          · subst h'; exact hnd'.1 hq
        obtain ⟨i2, u1, u2, u3, u4⟩ := ih w1 w' _ tmo' i1 hnd'.2 hl' hd1 h
        refine ⟨i2, fun q hq => u1 q (s1 q hq), ?_, le_trans t1 u3, u4⟩
        intro q hq
        rcases u2 q hq with h' | h'
        · rcases s2 q h' with h'' | h''
          · exact Or.inl h''
          · right; simp [h'']
        · right; simp [h']

/-- loop-level invariant: the bookkeeping invariant + `alive` = the inputs not yet gone -/
def LInv (w : WP) (alive : List Nat) : Prop :=
  Inv envOf hasCb input w ∧ alive.Nodup ∧ ∀ q, q ∈ alive ↔ q ∈ input ∧ q ∉ w.gone

omit hg in
theorem linv_next {w w' : WP} {alive : List Nat} (hl : LInv envOf hasCb input w alive)
    (hi : Inv envOf hasCb input w') (hmono : ∀ q ∈ w.gone, q ∈ w'.gone) :
    LInv envOf hasCb input w' (stillAlive alive w'.gone) := by
  refine ⟨hi, nodup_stillAlive hl.2.1, fun q => ?_⟩
  rw [mem_stillAlive, hl.2.2 q]
  constructor
  · rintro ⟨⟨h1, _⟩, h3⟩; exact ⟨h1, h3⟩
  · rintro ⟨h1, h3⟩; exact ⟨⟨h1, fun h => h3 (hmono q h)⟩, h3⟩

omit hg in
theorem order_ok {w : WP} {alive : List Nat} (hl : LInv envOf hasCb input w alive) {o : List Nat}
    (hp : o.Perm alive) : o.Nodup ∧ ∀ q ∈ o, q ∉ w.gone ∧ q ∈ input := by
  refine ⟨(hp.nodup_iff).2 hl.2.1, fun q hq => ?_⟩
  have := (hl.2.2 q).1 ((hp.mem_iff).1 hq)
  exact ⟨this.2, this.1⟩

variable (order : Nat → List Nat → List Nat) (hperm : ∀ k l, (order k l).Perm l)
include hperm

theorem whileT_inv (deadline : Rat) :
    ∀ (k : Nat) (alive : List Nat) (w : WP) (tmo : Rat) (w' : WP) (alive' : List Nat),
      LInv envOf hasCb input w alive → w.now < deadline + Spec.cap →
      whileT c envOf hasCb fuel order deadline k alive w tmo = .ok (w', alive') →
      LInv envOf hasCb input w' alive' ∧ w.now ≤ w'.now ∧ w'.now < deadline + Spec.cap := by
  intro k
  induction k with
  | zero => intro alive w tmo w' alive' _ _ h; simp [whileT] at h
  | succ k ih =>
    intro alive w tmo w' alive' hl hd h
    simp only [whileT] at h
    by_cases he : alive.isEmpty = true
    · simp only [he, if_true] at h; cases h; exact ⟨hl, le_refl _, hd⟩
    · simp only [he, Bool.false_eq_true, if_false] at h
      by_cases ht : tmo ≤ 0
      · simp only [ht, if_true] at h; cases h; exact ⟨hl, le_refl _, hd⟩
      · simp only [ht, if_false] at h
        cases hp : passT c envOf hasCb fuel deadline (maxTimeout c alive) (order w.calls.length alive) w tmo with
        | error o => rw [hp] at h; cases h
        | ok r =>
          obtain ⟨w1, tmo1⟩ := r
          rw [hp] at h; simp only at h
          obtain ⟨hnd, hmem⟩ := order_ok envOf hasCb input hl (hperm w.calls.length alive)
          obtain ⟨i1, s1, _, t1, d1⟩ :=
            passT_inv hg envOf hasCb fuel input deadline _ _ w w1 tmo tmo1 hl.1 hnd hmem hd hp
          obtain ⟨r1, r2, r3⟩ := ih _ w1 tmo1 w' alive' (linv_next envOf hasCb input hl i1 s1) d1 h
          exact ⟨r1, le_trans t1 r2, r3⟩

theorem whileN_inv :
    ∀ (k : Nat) (alive : List Nat) (w : WP) (w' : WP) (alive' : List Nat),
      LInv envOf hasCb input w alive →
      whileN c envOf hasCb fuel order k alive w = .ok (w', alive') →
      LInv envOf hasCb input w' alive' ∧ w.now ≤ w'.now ∧ alive' = [] := by
  intro k
  induction k with
  | zero => intro alive w w' alive' _ h; simp [whileN] at h
  | succ k ih =>
    intro alive w w' alive' hl h
    simp only [whileN] at h
    by_cases he : alive.isEmpty = true
    · simp only [he, if_true] at h; cases h
      exact ⟨hl, le_refl _, List.isEmpty_iff.1 he⟩
    · simp only [he, Bool.false_eq_true, if_false] at h
      cases hp : passN c envOf hasCb fuel (maxTimeout c alive) (order w.calls.length alive) w with
      | error o => rw [hp] at h; cases h
      | ok w1 =>
        rw [hp] at h; simp only at h
        obtain ⟨hnd, hmem⟩ := order_ok envOf hasCb input hl (hperm w.calls.length alive)
        have hpos : 0 ≤ maxTimeout c alive := by
          unfold maxTimeout
          apply div_nonneg <;> exact Nat.cast_nonneg _
        obtain ⟨i1, s1, _, t1, _⟩ :=
          passN_inv hg envOf hasCb fuel input _ hpos _ w w1 hl.1 hnd hmem hp
        obtain ⟨r1, r2, r3⟩ := ih _ w1 w' alive' (linv_next envOf hasCb input hl i1 s1) h
        exact ⟨r1, le_trans t1 r2, r3⟩

theorem lastAttempt_inv (alive : List Nat) (w w' : WP) (alive' : List Nat)
    (hl : LInv envOf hasCb input w alive)
    (h : lastAttempt c envOf hasCb fuel order alive w = .ok (w', alive')) :
    LInv envOf hasCb input w' alive' ∧ w'.now = w.now ∧ (alive = [] → alive' = []) := by
  unfold lastAttempt at h
  by_cases he : alive.isEmpty = true
  · simp only [he, if_true] at h; cases h; exact ⟨hl, rfl, fun h => h⟩
  · simp only [he, Bool.false_eq_true, if_false] at h
    cases hp : passN c envOf hasCb fuel 0 (order w.calls.length alive) w with
    | error o => rw [hp] at h; cases h
    | ok w1 =>
      rw [hp] at h; simp only [Except.ok.injEq, Prod.mk.injEq] at h
      obtain ⟨rfl, rfl⟩ := h
      obtain ⟨hnd, hmem⟩ := order_ok envOf hasCb input hl (hperm w.calls.length alive)
      obtain ⟨i1, s1, _, _, t2⟩ :=
        passN_inv hg envOf hasCb fuel input 0 (le_refl _) _ w w1 hl.1 hnd hmem hp
      refine ⟨linv_next envOf hasCb input hl i1 s1, t2 rfl, fun h0 => ?_⟩
      rw [h0] at he; simp at he

/-- a fresh call: nothing gone yet, no callback made, every cached exit code is a true one -/
def Fresh (w : WP) : Prop :=
  w.gone = [] ∧ w.cbLog = [] ∧ w.cbSeen = [] ∧
  ∀ q v, (w.objs q).exitcode = some v → RightVal (envOf q) v ∧ endedBy (envOf q) w.now

/-- everything `wait_procs` guarantees about its final state, in one statement -/
theorem waitProcs_inv (procs : List Nat) (timeout : Option Rat) (w w' : WP) (alive' : List Nat)
    (hf : Fresh envOf w)
    (h : waitProcs c envOf procs timeout hasCb order fuel w = .ok (w', alive')) :
    LInv envOf hasCb (dedup procs) w' alive' ∧ w.now ≤ w'.now ∧
    (∀ τ, timeout = some τ → w'.now < w.now + τ + Spec.cap) ∧
    (timeout = none → alive' = []) := by
  obtain ⟨hg0, hcb0, hs0, hc0⟩ := hf
  have hl0 : LInv envOf hasCb (dedup procs) w (dedup procs) := by
    refine ⟨⟨by rw [hg0]; simp, by rw [hcb0, hg0]; simp, by rw [hg0]; simp, by rw [hg0]; simp, hc0,
        by rw [hs0]; simp, by rw [hs0, hcb0]; simp⟩,
      nodup_dedup procs, fun q => by rw [hg0]; simp⟩
  unfold waitProcs at h
  by_cases hneg : negative timeout = true
  · simp [hneg] at h
  · simp only [hneg, Bool.false_eq_true, if_false] at h
    cases ht : timeout with
    | some τ =>
      rw [ht] at h; simp only at h
      have hτ : 0 ≤ τ := by
        rw [ht] at hneg; simp [negative] at hneg; exact hneg
      cases hw : whileT c envOf hasCb fuel order (w.now + τ) fuel (dedup procs) w τ with
      | error o => rw [hw] at h; cases h
      | ok r =>
        obtain ⟨w1, alive1⟩ := r
        rw [hw] at h; simp only at h
        obtain ⟨l1, m1, d1⟩ := whileT_inv hg envOf hasCb fuel (dedup procs) order hperm (w.now + τ)
          fuel _ w τ w1 alive1 hl0 (by linarith [cap_pos]) hw
        obtain ⟨l2, n2, _⟩ := lastAttempt_inv hg envOf hasCb fuel (dedup procs) order hperm
          alive1 w1 w' alive' l1 h
        refine ⟨l2, (by rw [n2]; exact m1), ?_, fun h0 => (by cases h0)⟩
        intro τ' hτ'; cases hτ'; rw [n2]; exact d1
    | none =>
      rw [ht] at h; simp only at h
      cases hw : whileN c envOf hasCb fuel order fuel (dedup procs) w with
      | error o => rw [hw] at h; cases h
      | ok r =>
        obtain ⟨w1, alive1⟩ := r
        rw [hw] at h; simp only at h
        obtain ⟨l1, m1, e1⟩ := whileN_inv hg envOf hasCb fuel (dedup procs) order hperm
          fuel _ w w1 alive1 hl0 hw
        obtain ⟨l2, n2, e2⟩ := lastAttempt_inv hg envOf hasCb fuel (dedup procs) order hperm
          alive1 w1 w' alive' l1 h
        exact ⟨l2, (by rw [n2]; exact m1), fun τ' h0 => (by cases h0), fun _ => e2 e1⟩

end

end Psutil.C15
